"""C18 - RCU lists: readers concurrent with an updater always see a consistent list."""
from props import prop, case, H

H('rculist', ['rculist.c'])


def _c(name, flavor, variant, seconds, readers=2, cpus=4, extra=(), scale=1):
    args = ['--cfg=%s' % name, '--readers=%d' % readers, '--seconds=%g' % seconds] + list(extra)
    return case(name, 'rculist', flavor, variant, args, cpus=cpus, timeout=int(seconds * 4 + 120))


@prop('C18', 'RCU lists: readers concurrent with an updater always see a consistent list', 'exploration',
      'one evaluation = one reader traversal (one of the 5 *_rcu iteration macros over a cds_list / cds_hlist of '
      '0-12 nodes) checked against the updater\'s logged list versions that may have been current during its '
      '[start,end] TSC interval: step bound, no node twice, only members of an overlapping version, every node '
      'present in all overlapping versions, relative order, payload checksum / not retired. non-trivial = at least '
      'one update (add / add_tail / del / replace / hlist add_head / del) surely took effect inside the traversal '
      'interval; distinct = (list kind, iteration macro, multiset of overlapping update kinds capped at 2+, list '
      'length bucket) plus reader-on-removed-node signatures. Counter reader_on_removed_node = traversals in which '
      'the reader provably sat on a node while that node was removed or replaced (log join). ASan and TSan '
      'variants run the same workload; TSan decides publication-order breaks under the C11 model, and in the plain / '
      'asan builds 1 update in 16 executes the list primitive single-stepped (EFLAGS.TF, SIGTRAP handler delays '
      'after every instruction) so that readers traverse every intermediate state between two stores.',
      ['x86-64 TSO only', 'TSC synchronised across CPUs (re-measured each run; eps reported)',
       'gcc sanitizer runtimes', 'single updater at a time (two threads alternating under a mutex)',
       'version windows are widened by eps and by the store-buffer drain bound (stamp after the batch\'s unlock)',
       'TSan build: the harness models the TSO ordering of the relaxed unlink store of cds_list_del_rcu / '
       'cds_hlist_del_rcu with a release/acquire pair of its own (otherwise TSan reports the unchanged library)'])
def c18(tier, seed):
    out = []
    if tier == 'quick':
        out.append(_c('memb-plain', 'memb', 'plain', 24, readers=2))
        out.append(_c('memb-tsan', 'memb', 'tsan', 24, readers=2, extra=['--stall-ms=90000']))
        out.append(_c('memb-asan', 'memb', 'asan', 16, readers=2))
        return out
    s = 30
    # thorough: all flavors, 1..6 readers (readers beyond the CPU count share CPUs: preemption interleavings)
    out.append(_c('memb-plain', 'memb', 'plain', 18 * s, readers=2))
    out.append(_c('memb-plain-r1', 'memb', 'plain', 3 * s, readers=1, cpus=3))
    out.append(_c('memb-plain-r6', 'memb', 'plain', 5 * s, readers=6))
    out.append(_c('memb-tsan', 'memb', 'tsan', 18 * s, readers=2, extra=['--stall-ms=90000']))
    out.append(_c('memb-tsan-r4', 'memb', 'tsan', 5 * s, readers=4, extra=['--stall-ms=90000']))
    out.append(_c('memb-asan', 'memb', 'asan', 9 * s, readers=2))
    for fl in ('mb', 'qsbr', 'bp'):
        out.append(_c('%s-plain' % fl, fl, 'plain', 4 * s, readers=2))
        out.append(_c('%s-plain-r5' % fl, fl, 'plain', 2.5 * s, readers=5))
        out.append(_c('%s-tsan' % fl, fl, 'tsan', 4 * s, readers=3, extra=['--stall-ms=90000']))
        out.append(_c('%s-asan' % fl, fl, 'asan', 2.5 * s, readers=3))
    return out
