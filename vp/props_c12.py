"""C12 - the RCU lock-free queue cds_lfq_*_rcu is a linearizable FIFO; dummy nodes stay internal."""
from props import prop, case, H

# --wrap=malloc/free: private observation points of harness/lfq_api.h (make_dummy() window inside dequeue,
# free() inside an operation / inside destroy)
H('lfq', ['lfq.c', 'lin.c'], ldflags=['-Wl,--wrap=malloc', '-Wl,--wrap=free'])


def _ep(name, variant, seconds, flavor='memb', lgpl=True, extra=(), cpus=4):
    args = ['--cfg=%s' % name, '--mode=episodes', '--seconds=%g' % seconds, '--workers=%d' % min(cpus, 4),
            '--placement=0'] + list(extra)
    return case(name, 'lfq', flavor, variant, args, cpus=cpus, timeout=int(seconds * 4 + 150), lgpl=lgpl)


def _long(name, variant, nodes, threads, flavor='memb', reclaim='mix', seconds=60, lgpl=True, extra=()):
    args = ['--cfg=%s' % name, '--mode=long', '--nodes=%d' % nodes, '--threads=%d' % threads, '--reclaim=%s' % reclaim,
            '--seconds=%g' % seconds, '--placement=0'] + list(extra)
    return case(name, 'lfq', flavor, variant, args, cpus=threads, timeout=int(seconds * 3 + 150), lgpl=lgpl)


@prop('C12', 'RCU lock-free queue is a linearizable FIFO; dummy nodes stay internal; destroy iff empty', 'exploration',
      'EPISODES: one evaluation = one short history (2-4 pinned threads x 1-6 operations cds_lfq_enqueue_rcu / '
      'cds_lfq_dequeue_rcu -> node | NULL, every call inside a read-side section of the flavor; the controller '
      'first enqueues 0-5 nodes and dequeues some of them so that episodes start with and without a dummy at the '
      'head, and at quiescence attempts cds_lfq_destroy_rcu() and drains) decided by the Wing-Gong-Lowe checker '
      'against a FIFO model with unique node ids (program order enforced; budget 2e6 search nodes => inconclusive). '
      'Direct oracles per episode: destroy returns 0 iff #enqueued == #dequeued (else -EPERM, nothing else) and '
      'free()s exactly the dummy node(s) of the chain iff 0 (an empty queue may hold several dummies when concurrent '
      'dequeuers each enqueued one: key lfq:destroy-eperm-on-empty-queue, defect fixed by 32ee2aa); after a NULL at '
      'quiescence the chain is exactly one dummy with the tail on it; '
      'a returned node never has the dummy flag, is never returned twice (magic) and carries its payload. Dummy '
      'oracle: the queue_call_rcu given to cds_lfq_init_rcu is an interposer that validates every head (dummy '
      'flag, right queue, not handed twice, no longer q->head, next != NULL, only from dequeue), forwards to the '
      'flavor\'s real call_rcu and runs the library\'s callback from its own (plain builds: poison + quarantine, '
      'canary checked; asan/tsan: really freed); free() inside enqueue/dequeue is a violation (link-time '
      'malloc/free wrappers); at the end allocated dummies == handed over + freed by destroy + left in the queue. '
      '1 episode in 24 is targeted: an enqueuer parked at LFQ_ENQ_LINKED (node linked, tail not advanced), a '
      'dequeuer parked there inside its enqueue_dummy(), or 1-2 dequeuers parked in make_dummy() (between '
      '"head->next == NULL" and the enqueue of the fresh dummy) while the other threads run to completion (stuck-'
      'state detector) - the history with the parked operation spanning the others must be linearizable. '
      'non-trivial = a dequeue overlapped an operation of another thread; distinct = (#threads, targeted kind, '
      'overlapping kind pairs, markers helped-tail / dummy-dequeued / dummy-alloc-window hit in that episode, NULL '
      'seen, initial content, destroy result), capped at 2500. LONG RUNS (nodes/1000 evaluations, counter '
      'longrun_nodes): 2-8 threads each enqueueing and dequeueing with a backlog bound cycling through 1..1500: '
      'exactly-once + no loss (per-producer counters, seen map, magic), conservation after the final drain, '
      'per-producer order per consumer and against what other consumers published before the call, real-time order '
      '/ presence cover (a node whose enqueue had returned more than eps before the call stamp of an already '
      'returned NULL dequeue / of the enqueue of an already dequeued node must not come out afterwards), '
      'dequeued nodes reclaimed through call_rcu, or batched and freed / RE-ENQUEUED after synchronize_rcu.',
      ['x86-64 TSO only', 'TSC synchronised across CPUs (re-measured each run; eps reported)', 'gcc sanitizer runtimes',
       'URCU_VP_LFQ_DEQ_RETRY is declared in verif.h but not placed in rculfqueue.h: head-cmpxchg retries are not counted',
       'the window between "head->next == NULL" and enqueue_dummy() has no hook point: it is entered through the '
       'link-time malloc() wrapper (make_dummy is the only allocation inside a dequeue)',
       'a thread blocked for ever by a thread suspended at LFQ_ENQ_LINKED is reported (hang:lfq:*-blocked-by-thread-suspended-*) '
       'because C12 quantifies over such suspensions; it is a progress defect, FIFO order is not affected',
       'linearizability search bounded to 2e6 nodes per history; memb flavor only in most quick cases'])
def c12(tier, seed):
    out = []
    if tier == 'quick':
        out.append(_ep('ep-plain', 'plain', 14))
        out.append(_ep('ep-tsan', 'tsan', 12, extra=['--stall-ms=60000']))
        out.append(_ep('ep-asan', 'asan', 10))
        out.append(_ep('ep-nolgpl', 'plain', 8, lgpl=False))
        out.append(_ep('ep-builtins', 'builtins', 6))
        out.append(_ep('ep-qsbr', 'plain', 6, flavor='qsbr'))
        out.append(_ep('ep-bp', 'plain', 6, flavor='bp'))
        out.append(_long('long-plain-t4', 'plain', 10000000, 4, seconds=40))
        out.append(_long('long-plain-t6-callrcu', 'plain', 6000000, 6, reclaim='callrcu', seconds=40))
        out.append(_long('long-plain-t2-recycle', 'plain', 5000000, 2, reclaim='recycle', seconds=40))
        out.append(_long('long-nolgpl-t3', 'plain', 4000000, 3, seconds=30, lgpl=False))
        out.append(_long('long-qsbr-t4', 'plain', 4000000, 4, flavor='qsbr', seconds=30))
        out.append(_long('long-bp-t3-sync', 'plain', 2000000, 3, flavor='bp', reclaim='sync', seconds=30))
        out.append(_long('long-asan-t4', 'asan', 1500000, 4, seconds=40))
        out.append(_long('long-tsan-t3', 'tsan', 500000, 3, seconds=40, extra=['--stall-ms=60000']))
        return out
    s = 30
    out.append(_ep('ep-plain', 'plain', 10 * s))
    out.append(_ep('ep-plain-pairs', 'plain', 3 * s, extra=['--placement=1']))
    out.append(_ep('ep-plain-w3', 'plain', 3 * s, cpus=3))
    out.append(_ep('ep-plain-w2', 'plain', 2 * s, cpus=2))
    out.append(_ep('ep-plain-nochaos', 'plain', 3 * s, extra=['--chaos=0']))
    out.append(_ep('ep-plain-targeted', 'plain', 4 * s, extra=['--freeze-every=2']))
    out.append(_ep('ep-builtins', 'builtins', 4 * s))
    out.append(_ep('ep-tsan', 'tsan', 12 * s, extra=['--stall-ms=60000']))
    out.append(_ep('ep-asan', 'asan', 10 * s))
    out.append(_ep('ep-nolgpl', 'plain', 8 * s, lgpl=False))
    out.append(_ep('ep-nolgpl-asan', 'asan', 4 * s, lgpl=False))
    for fl in ('mb', 'qsbr', 'bp'):
        out.append(_ep('ep-%s' % fl, 'plain', 4 * s, flavor=fl))
        out.append(_ep('ep-%s-asan' % fl, 'asan', 2 * s, flavor=fl))
        out.append(_ep('ep-%s-tsan' % fl, 'tsan', 2 * s, flavor=fl, extra=['--stall-ms=60000']))
    out.append(_long('long-plain-t4', 'plain', 40000000, 4, seconds=20 * s))
    out.append(_long('long-plain-t6-callrcu', 'plain', 20000000, 6, reclaim='callrcu', seconds=20 * s))
    out.append(_long('long-plain-t8', 'plain', 20000000, 8, seconds=20 * s))
    out.append(_long('long-plain-t2-recycle', 'plain', 20000000, 2, reclaim='recycle', seconds=20 * s))
    out.append(_long('long-plain-t3-sync', 'plain', 10000000, 3, reclaim='sync', seconds=20 * s))
    out.append(_long('long-builtins-t4', 'builtins', 10000000, 4, seconds=20 * s))
    out.append(_long('long-nolgpl-t3', 'plain', 20000000, 3, seconds=20 * s, lgpl=False))
    for fl in ('mb', 'qsbr', 'bp'):
        out.append(_long('long-%s-t4' % fl, 'plain', 10000000, 4, flavor=fl, seconds=20 * s))
    out.append(_long('long-asan-t4', 'asan', 6000000, 4, seconds=20 * s))
    out.append(_long('long-asan-qsbr-t4', 'asan', 3000000, 4, flavor='qsbr', seconds=20 * s))
    out.append(_long('long-tsan-t3', 'tsan', 3000000, 3, seconds=20 * s, extra=['--stall-ms=60000']))
    out.append(_long('long-tsan-bp-t3', 'tsan', 1500000, 3, flavor='bp', seconds=20 * s, extra=['--stall-ms=60000']))
    return out
