"""C19 - read-side critical sections inside signal handlers (memb, mb, bp; qsbr excluded by the statement)."""
from props import prop, case, H

# pthread_sigmask is shimmed: urcu-bp blocks all signals in register / unregister / synchronize_rcu; a single-step
# trap while SIGTRAP is blocked kills the process, so the shim suspends the stepping from the blocking call to the
# restoring call, and records the masked region so that the handlers can assert they never run inside it.
H('sigrd', ['sigrd.c'], ldflags=['-Wl,--wrap=pthread_sigmask'])


def _c(name, fl, variant, args, env=None, cpus=5, timeout=300, lgpl=True):
    return case(name, 'sigrd', fl, variant, ['--cfg=%s' % name] + list(args), env or {}, cpus=cpus, timeout=timeout, lgpl=lgpl)


@prop('C19', 'Read-side critical sections are safe inside signal handlers (memb, mb, bp)', 'fault_enumeration',
      'one evaluation = one execution of the signal handler of the property: it reads the interrupted thread\'s reader '
      'word (URCU_TLS reader .ctr; bp: through the registry slot) and rcu_read_ongoing(), runs rcu_read_lock(); '
      'p = rcu_dereference(shared); validate {state,id,checksum,self}; message-passing loads; optional nested pair; '
      'heavy-tailed delay; validate again; rcu_read_unlock(), re-reads the word and rcu_read_ongoing() and compares: '
      'nesting count identical, whole word identical when nesting != 0 (phase bits of an idle word may change), '
      'rcu_read_ongoing() identical and consistent with the word, nesting inside the handler = nesting before + 1. '
      'Interruption points are ENUMERATED: a pinned victim thread sets EFLAGS.TF around rcu_read_lock (0->1, 1->2, '
      '2->3), rcu_read_unlock (3->2, 2->1, 1->0 with / without a grace period asleep on the futex), rcu_read_ongoing, '
      'a whole reader section, synchronize_rcu, call_rcu, bp: the first rcu_read_lock of a fresh thread (automatic '
      'registration) and the thread-exit path up to the library\'s SIG_BLOCK; the SIGTRAP handler (= the handler of the '
      'property) runs after every retired instruction of the region. In addition SIGUSR1 from a pinned chaos thread '
      'hits every registered thread at random instants (readers inside sections, registered updaters inside '
      'synchronize_rcu / call_rcu), lands inside the SIGTRAP handler (depth 2), and the SIGUSR1 handler single-steps '
      'its own lock/unlock pair (depth 3). After every stepped library call the victim compares the nesting count '
      'with its own bookkeeping (the interrupted call is not damaged). Background readers / updaters / call_rcu users '
      'run the C01 oracles on all levels: poison + quarantine (ASan: real free), message passing, GP-interval with '
      'every handler section logged as a reader section of the interrupted thread (one stream per handler depth). '
      'bp: pthread_sigmask is shimmed: a handler that runs between the library\'s SIG_BLOCK and its restore is a '
      'violation, the real mask is probed at hook points inside add_thread / synchronize_rcu, and the arena census '
      'after every fresh-thread episode must return to the baseline (double registration leaks a slot). '
      'non-trivial = the handler interrupted the thread inside a tagged library call / reader section, inside '
      'library or read-side wrapper code (program counter from ucontext, attributed through the ELF symbol table), '
      'or while nesting > 0; distinct = (configuration, function, offset) of interrupted program counters (offsets '
      'of functions with > 200 points bucketed by 16; at most 2400 per case).',
      ['x86-64 only (EFLAGS.TF single-stepping; TSO)', 'TSC synchronised across CPUs (re-measured each run; eps reported)',
       'interruption points are those of the paths the workload executes; instructions between the library\'s '
       'pthread_sigmask(SIG_BLOCK) and its restore cannot be interrupted by construction and are not stepped',
       'handlers run on the normal stack (sigaltstack handlers are excluded by the documentation)',
       'no tsan variant: ThreadSanitizer runs asynchronous handlers only at its own delivery points (atomic '
       'operations, interceptor exits), i.e. never at arbitrary instructions; one of these points is the reader-word '
       'store of rcu_read_unlock(), after the library\'s cmm_annotate_mem_release(), which yields a formal race report '
       'without behavioural meaning on x86; and under this signal load the TSan runtime left a reader thread stuck '
       'in a 2 ms usleep() with no signal delivered any more in about 1 of 10-40 runs (seen with gdb), so the '
       'variant cannot be kept silent. The harness still builds with -fsanitize=thread (asynchronous mode) for '
       'manual use. Happens-before checking of reader sections is done by C01/C15 on the same library code',
       'bp: the automatic registration by a handler on a not yet registered thread is allowed (that is what the '
       're-check after blocking signals is for); memb/mb: handlers only run read-side sections between '
       'rcu_register_thread() and rcu_unregister_thread() as README requires'])
def c19(tier, seed):
    q = tier == 'quick'
    s = 1 if q else 30
    to = 300 if q else 300 * s
    pl = ['--placement=0']
    pl_small = ['--placement=%d' % (seed % 2 if q else seed % 3)]
    ls = ['--logscale=%d' % (1 if q else 6)]
    nomb = {'VP_NO_MEMBARRIER': '1'}
    out = []
    # (a)+(b): single-stepping + asynchronous signals, production code path
    out.append(_c('step-memb', 'memb', 'plain', ['--traps=%d' % (400000 * s)] + pl + ls, cpus=5, timeout=to))
    out.append(_c('step-mb', 'mb', 'plain', ['--traps=%d' % (400000 * s)] + pl + ls, cpus=5, timeout=to))
    out.append(_c('step-bp', 'bp', 'plain', ['--traps=%d' % (340000 * s), '--episodes=%d' % (400 * s)] + pl + ls, cpus=5, timeout=to))
    # sys_membarrier not available: read side uses real fences
    out.append(_c('step-memb-nomb', 'memb', 'plain', ['--traps=%d' % (100000 * s)] + pl_small + ls, nomb, cpus=5, timeout=to))
    out.append(_c('step-bp-nomb', 'bp', 'plain', ['--traps=%d' % (80000 * s), '--episodes=%d' % (100 * s)] + pl_small + ls, nomb, cpus=5,
                  timeout=to))
    # exported wrappers (different code generation of the read-side functions)
    out.append(_c('step-memb-nolgpl', 'memb', 'plain', ['--traps=%d' % (70000 * s)] + pl_small + ls, cpus=5, timeout=to, lgpl=False))
    out.append(_c('step-mb-nolgpl', 'mb', 'plain', ['--traps=%d' % (50000 * s)] + pl_small + ls, cpus=4, timeout=to, lgpl=False))
    out.append(_c('step-bp-nolgpl', 'bp', 'plain', ['--traps=%d' % (50000 * s), '--episodes=%d' % (80 * s)] + pl_small + ls, cpus=5,
                  timeout=to, lgpl=False))
    # atomic-builtins configuration
    out.append(_c('step-memb-builtins', 'memb', 'builtins', ['--traps=%d' % (70000 * s)] + pl_small + ls, cpus=5, timeout=to))
    out.append(_c('step-bp-builtins', 'bp', 'builtins', ['--traps=%d' % (50000 * s), '--episodes=%d' % (80 * s)] + pl_small + ls, cpus=5,
                  timeout=to))
    # ASan: objects really freed; stepping works but is slower, so most of the volume is asynchronous
    out.append(_c('asan-step-memb', 'memb', 'asan', ['--traps=%d' % (40000 * s), '--force-step=1'] + pl + ls, cpus=5, timeout=to))
    out.append(_c('asan-async-mb', 'mb', 'asan', ['--asyncs=%d' % (50000 * s)] + pl_small + ls, cpus=4, timeout=to))
    out.append(_c('asan-step-bp', 'bp', 'asan', ['--traps=%d' % (30000 * s), '--episodes=%d' % (60 * s), '--force-step=1'] + pl + ls,
                  cpus=5, timeout=to))
    # futex() unavailable (ENOSYS for every call): the compat wake-up paths run inside and under asynchronous handlers
    out.append(_c('async-memb-enosys', 'memb', 'plain', ['--step=0', '--asyncs=%d' % (120000 * s), '--f-enosys=1'] + pl + ls, cpus=5,
                  timeout=to))
    # No tsan case: see the assumptions (ThreadSanitizer defers asynchronous signals to its own delivery points,
    # cannot be single-stepped, and its runtime wedges threads under this signal load about once in 10-40 runs).
    if not q:
        # asynchronous-only volume on the production build, packed placement (preemption interleavings)
        for fl in ('memb', 'mb', 'bp'):
            out.append(_c('async-%s' % fl, fl, 'plain', ['--step=0', '--asyncs=%d' % (3000000 * (s // 10)), '--placement=2'] + ls,
                          cpus=4, timeout=to))
            out.append(_c('step-%s-pairs' % fl, fl, 'plain', ['--traps=%d' % (100000 * s), '--placement=1', '--episodes=2000'] + ls,
                          cpus=5, timeout=to))
    return out
