#!/usr/bin/env python3
"""Regenerate MANIFEST.json from vp/props.py (claimed properties) + manifest_meta.json."""
import json, subprocess, sys
from pathlib import Path
sys.path.insert(0, str(Path(__file__).resolve().parent))
import props
VERIF = Path(__file__).resolve().parent.parent
meta = json.loads((VERIF / 'vp' / 'manifest_meta.json').read_text())
all_ids = [json.loads(l)['id'] for l in (VERIF / 'properties.jsonl').read_text().splitlines() if l.strip()]
commits = subprocess.run(['git', '-C', '/repo', 'log', '--format=%H %s'], stdout=subprocess.PIPE).stdout.decode().splitlines()
hook_commits = [c.split()[0] for c in commits if c.split(' ', 1)[1].startswith('verif:')]
checks = []
for pid in all_ids:
    if pid not in props.PROPS or pid not in meta.get('ready', list(props.PROPS)):
        continue
    spec = props.PROPS[pid]
    m = meta['checks'].get(pid, {})
    checks.append(dict(
        property_id=pid,
        quick_cmd='./check %s --tier quick' % pid,
        thorough_cmd='./check %s --tier thorough' % pid,
        evidence_file='/verif/evidence/%s.json' % pid,
        replay_cmd_template='./check %s --replay {path}' % pid,
        engine='vp-runtime-monitor',
        level_claimed=dict(category=spec['level'], text=m.get('text', spec['rule']), design_ref='DESIGN.md section 2, %s' % pid),
        level_note=m.get('note', '; '.join(spec['assumptions'])),
        technique=m.get('technique', 'runtime monitoring: stress + delay/fault injection, recorded-event oracles, ASan/UBSan/TSan'),
    ))
na = [dict(property_id=pid, reason=meta['not_applicable'].get(pid, 'check not built yet (work in progress; not a claim that the technique cannot apply)'))
      for pid in all_ids if pid not in props.PROPS or pid not in meta.get('ready', list(props.PROPS))]
man = dict(
    version=1,
    setup_cmd='./check --setup',
    hooks=dict(guard='URCU_VERIF', enable='checks compile /repo/src and /repo/include directly with -DURCU_VERIF (vp/build.py); hook handler is harness/vp_common.c:urcu_verif_hook_fn',
               baseline_off_cmd='cd /repo && make -k check', source_commits=hook_commits, add_only=True),
    engines=[dict(name='vp-runtime-monitor', path='/verif/vp/check.py', serves_properties=[c['property_id'] for c in checks],
                  kind_free_text='python driver + C harnesses linked against the real library sources; oracles over recorded events, sanitizers')],
    checks=checks,
    notes=meta.get('notes', ''),
    not_applicable=na,
)
(VERIF / 'MANIFEST.json').write_text(json.dumps(man, indent=1) + '\n')
print('MANIFEST.json: %d checks, %d not_applicable' % (len(checks), len(na)))
