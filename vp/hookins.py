#!/usr/bin/env python3
"""One-off helper used while authoring the URCU_VERIF hook commits in /repo.

usage (python): from hookins import ins, preamble
ins(path, anchor, where, text, occ=0): insert `text` (one or more lines, no
trailing newline needed) before/after the occ-th line containing `anchor`.
Only ever adds lines.
"""
import sys, re

PRE = """#ifdef URCU_VERIF
#include <urcu/verif.h>
#else
#ifndef urcu_verif_point
#define urcu_verif_point(id, ctx) do { } while (0)
#endif
#endif
"""

def ins(path, anchor, where, text, occ=0):
    lines = open(path).read().split('\n')
    idx = [i for i, l in enumerate(lines) if anchor in l]
    if len(idx) <= occ:
        raise SystemExit(f"anchor {anchor!r} occ {occ} not found in {path} ({len(idx)} hits)")
    i = idx[occ]
    new = text.rstrip('\n').split('\n')
    if where == 'after':
        lines[i + 1:i + 1] = new
    elif where == 'before':
        lines[i:i] = new
    else:
        raise SystemExit("where?")
    open(path, 'w').write('\n'.join(lines))

def preamble(path, anchor, where='after', occ=0):
    ins(path, anchor, where, PRE, occ)
