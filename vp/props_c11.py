"""C11 - stacks are LIFO: cds_wfs / cds_lfs / cds_lfs_*_rcu lose nothing, duplicate nothing."""
from props import prop, case, H

# _cds_lfs_push() evaluates &head->node with head == NULL on its first iteration (offset 0, harmless in
# practice): UBSan's null check aborts on it in the UNCHANGED library, which is not what C11 states.
H('stack', ['stack.c', 'lin.c'], cflags=['-fno-sanitize=null'])


def _c(name, variant, mode, seconds, extra=(), lgpl=True, flavor='memb', threads=4):
    args = ['--mode=%s' % mode, '--seconds=%g' % seconds, '--threads=%d' % threads] + list(extra)
    return case(name, 'stack', flavor, variant, args, cpus=4, timeout=int(seconds * 4 + 150), lgpl=lgpl)


@prop('C11', 'Stacks are LIFO: push/pop/pop_all lose nothing, duplicate nothing', 'exploration',
      'one evaluation = one episode (2-4 pinned workers x 1-6 random operations push / pop {blocking, nonblocking, '
      'with_state} / pop_all + iteration {for_each, for_each_safe, next_nonblocking} / empty on a persistent stack; '
      'controller prefill and final drain are part of the history) decided by the Wing-Gong-Lowe checker against a '
      'LIFO + pop_all model (push result = stack was non-empty, LAST state, WOULDBLOCK = no-op; program order and '
      'prefill-first / drain-last enforced by the model; budget 2e6 search nodes => inconclusive). Kinds wfs, lfs, '
      'lfs_rcu x schemes pop-mutex (cds_*_blocking or explicit pop_lock + __cds_*), single consumer, rcu (pop inside '
      'a read-side section, nodes reused after a grace period). non-trivial = a pop / pop_all overlapped >= 1 push of '
      'another thread; distinct = (kind, scheme, #workers, frozen-pusher?, set of overlapping operation-class '
      'pairs). wfs: every 97th episode parks a pusher at URCU_VP_WFS_PUSH_MID while a prober runs the nonblocking '
      'calls (exact results required). Long runs (counters long_*): exactly-once via per-popper bitmaps, '
      'conservation, per-pusher decreasing order inside one pop_all chain, node state machine, quiescent '
      'empty()/LAST/NULL checks. ABA runs (counters aba_*): 16-node pool recycled through synchronize_rcu() with '
      'poppers delayed between next-load and cmpxchg; node state machine, final accounting, poisoned next. '
      'ASan (nodes really freed: at once under mutex / single consumer, after a grace period under rcu) and TSan '
      'variants of the episodes; one case compiled without _LGPL_SOURCE calls the exported wrappers.',
      ['x86-64 TSO only', 'TSC synchronised across CPUs (re-measured each run; eps reported)',
       'gcc sanitizer runtimes', 'episodes hold <= 64 operations; memb flavor in the quick tier',
       'the ABA negative control (--aba-no-gp=1) is not part of the check'])
def c11(tier, seed):
    out = []
    if tier == 'quick':
        out.append(_c('ep-plain', 'plain', 'episodes', 14))
        out.append(_c('ep-tsan', 'tsan', 'episodes', 12))
        out.append(_c('ep-asan', 'asan', 'episodes', 10))
        out.append(_c('ep-nolgpl', 'plain', 'episodes', 8, lgpl=False))
        out.append(_c('long-plain', 'plain', 'long', 12))
        out.append(_c('aba-plain', 'plain', 'aba', 12))
        out.append(_c('aba-asan-malloc', 'asan', 'aba', 5, extra=['--aba-malloc=1']))
        return out
    s = 30
    out.append(_c('ep-plain', 'plain', 'episodes', 10 * s))
    out.append(_c('ep-plain-t3', 'plain', 'episodes', 4 * s, threads=3))
    out.append(_c('ep-plain-nodelay', 'plain', 'episodes', 4 * s, extra=['--hook-prob=0']))
    out.append(_c('ep-builtins', 'builtins', 'episodes', 4 * s))
    out.append(_c('ep-tsan', 'tsan', 'episodes', 12 * s))
    out.append(_c('ep-asan', 'asan', 'episodes', 10 * s))
    out.append(_c('ep-nolgpl', 'plain', 'episodes', 6 * s, lgpl=False))
    for fl in ('mb', 'bp', 'qsbr'):
        out.append(_c('ep-plain-%s' % fl, 'plain', 'episodes', 2 * s, extra=['--schemes=rcu'], flavor=fl))
    out.append(_c('long-plain', 'plain', 'long', 12 * s))
    out.append(_c('long-nolgpl', 'plain', 'long', 3 * s, lgpl=False))
    out.append(_c('long-asan', 'asan', 'long', 4 * s))
    out.append(_c('long-tsan', 'tsan', 'long', 4 * s))
    out.append(_c('aba-plain', 'plain', 'aba', 10 * s))
    out.append(_c('aba-plain-pool8', 'plain', 'aba', 4 * s, extra=['--pool=8']))
    out.append(_c('aba-plain-pool32', 'plain', 'aba', 4 * s, extra=['--pool=32', '--aba-delay-prob=0.15']))
    out.append(_c('aba-asan-malloc', 'asan', 'aba', 5 * s, extra=['--aba-malloc=1']))
    for fl in ('mb', 'bp'):
        out.append(_c('aba-plain-%s' % fl, 'plain', 'aba', 2 * s, flavor=fl))
    return out
