"""C08: sequential behaviour of cds_lfht equals a reference multimap (harness lfht_seq.c)."""
from props import prop, case, H

H('lfht_seq', ['lfht_seq.c'])


@prop('C08', 'Hash table: sequential behaviour equals a reference multimap for all inputs', 'exploration',
      'one evaluation = one API operation (or cds_lfht_new attempt) whose result was compared with the reference '
      'multimap; non-trivial = a generated sequence that reached a bucket chain of >= 2 nodes, >= 2 duplicates of one '
      'key, an explicit resize or a background (AUTO_RESIZE) size change; distinct = signatures (allocator / custom '
      'alloc, flags, init-min-max shape, classes of API operations used, max chain length bucket, sizes visited bucket).',
      ['one thread at a time operates (threads hand over between operations); the AUTO_RESIZE worker runs concurrently',
       'cds_lfht_resize only to powers of two, 0, values >= max_nr_buckets and ULONG_MAX (non-power-of-two targets '
       'below max never return on this tree: property C09; enable with --resize-nonpow2=1)',
       'qsbr: no explicit cds_lfht_resize on AUTO_RESIZE tables (worker vs. caller deadlock belongs to C09); '
       'cds_lfht_resize is called from an online qsbr thread except in case seq-qsbr-asan-resize-offline; '
       'cds_lfht_destroy from an offline one',
       'resize targets and max_nr_buckets reached are capped at 2^15 buckets; approx_before/after of count_nodes '
       'are documented as approximate and only recorded as statistics',
       'x86-64, gcc sanitizer runtimes'])
def c08(tier, seed):
    q = tier == 'quick'
    scale = 1 if q else 30
    out = []

    def add(name, flavor, variant, seqs, extra=(), timeout=150):
        out.append(case(name, 'lfht_seq', flavor, variant, ['--seqs=%d' % (seqs * scale)] + list(extra),
                        cpus=2, timeout=timeout * scale))

    add('seq-memb-plain', 'memb', 'plain', 30000)
    add('seq-memb-plain-2thr', 'memb', 'plain', 25000, ['--threads=2'])
    add('seq-memb-plain-auto-lowcommit', 'memb', 'plain', 8000,
        ['--focus=auto', '--tun-commit-order=2', '--tun-part-order=5'])
    add('seq-memb-asan', 'memb', 'asan', 8000)
    add('seq-memb-asan-2thr', 'memb', 'asan', 6000, ['--threads=2'])
    add('seq-memb-asan-auto-lowcommit', 'memb', 'asan', 2500,
        ['--focus=auto', '--tun-commit-order=2', '--tun-part-order=5', '--threads=2'])
    if not q:
        for fl in ('mb', 'qsbr', 'bp'):
            add('seq-%s-plain' % fl, fl, 'plain', 3000, ['--threads=2'])
            add('seq-%s-asan' % fl, fl, 'asan', 1200, ['--threads=2'])
            add('seq-%s-plain-auto-lowcommit' % fl, fl, 'plain', 1500,
                ['--focus=auto', '--tun-commit-order=2', '--tun-part-order=5'])
        # qsbr caller of cds_lfht_resize offline (the literal reading of the header rule): kept apart
        # because the library then asserts in DEBUG_RCU builds (reported finding)
        add('seq-qsbr-asan-resize-offline', 'qsbr', 'asan', 10, ['--qsbr-resize-offline=1', '--focus=noauto'])
        for mm in ('order', 'chunk', 'mmap'):
            add('seq-memb-asan-%s' % mm, 'memb', 'asan', 800, ['--focus=%s' % mm])
    return out
