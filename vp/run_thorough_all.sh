#!/bin/sh
# runs every thorough check once, sequentially; prints one summary line per property
for p in ${THOROUGH_LIST:-C20 C18 C08 C10 C11 C12 C14 C13 C01 C02 C15 C03 C04 C05 C06 C07 C09 C16 C17 C19}; do
  t0=$(date +%s)
  ./check $p --tier thorough > thorough_$p.log 2>&1
  rc=$?
  echo "$p rc=$rc $(( $(date +%s) - t0 ))s $(tail -1 thorough_$p.log)"
done
