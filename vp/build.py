"""Build the code under test (directly from $REPO/src, $REPO/include) and the harnesses.

One static archive per sanitizer variant holding *all four flavors* plus the
common and cds objects, one vp runtime object set per variant, one binary per
(harness, flavor, variant[, nolgpl]).  Everything is cached under
build/<hash>/ where <hash> covers the contents of every input file.
"""
import hashlib
import os
import re
import shutil
import subprocess
import sys
import threading
import queue
from concurrent.futures import ThreadPoolExecutor
from pathlib import Path

VERIF = Path(__file__).resolve().parent.parent
REPO = Path(os.environ.get('VERIF_REPO', '/repo'))
HARNESS_DIR = VERIF / 'harness'
CFG_DIR = VERIF / 'cfg'
BUILD_ROOT = Path(os.environ.get('VERIF_BUILD_ROOT', str(VERIF / 'build')))

VARIANTS = {
    'plain': dict(cc='gcc', cflags=['-O2', '-g'], cfg='default'),
    'asan': dict(cc='gcc', cflags=['-O1', '-g', '-fsanitize=address,undefined',
                                   '-fno-sanitize-recover=all', '-fno-sanitize=alignment', '-fno-omit-frame-pointer',
                                   '-DDEBUG_RCU'], cfg='default'),
    'tsan': dict(cc='gcc', cflags=['-O1', '-g', '-fsanitize=thread'], cfg='builtins'),
    'builtins': dict(cc='gcc', cflags=['-O2', '-g'], cfg='builtins'),
}

LIB_COMMON = ['wfqueue.c', 'wfcqueue.c', 'wfstack.c', 'compat_arch.c', 'compat_futex.c',
              'rculfqueue.c', 'rculfstack.c', 'lfstack.c', 'workqueue.c', 'rculfhash.c',
              'rculfhash-mm-order.c', 'rculfhash-mm-chunk.c', 'rculfhash-mm-mmap.c',
              'urcu-pointer.c']
FLAVOR_DEF = {'memb': '-DRCU_MEMBARRIER', 'mb': '-DRCU_MB', 'qsbr': '-DRCU_QSBR', 'bp': '-DVP_RCU_BP'}
HARNESS_FLAVOR_DEF = {'memb': '-DVP_FL_MEMB', 'mb': '-DVP_FL_MB', 'qsbr': '-DVP_FL_QSBR', 'bp': '-DVP_FL_BP'}
RUNTIME_SRCS = ['vp_common.c', 'vp_tun.c']

# harness name -> source files (first is main), extra cflags
HARNESSES = {}


def register_harness(name, srcs, cflags=None, ldflags=None):
    HARNESSES[name] = dict(srcs=srcs, cflags=cflags or [], ldflags=ldflags or [])


def all_cpus():
    return sorted(os.sched_getaffinity(0))


def _hash_files(paths, extra=b''):
    h = hashlib.sha256()
    for p in sorted(set(paths)):
        if not p.is_file():
            continue
        h.update(str(p).encode())
        h.update(b'\0')
        h.update(p.read_bytes())
        h.update(b'\0')
    h.update(extra)
    return h.hexdigest()[:20]


LIB_HARNESS_FILES = ['lib_flavor.c', 'vp_peek.h', 'vp_tun.h', 'vp_tun.c', 'vp_common.c', 'vp.h']
_lib_key = None
_build_dir = None


def lib_key():
    """Hash of everything the library archive + runtime objects depend on."""
    global _lib_key
    if _lib_key is None:
        paths = []
        for base, pats in ((REPO / 'src', ('*.c', '*.h')), (REPO / 'include', ('**/*.h',)),
                           (CFG_DIR, ('**/*.h',))):
            for pat in pats:
                paths.extend(base.glob(pat))
        paths += [HARNESS_DIR / f for f in LIB_HARNESS_FILES]
        paths.append(VERIF / 'vp' / 'build.py')
        _lib_key = _hash_files(paths, str(REPO).encode())
    return _lib_key


def harness_key(h):
    spec = HARNESSES[h]
    paths = [HARNESS_DIR / s for s in spec['srcs']] + list(HARNESS_DIR.glob('*.h'))
    return _hash_files(paths, (lib_key() + ' '.join(spec['cflags'] + spec['ldflags'])).encode())


def build_dir():
    """Directory of the library build for the current /repo contents."""
    global _build_dir
    if _build_dir is None:
        _build_dir = BUILD_ROOT / ('lib-' + lib_key())
        _build_dir.mkdir(parents=True, exist_ok=True)
        _touch(_build_dir)
        _prune()
    return _build_dir


def _touch(d):
    (d / '.stamp').write_text('')
    os.utime(d / '.stamp')


def _prune(max_age_s=6 * 3600, keep_newest=40):
    """Remove build directories not used recently (bounded disk use; never the ones just touched)."""
    import time
    try:
        dirs = [d for d in BUILD_ROOT.iterdir() if d.is_dir() and d.name != 'run']
    except FileNotFoundError:
        return
    now = time.time()

    def mt(d):
        try:
            return (d / '.stamp').stat().st_mtime
        except OSError:
            return 0
    dirs.sort(key=mt, reverse=True)
    for i, d in enumerate(dirs):
        if i >= keep_newest or now - mt(d) > max_age_s:
            shutil.rmtree(d, ignore_errors=True)


def _gen_point_names(bd):
    out = bd / 'gen' / 'vp_point_names.h'
    if out.exists():
        return
    out.parent.mkdir(parents=True, exist_ok=True)
    text = (REPO / 'include/urcu/verif.h').read_text()
    m = re.search(r'enum urcu_verif_point_id \{(.*?)\};', text, re.S)
    names = re.findall(r'^\s*(URCU_VP_[A-Z0-9_]+)', m.group(1), re.M)
    lines = ['const char *vp_point_names[URCU_VP_NR_POINTS] = {']
    for n in names:
        if n in ('URCU_VP_NR_POINTS',):
            continue
        lines.append('\t[%s] = "%s",' % (n, n[len('URCU_VP_'):].lower()))
    lines.append('};')
    out.write_text('\n'.join(lines) + '\n')


class BuildError(Exception):
    pass


class _Pool:
    """Runs commands in parallel, each pinned to one CPU (F1)."""

    def __init__(self):
        self.cpus = queue.Queue()
        for c in all_cpus():
            self.cpus.put(c)
        self.n = len(all_cpus())

    def run(self, cmds):
        errs = []

        def one(cmd):
            cpu = self.cpus.get()
            try:
                p = subprocess.run(cmd, stdout=subprocess.PIPE, stderr=subprocess.STDOUT,
                                   preexec_fn=lambda: os.sched_setaffinity(0, {cpu}))
                if p.returncode != 0:
                    errs.append((cmd, p.stdout.decode(errors='replace')))
            finally:
                self.cpus.put(cpu)

        with ThreadPoolExecutor(max_workers=self.n) as ex:
            list(ex.map(one, cmds))
        if errs:
            msg = '\n'.join('$ %s\n%s' % (' '.join(map(str, c)), o) for c, o in errs[:3])
            raise BuildError(msg)


def _common_flags(variant, bd):
    v = VARIANTS[variant]
    cfg = CFG_DIR / v['cfg']
    return [v['cc'], '-std=gnu11', '-pthread', '-Wall', '-Wno-unused-function', '-Wno-unused-variable',
            '-Wno-unused-but-set-variable',
            '-include', str(cfg / 'config.h'), '-I' + str(cfg), '-I' + str(REPO / 'include'),
            '-I' + str(REPO / 'src'), '-I' + str(HARNESS_DIR), '-I' + str(bd / 'gen'),
            '-DURCU_VERIF', '-D_GNU_SOURCE'] + v['cflags']


_hdirs = {}


def harness_dir(harness):
    if harness not in _hdirs:
        d = BUILD_ROOT / ('h-%s-%s' % (harness, harness_key(harness)))
        d.mkdir(parents=True, exist_ok=True)
        _touch(d)
        _hdirs[harness] = d
    return _hdirs[harness]


def bin_path(harness, flavor, variant, lgpl=True):
    return harness_dir(harness) / variant / ('%s_%s%s' % (harness, flavor, '' if lgpl else '_nolgpl'))


def ensure(targets, verbose=False):
    """targets: iterable of (harness, flavor, variant, lgpl). Returns {target: path}.
    Serialised across processes by a lock file (two checks started together must not
    compile the same object into the same path)."""
    import fcntl
    BUILD_ROOT.mkdir(parents=True, exist_ok=True)
    with open(BUILD_ROOT / '.buildlock', 'w') as lf:
        fcntl.flock(lf, fcntl.LOCK_EX)
        try:
            return _ensure(targets, verbose)
        finally:
            fcntl.flock(lf, fcntl.LOCK_UN)


def _ensure(targets, verbose=False):
    bd = build_dir()
    _gen_point_names(bd)
    targets = sorted(set(targets))
    variants = sorted({t[2] for t in targets})
    pool = _Pool()
    compiles = []
    archives = []
    for var in variants:
        vd = bd / var
        (vd / 'obj').mkdir(parents=True, exist_ok=True)
        base = _common_flags(var, bd)
        objs = []
        for src in LIB_COMMON:
            o = vd / 'obj' / (src[:-2] + '.o')
            objs.append(o)
            if not o.exists():
                compiles.append(base + ['-DVP_LIB_TU', '-include', str(HARNESS_DIR / 'vp_tun.h'),
                                        '-c', str(REPO / 'src' / src), '-o', str(o)])
        for fl, d in FLAVOR_DEF.items():
            o = vd / 'obj' / ('flavor_%s.o' % fl)
            objs.append(o)
            if not o.exists():
                compiles.append(base + ['-DVP_LIB_TU', '-include', str(HARNESS_DIR / 'vp_tun.h'),
                                        d, '-c', str(HARNESS_DIR / 'lib_flavor.c'), '-o', str(o)])
        for src in RUNTIME_SRCS:
            o = vd / 'obj' / (src[:-2] + '.o')
            objs.append(o)
            if not o.exists():
                compiles.append(base + ['-c', str(HARNESS_DIR / src), '-o', str(o)])
        ar = vd / 'liburcu_all.a'
        if not ar.exists():
            archives.append(['ar', 'rcs', str(ar)] + [str(o) for o in objs])
    links = []
    result = {}
    for (h, fl, var, lgpl) in targets:
        spec = HARNESSES[h]
        vd = bd / var
        base = _common_flags(var, bd)
        out = bin_path(h, fl, var, lgpl)
        result[(h, fl, var, lgpl)] = out
        if out.exists():
            continue
        (out.parent / 'obj').mkdir(parents=True, exist_ok=True)
        hobjs = []
        for src in spec['srcs']:
            o = out.parent / 'obj' / ('h_%s_%s_%s%s.o' % (h, src[:-2], fl, '' if lgpl else '_nolgpl'))
            hobjs.append(o)
            cmd = base + [HARNESS_FLAVOR_DEF[fl]] + ([] if lgpl else ['-DVP_NO_LGPL']) + \
                spec['cflags'] + ['-c', str(HARNESS_DIR / src), '-o', str(o)]
            if not o.exists() and cmd not in compiles:
                compiles.append(cmd)
        links.append(base + [str(o) for o in hobjs] +
                     ['-Wl,--whole-archive', str(vd / 'liburcu_all.a'), '-Wl,--no-whole-archive',
                      '-Wl,--wrap=syscall', '-Wl,--wrap=pthread_create',
                      '-ldl', '-lm', '-o', str(out) + '.tmp'] + spec['ldflags'])
    if verbose and (compiles or links):
        print('[build] %d compiles, %d archives, %d links in %s' % (len(compiles), len(archives), len(links), bd),
              file=sys.stderr)
    if compiles:
        pool.run(compiles)
    if archives:
        pool.run(archives)
    if links:
        pool.run(links)
        for (h, fl, var, lgpl) in targets:
            out = bin_path(h, fl, var, lgpl)
            tmp = Path(str(out) + '.tmp')
            if tmp.exists():
                tmp.rename(out)
    return result
