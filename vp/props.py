"""Property table: which cases (binary, arguments, fault environment) decide which property."""
import build

H = build.register_harness
H('gp', ['gp.c'])
H('crcu', ['crcu.c'])
H('poll', ['poll.c'])
H('bpreg', ['bpreg.c'], ldflags=['-Wl,--wrap=mremap', '-Wl,--wrap=mmap'])

PROPS = {}
FLAVORS = ['memb', 'mb', 'qsbr', 'bp']


def case(name, harness, flavor, variant, args=(), env=None, cpus=8, timeout=300, lgpl=True):
    return dict(name=name, bin=(harness, flavor, variant, lgpl), args=list(args), env=env or {},
                cpus=cpus, timeout=timeout)


def prop(pid, title, level, rule, assumptions):
    def deco(fn):
        PROPS[pid] = dict(title=title, level=level, rule=rule, assumptions=assumptions, cases=fn)
        return fn
    return deco


def aggregate(pid, spec, tier, seed, results):
    counters = {}
    markers = {}
    faults = {}
    sigs = set()
    samples = []
    notes = []
    ncases = 0
    per_case = []
    for r in results:
        j = r.get('json')
        name = r['case'].get('name', '?')
        per_case.append(dict(name=name, rc=r['rc'], wall_s=round(r['wall'], 2),
                             variant=r['case']['bin'][2], timed_out=r['timed_out']))
        if not j:
            continue
        ncases += 1
        for k, v in j.get('counters', {}).items():
            counters[k] = counters.get(k, 0) + v
        for k, v in j.get('markers', {}).items():
            markers[k] = markers.get(k, 0) + v
        for k, v in j.get('faults', {}).items():
            faults[k] = faults.get(k, 0) + v
        for s in j.get('signatures', []):
            sigs.add(s)
        for s in j.get('samples', []):
            if len(samples) < 12:
                samples.append('[%s/%s] %s' % (name, r['case']['bin'][2], s))
        for s in j.get('notes', []):
            if len(notes) < 12:
                notes.append('[%s] %s' % (name, s))
    cov = dict(
        evaluations=int(counters.get('evaluations', 0)),
        nontrivial_total=int(counters.get('nontrivial', 0)),
        distinct_nontrivial=len(sigs),
        rule=spec['rule'],
        samples=samples if samples else ['(no sample recorded)'],
        cases_run=ncases,
        cases=per_case,
        counters=counters,
        marker_hits=markers,
        faults_injected=faults,
        distinct_signatures_sample=sorted(sigs)[:40],
        notes=notes,
    )
    return dict(property_id=pid, tier=tier, seed=seed, level=spec['level'], coverage=cov,
                assumptions=spec['assumptions'], wall_s=0.0, violations=0)


# --------------------------------------------------------------------------------------------
# C01

GP_CFGS = [
    # name, flavor, env, extra args
    ('memb', 'memb', {}, []),
    ('memb-nomb', 'memb', {'VP_NO_MEMBARRIER': '1'}, []),
    ('mb', 'mb', {}, []),
    ('qsbr', 'qsbr', {}, []),
    ('bp', 'bp', {}, ['--tun-bp-sleep=1']),
    ('bp-nomb', 'bp', {'VP_NO_MEMBARRIER': '1'}, ['--tun-bp-sleep=1']),
]


@prop('C01', 'synchronize_rcu() waits for every pre-existing read-side critical section', 'exploration',
      'one evaluation = one synchronize_rcu() call whose [call,return] TSC interval is compared with every '
      'logged reader section; non-trivial = the call found >=1 reader section open (b<c<e); distinct = '
      'signatures (configuration, #pre-existing readers bucket, leader/merged, spun/slept). Poison, '
      'message-passing, ASan and TSan oracles run on the same executions.',
      ['x86-64 TSO only', 'TSC synchronised across CPUs (re-measured each run; eps reported)',
       'gcc sanitizer runtimes', 'interval oracle compares only logged sections (>=600 cycles or 1/64 sample)'])
def c01(tier, seed):
    out = []
    scale = 1 if tier == 'quick' else 25
    for name, fl, env, extra in GP_CFGS:
        gps = 4000 * scale if not fl == 'bp' else 1500 * scale
        # torture: chaos delays, nesting, merged callers
        out.append(case('torture-%s' % name, 'gp', fl, 'plain',
                        ['--cfg=%s' % name, '--readers=4', '--updaters=3', '--gps=%d' % gps,
                         '--tun-qs=%d' % (2 if seed % 2 else 100), '--deep-nest=1'] + extra, env, cpus=8, timeout=240 * scale))
        out.append(case('tight-%s' % name, 'gp', fl, 'plain',
                        ['--cfg=%s-tight' % name, '--readers=1', '--updaters=1', '--gps=%d' % (gps * 3),
                         '--tight=1', '--reader-delay=0', '--nest=1', '--updaters-registered=0'] + extra,
                        env, cpus=2, timeout=240 * scale))
        if fl in ('memb', 'bp', 'qsbr') and not env:
            # x86-TSO store-buffer stress: the reader's rcu_read_lock() store queues behind stores to contended cache
            # lines; only the updater's sys_membarrier (these flavors have no read-side fence) makes it visible in time
            out.append(case('sbstress-%s' % name, 'gp', fl, 'plain',
                            ['--cfg=%s-sbstress' % name, '--readers=1', '--updaters=1', '--gps=%d' % (gps * 12), '--tight=1',
                             '--reader-delay=0', '--nest=1', '--updaters-registered=0', '--sb-lines=24', '--slots=1', '--placement=0'] + extra,
                            env, cpus=5, timeout=240 * scale))
        out.append(case('asan-%s' % name, 'gp', fl, 'asan',
                        ['--cfg=%s' % name, '--readers=4', '--updaters=2', '--gps=%d' % (gps // 3)] + extra,
                        env, cpus=6, timeout=300 * scale))
        out.append(case('tsan-%s' % name, 'gp', fl, 'tsan',
                        ['--cfg=%s' % name, '--readers=3', '--updaters=2', '--gps=%d' % (gps // 8),
                         '--stall-ms=60000'] + extra,
                        env, cpus=6, timeout=400 * scale))
    return out


# --------------------------------------------------------------------------------------------
# C02

FAULT_MODES = [
    ('nofault', []),
    ('spurious', ['--f-spurious=0.2']),
    ('eintr', ['--f-eintr=0.2']),
    ('wakedelay', ['--f-wake-delay=0.3']),
    ('enosys', ['--f-enosys=1']),
    ('enosys-wait', ['--f-enosys-wait=0.6']),
    ('enosys-rare', ['--f-enosys-wait=0.01']),     # one transient ENOSYS now and then, while other threads really sleep in the kernel     # spurious ENOSYS from FUTEX_WAIT only: wakes still go to the kernel
    ('realsig', ['--sig-all=1', '--sig-period-us=60']),
    ('mixed', ['--f-spurious=0.1', '--f-eintr=0.1', '--f-wake-delay=0.1', '--sig-all=1', '--sig-period-us=200']),
]


@prop('C02', 'Grace periods always complete once readers leave: no lost wake-up, no deadlock', 'exploration',
      'bounded scenarios (every reader performs N sections and leaves); one evaluation = one synchronize_rcu() call; '
      'verdict = every call returns (completion accounting + stuck-state detector with logical precondition); '
      'non-trivial = call that overlapped >=1 open reader section; distinct = (configuration+fault mode, '
      '#pre-existing readers, leader/merged, spun/slept). Evidence lists futex sleeps/wakes observed by the '
      'syscall shim and the faults injected.',
      ['liveness restated as bounded progress: no stuck state in K bounded scenarios',
       'stuck = no progress counter moved for 20 s while a caller is in flight (sections are bounded to a few ms)',
       'ENOSYS is injected for every futex call of the process (consistent kernel), not for a random subset'])
def c02(tier, seed):
    out = []
    scale = 1 if tier == 'quick' else 40
    for fl in ('memb', 'mb', 'qsbr'):
        for i, (fm, fargs) in enumerate(FAULT_MODES):
            qs = 1 + (seed + i) % 3
            wt = 1 + (seed + 2 * i) % 3
            out.append(case('%s-%s' % (fl, fm), 'gp', fl, 'plain',
                            ['--cfg=%s-%s' % (fl, fm), '--scenarios=%d' % (120 * scale), '--readers=3', '--updaters=3',
                             '--gps=120', '--reader-sections=400', '--tun-qs=%d' % qs, '--tun-wait=%d' % wt,
                             '--hook-prob=0.01', '--churn=1', '--reg-handshake=1'] + fargs, {}, cpus=4, timeout=200 * scale))
        # a futex fallback that becomes sticky after ONE transient ENOSYS can only hurt threads asleep in the kernel at
        # that very moment: one chance per process, so several short processes
        if fl in ('memb', 'qsbr'):
            for k in range(5 if tier == 'quick' else 40):
                out.append(case('%s-enosys-once-%d' % (fl, k), 'gp', fl, 'plain',
                                ['--cfg=%s-enosys-once' % fl, '--scenarios=12', '--readers=3', '--updaters=4', '--gps=60',
                                 '--reader-sections=300', '--tun-qs=1', '--tun-wait=1', '--f-enosys-wait=0.004', '--churn=0'],
                                {}, cpus=4, timeout=200))
        # single reader / single updater tight loop: the lost wake-up window
        out.append(case('%s-pair' % fl, 'gp', fl, 'plain',
                        ['--cfg=%s-pair' % fl, '--scenarios=%d' % (20 * scale), '--readers=1', '--updaters=1',
                         '--gps=3000', '--reader-sections=0', '--tun-qs=1', '--tun-wait=1', '--reader-delay=0',
                         '--nest=1', '--hook-prob=0.0005', '--updaters-registered=0'], {}, cpus=2, timeout=200 * scale))
        out.append(case('%s-tsan' % fl, 'gp', fl, 'tsan',
                        ['--cfg=%s-tsan' % fl, '--scenarios=%d' % (40 * scale), '--readers=2', '--updaters=3',
                         '--gps=60', '--reader-sections=200', '--tun-qs=2', '--tun-wait=2', '--f-spurious=0.1',
                         '--f-eintr=0.1', '--stall-ms=60000', '--churn=1'], {}, cpus=4, timeout=400 * scale))
    for name, env in (('bp', {}), ('bp-nomb', {'VP_NO_MEMBARRIER': '1'})):
        out.append(case('%s-poll' % name, 'gp', 'bp', 'plain',
                        ['--cfg=%s' % name, '--scenarios=%d' % (60 * scale), '--readers=3', '--updaters=3', '--gps=60',
                         '--reader-sections=300', '--tun-qs=2', '--tun-bp-sleep=1', '--sig-all=1'], env, cpus=4,
                        timeout=200 * scale))
    out.append(case('memb-nomb-mixed', 'gp', 'memb', 'plain',
                    ['--cfg=memb-nomb-mixed', '--scenarios=%d' % (120 * scale), '--readers=3', '--updaters=3', '--gps=120',
                     '--reader-sections=400', '--tun-qs=2', '--tun-wait=2', '--f-spurious=0.1', '--f-eintr=0.1'],
                    {'VP_NO_MEMBARRIER': '1'}, cpus=4, timeout=200 * scale))
    return out


# --------------------------------------------------------------------------------------------
# C15

@prop('C15', 'Reader registration is dynamic: threads come and go without breaking GPs', 'exploration',
      'memb/mb/qsbr: reader threads loop register -> sections -> unregister (qsbr also offline/online) against '
      'continuous grace periods with delays injected inside register/unregister and in the registry-unlocked window; '
      'C01 oracles (poison, interval, message passing) + completion accounting + registry census decide. '
      'bp: waves of threads cross the 8/16/32/... capacities with natural, forced-new-chunk and in-place registry growth; '
      'slot address stability, slot ownership, arena census under the registry lock, slot reuse and signal masks are '
      'checked. evaluation = grace period (gp harness) or wave census (bpreg); distinct = (configuration, '
      '#pre-existing readers, leader/merged, spun/slept) resp. (growth mode, live count, #chunks, capacity).',
      ['C01/C02 assumptions', 'bp arena growth in place is produced by shimming mmap() so that free address space '
       'follows the chunk; growth by new chunk by making mremap() fail'])
def c15(tier, seed):
    out = []
    scale = 1 if tier == 'quick' else 20
    for name, fl, env, extra in GP_CFGS[:4]:
        out.append(case('churn-%s' % name, 'gp', fl, 'plain',
                        ['--cfg=churn-%s' % name, '--readers=5', '--updaters=2', '--gps=%d' % (3000 * scale), '--churn=1',
                         '--tun-qs=%d' % (2 + seed % 3), '--hook-prob=0.004', '--reg-handshake=1'] + extra, env, cpus=8, timeout=240 * scale))
        out.append(case('churn-scen-%s' % name, 'gp', fl, 'plain',
                        ['--cfg=churn-scen-%s' % name, '--scenarios=%d' % (150 * scale), '--readers=4', '--updaters=2',
                         '--gps=80', '--reader-sections=150', '--churn=1', '--tun-qs=2', '--tun-wait=2',
                         '--hook-prob=0.01'] + extra, env, cpus=6, timeout=240 * scale))
    # one reader that very often unregisters straight from the online state, one updater that sleeps at once: nobody
    # else can wake the grace period
    out.append(case('churn-pair-qsbr', 'gp', 'qsbr', 'plain',
                    ['--cfg=churn-pair-qsbr', '--scenarios=%d' % (40 * scale), '--readers=1', '--updaters=1', '--gps=200',
                     '--reader-sections=0', '--churn=1', '--churn-direct-pct=40', '--tun-qs=1', '--tun-wait=1', '--reader-delay=0',
                     '--nest=1', '--updaters-registered=0', '--placement=0'], {}, cpus=2, timeout=240 * scale))
    for fl in ('memb', 'qsbr'):
        out.append(case('churn-tsan-%s' % fl, 'gp', fl, 'tsan',
                        ['--cfg=churn-tsan-%s' % fl, '--readers=3', '--updaters=2', '--gps=%d' % (400 * scale), '--churn=1',
                         '--stall-ms=60000'], {}, cpus=6, timeout=400 * scale))
        out.append(case('churn-asan-%s' % fl, 'gp', fl, 'asan',
                        ['--cfg=churn-asan-%s' % fl, '--readers=4', '--updaters=2', '--gps=%d' % (1000 * scale), '--churn=1'],
                        {}, cpus=6, timeout=400 * scale))
    maxlive = 260 if tier == 'quick' else 560
    for growth in (0, 1, 2):
        out.append(case('bp-waves-growth%d' % growth, 'bpreg', 'bp', 'plain',
                        ['--growth=%d' % growth, '--max-live=%d' % maxlive, '--repeats=%d' % (3 * scale)], {}, cpus=8, timeout=300 * scale))
    out.append(case('bp-waves-asan', 'bpreg', 'bp', 'asan', ['--growth=1', '--max-live=%d' % (maxlive // 2)], {}, cpus=8,
                    timeout=400 * scale))
    out.append(case('bp-waves-tsan', 'bpreg', 'bp', 'tsan', ['--growth=2', '--max-live=%d' % (maxlive // 3), '--sig=0'], {}, cpus=8,
                    timeout=400 * scale))
    # first rcu_read_lock() of fresh bp threads single-stepped (EFLAGS.TF), with a handler that takes a read-side
    # section aimed at every instruction between the entry of urcu_bp_register() and its SIG_BLOCK (harness of C19):
    # a registration that can be re-entered from a handler leaks a registry slot (arena census after each thread)
    out.append(case('bp-first-lock-stepped', 'sigrd', 'bp', 'plain',
                    ['--cfg=c15-bp-first-lock-stepped', '--traps=%d' % (40000 * scale), '--episodes=%d' % (300 * scale),
                     '--placement=0', '--logscale=1'], {}, cpus=5, timeout=300 * scale))
    out.append(case('bp-waves-nomb', 'bpreg', 'bp', 'plain', ['--growth=0', '--max-live=%d' % maxlive],
                    {'VP_NO_MEMBARRIER': '1'}, cpus=8, timeout=300 * scale))
    return out


# --------------------------------------------------------------------------------------------
# C03 / C04

def _crcu_cases(tier, seed, focus):
    out = []
    scale = 1 if tier == 'quick' else 30
    layouts = [(0, 'default'), (1, 'perthread'), (2, 'percpu'), (3, 'mixed')]
    fl_list = FLAVORS if tier == 'thorough' or focus == 'c03' else FLAVORS
    for fl in fl_list:
        for (lay, lname) in layouts:
            rt = (seed + lay + FLAVORS.index(fl)) % 2
            if tier == 'quick' and fl in ('mb', 'bp') and lay in (2,):
                continue
            nb = 1 if focus == 'c03' else 3
            out.append(case('%s-%s-rt%d' % (fl, lname, rt), 'crcu', fl, 'plain',
                            ['--cfg=%s-%s-rt%d' % (fl, lname, rt), '--focus=%s' % focus, '--layout=%d' % lay, '--rt=%d' % rt,
                             '--enqueuers=%d' % (4 if focus == 'c03' else 3), '--readers=2', '--barriers=%d' % nb,
                             '--calls=%d' % (40000 * scale)], {}, cpus=8, timeout=300 * scale))
    for fl in ('memb', 'qsbr'):
        out.append(case('%s-asan-mixed' % fl, 'crcu', fl, 'asan',
                        ['--cfg=%s-asan-mixed' % fl, '--focus=%s' % focus, '--layout=3', '--rt=0', '--enqueuers=4', '--readers=2',
                         '--barriers=2', '--calls=%d' % (15000 * scale)], {}, cpus=8, timeout=400 * scale))
        out.append(case('%s-tsan-perthread' % fl, 'crcu', fl, 'tsan',
                        ['--cfg=%s-tsan-perthread' % fl, '--focus=%s' % focus, '--layout=1', '--rt=0', '--enqueuers=3', '--readers=2',
                         '--barriers=2', '--calls=%d' % (8000 * scale), '--stall-ms=90000'], {}, cpus=8, timeout=600 * scale))
    if focus == 'c03':
        # quiet hand-over of ordinary callbacks: they must run although nobody calls call_rcu() / rcu_barrier() afterwards
        for fl in (('memb', 'qsbr') if tier == 'quick' else FLAVORS):
            out.append(case('%s-handover-quiet' % fl, 'crcu', fl, 'plain',
                            ['--cfg=%s-handover-quiet' % fl, '--mode=handover', '--ho-barrier=0', '--rounds=%d' % (40 * scale),
                             '--hook-prob=0'], {}, cpus=4, timeout=300 * scale))
    if focus == 'c04':
        # quiet hand-over: the only traffic is one barrier and one helper destruction (a wake-up lost on the
        # hand-over path is not repaired by unrelated call_rcu() calls)
        for fl in (('memb', 'qsbr') if tier == 'quick' else FLAVORS):
            out.append(case('%s-handover-quiet' % fl, 'crcu', fl, 'plain',
                            ['--cfg=%s-handover-quiet' % fl, '--mode=handover', '--rounds=%d' % (40 * scale), '--hook-prob=0'], {},
                            cpus=4, timeout=300 * scale))
    # futex faults on the helper / barrier wake-up paths
    for i, (fm, fargs) in enumerate(FAULT_MODES[1:5]):
        fl = FLAVORS[(seed + i) % 3]
        out.append(case('%s-fault-%s' % (fl, fm), 'crcu', fl, 'plain',
                        ['--cfg=%s-fault-%s' % (fl, fm), '--focus=%s' % focus, '--layout=%d' % (1 if i % 2 else 0), '--rt=0',
                         '--enqueuers=3', '--readers=2', '--barriers=2', '--calls=%d' % (20000 * scale)] + fargs, {}, cpus=8,
                        timeout=300 * scale))
    return out


@prop('C03', 'call_rcu(): every callback runs exactly once, only after a full grace period', 'exploration',
      'one evaluation = one callback: invocation counter must be exactly 1 at quiescence (after rcu_barrier x (depth+2)), head '
      'identity checked in the callback, [call_rcu call, callback entry] compared with every logged reader section, object '
      'poisoned/freed by the callback (readers validate inside sections; ASan/TSan builds really free). non-trivial = '
      'call_rcu() found >=1 reader section open; distinct = (configuration, helper layout, RT, chain depth, #pre-existing '
      'readers, latency bucket).',
      ['"eventually" = by the time the bounded scenario\'s barriers return', 'x86-64 TSO; TSC calibrated per run'])
def c03(tier, seed):
    return _crcu_cases(tier, seed, 'c03')


@prop('C04', 'rcu_barrier() returns only after all previously queued callbacks have run', 'exploration',
      'one evaluation = one rcu_barrier() call [call,ret]; offline join with (call_rcu return stamp, callback completion stamp) '
      'of every callback: any callback with enq_ret+eps < call must have completed by ret+eps; barrier callers 2-3 concurrent, '
      'helpers created/destroyed concurrently, slow callbacks; stuck-state detector for "always returns". non-trivial = barrier '
      'that found >=1 earlier callback still pending at its call; distinct = (configuration, layout, RT, pending bucket, #callers).',
      ['callers are never inside a read-side section nor on a helper thread (excluded by the statement)',
       'completion stamp is taken as the callback\'s last action (slightly before it really returns)'])
def c04(tier, seed):
    return _crcu_cases(tier, seed, 'c04')


# --------------------------------------------------------------------------------------------
# C14

@prop('C14', 'Grace-period polling never reports completion early and eventually reports it', 'exploration',
      'one evaluation = one handle from start_poll_synchronize_rcu() polled until true: [start_poll call, first true poll return] '
      'is compared with every logged reader section; the object unpublished before start_poll is retired after "true" (poison / '
      'ASan / TSan); completed handles are re-polled at random later (must stay true); bounded scenario + stuck-state detector '
      '(worker inactive with outstanding target) for "eventually". non-trivial = start_poll found >=1 reader section open; '
      'distinct = (configuration, worker active/idle at start_poll, #pre-existing readers, latency bucket).',
      ['counter wrap-around is exercised by presetting the ids near ULONG_MAX / LONG_MAX before any thread polls (2^63 real '
       'grace periods are out of reach)', 'x86-64 TSO; TSC calibrated per run'])
def c14(tier, seed):
    out = []
    scale = 1 if tier == 'quick' else 40
    for fl in FLAVORS:
        out.append(case('%s' % fl, 'poll', fl, 'plain',
                        ['--cfg=%s' % fl, '--pollers=4', '--readers=2', '--handles=%d' % (1500 * scale)], {}, cpus=8,
                        timeout=300 * scale))
    for preset in ('wrap', 'signwrap'):
        fl = FLAVORS[(seed + len(preset)) % 4]
        out.append(case('%s-%s' % (fl, preset), 'poll', fl, 'plain',
                        ['--cfg=%s-%s' % (fl, preset), '--preset=%s' % preset, '--pollers=3', '--readers=2',
                         '--handles=%d' % (800 * scale)], {}, cpus=6, timeout=300 * scale))
    out.append(case('memb-nomb', 'poll', 'memb', 'plain', ['--cfg=memb-nomb', '--pollers=4', '--readers=2',
                                                          '--handles=%d' % (1000 * scale)], {'VP_NO_MEMBARRIER': '1'}, cpus=8,
                    timeout=300 * scale))
    for fl in ('memb', 'qsbr'):
        out.append(case('%s-asan' % fl, 'poll', fl, 'asan', ['--cfg=%s-asan' % fl, '--pollers=3', '--readers=2',
                                                             '--handles=%d' % (600 * scale)], {}, cpus=6, timeout=400 * scale))
    out.append(case('memb-tsan', 'poll', 'memb', 'tsan', ['--cfg=memb-tsan', '--pollers=3', '--readers=2',
                                                          '--handles=%d' % (400 * scale), '--stall-ms=90000'], {}, cpus=6,
                    timeout=600 * scale))
    out.append(case('mb-fault-mixed', 'poll', 'mb', 'plain', ['--cfg=mb-fault', '--pollers=3', '--readers=2',
                                                              '--handles=%d' % (800 * scale), '--f-spurious=0.1', '--f-eintr=0.1'],
                    {}, cpus=6, timeout=300 * scale))
    return out


# --------------------------------------------------------------------------------------------
# property modules: every vp/props_*.py registers its harnesses and properties on import
def _load_modules():
    import importlib
    import pkgutil
    import os
    here = os.path.dirname(os.path.abspath(__file__))
    for m in sorted(pkgutil.iter_modules([here]), key=lambda m: m.name):
        if m.name.startswith('props_'):
            importlib.import_module(m.name)


_load_modules()
