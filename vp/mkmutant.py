#!/usr/bin/env python3
"""mkmutant.py NAME PROPS FILE 'old text' 'new text' [FILE2 old2 new2 ...] [--tier T] [--only RE] [--desc TEXT]
Create mutants/NAME.patch from literal text replacements applied to /repo files (first occurrence
unless old text is prefixed with '@N@' to select the N-th, 0-based)."""
import sys, subprocess, tempfile, shutil, os, re
from pathlib import Path
VERIF = Path(__file__).resolve().parent.parent
args = sys.argv[1:]
opts = {}
pos = []
i = 0
while i < len(args):
    if args[i] in ('--tier', '--only', '--desc'):
        opts[args[i][2:]] = args[i + 1]; i += 2
    else:
        pos.append(args[i]); i += 1
name, props = pos[0], pos[1]
trip = pos[2:]
assert len(trip) % 3 == 0 and trip
tmp = Path(tempfile.mkdtemp(prefix='mkmut', dir='/var/tmp'))
diffs = []
try:
    edited = {}
    for k in range(0, len(trip), 3):
        f, old, new = trip[k:k + 3]
        txt = edited.get(f, (Path('/repo') / f).read_text())
        m = re.match(r'@(\d+)@', old)
        occ = 0
        if m:
            occ = int(m.group(1)); old = old[m.end():]
        idx = -1
        for _ in range(occ + 1):
            idx = txt.find(old, idx + 1)
            if idx < 0:
                sys.exit('old text not found in %s: %r' % (f, old))
        txt = txt[:idx] + new + txt[idx + len(old):]
        edited[f] = txt
    for f, txt in edited.items():
        a = tmp / 'a' / f; b = tmp / 'b' / f
        a.parent.mkdir(parents=True, exist_ok=True); b.parent.mkdir(parents=True, exist_ok=True)
        shutil.copy(Path('/repo') / f, a); b.write_text(txt)
        r = subprocess.run(['diff', '-u', 'a/' + f, 'b/' + f], cwd=tmp, stdout=subprocess.PIPE)
        diffs.append(r.stdout.decode())
finally:
    pass
hdr = '# property: %s\n' % props
for k in ('tier', 'only', 'desc'):
    if k in opts:
        hdr += '# %s: %s\n' % (k, opts[k])
(VERIF / 'mutants').mkdir(exist_ok=True)
(VERIF / 'mutants' / (name + '.patch')).write_text(hdr + ''.join(diffs))
shutil.rmtree(tmp)
print('wrote mutants/%s.patch' % name)
