#!/usr/bin/env python3
"""Sensitivity self-test: apply each mutants/*.patch (or seeded/*/patch.diff) to a
scratch copy of $REPO/{src,include} outside /repo and /verif, run the owning check
against it (VERIF_REPO), require a VIOLATION.  Not a MANIFEST check.

usage: selftest.py [--tier quick|thorough] [--only REGEX] [--seeded] [--seed N] [--jobs N]
Patch header lines:  # property: C01[,C02]     # tier: quick|thorough    # only: <case regex>
"""
import json
import os
import re
import shutil
import subprocess
import sys
import time
from pathlib import Path

VERIF = Path(__file__).resolve().parent.parent
REPO = Path('/repo')


def parse_header(text):
    h = {}
    for line in text.splitlines():
        m = re.match(r'#\s*(\w+):\s*(.*)', line)
        if m:
            h[m.group(1)] = m.group(2).strip()
        elif line.startswith(('diff ', '--- ', 'index ')):
            break
    return h


def run_one(patch, props, tier, seed, only=None, keep=False):
    scratch = Path('/var/tmp/urcu-verif-%d-%s' % (os.getpid(), patch.parent.name if patch.name == 'patch.diff' else patch.stem))
    if scratch.exists():
        shutil.rmtree(scratch)
    scratch.mkdir(parents=True)
    try:
        subprocess.run(['rsync', '-a', '--exclude=*.o', '--exclude=*.lo', '--exclude=*.la', '--exclude=.libs',
                        '--exclude=.deps', str(REPO / 'src'), str(REPO / 'include'), str(scratch)], check=True)
        p = subprocess.run(['patch', '-p1', '--no-backup-if-mismatch', '-i', str(patch)], cwd=scratch,
                           stdout=subprocess.PIPE, stderr=subprocess.STDOUT)
        if p.returncode != 0:
            return dict(patch=str(patch), error='patch failed: ' + p.stdout.decode()[-500:])
        out = []
        for prop in props:
            env = dict(os.environ, VERIF_REPO=str(scratch), VERIF_BUILD_ROOT=str(scratch / 'build'),
                       VERIF_SEED=str(seed), VERIF_EVIDENCE_DIR=str(scratch / 'evidence'))
            cmd = [str(VERIF / 'check'), prop, '--tier', tier, '--fail-fast']
            if only:
                cmd += ['--only', only]
            t0 = time.time()
            r = subprocess.run(cmd, cwd=VERIF, env=env, stdout=subprocess.PIPE, stderr=subprocess.STDOUT)
            txt = r.stdout.decode(errors='replace')
            keys = re.findall(r'^  key=(.*)$', txt, re.M)
            out.append(dict(property=prop, rc=r.returncode, detected=(r.returncode == 1 and 'VIOLATION property=' in txt),
                            keys=sorted(set(keys))[:8], wall_s=round(time.time() - t0, 1),
                            tail=txt[-600:] if r.returncode != 1 else ''))
        return dict(patch=str(patch.relative_to(VERIF)), tier=tier, seed=seed, results=out)
    finally:
        if not keep:
            shutil.rmtree(scratch, ignore_errors=True)


def main():
    args = sys.argv[1:]
    tier = 'quick'
    only = None
    seeded = False
    seed = 1
    i = 0
    while i < len(args):
        if args[i] == '--tier':
            tier = args[i + 1]; i += 2
        elif args[i] == '--only':
            only = args[i + 1]; i += 2
        elif args[i] == '--seeded':
            seeded = True; i += 1
        elif args[i] == '--seed':
            seed = int(args[i + 1]); i += 2
        else:
            print(__doc__); return 2
    patches = sorted((VERIF / 'mutants').glob('*.patch'))
    if seeded:
        patches = sorted((VERIF / 'seeded').glob('*/patch.diff'))
    results = []
    ok = True
    for p in patches:
        name = p.parent.name if p.name == 'patch.diff' else p.stem
        if only and not re.search(only, name):
            continue
        h = parse_header(p.read_text())
        if p.name == 'patch.diff' and (p.parent / 'meta.json').exists():
            meta = json.loads((p.parent / 'meta.json').read_text())
            h.setdefault('property', meta.get('property', ''))
            if 'check_tier' in meta:
                h.setdefault('tier', meta['check_tier'])
            if 'check_only' in meta:
                h.setdefault('only', meta['check_only'])
        props = [x.strip() for x in h.get('property', '').split(',') if x.strip()]
        if not props:
            print('skip %s: no "# property:" header' % p)
            continue
        t = h.get('tier', tier)
        if tier == 'thorough':
            t = 'thorough'
        r = run_one(p, props, t, seed, h.get('only'))
        results.append(r)
        if 'error' in r:
            print('%-40s ERROR %s' % (name, r['error']))
            ok = False
            continue
        det = any(x['detected'] for x in r['results'])
        ok = ok and det
        print('%-44s %s  %s' % (name, 'DETECTED' if det else 'MISSED  ',
                                '; '.join('%s rc=%d %.0fs %s' % (x['property'], x['rc'], x['wall_s'], ','.join(x['keys'])[:150])
                                          for x in r['results'])))
        sys.stdout.flush()
    outp = VERIF / ('selftest_results%s.json' % ('_seeded' if seeded else ''))
    prev = {}
    if outp.exists():
        try:
            prev = {r['patch']: r for r in json.loads(outp.read_text())}
        except Exception:  # noqa: BLE001
            prev = {}
    for r in results:
        if 'patch' in r:
            prev[r['patch']] = r
    outp.write_text(json.dumps(sorted(prev.values(), key=lambda r: r['patch']), indent=1))
    return 0 if ok else 1


if __name__ == '__main__':
    sys.exit(main())
