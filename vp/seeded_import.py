#!/usr/bin/env python3
"""seeded_import.py <Cxx> [N ...]

Independently confirm the seeded changes a sub-agent left in /tmp/wt-seed-<Cxx>/SEEDED/<N>/ and, if
confirmed, keep them as /verif/seeded/<Cxx>-<N>/ (patch.diff, demonstration, meta.json).

Confirmation, all in the agent's scratch worktree (never in /repo):
  clean tree -> build demo -> demo passes (3 runs, exit 0)
  git apply patch -> make -C src (no new warnings) -> make -k check (no FAIL/ERROR, 674 TAP passes)
  -> rebuild demo -> demo fails (3 runs, >= 2 non-zero)
  git checkout -> make -C src -> demo passes again
Also checks that the patch applies to the CURRENT /repo tree (git apply --check).
"""
import json
import os
import random
import re
import shutil
import subprocess
import sys
from pathlib import Path

VERIF = Path(__file__).resolve().parent.parent


def sh(cmd, cwd=None, timeout=900, env=None):
    cpus = sorted(os.sched_getaffinity(0))
    p = subprocess.run(cmd, shell=True, cwd=cwd, stdout=subprocess.PIPE, stderr=subprocess.STDOUT, timeout=timeout, env=env)
    return p.returncode, p.stdout.decode(errors='replace')


def run_demo(d, wt, n=3):
    rcs = []
    outs = []
    demos = ['./demo']
    for k in range(n):
        try:
            rc, out = sh('./demo', cwd=d, timeout=240, env=dict(os.environ, WT=str(wt)))
        except subprocess.TimeoutExpired:
            rc, out = 124, 'timeout'
        rcs.append(rc)
        outs.append(out[-300:])
    return rcs, outs


def main():
    args = sys.argv[1:]
    wave = 1
    if args[0] == '--wave':
        wave = int(args[1])
        args = args[2:]
    pid = args[0]
    wt = Path('/tmp/wt-seed%s-%s' % ('' if wave == 1 else str(wave), pid))
    ns = args[1:] or sorted(p.name for p in (wt / 'SEEDED').iterdir() if p.is_dir())
    off = 2 * (wave - 1)
    ok_all = True
    for n in ns:
        d = wt / 'SEEDED' / n
        outn = str(int(n) + off)
        rep = dict(id='%s-%s' % (pid, outn))
        print('== %s-%s' % (pid, outn))
        sh('git checkout -- . && make -C src -j4', cwd=wt)
        rc, out = sh('sh build.sh', cwd=d, env=dict(os.environ, WT=str(wt)))
        if rc:
            print('  demo build failed on clean tree:', out[-400:])
            ok_all = False
            continue
        rcs0, o0 = run_demo(d, wt)
        rep['clean_demo_rcs'] = rcs0
        rc, out = sh('git apply %s' % (d / 'patch.diff'), cwd=wt)
        if rc:
            print('  patch does not apply:', out[-300:])
            ok_all = False
            continue
        rc, out = sh('make -C src -j4 2>&1', cwd=wt)
        rep['build_rc'] = rc
        rep['build_warnings'] = len(re.findall(r'warning:', out))
        rc, out = sh('make -k check 2>&1', cwd=wt, timeout=1800)
        passes = sum(int(x) for x in re.findall(r'^# PASS:\s+(\d+)', out, re.M))
        fails = sum(int(x) for x in re.findall(r'^# (?:FAIL|ERROR|XPASS):\s+(\d+)', out, re.M))
        rep['suite'] = dict(rc=rc, tap_pass=passes, fail_or_error=fails)
        sh('sh build.sh', cwd=d, env=dict(os.environ, WT=str(wt)))
        rcs1, o1 = run_demo(d, wt)
        rep['patched_demo_rcs'] = rcs1
        rep['patched_demo_tail'] = o1[0]
        sh('git checkout -- . && make -C src -j4', cwd=wt)
        sh('sh build.sh', cwd=d, env=dict(os.environ, WT=str(wt)))
        rcs2, o2 = run_demo(d, wt, 2)
        rep['reverted_demo_rcs'] = rcs2
        rc, out = sh('git -C /repo apply --check %s' % (d / 'patch.diff'))
        rep['applies_to_current_repo'] = (rc == 0)
        good = (all(r == 0 for r in rcs0 + rcs2) and sum(1 for r in rcs1 if r != 0) >= 2 and rep['build_rc'] == 0
                and rep['build_warnings'] == 0 and rep['suite']['fail_or_error'] == 0 and rep['suite']['tap_pass'] >= 674
                and rep['applies_to_current_repo'])
        rep['confirmed'] = good
        print('  ', json.dumps(rep)[:900])
        if not good:
            ok_all = False
            continue
        dst = VERIF / 'seeded' / ('%s-%s' % (pid, outn))
        if dst.exists():
            shutil.rmtree(dst)
        dst.mkdir(parents=True)
        for f in d.iterdir():
            if f.is_file() and f.suffix in ('.c', '.h', '.sh', '.diff', '.json', '.S', '.py', '.txt', '.md') and f.stat().st_size < 400000:
                shutil.copy(f, dst / f.name)
        meta = {}
        if (d / 'meta.json').exists():
            try:
                meta = json.loads((d / 'meta.json').read_text())
            except Exception:  # noqa: BLE001
                meta = dict(raw=(d / 'meta.json').read_text()[:2000])
        meta['property'] = pid
        meta['confirmed_by_owner'] = dict(
            what_i_ran='in the scratch worktree: clean build + demo x3 (all exit 0); git apply patch.diff; make -C src (0 warnings); '
                       'make -k check (no FAIL/ERROR); rebuilt demo x3 (non-zero); git checkout; rebuild; demo x2 (exit 0); '
                       'git -C /repo apply --check (applies to the current tree)',
            clean_demo_rcs=rcs0, patched_demo_rcs=rcs1, reverted_demo_rcs=rcs2, suite=rep['suite'],
            patched_demo_tail=rep['patched_demo_tail'])
        (dst / 'meta.json').write_text(json.dumps(meta, indent=1))
        print('   kept as', dst)
    return 0 if ok_all else 1


if __name__ == '__main__':
    sys.exit(main())
