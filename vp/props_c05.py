"""C05 + C06: concurrent behaviour of cds_lfht (harness lfht_conc.c)."""
from props import prop, case, H

H('lfht_conc', ['lfht_conc.c', 'lin.c'])


def _ep(name, flavor, variant, resize, episodes, workers=3, extra=(), timeout=240, cpus=None):
    args = ['--cfg=%s' % name, '--mode=episodes', '--resize=%s' % resize, '--episodes=%d' % episodes,
            '--workers=%d' % workers, '--placement=0'] + list(extra)
    if variant == 'tsan':
        args.append('--stall-ms=90000')
    # workers + reader + (explicit resizer | library resize worker) [+ call_rcu helper]
    return case(name, 'lfht_conc', flavor, variant, args, cpus=cpus or workers + 2, timeout=timeout)


def _uniq(name, flavor, variant, resize, phases, ops, updaters=4, walkers=2, extra=(), timeout=240, cpus=None):
    args = ['--cfg=%s' % name, '--mode=uniq', '--resize=%s' % resize, '--phases=%d' % phases, '--ops=%d' % ops,
            '--updaters=%d' % updaters, '--walkers=%d' % walkers, '--placement=0'] + list(extra)
    if variant == 'tsan':
        args.append('--stall-ms=90000')
    return case(name, 'lfht_conc', flavor, variant, args, cpus=cpus or min(8, updaters + walkers + 1), timeout=timeout)


def _rounds(name, flavor, variant, resize, rounds, threads=6, extra=(), timeout=240):
    args = ['--cfg=%s' % name, '--mode=rounds', '--resize=%s' % resize, '--rounds=%d' % rounds,
            '--threads=%d' % threads, '--placement=0'] + list(extra)
    if variant == 'tsan':
        args.append('--stall-ms=90000')
    return case(name, 'lfht_conc', flavor, variant, args, cpus=min(8, threads + 1), timeout=timeout)


C05_RULE = (
    'one evaluation = one EPISODE: 2-4 pinned workers x 1-6 operations (add, add_unique, add_replace, replace and del of a '
    'node obtained by the thread\'s own lookup / duplicate walk in the same read-side section, lookup, lookup+next_duplicate '
    'walk) on 2-4 HOT keys whose hashes are equal / differ only in high bits / are 0 / ~0UL / equal to a bucket index, next '
    'to 2-330 RESIDENT nodes in the same buckets that are only changed between episodes, plus a reader thread doing 1-3 full '
    'first/next traversals and 0-10 lookups of residents; everything inside read-side sections of the flavor the table is '
    'bound to; start barrier + random sub-microsecond offsets + delays injected at the URCU_VP_HT_* hook points. Oracles per '
    'episode: (1) every per-key sub-history (plus the content found at quiescence by a traversal, which lookup+next_duplicate '
    'must confirm) is linearizable against a multiset-of-node-ids model (lin.c, budget 2e6 nodes, above = inconclusive); '
    '(2) duplicate walks and traversals against presence intervals derived from the recorded call/return stamps (margin eps): '
    'a node in the table during the WHOLE walk must be returned, a node absent during the whole walk must not, none twice; '
    '(3) value oracles: every resident is visited exactly once by every traversal and found by every lookup, whatever resize '
    'runs; no node handed to two callers; return codes exactly 0 / -ENOENT; removed nodes are reclaimed only after a grace '
    'period (poison + quarantine with late-write check in plain builds, free() under ASan / TSan; never-inserted nodes are '
    'released at once). Resize concurrently: none / explicit resizer thread cycling cds_lfht_resize over 1..64..1 incl. non '
    'powers of two / CDS_LFHT_AUTO_RESIZE chain growth / AUTO_RESIZE|ACCOUNTING with COUNT_COMMIT_ORDER=2; allocators order, '
    'chunk, mmap, default rotate per table generation (a few hundred episodes each, table destroyed empty: must return 0). '
    'non-trivial = episode with >= 2 overlapping operations on one key, at least one a successful update; distinct = '
    '(discipline, resize state during the episode: stable / explicit resize completed / size changed, concurrency on the key: '
    '<=2 / 3-4 / 5+, one overlapping pair of (operation, result) classes on that key) - at most 1404 by construction. '
    'Linearizability is searched with a private Wing-Gong-Lowe checker (harness/lfht_conc_lin.h) in which operations of one '
    'thread keep their program order exactly and only operations of different threads get the TSC margin (lin.c applies the '
    'margin, ~1 us = several operations, to every pair). Markers: ht_add_retry, ht_add_gc_help, ht_replace_retry hook hits; '
    'the lost-ownership branch of _cds_lfht_del has no hook call, counter marker_del_lost_owner_after_flagging counts del '
    'calls that returned -ENOENT after having set the REMOVED flag themselves (HT_DEL_FLAGGED hit inside the call); '
    'worker/reader_ops_during_explicit_grow/shrink count operations that ran entirely inside one cds_lfht_resize call. '
    'KNOWN FINDING (reported, listed in known_findings.json): add_unique / add_replace are not linearizable when the same key is '
    'also inserted with plain cds_lfht_add; a rejected history is re-checked with a model in which a successful add_unique / '
    'add_replace-NULL only has to exclude nodes of add_unique / add_replace lineage, and gets the key '
    'lfht:not-linearizable:add_unique-vs-plain-add-same-key only if that model accepts it; case finding-add_unique-vs-plain-add '
    'drives the interleaving on purpose (8 evaluations).')

C06_RULE = (
    'UNIQ cases: one evaluation = one WALK (lookup+next_duplicate walk, first/next traversal or plain lookup, each inside one '
    'read-side section) by a walker thread while 2-8 updaters hammer add_unique / add_replace / lookup+replace / lookup+del on 1-3 '
    'keys with colliding hashes (fresh table, keys, residents and allocator per phase); asserted online: never two nodes with '
    'one key in one walk / traversal, key k0 (primed once, then only add_replace\'d / replace\'d) found by EVERY lookup and exactly '
    'once by every walk / traversal, no node returned whose removal had returned > eps before the walk began, residents visited '
    'exactly once, add_replace on k0 never inserts; per node life an ownership counter (atomic fetch_add must return 0 at every '
    'del 0 / replace 0 / add_replace result); at the quiescent end of each phase inserted - handed-out == present (<= 1) per key. '
    'non-trivial = walk during which >= 1 successful update of the walked key completed; distinct = (walk kind, key class, resize '
    'mode, kinds of updates that completed during the walk, size changed / resizing / stable). '
    'ROUNDS cases: one evaluation = one round in which K=2-8 threads add_unique the same key at once (barrier + sub-microsecond '
    'offsets + hook delays): exactly one gets its own node back and all others get that node (key present before the round: nobody '
    'wins, all get the resident node); non-trivial = >= 2 calls overlapped; distinct = (resize mode, K bucket, max overlap bucket, key '
    'present / absent, chaos level, resize state). EPISODE cases (discipline=unique): as C05 with updates restricted to add_unique / '
    'add_replace / replace / del, one evaluation = one episode, plus "never two nodes with one key" for every recorded walk / traversal.')

ASSUME = ['x86-64 TSO only', 'TSC synchronised across CPUs (re-measured each run; eps reported); interval oracles are skipped '
          '(inconclusive) when calibration fails',
          'gcc sanitizer runtimes',
          'qsbr: threads are online while operating and offline while waiting at the barriers; the explicit resizer calls '
          'cds_lfht_resize() from an offline thread or from an online one (per call at random) and is offline otherwise; explicit '
          'resizer and AUTO_RESIZE are not combined in one table',
          'episodes bound concurrency to 4 updaters per key; table sizes 1..1024 buckets',
          'full-table traversal is not specified as atomic: only residency / presence-interval clauses are checked for it']


@prop('C05', 'Hash table: concurrent ops are linearizable; resident nodes are never missed', 'exploration', C05_RULE, ASSUME)
def c05(tier, seed):
    q = tier == 'quick'
    s = 1 if q else 30
    out = []
    out.append(_ep('ep-none', 'memb', 'plain', 'none', 350000 * s, timeout=200 * s))
    out.append(_ep('ep-explicit', 'memb', 'plain', 'explicit', 300000 * s, timeout=200 * s))
    out.append(_ep('ep-auto', 'memb', 'plain', 'auto', 250000 * s, timeout=200 * s))
    out.append(_ep('ep-acct', 'memb', 'plain', 'acct', 200000 * s, timeout=200 * s))
    out.append(_ep('ep-explicit-w4-callrcu', 'memb', 'plain', 'explicit', 250000 * s, workers=4, extra=['--reclaim=call_rcu'],
                   timeout=200 * s, cpus=7))
    out.append(_ep('ep-explicit-builtins', 'memb', 'builtins', 'explicit', 150000 * s, timeout=200 * s))
    out.append(_ep('ep-explicit-asan', 'memb', 'asan', 'explicit', 80000 * s, timeout=300 * s))
    out.append(_ep('ep-acct-asan', 'memb', 'asan', 'acct', 50000 * s, timeout=300 * s))
    out.append(_ep('ep-explicit-tsan', 'memb', 'tsan', 'explicit', 30000 * s, timeout=400 * s))
    out.append(_ep('ep-auto-tsan', 'memb', 'tsan', 'auto', 25000 * s, timeout=400 * s))
    # known finding, driven on purpose (deterministic): add_unique / add_replace vs plain add of the same key
    out.append(case('finding-add_unique-vs-plain-add', 'lfht_conc', 'memb', 'plain',
                    ['--cfg=finding-add_unique-vs-plain-add', '--mode=finding-addu', '--placement=0'], cpus=2, timeout=120))
    if not q:
        for fl in ('mb', 'qsbr', 'bp'):
            for rz in ('none', 'explicit', 'auto', 'acct'):
                out.append(_ep('ep-%s-%s' % (rz, fl), fl, 'plain', rz, 12000 * s, timeout=200 * s))
            out.append(_ep('ep-explicit-%s-asan' % fl, fl, 'asan', 'explicit', 3000 * s, timeout=300 * s))
            out.append(_ep('ep-acct-%s-tsan' % fl, fl, 'tsan', 'acct', 1000 * s, timeout=400 * s))
        for mm in ('order', 'chunk', 'mmap', 'default'):
            out.append(_ep('ep-explicit-%s' % mm, 'memb', 'plain', 'explicit', 10000 * s, extra=['--mm=%s' % mm], timeout=200 * s))
        out.append(_ep('ep-acct-stock-commit-order', 'memb', 'plain', 'acct', 10000 * s, extra=['--tun-commit-order=10'],
                       timeout=200 * s))
    return out


@prop('C06', 'Hash table: unique adds never expose duplicate keys; replace is atomic', 'exploration', C06_RULE, ASSUME)
def c06(tier, seed):
    q = tier == 'quick'
    s = 1 if q else 30
    out = []
    out.append(_uniq('uniq-none', 'memb', 'plain', 'none', 30 * s, 50000, updaters=5, walkers=2, timeout=200 * s))
    out.append(_uniq('uniq-explicit', 'memb', 'plain', 'explicit', 30 * s, 40000, updaters=4, walkers=2, timeout=200 * s))
    out.append(_uniq('uniq-acct', 'memb', 'plain', 'acct', 30 * s, 40000, updaters=3, walkers=2, extra=['--reclaim=call_rcu'],
                     timeout=200 * s, cpus=7))
    out.append(_uniq('uniq-explicit-churn-only', 'memb', 'plain', 'explicit', 25 * s, 40000, updaters=3, walkers=2,
                     extra=['--continuous=0'], timeout=200 * s))
    out.append(_rounds('rounds-none', 'memb', 'plain', 'none', 300000 * s, threads=7, timeout=200 * s))
    out.append(_rounds('rounds-explicit', 'memb', 'plain', 'explicit', 250000 * s, threads=5, timeout=200 * s))
    out.append(_ep('ep-uniq-explicit', 'memb', 'plain', 'explicit', 200000 * s, extra=['--discipline=unique'], timeout=200 * s))
    out.append(_ep('ep-uniq-auto', 'memb', 'plain', 'auto', 150000 * s, extra=['--discipline=unique'], timeout=200 * s))
    out.append(_uniq('uniq-explicit-asan', 'memb', 'asan', 'explicit', 15 * s, 15000, updaters=4, walkers=2, timeout=300 * s))
    out.append(_uniq('uniq-auto-tsan', 'memb', 'tsan', 'auto', 10 * s, 8000, updaters=3, walkers=2, timeout=400 * s))
    out.append(_uniq('uniq-explicit-tsan', 'memb', 'tsan', 'explicit', 10 * s, 8000, updaters=3, walkers=2, timeout=400 * s))
    out.append(_rounds('rounds-explicit-asan', 'memb', 'asan', 'explicit', 50000 * s, threads=5, timeout=300 * s))
    out.append(_ep('ep-uniq-explicit-tsan', 'memb', 'tsan', 'explicit', 12000 * s, extra=['--discipline=unique'], timeout=400 * s))
    if not q:
        for fl in ('mb', 'qsbr', 'bp'):
            out.append(_uniq('uniq-explicit-%s' % fl, fl, 'plain', 'explicit', 4 * s, 30000, timeout=200 * s))
            out.append(_uniq('uniq-acct-%s' % fl, fl, 'plain', 'acct', 4 * s, 30000, timeout=200 * s))
            out.append(_rounds('rounds-explicit-%s' % fl, fl, 'plain', 'explicit', 15000 * s, timeout=200 * s))
            out.append(_ep('ep-uniq-explicit-%s' % fl, fl, 'plain', 'explicit', 10000 * s, extra=['--discipline=unique'],
                           timeout=200 * s))
            out.append(_uniq('uniq-explicit-%s-tsan' % fl, fl, 'tsan', 'explicit', 1 * s, 5000, updaters=3, walkers=2,
                             timeout=400 * s))
        out.append(_uniq('uniq-none-7upd', 'memb', 'plain', 'none', 6 * s, 40000, updaters=7, walkers=1, timeout=200 * s))
    return out
