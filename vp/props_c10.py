"""C10 - wait-free queues (cds_wfcq, __cds_wfcq, legacy cds_wfq) are FIFO."""
from props import prop, case, H

H('wfq', ['wfq.c', 'lin.c'])


def _ep(name, variant, seconds, api='mix', lgpl=True, extra=(), cpus=4):
    args = ['--cfg=%s' % name, '--mode=episodes', '--api=%s' % api, '--seconds=%g' % seconds,
            '--workers=%d' % min(cpus, 4), '--placement=0'] + list(extra)
    return case(name, 'wfq', 'memb', variant, args, cpus=cpus, timeout=int(seconds * 4 + 120), lgpl=lgpl)


def _long(name, family, nodes, producers, consumers, api='locked', seconds=60, extra=(), cpus=4, lgpl=True):
    args = ['--cfg=%s' % name, '--mode=long', '--family=%s' % family, '--api=%s' % api, '--nodes=%d' % nodes,
            '--producers=%d' % producers, '--consumers=%d' % consumers, '--seconds=%g' % seconds,
            '--placement=0'] + list(extra)
    return case(name, 'wfq', 'memb', 'plain', args, cpus=cpus, timeout=int(seconds * 3 + 120), lgpl=lgpl)


@prop('C10', 'Wait-free queues are FIFO: nothing lost, duplicated, reordered; splice moves all', 'exploration',
      'EPISODES: one evaluation = one short history (2-4 pinned threads x 1-6 operations on TWO queues: enqueue -> '
      'was-non-empty, dequeue blocking / nonblocking / with_state, splice blocking / nonblocking in both directions, '
      'cds_wfcq_empty(), first/next iteration blocking / nonblocking; plus the content the controller finds at '
      'quiescence) decided by the linearizability checker against a two-FIFO-queue model (splice = take + put, '
      'not atomic; WOULDBLOCK = no-op legal on a non-empty queue; iteration = exact snapshot, nonblocking iteration '
      'ending in WOULDBLOCK = strict prefix). Search budget 2e6 nodes, above = inconclusive. 1 episode in 48 parks '
      'an enqueuer between its tail exchange and its link store while the consumer runs nonblocking operations '
      'whose results are compared with what that state allows. non-trivial = a dequeue / splice-from / iteration '
      'overlapped >= 1 enqueue on the same queue; distinct = API family (locked / single-consumer) + set of '
      'overlapping operation-kind pairs (capped at 2500). LONG RUNS (counted as nodes/1000 evaluations, also '
      'counter longrun_nodes): 2-3 producers, 1-2 consumers, cds_wfcq (locked, single-consumer) and legacy cds_wfq: '
      'per-producer counter order = exactly-once + no loss, conservation after the final drain, real-time order / '
      'presence cover (NULL, LAST, empty()==true, SRC_EMPTY refuted by a node whose enqueue had returned), splice '
      'into a private queue moves everything. ASan / TSan variants run the episodes with dequeued nodes free()d at '
      'once; plain builds poison + quarantine them.',
      ['x86-64 TSO only', 'TSC synchronised across CPUs (re-measured each run; eps reported)', 'gcc sanitizer runtimes',
       'LGPL builds point CDS_WFCQ_WAIT_SLEEP (documented customisation macro) at a 30 us sleep instead of poll(10 ms)',
       'splice is modelled as two steps (source emptied, then appended to the destination): the API text does not promise atomicity',
       'linearizability search bounded to 2e6 nodes per history'])
def c10(tier, seed):
    out = []
    if tier == 'quick':
        out.append(_ep('ep-plain', 'plain', 16))
        out.append(_ep('ep-tsan', 'tsan', 14, extra=['--stall-ms=60000']))
        out.append(_ep('ep-asan', 'asan', 12))
        out.append(_ep('ep-nolgpl', 'plain', 10, lgpl=False))
        out.append(_long('long-wfcq-locked', 'wfcq', 8000000, 3, 1, 'locked', seconds=12))
        out.append(_long('long-wfcq-sc', 'wfcq', 6000000, 3, 1, 'sc', seconds=8))
        out.append(_long('long-wfcq-2c', 'wfcq', 3000000, 2, 2, 'locked', seconds=6))
        out.append(_long('long-wfq', 'wfq', 5000000, 3, 1, seconds=8))
        return out
    s = 30
    out.append(_ep('ep-plain', 'plain', 10 * s))
    out.append(_ep('ep-plain-locked', 'plain', 4 * s, api='locked'))
    out.append(_ep('ep-plain-sc', 'plain', 4 * s, api='sc'))
    out.append(_ep('ep-plain-pairs', 'plain', 3 * s, extra=['--placement=1']))
    out.append(_ep('ep-plain-w3', 'plain', 3 * s, cpus=3))
    out.append(_ep('ep-builtins', 'builtins', 4 * s))
    out.append(_ep('ep-tsan', 'tsan', 14 * s, extra=['--stall-ms=60000']))
    out.append(_ep('ep-asan', 'asan', 12 * s))
    out.append(_ep('ep-nolgpl', 'plain', 10 * s, lgpl=False))
    out.append(_ep('ep-nolgpl-asan', 'asan', 4 * s, lgpl=False))
    out.append(_long('long-wfcq-locked', 'wfcq', 30000000, 3, 1, 'locked', seconds=8 * s))
    out.append(_long('long-wfcq-sc', 'wfcq', 30000000, 3, 1, 'sc', seconds=6 * s))
    out.append(_long('long-wfcq-2c', 'wfcq', 20000000, 2, 2, 'locked', seconds=5 * s))
    out.append(_long('long-wfcq-p8', 'wfcq', 10000000, 8, 1, 'locked', seconds=5 * s))
    out.append(_long('long-wfcq-p12c3', 'wfcq', 6000000, 12, 3, 'locked', seconds=5 * s))
    out.append(_long('long-wfcq-nolgpl', 'wfcq', 20000000, 3, 1, 'locked', seconds=5 * s, lgpl=False))
    out.append(_long('long-wfq', 'wfq', 30000000, 3, 1, seconds=6 * s))
    out.append(_long('long-wfq-2c', 'wfq', 10000000, 2, 2, seconds=4 * s))
    out.append(_long('long-wfq-nolgpl', 'wfq', 10000000, 3, 1, seconds=4 * s, lgpl=False))
    return out
