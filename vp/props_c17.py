"""C17 - progress: wait-free / lock-free operations never wait on other threads (harness progress.c)."""
from props import prop, case, H

H('progress', ['progress.c'], cflags=['-fno-sanitize=null'])


def _c(name, flavor, variant, reps, groups='', extra=(), lgpl=True, timeout=240):
    args = ['--reps=%d' % reps] + (['--groups=%s' % groups] if groups else []) + list(extra)
    return case(name, 'progress', flavor, variant, args, env={'LD_BIND_NOW': '1'}, cpus=5, timeout=timeout, lgpl=lgpl)


@prop('C17', 'Progress: wait-free and lock-free operations never wait on other threads', 'fault_enumeration',
      'TODO', [])
def c17(tier, seed):
    return [_c('memb-plain', 'memb', 'plain', 1)]
