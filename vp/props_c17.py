"""C17 - progress: wait-free / lock-free operations never wait on other threads (harness progress.c)."""
from props import prop, case, H

# -fno-sanitize=null: _cds_lfs_push() evaluates &head->node with head == NULL on its first iteration (see props_c11).
H('progress', ['progress.c'], cflags=['-fno-sanitize=null'])


def _c(name, flavor, variant, reps, groups='', extra=(), lgpl=True, timeout=300, env=None):
    args = ['--reps=%d' % reps] + (['--groups=%s' % groups] if groups else []) + list(extra)
    e = {'LD_BIND_NOW': '1'}
    e.update(env or {})
    return case(name, 'progress', flavor, variant, args, env=e, cpus=5, timeout=timeout, lgpl=lgpl)


@prop('C17', 'Progress: wait-free and lock-free operations never wait on other threads', 'fault_enumeration',
      'one evaluation = one library call O made by the pinned subject thread on a fresh structure in a given initial state '
      '(empty / one node / several nodes / logically removed node still linked / resize half done) while 0-3 other pinned '
      'threads are PARKED at hook point P in the middle of their own operation (enqueue between tail exchange and link '
      'store, push between head exchange and next store, dequeue / pop / splice before their cmpxchg / second exchange, '
      'lfq enqueue linked-but-tail-not-advanced, hash-table add / replace before cmpxchg, del flagged / in gc / before '
      'ownership, resize before size publish / while populating / before its grace period / before and during bucket '
      'removal, synchronize_rcu() holding rcu_gp_lock and/or the registry lock / before its futex sleep / queued behind '
      'it, call_rcu helper before its sleep). The subject\'s OWN retired instructions inside the call are counted by '
      'single-stepping (EFLAGS.TF + SIGTRAP; marker counting only in the TSan variant). Violation = (a) the count exceeds '
      'B while the others are parked: wait-free and *_nonblocking B = max(2000, 20 x largest solo cost of that operation '
      'measured in the same run), lock-free B = 50000, hash-table lookup / first / next B = 300 x (nodes + bucket nodes '
      'that can be linked + 2) per call, all x4 under ASan; (b) the subject is about to execute a blocking system call '
      '(poll, futex wait, nanosleep, sched_yield ...; decoded in the trap handler) or reaches the CDS_WFCQ_WAIT_SLEEP '
      'customisation macro; (c) a wait marker is hit more than twice / a retry marker more than 64 times inside one call; '
      '(d) the result differs from the sequential model extended with the parked operations (linearised or not according '
      'to the point they are parked at): e.g. behind a parked enqueuer dequeue_nonblocking / first / next / splice must '
      'say WOULDBLOCK (never NULL / empty), cds_wfcq_empty() false, enqueue "was non-empty"; lookups never return a '
      'logically removed node; del of a node flagged by a parked deleter returns -ENOENT; (e) with NOTHING in flight a '
      '*_nonblocking call returns WOULDBLOCK or anything but the model\'s answer; (f) after the parked threads are released '
      'the final content (queue order, stack order, hash-table node set, one owner per removed node, unique keys) differs '
      'from the model. The verdict is recorded from the step count / logical event first; only then are the parked '
      'threads released so that the subject can return. non-trivial = every parker of the triple was confirmed parked at '
      'its point before O started (nontrivial counter) - quiet evaluations (nothing parked) provide the solo baseline; '
      'distinct signature = "P:O:state:nfrozen". Evidence notes list per operation: solo cost range, largest cost with '
      'parked threads and where, bound used.',
      ['x86-64; instruction counts include the URCU_VERIF hook-function calls inside the operation (same overhead in the solo baseline)',
       'reachable states are sampled through the listed hook points, not enumerated exhaustively; "from any reachable '
       'state" is claimed only for these suspension points and 1-3 parked threads',
       'with every other thread parked, wait-freedom and lock-freedom both reduce to "finishes within a bound of own steps '
       'without waiting"; bounded-under-interference (wait-free proper) is not observable this way',
       'documented mutual-exclusion rules respected: no second wfcq consumer next to a parked one; concurrent stack pops '
       'follow the RCU scheme (nodes not reused before the triple ends)',
       'hash tables without CDS_LFHT_AUTO_RESIZE (the lazy resize launch allocates and queues work); lfq dummy nodes are '
       'released through a harness queue_call_rcu callback; malloc() inside cds_lfq_dequeue_rcu counts as own steps',
       'bp flavor: read-side primitives not evaluated (not in the statement); TSan variant: marker counting instead of '
       'single-stepping (a wait without marker would show as an inconclusive watchdog stop there)',
       'LD_BIND_NOW=1 (the harness re-executes itself with it) so that lazy symbol resolution is not charged to an operation'])
def c17(tier, seed):
    out = []
    if tier == 'quick':
        out.append(_c('memb-plain', 'memb', 'plain', 3))
        out.append(_c('qsbr-plain', 'qsbr', 'plain', 2))
        out.append(_c('mb-plain', 'mb', 'plain', 1))
        out.append(_c('memb-nolgpl', 'memb', 'plain', 1, lgpl=False))
        out.append(_c('memb-builtins', 'memb', 'builtins', 1))
        out.append(_c('memb-asan', 'memb', 'asan', 1, extra=['--ht-stride=6']))
        out.append(_c('qsbr-asan-rs', 'qsbr', 'asan', 2, groups='rs,lfq'))
        out.append(_c('memb-nomembarrier-rs', 'memb', 'plain', 2, groups='rs', env={'VP_NO_MEMBARRIER': '1'}))
        out.append(_c('memb-tsan', 'memb', 'tsan', 6))
        return out
    s = 30
    out.append(_c('memb-plain', 'memb', 'plain', 3 * s, timeout=3600))
    out.append(_c('memb-plain-full', 'memb', 'plain', 24, extra=['--ht-stride=1'], timeout=3600))
    out.append(_c('qsbr-plain', 'qsbr', 'plain', 2 * s, timeout=3600))
    out.append(_c('mb-plain', 'mb', 'plain', 2 * s, timeout=3600))
    out.append(_c('bp-plain-lfht', 'bp', 'plain', 2 * s, groups='lfht,lfq,lfs,wfs', timeout=3600))
    out.append(_c('memb-nolgpl', 'memb', 'plain', 2 * s, lgpl=False, timeout=3600))
    out.append(_c('qsbr-nolgpl', 'qsbr', 'plain', s, lgpl=False, timeout=3600))
    out.append(_c('memb-builtins', 'memb', 'builtins', 2 * s, timeout=3600))
    out.append(_c('qsbr-builtins', 'qsbr', 'builtins', s, timeout=3600))
    out.append(_c('memb-asan', 'memb', 'asan', 24, extra=['--ht-stride=4'], timeout=5400))
    out.append(_c('qsbr-asan', 'qsbr', 'asan', 12, extra=['--ht-stride=4'], timeout=5400))
    out.append(_c('mb-asan-rs', 'mb', 'asan', 2 * s, groups='rs,lfq', timeout=3600))
    out.append(_c('memb-nomembarrier-rs', 'memb', 'plain', 4 * s, groups='rs', env={'VP_NO_MEMBARRIER': '1'}, timeout=3600))
    out.append(_c('memb-tsan', 'memb', 'tsan', 6 * s, timeout=3600))
    out.append(_c('qsbr-tsan', 'qsbr', 'tsan', 3 * s, timeout=3600))
    return out
