#!/bin/sh
# mkworktree.sh NAME : scratch git worktree of /repo at HEAD under /tmp/wt-NAME, with the
# in-tree build products copied so that `make` / `make -k check` work there at once.
set -e
d=/tmp/wt-$1
git -C /repo worktree add -q --detach "$d" HEAD
rsync -a --exclude=.git /repo/ "$d"/
(cd "$d" && ./config.status >/dev/null 2>&1)
echo "$d"
