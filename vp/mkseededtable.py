#!/usr/bin/env python3
"""Regenerate the table of DESIGN.md section 8 from seeded/*/meta.json and selftest_results_seeded.json."""
import json, glob, re
from pathlib import Path
V = Path(__file__).resolve().parent.parent
notes = json.loads((V / 'vp' / 'seeded_notes.json').read_text())
res = {}
for r in json.loads((V / 'selftest_results_seeded.json').read_text()):
    x = r['results'][0]
    res[r['patch'].split('/')[1]] = (x['detected'], ', '.join(x['keys'][:3]))
out = ['| id | change (site, mechanism) | quick-tier result of the owning check (first violation keys) | strengthening it led to |', '|---|---|---|---|']
paths = sorted(glob.glob(str(V / 'seeded/*/meta.json')), key=lambda p: (p.split('/')[-2].split('-')[0], int(p.split('/')[-2].split('-')[1])))
nd = 0
for d in paths:
    m = json.load(open(d)); sid = d.split('/')[-2]
    title = (m.get('title') or '').replace('|', '/').replace('\n', ' ')[:200]
    det, keys = res.get(sid, (None, ''))
    nd += bool(det)
    out.append('| %s | %s | %s%s | %s |' % (sid, title, 'DETECTED ' if det else ('not run ' if det is None else 'MISSED '),
                                           ('`' + keys[:120].replace('|', '/') + '`') if keys else '', notes.get(sid, '')))
out.append('')
out.append('%d of %d detected by the quick tier of the owning check in the last full run.' % (nd, len(paths)))
p = V / 'DESIGN.md'
s = p.read_text()
s = re.sub(r'<!-- SEEDED-TABLE-BEGIN -->.*?<!-- SEEDED-TABLE-END -->', '<!-- SEEDED-TABLE-BEGIN -->\n' + '\n'.join(out) + '\n<!-- SEEDED-TABLE-END -->', s, flags=re.S)
p.write_text(s)
print('table: %d rows, %d detected' % (len(paths), nd))
