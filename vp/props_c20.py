"""C20 - uatomic operations: documented value semantics, atomicity, full-barrier RMWs."""
from props import prop, case, H

# -fno-var-tracking: debug-info only (halves the compile time of the ~600 generated drivers)
H('uatomic', ['uatomic.c'], cflags=['-fno-var-tracking'])


@prop('C20', 'uatomic ops are atomic and return the documented value for every width/operand', 'exploration',
      'one evaluation = (i) one (operation variant, type, window offset, old value, operand) case whose return value, '
      'target and full 48-byte memory image are compared with a plain-C reference, (ii) one oracle decision of a '
      'concurrent conservation test (a ticket / consumed value checked for uniqueness, an owner-predicted return '
      'value, a critical section invariant, a final-sum check), (iii) one store-buffer litmus round; non-trivial = '
      'the operation changes memory or returns a value (i), the decision covers concurrently executed RMWs (ii), the '
      'round ended 1/1, i.e. both threads demonstrably overlapped (iii); distinct = signatures (family, operation '
      'variant incl. memory order, width, signedness[, offset / thread count / observed litmus outcomes]).',
      ['x86-64 only: other architectures\' headers are not executed',
       'gcc 12: an asm volatile with a "+m" operand is already a full compiler barrier for this compiler, so a '
       'missing "memory" clobber alone is not observable in the generated code (a write-only "=m" operand is: '
       'no-barrier pass)',
       'on x86 every lock-prefixed RMW is a full CPU barrier: weaker memory orders passed to the builtins produce '
       'identical machine code and are not distinguishable',
       'litmus verdicts count only if the positive control (no RMW) shows the 0/0 outcome in the same run'])
def c20(tier, seed):
    q = tier == 'quick'
    scale = 1 if q else 30
    seq_args = ['--mode=seq', '--seq-rand=%d' % (16 if q else 700), '--w2-operands=%d' % (8 if q else 96),
                '--prog-steps=%d' % (200000 * scale)]
    seq_asan = ['--mode=seq', '--seq-rand=%d' % (8 if q else 200), '--w2-operands=%d' % (3 if q else 32),
                '--prog-steps=%d' % (100000 * scale)]
    conc_args = ['--mode=conc', '--conc-ops=%d' % (600000 * scale)]
    lit_args = ['--mode=litmus', '--litmus-rounds=%d' % (500000 * scale), '--control-rounds=%d' % (1000000 * (1 if q else 8))]
    out = []
    for variant in ('plain', 'builtins'):
        out.append(case('conc-%s' % variant, 'uatomic', 'memb', variant, conc_args, cpus=4, timeout=120 * scale))
        out.append(case('litmus-%s' % variant, 'uatomic', 'memb', variant, lit_args, cpus=2, timeout=120 * scale))
        out.append(case('seq-%s' % variant, 'uatomic', 'memb', variant, seq_args, cpus=1, timeout=120 * scale))
    out.append(case('seq-asan', 'uatomic', 'memb', 'asan', seq_asan, cpus=1, timeout=240 * scale))
    return out
