"""C16 - fork() bracketed by the documented handlers leaves parent and child fully functional."""
from props import prop, case, H

H('forkh', ['forkh.c'])
H('forkp', ['forkp.c'])   # fork in a process that has never used call_rcu (only hash tables + synchronize_rcu)


def _c(name, flavor, variant, scenarios, extra=(), cpus=4, timeout=420):
    args = ['--cfg=%s' % name, '--scenarios=%d' % scenarios] + list(extra)
    if not any(a.startswith('--placement=') for a in extra):
        args.append('--placement=0')
    return case(name, 'forkh', flavor, variant, args, cpus=cpus, timeout=timeout)


@prop('C16', 'fork() with the documented handlers leaves parent and child fully functional', 'exploration',
      'one evaluation = one fork() bracketed by <flavor>_call_rcu_before_fork / after_fork_parent / after_fork_child '
      '(bp: urcu_bp_before_fork / after_fork_* nested inside them; multi-flavor case: memb handlers + qsbr handlers, '
      'LIFO and non-LIFO order, hash-table atfork callbacks registered with both flavors). The forking thread builds a '
      'helper layout (default / per-thread / per-CPU / mixed, 1 in 8 with URCU_CALL_RCU_RT), 0-2 AUTO_RESIZE|ACCOUNTING '
      'tables, queues 0-215 callbacks so that helpers are asleep / just woken / mid-batch / in a burst, calls the '
      'before_fork handlers and snapshots the per-callback counters (helpers paused: "pending at fork"; the set is '
      're-checked in the child image and in the parent before after_fork_parent; non-bp: reader registry must hold only '
      'the forking thread). Parent and child then run the same script: read-side section, synchronize_rcu x1-3, new '
      'call_rcu + rcu_barrier x2, every pending / completed / new callback counted exactly once in that process, '
      'inherited tables settle (queued resize done by the resumed / re-created worker), all nodes found, tables grow '
      'through lazy resizes, fresh table created + grown + emptied + destroyed; signal mask equals the mask before '
      'before_fork; bp child: arena holds only the forking thread slot. Children fork again (depth <= 3) after '
      'building a new layout and new threads. A process that stops progressing is a violation only when its progress '
      'page did not move across 3 samples spanning >= 21 s AND its script thread was blocked in the kernel at each '
      'sample and no thread of that process spent > 25 % of the interval waiting for a CPU (or: the hash-table work '
      'queue length stayed > 0 for the whole poll budget while no workqueue/resize hook point was hit); otherwise '
      'inconclusive. resize_initiated left set with an empty work queue (launcher stores the flag after queueing; '
      'not fork related) is counted as stale_resize_initiated_flag and treated as no resize pending. non-trivial = >= 1 callback pending at fork, or a resize in flight / queued at '
      'before_fork, or (bp) >= 1 other thread inside a read-side section at fork. distinct = (flavor, layout, helper '
      'state when before_fork was called, pending bucket, depth, forking thread registered | bp: readers bucket, '
      'in-section bucket, table state).',
      ['x86-64 Linux fork semantics (only the forking thread exists in the child)',
       'TSan variant not run: a multi-threaded process that forks has no TSan runtime in the child',
       'non-bp flavors: the other application threads are unregistered and idle; qsbr forking thread is offline '
       'while it calls the handlers (it must not wait for a helper while online)',
       'bp handlers nest inside the call_rcu handlers (call_rcu_before_fork first, urcu_bp_after_fork_* first)',
       'bp readers parked inside a section leave it after about 0.5 s at the latest (a helper that began a grace period '
       'before PAUSE was requested must be able to finish)',
       'the re-created hash-table worker may spin on the inherited futex value (known, not flagged)',
       'work-queue length is read through a private mirror of the leading fields of struct urcu_workqueue '
       '(address = ctx of the WQ_PRE_SLEEP / WQ_PAUSE hook points); no accessor exists in vp_peek.h'])
def c16(tier, seed):
    out = []
    k = 1 if tier == 'quick' else 30
    t = 420 if tier == 'quick' else 7200
    for fl in ('memb', 'mb', 'qsbr', 'bp'):
        bp = ['--tun-bp-sleep=1'] if fl == 'bp' else []
        out.append(_c('%s-plain' % fl, fl, 'plain', 130 * k, extra=bp, timeout=t))
        out.append(_c('%s-asan' % fl, fl, 'asan', 65 * k, extra=bp, timeout=t))
    out.append(_c('memb-multi-plain', 'memb', 'plain', 50 * k, extra=['--multi=1'], timeout=t))
    out.append(_c('memb-multi-asan', 'memb', 'asan', 25 * k, extra=['--multi=1'], timeout=t))
    # pristine processes: AUTO_RESIZE table, no call_rcu helper exists at fork time
    from props import case
    for fl in ('memb', 'qsbr', 'bp') if tier == 'quick' else ('memb', 'mb', 'qsbr', 'bp'):
        out.append(case('%s-pristine' % fl, 'forkp', fl, 'plain', ['--cfg=%s-pristine' % fl, '--rounds=%d' % (120 * k), '--tun-bp-sleep=1'],
                        {}, cpus=3, timeout=t))
    out.append(case('memb-pristine-asan', 'forkp', 'memb', 'asan', ['--cfg=memb-pristine-asan', '--rounds=%d' % (60 * k)], {}, cpus=3,
                    timeout=t))
    if tier != 'quick':
        out.append(_c('memb-builtins', 'memb', 'builtins', 60 * k, timeout=t))
        out.append(_c('bp-builtins', 'bp', 'builtins', 60 * k, extra=['--tun-bp-sleep=1'], timeout=t))
        out.append(_c('bp-stock-sleep', 'bp', 'plain', 40 * k, timeout=t))
        out.append(_c('qsbr-nochaos', 'qsbr', 'plain', 60 * k, extra=['--hook-prob=0'], timeout=t))
        out.append(_c('mb-pairs', 'mb', 'plain', 60 * k, extra=['--placement=1'], timeout=t))
    return out
