#!/usr/bin/env python3
"""./check <Cxx> [--tier quick|thorough] [--replay file] | --setup | --list

Builds the code under test from $VERIF_REPO (default /repo), runs the property's
cases in parallel on disjoint CPU sets, filters violations through
known_findings.json, writes evidence/<id>.json, prints VIOLATION / KNOWN-FINDING
lines.  Exit 0 held, 1 violation, 2 harness failure.
"""
import json
import os
import queue
import re
import shlex
import signal
import subprocess
import sys
import threading
import time
from concurrent.futures import ThreadPoolExecutor
from pathlib import Path

sys.path.insert(0, str(Path(__file__).resolve().parent))
import build  # noqa: E402
import props  # noqa: E402

VERIF = build.VERIF
EVID = Path(os.environ.get('VERIF_EVIDENCE_DIR', str(VERIF / 'evidence')))
WITNESS = EVID / 'witness'

VERIF_SUPP = build.VERIF / 'cfg' / 'tsan.supp'
SAN_ENV = {
    'ASAN_OPTIONS': 'halt_on_error=1:abort_on_error=0:detect_leaks=0:exitcode=67:allocator_may_return_null=1:detect_stack_use_after_return=1',
    'UBSAN_OPTIONS': 'print_stacktrace=1:halt_on_error=1:exitcode=67',
    'TSAN_OPTIONS': 'halt_on_error=1:second_deadlock_stack=1:die_after_fork=0:exitcode=66:report_signal_unsafe=0:suppressions=' + str(VERIF_SUPP),
}


class CpuAlloc:
    """Hands out disjoint CPU sets to cases.  CPUs are also claimed across processes
    (one flock()ed file per CPU under /var/tmp/vp-cpulocks, created on demand) so that two
    checks running at the same time do not pile their pinned threads onto the same cores."""
    LOCKDIR = Path(os.environ.get('VERIF_CPULOCK_DIR', '/var/tmp/vp-cpulocks'))

    def __init__(self):
        self.free = sorted(os.sched_getaffinity(0))
        self.total = len(self.free)
        self.cv = threading.Condition()
        self.locks = {}
        try:
            self.LOCKDIR.mkdir(parents=True, exist_ok=True)
            self.xproc = True
        except OSError:
            self.xproc = False

    def _try_lock(self, cpu):
        if not self.xproc:
            return True
        import fcntl
        try:
            f = open(self.LOCKDIR / ('cpu%d' % cpu), 'w')
        except OSError:
            return True
        try:
            fcntl.flock(f, fcntl.LOCK_EX | fcntl.LOCK_NB)
        except OSError:
            f.close()
            return False
        self.locks[cpu] = f
        return True

    def _unlock(self, cpu):
        f = self.locks.pop(cpu, None)
        if f is not None:
            f.close()

    def get(self, n):
        n = min(n, self.total)
        t0 = time.time()
        with self.cv:
            while True:
                got = []
                if len(self.free) >= n:
                    for c in list(self.free):
                        if self._try_lock(c):
                            got.append(c)
                            if len(got) == n:
                                break
                    # after 15 min of waiting for other processes, share CPUs rather than starve
                    if len(got) < n and time.time() - t0 > 900:
                        for c in self.free:
                            if c not in got:
                                got.append(c)
                                if len(got) == n:
                                    break
                    if len(got) == n:
                        self.free = [c for c in self.free if c not in got]
                        return got
                    for c in got:
                        self._unlock(c)
                self.cv.wait(timeout=0.25)

    def put(self, cpus):
        with self.cv:
            for c in cpus:
                self._unlock(c)
            self.free = sorted(self.free + cpus)
            self.cv.notify_all()


def strip_lines(s):
    return re.sub(r':\d+', '', s)


def classify_crash(rc, stderr):
    """Return a violation key for an abnormal harness exit."""
    m = re.search(r'SUMMARY: (ThreadSanitizer|AddressSanitizer|UndefinedBehaviorSanitizer|LeakSanitizer): (.*)', stderr)
    if m:
        desc = m.group(2).strip()
        desc = re.sub(r'/\S*/', '', desc)          # drop directories
        desc = strip_lines(desc)
        desc = re.sub(r'0x[0-9a-f]+', 'ADDR', desc)
        return 'sanitizer:%s:%s' % (m.group(1), desc[:120])
    m = re.search(r'runtime error: (.*)', stderr)
    if m:
        return 'sanitizer:UBSan:%s' % strip_lines(m.group(1))[:120]
    m = re.search(r"Assertion `(.*?)' failed", stderr)
    if m:
        fm = re.search(r'(\S+?):\d+: (\S+): Assertion', stderr)
        where = fm.group(2) if fm else '?'
        return 'assert:%s:%s' % (where, m.group(1)[:100])
    m = re.search(r'VP-CRASH sig=(\d+) addr=\S+ class=\[(.*?)\]', stderr)
    if m:
        cls = re.sub(r'#\d+', '', m.group(2))
        cls = re.sub(r'off=-?\d+', '', cls)
        return 'crash:sig%s:%s' % (m.group(1), cls.strip()[:80])
    if rc < 0:
        return 'crash:signal%d' % (-rc)
    return 'crash:exit%d' % rc


def run_case(case, cpus_alloc, seed, tier, outdir, idx):
    bins = build.ensure([case['bin']])
    path = bins[case['bin']]
    ncpu = case.get('cpus', 8)
    out = outdir / ('case%03d.json' % idx)
    if out.exists():
        out.unlink()
    args = [str(path), '--seed=%d' % (seed * 1000 + idx), '--out=%s' % out, '--tier=%s' % tier,
            '--witness-dir=%s' % WITNESS] + list(case.get('args', []))
    env = dict(os.environ)
    env.update(SAN_ENV)
    env.update(case.get('env', {}))
    timeout = case.get('timeout', 300)
    attempts = 0
    res = None
    while attempts < 2:
        attempts += 1
        cpus = cpus_alloc.get(ncpu)
        t0 = time.time()
        try:
            p = subprocess.Popen(args, stdout=subprocess.PIPE, stderr=subprocess.PIPE, env=env,
                                 preexec_fn=lambda: os.sched_setaffinity(0, set(cpus)),
                                 start_new_session=True)
            try:
                so, se = p.communicate(timeout=timeout)
                timed_out = False
            except subprocess.TimeoutExpired:
                try:
                    os.killpg(p.pid, signal.SIGKILL)
                except ProcessLookupError:
                    pass
                so, se = p.communicate()
                timed_out = True
        finally:
            cpus_alloc.put(cpus)
        wall = time.time() - t0
        se = se.decode(errors='replace')
        res = dict(case=case, args=args, rc=p.returncode, stderr=se[-6000:], wall=wall,
                   timed_out=timed_out, json=None, attempts=attempts, env=case.get('env', {}))
        if out.exists():
            try:
                res['json'] = json.loads(out.read_text())
            except Exception as e:  # noqa: BLE001
                res['json_error'] = str(e)
        if timed_out and attempts < 2:
            continue        # outer watchdog alone is inconclusive: re-run once
        break
    return res


def load_known():
    p = VERIF / 'known_findings.json'
    if not p.exists():
        return []
    return json.loads(p.read_text()).get('findings', [])


def match_known(prop, key, known):
    for k in known:
        if k.get('property') != prop or k.get('status') != 'known':
            continue
        pat = k.get('key', '')
        if pat == key or re.fullmatch(pat, key):
            return k
    return None


def main():
    argv = sys.argv[1:]
    if not argv or argv[0] in ('-h', '--help'):
        print(__doc__)
        return 2
    if argv[0] == '--list':
        for pid in sorted(props.PROPS):
            print(pid, props.PROPS[pid]['title'])
        return 0
    if argv[0] == '--setup':
        return setup()
    pid = argv[0]
    tier = os.environ.get('VERIF_TIER', 'quick')
    replay = None
    only = None
    fail_fast = bool(os.environ.get('VERIF_FAIL_FAST'))
    i = 1
    while i < len(argv):
        if argv[i] == '--tier':
            tier = argv[i + 1]
            i += 2
        elif argv[i] == '--replay':
            replay = argv[i + 1]
            i += 2
        elif argv[i] == '--only':
            only = argv[i + 1]
            i += 2
        elif argv[i] == '--fail-fast':
            fail_fast = True
            i += 1
        else:
            print('unknown argument', argv[i])
            return 2
    if tier not in ('quick', 'thorough'):
        return 2
    seed = int(os.environ.get('VERIF_SEED', '1'))
    if pid not in props.PROPS:
        print('unknown property', pid)
        return 2
    spec = props.PROPS[pid]
    t_start = time.time()
    EVID.mkdir(exist_ok=True)
    WITNESS.mkdir(exist_ok=True)
    outdir = build.BUILD_ROOT / 'run' / ('%s-%s-%d-%d' % (pid, tier, seed, os.getpid()))
    outdir.mkdir(parents=True, exist_ok=True)
    if not replay:
        for old in WITNESS.glob('%s-%s-seed%d-*.json' % (pid, tier, seed)):
            old.unlink()

    if replay:
        w = json.loads(Path(replay).read_text())
        cases = [w['case']]
        for c in cases:
            c['bin'] = tuple(c['bin'])
    else:
        cases = spec['cases'](tier, seed)
        if only:
            cases = [c for c in cases if re.search(only, c.get('name', ''))]
    try:
        build.ensure([c['bin'] for c in cases], verbose=True)
    except build.BuildError as e:
        print('BUILD FAILED:\n%s' % e)
        return 2

    alloc = CpuAlloc()
    results = [None] * len(cases)

    stop = threading.Event()

    def work(i):
        if stop.is_set():
            results[i] = dict(case=cases[i], args=[], rc=0, stderr='', wall=0.0, timed_out=False, json=None,
                              attempts=0, env={}, skipped=True)
            return
        results[i] = run_case(cases[i], alloc, seed, tier, outdir, i)
        r = results[i]
        if fail_fast and not r['timed_out'] and (r['rc'] not in (0, 4) or (r['json'] or {}).get('violations')):
            stop.set()

    # big cases first so that small ones fill the gaps
    order = sorted(range(len(cases)), key=lambda i: -cases[i].get('cpus', 8))
    with ThreadPoolExecutor(max_workers=16) as ex:
        list(ex.map(work, order))

    known = load_known()
    violations = []     # (key, msg, case result)
    inconclusive = []
    harness_fail = []
    for r in results:
        j = r['json']
        name = r['case'].get('name', '?')
        if r.get('skipped'):
            continue
        if r['timed_out']:
            inconclusive.append('%s: outer wall-clock watchdog (%ds) fired twice' % (name, r['case'].get('timeout', 300)))
            continue
        if j is not None and r['rc'] in (0, 1, 4):
            for v in j.get('violations', []):
                violations.append((v['key'], v['msg'], r))
            for s in j.get('inconclusive', []):
                inconclusive.append('%s: %s' % (name, s))
            if r['rc'] == 1 and not j.get('violations'):
                harness_fail.append('%s: exit 1 without violation record' % name)
        else:
            key = classify_crash(r['rc'], r['stderr'])
            if r['rc'] == 2:
                harness_fail.append('%s: harness exit 2: %s' % (name, r['stderr'][-400:]))
            else:
                violations.append((key, 'abnormal exit rc=%s; stderr tail: %s' % (r['rc'], r['stderr'][-1500:]), r))

    evidence = props.aggregate(pid, spec, tier, seed, results)
    unlisted = []
    known_hits = {}
    for key, msg, r in violations:
        k = match_known(pid, key, known)
        if k:
            known_hits.setdefault(key, k)
        else:
            unlisted.append((key, msg, r))
    evidence['violations'] = len(unlisted)
    evidence['coverage']['inconclusive'] = inconclusive[:20]
    evidence['coverage']['inconclusive_count'] = len(inconclusive)
    evidence['coverage']['known_findings_hit'] = sorted(known_hits)
    evidence['wall_s'] = round(time.time() - t_start, 2)

    rc = 0
    seen = set()
    for n, (key, msg, r) in enumerate(unlisted):
        if key in seen:
            continue
        seen.add(key)
        wpath = WITNESS / ('%s-%s-seed%d-%d.json' % (pid, tier, seed, n))
        case = dict(r['case'])
        case['bin'] = list(case['bin'])
        wpath.write_text(json.dumps(dict(property=pid, key=key, msg=msg, case=case, args=r['args'],
                                         env=r.get('env', {}), rc=r['rc'], stderr_tail=r['stderr'][-3000:]), indent=1))
        print('VIOLATION property=%s replay=%s' % (pid, wpath))
        print('  key=%s\n  %s' % (key, msg[:600].replace('\n', '\n  ')))
        rc = 1
    for key, k in sorted(known_hits.items()):
        print('KNOWN-FINDING: property=%s %s (%s)' % (pid, k.get('text', ''), key))

    cov = evidence['coverage']
    if not replay:
        if harness_fail:
            for h in harness_fail:
                print('HARNESS FAILURE:', h)
            rc = rc or 2
        if rc == 0 and (cov['evaluations'] < 1 or cov['distinct_nontrivial'] < 2):
            print('HARNESS FAILURE: monitors observed nothing (evaluations=%d distinct_nontrivial=%d)'
                  % (cov['evaluations'], cov['distinct_nontrivial']))
            rc = 2
        (EVID / ('%s.json' % pid)).write_text(json.dumps(evidence, indent=1))
    print('%s tier=%s seed=%d: evaluations=%d nontrivial=%d distinct_nontrivial=%d inconclusive=%d violations=%d wall=%.1fs'
          % (pid, tier, seed, cov['evaluations'], cov.get('nontrivial_total', 0), cov['distinct_nontrivial'],
             len(inconclusive), len(seen), time.time() - t_start))
    import shutil
    shutil.rmtree(outdir, ignore_errors=True)
    return rc


def setup():
    """Build everything the quick tier needs (warms the cache) and self-check the sandbox."""
    cpus = sorted(os.sched_getaffinity(0))
    if len(cpus) < 4:
        print('setup: fewer than 4 CPUs available (%d)' % len(cpus))
        return 2
    targets = set()
    try:
        ready = json.loads((VERIF / 'vp' / 'manifest_meta.json').read_text()).get('ready')
    except Exception:  # noqa: BLE001
        ready = None
    for pid, spec in props.PROPS.items():
        if ready is not None and pid not in ready:
            continue        # work in progress: not claimed in MANIFEST.json, must not break setup
        for c in spec['cases']('quick', 1):
            targets.add(c['bin'])
    try:
        build.ensure(sorted(targets), verbose=True)
    except build.BuildError as e:
        print('BUILD FAILED:\n%s' % e)
        return 2
    print('setup ok: %d binaries in %s' % (len(targets), build.build_dir()))
    return 0


if __name__ == '__main__':
    sys.exit(main())
