"""C07 / C09: hash-table node ownership, reclamation safety and resize (harness lfht_life.c)."""
from props import prop, case, H

H('lfht_life', ['lfht_life.c'])


def _c(name, flavor, variant, mode, prop_id, args, cpus=6, timeout=200):
    return case(name, 'lfht_life', flavor, variant,
                ['--cfg=%s' % name, '--mode=%s' % mode, '--prop=%s' % prop_id] + list(args), cpus=cpus, timeout=timeout)


@prop('C07', 'Hash table: removed node has one owner, unreachable after a grace period', 'exploration', 'tbd', [])
def c07(tier, seed):
    return [_c('own-memb', 'memb', 'plain', 'own', 'C07', ['--rounds=4'])]


@prop('C09', 'Hash table resize terminates, preserves contents, respects bucket bounds', 'exploration', 'tbd', [])
def c09(tier, seed):
    return [_c('resize-memb', 'memb', 'plain', 'resize', 'C09', ['--rounds=4'])]
