"""C07 / C09: hash-table node ownership, reclamation safety, resize and destroy (harness lfht_life.c).

One harness, four modes (rounds of: create table -> pinned threads in five roles -> join -> quiescent checks ->
empty -> destroy -> wait until the library handed the table back to the recording allocator):
  own      2-8 contenders race del / replace / add_replace (+ add_unique, duplicate adds) on 1-3 hot keys, walkers in long
           sections, optional explicit resizer / AUTO_RESIZE, neighbours churning the same buckets
  resize   1-3 concurrent cds_lfht_resize() callers walking the request list, resident readers, updaters (chain growth,
           node-counter swings), walkers, sometimes contenders
  destroy  fill + drain by updaters that leave lazy resize work queued, destroy at once, wait for completion
  big      tables of 2^15-2^17 buckets: partitioned multi-thread resize path
"""
from props import prop, case, H

H('lfht_life', ['lfht_life.c'])


def _c(name, flavor, variant, mode, pid, args, cpus=6, timeout=240, scale=1):
    a = ['--cfg=%s' % name, '--mode=%s' % mode, '--prop=%s' % pid] + list(args)
    if variant == 'tsan':
        a.append('--stall-ms=120000')
    elif variant == 'asan':
        a.append('--stall-ms=60000')
    return case(name, 'lfht_life', flavor, variant, a, cpus=cpus, timeout=timeout * scale)


C07_RULE = (
    'one evaluation = one node life that left the table through cds_lfht_del()==0, cds_lfht_replace()==0 or by being returned '
    'from cds_lfht_add_replace(): an atomic per-life counter is incremented at every such "obtained" result and must have been 0 '
    '(two owners = violation at once; at quiescence every node that was added and is no longer found by a full traversal must '
    'have exactly one owner, every node still found must have none; losers must get -ENOENT). The owner then waits '
    'synchronize_rcu() or call_rcu() of the table\'s flavor and poisons + quarantines (canary on release), really frees '
    '(asan/tsan) or unmaps (guard-page subset) the node; every traversal in the harness and every chain walk of the library '
    '(through the match callback) validates {state,id,checksum} of every node it meets, also after heavy-tailed delays inside '
    'the section. Bucket arrays, split counters, resize work items and struct cds_lfht come from a recording guard-page '
    'cds_lfht_alloc (PROT_NONE for good on release, never reused; the mmap back end has its own PROT_NONE discard): use after '
    'release / before allocation faults and the crash handler names the object; double release is reported; cds_lfht_destroy '
    'on emptied tables (with and without AUTO_RESIZE work still queued) from a thread outside any section, then the struct '
    'itself on guard pages. non-trivial = node life whose winning removal overlapped >= 1 other removal attempt on the same node '
    '(in-flight flag per node for del/replace, per key for add_replace); distinct = (winner operation, set of racing operation '
    'kinds, 1/2/3+ racers, resize in progress, bucket allocator / memory allocator).')
C07_ASSUME = [
    'x86-64 TSO; gcc sanitizer runtimes',
    'overlap of removal attempts is detected with relaxed in-flight flags (evidence only, never part of a verdict)',
    'qsbr: cds_lfht_resize / cds_lfht_destroy are called from registered OFFLINE threads (README mutex rule); all other '
    'operations from online threads that report quiescent states between operations',
    'every case with a finite quarantine: 65536 retired nodes (plain builds); guard-page subset 6% of the nodes',
    'no hook point exists inside cds_lfht_lookup (URCU_VP_HT_LOOKUP_STEP is declared but not placed): delays inside library '
    'traversals are injected from the match callback and by chaos signals instead',
]


@prop('C07', 'Hash table: removed node has one owner, unreachable after a grace period', 'exploration', C07_RULE, C07_ASSUME)
def c07(tier, seed):
    q = tier == 'quick'
    s = 1 if q else 10
    out = []

    def own(name, fl, var, rounds, ops, extra=(), cpus=6):
        out.append(_c(name, fl, var, 'own', 'C07', ['--rounds=%d' % (rounds * s), '--cont-ops=%d' % ops, '--cont=7', '--walk=2',
                                                    '--tun-commit-order=2', '--tun-part-order=3'] + list(extra), cpus=cpus, scale=s))

    own('own-memb', 'memb', 'plain', 36, 25000)
    own('own-memb-sig', 'memb', 'plain', 24, 20000, ['--sig=1', '--hook-prob=0.004'])
    own('own-qsbr', 'qsbr', 'plain', 24, 25000)
    own('own-memb-asan', 'memb', 'asan', 16, 8000)
    own('own-qsbr-asan', 'qsbr', 'asan', 16, 8000)
    own('own-memb-tsan', 'memb', 'tsan', 24, 4000)
    # bucket arrays released by shrink: walkers hold iterators across delays while levels are unlinked and freed
    out.append(_c('shrink-memb', 'memb', 'plain', 'resize', 'C07',
                  ['--rounds=%d' % (60 * s), '--res-calls=40', '--walk=2', '--cont=1', '--upd=1', '--sig=1', '--walk-delay=0.02',
                   '--tun-commit-order=2', '--tun-part-order=3'], scale=s))
    # same, every table on the guard-page allocator, three walkers, no hook delays (shortest release latency)
    out.append(_c('shrink-memb-guard', 'memb', 'plain', 'resize', 'C07',
                  ['--rounds=%d' % (100 * s), '--res-calls=40', '--walk=3', '--cont=0', '--upd=1', '--walk-delay=0.05', '--alloc=1',
                   '--hook-prob=0', '--tun-commit-order=2', '--tun-part-order=3'], scale=s))
    out.append(_c('shrink-qsbr', 'qsbr', 'plain', 'resize', 'C07',
                  ['--rounds=%d' % (48 * s), '--res-calls=40', '--walk=2', '--cont=1', '--upd=1', '--walk-delay=0.02',
                   '--tun-commit-order=2', '--tun-part-order=3'], scale=s))
    out.append(_c('shrink-memb-asan', 'memb', 'asan', 'resize', 'C07',
                  ['--rounds=%d' % (24 * s), '--res-calls=25', '--walk=2', '--cont=1', '--upd=1', '--walk-delay=0.02',
                   '--tun-commit-order=2', '--tun-part-order=3'], scale=s))
    # the table after destroy
    for fl, var, rounds in (('memb', 'plain', 300), ('qsbr', 'plain', 150), ('memb', 'asan', 120), ('memb', 'tsan', 40)):
        out.append(_c('destroy-%s%s' % (fl, '' if var == 'plain' else '-' + var), fl, var, 'destroy', 'C07',
                      ['--rounds=%d' % (rounds * s), '--upd=3', '--upd-ops=2500', '--pop-hi=900', '--tun-commit-order=2',
                       '--tun-part-order=3'], cpus=5, scale=s))
    if not q:
        own('own-mb', 'mb', 'plain', 6, 25000)
        own('own-bp', 'bp', 'plain', 4, 25000)
        own('own-qsbr-tsan', 'qsbr', 'tsan', 3, 4000)
        own('own-memb-builtins', 'memb', 'builtins', 12, 25000)
        own('own-memb-stock', 'memb', 'plain', 12, 25000, ['--tun-commit-order=10', '--tun-part-order=12'])
        for fl in ('mb', 'bp'):
            out.append(_c('shrink-%s' % fl, fl, 'plain', 'resize', 'C07',
                          ['--rounds=%d' % (8 * s), '--res-calls=40', '--walk=2', '--cont=1', '--upd=1', '--walk-delay=0.02',
                           '--tun-commit-order=2', '--tun-part-order=3'], scale=s))
            out.append(_c('destroy-%s' % fl, fl, 'plain', 'destroy', 'C07',
                          ['--rounds=%d' % (30 * s), '--upd=3', '--upd-ops=2500', '--pop-hi=900', '--tun-commit-order=2',
                           '--tun-part-order=3'], cpus=5, scale=s))
    return out


C09_RULE = (
    'one evaluation = one resize: an explicit cds_lfht_resize() call (request list 0,1,2,3,5,6,7,1000, 2^k, 2^k+-1, max-1, max, '
    'max+1, 2*max, max/2(+1), ULONG_MAX(-1), 2^63+1 x start sizes x bucket allocators order/chunk/mmap/library default x memory from '
    'libc / recording guard-page allocator / recording malloc allocator; 1-3 concurrent callers) or one iteration of the lazy '
    'resize loop in the library\'s worker that changed the size (chain-length grow with AUTO_RESIZE; node-counter grow/shrink with '
    'ACCOUNTING, COUNT_COMMIT_ORDER lowered and stock). Termination is decided on steps: the same (size, resize_target) pair with '
    'size != target seen at the top of the resize loop > 10000 times in a row inside one call is a violation '
    '(key lfht:resize:non-power-of-two-target-never-reached when the target is not a power of two), the call is not waited for; '
    'the stuck-state watchdog (no progress of any thread or hook point for 30 s with a call in flight) is the backstop and names '
    'the qsbr worker-vs-offline-caller deadlock (hang:lfht:qsbr:worker-online-on-resize_mutex). Contents: resident keys inserted '
    'before the round and never removed must be found by every lookup of the dedicated reader threads and exactly once by every '
    'complete first/next traversal, during and after every resize; updaters must find their own nodes. Bounds: ht->size (internal '
    'header) before every reader lookup, at every loop iteration, before every publish, after every shrink store, after every call '
    'and at quiescence: power of two in [1, max_nr_buckets]; bucket nodes live in the recording allocator never exceed '
    'max(max_nr_buckets, min_nr_alloc_buckets); with one resizer and no AUTO_RESIZE the size after the call equals the clamped, '
    'rounded-up request. Memory: guard pages / PROT_NONE discard / ASan make any use of bucket memory before allocation or after '
    'release fault while walkers hold iterators across heavy-tailed delays. Destroy: emptied tables are destroyed at once, with lazy '
    'resize work still queued or running, from a thread outside any section (offline for qsbr); completion = the table struct '
    'comes back to the allocator. non-trivial = resize during which >= 1 update and >= 1 lookup of other threads completed; '
    'distinct = (from-order, to-order, direction, bucket allocator / memory allocator, lazy / explicit, partitioned / single).')
C09_ASSUME = [
    'x86-64; gcc sanitizer runtimes',
    'qsbr: cds_lfht_resize / cds_lfht_destroy are called from registered OFFLINE threads (README mutex rule) for the verdict',
    'max_nr_buckets = 0 ("infinite", order allocator) only with requests <= 64 (memory)',
    'tables up to 2^17 buckets (partitioned path at stock MIN_PARTITION_PER_THREAD_ORDER = 12); MIN_PARTITION_PER_THREAD_ORDER '
    'lowered to 3 in the small-table cases for volume',
    'allocations the library never hands back after destroy are counted (allocations_not_returned), not judged',
]


@prop('C09', 'Hash table resize terminates, preserves contents, respects bucket bounds', 'exploration', C09_RULE, C09_ASSUME)
def c09(tier, seed):
    q = tier == 'quick'
    s = 1 if q else 10
    out = []

    def rz(name, fl, var, rounds, calls, extra=(), cpus=6, low=True):
        tun = ['--tun-commit-order=2', '--tun-part-order=3'] if low else []
        out.append(_c(name, fl, var, 'resize', 'C09', ['--rounds=%d' % (rounds * s), '--res-calls=%d' % calls, '--res=3', '--upd=2',
                                                       '--resident=2', '--walk=1', '--cont=1'] + tun + list(extra),
                      cpus=cpus, scale=s))

    rz('resize-memb', 'memb', 'plain', 40, 40)
    rz('resize-memb-stock', 'memb', 'plain', 3, 30, ['--flags=3', '--pop-hi=20000', '--max-order=12', '--walk=0', '--resident=1',
                                                  '--cont=0'], low=False)
    rz('resize-memb-auto', 'memb', 'plain', 30, 40, ['--flags=3', '--pop-hi=2500'])
    rz('resize-qsbr', 'qsbr', 'plain', 40, 40)
    rz('resize-qsbr-auto', 'qsbr', 'plain', 40, 40, ['--flags=1', '--pop-hi=1500'])
    rz('resize-memb-asan', 'memb', 'asan', 20, 25)
    rz('resize-qsbr-asan', 'qsbr', 'asan', 24, 25)
    rz('resize-memb-tsan', 'memb', 'tsan', 20, 12)
    out.append(_c('shrink-memb-guard', 'memb', 'plain', 'resize', 'C09',
                  ['--rounds=%d' % (60 * s), '--res-calls=40', '--res=1', '--walk=3', '--cont=0', '--upd=1', '--walk-delay=0.05',
                   '--alloc=1', '--hook-prob=0', '--tun-commit-order=2', '--tun-part-order=3'], scale=s))
    out.append(_c('big-memb', 'memb', 'plain', 'big', 'C09', ['--rounds=%d' % (20 * s), '--res-calls=10', '--res=2', '--upd=2',
                                                              '--resident=1', '--walk=1'], cpus=8, scale=s))
    out.append(_c('big-qsbr', 'qsbr', 'plain', 'big', 'C09', ['--rounds=%d' % (14 * s), '--res-calls=8', '--res=1', '--upd=2',
                                                              '--resident=1', '--walk=1'], cpus=8, scale=s))
    # pthread_create() of the partition helper threads fails with EAGAIN now and then (after 0, 1, 2... helpers have
    # started): the documented fallback must process every leftover partition in the caller's thread
    out.append(_c('big-memb-eagain', 'memb', 'plain', 'big', 'C09', ['--rounds=%d' % (14 * s), '--res-calls=10', '--res=1', '--upd=2',
                                                                     '--resident=1', '--walk=1', '--f-create-eagain=0.35'],
                  cpus=8, scale=s))
    out.append(_c('big-memb-eagain-lowpart', 'memb', 'plain', 'big', 'C09',
                  ['--rounds=%d' % (10 * s), '--res-calls=10', '--res=1', '--upd=2', '--resident=1', '--walk=1',
                   '--tun-part-order=8', '--f-create-eagain=0.3'], cpus=8, scale=s))
    for fl, var, rounds in (('memb', 'plain', 300), ('qsbr', 'plain', 150), ('memb', 'asan', 120)):
        out.append(_c('destroy-%s%s' % (fl, '' if var == 'plain' else '-' + var), fl, var, 'destroy', 'C09',
                      ['--rounds=%d' % (rounds * s), '--upd=3', '--upd-ops=2500', '--pop-hi=900', '--res=1', '--tun-commit-order=2',
                       '--tun-part-order=3'], cpus=5, scale=s))
    if not q:
        for fl in ('mb', 'bp'):
            rz('resize-%s' % fl, fl, 'plain', 20, 40)
            rz('resize-%s-auto' % fl, fl, 'plain', 12, 40, ['--flags=3', '--pop-hi=2500'])
            out.append(_c('big-%s' % fl, fl, 'plain', 'big', 'C09', ['--rounds=%d' % s, '--res-calls=8', '--res=1', '--upd=2',
                                                                     '--resident=1', '--walk=1'], cpus=8, scale=s))
            out.append(_c('destroy-%s' % fl, fl, 'plain', 'destroy', 'C09',
                          ['--rounds=%d' % (30 * s), '--upd=3', '--upd-ops=2500', '--pop-hi=900', '--res=1', '--tun-commit-order=2',
                           '--tun-part-order=3'], cpus=5, scale=s))
        rz('resize-qsbr-tsan', 'qsbr', 'tsan', 3, 12)
        rz('resize-memb-builtins', 'memb', 'builtins', 20, 40)
        out.append(_c('big-memb-asan', 'memb', 'asan', 'big', 'C09', ['--rounds=%d' % s, '--res-calls=6', '--res=1', '--upd=1',
                                                                      '--resident=1', '--walk=1'], cpus=8, scale=s))
        out.append(_c('big-memb-lowpart', 'memb', 'plain', 'big', 'C09', ['--rounds=%d' % (2 * s), '--res-calls=10', '--res=2', '--upd=2',
                                                                          '--resident=1', '--walk=1', '--tun-part-order=8'],
                      cpus=8, scale=s))
    return out
