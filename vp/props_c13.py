"""C13 - defer_rcu(): calls run once, in order, with exact arguments, after a grace period."""
from props import prop, case, H, FLAVORS, FAULT_MODES

H('defer', ['defer.c'])


@prop('C13', 'defer_rcu(): calls run once, in order, exact arguments, after a grace period', 'exploration',
      'one evaluation = one defer_rcu(fct, arg) call whose (function, argument bits) are compared, position by position, with '
      'the invocation log of the queuing thread (functions are JIT stubs at odd and even addresses, a disjoint stub set per '
      'thread; arguments drawn from aligned pointers, low-bit-set values, the internal marker (void*)-2, -1, 0, 1, random); '
      'the [defer_rcu call, invocation] interval of every 7th call and of every object-retiring call is compared with the '
      'logged reader sections; object stubs poison / free an RCU-protected object that readers validate inside sections; after '
      'rcu_defer_barrier(), rcu_defer_barrier_thread() and rcu_defer_unregister_thread() every call queued before by the '
      'caller must have run, and rcu_defer_barrier() intervals are joined offline with the other threads\' calls; '
      '"reclaimer" phases make no API call and require the background thread to run what is queued (a stuck state = '
      'defer_thread_futex == -1 with calls pending, read through the peek TU; mere expiry is inconclusive); registration '
      'cycles unregister -> register again. non-trivial = defer_rcu() found >= 1 reader section open; distinct = '
      '(configuration, ring size, stub address parity, argument class, function changed / repeated, #pre-existing readers).',
      ['a function whose address equals the marker value cannot exist in user space (non-canonical): that encoding branch is '
       'not reachable by execution', 'queuing threads never call defer_rcu() inside a read-side section (documented rule); a '
       'registered qsbr queuing thread is offline around the defer API', 'x86-64 TSO; TSC calibrated per run',
       'DEFER_QUEUE_SIZE is lowered to 8 / 64 in some cases so that wrap and full-queue flush happen at every ring position; '
       'the stock 4096 is run as well'])
def c13(tier, seed):
    out = []
    scale = 1 if tier == 'quick' else 30
    qsizes = [8, 64, 4096]
    for i, fl in enumerate(FLAVORS):
        for j, qs in enumerate(qsizes):
            if tier == 'quick' and fl in ('mb', 'bp') and qs == 64:
                continue
            reg = (seed + i + j) % 2
            calls = (40000 if qs >= 4096 else 20000) * scale
            extra = []
            if fl == 'bp':
                # bp grace periods sleep RCU_SLEEP_DELAY_MS between scans: stock 10 ms only in the thorough tier
                extra = ['--tun-bp-sleep=%d' % (1 if tier == 'quick' or qs != 4096 else 10)]
                calls = calls // (8 if qs < 4096 else 2)
            out.append(case('%s-q%d-reg%d' % (fl, qs, reg), 'defer', fl, 'plain',
                            ['--cfg=%s-q%d-reg%d' % (fl, qs, reg), '--queuers=3', '--readers=2', '--calls=%d' % calls,
                             '--qsize=%d' % qs, '--queuer-registered=%d' % reg] + extra, {}, cpus=6, timeout=300 * scale))
    for fl in ('memb', 'qsbr'):
        out.append(case('%s-asan' % fl, 'defer', fl, 'asan',
                        ['--cfg=%s-asan' % fl, '--queuers=3', '--readers=2', '--calls=%d' % (8000 * scale), '--qsize=16',
                         '--queuer-registered=1'], {}, cpus=6, timeout=400 * scale))
    out.append(case('memb-tsan', 'defer', 'memb', 'tsan',
                    ['--cfg=memb-tsan', '--queuers=3', '--readers=2', '--calls=%d' % (5000 * scale), '--qsize=16',
                     '--stall-ms=90000'], {}, cpus=6, timeout=600 * scale))
    out.append(case('bp-tsan', 'defer', 'bp', 'tsan',
                    ['--cfg=bp-tsan', '--queuers=2', '--readers=2', '--calls=%d' % (3000 * scale), '--qsize=64',
                     '--queuer-registered=1', '--stall-ms=90000'], {}, cpus=6, timeout=600 * scale))
    out.append(case('memb-builtins', 'defer', 'memb', 'builtins',
                    ['--cfg=memb-builtins', '--queuers=4', '--readers=2', '--calls=%d' % (20000 * scale), '--qsize=32'], {},
                    cpus=6, timeout=300 * scale))
    for i, (fm, fargs) in enumerate(FAULT_MODES[1:5]):
        fl = FLAVORS[(seed + i) % 4]
        calls = 15000 * scale
        if fl == 'bp' or fm == 'enosys':
            calls //= 6         # 10 ms polling paths (bp scan sleep, compat futex)
        out.append(case('%s-fault-%s' % (fl, fm), 'defer', fl, 'plain',
                        ['--cfg=%s-fault-%s' % (fl, fm), '--queuers=3', '--readers=2', '--calls=%d' % calls,
                         '--qsize=%d' % (16 if i % 2 else 4096), '--tun-bp-sleep=1'] + fargs, {}, cpus=6,
                        timeout=300 * scale))
    # reclaimer-only mode: calls = rounds (each ~0.25 s: the reclaimer batches every 100 ms)
    for fl in (('memb', 'qsbr') if tier == 'quick' else FLAVORS):
        out.append(case('%s-reclaimer-only' % fl, 'defer', fl, 'plain',
                        ['--cfg=%s-reclaimer-only' % fl, '--mode=reclaimer', '--readers=2', '--calls=%d' % (60 * scale),
                         '--qsize=4096', '--hook-prob=0', '--tun-bp-sleep=1', '--stall-ms=120000'], {}, cpus=4,
                        timeout=240 * scale))
    out.append(case('memb-nomb', 'defer', 'memb', 'plain',
                    ['--cfg=memb-nomb', '--queuers=3', '--readers=2', '--calls=%d' % (15000 * scale), '--qsize=32'],
                    {'VP_NO_MEMBARRIER': '1'}, cpus=6, timeout=300 * scale))
    return out
