/*
 * Reproducer: cds_lfht_add_unique() inserts a node although the key is present, when the other
 * instances of the key were inserted with cds_lfht_add() (tail of the equal-hash run) and another
 * add_unique'd node of the key came and went at the head of the run meanwhile (ABA on prev->next).
 *
 * Deterministic: thread T1 is parked inside its duplicate scan (in the match() callback invoked on
 * the LAST node of the equal-hash run, after the library has already loaded that node's next pointer).
 *
 * Build + run (threads pin themselves to the first two CPUs of the affinity mask):
 *   gcc -O2 -pthread -I/repo/include -I/repo/src /verif/findings/c05_addu_dup.c /repo/src/.libs/liburcu-cds.a \
 *       /repo/src/.libs/liburcu-memb.a /repo/src/.libs/liburcu-common.a -o /var/tmp/c05_addu_dup && /var/tmp/c05_addu_dup
 * Exit status 1 = anomaly reproduced (expected on the unchanged tree), 0 = not reproduced.
 * Property C05 (linearizability against the multiset-per-key specification); the unique-key discipline
 * of C06 (keys only ever inserted with add_unique / add_replace) is NOT affected: there every node
 * with the key sits before the old first node of the run, so prev->next == old-first-node implies
 * that the key is absent.
 */
#define _GNU_SOURCE
#define _LGPL_SOURCE
#include <stdio.h>
#include <stdlib.h>
#include <pthread.h>
#include <sched.h>
#include <urcu/urcu-memb.h>
#include <urcu/rculfhash.h>

struct node { struct cds_lfht_node n; int key; const char *name; };
static struct cds_lfht *ht;
static struct node R1 = { .key = 1, .name = "R1" }, n4 = { .key = 7, .name = "n4" },
		   n6 = { .key = 7, .name = "n6" }, n7 = { .key = 7, .name = "n7" };
static volatile int t1_parked, t1_go;
static __thread int is_t1;
#define H 5UL	/* every node has the same hash */

static int allowed[2];

/* pin to the idx-th CPU of the affinity mask the process was started with */
static void pin(int idx)
{
	cpu_set_t s; CPU_ZERO(&s); CPU_SET(allowed[idx], &s); sched_setaffinity(0, sizeof(s), &s);
}

static int match(struct cds_lfht_node *node, const void *key)
{
	struct node *x = caa_container_of(node, struct node, n);
	if (is_t1 && x == &R1 && !t1_parked) {
		/* T1's duplicate scan has reached the last node of the run: park here */
		t1_parked = 1;
		while (!t1_go)
			sched_yield();
	}
	return x->key == *(const int *) key;
}

static void *t1_fn(void *arg)
{
	struct cds_lfht_node *ret;
	int k = 7;
	pin(1);
	is_t1 = 1;
	urcu_memb_register_thread();
	urcu_memb_read_lock();
	ret = cds_lfht_add_unique(ht, H, match, &k, &n6.n);
	urcu_memb_read_unlock();
	printf("T1: add_unique(key 7, n6) returned %s  (call began before main's operations, returned after them)\n",
	       caa_container_of(ret, struct node, n)->name);
	urcu_memb_unregister_thread();
	return ret;
}

int main(void)
{
	pthread_t t1;
	struct cds_lfht_iter it;
	struct cds_lfht_node *ret;
	int k7 = 7, k1 = 1, n = 0, r;

	cpu_set_t all;
	sched_getaffinity(0, sizeof(all), &all);
	for (int c = 0, i = 0; c < CPU_SETSIZE && i < 2; c++)
		if (CPU_ISSET(c, &all))
			allowed[i++] = c;
	if (!CPU_ISSET(allowed[1], &all))
		allowed[1] = allowed[0];
	pin(0);
	urcu_memb_register_thread();
	ht = cds_lfht_new_flavor(1, 1, 0, 0, &urcu_memb_flavor, NULL);
	urcu_memb_read_lock();
	ret = cds_lfht_add_unique(ht, H, match, &k1, &R1.n);	/* resident with another key, same hash */
	urcu_memb_read_unlock();
	pthread_create(&t1, NULL, t1_fn, NULL);
	while (!t1_parked)
		sched_yield();
	/* T1 has scanned the run {R1}, found no key 7, and holds (prev = bucket, next-of-prev = R1) */
	urcu_memb_read_lock();
	ret = cds_lfht_add_unique(ht, H, match, &k7, &n7.n);
	printf("main: add_unique(key 7, n7) returned %s (key absent: inserted at the head of the run)\n",
	       caa_container_of(ret, struct node, n)->name);
	cds_lfht_add(ht, H, &n4.n);
	printf("main: add(key 7, n4) done (duplicate, inserted at the tail of the run)\n");
	cds_lfht_lookup(ht, H, match, &k7, &it);
	printf("main: lookup(key 7) returned %s\n", caa_container_of(cds_lfht_iter_get_node(&it), struct node, n)->name);
	r = cds_lfht_del(ht, &n7.n);
	printf("main: del(n7) returned %d (key 7 is still present: n4)\n", r);
	urcu_memb_read_unlock();
	t1_go = 1;
	pthread_join(t1, (void **) &ret);
	urcu_memb_read_lock();
	cds_lfht_lookup(ht, H, match, &k7, &it);
	printf("main: nodes with key 7 now:");
	while (cds_lfht_iter_get_node(&it)) {
		printf(" %s", caa_container_of(cds_lfht_iter_get_node(&it), struct node, n)->name);
		n++;
		cds_lfht_next_duplicate(ht, match, &k7, &it);
	}
	urcu_memb_read_unlock();
	printf("\n");
	if (ret == &n6.n)
		printf("NOT LINEARIZABLE: add_unique(n6) inserted its node. It cannot take effect before add_unique(n7) "
		       "(which then would have failed), nor after it (key 7 was present at every instant since: n7, then n7+n4, then n4).\n");
	else
		printf("no anomaly: add_unique(n6) failed and returned the existing node\n");
	return ret == &n6.n;
}
