/*
 * cds_lfq_destroy_rcu() returns -EPERM on an EMPTY queue (two dummy nodes left behind).
 *
 * Fixed in /repo by 32ee2aa; this program exits 0 on a fixed library, 1 on a defective one.
 *
 * build:  gcc -O2 -g -pthread -I/repo/include /verif/seeded_repro/lfq_repro_destroy_eperm.c -o /var/tmp/lfq_repro_destroy_eperm \
 *             -L/repo/src/.libs -lurcu-cds -lurcu-memb -lurcu-common -Wl,-rpath,/repo/src/.libs
 * run:    /var/tmp/lfq_repro_destroy_eperm        (exit 1 + message when the defect shows, 0 otherwise)
 *
 * Interleaving (uses the exported, non-inline functions of liburcu-cds.so, no source change):
 *   queue = D0 -> A.  T1 and T2 call cds_lfq_dequeue_rcu(); both reach "head == A, A->next == NULL"
 *   and are about to enqueue a fresh dummy.  They are held right there: make_dummy() calls malloc(40),
 *   and this program interposes malloc() to park a thread that is inside a dequeue.
 *   T3 (main): enqueue X, enqueue Y, dequeue -> A.            queue = X -> Y
 *   T1 and T2 resume: each appends its dummy (X -> Y -> D1 -> D2), fails its head cmpxchg (head is not A
 *   any more), retries and returns X resp. Y.                 queue = D1 -> D2, every node dequeued
 *   cds_lfq_destroy_rcu() tests "head->dummy && head->next == NULL" -> -EPERM although the queue is empty.
 * No yield/delay is needed on a real machine: the window is the malloc() in make_dummy().
 */
#define _GNU_SOURCE
#include <stdio.h>
#include <stdlib.h>
#include <errno.h>
#include <pthread.h>
#include <sched.h>
#include <urcu/urcu-memb.h>
#include <urcu/rculfqueue.h>

extern void *__libc_malloc(size_t);
static __thread volatile int in_dequeue;
static volatile int parked, release_them;

void *malloc(size_t n)
{
	if (in_dequeue && n == 40) {	/* sizeof(struct cds_lfq_node_rcu_dummy) */
		__atomic_add_fetch(&parked, 1, __ATOMIC_SEQ_CST);
		while (!__atomic_load_n(&release_them, __ATOMIC_ACQUIRE))
			;
	}
	return __libc_malloc(n);
}

static struct cds_lfq_queue_rcu q;
struct item { struct cds_lfq_node_rcu n; int v; };
static struct item A = { .v = 'A' }, X = { .v = 'X' }, Y = { .v = 'Y' };

static void pin(int cpu_index)
{
	cpu_set_t all, one;
	int k = 0;
	sched_getaffinity(0, sizeof(all), &all);
	CPU_ZERO(&one);
	for (int c = 0; c < CPU_SETSIZE; c++)
		if (CPU_ISSET(c, &all) && k++ == cpu_index % CPU_COUNT(&all)) {
			CPU_SET(c, &one);
			break;
		}
	pthread_setaffinity_np(pthread_self(), sizeof(one), &one);
}

static void *dequeuer(void *arg)
{
	struct cds_lfq_node_rcu *n;
	pin((int) (long) arg);
	urcu_memb_register_thread();
	urcu_memb_read_lock();
	in_dequeue = 1;
	n = cds_lfq_dequeue_rcu(&q);
	in_dequeue = 0;
	urcu_memb_read_unlock();
	urcu_memb_unregister_thread();
	return n;
}

int main(void)
{
	pthread_t t1, t2;
	void *r1, *r2;
	struct cds_lfq_node_rcu *n;
	int ret;

	pin(0);
	urcu_memb_register_thread();
	cds_lfq_init_rcu(&q, urcu_memb_call_rcu);
	cds_lfq_node_init_rcu(&A.n); cds_lfq_node_init_rcu(&X.n); cds_lfq_node_init_rcu(&Y.n);
	urcu_memb_read_lock();
	cds_lfq_enqueue_rcu(&q, &A.n);
	urcu_memb_read_unlock();

	pthread_create(&t1, NULL, dequeuer, (void *) 1L);
	pthread_create(&t2, NULL, dequeuer, (void *) 2L);
	while (__atomic_load_n(&parked, __ATOMIC_ACQUIRE) < 2)
		;
	urcu_memb_read_lock();
	cds_lfq_enqueue_rcu(&q, &X.n);
	cds_lfq_enqueue_rcu(&q, &Y.n);
	n = cds_lfq_dequeue_rcu(&q);
	urcu_memb_read_unlock();
	printf("main dequeued %c\n", n ? caa_container_of(n, struct item, n)->v : '-');
	__atomic_store_n(&release_them, 1, __ATOMIC_RELEASE);
	pthread_join(t1, &r1);
	pthread_join(t2, &r2);
	printf("T1 dequeued %c, T2 dequeued %c\n", r1 ? caa_container_of((struct cds_lfq_node_rcu *) r1, struct item, n)->v : '-',
	       r2 ? caa_container_of((struct cds_lfq_node_rcu *) r2, struct item, n)->v : '-');

	ret = cds_lfq_destroy_rcu(&q);
	printf("3 enqueued, 3 dequeued, all calls returned: cds_lfq_destroy_rcu() = %d (%s); chain: head=%p dummy=%d next=%p\n", ret,
	       ret == 0 ? "ok" : ret == -EPERM ? "-EPERM" : "?", (void *) q.head, q.head->dummy, (void *) q.head->next);
	if (ret == 0)
		return 0;
	urcu_memb_read_lock();
	n = cds_lfq_dequeue_rcu(&q);
	urcu_memb_read_unlock();
	printf("dequeue -> %p (NULL expected: the queue IS empty), destroy now -> %d\n", (void *) n, cds_lfq_destroy_rcu(&q));
	urcu_memb_barrier();
	printf("DEFECT: destroy refused an empty queue\n");
	return 1;
}
