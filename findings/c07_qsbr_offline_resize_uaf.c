/*
 * c07_qsbr_offline_resize_uaf.c - stand-alone reproducer (properties C07 / C09, QSBR flavor).
 *
 * Build (against the in-tree build of /repo):
 *   gcc -O2 -g -pthread -I/repo/include c07_qsbr_offline_resize_uaf.c \
 *       -L/repo/src/.libs -lurcu-qsbr -lurcu-cds -Wl,-rpath,/repo/src/.libs -o c07_qsbr_offline_resize_uaf
 * Run:  ./c07_qsbr_offline_resize_uaf        exit 1 = defect demonstrated, 0 = not observed, 2 = setup error
 *
 * Defect: cds_lfht_resize() holds ht->resize_mutex across synchronize_rcu(), so README's "Interaction
 * with mutexes" rule obliges a QSBR application thread to call it while OFFLINE (an online caller
 * blocked on the mutex deadlocks against the holder's grace period).  But for every level too small
 * for the partitioned path, init_table_populate_partition() / remove_table_partition() walk and
 * modify the bucket chain IN THE CALLER'S THREAD under ht->flavor->read_lock(), which is a no-op for
 * an offline QSBR thread: grace periods do not wait for the resizer, another thread may remove a
 * node, wait synchronize_rcu() and free it while the resizer still holds a pointer to it.
 *
 * Part A (deterministic): a wrapper flavor records that the library runs read_lock() on a thread
 *   that is offline (what DEBUG_RCU builds abort on: `_urcu_qsbr_read_lock: Assertion ...ctr`).
 * Part B (actual use after free, no sanitizer needed): table of one bucket with a long chain; the
 *   resizer (pinned, offline, cds_lfht_resize(ht, 2)) is stopped in the middle of its chain walk by
 *   a signal handler that just waits (models a preemption); meanwhile the main thread removes every
 *   node (cds_lfht_del == 0 for each), waits synchronize_rcu() and "frees" the nodes by making
 *   their memory PROT_NONE.  When the resizer continues it dereferences the node it stood on:
 *   SIGSEGV inside the node area, raised by the resizer thread, inside cds_lfht_resize().
 *   With a corrected library (resizer online while it walks) synchronize_rcu() waits for the
 *   resizer, nothing is freed early, no fault, exit 0.
 *
 * Every thread pins itself (the sandbox has no scheduler load balancing).
 */
#define _GNU_SOURCE
#include <stdio.h>
#include <stdlib.h>
#include <stdint.h>
#include <string.h>
#include <signal.h>
#include <unistd.h>
#include <pthread.h>
#include <sched.h>
#include <sys/mman.h>
#include <time.h>

#define URCU_API_MAP
#include <urcu/urcu-qsbr.h>
#include <urcu/rculfhash.h>
#include <urcu/flavor.h>

#define NNODES 200000

struct mynode {
	struct cds_lfht_node node;
	char pad[48];
};

static struct mynode *area;
static size_t area_len;
static struct cds_lfht *ht;
static pthread_t resizer_tid;
static volatile int resizer_ready, resizer_in_call, resizer_done, paused, resume_walk, area_freed, walk_started;
static volatile int offline_read_lock_calls;
static __thread int is_resizer;
static struct rcu_flavor_struct wrap_flavor;

static void pin(int slot)
{
	cpu_set_t all, one;
	int n = 0, cpu = -1;
	sched_getaffinity(0, sizeof(all), &all);
	for (int c = 0; c < CPU_SETSIZE; c++)
		if (CPU_ISSET(c, &all)) {
			if (cpu < 0)
				cpu = c;
			if (n++ == slot) {
				cpu = c;
				break;
			}
		}
	CPU_ZERO(&one);
	CPU_SET(cpu, &one);
	sched_setaffinity(0, sizeof(one), &one);
}

static uint64_t bit_reverse64(uint64_t v)
{
	uint64_t r = 0;
	for (int i = 0; i < 64; i++, v >>= 1)
		r = (r << 1) | (v & 1);
	return r;
}

static uint64_t now_us(void)
{
	struct timespec ts;
	clock_gettime(CLOCK_MONOTONIC, &ts);
	return (uint64_t) ts.tv_sec * 1000000ULL + (uint64_t) ts.tv_nsec / 1000;
}

/* part A: the library's read_lock() calls, checked for "thread is online" */
static void wrap_read_lock(void)
{
	if (!rcu_read_ongoing())	/* qsbr: false <=> thread offline */
		__atomic_fetch_add(&offline_read_lock_calls, 1, __ATOMIC_RELAXED);
	if (is_resizer && resizer_in_call)
		walk_started = 1;	/* part B: the populate walk of the new level begins right after this */
	rcu_read_lock();
}

/* models a preemption of the resizer at an arbitrary instruction of its chain walk */
static void pause_handler(int sig)
{
	(void) sig;
	if (!is_resizer || !resizer_in_call)
		return;
	paused = 1;
	uint64_t t0 = now_us();
	while (!resume_walk && now_us() - t0 < 300000)
		;
}

static void segv_handler(int sig, siginfo_t *si, void *uc)
{
	char *a = si->si_addr;
	(void) uc;
	if (a >= (char *) area && a < (char *) area + area_len && area_freed) {
		fprintf(stderr, "DEFECT DEMONSTRATED (use after free): SIGSEGV at %p = node #%ld of the table, accessed by %s "
			"%s cds_lfht_resize(); every node had been removed with cds_lfht_del()==0, a full synchronize_rcu() had "
			"returned, and the node memory had been released\n", (void *) a, (long) ((struct mynode *) a - area),
			is_resizer ? "the OFFLINE resizer thread" : "another thread", resizer_in_call ? "inside" : "outside");
		_exit(1);
	}
	fprintf(stderr, "unexpected signal %d at %p\n", sig, (void *) a);
	_exit(2);
}

static void *resizer_main(void *arg)
{
	(void) arg;
	pin(1);
	is_resizer = 1;
	rcu_register_thread();
	rcu_thread_offline();		/* README: mutex held across synchronize_rcu() => take it offline */
	resizer_ready = 1;
	while (!resizer_in_call)
		;
	cds_lfht_resize(ht, 2);		/* grow 1 -> 2: links bucket 1 behind the whole even-hash chain */
	resizer_in_call = 0;
	resizer_done = 1;
	rcu_thread_online();
	rcu_unregister_thread();
	return NULL;
}

static int attempt(int round, unsigned delay_us)
{
	area_len = (sizeof(struct mynode) * NNODES + 4095) & ~4095UL;
	area = mmap(NULL, area_len, PROT_READ | PROT_WRITE, MAP_PRIVATE | MAP_ANONYMOUS, -1, 0);
	if (area == MAP_FAILED)
		return 2;
	area_freed = resizer_ready = resizer_in_call = resizer_done = paused = resume_walk = walk_started = 0;
	ht = cds_lfht_new_flavor(1, 1, 1UL << 20, 0, &wrap_flavor, NULL);
	if (!ht)
		return 2;
	/* all hashes even (reverse hash < bit_reverse(1)): one chain in front of the future bucket 1;
	 * inserted in decreasing reverse-hash order so that every add links at the head */
	rcu_thread_online();
	for (long i = 0; i < NNODES; i++) {
		uint64_t rv = (uint64_t) (NNODES - i);	/* top bit clear */
		rcu_read_lock();
		cds_lfht_add(ht, bit_reverse64(rv), &area[i].node);
		rcu_read_unlock();
		if ((i & 1023) == 0)
			rcu_quiescent_state();
	}
	rcu_thread_offline();
	if (pthread_create(&resizer_tid, NULL, resizer_main, NULL))
		return 2;
	while (!resizer_ready)
		;
	resizer_in_call = 1;
	uint64_t t0 = now_us();
	while (!walk_started && now_us() - t0 < 1000000)
		;
	t0 = now_us();
	while (now_us() - t0 < delay_us)
		;
	pthread_kill(resizer_tid, SIGUSR1);
	t0 = now_us();
	while (!paused && !resizer_done && now_us() - t0 < 1000000)
		;
	int was_paused = paused;
	/* remove everything (head first: each removal is O(1)), wait a grace period, release the memory */
	rcu_thread_online();
	for (long i = NNODES - 1; i >= 0; i--) {
		rcu_read_lock();
		int ret = cds_lfht_del(ht, &area[i].node);
		rcu_read_unlock();
		if (ret) {
			fprintf(stderr, "setup: del %ld returned %d\n", i, ret);
			return 2;
		}
		if ((i & 1023) == 0)
			rcu_quiescent_state();
	}
	synchronize_rcu();
	area_freed = 1;
	mprotect(area, area_len, PROT_NONE);	/* "free": any later access by a table operation faults */
	rcu_thread_offline();
	resume_walk = 1;
	pthread_join(resizer_tid, NULL);
	fprintf(stderr, "round %d: resizer %s during its chain walk (signal %u us after the walk began); no access to released nodes\n",
		round, was_paused ? "was paused" : "was NOT paused in time", delay_us);
	if (cds_lfht_destroy(ht, NULL))
		fprintf(stderr, "round %d: destroy failed\n", round);
	munmap(area, area_len);
	return 0;
}

int main(void)
{
	struct sigaction sa;
	pin(0);
	memset(&sa, 0, sizeof(sa));
	sa.sa_handler = pause_handler;
	sigaction(SIGUSR1, &sa, NULL);
	memset(&sa, 0, sizeof(sa));
	sa.sa_sigaction = segv_handler;
	sa.sa_flags = SA_SIGINFO;
	sigaction(SIGSEGV, &sa, NULL);
	sigaction(SIGBUS, &sa, NULL);

	memcpy(&wrap_flavor, &rcu_flavor, sizeof(wrap_flavor));
	wrap_flavor.read_lock = wrap_read_lock;

	rcu_register_thread();
	rcu_thread_offline();

	/* ---- part A */
	ht = cds_lfht_new_flavor(1, 1, 1UL << 10, 0, &wrap_flavor, NULL);
	if (!ht)
		return 2;
	cds_lfht_resize(ht, 64);	/* this thread is registered and offline, as README demands */
	int a = offline_read_lock_calls;
	cds_lfht_resize(ht, 1);
	int b = offline_read_lock_calls;
	cds_lfht_destroy(ht, NULL);
	fprintf(stderr, "part A: the library entered %d read-side section(s) while growing and %d while shrinking on a thread that "
		"is OFFLINE (unprotected chain walks)%s\n", a, b - a, b ? "" : ": none, as it should be");

	/* ---- part B */
	int rc = 0;
	static const unsigned delays[] = { 100, 40, 200, 20, 300, 60, 150, 10, 250, 80 }	/* us after the walk began (whole walk: ~3 ms) */;
	for (int round = 0; round < 10 && rc == 0; round++)
		rc = attempt(round, delays[round]);
	if (rc == 2)
		return 2;
	if (b) {
		fprintf(stderr, "DEFECT DEMONSTRATED (unprotected read-side sections; the use after free itself was not hit this time)\n");
		return 1;
	}
	fprintf(stderr, "not observed\n");
	return 0;
}
