/*
 * wfq.c - C10: wait-free queues (cds_wfcq, __cds_wfcq, legacy cds_wfq) are FIFO.
 *
 * --mode=episodes   many short histories on TWO queues, each checked right away against the
 *                   sequential model of wfq_model.h with the linearizability checker (lin.c).
 *                   --api=locked: cds_wfcq_dequeue_blocking / splice_blocking / explicit dequeue lock,
 *                   1-3 consumer threads.  --api=sc: lock-free __cds_wfcq_* with one designated
 *                   consumer thread per queue (dequeue / splice-from / iteration).  --api=mix: per episode.
 *                   Long-lived pinned workers; worker 0 is also the controller (plans the episode,
 *                   drains the queues at quiescence); histories are checked in batches, one per worker.
 *                   1 episode in --freeze-every parks worker 1 at URCU_VP_WFCQ_APPEND_MID (tail
 *                   exchanged, node not linked) while worker 0 runs nonblocking operations whose
 *                   results are then compared with what that state allows.
 * --mode=long       streaming oracles over 10^6..10^7 nodes (wfq_long.h), --family=wfcq|wfq.
 */
#include "wfq_api.h"
#include "wfq_model.h"
#include <poll.h>

uint64_t wfq_wait_sleeps;

#define MAXW 4
#define MAX_OPS_THR 6
#define LIN_BUDGET 2000000ULL
#define MAX_ENQ_EP 10
#define MAX_LINOPS_EP 24

enum { X_ENQ, X_DEQ_B, X_DEQ_NB, X_DEQS_B, X_DEQS_NB, X_SPL_B, X_SPL_NB, X_EMPTY, X_ITER_B, X_ITER_NB, X_NR };
static const char *const x_names[X_NR] = { "enqueue", "dequeue_blocking", "dequeue_nonblocking",
	"dequeue_with_state_blocking", "dequeue_with_state_nonblocking", "splice_blocking",
	"splice_nonblocking", "empty", "for_each_blocking", "first/next_nonblocking" };
#define X_IS_BLOCKING(x) ((x) == X_DEQ_B || (x) == X_DEQS_B || (x) == X_SPL_B || (x) == X_ITER_B)

struct pop {
	uint8_t x, q, q2, alt;		/* q: queue (splice: dest), q2: splice source */
	uint16_t gap;			/* cycles to spin before the op */
	uint32_t li;			/* enqueue: local index of the node (the node itself may be freed by a consumer) */
	struct node *node;
};
struct rec {
	uint64_t call, ret;
	uint32_t r, r2;
	uint8_t seqn;
	uint8_t seq[M_MAXN];
};

static struct episode {
	int stop, check_phase, nslots;
	int nthr, api_sc, frozen, fq, frozen_ok, chaos;
	int fence_appends;	/* this episode: appends are followed by MFENCE before their return stamp (see the WOULDBLOCK oracle) */
	int nops[MAXW];
	uint32_t start_off[MAXW];
	struct pop ops[MAXW][MAX_OPS_THR];
	struct rec recs[MAXW][MAX_OPS_THR];
	uint8_t pre_n[2], pre[2][M_MAXN];
	struct node *pre_nodes[2][M_MAXN];
	uint64_t gid[M_MAXN + 1];
	int nnodes;
	uint64_t number;
} ep;

static struct wq Qs[2][2];		/* [api_sc][queue] */
static struct hist hists[MAXW];
static struct vp_barrier bar;
static int nworkers;
static int opt_api;			/* 0 locked, 1 sc, 2 mix */
static int opt_chaos, opt_freeze_every;
static double opt_seconds;
static long opt_dump_heavy;
static long opt_episodes;
static uint64_t t_start_ns;
static const char *cfgname;

struct wthr {
	pthread_t tid;
	int idx;
	struct vp_rng rng;
	struct nquar nq;
	int cur;			/* X_* + 1 of the op in flight, 0 = none (VP_STORE) */
	int cur_frozen_phase;
	uint64_t counter;		/* node ids */
	/* evidence */
	uint64_t checked, nontrivial, inconclusive, lin_nodes, max_lin_nodes, violations, wb_seen, wb_unjudged;
	uint64_t ops_by_x[X_NR], res_wb, res_null, res_last, max_conc;
	int samples;
	char pad[64];
} wthr[MAXW];

static pthread_mutex_t sample_lock = PTHREAD_MUTEX_INITIALIZER;

/* ------------------------------------------------------------------ executing one operation */

static inline uint64_t payload_of(uint64_t id)
{
	return id * 0x9e3779b97f4a7c15ULL ^ 0x1234;
}

/* node just obtained from the library: identify, validate, retire */
static uint32_t consume_node(struct wthr *w, struct cds_wfcq_node *cn)
{
	struct node *n = node_of_c(cn);
	uint32_t li;

	/* PLAIN loads: ordered after the enqueuer's plain stores only by the queue */
	if (n->magic != ND_MAGIC || n->t_call != payload_of(n->id) || n->li == 0 || n->li > M_MAXN) {
		vp_violation("wfcq:dequeued-node-garbage",
			     "cfg=%s dequeue returned node %p with magic=%x id=%llx li=%u payload=%llx: retired (dequeued twice) or not fully published node",
			     cfgname, (void *) n, n->magic, (unsigned long long) n->id, n->li,
			     (unsigned long long) n->t_call);
		return 254;
	}
	li = n->li;
	node_retire(&w->nq, n);
	return li;
}

static inline uint32_t node_result(struct wthr *w, struct cds_wfcq_node *cn)
{
	if (!cn) {
		w->res_null++;
		return 0;
	}
	if (cn == CDS_WFCQ_WOULDBLOCK) {
		w->res_wb++;
		return M_WB;
	}
	return consume_node(w, cn);
}

static inline uint32_t peek_li(struct cds_wfcq_node *cn)
{
	struct node *n = node_of_c(cn);
	if (n->magic != ND_MAGIC || n->li == 0 || n->li > M_MAXN)
		return 254;
	return n->li;
}

static void exec_op(struct wthr *w, const struct pop *p, struct rec *r)
{
	struct wq *q = &Qs[ep.api_sc][p->q];
	struct cds_wfcq_node *cn, *nx;
	int state = 0x7e;

	r->r = r->r2 = 0;
	r->seqn = 0;
	if (p->gap)
		vp_spin_cycles(p->gap);
	VP_STORE(w->cur, p->x + 1);
	w->ops_by_x[p->x]++;
	switch (p->x) {
	case X_ENQ: {
		struct node *n = p->node;
		n->t_call = payload_of(n->id);		/* plain store, published by the enqueue */
		cds_wfcq_node_init(&n->link.c);
		r->call = ts_before();
		bool ne = cds_wfcq_enqueue(wq_head(q), &q->tail, &n->link.c);
		if (ep.fence_appends)
			__asm__ __volatile__("mfence" ::: "memory");
		r->ret = ts_after();
		r->r = ne;
		break;
	}
	case X_DEQ_B:
		r->call = ts_before();
		if (q->sc)
			cn = __cds_wfcq_dequeue_blocking(wq_head(q), &q->tail);
		else if (p->alt) {
			wq_lock(q);
			cn = __cds_wfcq_dequeue_blocking(wq_head(q), &q->tail);
			wq_unlock(q);
		} else
			cn = cds_wfcq_dequeue_blocking(&q->lh, &q->tail);
		r->ret = ts_after();
		r->r = node_result(w, cn);
		break;
	case X_DEQ_NB:
		r->call = ts_before();
		wq_lock(q);
		cn = __cds_wfcq_dequeue_nonblocking(wq_head(q), &q->tail);
		wq_unlock(q);
		r->ret = ts_after();
		r->r = node_result(w, cn);
		break;
	case X_DEQS_B:
		r->call = ts_before();
		if (q->sc)
			cn = __cds_wfcq_dequeue_with_state_blocking(wq_head(q), &q->tail, &state);
		else if (p->alt) {
			wq_lock(q);
			cn = __cds_wfcq_dequeue_with_state_blocking(wq_head(q), &q->tail, &state);
			wq_unlock(q);
		} else
			cn = cds_wfcq_dequeue_with_state_blocking(&q->lh, &q->tail, &state);
		r->ret = ts_after();
		r->r = node_result(w, cn);
		r->r2 = (uint32_t) state;
		break;
	case X_DEQS_NB:
		r->call = ts_before();
		wq_lock(q);
		cn = __cds_wfcq_dequeue_with_state_nonblocking(wq_head(q), &q->tail, &state);
		wq_unlock(q);
		r->ret = ts_after();
		r->r = node_result(w, cn);
		r->r2 = (uint32_t) state;
		break;
	case X_SPL_B: {
		struct wq *s = &Qs[ep.api_sc][p->q2];
		enum cds_wfcq_ret ret;
		r->call = ts_before();
		if (s->sc)
			ret = __cds_wfcq_splice_blocking(wq_head(q), &q->tail, wq_head(s), &s->tail);
		else if (p->alt) {
			wq_lock(s);
			ret = __cds_wfcq_splice_blocking(wq_head(q), &q->tail, wq_head(s), &s->tail);
			wq_unlock(s);
		} else
			ret = cds_wfcq_splice_blocking(&q->lh, &q->tail, &s->lh, &s->tail);
		if (ep.fence_appends)
			__asm__ __volatile__("mfence" ::: "memory");
		r->ret = ts_after();
		r->r = (uint32_t) ((int) ret + 1);
		break;
	}
	case X_SPL_NB: {
		struct wq *s = &Qs[ep.api_sc][p->q2];
		enum cds_wfcq_ret ret;
		r->call = ts_before();
		wq_lock(s);
		ret = __cds_wfcq_splice_nonblocking(wq_head(q), &q->tail, wq_head(s), &s->tail);
		if (ep.fence_appends)
			__asm__ __volatile__("mfence" ::: "memory");
		wq_unlock(s);
		r->ret = ts_after();
		r->r = (uint32_t) ((int) ret + 1);
		if (ret == CDS_WFCQ_RET_WOULDBLOCK)
			w->res_wb++;
		break;
	}
	case X_EMPTY:
		r->call = ts_before();
		r->r = cds_wfcq_empty(wq_chead(q), &q->tail);
		r->ret = ts_after();
		break;
	case X_ITER_B:
		r->call = ts_before();
		wq_lock(q);
		if (p->alt) {
			__cds_wfcq_for_each_blocking_safe(wq_head(q), &q->tail, cn, nx) {
				if (r->seqn >= M_MAXN) {
					r->r2 = 2;
					break;
				}
				r->seq[r->seqn++] = (uint8_t) peek_li(cn);
			}
		} else {
			__cds_wfcq_for_each_blocking(wq_head(q), &q->tail, cn) {
				if (r->seqn >= M_MAXN) {
					r->r2 = 2;
					break;
				}
				r->seq[r->seqn++] = (uint8_t) peek_li(cn);
			}
		}
		wq_unlock(q);
		r->ret = ts_after();
		break;
	case X_ITER_NB:
		r->call = ts_before();
		wq_lock(q);
		for (cn = __cds_wfcq_first_nonblocking(wq_head(q), &q->tail); cn != NULL;
		     cn = __cds_wfcq_next_nonblocking(wq_head(q), &q->tail, cn)) {
			if (cn == CDS_WFCQ_WOULDBLOCK) {
				r->r2 = 1;
				w->res_wb++;
				break;
			}
			if (r->seqn >= M_MAXN) {
				r->r2 = 2;
				break;
			}
			r->seq[r->seqn++] = (uint8_t) peek_li(cn);
		}
		wq_unlock(q);
		r->ret = ts_after();
		break;
	}
	VP_STORE(w->cur, 0);
	if (r->r2 == 2 && (p->x == X_ITER_B || p->x == X_ITER_NB))
		vp_violation("wfcq:iteration-does-not-terminate",
			     "cfg=%s %s over q%d visited more than %d nodes (queue holds at most %d)",
			     cfgname, x_names[p->x], p->q, M_MAXN, ep.nnodes);
	struct vp_thr *vt = vp_self();
	VP_STORE(vt->progress, vt->progress + 1);
}

static void run_ops(struct wthr *w)
{
	int me = w->idx;

	if (me >= ep.nthr)
		return;
	if (ep.frozen && me == 0) {
		VP_STORE(w->cur_frozen_phase, 1);
		ep.frozen_ok = vp_freeze_wait_frozen(1, 3000);
	}
	if (ep.start_off[me])
		vp_spin_cycles(ep.start_off[me]);
	for (int k = 0; k < ep.nops[me]; k++)
		exec_op(w, &ep.ops[me][k], &ep.recs[me][k]);
	if (ep.frozen && me == 0) {
		vp_freeze_release();
		VP_STORE(w->cur_frozen_phase, 0);
	}
}

/* ------------------------------------------------------------------ planning (worker 0) */

static struct node *plan_node(int thread)
{
	struct wthr *w = &wthr[thread < MAXW ? thread : 0];
	uint64_t id = ((uint64_t) thread << 32) | (++w->counter & 0xffffffffu);
	struct node *n;

	ep.nnodes++;
	n = node_new(id, (uint32_t) ep.nnodes);
	ep.gid[ep.nnodes] = id;
	return n;
}

static void plan_chaos(struct vp_rng *r)
{
	uint32_t x = vp_rand_n(r, 100);

	vp_points_clear();
	ep.chaos = 0;
	ep.fence_appends = (int) vp_rand_n(r, 2);
	if (!opt_chaos || x < 35)
		return;
	if (x < 70 || opt_chaos == 1) {
		ep.chaos = 1;
		vp_point_set(URCU_VP_WFCQ_APPEND_MID, 0.20, VP_D_SPIN);
		vp_point_set(URCU_VP_WFCQ_DEQ_BEFORE_CMPXCHG, 0.35, VP_D_SPIN);
		vp_point_set(URCU_VP_WFCQ_SPLICE_MID, 0.35, VP_D_SPIN);
	} else {
		ep.chaos = 2;
		vp_point_set(URCU_VP_WFCQ_APPEND_MID, 0.12, VP_D_HEAVY);
		vp_point_set(URCU_VP_WFCQ_DEQ_BEFORE_CMPXCHG, 0.25, VP_D_HEAVY);
		vp_point_set(URCU_VP_WFCQ_SPLICE_MID, 0.25, VP_D_HEAVY);
	}
}

static void plan_episode(struct wthr *w)
{
	struct vp_rng *r = &w->rng;
	int consumer_of[2][MAXW];	/* may thread t consume from queue q */
	int focus, total_w = 0, nenq = 0;

	ep.number++;
	ep.nnodes = 0;
	ep.frozen = 0;
	ep.frozen_ok = 0;
	ep.api_sc = opt_api == 2 ? (int) vp_rand_n(r, 2) : opt_api;
	ep.nthr = 2 + (int) vp_rand_n(r, (uint32_t) (nworkers - 1));
	if (ep.nthr > nworkers)
		ep.nthr = nworkers;
	focus = vp_rand_n(r, 100) < 35;
	if (opt_freeze_every && nworkers >= 2 && vp_rand_n(r, (uint32_t) opt_freeze_every) == 0) {
		ep.frozen = 1;
		ep.nthr = 2;
		ep.fq = (int) vp_rand_n(r, 2);
	}
	plan_chaos(r);

	/* prefill: the controller enqueues these before the episode starts */
	for (int q = 0; q < 2; q++) {
		uint32_t x = vp_rand_n(r, 100);
		int n = x < 40 ? 0 : x < 70 ? 1 : x < 85 ? 2 : x < 95 ? 3 : 5;
		if (focus && q == 1)
			n = 0;
		ep.pre_n[q] = (uint8_t) n;
		for (int i = 0; i < n; i++) {
			struct node *nd = plan_node(15);
			ep.pre_nodes[q][i] = nd;
			ep.pre[q][i] = (uint8_t) nd->li;
		}
	}

	/* who may consume */
	memset(consumer_of, 0, sizeof(consumer_of));
	if (ep.frozen) {
		consumer_of[0][0] = consumer_of[1][0] = 1;
	} else if (ep.api_sc) {
		for (int q = 0; q < 2; q++)
			consumer_of[q][vp_rand_n(r, (uint32_t) ep.nthr)] = 1;
	} else {
		int nc = 1 + (int) vp_rand_n(r, 3);
		for (int i = 0; i < nc; i++) {
			int t = (int) vp_rand_n(r, (uint32_t) ep.nthr);
			consumer_of[0][t] = consumer_of[1][t] = 1;
		}
	}

	for (int t = 0; t < ep.nthr; t++) {
		int nops = focus ? 1 + (int) vp_rand_n(r, 3) : 1 + (int) vp_rand_n(r, MAX_OPS_THR);
		int is_cons = consumer_of[0][t] || consumer_of[1][t];

		ep.start_off[t] = vp_rand_n(r, 3) ? vp_rand_n(r, 1200) : 0;
		if (ep.frozen && t == 1)
			nops = 1 + (int) vp_rand_n(r, 3);
		if (ep.frozen && t == 0)
			nops = 2 + (int) vp_rand_n(r, MAX_OPS_THR - 1);
		ep.nops[t] = 0;
		for (int k = 0; k < nops; k++) {
			struct pop *p = &ep.ops[t][ep.nops[t]];
			uint32_t x = vp_rand_n(r, 100);
			int q = focus ? 0 : (int) vp_rand_n(r, 2);

			memset(p, 0, sizeof(*p));
			p->alt = (uint8_t) vp_rand_n(r, 2);
			p->gap = vp_rand_n(r, 100) < 30 ? (uint16_t) vp_rand_n(r, 900) : 0;
			if (ep.frozen && t == 1) {
				p->x = X_ENQ;
				q = k == 0 ? ep.fq : q;
			} else if (ep.frozen) {
				static const uint8_t fr[] = { X_ENQ, X_DEQ_NB, X_DEQ_NB, X_DEQS_NB, X_DEQS_NB,
							      X_SPL_NB, X_EMPTY, X_EMPTY, X_ITER_NB };
				p->x = fr[vp_rand_n(r, sizeof(fr))];
				if (vp_rand_n(r, 3))
					q = ep.fq;
			} else if (!is_cons) {
				p->x = x < 82 ? X_ENQ : X_EMPTY;
			} else {
				if (!consumer_of[q][t])
					q = !q;
				if (x < 22)
					p->x = X_ENQ;
				else if (x < 38)
					p->x = X_DEQ_B;
				else if (x < 50)
					p->x = X_DEQ_NB;
				else if (x < 60)
					p->x = X_DEQS_B;
				else if (x < 68)
					p->x = X_DEQS_NB;
				else if (x < 76)
					p->x = X_SPL_B;
				else if (x < 82)
					p->x = X_SPL_NB;
				else if (x < 88)
					p->x = X_EMPTY;
				else if (x < 94)
					p->x = X_ITER_B;
				else
					p->x = X_ITER_NB;
				if (p->x == X_ENQ || p->x == X_EMPTY)
					q = focus ? 0 : (int) vp_rand_n(r, 2);
			}
			p->q = (uint8_t) q;
			if (p->x == X_SPL_B || p->x == X_SPL_NB) {
				/* q was chosen as a queue this thread may consume from: it is the source */
				p->q2 = (uint8_t) q;
				p->q = (uint8_t) !q;
			}
			int weight = (p->x == X_SPL_B || p->x == X_SPL_NB) ? 2 : 1;
			/* concurrent enqueues are what makes the search exponential (their order shows
			 * only when the nodes come out): at most MAX_ENQ_EP per episode */
			if (p->x == X_ENQ && nenq >= MAX_ENQ_EP) {
				if (!is_cons || (ep.frozen && t == 1))
					break;
				p->x = X_EMPTY;
			}
			if (total_w + weight > MAX_LINOPS_EP || (p->x == X_ENQ && ep.nnodes >= M_MAXN - 1))
				break;
			total_w += weight;
			if (p->x == X_ENQ) {
				p->node = plan_node(t);
				p->li = p->node->li;
				nenq++;
			}
			ep.nops[t]++;
		}
	}

	/* prefill for real (quiescent: nobody else touches the queues now) */
	for (int q = 0; q < 2; q++) {
		struct wq *wq = &Qs[ep.api_sc][q];
		for (int i = 0; i < ep.pre_n[q]; i++) {
			struct node *nd = ep.pre_nodes[q][i];
			nd->t_call = payload_of(nd->id);
			cds_wfcq_node_init(&nd->link.c);
			bool ne = cds_wfcq_enqueue(wq_head(wq), &wq->tail, &nd->link.c);
			if (ne != (i > 0))
				vp_violation("wfcq:enqueue-result-at-quiescence",
					     "cfg=%s sequential enqueue #%d into a drained queue returned %d",
					     cfgname, i, (int) ne);
		}
	}
	if (ep.frozen)
		vp_freeze_arm_thread(URCU_VP_WFCQ_APPEND_MID, wthr[1].tid);
}

/* ------------------------------------------------------------------ after the episode (worker 0) */

static void add_op(struct hist *h, int thread, int kind, uint64_t a, uint64_t b, const struct rec *r)
{
	struct lin_op *o = &h->ops[h->nops];
	o->thread = thread;
	o->kind = kind;
	o->a = a;
	o->b = b;
	o->r = r->r;
	o->r2 = r->r2;
	o->call = r->call;
	o->ret = r->ret;
	h->seqn[h->nops] = r->seqn;
	memcpy(h->seq[h->nops], r->seq, r->seqn);
	h->nops++;
}

static void frozen_violation(const struct pop *p, const struct rec *r, const char *what)
{
	char key[128];
	snprintf(key, sizeof(key), "wfcq:frozen-enqueue:%s", x_names[p->x]);
	vp_violation(key, "cfg=%s api=%s episode %llu: while an enqueuer was parked between its tail exchange and its link store, %s(q%d%s) returned r=%u r2=%u: %s",
		     cfgname, ep.api_sc ? "sc" : "locked", (unsigned long long) ep.number, x_names[p->x], p->q,
		     p->x == X_SPL_NB ? (p->q2 ? ",src=q1" : ",src=q0") : "", r->r, r->r2, what);
}

/* worker 0's operations all ran while worker 1 sat after its tail exchange: sequential and
 * deterministic up to "may report WOULDBLOCK instead of crossing the unlinked node" */
static void check_frozen_phase(void)
{
	uint8_t L[2][M_MAXN];
	int n[2], x = (int) ep.ops[1][0].li;

	for (int q = 0; q < 2; q++) {
		n[q] = ep.pre_n[q];
		memcpy(L[q], ep.pre[q], ep.pre_n[q]);
	}
	L[ep.fq][n[ep.fq]++] = (uint8_t) x;
	for (int k = 0; k < ep.nops[0]; k++) {
		const struct pop *p = &ep.ops[0][k];
		const struct rec *r = &ep.recs[0][k];
		int q = p->q;

		switch (p->x) {
		case X_ENQ:
			if ((r->r != 0) != (n[q] != 0))
				frozen_violation(p, r, "wrong was-non-empty result");
			L[q][n[q]++] = (uint8_t) p->li;
			break;
		case X_EMPTY:
			if ((r->r != 0) != (n[q] == 0))
				frozen_violation(p, r, n[q] ? "queue holds a node whose enqueue already exchanged the tail"
							    : "queue is empty");
			break;
		case X_DEQ_NB: case X_DEQS_NB:
			if (n[q] == 0) {
				if (r->r != 0)
					frozen_violation(p, r, "queue is empty, expected NULL");
			} else if (L[q][0] == x) {
				if (r->r != M_WB)
					frozen_violation(p, r, "first node is not linked yet, expected WOULDBLOCK");
			} else if (r->r != M_WB) {
				if (r->r != L[q][0])
					frozen_violation(p, r, "expected the first node or WOULDBLOCK");
				else if (p->x == X_DEQS_NB && (r->r2 != 0) != (n[q] == 1))
					frozen_violation(p, r, "wrong LAST state");
				memmove(&L[q][0], &L[q][1], (size_t) --n[q]);
			}
			if (r->r == M_WB && p->x == X_DEQS_NB && r->r2)
				frozen_violation(p, r, "state set with WOULDBLOCK");
			break;
		case X_SPL_NB: {
			int s = p->q2;
			if (n[s] == 0) {
				if (r->r != R_SRC_EMPTY)
					frozen_violation(p, r, "source is empty, expected SRC_EMPTY");
			} else if (L[s][0] == x) {
				if (r->r != R_WB)
					frozen_violation(p, r, "first source node is not linked yet, expected WOULDBLOCK");
			} else if (r->r != R_WB) {
				if (r->r != (n[q] ? R_DEST_NON_EMPTY : R_DEST_EMPTY))
					frozen_violation(p, r, "wrong destination state");
				memcpy(&L[q][n[q]], L[s], (size_t) n[s]);
				n[q] += n[s];
				n[s] = 0;
			}
			break;
		}
		case X_ITER_NB: {
			int reach = 0, has_x = 0;
			while (reach < n[q] && L[q][reach] != x)
				reach++;
			has_x = reach < n[q];
			if (r->seqn > reach || memcmp(r->seq, L[q], r->seqn))
				frozen_violation(p, r, "visited nodes are not a prefix of the linked part of the queue");
			else if (has_x && r->r2 != 1)
				frozen_violation(p, r, "iteration went past / ended at a node that is not linked yet without WOULDBLOCK");
			else if (!has_x && (r->r2 || r->seqn != reach))
				frozen_violation(p, r, "iteration of a fully linked queue must visit everything");
			break;
		}
		}
	}
	if ((ep.recs[1][0].r != 0) != (ep.pre_n[ep.fq] != 0))
		frozen_violation(&ep.ops[1][0], &ep.recs[1][0], "the parked enqueue itself returned the wrong was-non-empty");
}

static void sort_history(struct hist *h);

static void finalize_episode(struct wthr *w, struct hist *h)
{
	static const int kmap[X_NR] = { K_ENQ, K_DEQ_B, K_DEQ_NB, K_DEQS_B, K_DEQS_NB, K_SPL_B_TAKE,
					K_SPL_NB_TAKE, K_EMPTY, K_ITER_B, K_ITER_NB };

	h->nops = 0;
	h->api_sc = ep.api_sc;
	h->nthr = ep.nthr;
	h->frozen = ep.frozen;
	h->chaos = ep.chaos;
	h->episode = ep.number;
	memcpy(h->pre_n, ep.pre_n, sizeof(h->pre_n));
	memcpy(h->pre, ep.pre, sizeof(h->pre));
	memcpy(h->gid, ep.gid, sizeof(h->gid));
	for (int t = 0; t < ep.nthr; t++) {
		uint64_t seq = 0;
		for (int k = 0; k < ep.nops[t]; k++) {
			const struct pop *p = &ep.ops[t][k];
			const struct rec *r = &ep.recs[t][k];
			int kind = kmap[p->x];
			if (p->x == X_ENQ)
				add_op(h, t, kind, p->q | (seq++ << 8), p->li, r);
			else if (p->x == X_SPL_B || p->x == X_SPL_NB) {
				add_op(h, t, kind, p->q | (seq++ << 8), p->q2, r);
				add_op(h, t, kind + 1, p->q | (seq++ << 8), p->q2, r);
			} else
				add_op(h, t, kind, p->q | (seq++ << 8), 0, r);
		}
	}
	if (ep.frozen) {
		if (ep.frozen_ok)
			check_frozen_phase();
		else
			vp_inconclusive("freeze episode: worker 1 did not reach URCU_VP_WFCQ_APPEND_MID within 3 s");
	}

	/* quiescence: iterate, then drain, both nonblocking (nobody is in flight: WOULDBLOCK or a
	 * hang here is a broken queue) */
	for (int q = 0; q < 2; q++) {
		struct wq *wq = &Qs[ep.api_sc][q];
		struct rec it, fin;
		struct cds_wfcq_node *cn;
		int state, last_seen = 0;

		memset(&it, 0, sizeof(it));
		memset(&fin, 0, sizeof(fin));
		VP_STORE(w->cur, X_ITER_NB + 1);
		wq_lock(wq);
		for (cn = __cds_wfcq_first_nonblocking(wq_head(wq), &wq->tail); cn != NULL;
		     cn = __cds_wfcq_next_nonblocking(wq_head(wq), &wq->tail, cn)) {
			if (cn == CDS_WFCQ_WOULDBLOCK) {
				it.r2 = 1;
				break;
			}
			if (it.seqn >= M_MAXN) {
				it.r2 = 2;
				break;
			}
			it.seq[it.seqn++] = (uint8_t) peek_li(cn);
		}
		wq_unlock(wq);
		fin.call = ts_before();
		VP_STORE(w->cur, X_DEQS_NB + 1);
		for (;;) {
			state = 0x7e;
			wq_lock(wq);
			cn = __cds_wfcq_dequeue_with_state_nonblocking(wq_head(wq), &wq->tail, &state);
			wq_unlock(wq);
			if (!cn)
				break;
			if (cn == CDS_WFCQ_WOULDBLOCK) {
				fin.r2 = 1;
				break;
			}
			if (fin.seqn >= M_MAXN) {
				fin.r2 = 2;
				break;
			}
			if (last_seen)
				last_seen = 2;		/* a node after LAST */
			if (state & CDS_WFCQ_STATE_LAST)
				last_seen = last_seen ? 2 : 1;
			fin.seq[fin.seqn++] = (uint8_t) consume_node(w, cn);
		}
		VP_STORE(w->cur, 0);
		fin.ret = ts_after();
		if (it.r2 || fin.r2)
			vp_violation(fin.r2 == 2 || it.r2 == 2 ? "wfcq:quiescent-drain-does-not-terminate"
								: "wfcq:wouldblock-at-quiescence",
				     "cfg=%s api=%s episode %llu: with no operation in flight, nonblocking %s of q%d %s after %d nodes",
				     cfgname, ep.api_sc ? "sc" : "locked", (unsigned long long) ep.number,
				     it.r2 ? "iteration" : "dequeue", q,
				     (fin.r2 == 2 || it.r2 == 2) ? "did not end" : "returned WOULDBLOCK",
				     it.r2 ? it.seqn : fin.seqn);
		else {
			if (it.seqn != fin.seqn || memcmp(it.seq, fin.seq, fin.seqn))
				vp_violation("wfcq:quiescent-iteration-differs-from-drain",
					     "cfg=%s api=%s episode %llu q%d: first/next visited %d nodes, dequeue returned %d (or another order)",
					     cfgname, ep.api_sc ? "sc" : "locked", (unsigned long long) ep.number, q,
					     it.seqn, fin.seqn);
			if (fin.seqn && last_seen != 1)
				vp_violation("wfcq:quiescent-last-flag",
					     "cfg=%s api=%s episode %llu q%d: draining %d nodes sequentially, CDS_WFCQ_STATE_LAST was %s",
					     cfgname, ep.api_sc ? "sc" : "locked", (unsigned long long) ep.number, q,
					     fin.seqn, last_seen ? "set on a node that was not the last one" : "never set");
			if (!cds_wfcq_empty(wq_chead(wq), &wq->tail))
				vp_violation("wfcq:quiescent-not-empty-after-drain",
					     "cfg=%s api=%s episode %llu q%d: dequeue returned NULL but cds_wfcq_empty() is false",
					     cfgname, ep.api_sc ? "sc" : "locked", (unsigned long long) ep.number, q);
		}
		add_op(h, MAXW - 1, K_FINAL, (uint64_t) q, 0, &fin);
		h->ops[h->nops - 1].thread = 15;
	}
	sort_history(h);
}

/* The checker tries candidates in index order: hand it the operations in the order in which
 * they most likely took effect (enqueue: at its call - the tail exchange comes first; the others:
 * at their return) so that the first descent usually succeeds.  Stable: TAKE stays before PUT. */
static uint64_t sort_key(const struct lin_op *o)
{
	if (o->kind == K_ENQ)
		return o->call;
	if (o->kind == K_EMPTY)
		return o->call / 2 + o->ret / 2;
	return o->ret;
}

static void sort_history(struct hist *h)
{
	for (int i = 1; i < h->nops; i++) {
		struct lin_op o = h->ops[i];
		uint8_t sn = h->seqn[i], sq[M_MAXN];
		uint64_t k = sort_key(&o);
		int j = i - 1;
		memcpy(sq, h->seq[i], M_MAXN);
		while (j >= 0 && sort_key(&h->ops[j]) > k) {
			h->ops[j + 1] = h->ops[j];
			h->seqn[j + 1] = h->seqn[j];
			memcpy(h->seq[j + 1], h->seq[j], M_MAXN);
			j--;
		}
		h->ops[j + 1] = o;
		h->seqn[j + 1] = sn;
		memcpy(h->seq[j + 1], sq, M_MAXN);
	}
}

/* ------------------------------------------------------------------ checking one history (any worker) */

static int is_consumer_kind(int k)
{
	return k == K_DEQ_B || k == K_DEQ_NB || k == K_DEQS_B || k == K_DEQS_NB || k == K_SPL_B_TAKE ||
	       k == K_SPL_NB_TAKE || k == K_ITER_B || k == K_ITER_NB;
}

#define SIGTAB 8192
static uint64_t sigtab[SIGTAB];
static int sigtab_n;
static pthread_mutex_t sig_lock = PTHREAD_MUTEX_INITIALIZER;

static void sig_add_bounded(const char *s)
{
	uint64_t h = 1469598103934665603ULL;
	int isnew = 0;

	for (const char *c = s; *c; c++)
		h = (h ^ (unsigned char) *c) * 1099511628211ULL;
	if (!h)
		h = 1;
	pthread_mutex_lock(&sig_lock);
	for (size_t i = h % SIGTAB;; i = (i + 1) % SIGTAB) {
		if (sigtab[i] == h)
			break;
		if (!sigtab[i]) {
			if (sigtab_n < 2500) {
				sigtab[i] = h;
				sigtab_n++;
				isnew = 1;
			}
			break;
		}
	}
	pthread_mutex_unlock(&sig_lock);
	if (isnew)
		vp_sig_add("%s", s);
}

static void dump_to_string(struct hist *h, char *buf, size_t len)
{
	FILE *f = fmemopen(buf, len, "w");
	if (!f) {
		buf[0] = 0;
		return;
	}
	fprintf(f, "episode %llu api=%s threads=%d%s chaos=%d; initial q0=%d q1=%d nodes; ",
		(unsigned long long) h->episode, h->api_sc ? "sc" : "locked", h->nthr,
		h->frozen ? " FROZEN-ENQUEUER" : "", h->chaos, h->pre_n[0], h->pre_n[1]);
	lin_dump(f, &wfq_model, h, h->ops, h->nops);
	fclose(f);
	buf[len - 1] = 0;
}

static void check_history(struct wthr *w, struct hist *h)
{
	struct lin_result res;
	uint64_t eps = vp_eps ? vp_eps : (1ULL << 40);
	int n = h->nops, nontrivial = 0;
	const char *api = h->api_sc ? "sc" : "locked";

	memset(&res, 0, sizeof(res));
	lin_check(&wfq_model, h, h->ops, n, eps, LIN_BUDGET, &res);
	w->checked++;
	w->lin_nodes += res.nodes;
	if (res.nodes > w->max_lin_nodes)
		w->max_lin_nodes = res.nodes;
	if ((uint64_t) res.max_concurrency > w->max_conc)
		w->max_conc = (uint64_t) res.max_concurrency;
	if (res.max_concurrency > 20 && opt_dump_heavy) {
		fprintf(stderr, "max_concurrency=%d nops=%d\n", res.max_concurrency, n);
		lin_dump(stderr, &wfq_model, h, h->ops, n);
	}
	if (res.verdict == LIN_INCONCLUSIVE || (opt_dump_heavy && res.nodes > (uint64_t) opt_dump_heavy)) {
		if (res.verdict == LIN_INCONCLUSIVE)
			w->inconclusive++;
		if (w->inconclusive <= 2 || opt_dump_heavy) {
			char path[400];
			FILE *f = vp_witness_open("wfcq-lin-budget", path, sizeof(path));
			if (f) {
				fprintf(f, "%s: %llu search nodes, api=%s episode=%llu eps=%llu\n",
					res.verdict == LIN_INCONCLUSIVE ? "search budget exceeded (inconclusive)" : "heavy search",
					(unsigned long long) res.nodes, api,
					(unsigned long long) h->episode, (unsigned long long) vp_eps);
				for (int q = 0; q < 2; q++) {
					fprintf(f, "initial q%d = [", q);
					for (int i = 0; i < h->pre_n[q]; i++)
						fprintf(f, "%sn%d", i ? " " : "", h->pre[q][i]);
					fprintf(f, "]\n");
				}
				lin_dump(f, &wfq_model, h, h->ops, n);
				fclose(f);
			}
		}
		if (res.verdict == LIN_INCONCLUSIVE)
			vp_inconclusive("linearizability search exceeded its budget of 2e6 nodes on some histories (counted in lin_inconclusive)");
	} else if (res.verdict == LIN_VIOLATION) {
		char key[64], path[400] = "", first[700];
		FILE *f = vp_witness_open("wfcq-lin", path, sizeof(path));
		w->violations++;
		if (f) {
			fprintf(f, "NOT LINEARIZABLE  cfg=%s api=%s episode=%llu threads=%d frozen=%d chaos=%d eps=%llu search-nodes=%llu\n",
				cfgname, api, (unsigned long long) h->episode, h->nthr, h->frozen, h->chaos,
				(unsigned long long) vp_eps, (unsigned long long) res.nodes);
			for (int q = 0; q < 2; q++) {
				fprintf(f, "initial q%d = [", q);
				for (int i = 0; i < h->pre_n[q]; i++)
					fprintf(f, "%sn%d", i ? " " : "", h->pre[q][i]);
				fprintf(f, "]\n");
			}
			lin_dump(f, &wfq_model, h, h->ops, n);
			fclose(f);
		}
		dump_to_string(h, first, sizeof(first));
		snprintf(key, sizeof(key), "wfcq:not-linearizable:%s", api);
		vp_violation(key, "cfg=%s witness=%s %s", cfgname, path, first);
	}

	/* WOULDBLOCK needs an append (enqueue / splice destination) in flight.  On either queue: a
	 * splice may have moved the chain with the not-yet-linked node from the queue it was
	 * enqueued on to the queue the nonblocking operation looks at. */
	for (int i = 0; i < n; i++) {
		const struct lin_op *o = &h->ops[i];
		int q, found = 0;
		if (o->kind == K_DEQ_NB || o->kind == K_DEQS_NB) {
			if (o->r != M_WB)
				continue;
			q = OP_Q(o);
		} else if (o->kind == K_SPL_NB_TAKE) {
			if (o->r != R_WB)
				continue;
			q = (int) o->b;
		} else if (o->kind == K_ITER_NB) {
			if (!o->r2)
				continue;
			q = OP_Q(o);
		} else
			continue;
		w->wb_seen++;
		if (!vp_eps)
			continue;
		/* An append's last action is a plain store (old_tail->next = node) that may still sit in the enqueuer's
		 * store buffer when its return stamp is taken: "returned" is not "visible" on x86-TSO, and a nonblocking
		 * consumer may legitimately see WOULDBLOCK a little later (observed: 1 us).  The legitimacy of a
		 * WOULDBLOCK is therefore judged only in episodes whose appends are followed by MFENCE before the
		 * stamp; the other episodes keep the store buffer undisturbed for the linearizability oracle. */
		if (!ep.fence_appends) {
			w->wb_unjudged++;
			continue;
		}
		for (int j = 0; j < n && !found; j++) {
			const struct lin_op *e = &h->ops[j];
			if ((e->kind == K_ENQ || e->kind == K_SPL_B_PUT || e->kind == K_SPL_NB_PUT) &&
			    e->call <= o->ret + vp_eps && o->call <= e->ret + vp_eps)
				found = 1;
		}
		if (!found) {
			char path[400] = "";
			FILE *f = vp_witness_open("wfcq-wb", path, sizeof(path));
			if (f) {
				fprintf(f, "op #%d (on q%d) returned WOULDBLOCK although no enqueue / splice overlaps it\n", i, q);
				lin_dump(f, &wfq_model, h, h->ops, n);
				fclose(f);
			}
			vp_violation("wfcq:wouldblock-without-append-in-flight",
				     "cfg=%s api=%s episode %llu: %s on q%d returned WOULDBLOCK but no enqueue or splice (append) overlaps it; witness=%s",
				     cfgname, api, (unsigned long long) h->episode, kind_names[o->kind], q, path);
		}
	}

	/* evidence */
	for (int i = 0; i < n && !nontrivial; i++) {
		const struct lin_op *c = &h->ops[i];
		if (!is_consumer_kind(c->kind))
			continue;
		int q = (c->kind == K_SPL_B_TAKE || c->kind == K_SPL_NB_TAKE) ? (int) c->b : OP_Q(c);
		for (int j = 0; j < n; j++) {
			const struct lin_op *e = &h->ops[j];
			if (e->kind == K_ENQ && OP_Q(e) == q && e->call < c->ret && c->call < e->ret) {
				nontrivial = 1;
				break;
			}
		}
	}
	if (nontrivial) {
		/* signature: which kinds of operation overlapped an enqueue (lin_overlap_sig() of the
		 * history reduced to its enqueue-vs-other pairs: the full pair set is unbounded) */
		struct lin_op red[LIN_MAX_OPS];
		char sig[200], full[240];
		int m = 0;
		uint64_t prev_end = 0;
		w->nontrivial++;
		for (int pass = 0; pass < 2; pass++)
			for (int i = 0; i < n; i++) {
				int k = h->ops[i].kind, ovl = 0;
				if (k == K_FINAL || k == K_SPL_B_PUT || k == K_SPL_NB_PUT || (k == K_ENQ) != (pass == 0))
					continue;
				red[m] = h->ops[i];
				red[m].kind = k == K_DEQS_B ? K_DEQ_B : k == K_DEQS_NB ? K_DEQ_NB : k;
				if (pass == 1) {
					/* keep the op only if it overlaps an enqueue; lay the kept ones out
					 * one after the other so that only enq|x pairs remain */
					for (int j = 0; j < n && !ovl; j++)
						ovl = h->ops[j].kind == K_ENQ && h->ops[j].call < h->ops[i].ret &&
						      h->ops[i].call < h->ops[j].ret;
					if (!ovl)
						continue;
					red[m].call = prev_end + 1;
					red[m].ret = prev_end + 2;
					prev_end += 4;
				} else {
					red[m].call = 0;
					red[m].ret = UINT64_MAX - 1;
				}
				m++;
			}
		lin_overlap_sig(red, m, eps, kind_names, sig, sizeof(sig));
		snprintf(full, sizeof(full), "%s%s:t%d:%s", api, h->frozen ? ":frozen" : "", h->nthr, sig);
		sig_add_bounded(full);
		if (w->samples < 2 && n <= 14 && (h->episode & 7) == 0) {
			char buf[1900];
			w->samples++;
			dump_to_string(h, buf, sizeof(buf));
			pthread_mutex_lock(&sample_lock);
			vp_sample_add("%s", buf);
			pthread_mutex_unlock(&sample_lock);
		}
	}
}

/* ------------------------------------------------------------------ worker threads */

static int time_is_up(void)
{
	return (double) (vp_now_ns() - t_start_ns) / 1e9 >= opt_seconds || (long) ep.number >= opt_episodes ||
	       vp_nviolations() > 0;
}

static void *worker_main(void *arg)
{
	struct wthr *w = arg;
	int me = w->idx;

	vp_pin(me);
	(void) vp_self();
	for (;;) {
		if (me == 0) {
			for (int s = 0; s < nworkers; s++) {
				ep.check_phase = 0;
				plan_episode(w);
				vp_barrier_wait(&bar);		/* A */
				run_ops(w);
				vp_barrier_wait(&bar);		/* B */
				finalize_episode(w, &hists[s]);
				ep.nslots = s + 1;
				if (time_is_up())
					break;
			}
			vp_points_clear();
			ep.check_phase = 1;
			vp_barrier_wait(&bar);			/* A */
			check_history(w, &hists[0]);
			vp_barrier_wait(&bar);			/* B */
			if (time_is_up()) {
				ep.stop = 1;
				vp_barrier_wait(&bar);
				break;
			}
		} else {
			vp_barrier_wait(&bar);			/* A */
			if (ep.stop)
				break;
			if (ep.check_phase) {
				if (me < ep.nslots)
					check_history(w, &hists[me]);
			} else
				run_ops(w);
			vp_barrier_wait(&bar);			/* B */
		}
		struct vp_thr *vt = vp_self();
		VP_STORE(vt->progress, vt->progress + 1);
	}
#if !(VP_ASAN || VP_TSAN)
	nquar_drain(&w->nq);
#endif
	return NULL;
}

static int episodes_confirm_stuck(char *buf, size_t len)
{
	int blocked = 0, busy_other = 0, nb_frozen = 0;

	for (int i = 0; i < nworkers; i++) {
		int c = VP_LOAD(wthr[i].cur);
		if (!c)
			continue;
		if (VP_LOAD(wthr[i].cur_frozen_phase) && !X_IS_BLOCKING(c - 1))
			nb_frozen = c;
		else if (X_IS_BLOCKING(c - 1) || c - 1 == X_DEQ_NB || c - 1 == X_DEQS_NB || c - 1 == X_SPL_NB ||
			 c - 1 == X_ITER_NB)
			blocked = c;
		else
			busy_other = 1;
	}
	if (nb_frozen) {
		snprintf(buf, len, "hang:wfcq:%s-blocks-on-parked-enqueuer", x_names[nb_frozen - 1]);
		return 1;
	}
	if (blocked && !busy_other && !VP_LOAD(vp_frz.frozen)) {
		snprintf(buf, len, "hang:wfcq:%s-stuck-with-no-enqueue-in-flight", x_names[blocked - 1]);
		return 1;
	}
	snprintf(buf, len, "hang:wfq-episodes:unconfirmed");
	return 0;
}

static int run_episodes(void)
{
	const char *api = vp_arg("api", "mix");

	opt_api = !strcmp(api, "locked") ? 0 : !strcmp(api, "sc") ? 1 : 2;
	opt_chaos = (int) vp_arg_long("chaos", 2);
	opt_freeze_every = (int) vp_arg_long("freeze-every", 48);
	opt_episodes = vp_arg_long("episodes", 1L << 40);
	opt_dump_heavy = vp_arg_long("dump-heavy", 0);
	nworkers = (int) vp_arg_long("workers", 4);
	if (nworkers > MAXW)
		nworkers = MAXW;
	if (nworkers < 2)
		nworkers = 2;
	for (int q = 0; q < 2; q++) {
		wq_init(&Qs[0][q], 0);
		wq_init(&Qs[1][q], 1);
	}
	vp_barrier_init(&bar, nworkers);
	vp_watchdog_start((uint64_t) vp_arg_long("stall-ms", 8000), episodes_confirm_stuck);
	for (int i = 0; i < nworkers; i++) {
		wthr[i].idx = i;
		vp_rng_init(&wthr[i].rng, vp_opt.seed, 0xc10, (uint64_t) i);
	}
	for (int i = nworkers - 1; i >= 0; i--)		/* worker 0 needs wthr[1].tid: start it last */
		pthread_create(&wthr[i].tid, NULL, worker_main, &wthr[i]);
	for (int i = 0; i < nworkers; i++)
		pthread_join(wthr[i].tid, NULL);
	vp_watchdog_stop();

	uint64_t checked = 0, nt = 0, inc = 0, nodes = 0, maxn = 0, wb = 0, wbu = 0, rwb = 0, rnull = 0, conc = 0;
	for (int i = 0; i < nworkers; i++) {
		struct wthr *w = &wthr[i];
		checked += w->checked; nt += w->nontrivial; inc += w->inconclusive; nodes += w->lin_nodes;
		wb += w->wb_seen; rwb += w->res_wb; rnull += w->res_null; wbu += w->wb_unjudged;
		if (w->max_lin_nodes > maxn)
			maxn = w->max_lin_nodes;
		if (w->max_conc > conc)
			conc = w->max_conc;
		for (int x = 0; x < X_NR; x++) {
			char name[64];
			snprintf(name, sizeof(name), "op_%s", x_names[x]);
			for (char *c = name; *c; c++)
				if (*c == '/')
					*c = '_';
			vp_counter_add(name, w->ops_by_x[x]);
		}
	}
	if (!vp_eps)
		vp_inconclusive("tsc-calibration-failed: histories were checked with all operations treated as concurrent");
	vp_counter_add("evaluations", checked);
	vp_counter_add("nontrivial", nt);
	vp_counter_add("episodes", checked);
	vp_counter_add("lin_inconclusive", inc);
	vp_counter_add("lin_search_nodes", nodes);
	vp_counter_set("lin_max_search_nodes", maxn);
	vp_counter_set("lin_max_concurrency", conc);
	vp_counter_add("wouldblock_ops_in_histories", wb);
	vp_counter_add("wouldblock_ops_not_judged_for_legitimacy_unfenced_episode", wbu);
	vp_counter_add("results_wouldblock", rwb);
	vp_counter_add("results_null", rnull);
	vp_counter_add("library_wait_sleeps", VP_LOAD(wfq_wait_sleeps));
	vp_note("cfg=%s mode=episodes api=%s workers=%d episodes=%llu nontrivial=%llu inconclusive=%llu eps=%llu",
		cfgname, api, nworkers, (unsigned long long) checked, (unsigned long long) nt,
		(unsigned long long) inc, (unsigned long long) vp_eps);
	return vp_finish();
}

#include "wfq_long.h"

int main(int argc, char **argv)
{
#ifdef VP_NO_LGPL
	vp_init(argc, argv, "wfq_nolgpl");
#else
	vp_init(argc, argv, "wfq");
#endif
	cfgname = vp_arg("cfg", "wfq");
	opt_seconds = vp_arg_double("seconds", 10.0);
	t_start_ns = vp_now_ns();
	if (!strcmp(vp_arg("mode", "episodes"), "long"))
		return run_long();
	return run_episodes();
}
