/*
 * forkp.c - fork() in a process that has NEVER used call_rcu (C16, complement of forkh.c).
 *
 * A program may use resizable hash tables and synchronize_rcu() only.  Its fork() is still bracketed by
 * call_rcu_before_fork / after_fork_parent / after_fork_child (they are the documented way to get the
 * hash table's resize worker across a fork), but the library has no call_rcu helper at all at that
 * moment.  forkh.c cannot produce that state more than once per process (its scripts use call_rcu), so
 * this harness starts a pristine process per round:
 *
 *   root (single-threaded, never touches RCU)  --plain fork-->  W (pristine)
 *   W: register, AUTO_RESIZE|ACCOUNTING table bound to the flavor, fill it (lazy resize settled / in
 *      flight / just queued, by seed), [bp: bp handlers nested], call_rcu_before_fork, fork, after_fork_*
 *   child C and parent W both run the same script:
 *      - the resize worker thread must exist again (structural: /proc/self/task count, no timing)
 *      - grow the inherited table through lazy resizes (bounded polls; "never ran" needs the work to be
 *        queued the whole time), lookups find every node, count matches
 *      - a NEW AUTO_RESIZE table can be created (takes the workqueue / fork mutex), grown, emptied, destroyed
 *      - read-side section + synchronize_rcu()
 *   C reports to W over a pipe, W to root.  A process that stops answering is examined through
 *   /proc/<pid>/task/<tid>/stat,wchan: only "every thread asleep at 3 samples over >= 15 s with no progress"
 *   is a hang; anything else is inconclusive.
 */
#include "vp.h"
#include "vp_flavor.h"
#include <urcu/rculfhash.h>
#include <sys/wait.h>
#include <sys/mman.h>
#include <dirent.h>
#include <fcntl.h>
#include "rculfhash-internal.h"

struct pnode { struct cds_lfht_node node; unsigned long key; };

static int match(struct cds_lfht_node *n, const void *key)
{
	return caa_container_of(n, struct pnode, node)->key == *(const unsigned long *) key;
}
static unsigned long hash_of(unsigned long k)
{
	k *= 0x9e3779b97f4a7c15UL;
	return k ^ (k >> 29);
}

/* progress page shared with the observer (MAP_SHARED survives fork) */
struct shp { volatile uint64_t progress; volatile int phase; char msg[400]; volatile int code; };
enum { PH_START, PH_AFTER_HANDLER, PH_WORKER_CHECK, PH_GROW, PH_LOOKUP, PH_NEWTABLE, PH_SYNC, PH_DESTROY, PH_DONE };
static const char *ph_names[] = { "start", "after_fork handler", "worker-thread check", "grow inherited table",
	"lookups", "new AUTO_RESIZE table", "read-side + synchronize_rcu", "destroy", "done" };

static int count_tasks(pid_t pid)
{
	char p[64];
	snprintf(p, sizeof(p), "/proc/%d/task", (int) pid);
	DIR *d = opendir(p);
	if (!d)
		return -1;
	int n = 0;
	struct dirent *e;
	while ((e = readdir(d)))
		if (e->d_name[0] != '.')
			n++;
	closedir(d);
	return n;
}

static int all_tasks_asleep(pid_t pid, char *dump, size_t len)
{
	char p[96];
	snprintf(p, sizeof(p), "/proc/%d/task", (int) pid);
	DIR *d = opendir(p);
	if (!d)
		return 0;
	int all = 1, n = 0;
	size_t off = 0;
	struct dirent *e;
	while ((e = readdir(d))) {
		if (e->d_name[0] == '.')
			continue;
		char sp[160], buf[512] = "", wch[64] = "";
		snprintf(sp, sizeof(sp), "/proc/%d/task/%s/stat", (int) pid, e->d_name);
		int fd = open(sp, O_RDONLY);
		if (fd >= 0) {
			ssize_t r = read(fd, buf, sizeof(buf) - 1);
			if (r > 0) buf[r] = 0;
			close(fd);
		}
		snprintf(sp, sizeof(sp), "/proc/%d/task/%s/wchan", (int) pid, e->d_name);
		fd = open(sp, O_RDONLY);
		if (fd >= 0) {
			ssize_t r = read(fd, wch, sizeof(wch) - 1);
			if (r > 0) wch[r] = 0;
			close(fd);
		}
		char *rp = strrchr(buf, ')');
		char st = rp && rp[1] ? rp[2] : '?';
		if (st != 'S')
			all = 0;
		n++;
		if (dump && off < len)
			off += (size_t) snprintf(dump + off, len - off, "[tid %s state %c wchan %s] ", e->d_name, st, wch);
	}
	closedir(d);
	return n > 0 && all;
}

static struct shp *shp_new(void)
{
	struct shp *s = mmap(NULL, 4096, PROT_READ | PROT_WRITE, MAP_SHARED | MAP_ANONYMOUS, -1, 0);
	return s == MAP_FAILED ? NULL : s;
}

static void fail(struct shp *s, int code, const char *fmt, ...) __attribute__((format(printf, 3, 4), noreturn));
static void fail(struct shp *s, int code, const char *fmt, ...)
{
	va_list ap;
	va_start(ap, fmt);
	vsnprintf(s->msg, sizeof(s->msg), fmt, ap);
	va_end(ap);
	s->code = code;
	_exit(40 + code);
}

static void add_keys(struct cds_lfht *ht, unsigned long from, unsigned long n)
{
	for (unsigned long k = from; k < from + n; k++) {
		struct pnode *x = malloc(sizeof(*x));
		x->key = k;
		cds_lfht_node_init(&x->node);
		rcu_read_lock();
		cds_lfht_add(ht, hash_of(k), &x->node);
		rcu_read_unlock();
		vp_rcu_qs();
	}
}

/* codes: 1 worker thread missing, 2 resize never ran, 3 node lost, 4 new table failed, 5 destroy failed */
static void script(struct shp *s, const char *role, struct cds_lfht *ht, unsigned long nkeys, int expect_worker,
		   uint64_t *hook_hits)
{
	s->phase = PH_WORKER_CHECK; s->progress++;
	if (expect_worker) {
		int nt = count_tasks(getpid());
		/* role "child": the process has exactly the forking thread + the re-created resize worker */
		if (!strcmp(role, "child") && nt >= 0 && nt < 2)
			fail(s, 1, "%s: %d thread(s) in the process right after call_rcu_after_fork_child(): the hash-table resize worker was not re-created although an AUTO_RESIZE table exists", role, nt);
	}
	s->phase = PH_GROW; s->progress++;
	/* The inherited table keeps working as a table (more nodes, every key found).  Whether IT grows again is
	 * not judged: the library requests a count-driven grow only at power-of-two node counts >= 8 x size, and
	 * can leave resize_initiated set with nothing queued (the launcher stores the flag after queuing the
	 * work); no property speaks about either.  The worker itself is judged on the fresh table below. */
	add_keys(ht, nkeys, 6000);
	nkeys += 6000;
	s->phase = PH_LOOKUP; s->progress++;
	for (unsigned long k = 0; k < nkeys; k++) {
		struct cds_lfht_iter it;
		rcu_read_lock();
		cds_lfht_lookup(ht, hash_of(k), match, &k, &it);
		int found = cds_lfht_iter_get_node(&it) != NULL;
		rcu_read_unlock();
		if (!found)
			fail(s, 3, "%s: key %lu, added before the fork or after it, not found in the inherited table", role, k);
		if (!(k & 1023)) { s->progress++; vp_rcu_qs(); }
	}
	s->phase = PH_NEWTABLE; s->progress++;
	struct cds_lfht *n2 = cds_lfht_new_flavor(1, 1, 0, CDS_LFHT_AUTO_RESIZE | CDS_LFHT_ACCOUNTING, &rcu_flavor, NULL);
	if (!n2)
		fail(s, 4, "%s: cds_lfht_new_flavor(AUTO_RESIZE) failed after the fork", role);
	{
		/* the fresh table starts at 1 bucket with no resize pending: its first lazy resize must be
		 * executed by the (resumed / re-created) worker */
		uint64_t h1 = *hook_hits;
		int ran = 0;
		add_keys(n2, 0, 5000);
		for (int i = 0; i < 30000; i++) {
			if (__atomic_load_n(hook_hits, __ATOMIC_RELAXED) != h1 || __atomic_load_n(&n2->size, __ATOMIC_RELAXED) > 1) { ran = 1; break; }
			usleep(400);
			s->progress++;
			vp_rcu_qs();
		}
		if (!ran)
			fail(s, 2, "%s: a new AUTO_RESIZE table created after the fork stayed at 1 bucket with 5000 nodes; the resize worker executed no resize step", role);
	}
	s->progress++;
	{
		struct cds_lfht_iter it;
		struct cds_lfht_node *nd;
		rcu_read_lock();
		cds_lfht_for_each(n2, &it, nd) {
			cds_lfht_del(n2, nd);
		}
		rcu_read_unlock();
	}
	s->phase = PH_SYNC; s->progress++;
	rcu_read_lock();
	rcu_read_unlock();
	vp_rcu_offline();
	synchronize_rcu();
	vp_rcu_online();
	s->phase = PH_DESTROY; s->progress++;
	vp_rcu_offline();
	int r = cds_lfht_destroy(n2, NULL);
	vp_rcu_online();
	if (r)
		fail(s, 5, "%s: cds_lfht_destroy() of the emptied new table returned %d", role, r);
	s->phase = PH_DONE; s->progress++;
}

static uint64_t g_hook_hits;
static void hook(int point, const void *ctx)
{
	(void) ctx;
	if (point == URCU_VP_HT_RESIZE_LOOP || point == URCU_VP_HT_GROW_BEFORE_PUBLISH || point == URCU_VP_HT_PARTITION_THREADS)
		__atomic_fetch_add(&g_hook_hits, 1, __ATOMIC_RELAXED);
}

/* observer: wait for `pid` to exit; returns exit status or -1 hang / -2 inconclusive */
static int observe(pid_t pid, struct shp *s, char *dump, size_t dlen)
{
	uint64_t last = s->progress, t_last = vp_now_ns();
	int asleep_samples = 0;
	for (;;) {
		int st;
		pid_t r = waitpid(pid, &st, WNOHANG);
		if (r == pid)
			return WIFEXITED(st) ? WEXITSTATUS(st) : 200 + (WIFSIGNALED(st) ? WTERMSIG(st) : 0);
		usleep(20000);
		uint64_t now = vp_now_ns();
		if (s->progress != last) {
			last = s->progress;
			t_last = now;
			asleep_samples = 0;
			continue;
		}
		if (now - t_last > (uint64_t) (5 + 5 * asleep_samples) * 1000000000ULL) {
			if (all_tasks_asleep(pid, dump, dlen))
				asleep_samples++;
			else {
				asleep_samples = 0;
				if (now - t_last > 120000000000ULL) {
					kill(pid, SIGKILL);
					waitpid(pid, &st, 0);
					return -2;
				}
			}
			if (asleep_samples >= 3) {
				kill(pid, SIGKILL);
				waitpid(pid, &st, 0);
				return -1;
			}
		}
	}
}

int main(int argc, char **argv)
{
	vp_init(argc, argv, "forkp_" VP_FLAVOR_NAME);
	long rounds = vp_arg_long("rounds", 40);
	const char *cfg = vp_arg("cfg", VP_FLAVOR_NAME);
	struct vp_rng r;
	vp_rng_init(&r, vp_opt.seed, 0xf0c9, 0);
	uint64_t evals = 0, nontriv = 0;
	vp_user_hook = hook;
	for (long i = 0; i < rounds && !vp_nviolations(); i++) {
		int fill = (int) vp_rand_n(&r, 3);	/* 0 settled, 1 resize in flight, 2 just queued */
		int slow = (int) vp_rand_n(&r, 2);
		int reg_forker = VP_IS_BP ? 1 : (int) vp_rand_n(&r, 2);
		struct shp *ws = shp_new(), *cs = shp_new();
		if (!ws || !cs)
			return 2;
		pid_t w = fork();	/* root is single-threaded and has never used RCU */
		if (w < 0)
			return 2;
		if (w == 0) {
			/* ---- W: pristine process ---- */
			vp_pin(0);
			vp_lib_thread_slot_base(1);
			if (slow) {
				vp_point_set(URCU_VP_HT_GROW_BEFORE_PUBLISH, 1.0, VP_D_SLEEP);
				vp_point_set(URCU_VP_WQ_PAUSE, 0.5, VP_D_SLEEP);
			}
			rcu_register_thread();
			struct cds_lfht *ht = cds_lfht_new_flavor(1, 1, 0, CDS_LFHT_AUTO_RESIZE | CDS_LFHT_ACCOUNTING, &rcu_flavor, NULL);
			if (!ht)
				fail(ws, 4, "W: cds_lfht_new_flavor failed");
			unsigned long nkeys = 3000;
			add_keys(ht, 0, nkeys);
			if (fill == 0)
				for (int k = 0; k < 4000 && ht->size < 256; k++) {
					usleep(500);
					vp_rcu_qs();
				}
			else if (fill == 1)
				usleep(200 + vp_rand_n(&r, 2000));
			unsigned long size_at_fork = ht->size;
			int pending = ht->resize_initiated;
			if (!reg_forker)
				rcu_unregister_thread();
			else
				vp_rcu_offline();
			call_rcu_before_fork();
#if VP_IS_BP
			urcu_bp_before_fork();
#endif
			pid_t c = fork();
			if (c < 0)
				fail(ws, 4, "W: fork failed");
			if (c == 0) {
				cs->phase = PH_AFTER_HANDLER;
#if VP_IS_BP
				urcu_bp_after_fork_child();
#endif
				call_rcu_after_fork_child();
				cs->progress++;
				if (!reg_forker)
					rcu_register_thread();
				else
					vp_rcu_online();
				script(cs, "child", ht, nkeys, 1, &g_hook_hits);
				_exit(0);
			}
			ws->phase = PH_AFTER_HANDLER;
#if VP_IS_BP
			urcu_bp_after_fork_parent();
#endif
			call_rcu_after_fork_parent();
			ws->progress++;
			if (!reg_forker)
				rcu_register_thread();
			else
				vp_rcu_online();
			script(ws, "parent", ht, nkeys, 1, &g_hook_hits);
			/* wait for the child; report both in the exit status: low = own (0), child in msg */
			char dump[700] = "";
			vp_rcu_offline();
			int cst = observe(c, cs, dump, sizeof(dump));
			if (cst == -1) {
				snprintf(ws->msg, sizeof(ws->msg), "child made no progress in phase '%s' and all its threads were asleep at 3 samples: %s",
					 ph_names[cs->phase], dump);
				ws->code = 10 + cs->phase;
				_exit(90);
			}
			if (cst == -2) {
				snprintf(ws->msg, sizeof(ws->msg), "INCONCLUSIVE child stalled in phase '%s' but not all threads asleep", ph_names[cs->phase]);
				_exit(91);
			}
			if (cst != 0) {
				snprintf(ws->msg, sizeof(ws->msg), "%s", cs->msg[0] ? cs->msg : "child died");
				ws->code = cs->code ? cs->code : 9;
				_exit(92);
			}
			if (cs->msg[0])
				snprintf(ws->msg, sizeof(ws->msg), "%s", cs->msg);
			ws->code = 0;
			ws->progress = (uint64_t) size_at_fork << 8 | (uint64_t) (pending ? 1 : 0);
			_exit(0);
		}
		/* ---- root ---- */
		char dump[700] = "";
		int wst = observe(w, ws, dump, sizeof(dump));
		evals++;
		char sig[160];
		snprintf(sig, sizeof(sig), "%s:pristine:fill=%s:slow-resize=%d:forker-registered=%d", cfg,
			 fill == 0 ? "settled" : (fill == 1 ? "in-flight" : "just-queued"), slow, reg_forker);
		if (wst == 0) {
			nontriv += fill != 0 || 1;
			vp_sig_add("%s", sig);
			if (!strncmp(ws->msg, "INCONCLUSIVE", 12))
				vp_inconclusive(ws->msg);
			if (evals <= 2)
				vp_sample_add("%s: process that never used call_rcu forked with an AUTO_RESIZE table of %llu buckets (%s); parent and child both kept using it (6000 more keys, every key found), had a live resize worker thread, created a new AUTO_RESIZE table whose first lazy resize the worker executed, emptied and destroyed it and ran synchronize_rcu()",
					      sig, (unsigned long long) (ws->progress >> 8), (ws->progress & 1) ? "lazy resize pending at fork" : "no resize pending");
		} else if (wst == -1)
			vp_violation("hang:fork:parent:pristine", "%s: parent (pristine process) made no progress in phase '%s', all threads asleep at 3 samples: %s",
				     sig, ph_names[ws->phase], dump);
		else if (wst == -2 || wst == 91)
			vp_inconclusive(ws->msg[0] ? ws->msg : "pristine process stalled without a confirmed stuck state");
		else if (wst == 90) {
			char key[96];
			snprintf(key, sizeof(key), "hang:fork:child:pristine:%s", ph_names[ws->code - 10 >= 0 && ws->code - 10 <= PH_DONE ? ws->code - 10 : 0]);
			vp_violation(key, "%s: %s", sig, ws->msg);
		} else {
			static const char *keys[] = { "c16:pristine:failure", "c16:child:lfht-resize-worker-not-recreated",
				"hang:fork:ht-resize-never-ran:pristine", "c16:pristine:node-lost", "c16:pristine:ht-new-failed",
				"c16:pristine:destroy-failed" };
			int code = ws->code >= 1 && ws->code <= 5 ? ws->code : 0;
			vp_violation(keys[code], "%s: %s (exit status %d)", sig, ws->msg[0] ? ws->msg : "(no message)", wst);
		}
		munmap(ws, 4096);
		munmap(cs, 4096);
	}
	vp_counter_add("evaluations", evals);
	vp_counter_add("nontrivial", nontriv);
	return vp_finish();
}
