/*
 * sigrd.c - C19: read-side critical sections inside signal handlers (memb, mb, bp).
 *
 * The signal handler of the property is run
 *   (a) after EVERY retired instruction of chosen regions of a pinned "victim"
 *       thread (EFLAGS.TF single-stepping, SIGTRAP handler): rcu_read_lock at
 *       nesting 0->1, 1->2, 2->3, rcu_read_unlock 3->2 ... 1->0 (with and without
 *       a grace period sleeping on the futex that the unlock has to wake), a whole
 *       reader section, rcu_read_ongoing, synchronize_rcu, call_rcu, and - bp -
 *       the first rcu_read_lock of a fresh thread (automatic registration) and the
 *       thread-exit path up to the point where the library blocks signals;
 *   (b) at random instants on every registered thread (SIGUSR1 from a pinned
 *       chaos thread), including registered updaters in the middle of
 *       synchronize_rcu / call_rcu;
 *   nested: SIGUSR1 lands inside the SIGTRAP handler (depth 2) and the SIGUSR1
 *   handler single-steps its own lock/unlock pair (depth 3).
 *
 * Oracles
 *   - handler entry / exit comparison of the thread's reader word: nesting count
 *     identical, whole word identical when nesting != 0, rcu_read_ongoing()
 *     identical, nesting inside the handler's section = nesting before + 1;
 *   - victim's own accounting: after each stepped library call the nesting count
 *     must equal what the victim itself did (an interrupted call is not damaged);
 *   - C01 oracles on every level: poison (quarantine / real free under ASan),
 *     message passing, GP-interval (handler sections are logged as reader
 *     sections of the interrupted thread, one stream per handler depth);
 *   - bp: no handler may run between the library's pthread_sigmask(SIG_BLOCK) and
 *     the matching restore (pthread_sigmask is shimmed; the shim also suspends
 *     the stepping there because a blocked synchronous SIGTRAP kills the
 *     process); at hook points inside those regions the real mask is queried;
 *     registry census (a double registration leaks a slot).
 *
 * Variants: plain / builtins / asan single-step; with --step=0 (and always under TSan) only
 * asynchronous signals are used.  TSan is not part of the registered cases: it defers asynchronous
 * handlers to its own delivery points and its runtime does not survive this signal load reliably
 * (see vp/props_c19.py); the file still builds with it for manual runs.
 */
#include "vp.h"
#include "vp_flavor.h"
#if defined(VP_NO_LGPL)
#if defined(VP_FL_MEMB)
#include <urcu/static/urcu-memb.h>
#elif defined(VP_FL_MB)
#include <urcu/static/urcu-mb.h>
#elif defined(VP_FL_BP)
#include <urcu/static/urcu-bp.h>
#endif
#endif
#include <ucontext.h>
#include <link.h>
#include <dlfcn.h>
#include <elf.h>
#include <fcntl.h>
#include <sys/mman.h>
#include <sys/stat.h>

#if VP_IS_QSBR
int main(void) { return 2; }	/* qsbr is excluded by the statement of C19 */
#else

#define MAX_THR 24
#define NSLOTS 8
#define MAXD 4			/* handler nesting depths that are tracked */

#define ST_LIVE   0x4c495645ULL
#define ST_POISON 0xdeadbeefdeadbeefULL

/* ------------------------------------------------------------------ reader word */

#if VP_IS_BP
#define NEST_MASK URCU_BP_GP_CTR_NEST_MASK
static inline int rd_registered(void)
{
	return URCU_TLS(urcu_bp_reader) != NULL;
}
static inline unsigned long rd_word(void)
{
	struct urcu_bp_reader *r = URCU_TLS(urcu_bp_reader);
	return r ? VP_LOAD(r->ctr) : 0;
}
#else
#define NEST_MASK URCU_GP_CTR_NEST_MASK
static inline int rd_registered(void)
{
	return 1;
}
static inline unsigned long rd_word(void)
{
	return VP_LOAD(URCU_TLS(rcu_reader).ctr);
}
#endif

#if VP_TSAN
extern void __tsan_release(void *);
#endif
static inline unsigned long *rd_word_addr(void)
{
#if VP_IS_BP
	return URCU_TLS(urcu_bp_reader) ? &URCU_TLS(urcu_bp_reader)->ctr : NULL;
#else
	return &URCU_TLS(rcu_reader).ctr;
#endif
}

/* ------------------------------------------------------------------ objects */

struct obj {
	uint64_t id, gen, state, sum;
	struct obj *self;	/* poisoned to a non-canonical address */
	struct rcu_head rcu;
	uint64_t c;		/* call_rcu: stamp before the call */
	uint64_t pad[1];
};

static struct obj *slots[NSLOTS];
static struct vp_quar quar;
static uint64_t next_id;

static inline uint64_t obj_sum(uint64_t id, uint64_t gen)
{
	return (id * 0x9e3779b97f4a7c15ULL) ^ (gen + 0x5555) ^ 0xa5a5a5a5a5a5a5a5ULL;
}

static void obj_release(void *p)
{
	struct obj *o = p;
	if (o->state != ST_POISON || o->self != VP_POISON_PTR || o->sum != ~obj_sum(o->id, o->gen))
		vp_violation("late-write-to-retired-object",
			     "object id=%llu modified while in quarantine (state=%llx)",
			     (unsigned long long) o->id, (unsigned long long) o->state);
	free(o);
}

static struct obj *obj_new(void)
{
	struct obj *o = malloc(sizeof(*o));
	if (!o)
		abort();
	memset(o, 0, sizeof(*o));
	o->id = __atomic_add_fetch(&next_id, 1, __ATOMIC_RELAXED);
	o->gen = o->id ^ 0x77;
	o->sum = obj_sum(o->id, o->gen);
	o->self = o;
	o->state = ST_LIVE;
	return o;
}

static void obj_retire(struct obj *o)
{
#if VP_ASAN || VP_TSAN
	o->state = ST_POISON;
	free(o);
#else
	o->state = ST_POISON;
	o->self = VP_POISON_PTR;
	o->sum = ~o->sum;
	vp_quar_put(&quar, o);
#endif
}

/* ------------------------------------------------------------------ per-thread state */

struct sec { uint64_t b, e; };
struct secs { struct sec *v; size_t n, cap; uint64_t dropped, total; };
struct wait { uint64_t c, r; uint32_t kind; };	/* kind 0 synchronize_rcu, 1 call_rcu */
struct waits { struct wait *v; size_t n, cap; uint64_t dropped; };

struct pcent { uint64_t pc; uint32_t n, n_nest; uint32_t regions; uint32_t kinds; };
struct pctab { struct pcent *e; uint32_t mask; uint32_t used; uint64_t dropped; };

struct samp { uint64_t pc; unsigned long w0, w1, w2; int depth, kind, region; };
/* sample slots: [0 .. 2*R_NR) depth-1 traps by (region, nesting>0); then deeper levels; then async */
#define NSAMP (2 * R_NR + 8 + 4)

enum { ROLE_VICTIM, ROLE_READER, ROLE_UPDATER, ROLE_EPISODE };
enum { K_TRAP = 0, K_ASYNC = 1 };

enum {
	R_NONE = 0, R_LOCK0, R_LOCK1, R_LOCK2, R_UNLOCK3, R_UNLOCK2, R_UNLOCK1, R_SECTION, R_ONGOING,
	R_SYNC, R_CALLRCU, R_BPREG, R_BPEXIT, R_HSTEP, R_NR
};
static const char *region_names[R_NR] = {
	"none", "lock0to1", "lock1to2", "lock2to3", "unlock3to2", "unlock2to1", "unlock1to0", "section",
	"ongoing", "synchronize_rcu", "call_rcu", "bp-first-lock", "bp-thread-exit", "handler-lock-unlock"
};

struct thr {
	pthread_t tid;
	int idx, role, cpu_slot;
	struct vp_rng rng;
	struct vp_rng hrng[MAXD + 2];
	int sig_ok;		/* handlers may run read-side sections on this thread */
	int alive;		/* chaos thread may signal it (guarded by chaos_lock) */
	int hdepth;
	int stepping;		/* a stepped region is open in thread context */
	int region;
	uint32_t step_k;	/* run the handler body on every k-th trap */
	uint64_t trap_seq;
	uint32_t trap_skip;	/* let this many traps of the region pass before the first handler body */
	int exit_stepping;	/* bp episode: stop stepping at the restore inside unregister */
	int lib_crit;		/* bp: inside register / unregister / synchronize_rcu (entry seen) */
	int masked_by_lib;	/* bp: library's SIG_BLOCK returned, restore not yet started */
	int suspended;		/* stepping suspended by the pthread_sigmask shim */
	int registered;
	unsigned long *word_addr;	/* for the stuck-state witness */
	struct secs secs[MAXD + 1];	/* [0] thread level, [d] handler depth d */
	struct waits waits;
	struct pctab pct[MAXD + 1];
	uint64_t h_exec[MAXD + 1][2];	/* [depth][kind] */
	uint64_t h_nest_pos, h_too_deep, h_region;
	uint64_t traps_total, traps_d0, h_wake, traps_skipped_k, async_total, async_skipped, hsteps;
	uint64_t validations, mp_checks, h_validations;
	uint64_t calls, returns;
	uint64_t wake_in_step, unlock10_steps, unlock10_wake;
	uint64_t mask_suspends, mask_checks;
	uint64_t regions_done[R_NR];
	int in_section;
	int exited;
	struct samp samp[NSAMP];
	uint32_t samp_cnt[NSAMP];
	int pv_set;
	char pv_key[64];
	char pv_msg[600];
	volatile uint64_t x, y;		/* MP litmus */
	char pad[64];
};

static struct thr thr[MAX_THR];
static int nthr;
static __thread struct thr *me;
static const char *cfgname;
static int g_stop, g_hviol, victim_done;
static int n_readers, n_updaters, n_mp;
static int mp_idx[MAX_THR];
static long trap_budget, async_budget;
static int opt_step, opt_hstep, opt_exit_step, opt_delay, opt_tsan_nested_release = 1;
static struct waits crcu_waits;		/* written by the call_rcu helper thread only */
static uint64_t g_async_handled;

/* violations found in handler context are parked and reported from thread context */
static void hviol(struct thr *t, const char *key, const char *fmt, ...)
{
	va_list ap;
	VP_STORE(g_hviol, 1);
	if (t->pv_set)
		return;
	t->pv_set = 1;
	snprintf(t->pv_key, sizeof(t->pv_key), "%s", key);
	va_start(ap, fmt);
	vsnprintf(t->pv_msg, sizeof(t->pv_msg), fmt, ap);
	va_end(ap);
	t->pv_set = 2;
}

#if VP_TSAN
__attribute__((no_sanitize("thread")))
#endif
static void flush_pv(struct thr *t)
{
	if (t->pv_set == 2) {
		vp_violation(t->pv_key, "%s", t->pv_msg);
		t->pv_set = 3;
	}
}

/* ------------------------------------------------------------------ TF control */

#define TF_BIT 0x100UL

static inline __attribute__((always_inline)) void tf_on(void)
{
	__asm__ __volatile__("lea -128(%%rsp),%%rsp\n\tpushfq\n\torq $0x100,(%%rsp)\n\tpopfq\n\tlea 128(%%rsp),%%rsp"
			     ::: "cc", "memory");
}
static inline __attribute__((always_inline)) void tf_off(void)
{
	__asm__ __volatile__("lea -128(%%rsp),%%rsp\n\tpushfq\n\tandq $~0x100,(%%rsp)\n\tpopfq\n\tlea 128(%%rsp),%%rsp"
			     ::: "cc", "memory");
}
static inline __attribute__((always_inline)) unsigned long tf_get(void)
{
	unsigned long f;
	__asm__ __volatile__("lea -128(%%rsp),%%rsp\n\tpushfq\n\tpopq %0\n\tlea 128(%%rsp),%%rsp" : "=r"(f) :: "memory");
	return f & TF_BIT;
}

/* the region tag says which library call (or reader section) the thread is inside of; it is set
 * for stepped and for unstepped calls so that asynchronous interruptions are attributed too */
static inline __attribute__((always_inline)) void step_begin(struct thr *t, int region, uint32_t k)
{
	VP_STORE(t->region, region);
	if (!opt_step)
		return;
	t->step_k = k ? k : 1;
	VP_STORE(t->stepping, 1);
	tf_on();
}
static inline __attribute__((always_inline)) void step_end(struct thr *t)
{
	if (opt_step) {
		tf_off();
		VP_STORE(t->stepping, 0);
	}
	VP_STORE(t->region, R_NONE);
}

/* ------------------------------------------------------------------ the library calls, one per noinline wrapper
 * (program counters of interruptions are attributed to these functions; with _LGPL_SOURCE the
 * static inline read-side code is inside them, otherwise they call the exported wrappers) */

#define NOINL __attribute__((noinline))
NOINL void c19_w_read_lock(void) { rcu_read_lock(); __asm__ __volatile__("" ::: "memory"); }
NOINL void c19_w_read_unlock(void) { rcu_read_unlock(); __asm__ __volatile__("" ::: "memory"); }
NOINL int c19_w_read_ongoing(void) { int r = rcu_read_ongoing(); __asm__ __volatile__("" ::: "memory"); return r; }
NOINL struct obj *c19_w_dereference(struct obj **pp) { struct obj *p = rcu_dereference(*pp); __asm__ __volatile__("" ::: "memory"); return p; }
NOINL void c19_w_synchronize_rcu(void) { synchronize_rcu(); __asm__ __volatile__("" ::: "memory"); }
NOINL void c19_w_call_rcu(struct rcu_head *h, void (*f)(struct rcu_head *)) { call_rcu(h, f); __asm__ __volatile__("" ::: "memory"); }

/* ------------------------------------------------------------------ validation (both contexts) */

static inline int obj_bad(struct obj *p, uint64_t *st_out, uint64_t *id_out)
{
	uint64_t st = p->state, id = p->id, gen = p->gen, sum = p->sum;
	struct obj *self = p->self;
	*st_out = st;
	*id_out = id;
	return st != ST_LIVE || sum != obj_sum(id, gen) || self != p;
}

static inline void validate(struct obj *p, const char *where)
{
	uint64_t st, id;
	if (p && obj_bad(p, &st, &id))
		vp_violation("reader-saw-retired-object",
			     "cfg=%s %s: object %p id=%llu state=%llx inside a read-side section",
			     cfgname, where, (void *) p, (unsigned long long) id, (unsigned long long) st);
}

static inline void hvalidate(struct thr *t, struct obj *p, const char *where, int depth)
{
	uint64_t st, id;
	if (p && obj_bad(p, &st, &id))
		hviol(t, "handler-saw-retired-object",
		      "cfg=%s %s (handler depth %d): object %p id=%llu state=%llx inside the handler's read-side section",
		      cfgname, where, depth, (void *) p, (unsigned long long) id, (unsigned long long) st);
}

static inline int mp_pick(struct vp_rng *r)
{
	return mp_idx[vp_rand_n(r, (uint32_t) n_mp)];
}

/* ------------------------------------------------------------------ logs */

static inline void log_sec(struct secs *s, uint64_t b, uint64_t e)
{
	s->total++;
	/* only a section that could outlast a whole grace period matters to the interval oracle
	 * (one-sided filter); shorter ones are sampled 1 in 64 */
	if (e - b < 2000 && (s->total & 63))
		return;
	if (s->n < s->cap) {
		s->v[s->n].b = b;
		s->v[s->n].e = e;
		s->n++;
	} else
		s->dropped++;
}

/* handler sections: only sections that could outlast a whole grace period matter to the interval
 * oracle (one-sided: dropping a section can only lose detection power); short ones are sampled */
static inline void log_hsec(struct secs *s, uint64_t b, uint64_t e)
{
	s->total++;
	if (e - b < 3000 && (s->total & 63))
		return;
	if (s->n < s->cap) {
		s->v[s->n].b = b;
		s->v[s->n].e = e;
		s->n++;
	} else
		s->dropped++;
}

static inline void log_wait(struct waits *w, uint64_t c, uint64_t r, uint32_t kind)
{
	if (w->n < w->cap) {
		w->v[w->n].c = c;
		w->v[w->n].r = r;
		w->v[w->n].kind = kind;
		w->n++;
	} else
		w->dropped++;
}

static inline void pc_record(struct pctab *pt, uint64_t pc, int nest_pos, int region, int kind)
{
	uint32_t h = (uint32_t) ((pc * 0x9e3779b97f4a7c15ULL) >> 40) & pt->mask;
	for (uint32_t probe = 0; probe < 64; probe++, h = (h + 1) & pt->mask) {
		struct pcent *e = &pt->e[h];
		if (e->pc == pc || e->pc == 0) {
			if (e->pc == 0) {
				if (pt->used >= (pt->mask >> 1) + (pt->mask >> 2))
					break;
				e->pc = pc;
				pt->used++;
			}
			e->n++;
			if (nest_pos)
				e->n_nest++;
			e->regions |= 1u << region;
			e->kinds |= 1u << kind;
			return;
		}
	}
	pt->dropped++;
}

/* ------------------------------------------------------------------ the signal handler of the property */

static void handler_delay(struct vp_rng *r)
{
	uint32_t x = vp_rand_n(r, 10000);
	if (!opt_delay || x < 8200)
		return;
	if (x < 9300)
		vp_spin_cycles(50 + vp_rand_n(r, 600));
	else if (x < 9900)
		vp_spin_cycles(2000 + vp_rand_n(r, 40000));
	else if (x < 9990)
		vp_spin_cycles(40000 + vp_rand_n(r, 400000));
	else if (x < 9997)
		sched_yield();
	else {
		struct timespec ts = { 0, 20000 + (long) vp_rand_n(r, 600000) };
		nanosleep(&ts, NULL);
	}
}

static void handler_body(struct thr *t, int kind, ucontext_t *uc)
{
	int d = t->hdepth + 1;
	if (d > MAXD) {
		t->h_too_deep++;
		return;
	}
	VP_STORE(t->hdepth, d);
	uint64_t pc = (uint64_t) uc->uc_mcontext.gregs[REG_RIP];
	int region = VP_LOAD(t->region);
	struct vp_rng *r = &t->hrng[d];
	uint32_t dice = vp_rand_n(r, 1024);

	/* (1) state before */
	int was_reg = rd_registered();
	unsigned long w0 = rd_word();
	int og0 = -1;
	if (was_reg && (dice & 1))
		og0 = c19_w_read_ongoing();

	/* (2) a complete read-side critical section */
	c19_w_read_lock();
	uint64_t b = ts_after();
	unsigned long w1 = rd_word();
	struct obj *p = c19_w_dereference(&slots[vp_rand_n(r, NSLOTS)]);
	hvalidate(t, p, "after dereference", d);
	{
		int u = mp_pick(r);
		uint64_t ry = __atomic_load_n(&thr[u].y, __ATOMIC_RELAXED);
		__asm__ __volatile__("" ::: "memory");
		uint64_t rx = __atomic_load_n(&thr[u].x, __ATOMIC_RELAXED);
		if (rx < ry)
			hviol(t, "handler-message-passing-broken",
			      "cfg=%s handler (depth %d) section saw y=%llu (stored after the grace period) but x=%llu (stored before it)",
			      cfgname, d, (unsigned long long) ry, (unsigned long long) rx);
	}
	if ((dice & 0x1c) == 0x1c) {
		/* nested pair inside the handler's section */
		c19_w_read_lock();
		c19_w_read_unlock();
	}
	if (opt_hstep && kind == K_ASYNC && d <= 2 && (dice >> 4) < (d == 1 ? 2u : 1u)) {
		/* one more level: single-step a lock/unlock pair of the handler itself */
		int saved_region = region;
		uint32_t saved_k = t->step_k;
		t->hsteps++;
		VP_STORE(t->region, R_HSTEP);
		t->step_k = 1;
		tf_on();
		c19_w_read_lock();
		c19_w_read_unlock();
		tf_off();
		t->step_k = saved_k;
		VP_STORE(t->region, saved_region);
	}
	handler_delay(r);
	hvalidate(t, p, "after delay", d);
	t->h_validations += 2;
	uint64_t e = ts_before();
	c19_w_read_unlock();
#if VP_TSAN
	/* ThreadSanitizer runs a pending handler at its next delivery point, and the atomic store of
	 * the reader word in rcu_read_unlock() is one: the handler then executes between the library's
	 * cmm_annotate_mem_release(ctr) and the store itself, so its loads are not covered by that
	 * annotation although they precede the store in program order (x86-TSO / sys_membarrier order
	 * them; TSan sees neither).  A handler that ran nested inside an interrupted section repeats
	 * the library's own annotation; nothing is added for outermost handler sections. */
	if ((w0 & NEST_MASK) && opt_tsan_nested_release)
		__tsan_release(rd_word_addr());
#endif

	/* (3) state after */
	unsigned long w2 = rd_word();
	int og2 = c19_w_read_ongoing();

	if ((w0 & NEST_MASK) != (w2 & NEST_MASK))
		hviol(t, "handler-changed-nesting",
		      "cfg=%s %s handler (depth %d) interrupted pc=%#llx region=%s: reader word %#lx (nesting %lu) before the handler's lock/unlock pair, %#lx (nesting %lu) after",
		      cfgname, kind ? "async" : "trap", d, (unsigned long long) pc, region_names[region],
		      w0, w0 & NEST_MASK, w2, w2 & NEST_MASK);
	else if ((w0 & NEST_MASK) && w0 != w2)
		hviol(t, "handler-changed-reader-word",
		      "cfg=%s %s handler (depth %d) interrupted pc=%#llx region=%s inside a section: reader word %#lx before, %#lx after",
		      cfgname, kind ? "async" : "trap", d, (unsigned long long) pc, region_names[region], w0, w2);
	if ((w1 & NEST_MASK) != (w0 & NEST_MASK) + 1)
		hviol(t, "handler-lock-wrong-nesting",
		      "cfg=%s %s handler (depth %d) interrupted pc=%#llx region=%s: nesting %lu before rcu_read_lock(), %lu inside the handler's section (word %#lx -> %#lx)",
		      cfgname, kind ? "async" : "trap", d, (unsigned long long) pc, region_names[region],
		      w0 & NEST_MASK, w1 & NEST_MASK, w0, w1);
	if (og0 >= 0 && og0 != og2)
		hviol(t, "handler-changed-read-ongoing",
		      "cfg=%s handler (depth %d) pc=%#llx: rcu_read_ongoing() %d before, %d after", cfgname, d,
		      (unsigned long long) pc, og0, og2);
	if ((unsigned long) og2 != (w2 & NEST_MASK))
		hviol(t, "read-ongoing-inconsistent",
		      "cfg=%s handler (depth %d) pc=%#llx: rcu_read_ongoing() returned %d while the reader word is %#lx",
		      cfgname, d, (unsigned long long) pc, og2, w2);

	log_hsec(&t->secs[d], b, e);
	int nest_pos = (w0 & NEST_MASK) != 0;
	pc_record(&t->pct[d], pc, nest_pos, region, kind);
	t->h_exec[d][kind]++;
	if (nest_pos)
		t->h_nest_pos++;
	if (region)
		t->h_region++;
	if (nest_pos || region) {
		int slot;
		if (kind == K_TRAP && d == 1)
			slot = 2 * region + nest_pos;
		else if (d >= 2)
			slot = 2 * R_NR + ((d - 2) & 3) * 2 + kind;
		else
			slot = 2 * R_NR + 8 + nest_pos * 2 + (region ? 1 : 0);
		struct samp *s = &t->samp[slot];
		if (!s->depth || (t->samp_cnt[slot] < 4000 && (dice >> 6) == 9)) {
			s->pc = pc; s->w0 = w0; s->w1 = w1; s->w2 = w2; s->kind = kind; s->region = region;
			s->depth = d;
		}
		t->samp_cnt[slot]++;
	}
	VP_STORE(t->hdepth, d - 1);
}

/* number of single-step traps a fresh bp thread's first rcu_read_lock() takes from the start of the
 * stepped region to the library's SIG_BLOCK (learned from earlier episodes; includes the hook call) */
static uint64_t bpreg_span_max, bpreg_span_last, bpreg_tail_aimed, bpreg_tail_hit;
/* position-based aiming: let traps pass until the PC is inside urcu_bp_register(), then a random number
 * more, drawn from the measured number of depth-0 traps between that entry and the SIG_BLOCK */
static uint64_t bpreg_in_fn_span_last, bpreg_in_fn_span_max, bpreg_in_fn_aimed;
static __thread volatile int bpreg_aim, bpreg_entered;
static __thread volatile uint32_t bpreg_aim_after;
static __thread volatile uint64_t bpreg_entry_d0;
#if VP_IS_BP
static uint64_t ep_done;
#endif
static __thread volatile uint64_t bpreg_tr0;
static __thread volatile int bpreg_measuring;	/* volatile: read by the trap handler of the same thread */

static void trap_handler(int sig, siginfo_t *si, void *ucv)
{
	int saved_errno = errno;
	ucontext_t *uc = ucv;
	struct thr *t = me;
	(void) sig; (void) si;
	if (!t) {
		uc->uc_mcontext.gregs[REG_EFL] &= ~(greg_t) TF_BIT;
		return;
	}
	t->traps_total++;
	if (t->hdepth == 0)
		t->traps_d0++;
	if (VP_LOAD(t->masked_by_lib)) {
		hviol(t, "handler-ran-inside-bp-masked-region",
		      "cfg=%s SIGTRAP handler ran at pc=%#llx after the library's pthread_sigmask(SIG_BLOCK) returned and before its restore (region=%s)",
		      cfgname, (unsigned long long) uc->uc_mcontext.gregs[REG_RIP], region_names[t->region]);
		uc->uc_mcontext.gregs[REG_EFL] &= ~(greg_t) TF_BIT;
		errno = saved_errno;
		return;
	}
	if (!VP_LOAD(t->sig_ok) || VP_LOAD(g_hviol)) {
		errno = saved_errno;
		return;
	}
#if VP_IS_BP
	if (t->hdepth == 0 && bpreg_measuring && !bpreg_entered) {
		extern void urcu_bp_register(void);
		uint64_t pc = (uint64_t) uc->uc_mcontext.gregs[REG_RIP], fn = (uint64_t) (uintptr_t) urcu_bp_register;
		if (pc >= fn && pc < fn + 0x180) {
			bpreg_entered = 1;
			bpreg_entry_d0 = t->traps_d0;
			if (bpreg_aim)
				t->trap_skip = bpreg_aim_after;
		} else if (bpreg_aim) {
			t->traps_skipped_k++;
			errno = saved_errno;
			return;
		}
	}
#endif
	if (t->hdepth == 0 && t->trap_skip > 0) {
		t->trap_skip--;
		t->traps_skipped_k++;
		errno = saved_errno;
		return;
	}
	if (t->step_k > 1 && (++t->trap_seq % t->step_k)) {
		t->traps_skipped_k++;
		errno = saved_errno;
		return;
	}
	handler_body(t, K_TRAP, uc);
	errno = saved_errno;
}

static void async_handler(int sig, siginfo_t *si, void *ucv)
{
	int saved_errno = errno;
	ucontext_t *uc = ucv;
	struct thr *t = me;
	(void) sig; (void) si;
	if (!t)
		return;
	t->async_total++;
	if (VP_LOAD(t->masked_by_lib)) {
		hviol(t, "handler-ran-inside-bp-masked-region",
		      "cfg=%s SIGUSR1 handler ran at pc=%#llx after the library's pthread_sigmask(SIG_BLOCK) returned and before its restore",
		      cfgname, (unsigned long long) uc->uc_mcontext.gregs[REG_RIP]);
		errno = saved_errno;
		return;
	}
#if VP_IS_BP
	/* position-aimed first-lock episode: the stepped region lasts milliseconds, an asynchronous handler
	 * would nearly always register the thread before the aimed instruction is reached */
	if (bpreg_measuring && bpreg_aim && t->hdepth == 0) {
		t->async_skipped++;
		errno = saved_errno;
		return;
	}
#endif
	if (!VP_LOAD(t->sig_ok) || VP_LOAD(g_hviol)) {
		t->async_skipped++;
		errno = saved_errno;
		return;
	}
	handler_body(t, K_ASYNC, uc);
	__atomic_fetch_add(&g_async_handled, 1, __ATOMIC_RELAXED);
	errno = saved_errno;
}

/* ------------------------------------------------------------------ pthread_sigmask shim
 * (bp blocks all signals in register / unregister / synchronize_rcu: a single-step trap
 * while SIGTRAP is blocked kills the process, so stepping is suspended from the blocking
 * call to the restoring call; the same shim records that the library's masked region is
 * entered so that the handlers can assert that they never run inside it) */


int __real_pthread_sigmask(int how, const sigset_t *set, sigset_t *old);
int __wrap_pthread_sigmask(int how, const sigset_t *set, sigset_t *old)
{
	struct thr *t = me;
	int ret;
	if (!t || !set)
		return __real_pthread_sigmask(how, set, old);
	int has_trap = sigismember(set, SIGTRAP) == 1;
	if ((how == SIG_BLOCK || how == SIG_SETMASK) && has_trap) {
		/* SIGTRAP is about to be blocked: stop single-stepping first */
		unsigned long was = tf_get();
		if (was) {
			tf_off();
			if (bpreg_measuring) {
				uint64_t span = t->traps_d0 - bpreg_tr0;	/* depth-0 traps only: handler steps do not count */
				if (span > VP_LOAD(bpreg_span_max) && span < 100000)
					VP_STORE(bpreg_span_max, span);
				if (span < 100000)
					VP_STORE(bpreg_span_last, span);
				if (bpreg_entered) {
					uint64_t in_fn = t->traps_d0 - bpreg_entry_d0;
					VP_STORE(bpreg_in_fn_span_last, in_fn);
					/* the path is deterministic; lazy binding can only lengthen it: keep the minimum */
					if (in_fn > 8 && (in_fn < VP_LOAD(bpreg_in_fn_span_max) || !VP_LOAD(bpreg_in_fn_span_max)))
						VP_STORE(bpreg_in_fn_span_max, in_fn);
				}
				bpreg_measuring = 0;
			}
			t->mask_suspends++;
			VP_STORE(t->suspended, 1);
		}
		ret = __real_pthread_sigmask(how, set, old);
		if (how == SIG_BLOCK && VP_LOAD(t->lib_crit) > 0)
			VP_STORE(t->masked_by_lib, 1);
		return ret;
	}
	if (how == SIG_BLOCK) {
		ret = __real_pthread_sigmask(how, set, old);
		/* the library is inside register / unregister / synchronize_rcu and has issued its
		 * blocking call (whatever it contained): handlers must not run from here on */
		if (VP_LOAD(t->lib_crit) > 0)
			VP_STORE(t->masked_by_lib, 1);
		return ret;
	}
	/* SIG_SETMASK without SIGTRAP or SIG_UNBLOCK: pending signals are delivered inside the
	 * real call, so the bookkeeping is updated before it and TF is re-armed after it */
	int resume = VP_LOAD(t->suspended);
	int lib_restore = VP_LOAD(t->lib_crit) > 0 && VP_LOAD(t->masked_by_lib);
	VP_STORE(t->suspended, 0);
	if (lib_restore) {
		VP_STORE(t->masked_by_lib, 0);
		VP_STORE(t->lib_crit, t->lib_crit - 1);
	}
	ret = __real_pthread_sigmask(how, set, old);
	if (resume) {
		if (t->exit_stepping && lib_restore) {
			/* thread exit: glibc blocks signals with a raw system call soon; stop here */
			VP_STORE(t->stepping, 0);
			VP_STORE(t->region, R_NONE);
			VP_STORE(t->sig_ok, 0);
		} else
			tf_on();
	}
	return ret;
}

/* ------------------------------------------------------------------ hook: markers + bp mask probe */

#if VP_IS_BP
static __thread volatile int ep_sync_first_armed;
static int ep_want_burst;	/* spawner: bombard the episode thread with SIGUSR1 while it is in synchronize_rcu() */
#endif

static void c19_hook(int point, const void *ctx)
{
	struct thr *t = me;
	(void) ctx;
	if (!t)
		return;
	switch (point) {
	case URCU_VP_WAKE_GP_MID:
		if (VP_LOAD(t->stepping) && t->hdepth == 0) {
			t->wake_in_step++;
			if (t->region == R_UNLOCK1)
				t->unlock10_wake++;
		} else if (t->hdepth > 0)
			t->h_wake++;
		break;
#if VP_IS_BP
	case URCU_VP_BP_REGISTER_ENTRY:
	case URCU_VP_BP_UNREGISTER_ENTRY:
		VP_STORE(t->lib_crit, t->lib_crit + 1);
		break;
	case URCU_VP_BP_ADD_THREAD:
	case URCU_VP_GP_PRE_FLIP:
		if (point == URCU_VP_GP_PRE_FLIP && ep_sync_first_armed && !VP_LOAD(ep_want_burst)) {
			VP_STORE(ep_want_burst, 1);
			usleep(300);	/* signals blocked here: they stay pending until the library restores the mask */
		}
		/* fall through */
	case URCU_VP_GP_POST_FLIP:
	case URCU_VP_GP_REGISTRY_UNLOCKED: {
		sigset_t cur;
		sigemptyset(&cur);
		__real_pthread_sigmask(SIG_BLOCK, NULL, &cur);
		t->mask_checks++;
		if (sigismember(&cur, SIGUSR1) != 1 || sigismember(&cur, SIGTRAP) != 1)
			vp_violation("bp-signals-not-blocked-in-critical-region",
				     "cfg=%s hook point %s inside urcu-bp register/unregister/synchronize_rcu reached with SIGUSR1 %sblocked, SIGTRAP %sblocked",
				     cfgname, vp_point_names[point] ? vp_point_names[point] : "?",
				     sigismember(&cur, SIGUSR1) == 1 ? "" : "not ",
				     sigismember(&cur, SIGTRAP) == 1 ? "" : "not ");
		break;
	}
#endif
	default:
		break;
	}
}

/* ------------------------------------------------------------------ chaos thread (SIGUSR1) */

static pthread_mutex_t chaos_lock = PTHREAD_MUTEX_INITIALIZER;
static pthread_t chaos_tid;
static int chaos_stop, chaos_slot;
static uint32_t chaos_period_us;
static uint64_t chaos_sent;
static int chaos_victim_bias;

static void set_alive(struct thr *t, int v)
{
	sigset_t all, old;
	sigfillset(&all);
	__real_pthread_sigmask(SIG_BLOCK, &all, &old);
	pthread_mutex_lock(&chaos_lock);
	t->alive = v;
	pthread_mutex_unlock(&chaos_lock);
	__real_pthread_sigmask(SIG_SETMASK, &old, NULL);
}

static void *chaos_main(void *arg)
{
	struct vp_rng r;
	sigset_t all;
	(void) arg;
	sigfillset(&all);
	__real_pthread_sigmask(SIG_BLOCK, &all, NULL);
	vp_pin(chaos_slot);
	vp_rng_init(&r, vp_opt.seed, 0xc4a19, 1);
	while (!VP_LOAD(chaos_stop)) {
		struct thr *t;
		uint32_t x = vp_rand_n(&r, 100);
		if (chaos_victim_bias && x < (uint32_t) chaos_victim_bias)
			t = &thr[0];
		else if (VP_IS_BP && x >= 88)
			t = &thr[nthr - 1];	/* the episode slot (fresh threads) */
		else
			t = &thr[vp_rand_n(&r, (uint32_t) nthr)];
		pthread_mutex_lock(&chaos_lock);
		if (t->alive && pthread_kill(t->tid, SIGUSR1) == 0)
			chaos_sent++;
		pthread_mutex_unlock(&chaos_lock);
		uint32_t d = chaos_period_us / 2 + vp_rand_n(&r, chaos_period_us + 1);
		if (d < 60)
			vp_spin_cycles((uint64_t) (d * 1000 * (vp_tsc_ghz > 0 ? vp_tsc_ghz : 2.0)));
		else
			usleep(d);
	}
	return NULL;
}

/* ------------------------------------------------------------------ common thread entry / exit */

static struct vp_barrier start_barrier;

static void thr_enter(struct thr *t)
{
	me = t;
	vp_pin(t->cpu_slot);
	(void) vp_self();
#if VP_IS_BP
	/* bp: handlers are legal from the first instruction (automatic registration) */
	VP_STORE(t->sig_ok, 1);
	set_alive(t, 1);
	c19_w_read_lock();
	c19_w_read_unlock();
#else
	rcu_register_thread();
	VP_STORE(t->sig_ok, 1);
	set_alive(t, 1);
#endif
	VP_STORE(t->word_addr, rd_word_addr());
	VP_STORE(t->registered, 1);
}

static void thr_leave(struct thr *t)
{
	set_alive(t, 0);
#if !VP_IS_BP
	/* let a signal that was sent just before alive=0 be handled while still registered */
	VP_STORE(t->sig_ok, 0);
	rcu_unregister_thread();
#endif
	VP_STORE(t->word_addr, NULL);
	VP_STORE(t->registered, 0);
	flush_pv(t);
}

static void check_nest(struct thr *t, unsigned long expect, const char *what, int region)
{
	unsigned long w = rd_word();
	if ((w & NEST_MASK) != expect)
		vp_violation("interrupted-call-wrong-nesting",
			     "cfg=%s thread %d: after %s (region %s; signal handlers ran complete read-side sections while it executed) the nesting count is %lu but the thread's own calls add up to %lu (reader word %#lx)",
			     cfgname, t->idx, what, region_names[region], w & NEST_MASK, expect, w);
}

/* ------------------------------------------------------------------ background reader */

static void *reader_main(void *arg)
{
	struct thr *t = arg;
	struct vp_thr *vt;
	thr_enter(t);
	vt = vp_self();
	vp_barrier_wait(&start_barrier);
	while (!VP_LOAD(g_stop)) {
		int depth = 1 + (int) vp_rand_n(&t->rng, 3);
		int nobj = 1 + (int) vp_rand_n(&t->rng, 3);
		struct obj *p[4];

		flush_pv(t);
		c19_w_read_lock();
		uint64_t b = ts_after();
		VP_STORE(t->in_section, 1);
		for (int i = 0; i < nobj; i++) {
			p[i] = c19_w_dereference(&slots[vp_rand_n(&t->rng, NSLOTS)]);
			validate(p[i], "reader deref");
		}
		for (int d = 1; d < depth; d++)
			c19_w_read_lock();
		{
			int u = mp_pick(&t->rng);
			uint64_t ry = __atomic_load_n(&thr[u].y, __ATOMIC_RELAXED);
			vp_spin_cycles(vp_rand_n(&t->rng, 300));
			uint64_t rx = __atomic_load_n(&thr[u].x, __ATOMIC_RELAXED);
			t->mp_checks++;
			if (rx < ry)
				vp_violation("message-passing-broken",
					     "cfg=%s reader saw y=%llu (stored after the grace period) but x=%llu (stored before it)",
					     cfgname, (unsigned long long) ry, (unsigned long long) rx);
		}
		vp_delay_heavy(&t->rng);
		for (int i = 0; i < nobj; i++)
			validate(p[i], "reader after delay");
		for (int d = 1; d < depth; d++) {
			c19_w_read_unlock();
			validate(p[d % nobj], "reader after inner unlock");
		}
		check_nest(t, 1, "inner rcu_read_unlock() calls of a reader that receives asynchronous handlers", R_NONE);
		t->validations += 2 * (uint64_t) nobj + (uint64_t) depth - 1;
		VP_STORE(t->in_section, 0);
		uint64_t e = ts_before();
		c19_w_read_unlock();
		check_nest(t, 0, "outermost rcu_read_unlock() of a reader that receives asynchronous handlers", R_NONE);
		log_sec(&t->secs[0], b, e);
		(void) vt;	/* reader sections are not progress: the stuck detector watches grace periods and regions */
		if (vp_rand_n(&t->rng, 8) == 0)
			vp_spin_cycles(vp_rand_n(&t->rng, 2000));
	}
	thr_leave(t);
	VP_STORE(t->exited, 1);
	return NULL;
}

/* ------------------------------------------------------------------ call_rcu callback */

static void crcu_cb(struct rcu_head *h)
{
	uint64_t r = ts_after();
	struct obj *o = caa_container_of(h, struct obj, rcu);
	if (o->c)
		log_wait(&crcu_waits, o->c, r, 1);
	obj_retire(o);
}

/* ------------------------------------------------------------------ updater */

static void do_sync(struct thr *t, int stepped)
{
	int k = (int) vp_rand_n(&t->rng, NSLOTS);
	struct obj *n = obj_new();
	struct obj *old = rcu_xchg_pointer(&slots[k], n);
	uint64_t seq = t->calls + 1;
	__atomic_store_n(&t->x, seq, __ATOMIC_RELAXED);
	VP_STORE(t->calls, t->calls + 1);
#if VP_IS_BP
	int crit = t->lib_crit;
	VP_STORE(t->lib_crit, crit + 1);
#endif
	uint64_t c = ts_before();
	if (stepped)
		step_begin(t, R_SYNC, 1);
	else
		VP_STORE(t->region, R_SYNC);
	c19_w_synchronize_rcu();
	if (stepped)
		step_end(t);
	else
		VP_STORE(t->region, R_NONE);
	uint64_t r = ts_after();
#if VP_IS_BP
	VP_STORE(t->lib_crit, crit);
	VP_STORE(t->masked_by_lib, 0);
#endif
	VP_STORE(t->returns, t->returns + 1);
	__atomic_store_n(&t->y, seq, __ATOMIC_RELAXED);
	if (old)
		obj_retire(old);
	log_wait(&t->waits, c, r, 0);
}

static void do_call_rcu(struct thr *t, int stepped)
{
	int k = (int) vp_rand_n(&t->rng, NSLOTS);
	struct obj *n = obj_new();
	struct obj *old = rcu_xchg_pointer(&slots[k], n);
	if (!old)
		return;
	old->c = ts_before();
	if (stepped)
		step_begin(t, R_CALLRCU, 1);
	else
		VP_STORE(t->region, R_CALLRCU);
	c19_w_call_rcu(&old->rcu, crcu_cb);
	if (stepped)
		step_end(t);
	else
		VP_STORE(t->region, R_NONE);
}

static void *updater_main(void *arg)
{
	struct thr *t = arg;
	struct vp_thr *vt;
	int reg = VP_IS_BP || (t->idx & 1);
	me = t;
	if (reg)
		thr_enter(t);
	else {
		vp_pin(t->cpu_slot);
		(void) vp_self();
	}
	vt = vp_self();
	vp_barrier_wait(&start_barrier);
	while (!VP_LOAD(g_stop)) {
		flush_pv(t);
		if (reg && vp_rand_n(&t->rng, 4) == 0)
			do_call_rcu(t, 0);
		else
			do_sync(t, 0);
		if (reg)
			check_nest(t, 0, "synchronize_rcu()/call_rcu() of an updater that receives asynchronous handlers", R_NONE);
		__atomic_store_n(&vt->progress, vt->progress + 1, __ATOMIC_RELAXED);
		uint32_t x = vp_rand_n(&t->rng, 100);
		if (x < 40)
			vp_spin_cycles(vp_rand_n(&t->rng, 6000));
		else if (x < 50)
			usleep(vp_rand_n(&t->rng, 150));
	}
	if (reg)
		thr_leave(t);
	VP_STORE(t->exited, 1);
	return NULL;
}

/* ------------------------------------------------------------------ victim */

static void victim_targeted(struct thr *t)
{
	int depth = 1 + (int) vp_rand_n(&t->rng, 3);
	struct obj *p = NULL;
	uint64_t b = 0, e = 0;

	for (int d = 0; d < depth; d++) {
		step_begin(t, R_LOCK0 + d, 1);
		c19_w_read_lock();
		step_end(t);
		check_nest(t, (unsigned long) d + 1, "rcu_read_lock()", R_LOCK0 + d);
		t->regions_done[R_LOCK0 + d]++;
		if (d == 0) {
			b = ts_after();
			VP_STORE(t->in_section, 1);
			p = c19_w_dereference(&slots[vp_rand_n(&t->rng, NSLOTS)]);
			validate(p, "victim deref");
		}
	}
	step_begin(t, R_ONGOING, 1);
	int og = c19_w_read_ongoing();
	step_end(t);
	t->regions_done[R_ONGOING]++;
	if (og != depth)
		vp_violation("read-ongoing-wrong-under-nesting",
			     "cfg=%s victim: rcu_read_ongoing() (single-stepped) returned %d at nesting %d", cfgname, og, depth);
	validate(p, "victim after locks");
	for (int d = depth; d >= 1; d--) {
		int region = R_UNLOCK1 - (d - 1);
		if (d == 1) {
#if !VP_IS_BP
			/* sometimes wait until a grace period sleeps on the futex: the outermost unlock
			 * then takes the wake-up path while being single-stepped */
			if (vp_rand_n(&t->rng, 2)) {
				uint64_t t0 = vp_rdtsc();
				while (VP_PEEK(gp_futex)() != -1 && vp_rdtsc() - t0 < 600000)
					__asm__ __volatile__("pause");
			}
#endif
			validate(p, "victim before outermost unlock");
			VP_STORE(t->in_section, 0);
			e = ts_before();
			t->unlock10_steps++;
		}
		/* outermost unlock: with k == 1 the handler that runs right after the reader-word store
		 * always takes the wake-up path first; k > 1 lets the victim's own wake-up be stepped */
		step_begin(t, region, d == 1 && vp_rand_n(&t->rng, 2) ? 2 + vp_rand_n(&t->rng, 3) : 1);
		t->trap_seq = vp_rand_n(&t->rng, 7);
		c19_w_read_unlock();
		step_end(t);
		check_nest(t, (unsigned long) d - 1, "rcu_read_unlock()", region);
		t->regions_done[region]++;
		if (d > 1)
			validate(p, "victim after inner unlock");
	}
	t->validations += (uint64_t) depth + 3;
	log_sec(&t->secs[0], b, e);
}

static NOINL void victim_section(struct thr *t, uint32_t k)
{
	struct obj *p, *q;
	uint64_t b, e;
	int nested = (int) vp_rand_n(&t->rng, 2);
	int i1 = (int) vp_rand_n(&t->rng, NSLOTS), i2 = (int) vp_rand_n(&t->rng, NSLOTS);
	int u = mp_pick(&t->rng);

	step_begin(t, R_SECTION, k);
	c19_w_read_lock();
	b = ts_after();
	p = c19_w_dereference(&slots[i1]);
	validate(p, "victim stepped section deref");
	uint64_t ry = __atomic_load_n(&thr[u].y, __ATOMIC_RELAXED);
	if (nested) {
		c19_w_read_lock();
		q = c19_w_dereference(&slots[i2]);
		validate(q, "victim stepped nested deref");
		c19_w_read_unlock();
		validate(q, "victim stepped after inner unlock");
	}
	uint64_t rx = __atomic_load_n(&thr[u].x, __ATOMIC_RELAXED);
	validate(p, "victim stepped section end");
	e = ts_before();
	c19_w_read_unlock();
	step_end(t);
	check_nest(t, 0, "a whole read-side section", R_SECTION);
	if (rx < ry)
		vp_violation("message-passing-broken",
			     "cfg=%s victim (single-stepped section) saw y=%llu but x=%llu", cfgname,
			     (unsigned long long) ry, (unsigned long long) rx);
	t->validations += 2 + 2 * (uint64_t) nested;
	t->mp_checks++;
	t->regions_done[R_SECTION]++;
	log_sec(&t->secs[0], b, e);
}

static void *victim_main(void *arg)
{
	struct thr *t = arg;
	struct vp_thr *vt;
	uint64_t iter = 0;
	thr_enter(t);
	vt = vp_self();
	vp_barrier_wait(&start_barrier);
	while (!VP_LOAD(g_stop) && !VP_LOAD(g_hviol) && !vp_nviolations()) {
		if (opt_step && t->traps_d0 >= (uint64_t) trap_budget)
			break;
		if (!opt_step && VP_LOAD(g_async_handled) >= (uint64_t) async_budget)
			break;
		flush_pv(t);
		uint32_t x = vp_rand_n(&t->rng, 100);
		if (iter < 4)
			x = (iter & 1) ? 99 : 90;
		if (x < 47)
			victim_targeted(t);
		else if (x < 85)
			victim_section(t, 1 + (vp_rand_n(&t->rng, 4) == 0 ? vp_rand_n(&t->rng, 3) : 0));
		else if (x < 97) {
			do_call_rcu(t, 1);
			check_nest(t, 0, "call_rcu()", R_CALLRCU);
			t->regions_done[R_CALLRCU]++;
		} else {
			do_sync(t, 1);
			check_nest(t, 0, "synchronize_rcu()", R_SYNC);
			t->regions_done[R_SYNC]++;
		}
		iter++;
		__atomic_store_n(&vt->progress, vt->progress + 1, __ATOMIC_RELAXED);
		if (!opt_step && vp_rand_n(&t->rng, 4) == 0)
			vp_spin_cycles(vp_rand_n(&t->rng, 3000));
	}
	VP_STORE(victim_done, 1);
	/* keep being a registered, interruptible reader until everybody is told to stop */
	while (!VP_LOAD(g_stop)) {
		flush_pv(t);
		c19_w_read_lock();
		struct obj *p = c19_w_dereference(&slots[vp_rand_n(&t->rng, NSLOTS)]);
		validate(p, "victim idle section");
		vp_spin_cycles(vp_rand_n(&t->rng, 2000));
		validate(p, "victim idle section end");
		c19_w_read_unlock();
		(void) vt;
		usleep(50);
	}
	thr_leave(t);
	VP_STORE(t->exited, 1);
	return NULL;
}

/* ------------------------------------------------------------------ bp: fresh-thread episodes */

#if VP_IS_BP
static long n_episodes;
static int spawner_done;
static uint64_t ep_first_lock_traps, ep_exit_traps, ep_handler_registered, ep_sync_first, ep_sync_first_pending_seen;
static size_t bp_baseline_used;

/* A pthread key created after the library's constructor: its destructor runs after liburcu-bp's own
 * thread-exit destructor has unregistered the thread.  A read-side section there (taken directly, and by a
 * signal handler raised at that point) must register the thread again and be waited for like any other. */
static pthread_key_t late_key;
static int late_key_ok;
static uint64_t late_dtor_runs, late_dtor_after_bp_unregister, late_dtor_handler_runs;
static void late_dtor(void *p)
{
	struct thr *t = p;
	late_dtor_runs++;
	if (!rd_registered())
		late_dtor_after_bp_unregister++;
	if (VP_LOAD(g_hviol) || vp_nviolations())
		return;
	/* (1) a handler with a read-side section, raised right here */
	uint64_t a0 = t->async_total;
	VP_STORE(t->sig_ok, 1);
	raise(SIGUSR1);
	VP_STORE(t->sig_ok, 0);
	late_dtor_handler_runs += t->async_total - a0;
	/* (2) a section held across grace periods */
	c19_w_read_lock();
	struct obj *o = c19_w_dereference(&slots[vp_rand_n(&t->rng, NSLOTS)]);
	validate(o, "late TLS destructor: deref");
	uint64_t t0 = vp_now_ns(), len = 200000 + vp_rand_n(&t->rng, 2500000);
	while (vp_now_ns() - t0 < len) {
		vp_spin_cycles(20000);
		validate(o, "late TLS destructor: inside the section");
	}
	c19_w_read_unlock();
}

static void *episode_thread(void *arg)
{
	struct thr *t = arg;
	me = t;
	vp_pin(t->cpu_slot);
	(void) vp_self();
	VP_STORE(t->sig_ok, 1);
	set_alive(t, 1);
	if (late_key_ok && vp_rand_n(&t->rng, 3) == 0)
		pthread_setspecific(late_key, t);
	uint64_t tr0 = t->traps_total;
	if (vp_rand_n(&t->rng, 3) == 0)
		vp_spin_cycles(vp_rand_n(&t->rng, 200000));	/* an asynchronous handler may register the thread first */
	if (!rd_registered() && vp_rand_n(&t->rng, 4) == 0) {
		/* Updater-only start: the thread's FIRST RCU operation is synchronize_rcu().  The spawner sends
		 * SIGUSR1 all the time; urcu_bp_synchronize_rcu() runs with signals blocked, so the signal stays
		 * pending and its handler (which takes a read-side section, i.e. registers this still unregistered
		 * thread, which needs rcu_registry_lock) runs at the instant the library restores the mask.  That
		 * must happen after the library has dropped its locks. */
		uint64_t a0 = t->async_total;
		int was_reg = rd_registered();
		ep_sync_first_armed = 1;	/* the burst starts at a hook point inside the masked region */
		do_sync(t, 0);
		ep_sync_first_armed = 0;
		VP_STORE(ep_want_burst, 0);
		ep_sync_first++;
		if (!was_reg && t->async_total > a0)
			ep_sync_first_pending_seen++;
		__atomic_store_n(&vp_self()->progress, vp_self()->progress + 1, __ATOMIC_RELAXED);
	}
	int reg_before = rd_registered();
	/* the first rcu_read_lock() would be pre-empted by the handler of the very first trap (which
	 * registers the thread): let a random number of traps pass so that the first handler section
	 * lands anywhere between the thread's own NULL test and the library's SIG_BLOCK, or after it
	 * */
	t->trap_skip = vp_rand_n(&t->rng, 3) ? vp_rand_n(&t->rng, 90) : 0;
	/* half of the episodes: anywhere in the whole span up to the library's SIG_BLOCK as measured so
	 * far (the window between a check placed late in urcu_bp_register() and the masking call lies
	 * hundreds of instructions after the thread's own NULL test: hook call, sigfillset()) */
	{
		uint64_t span = VP_LOAD(bpreg_span_max);
		uint64_t last = VP_LOAD(bpreg_span_last);
		uint32_t dice = vp_rand_n(&t->rng, 4);
		if (span > 0 && dice == 0)
			t->trap_skip = vp_rand_n(&t->rng, (uint32_t) span + 8);
		else if (last > 0 && dice <= 2) {
			/* aim at the last instructions before the masking call (the path is the same for
			 * every fresh thread, so the previous episode's length predicts this one's) */
			uint32_t back = vp_rand_n(&t->rng, 70);
			t->trap_skip = last > back ? (uint32_t) (last - back) : 0;
			bpreg_tail_aimed++;
		}
	}
	bpreg_tr0 = t->traps_d0;
	bpreg_entered = 0;
	bpreg_aim = 0;
	{
		/* prior of 160 instructions (hook call + sigfillset + the shim's prologue) until an episode
		 * has measured the real distance */
		uint64_t in_fn = VP_LOAD(bpreg_in_fn_span_max);
		if (!in_fn)
			in_fn = 160;
		if (vp_rand_n(&t->rng, 2)) {
			bpreg_aim = 1;
			bpreg_aim_after = vp_rand_n(&t->rng, (uint32_t) in_fn + 4);
			bpreg_in_fn_aimed++;
		}
	}
	bpreg_measuring = 1;
	/* the first rcu_read_lock() of this thread registers it; every instruction up to the
	 * library's pthread_sigmask(SIG_BLOCK) and from its restore on is an interruption point */
	step_begin(t, R_BPREG, 1);
	c19_w_read_lock();
	step_end(t);
	bpreg_measuring = 0;	/* registration returned early (a handler registered the thread first): no SIG_BLOCK in this region */
	if (reg_before)
		ep_handler_registered++;	/* an asynchronous handler registered the thread first */
	check_nest(t, 1, "the first rcu_read_lock() of a thread (automatic registration)", R_BPREG);
	ep_first_lock_traps += t->traps_total - tr0;
	struct obj *p = c19_w_dereference(&slots[vp_rand_n(&t->rng, NSLOTS)]);
	validate(p, "episode deref");
	vp_spin_cycles(vp_rand_n(&t->rng, 3000));
	validate(p, "episode after delay");
	c19_w_read_unlock();
	check_nest(t, 0, "rcu_read_unlock()", R_NONE);
	t->regions_done[R_BPREG]++;
	set_alive(t, 0);
	flush_pv(t);
	VP_STORE(t->exited, 1);	/* the spawner stops its signal burst and joins */
	if (opt_exit_step && opt_step) {
		/* keep stepping through the thread-exit path: the key destructor unregisters the
		 * thread; the shim stops the stepping at the library's mask restore */
		t->exit_stepping = 1;
		t->regions_done[R_BPEXIT]++;
		step_begin(t, R_BPEXIT, 1);
	}
	return NULL;
}

static void *spawner_main(void *arg)
{
	struct thr *t = arg;	/* the episode slot */
	struct vp_rng r;
	vp_pin(t->cpu_slot + 1 < 1 + n_readers ? t->cpu_slot + 1 : t->cpu_slot);
	vp_rng_init(&r, vp_opt.seed, 0xe915, 0);
	for (long i = 0; i < n_episodes && !VP_LOAD(g_stop) && !VP_LOAD(g_hviol) && !vp_nviolations(); i++) {
		t->sig_ok = 0; t->alive = 0; t->hdepth = 0; t->stepping = 0; t->region = 0; t->exit_stepping = 0;
		t->lib_crit = 0; t->masked_by_lib = 0; t->suspended = 0; t->step_k = 1;
		uint64_t tr0 = t->traps_total;
		VP_STORE(ep_want_burst, 0);
		VP_STORE(t->exited, 0);
		if (pthread_create(&t->tid, NULL, episode_thread, t))
			break;
		while (!VP_LOAD(t->exited)) {
			if (VP_LOAD(ep_want_burst) && VP_LOAD(t->sig_ok))
				pthread_kill(t->tid, SIGUSR1);
			vp_spin_cycles(40000);
		}
		pthread_join(t->tid, NULL);
		ep_exit_traps += t->traps_total - tr0;
		flush_pv(t);
		ep_done++;
		struct vp_bp_arena_info ai;
		vp_peek_bp_arena_snapshot(&ai);
		if (VP_LOAD(g_stop) || VP_LOAD(g_hviol) || vp_nviolations())
			break;	/* the stable threads may be leaving: the census is only meaningful while they all run */
		if (ai.total_used != bp_baseline_used) {
			vp_violation("bp-registry-slot-leaked",
				     "cfg=%s episode %ld: after the fresh thread exited the bp arena holds %zu used reader slots, %zu before it started (double registration or missed unregistration); registry length %d",
				     cfgname, i, ai.total_used, bp_baseline_used, ai.registry_len);
			break;
		}
		if (ai.used_mismatch || ai.alloc_without_tid || ai.free_slot_active) {
			vp_violation("bp-arena-inconsistent",
				     "cfg=%s episode %ld: used_mismatch=%d alloc_without_tid=%d free_slot_active=%d", cfgname, i,
				     ai.used_mismatch, ai.alloc_without_tid, ai.free_slot_active);
			break;
		}
		if (vp_rand_n(&r, 4) == 0)
			usleep(vp_rand_n(&r, 200));
	}
	VP_STORE(spawner_done, 1);
	return NULL;
}
#endif

/* ------------------------------------------------------------------ symbols */

struct sym { uint64_t addr, size; const char *name; int lib; };
static struct sym *syms;
static size_t nsyms;

static int phdr_cb(struct dl_phdr_info *info, size_t sz, void *data)
{
	(void) sz;
	*(uint64_t *) data = info->dlpi_addr;
	return 1;	/* first entry = main program */
}

static int sym_cmp(const void *a, const void *b)
{
	const struct sym *x = a, *y = b;
	return x->addr < y->addr ? -1 : x->addr > y->addr;
}

static int file_is_lib(const char *n)
{
	static const char *libs[] = { "lib_flavor.c", "wfqueue.c", "wfcqueue.c", "wfstack.c", "compat_arch.c",
		"compat_futex.c", "rculfqueue.c", "rculfstack.c", "lfstack.c", "workqueue.c", "rculfhash.c",
		"urcu-pointer.c", NULL };
	for (int i = 0; libs[i]; i++)
		if (!strcmp(n, libs[i]))
			return 1;
	return 0;
}

static int name_is_lib(const char *n)
{
	if (!strncmp(n, "urcu_verif", 10) || !strncmp(n, "vp_", 3))
		return 0;
	return !strncmp(n, "urcu_", 5) || !strncmp(n, "rcu_", 4) || !strncmp(n, "cds_", 4) ||
		!strncmp(n, "__cds_", 6) || !strncmp(n, "_cds_", 5) || !strncmp(n, "compat_futex", 12);
}

static void symtab_load(void)
{
	int fd = open("/proc/self/exe", O_RDONLY);
	struct stat st;
	if (fd < 0 || fstat(fd, &st))
		return;
	char *base = mmap(NULL, (size_t) st.st_size, PROT_READ, MAP_PRIVATE, fd, 0);
	close(fd);
	if (base == MAP_FAILED)
		return;
	Elf64_Ehdr *eh = (Elf64_Ehdr *) base;
	if (memcmp(eh->e_ident, ELFMAG, SELFMAG) || eh->e_ident[EI_CLASS] != ELFCLASS64)
		return;
	uint64_t bias = 0;
	dl_iterate_phdr(phdr_cb, &bias);
	Elf64_Shdr *sh = (Elf64_Shdr *) (base + eh->e_shoff);
	for (int i = 0; i < eh->e_shnum; i++) {
		if (sh[i].sh_type != SHT_SYMTAB)
			continue;
		Elf64_Sym *s = (Elf64_Sym *) (base + sh[i].sh_offset);
		size_t n = sh[i].sh_size / sizeof(Elf64_Sym);
		const char *str = base + sh[sh[i].sh_link].sh_offset;
		int cur_lib = 0;
		syms = calloc(n + 1, sizeof(*syms));
		for (size_t k = 0; k < n; k++) {
			int type = ELF64_ST_TYPE(s[k].st_info), bind = ELF64_ST_BIND(s[k].st_info);
			const char *name = str + s[k].st_name;
			if (type == STT_FILE) {
				cur_lib = file_is_lib(name);
				continue;
			}
			if (type != STT_FUNC || s[k].st_shndx == SHN_UNDEF || !s[k].st_value)
				continue;
			syms[nsyms].addr = bias + s[k].st_value;
			syms[nsyms].size = s[k].st_size;
			syms[nsyms].name = name;
			syms[nsyms].lib = bind == STB_LOCAL ? cur_lib : name_is_lib(name);
			nsyms++;
		}
		break;
	}
	if (nsyms)
		qsort(syms, nsyms, sizeof(*syms), sym_cmp);
}

/* returns 1 when the pc is in the main program; name/off always filled */
static int sym_lookup(uint64_t pc, char *name, size_t len, uint64_t *off, int *lib)
{
	*lib = 0;
	*off = 0;
	if (nsyms && pc >= syms[0].addr) {
		size_t lo = 0, hi = nsyms;
		while (hi - lo > 1) {
			size_t mid = (lo + hi) / 2;
			if (syms[mid].addr <= pc)
				lo = mid;
			else
				hi = mid;
		}
		/* aliases share an address: take the first of the run */
		while (lo > 0 && syms[lo - 1].addr == syms[lo].addr)
			lo--;
		if (pc < syms[lo].addr + (syms[lo].size ? syms[lo].size : 1)) {
			int l = 0;
			for (size_t k = lo; k < nsyms && syms[k].addr == syms[lo].addr; k++)
				l |= syms[k].lib;
			snprintf(name, len, "%s", syms[lo].name);
			*off = pc - syms[lo].addr;
			*lib = l;
			return 1;
		}
	}
	Dl_info di;
	if (dladdr((void *) pc, &di) && di.dli_fname) {
		const char *bn = strrchr(di.dli_fname, '/');
		bn = bn ? bn + 1 : di.dli_fname;
		if (di.dli_sname) {
			snprintf(name, len, "%s:%s", bn, di.dli_sname);
			*off = pc - (uint64_t) di.dli_saddr;
		} else {
			snprintf(name, len, "%s", bn);
			*off = pc - (uint64_t) di.dli_fbase;
		}
		return 0;
	}
	snprintf(name, len, "?");
	*off = pc;
	return 0;
}

/* ------------------------------------------------------------------ interval oracle */

static int sec_cmp(const void *a, const void *b)
{
	const struct sec *x = a, *y = b;
	return x->b < y->b ? -1 : x->b > y->b;
}

static uint64_t iv_evals, iv_nontrivial, iv_pairs;

static void check_waits(struct waits *w, const char *who, int widx)
{
	for (size_t i = 0; i < w->n; i++) {
		uint64_t c = w->v[i].c, r = w->v[i].r;
		int overlapping = 0;
		iv_evals++;
		for (int rd = 0; rd < nthr; rd++) {
			for (int d = 0; d <= MAXD; d++) {
				struct secs *s = &thr[rd].secs[d];
				if (!s->n)
					continue;
				size_t lo = 0, hi = s->n;
				while (lo < hi) {
					size_t mid = (lo + hi) / 2;
					if (s->v[mid].b < c)
						lo = mid + 1;
					else
						hi = mid;
				}
				if (lo == 0)
					continue;
				struct sec *x = &s->v[lo - 1];
				iv_pairs++;
				if (x->e > c)
					overlapping++;
				if (x->b + vp_eps < c && x->e > r + vp_eps) {
					char path[512] = "";
					FILE *f = vp_witness_open("interval", path, sizeof(path));
					if (f) {
						fprintf(f, "cfg=%s eps=%llu\nthread %d %s section b=%llu e=%llu\n%s %d %s call=%llu return=%llu\n",
							cfgname, (unsigned long long) vp_eps, rd,
							d ? "handler-depth" : "thread-level", (unsigned long long) x->b,
							(unsigned long long) x->e, who, widx,
							w->v[i].kind ? "call_rcu->callback" : "synchronize_rcu",
							(unsigned long long) c, (unsigned long long) r);
						fclose(f);
					}
					vp_violation(d ? "gp-too-short-for-handler-section" : "gp-too-short",
						     "cfg=%s %s [%llu,%llu] by %s %d completed while the %s section [%llu,%llu] of thread %d (handler depth %d) that began before the call was still open (eps=%llu) witness=%s",
						     cfgname, w->v[i].kind ? "call_rcu()->callback" : "synchronize_rcu()",
						     (unsigned long long) c, (unsigned long long) r, who, widx,
						     d ? "signal-handler" : "thread-level", (unsigned long long) x->b,
						     (unsigned long long) x->e, rd, d, (unsigned long long) vp_eps, path);
				}
			}
		}
		if (overlapping)
			iv_nontrivial++;
	}
}

/* ------------------------------------------------------------------ stuck detector */

#if VP_TSAN
__attribute__((no_sanitize("thread")))
#endif
static int confirm_stuck(char *buf, size_t len)
{
	uint64_t calls = 0, rets = 0;
	for (int i = 0; i < nthr; i++) {
		calls += VP_LOAD(thr[i].calls);
		rets += VP_LOAD(thr[i].returns);
	}
	snprintf(buf, len, "hang:c19:%s:inflight=%llu:victim-region=%s:victim-traps=%llu", cfgname,
		 (unsigned long long) (calls - rets), region_names[VP_LOAD(thr[0].region)],
		 (unsigned long long) thr[0].traps_total);
	if (calls > rets) {
		fprintf(stderr, "sigrd: stuck: %llu synchronize_rcu() calls in flight; reader words:", (unsigned long long) (calls - rets));
		for (int i = 0; i < nthr; i++) {
			unsigned long *wa = VP_LOAD(thr[i].word_addr);
			if (VP_LOAD(thr[i].registered) && wa)
				fprintf(stderr, " thr%d=%#lx(hdepth %d, region %s, in_section %d)", i, VP_LOAD(*wa), VP_LOAD(thr[i].hdepth),
					region_names[VP_LOAD(thr[i].region)], VP_LOAD(thr[i].in_section));
		}
		fprintf(stderr, " gp.ctr=%#lx\n", (unsigned long) VP_LOAD(rcu_gp.ctr));
		{
			/* are the readers themselves alive?  (sections completed / handlers run in 2 s) */
			uint64_t s0[MAX_THR], h0[MAX_THR];
			for (int i = 0; i < nthr; i++) {
				s0[i] = VP_LOAD(thr[i].secs[0].total);
				h0[i] = VP_LOAD(thr[i].async_total) + VP_LOAD(thr[i].traps_total);
			}
			sleep(2);
			fprintf(stderr, "sigrd: stuck: in the following 2 s:");
			for (int i = 0; i < nthr; i++)
				fprintf(stderr, " thr%d: %llu sections, %llu signals;", i,
					(unsigned long long) (VP_LOAD(thr[i].secs[0].total) - s0[i]),
					(unsigned long long) (VP_LOAD(thr[i].async_total) + VP_LOAD(thr[i].traps_total) - h0[i]));
			fprintf(stderr, "\n");
		}
		if (vp_arg_long("wd-pause", 0))
			sleep(600);	/* diagnostic: leave the process for a debugger */
		snprintf(buf, len, "hang:c19:%s", cfgname);
		return 1;
	}
	return 0;
}

/* ------------------------------------------------------------------ evidence */

struct fstat_ent { char name[96]; uint32_t npcs; uint64_t nexec; int lib; };
struct gpc { uint64_t pc, n, n_nest; uint32_t regions, kinds, depths; };
#define GPC_MASK ((1u << 18) - 1)
static struct gpc *gtab;
#define MAXF 512
static struct fstat_ent fst[MAXF];
static int nfst;

static struct fstat_ent *fst_get(const char *name, int lib)
{
	for (int i = 0; i < nfst; i++)
		if (!strcmp(fst[i].name, name))
			return &fst[i];
	if (nfst >= MAXF)
		return &fst[MAXF - 1];
	snprintf(fst[nfst].name, sizeof(fst[nfst].name), "%s", name);
	fst[nfst].lib = lib;
	return &fst[nfst++];
}

static int fst_cmp(const void *a, const void *b)
{
	const struct fstat_ent *x = a, *y = b;
	return x->npcs > y->npcs ? -1 : x->npcs < y->npcs;
}

static void report(void)
{
	uint64_t evals = 0, nontrivial = 0, traps = 0, skipped_k = 0, asyncs = 0, askipped = 0, hsteps = 0;
	uint64_t depth_exec[MAXD + 1][2];
	uint64_t nest_pos = 0, too_deep = 0, val = 0, hval = 0, mp = 0, pc_dropped = 0, sec_dropped = 0, sec_total = 0;
	uint64_t distinct_pcs = 0, nsig = 0, sig_capped = 0, hwake = 0;
	uint64_t pcs_depth[MAXD + 1];
	memset(depth_exec, 0, sizeof(depth_exec));
	memset(pcs_depth, 0, sizeof(pcs_depth));
	gtab = calloc((size_t) GPC_MASK + 1, sizeof(*gtab));
	symtab_load();
	for (int i = 0; i < nthr; i++) {
		struct thr *t = &thr[i];
		flush_pv(t);
		traps += t->traps_total;
		skipped_k += t->traps_skipped_k;
		asyncs += t->async_total;
		askipped += t->async_skipped;
		hsteps += t->hsteps;
		hwake += t->h_wake;
		nest_pos += t->h_nest_pos;
		too_deep += t->h_too_deep;
		val += t->validations;
		hval += t->h_validations;
		mp += t->mp_checks;
		for (int d = 0; d <= MAXD; d++) {
			sec_dropped += t->secs[d].dropped;
			sec_total += t->secs[d].total;
		}
		for (int d = 1; d <= MAXD; d++) {
			depth_exec[d][0] += t->h_exec[d][0];
			depth_exec[d][1] += t->h_exec[d][1];
			evals += t->h_exec[d][0] + t->h_exec[d][1];
			struct pctab *pt = &t->pct[d];
			pc_dropped += pt->dropped;
			for (uint32_t k = 0; k <= pt->mask && pt->e; k++) {
				struct pcent *e = &pt->e[k];
				if (!e->pc)
					continue;
				uint32_t h = (uint32_t) ((e->pc * 0x9e3779b97f4a7c15ULL) >> 40) & GPC_MASK;
				for (;;) {
					struct gpc *g = &gtab[h];
					if (g->pc == e->pc || !g->pc) {
						g->pc = e->pc;
						g->n += e->n;
						g->n_nest += e->n_nest;
						g->regions |= e->regions;
						g->kinds |= e->kinds;
						g->depths |= 1u << d;
						break;
					}
					h = (h + 1) & GPC_MASK;
				}
			}
		}
	}
	for (uint32_t k = 0; k <= GPC_MASK; k++) {
		struct gpc *g = &gtab[k];
		char name[128];
		uint64_t off;
		int lib;
		if (!g->pc)
			continue;
		sym_lookup(g->pc, name, sizeof(name), &off, &lib);
		int wrapper = !strncmp(name, "c19_w_", 6);
		int interest = (g->regions & ~1u) || lib || wrapper;
		nontrivial += interest ? g->n : g->n_nest;
		if (!interest && !g->n_nest)
			continue;
		distinct_pcs++;
		for (int d = 1; d <= MAXD; d++)
			if (g->depths & (1u << d))
				pcs_depth[d]++;
		struct fstat_ent *f = fst_get(name, lib || wrapper);
		f->npcs++;
		f->nexec += g->n;
		/* signature: (configuration, function, offset); offsets of big functions are
		 * bucketed to keep the set bounded */
		if (nsig < 2400) {
			uint64_t o = f->npcs > 200 ? (off & ~0xfULL) : off;
			vp_sig_add("%s:%s+%#llx", cfgname, name, (unsigned long long) o);
			nsig++;
		} else
			sig_capped++;
	}
	/* samples: one single-step interruption inside read-side / library code, one nested (depth >= 2),
	 * one asynchronous */
	int got0 = 0;
	for (int pass = -1; pass < 3; pass++) {
		int done = 0;
		if (pass == 0 && got0)
			continue;
		for (int i = 0; i < nthr && !done; i++) {
			struct thr *t = &thr[i];
			for (int k = 0; k < NSAMP && !done; k++) {
				struct samp *sp = &t->samp[k];
				if (!sp->depth)
					continue;
				char name[128];
				uint64_t off;
				int lib;
				sym_lookup(sp->pc, name, sizeof(name), &off, &lib);
				int in_lib = lib || !strncmp(name, "c19_w_", 6);
				if (pass == -1 && !(sp->kind == K_TRAP && sp->depth == 1 && in_lib && off && (sp->w0 & NEST_MASK) &&
						    sp->region >= R_LOCK0 && sp->region <= R_UNLOCK1))
					continue;
				if (pass == 0 && !(sp->kind == K_TRAP && sp->depth == 1 && in_lib && off))
					continue;
				if (pass == 1 && !(sp->depth >= 2 && in_lib))
					continue;
				if (pass == 2 && !(sp->kind == K_ASYNC && sp->depth == 1 && (in_lib || (sp->w0 & NEST_MASK))))
					continue;
				vp_sample_add("%s: %s (depth %d) on thread %d at %s+%#llx region=%s: nesting %lu (word %#lx) -> handler lock/deref/validate/unlock (nesting %lu inside) -> nesting %lu (word %#lx): ok",
					      cfgname, sp->kind ? "SIGUSR1" : "trap", sp->depth, i, name,
					      (unsigned long long) off, region_names[sp->region], sp->w0 & NEST_MASK,
					      sp->w0, sp->w1 & NEST_MASK, sp->w2 & NEST_MASK, sp->w2);
				done = 1;
				if (pass == -1)
					got0 = 1;
			}
		}
	}
	/* per-function distinct interrupted program counters */
	qsort(fst, (size_t) nfst, sizeof(fst[0]), fst_cmp);
	{
		char line[900];
		size_t pos = 0;
		int lines = 0;
		line[0] = 0;
		for (int i = 0; i < nfst && lines < 4; i++) {
			int n = snprintf(line + pos, sizeof(line) - pos, "%s%s=%u", pos ? " " : "", fst[i].name, fst[i].npcs);
			if (n < 0 || (size_t) n >= sizeof(line) - pos - 1 || pos > 760) {
				vp_note("%s: distinct interrupted PCs per function: %s", cfgname, line);
				lines++;
				pos = 0;
				line[0] = 0;
				i--;
				continue;
			}
			pos += (size_t) n;
		}
		if (pos && lines < 4)
			vp_note("%s: distinct interrupted PCs per function: %s", cfgname, line);
	}
	uint64_t pcs_lock = 0, pcs_unlock = 0, pcs_deref = 0, pcs_ongoing = 0, pcs_lib = 0, pcs_other = 0;
	for (int i = 0; i < nfst; i++) {
		if (!strcmp(fst[i].name, "c19_w_read_lock") || strstr(fst[i].name, "_read_lock"))
			pcs_lock += fst[i].npcs;
		else if (!strcmp(fst[i].name, "c19_w_read_unlock") || strstr(fst[i].name, "_read_unlock"))
			pcs_unlock += fst[i].npcs;
		else if (!strcmp(fst[i].name, "c19_w_dereference"))
			pcs_deref += fst[i].npcs;
		else if (strstr(fst[i].name, "read_ongoing"))
			pcs_ongoing += fst[i].npcs;
		else if (fst[i].lib)
			pcs_lib += fst[i].npcs;
		else
			pcs_other += fst[i].npcs;
	}
	vp_counter_add("evaluations", evals);
	vp_counter_add("nontrivial", nontrivial);
	vp_counter_add("traps", traps);
	vp_counter_add("traps_skipped_by_k", skipped_k);
	vp_counter_add("async_signals", asyncs);
	vp_counter_add("async_signals_on_unregistered_thread_skipped", askipped);
	vp_counter_add("chaos_signals_sent", chaos_sent);
	vp_counter_add("handler_depth1_trap", depth_exec[1][0]);
	vp_counter_add("handler_depth1_async", depth_exec[1][1]);
	vp_counter_add("handler_depth2_trap", depth_exec[2][0]);
	vp_counter_add("handler_depth2_async", depth_exec[2][1]);
	vp_counter_add("handler_depth3_trap", depth_exec[3][0]);
	vp_counter_add("handler_depth3_async", depth_exec[3][1]);
	vp_counter_add("handler_depth4", depth_exec[4][0] + depth_exec[4][1]);
	vp_counter_add("handler_too_deep_skipped", too_deep);
	vp_counter_add("handler_stepped_pairs", hsteps);
	vp_counter_add("handler_interrupted_nesting_gt0", nest_pos);
	vp_counter_add("handler_validations", hval);
	vp_counter_add("thread_validations", val);
	vp_counter_add("mp_checks", mp);
	vp_counter_add("distinct_pcs", distinct_pcs);
	vp_counter_add("distinct_pcs_seen_at_depth1", pcs_depth[1]);
	vp_counter_add("distinct_pcs_seen_at_depth2", pcs_depth[2]);
	vp_counter_add("distinct_pcs_seen_at_depth3", pcs_depth[3]);
	vp_counter_add("handler_unlock_woke_gp", hwake);
	vp_counter_add("distinct_pcs_read_lock", pcs_lock);
	vp_counter_add("distinct_pcs_read_unlock", pcs_unlock);
	vp_counter_add("distinct_pcs_dereference", pcs_deref);
	vp_counter_add("distinct_pcs_read_ongoing", pcs_ongoing);
	vp_counter_add("distinct_pcs_library_gp_callrcu", pcs_lib);
	vp_counter_add("distinct_pcs_other_in_region", pcs_other);
	vp_counter_add("pc_table_dropped", pc_dropped);
	vp_counter_add("signatures_capped", sig_capped);
	vp_counter_add("sections_total", sec_total);
	vp_counter_add("sections_log_dropped", sec_dropped);
	struct thr *v = &thr[0];
	for (int r = 1; r < R_NR; r++)
		if (v->regions_done[r] || thr[nthr - 1].regions_done[r]) {
			char nm[64];
			snprintf(nm, sizeof(nm), "region_%s", region_names[r]);
			vp_counter_add(nm, v->regions_done[r] + (nthr - 1 ? thr[nthr - 1].regions_done[r] : 0));
		}
	vp_counter_add("stepped_unlock1to0", v->unlock10_steps);
	vp_counter_add("stepped_unlock1to0_woke_gp", v->unlock10_wake);
	vp_counter_add("stepped_wakeups_any_region", v->wake_in_step);
	uint64_t susp = 0, mchecks = 0;
	for (int i = 0; i < nthr; i++) {
		susp += thr[i].mask_suspends;
		mchecks += thr[i].mask_checks;
	}
	vp_counter_add("stepping_suspended_for_sigmask", susp);
	vp_counter_add("bp_mask_probes", mchecks);
}

/* ------------------------------------------------------------------ main */

static void report(void);

/* a violation may leave a reader word damaged for good (grace periods then never complete):
 * once one is recorded the run is over; report what was observed and leave without joining */
#if VP_TSAN
__attribute__((no_sanitize("thread")))
#endif
static void bail_if_violation(void)
{
	if (!vp_nviolations() && !VP_LOAD(g_hviol))
		return;
	usleep(30000);	/* let the threads that noticed it park / report their own record */
	VP_STORE(g_stop, 1);
	usleep(20000);
	for (int i = 0; i < nthr; i++)
		flush_pv(&thr[i]);
	report();
	int rc = vp_finish();
	_exit(rc ? rc : 1);
}

extern unsigned int vp_tun_qs_attempts, vp_tun_wait_attempts;
extern int vp_tun_bp_sleep_ms;

static void alloc_logs(struct thr *t, int is_victim, double logscale)
{
	size_t c0 = is_victim ? (1 << 17) : (1 << 21);
	size_t c1 = (size_t) ((is_victim ? (1 << 19) : (1 << 17)) * logscale);
	for (int d = 0; d <= MAXD; d++) {
		size_t cap = d == 0 ? (size_t) (c0 * logscale) : (d == 1 ? c1 : (d == 2 ? c1 / 2 : c1 / 4));
		t->secs[d].cap = cap;
		t->secs[d].v = calloc(cap, sizeof(struct sec));
		if (d >= 1) {
			uint32_t sz = d == 1 ? (is_victim ? 1u << 16 : 1u << 14) : (d == 2 ? (is_victim ? 1u << 14 : 1u << 12) : 1u << 11);
			t->pct[d].e = calloc(sz, sizeof(struct pcent));
			t->pct[d].mask = sz - 1;
		}
	}
	t->waits.cap = (size_t) ((1 << 17) * logscale);
	t->waits.v = calloc(t->waits.cap, sizeof(struct wait));
}

int main(int argc, char **argv)
{
	vp_init(argc, argv, "sigrd_" VP_FLAVOR_NAME);
	cfgname = vp_arg("cfg", VP_FLAVOR_NAME);
	n_readers = (int) vp_arg_long("readers", 2);
	n_updaters = (int) vp_arg_long("updaters", 2);
	opt_step = (int) vp_arg_long("step", 1);
	opt_hstep = (int) vp_arg_long("hstep", 1);
	opt_exit_step = (int) vp_arg_long("exit-step", 1);
	opt_delay = (int) vp_arg_long("handler-delay", 1);
	trap_budget = vp_arg_long("traps", 400000);
	async_budget = vp_arg_long("asyncs", 200000);
	chaos_period_us = (uint32_t) vp_arg_long("sig-period-us", 30);
	chaos_victim_bias = (int) vp_arg_long("victim-bias", opt_step ? 55 : 0);
	double logscale = vp_arg_double("logscale", 1.0);
	opt_tsan_nested_release = (int) vp_arg_long("tsan-nested-release", 1);	/* 0: diagnostic only */
	vp_tun_qs_attempts = (unsigned) vp_arg_long("tun-qs", 2);
	vp_tun_wait_attempts = (unsigned) vp_arg_long("tun-wait", 50);
	vp_tun_bp_sleep_ms = (int) vp_arg_long("tun-bp-sleep", 1);
	double hookp = vp_arg_double("hook-prob", 0.001);
#if VP_ASAN || VP_TSAN
	if (opt_step && !vp_arg_long("force-step", 0))
		opt_step = 0;
#endif
#if VP_TSAN
	opt_hstep = 0;
#endif
	if (!opt_step)
		opt_hstep = (int) vp_arg_long("hstep-async", VP_TSAN ? 0 : 1), opt_exit_step = 0;
	if (1 + n_readers + n_updaters + 1 > MAX_THR)
		return 2;

	vp_user_hook = c19_hook;
	if (hookp > 0) {
		int pts[] = { URCU_VP_READ_LOCK_MID, URCU_VP_READ_UNLOCK_PRE_WAKE, URCU_VP_WAKE_GP_MID,
			URCU_VP_WAKE_GP_PRE_SYSCALL, URCU_VP_GP_PRE_FLIP, URCU_VP_GP_POST_FLIP,
			URCU_VP_GP_SCAN_AFTER_DEC, URCU_VP_GP_REGISTRY_UNLOCKED, URCU_VP_GP_PRE_SLEEP };
		for (unsigned i = 0; i < sizeof(pts) / sizeof(pts[0]); i++)
			vp_point_set(pts[i], hookp, VP_D_SPIN);
	}

	struct sigaction sa;
	memset(&sa, 0, sizeof(sa));
	sigemptyset(&sa.sa_mask);
	sa.sa_sigaction = trap_handler;
	sa.sa_flags = SA_SIGINFO | SA_NODEFER;	/* nested stepping inside handlers */
	sigaction(SIGTRAP, &sa, NULL);
	sa.sa_sigaction = async_handler;
	sa.sa_flags = SA_SIGINFO | SA_NODEFER;	/* no SA_RESTART: real EINTR in futex waits */
	sigaction(SIGUSR1, &sa, NULL);
#if VP_IS_BP
	late_key_ok = !pthread_key_create(&late_key, late_dtor);
#endif

	vp_quar_init(&quar, 1 << 16, obj_release);
	for (int k = 0; k < NSLOTS; k++)
		slots[k] = obj_new();
	crcu_waits.cap = (size_t) ((1 << 18) * logscale);
	crcu_waits.v = calloc(crcu_waits.cap, sizeof(struct wait));

	/* thread table: 0 victim, readers, updaters, (bp) episode slot last */
	nthr = 1 + n_readers + n_updaters;
	int ep_idx = -1;
#if VP_IS_BP
	n_episodes = vp_arg_long("episodes", 300);
	if (n_episodes > 0)
		ep_idx = nthr++;
#endif
	for (int i = 0; i < nthr; i++) {
		struct thr *t = &thr[i];
		t->idx = i;
		t->cpu_slot = i;
		t->role = i == 0 ? ROLE_VICTIM : (i <= n_readers ? ROLE_READER : (i == ep_idx ? ROLE_EPISODE : ROLE_UPDATER));
		t->step_k = 1;
		vp_rng_init(&t->rng, vp_opt.seed, 0xc190, (uint64_t) i);
		for (int d = 0; d < MAXD + 2; d++)
			vp_rng_init(&t->hrng[d], vp_opt.seed, 0xc191 + (uint64_t) d, (uint64_t) i);
		alloc_logs(t, i == 0 || i == ep_idx, logscale);
		if (t->role == ROLE_VICTIM || t->role == ROLE_UPDATER)
			mp_idx[n_mp++] = i;
	}
	/* CPU slots: victim 0, readers, updaters have their own; the chaos thread and the call_rcu
	 * helper come next (with fewer CPUs than threads they fold onto the victim-free slots first) */
	int nstable = 1 + n_readers + n_updaters;
	chaos_slot = nstable < vp_ncpu ? nstable : nstable - 1;
	int helper_slot = nstable + 1 < vp_ncpu ? nstable + 1 : (nstable >= 3 ? nstable - 2 : 0);

	/* the default call_rcu helper must exist before anything is single-stepped
	 * (thread creation blocks signals with raw system calls inside glibc) */
	int reg_before;
	{
#if !VP_IS_BP
		rcu_register_thread();
#endif
		struct obj *o = obj_new();
		o->c = 0;	/* warm-up callback: not logged */
		vp_lib_thread_slot_base(helper_slot);
		call_rcu(&o->rcu, crcu_cb);
		rcu_barrier();
#if !VP_IS_BP
		rcu_unregister_thread();
#endif
		reg_before = VP_PEEK(registry_count)();
	}

	vp_barrier_init(&start_barrier, 1 + n_readers + n_updaters + 1);
	vp_watchdog_start((uint64_t) vp_arg_long("stall-ms", 30000), confirm_stuck);
	pthread_create(&thr[0].tid, NULL, victim_main, &thr[0]);
	for (int i = 1; i <= n_readers; i++)
		pthread_create(&thr[i].tid, NULL, reader_main, &thr[i]);
	for (int i = 1 + n_readers; i < 1 + n_readers + n_updaters; i++)
		pthread_create(&thr[i].tid, NULL, updater_main, &thr[i]);
	pthread_create(&chaos_tid, NULL, chaos_main, NULL);
#if VP_IS_BP
	pthread_t spawner = 0;
	int have_spawner = 0;
	/* all stable threads are registered once they reach the barrier */
	{
		/* wait (bounded by the watchdog) until every stable thread is registered */
		for (;;) {
			int all = 1;
			for (int i = 0; i < 1 + n_readers + n_updaters; i++)
				if (!VP_LOAD(thr[i].registered))
					all = 0;
			if (all)
				break;
			usleep(100);
		}
		struct vp_bp_arena_info ai;
		vp_peek_bp_arena_snapshot(&ai);
		bp_baseline_used = ai.total_used;
	}
	vp_barrier_wait(&start_barrier);
	if (ep_idx >= 0) {
		thr[ep_idx].cpu_slot = n_readers >= 1 ? 1 : 0;	/* episode threads share the first reader's CPU */
		if (pthread_create(&spawner, NULL, spawner_main, &thr[ep_idx]) == 0)
			have_spawner = 1;
	}
#else
	vp_barrier_wait(&start_barrier);
#endif
	while (!VP_LOAD(victim_done)) {
		bail_if_violation();
		usleep(1000);
	}
#if VP_IS_BP
	if (have_spawner) {
		while (!VP_LOAD(spawner_done)) {
			bail_if_violation();
			usleep(1000);
		}
		pthread_join(spawner, NULL);
	}
#endif
	VP_STORE(g_stop, 1);
	for (int i = 0; i < 1 + n_readers + n_updaters; i++) {
		while (!VP_LOAD(thr[i].exited)) {
			bail_if_violation();
			usleep(500);
		}
		pthread_join(thr[i].tid, NULL);
	}
	bail_if_violation();
	VP_STORE(chaos_stop, 1);
	pthread_join(chaos_tid, NULL);
	rcu_barrier();
	vp_watchdog_stop();

	uint64_t calls = 0, rets = 0;
	for (int i = 0; i < nthr; i++) {
		calls += thr[i].calls;
		rets += thr[i].returns;
		flush_pv(&thr[i]);
	}
	if (calls != rets)
		vp_violation("gp-call-never-returned", "cfg=%s %llu calls, %llu returns", cfgname,
			     (unsigned long long) calls, (unsigned long long) rets);
	int reg_after = VP_PEEK(registry_count)();
	if (reg_after != reg_before)
		vp_violation("registry-census-mismatch",
			     "cfg=%s registry holds %d entries after all workers left, %d before they started",
			     cfgname, reg_after, reg_before);
	if (!vp_eps)
		vp_inconclusive("tsc-calibration-failed: interval oracle skipped");
	else {
		/* a handler that arrives while another one is still entering may be logged on the same
		 * depth stream out of order: sort the streams by begin stamp */
		for (int i = 0; i < nthr; i++)
			for (int d = 0; d <= MAXD; d++)
				if (thr[i].secs[d].n > 1)
					qsort(thr[i].secs[d].v, thr[i].secs[d].n, sizeof(struct sec), sec_cmp);
		for (int i = 0; i < nthr; i++)
			check_waits(&thr[i].waits, "thread", i);
		check_waits(&crcu_waits, "call_rcu-helper", 0);
	}
#if !(VP_ASAN || VP_TSAN)
	vp_quar_drain(&quar);
#endif
	report();
	vp_counter_add("gp_calls", calls);
	vp_counter_add("call_rcu_callbacks", crcu_waits.n);
	vp_counter_add("gp_interval_evaluations", iv_evals);
	vp_counter_add("gp_interval_with_open_section", iv_nontrivial);
	vp_counter_add("gp_interval_pairs", iv_pairs);
#if VP_IS_BP
	vp_counter_add("bp_episodes", ep_done);
	vp_counter_add("bp_episode_first_lock_traps", ep_first_lock_traps);
	vp_counter_set("bp_first_lock_traps_to_sigblock_max", VP_LOAD(bpreg_span_max));
	vp_counter_set("bp_first_lock_traps_to_sigblock_last", VP_LOAD(bpreg_span_last));
	vp_counter_add("bp_first_lock_handler_aimed_at_last_70_instructions", bpreg_tail_aimed);
	vp_counter_set("bp_register_entry_to_sigblock_traps_min", VP_LOAD(bpreg_in_fn_span_max));
	vp_counter_add("bp_first_lock_handler_aimed_inside_urcu_bp_register", bpreg_in_fn_aimed);
	vp_counter_add("bp_episode_total_traps", ep_exit_traps);
	vp_counter_add("bp_episode_registered_by_async_handler", ep_handler_registered);
	vp_counter_add("bp_episode_first_operation_is_synchronize_rcu", ep_sync_first);
	vp_counter_add("bp_episode_late_tls_destructor_sections", late_dtor_runs);
	vp_counter_add("bp_episode_late_tls_destructor_after_library_unregistered_the_thread", late_dtor_after_bp_unregister);
	vp_counter_add("bp_episode_late_tls_destructor_handler_sections", late_dtor_handler_runs);
	vp_counter_add("bp_episode_sync_first_with_signals_during_the_call", ep_sync_first_pending_seen);
#endif
	if (opt_step && thr[0].traps_total == 0 && !vp_nviolations()) {
		fprintf(stderr, "sigrd: single-stepping produced no trap\n");
		(void) vp_finish();
		return 2;
	}
	return vp_finish();
}

#endif /* !VP_IS_QSBR */
