/*
 * rculist.c - C18: RCU lists (cds_list_*_rcu, cds_hlist_*_rcu) under concurrent traversal.
 *
 * Two updater threads alternate under a mutex (one updater at a time) and apply random
 * cds_list_add_rcu / add_tail_rcu / del_rcu / replace_rcu and cds_hlist_add_head_rcu /
 * del_rcu to one cds_list and one cds_hlist of 0..12 nodes.  Reader threads traverse them
 * inside read-side sections with every iteration macro, with heavy-tailed per-step delays
 * (they sit ON a node while it is removed / replaced).
 *
 * Recording
 *   updater: per update k of a list kind: call stamp (ts_before, right before the
 *            primitive), ret stamp, `vis` stamp (taken after the pthread_mutex_unlock that
 *            ends the batch: the locked instruction drained the store buffer, so every
 *            store of the update is globally visible by then) and the resulting list
 *            content V_k (id sequence).  V_k is the list content from some instant in
 *            [call_k, vis_k] until some instant in [call_k+1, vis_k+1].
 *   reader:  per traversal [s, e] stamps, and per visited node {t_in, t_out, id, flags}
 *            (t_in: after the pointer to the node was loaded; t_out: before the load of
 *            its forward pointer).
 * The run is cut in rounds; at the end of a round every reader checks its own log against
 * the (then read-only) version log:  versions lo..hi = those that may have been current at
 * some instant of [s, e] (margin vp_eps):
 *   (a) step bound (enforced online)       (b) no id twice
 *   (c) visited id in some V_lo..V_hi       (d) id in all V_lo..V_hi is visited
 *   (e) visit order == order in every V_lo..V_hi that holds both nodes
 *   (f) payload checksum / state / self pointer of every visited node (online)
 * Window exploration: plain / asan builds run 1 update in --step (16) with the primitive
 * single-stepped (EFLAGS.TF; the SIGTRAP handler delays after every instruction), so readers
 * see every intermediate state of a primitive; the tsan build decides publication order in
 * the C11 model instead (see TSO_UNLINK_* for the one place where that model is stricter
 * than x86-TSO on the unchanged library).
 * Retired nodes: synchronize_rcu(), then poison + quarantine (plain) or free() (asan/tsan).
 * Node payload is written with plain stores before publication and read with plain loads,
 * so that TSan reports a missing publication barrier.
 */
#include "vp.h"
#include "vp_flavor.h"
#include <urcu/rculist.h>
#include <urcu/rcuhlist.h>

#define MAXN 12
#define MAX_READERS 8
#define STEP_SLACK 8

#define ST_LIVE   0x4c495645ULL
#define ST_POISON 0xdeadbeefdeadbeefULL

enum { K_LIST = 0, K_HLIST = 1, K_NR };
static const char *kind_name[K_NR] = { "list", "hlist" };

enum { M_LIST_EACH, M_LIST_ENTRY, M_HL_EACH, M_HL_ENTRY, M_HL_ENTRY2, M_NR };
static const char *macro_name[M_NR] = {
	"cds_list_for_each_rcu", "cds_list_for_each_entry_rcu",
	"cds_hlist_for_each_rcu", "cds_hlist_for_each_entry_rcu", "cds_hlist_for_each_entry_rcu_2",
};
static const int macro_kind[M_NR] = { K_LIST, K_LIST, K_HLIST, K_HLIST, K_HLIST };

enum { OP_INIT, OP_ADD, OP_ADD_TAIL, OP_DEL, OP_REPLACE, OP_HADD, OP_HDEL, OP_NR };
static const char *op_name[OP_NR] = { "init", "add", "add_tail", "del", "replace", "hadd_head", "hdel" };
static const char op_char[OP_NR] = { 'i', 'a', 't', 'd', 'r', 'h', 'x' };

/*
 * cds_hlist_for_each_entry_rcu() (the 4-argument form) evaluates
 * cds_hlist_entry(NULL, ...) when it reaches the end of the list; with a non-zero member
 * offset UBSan (pointer-overflow) reports "applying non-zero offset to null pointer" in
 * the library macro.  That is not what C18 states, so the UBSan build keeps the hlist
 * member at offset 0; the other builds keep it at a non-zero offset.
 */
struct node {
#if VP_ASAN
	struct cds_hlist_node hn;
	uint64_t id, gen, sum, state;
	struct node *self;
	struct cds_list_head lh;
#else
	uint64_t id, gen, sum, state;
	struct node *self;
	struct cds_list_head lh;
	struct cds_hlist_node hn;
#endif
	uint64_t pad[2];
};

/*
 * TSan only.  cds_list_del_rcu() / cds_hlist_del_rcu() unlink with a RELAXED store
 * (prev->next = next): a reader may reach the successor node through that store alone.
 * On x86-TSO (the platform C18 is stated for) the successor's initialisation is ordered
 * before it by program order of the updater's stores; in the C11 model TSan implements it
 * is not, and TSan reports a race between the successor's initialisation and the reader's
 * payload loads on the UNCHANGED library.  The harness therefore models exactly this TSO
 * store ordering: the updater does a release store to `tso_unlink_order` right before
 * every del primitive, readers load it with acquire when they arrive on a node.  Nodes
 * published after the latest del are not covered by it, so a publication primitive that
 * lost its release barrier (or an iteration macro that lost its rcu_dereference) is still
 * reported on the first reader that reaches a new node before the next del.
 */
#if VP_TSAN
static uint64_t tso_unlink_order;
#define TSO_UNLINK_RELEASE() __atomic_store_n(&tso_unlink_order, tso_unlink_order + 1, __ATOMIC_RELEASE)
#define TSO_UNLINK_ACQUIRE() ((void) __atomic_load_n(&tso_unlink_order, __ATOMIC_ACQUIRE))
#else
#define TSO_UNLINK_RELEASE() do { } while (0)
#define TSO_UNLINK_ACQUIRE() do { } while (0)
#endif

static inline uint64_t node_sum(uint64_t id, uint64_t gen)
{
	return (id * 0x9e3779b97f4a7c15ULL) ^ (gen + 0x3333) ^ 0x5a5a5a5a5a5a5a5aULL;
}

/* ------------------------------------------------------------------ shared state */

static CDS_LIST_HEAD(lhead);
static struct cds_hlist_head hhead;

/* updater-side shadow (protected by upd_mutex) */
static struct node *cur[K_NR][MAXN];
static int ncur[K_NR];
static uint32_t next_id = 1;

struct ver {
	uint64_t call, ret, vis;
	uint32_t ids[MAXN];
	uint32_t subj;		/* id removed / replaced (del, replace, hdel) or added */
	uint8_t n, op;
};
static struct ver *ver[K_NR];
static int nver[K_NR];
static size_t capver;
static uint64_t upd_count[K_NR];	/* VP_STORE before each primitive; online step bound only */

static pthread_mutex_t upd_mutex = PTHREAD_MUTEX_INITIALIZER;
static pthread_cond_t upd_cond = PTHREAD_COND_INITIALIZER;
static int turn;
static int upd_busy[2];			/* under mutex: updater is in synchronize_rcu() */
static long round_upd_done;		/* under mutex */
static long round_updates;
static int round_pace;			/* 0 fast .. 2 slow, chosen per round */

static int round_stop, finish;
static struct vp_barrier bar;
static struct vp_quar quar;

static int n_readers;
static const char *cfgname;
static int opt_delay;			/* 0: never delay, 1: mixed (default) */
static int opt_prefill;

/* ------------------------------------------------------------------ nodes */

static void node_release(void *p)
{
	struct node *o = p;
	if (o->state != ST_POISON || o->self != VP_POISON_PTR || o->sum != ~node_sum(o->id, o->gen))
		vp_violation("rculist:late-write-to-retired-node",
			     "cfg=%s node id=%llu modified while in quarantine (state=%llx)", cfgname,
			     (unsigned long long) o->id, (unsigned long long) o->state);
	free(o);
}

static struct node *node_new(struct vp_rng *r)
{
	struct node *o = malloc(sizeof(*o));
	if (!o)
		abort();
	/* PLAIN stores: only the publication barrier of the list primitive orders them */
	o->id = next_id++;
	o->gen = o->id ^ 0x77 ^ (vp_rand(r) << 32);
	o->sum = node_sum(o->id, o->gen);
	o->self = o;
	o->state = ST_LIVE;
	/* what an application leaves in the link fields of a fresh node: an initialised
	 * (self-pointing) list head / NULL.  A primitive that publishes the node before it
	 * linked it exposes these to readers. */
	if (opt_prefill) {
		CDS_INIT_LIST_HEAD(&o->lh);
		if (vp_rand_n(r, 2)) {
			o->hn.next = &o->hn;
			o->hn.prev = &o->hn;
		} else {
			o->hn.next = NULL;
			o->hn.prev = NULL;
		}
	}
	return o;
}

static void node_retire(struct node *o)
{
#if VP_ASAN || VP_TSAN
	/* plain write: race-free only thanks to the grace period */
	o->state = ST_POISON;
	free(o);
#else
	o->state = ST_POISON;
	o->self = VP_POISON_PTR;
	o->sum = ~o->sum;
	vp_quar_put(&quar, o);
#endif
}

/* ------------------------------------------------------------------ reader */

#define SF_BAD      1u	/* checksum / self / state garbage */
#define SF_POISON   2u	/* state == POISON on arrival */
#define SF_CHANGED  4u	/* state changed while the reader sat on the node */

struct step { uint64_t t_in, t_out; uint32_t id, flags; };
struct trav { uint64_t s, e; uint32_t first, nsteps; uint8_t kind, macro, aborted, dmode, truncated; };

struct rthr {
	pthread_t tid;
	int idx;
	struct vp_rng rng;
	struct step *steps; size_t nstep, capstep;
	struct trav *travs; size_t ntrav, captrav;
	/* evidence */
	uint64_t evaluations, nontrivial, on_removed, on_removed_events, steps_total, truncated;
	uint64_t max_window, empty_trav, long_trav, per_macro[M_NR], aborted;
	uint64_t v_dup, v_nonmember, v_missed, v_order;
	int samples;
	char pad[64];
} rthr[MAX_READERS];

static void report_payload(struct rthr *t, int macro, struct node *n, uint32_t fl,
			   uint64_t id, uint64_t st, uint64_t sum, struct node *self)
{
	(void) t;
	if (fl & (SF_POISON | SF_CHANGED))
		vp_violation("rculist:poisoned-node-visited",
			     "cfg=%s %s: node %p id=%llu state=%llx%s inside a read-side traversal (retired node reached / retired while the reader sat on it)",
			     cfgname, macro_name[macro], (void *) n, (unsigned long long) id,
			     (unsigned long long) st, (fl & SF_CHANGED) ? " (changed during the visit)" : "");
	else {
		char key[96];
		snprintf(key, sizeof(key), "rculist:bad-payload:%s", macro_name[macro]);
		vp_violation(key, "cfg=%s %s: node %p id=%llu state=%llx sum=%llx self=%p: contents not fully initialised / corrupted",
			     cfgname, macro_name[macro], (void *) n, (unsigned long long) id,
			     (unsigned long long) st, (unsigned long long) sum, (void *) self);
	}
}

static inline void reader_step(struct rthr *t, struct trav *tr, struct node *n)
{
	uint64_t t_in = ts_after();
	TSO_UNLINK_ACQUIRE();
	/* PLAIN loads of the payload */
	uint64_t id = n->id, gen = n->gen, sum = n->sum, st = n->state;
	struct node *self = n->self;
	uint32_t fl = 0;

	if (st == ST_POISON)
		fl |= SF_POISON;
	else if (st != ST_LIVE || sum != node_sum(id, gen) || self != n)
		fl |= SF_BAD;
	if (tr->dmode == 2 || (tr->dmode == 1 && vp_rand_n(&t->rng, 3) == 0)) {
		vp_delay_heavy(&t->rng);
		uint64_t st2 = n->state;
		if (st2 != st)
			fl |= SF_CHANGED;
	}
	uint64_t t_out = ts_before();
	if (t->nstep < t->capstep) {
		struct step *s = &t->steps[t->nstep++];
		s->t_in = t_in;
		s->t_out = t_out;
		s->id = (uint32_t) id;
		s->flags = fl;
		tr->nsteps++;
	} else
		tr->truncated = 1;
	if (__builtin_expect(fl != 0, 0))
		report_payload(t, tr->macro, n, fl, id, st, sum, self);
}

#define STEP(np)									\
	do {										\
		if (++nsteps > MAXN + STEP_SLACK + (VP_LOAD(upd_count[kind]) - u0)) {	\
			tr->aborted = 1;						\
			goto out;							\
		}									\
		reader_step(t, tr, (np));						\
	} while (0)

static void traverse(struct rthr *t, int macro, int dmode)
{
	struct trav *tr = &t->travs[t->ntrav];
	int kind = macro_kind[macro];
	uint64_t nsteps = 0;

	tr->kind = (uint8_t) kind;
	tr->macro = (uint8_t) macro;
	tr->dmode = (uint8_t) dmode;
	tr->aborted = 0;
	tr->truncated = 0;
	tr->first = (uint32_t) t->nstep;
	tr->nsteps = 0;
	uint64_t u0 = VP_LOAD(upd_count[kind]);

	rcu_read_lock();
	tr->s = ts_before();
	switch (macro) {
	case M_LIST_EACH: {
		struct cds_list_head *pos;
		cds_list_for_each_rcu(pos, &lhead)
			STEP(cds_list_entry(pos, struct node, lh));
		break;
	}
	case M_LIST_ENTRY: {
		struct node *n;
		cds_list_for_each_entry_rcu(n, &lhead, lh)
			STEP(n);
		break;
	}
	case M_HL_EACH: {
		struct cds_hlist_node *pos;
		cds_hlist_for_each_rcu(pos, &hhead)
			STEP(cds_hlist_entry(pos, struct node, hn));
		break;
	}
	case M_HL_ENTRY: {
		struct cds_hlist_node *pos;
		struct node *n;
		cds_hlist_for_each_entry_rcu(n, pos, &hhead, hn)
			STEP(n);
		break;
	}
	case M_HL_ENTRY2: {
		struct node *n;
		cds_hlist_for_each_entry_rcu_2(n, &hhead, hn)
			STEP(n);
		break;
	}
	}
out:
	tr->e = ts_after();
	rcu_read_unlock();
	t->ntrav++;
	if (tr->aborted) {
		char key[96];
		t->aborted++;
		snprintf(key, sizeof(key), "rculist:traversal-did-not-terminate:%s", macro_name[macro]);
		vp_violation(key, "cfg=%s %s over the %s exceeded the step bound (%d nodes + %llu updates during it + %d): %llu steps; last ids %u %u %u %u",
			     cfgname, macro_name[macro], kind_name[kind], MAXN,
			     (unsigned long long) (VP_LOAD(upd_count[kind]) - u0), STEP_SLACK,
			     (unsigned long long) nsteps,
			     tr->nsteps > 3 ? t->steps[tr->first + tr->nsteps - 4].id : 0,
			     tr->nsteps > 2 ? t->steps[tr->first + tr->nsteps - 3].id : 0,
			     tr->nsteps > 1 ? t->steps[tr->first + tr->nsteps - 2].id : 0,
			     tr->nsteps > 0 ? t->steps[tr->first + tr->nsteps - 1].id : 0);
	}
}

/* ------------------------------------------------------------------ oracle (per round, per reader) */

static void window(int kind, uint64_t s, uint64_t e, int *lo, int *hi)
{
	struct ver *v = ver[kind];
	int n = nver[kind], a, b;

	if (!vp_eps) {
		*lo = 0;
		*hi = n - 1;
		return;
	}
	/* hi = last k with call_k <= e + eps (v[0].call == 0) */
	a = 0; b = n;
	while (a < b) {
		int m = (a + b) / 2;
		if (v[m].call <= e + vp_eps)
			a = m + 1;
		else
			b = m;
	}
	*hi = a - 1;
	/* lo = first k such that V_k may still have been current at s: k is the last
	 * version, or update k+1 was not surely visible before s */
	a = 1; b = n;
	while (a < b) {
		int m = (a + b) / 2;
		if (v[m].vis + vp_eps >= s)
			b = m;
		else
			a = m + 1;
	}
	*lo = a - 1;
	if (*lo > *hi)
		*lo = *hi;
}

static inline int ver_pos(const struct ver *v, uint32_t id)
{
	for (int i = 0; i < v->n; i++)
		if (v->ids[i] == id)
			return i;
	return -1;
}

static size_t fmt_ids(char *buf, size_t len, const uint32_t *ids, int n)
{
	size_t o = 0;
	o += snprintf(buf + o, len > o ? len - o : 0, "[");
	for (int i = 0; i < n && o + 16 < len; i++)
		o += snprintf(buf + o, len - o, "%s%u", i ? " " : "", ids[i]);
	if (o + 2 < len)
		o += snprintf(buf + o, len - o, "]");
	return o;
}

static void describe(char *buf, size_t len, struct rthr *t, struct trav *tr, int lo, int hi, int maxver)
{
	size_t o = 0;
	struct ver *v = ver[tr->kind];
	o += snprintf(buf + o, len - o, "cfg=%s reader %d %s [s=%llu e=%llu len=%lluns eps=%llu] visited=[",
		      cfgname, t->idx, macro_name[tr->macro], (unsigned long long) tr->s,
		      (unsigned long long) tr->e,
		      (unsigned long long) ((tr->e - tr->s) / (vp_tsc_ghz > 0 ? vp_tsc_ghz : 1)),
		      (unsigned long long) vp_eps);
	for (uint32_t i = 0; i < tr->nsteps && o + 40 < len; i++)
		o += snprintf(buf + o, len - o, "%s%u", i ? " " : "", t->steps[tr->first + i].id);
	if (o + 40 < len)
		o += snprintf(buf + o, len - o, "] versions %d..%d:", lo, hi);
	for (int k = lo; k <= hi && k < lo + maxver && o + 120 < len; k++) {
		o += snprintf(buf + o, len - o, " V%d(%s %u)=", k, op_name[v[k].op], v[k].subj);
		o += fmt_ids(buf + o, len - o, v[k].ids, v[k].n);
	}
	if (hi - lo + 1 > maxver && o + 8 < len)
		snprintf(buf + o, len - o, " ...");
}

static void witness(struct rthr *t, struct trav *tr, int lo, int hi, const char *what, char *path, size_t plen)
{
	FILE *f = vp_witness_open("rculist", path, plen);
	struct ver *v = ver[tr->kind];
	if (!f)
		return;
	fprintf(f, "%s\ncfg=%s eps=%llu reader=%d kind=%s macro=%s delay-mode=%d\ntraversal s=%llu e=%llu\n",
		what, cfgname, (unsigned long long) vp_eps, t->idx, kind_name[tr->kind],
		macro_name[tr->macro], tr->dmode, (unsigned long long) tr->s, (unsigned long long) tr->e);
	for (uint32_t i = 0; i < tr->nsteps; i++) {
		struct step *s = &t->steps[tr->first + i];
		fprintf(f, "  visit id=%u t_in=%llu t_out=%llu flags=%x\n", s->id,
			(unsigned long long) s->t_in, (unsigned long long) s->t_out, s->flags);
	}
	for (int k = lo; k <= hi; k++) {
		char b[256];
		fmt_ids(b, sizeof(b), v[k].ids, v[k].n);
		fprintf(f, "  V%d op=%s subj=%u call=%llu ret=%llu vis=%llu content=%s\n", k, op_name[v[k].op],
			v[k].subj, (unsigned long long) v[k].call, (unsigned long long) v[k].ret,
			(unsigned long long) v[k].vis, b);
	}
	fclose(f);
}

static int len_bucket(int n)
{
	return n == 0 ? 0 : n <= 3 ? 1 : n <= 8 ? 2 : 3;
}

static pthread_mutex_t sample_lock = PTHREAD_MUTEX_INITIALIZER;

static void check_trav(struct rthr *t, struct trav *tr)
{
	int lo, hi, kind = tr->kind;
	struct ver *v = ver[kind];
	struct step *st = &t->steps[tr->first];
	uint32_t nv = tr->nsteps;
	char key[112], msg[900], path[400] = "";

	if (tr->truncated) {
		t->truncated++;
		return;
	}
	window(kind, tr->s, tr->e, &lo, &hi);
	t->evaluations++;
	t->per_macro[tr->macro]++;
	t->steps_total += nv;
	if ((uint64_t) (hi - lo) > t->max_window)
		t->max_window = (uint64_t) (hi - lo);
	if (nv == 0)
		t->empty_trav++;
	if (tr->aborted)
		return;		/* reported online */

	/* (b) no id twice */
	int dup = 0;
	for (uint32_t i = 1; i < nv && !dup; i++)
		for (uint32_t j = 0; j < i; j++)
			if (st[i].id == st[j].id) {
				dup = 1;
				t->v_dup++;
				snprintf(key, sizeof(key), "rculist:visited-twice:%s", macro_name[tr->macro]);
				describe(msg, sizeof(msg), t, tr, lo, hi, 6);
				witness(t, tr, lo, hi, key, path, sizeof(path));
				vp_violation(key, "node id=%u visited twice (steps %u and %u); %s witness=%s",
					     st[i].id, j, i, msg, path);
				break;
			}
	/* (c) every visited id is in some overlapping version */
	for (uint32_t i = 0; i < nv; i++) {
		int found = 0;
		if (st[i].flags & (SF_BAD | SF_POISON))
			continue;	/* id field itself is not trustworthy; reported online */
		for (int k = lo; k <= hi && !found; k++)
			found = ver_pos(&v[k], st[i].id) >= 0;
		if (!found) {
			t->v_nonmember++;
			snprintf(key, sizeof(key), "rculist:visited-nonmember:%s", macro_name[tr->macro]);
			describe(msg, sizeof(msg), t, tr, lo, hi, 6);
			witness(t, tr, lo, hi, key, path, sizeof(path));
			vp_violation(key, "node id=%u visited but in no version of the %s current during the traversal; %s witness=%s",
				     st[i].id, kind_name[kind], msg, path);
			break;
		}
	}
	/* (d) every id that is in ALL overlapping versions is visited */
	for (int i = 0; i < v[lo].n; i++) {
		uint32_t id = v[lo].ids[i];
		int all = 1, seen = 0;
		for (int k = lo + 1; k <= hi && all; k++)
			all = ver_pos(&v[k], id) >= 0;
		if (!all)
			continue;
		for (uint32_t j = 0; j < nv && !seen; j++)
			seen = st[j].id == id;
		if (!seen) {
			t->v_missed++;
			snprintf(key, sizeof(key), "rculist:missed-resident-node:%s", kind_name[kind]);
			describe(msg, sizeof(msg), t, tr, lo, hi, 6);
			witness(t, tr, lo, hi, key, path, sizeof(path));
			vp_violation(key, "node id=%u was in the %s during the whole traversal but was not visited; %s witness=%s",
				     id, kind_name[kind], msg, path);
			break;
		}
	}
	/* (e) relative order */
	if (!dup) {
		int bad = 0;
		for (int k = lo; k <= hi && !bad; k++) {
			int last = -1;
			uint32_t last_id = 0;
			for (uint32_t i = 0; i < nv; i++) {
				int p = ver_pos(&v[k], st[i].id);
				if (p < 0)
					continue;
				if (p <= last) {
					bad = 1;
					t->v_order++;
					snprintf(key, sizeof(key), "rculist:order-violated:%s", macro_name[tr->macro]);
					describe(msg, sizeof(msg), t, tr, lo, hi, 6);
					witness(t, tr, lo, hi, key, path, sizeof(path));
					vp_violation(key, "node id=%u visited before id=%u but V%d has them in the opposite order; %s witness=%s",
						     last_id, st[i].id, k, msg, path);
					break;
				}
				last = p;
				last_id = st[i].id;
			}
		}
	}

	/* evidence */
	int during = 0, on_rm = 0;
	unsigned opc[OP_NR] = { 0 };
	for (int k = lo + 1; k <= hi; k++) {
		opc[v[k].op]++;
		if (!vp_eps)
			continue;
		if (tr->s + vp_eps < v[k].call && v[k].vis + vp_eps < tr->e)
			during++;
		if (v[k].op == OP_DEL || v[k].op == OP_REPLACE || v[k].op == OP_HDEL) {
			for (uint32_t i = 0; i < nv; i++)
				if (st[i].id == v[k].subj && st[i].t_in + vp_eps < v[k].call &&
				    v[k].vis + vp_eps < st[i].t_out) {
					on_rm++;
					break;
				}
		}
	}
	if (during || (!vp_eps && hi > lo)) {
		char ops[64];
		size_t o = 0;
		t->nontrivial++;
		for (int op = 1; op < OP_NR; op++)
			if (opc[op])
				o += snprintf(ops + o, sizeof(ops) - o, "%c%s", op_char[op],
					      opc[op] == 1 ? "1" : "2+");
		ops[o] = 0;
		vp_sig_add("%s:%s:ops=%s:len%d", kind_name[kind], macro_name[tr->macro], ops,
			   len_bucket(v[lo].n));
	}
	if (on_rm) {
		t->on_removed++;
		t->on_removed_events += on_rm;
		vp_sig_add("%s:%s:reader-on-removed-node:len%d", kind_name[kind], macro_name[tr->macro],
			   len_bucket(v[lo].n));
	}
	if (hi - lo > 64)
		t->long_trav++;
	if ((on_rm && t->samples < 2) || (during && t->samples < 1 && hi - lo <= 4)) {
		char buf[1500];
		t->samples++;
		describe(buf, sizeof(buf), t, tr, lo, hi, 8);
		/* vp_sample_add() reads its counter outside its lock (TSan reports that when two
		 * threads add samples concurrently): serialise our calls */
		pthread_mutex_lock(&sample_lock);
		vp_sample_add("%s; updates surely during the traversal=%d, reader sat on a node while it was removed/replaced=%d",
			      buf, during, on_rm);
		pthread_mutex_unlock(&sample_lock);
	}
}

static void check_round(struct rthr *t)
{
	for (size_t i = 0; i < t->ntrav; i++)
		check_trav(t, &t->travs[i]);
	t->ntrav = 0;
	t->nstep = 0;
}

static void *reader_main(void *arg)
{
	struct rthr *t = arg;
	struct vp_thr *vt;

	vp_pin(t->idx);
	vt = vp_self();
	rcu_register_thread();
	vp_rcu_offline();
	for (;;) {
		vp_barrier_wait(&bar);			/* A: round start */
		if (VP_LOAD(finish))
			break;
		vp_rcu_online();
		while (!VP_LOAD(round_stop)) {
			if (t->ntrav >= t->captrav || t->nstep + 65536 > t->capstep) {
				VP_STORE(round_stop, 1);
				break;
			}
			int macro = (int) vp_rand_n(&t->rng, M_NR);
			int dmode = 0;
			if (opt_delay) {
				uint32_t x = vp_rand_n(&t->rng, 100);
				dmode = x < 35 ? 0 : x < 75 ? 1 : 2;
			}
			traverse(t, macro, dmode);
			vp_rcu_qs();
			VP_STORE(vt->progress, vt->progress + 1);
			if (vp_rand_n(&t->rng, 16) == 0)
				vp_spin_cycles(vp_rand_n(&t->rng, 4000));
		}
		vp_rcu_offline();
		vp_barrier_wait(&bar);			/* B: everybody stopped */
		vp_barrier_wait(&bar);			/* B2: version log final and read-only */
		check_round(t);
		VP_STORE(vt->progress, vt->progress + 1);
		vp_barrier_wait(&bar);			/* C: checks done */
	}
	vp_rcu_online();
	rcu_unregister_thread();
	return NULL;
}

/* ------------------------------------------------------------------ single-stepping of the update primitives */

/*
 * Non-TSan builds: a fraction of the updates executes the list primitive with EFLAGS.TF
 * set.  The SIGTRAP handler runs after EVERY instruction of the primitive and delays the
 * updater there (signal delivery drains the store buffer), so readers get to traverse the
 * list in each intermediate state between two consecutive stores of the primitive - the
 * one- or two-instruction windows that free-running threads practically never hit.
 */
#if !VP_TSAN
#define HAVE_STEPPING 1
struct stepper { struct vp_rng rng; uint64_t traps; int active; };
static __thread struct stepper *my_stepper;

static void trap_handler(int sig, siginfo_t *si, void *uc)
{
	struct stepper *sp = my_stepper;
	int e = errno;
	(void) sig; (void) si; (void) uc;
	if (!sp || !sp->active)
		return;
	sp->traps++;
	uint32_t x = vp_rand_n(&sp->rng, 100);
	if (x < 60)
		vp_spin_cycles(100 + vp_rand_n(&sp->rng, 1500));
	else if (x < 88)
		vp_spin_cycles(1500 + vp_rand_n(&sp->rng, 30000));
	else
		sched_yield();		/* lets a reader that shares this CPU run */
	errno = e;
}

/* skip the red zone before touching the stack */
#define TF_ON()  __asm__ __volatile__("lea -128(%%rsp), %%rsp\n\tpushfq\n\torq $0x100, (%%rsp)\n\tpopfq\n\tlea 128(%%rsp), %%rsp" ::: "memory", "cc")
#define TF_OFF() __asm__ __volatile__("lea -128(%%rsp), %%rsp\n\tpushfq\n\tandq $~0x100, (%%rsp)\n\tpopfq\n\tlea 128(%%rsp), %%rsp" ::: "memory", "cc")
#else
#define HAVE_STEPPING 0
#define TF_ON()  do { } while (0)
#define TF_OFF() do { } while (0)
#endif
static int opt_step;			/* step 1 update in opt_step (0 = never) */

/* ------------------------------------------------------------------ updater */

struct uthr {
	pthread_t tid;
	int idx;
	struct vp_rng rng;
	struct node *pend[64];
	int npend, thresh;
	uint64_t ops[OP_NR], syncs, batches;
	int vk[8], vi[8], nv;		/* version entries of the current batch */
	int target[K_NR];
	uint64_t stepped;
#if HAVE_STEPPING
	struct stepper stp;
#endif
	char pad[64];
} uthr[2];

static struct ver *ver_begin(struct uthr *u, int kind, int op)
{
	struct ver *v = &ver[kind][nver[kind]];
	v->op = (uint8_t) op;
	u->vk[u->nv] = kind;
	u->vi[u->nv] = nver[kind];
	u->nv++;
	VP_STORE(upd_count[kind], upd_count[kind] + 1);
	return v;
}

static void ver_end(struct ver *v, int kind, uint32_t subj)
{
	v->subj = subj;
	v->n = (uint8_t) ncur[kind];
	for (int i = 0; i < ncur[kind]; i++)
		v->ids[i] = (uint32_t) cur[kind][i]->id;
	v->vis = 0;
	nver[kind]++;
}

static void shadow_insert(int kind, int at, struct node *n)
{
	memmove(&cur[kind][at + 1], &cur[kind][at], (size_t) (ncur[kind] - at) * sizeof(cur[0][0]));
	cur[kind][at] = n;
	ncur[kind]++;
}

static struct node *shadow_remove(int kind, int at)
{
	struct node *x = cur[kind][at];
	memmove(&cur[kind][at], &cur[kind][at + 1], (size_t) (ncur[kind] - at - 1) * sizeof(cur[0][0]));
	ncur[kind]--;
	return x;
}

/* An update's stores may still sit in the updater's store buffer when it returns: "returned" is not "visible"
 * on x86-TSO.  The version oracle compares reader traversals with update intervals, so the return stamp must not
 * be earlier than visibility: MFENCE after the primitive, before the stamp.  (The order of the stores INSIDE a
 * primitive - what the property is about - is not affected: TSO keeps it, and the fence comes after them.) */
#define UPD_VISIBLE() __asm__ __volatile__("mfence" ::: "memory")
#if HAVE_STEPPING
#define STEP_BEGIN() do { if (step) { u->stp.active = 1; TF_ON(); } } while (0)
#define STEP_END()   do { if (step) { TF_OFF(); u->stp.active = 0; } UPD_VISIBLE(); } while (0)
#else
#define STEP_BEGIN() do { } while (0)
#define STEP_END()   do { UPD_VISIBLE(); } while (0)
#endif

/* one update; called with upd_mutex held */
static void do_update(struct uthr *u)
{
	int step = HAVE_STEPPING && opt_step && vp_rand_n(&u->rng, (uint32_t) opt_step) == 0;

	int kind = vp_rand_n(&u->rng, 100) < 60 ? K_LIST : K_HLIST;
	int n = ncur[kind], op;
	struct node *nn = NULL, *x = NULL;
	struct ver *v;

	if (vp_rand_n(&u->rng, 48) == 0)
		u->target[kind] = (int) vp_rand_n(&u->rng, MAXN + 1);
	int grow;
	if (n == 0)
		grow = 1;
	else if (n == MAXN)
		grow = 0;
	else
		grow = vp_rand_n(&u->rng, 100) < (n < u->target[kind] ? 75u : n > u->target[kind] ? 25u : 50u);

	if (kind == K_LIST) {
		uint32_t x100 = vp_rand_n(&u->rng, 100);
		if (n > 0 && x100 < 25)
			op = OP_REPLACE;
		else if (grow)
			op = vp_rand_n(&u->rng, 2) ? OP_ADD : OP_ADD_TAIL;
		else
			op = OP_DEL;
	} else
		op = grow ? OP_HADD : OP_HDEL;

	if (op == OP_ADD || op == OP_ADD_TAIL || op == OP_REPLACE || op == OP_HADD)
		nn = node_new(&u->rng);
	int at = n ? (int) vp_rand_n(&u->rng, (uint32_t) n) : 0;

	v = ver_begin(u, kind, op);
	switch (op) {
	case OP_ADD:
		v->call = ts_before();
		STEP_BEGIN();
		cds_list_add_rcu(&nn->lh, &lhead);
		STEP_END();
		v->ret = ts_after();
		shadow_insert(kind, 0, nn);
		break;
	case OP_ADD_TAIL:
		v->call = ts_before();
		STEP_BEGIN();
		cds_list_add_tail_rcu(&nn->lh, &lhead);
		STEP_END();
		v->ret = ts_after();
		shadow_insert(kind, n, nn);
		break;
	case OP_DEL:
		x = cur[kind][at];
		TSO_UNLINK_RELEASE();
		v->call = ts_before();
		STEP_BEGIN();
		cds_list_del_rcu(&x->lh);
		STEP_END();
		v->ret = ts_after();
		shadow_remove(kind, at);
		break;
	case OP_REPLACE:
		x = cur[kind][at];
		v->call = ts_before();
		STEP_BEGIN();
		cds_list_replace_rcu(&x->lh, &nn->lh);
		STEP_END();
		v->ret = ts_after();
		cur[kind][at] = nn;
		break;
	case OP_HADD:
		v->call = ts_before();
		STEP_BEGIN();
		cds_hlist_add_head_rcu(&nn->hn, &hhead);
		STEP_END();
		v->ret = ts_after();
		shadow_insert(kind, 0, nn);
		break;
	case OP_HDEL:
		x = cur[kind][at];
		TSO_UNLINK_RELEASE();
		v->call = ts_before();
		STEP_BEGIN();
		cds_hlist_del_rcu(&x->hn);
		STEP_END();
		v->ret = ts_after();
		shadow_remove(kind, at);
		break;
	}
	ver_end(v, kind, (uint32_t) (x ? x->id : nn->id));
	if (x)
		u->pend[u->npend++] = x;
	u->ops[op]++;
	u->stepped += (uint64_t) step;
	round_upd_done++;
}

static void retire_pending(struct uthr *u)
{
	if (!u->npend)
		return;
	synchronize_rcu();
	u->syncs++;
	for (int i = 0; i < u->npend; i++)
		node_retire(u->pend[i]);
	u->npend = 0;
	u->thresh = 1 + (int) vp_rand_n(&u->rng, 12);
}

static double t_budget_s;
static long max_rounds;
static uint64_t t_start_ns;
static long rounds_done;

static void *updater_main(void *arg)
{
	struct uthr *u = arg;
	struct vp_thr *vt;
	int me = u->idx;

	vp_pin(n_readers + u->idx);
	vt = vp_self();
	u->thresh = 1;
#if HAVE_STEPPING
	vp_rng_init(&u->stp.rng, vp_opt.seed, 0x57e9, (uint64_t) u->idx);
	my_stepper = &u->stp;
#endif
	for (;;) {
		if (me == 0) {
			/* round set-up: only this thread runs between barrier C and barrier A */
			for (int k = 0; k < K_NR; k++) {
				struct ver *v0 = &ver[k][0];
				memset(v0, 0, sizeof(*v0));
				v0->op = OP_INIT;
				v0->n = (uint8_t) ncur[k];
				for (int i = 0; i < ncur[k]; i++)
					v0->ids[i] = (uint32_t) cur[k][i]->id;
				nver[k] = 1;
			}
			round_upd_done = 0;
			round_pace = (int) vp_rand_n(&u->rng, 3);
			turn = (int) vp_rand_n(&u->rng, 2);
			VP_STORE(round_stop, 0);
			if (rounds_done >= max_rounds ||
			    (double) (vp_now_ns() - t_start_ns) / 1e9 >= t_budget_s || vp_nviolations() > 0)
				VP_STORE(finish, 1);
		}
		vp_barrier_wait(&bar);			/* A */
		if (VP_LOAD(finish))
			break;
		for (;;) {
			pthread_mutex_lock(&upd_mutex);
			/* strict alternation, except that an updater does not wait for a
			 * partner that is blocked in synchronize_rcu() */
			while (turn != me && !upd_busy[!me])
				pthread_cond_wait(&upd_cond, &upd_mutex);
			if (VP_LOAD(round_stop) || round_upd_done >= round_updates) {
				VP_STORE(round_stop, 1);
				turn = !me;
				pthread_cond_broadcast(&upd_cond);
				pthread_mutex_unlock(&upd_mutex);
				break;
			}
			int nb = 1 + (vp_rand_n(&u->rng, 3) ? 0 : (int) vp_rand_n(&u->rng, 4));
			u->nv = 0;
			for (int i = 0; i < nb && u->npend < 60; i++) {
				do_update(u);
				if (i + 1 < nb) {
					uint32_t x = vp_rand_n(&u->rng, 100);
					if (x < 40)
						vp_spin_cycles(vp_rand_n(&u->rng, 1500));
					else if (x < 50)
						vp_spin_cycles(vp_rand_n(&u->rng, 20000));
				}
			}
			u->batches++;
			turn = !me;
			pthread_cond_broadcast(&upd_cond);
			pthread_mutex_unlock(&upd_mutex);
			/* the unlock is a locked instruction: all stores of the batch are globally
			 * visible now.  These entries are not touched by the other updater. */
			uint64_t vis = ts_after();
			for (int i = 0; i < u->nv; i++)
				ver[u->vk[i]][u->vi[i]].vis = vis;
			if (u->npend >= u->thresh) {
				pthread_mutex_lock(&upd_mutex);
				upd_busy[me] = 1;
				pthread_cond_broadcast(&upd_cond);
				pthread_mutex_unlock(&upd_mutex);
				retire_pending(u);
				pthread_mutex_lock(&upd_mutex);
				upd_busy[me] = 0;
				pthread_mutex_unlock(&upd_mutex);
			}
			VP_STORE(vt->progress, vt->progress + 1);
			uint32_t x = vp_rand_n(&u->rng, 100);
			uint32_t base = round_pace == 0 ? 1500 : round_pace == 1 ? 8000 : 40000;
			if (x < 70)
				vp_spin_cycles(vp_rand_n(&u->rng, base));
			else if (x < 73)
				usleep(vp_rand_n(&u->rng, 60));
		}
		retire_pending(u);
		vp_barrier_wait(&bar);			/* B */
		if (me == 0) {
			/* An updater stamps `vis` after it dropped the mutex, possibly later than
			 * the partner stamped the following batch.  Every store of update k is
			 * visible before a later batch even starts (mutex hand-over), hence
			 * before that batch's vis: the suffix minimum is a sound, monotone bound. */
			for (int k = 0; k < K_NR; k++)
				for (int i = nver[k] - 2; i >= 1; i--)
					if (ver[k][i].vis > ver[k][i + 1].vis)
						ver[k][i].vis = ver[k][i + 1].vis;
		}
		vp_barrier_wait(&bar);			/* B2: version log final */
		/* readers check */
		vp_barrier_wait(&bar);			/* C */
		if (me == 0)
			rounds_done++;
	}
	return NULL;
}

/* ------------------------------------------------------------------ main */

static int confirm_stuck(char *buf, size_t len)
{
	snprintf(buf, len, "hang:rculist:%s:round_stop=%d", cfgname, VP_LOAD(round_stop));
	return 0;	/* traversals are bounded online; anything else stuck is not this property */
}

extern unsigned int vp_tun_qs_attempts, vp_tun_wait_attempts;
extern int vp_tun_bp_sleep_ms;

int main(int argc, char **argv)
{
	vp_init(argc, argv, "rculist_" VP_FLAVOR_NAME);
	cfgname = vp_arg("cfg", VP_FLAVOR_NAME);
	n_readers = (int) vp_arg_long("readers", 2);
	round_updates = vp_arg_long("round-updates", 20000);
	max_rounds = vp_arg_long("rounds", 1000000);
	t_budget_s = vp_arg_double("seconds", 10.0);
	opt_delay = (int) vp_arg_long("reader-delay", 1);
	opt_prefill = (int) vp_arg_long("prefill", 1);
	opt_step = (int) vp_arg_long("step", 16);
#if HAVE_STEPPING
	if (opt_step) {
		struct sigaction sa;
		memset(&sa, 0, sizeof(sa));
		sa.sa_sigaction = trap_handler;
		sa.sa_flags = SA_SIGINFO | SA_RESTART;
		sigemptyset(&sa.sa_mask);
		sigaction(SIGTRAP, &sa, NULL);
	}
#endif
	vp_tun_bp_sleep_ms = (int) vp_arg_long("tun-bp-sleep", 1);
	if (n_readers < 1 || n_readers > MAX_READERS || round_updates < 16)
		return 2;
	t_start_ns = vp_now_ns();

	CDS_INIT_HLIST_HEAD(&hhead);
	vp_quar_init(&quar, 1 << 14, node_release);
	capver = (size_t) round_updates + 64;
	for (int k = 0; k < K_NR; k++) {
		ver[k] = calloc(capver, sizeof(struct ver));
		if (!ver[k])
			return 2;
	}
	vp_barrier_init(&bar, n_readers + 2);
	for (int i = 0; i < n_readers; i++) {
		struct rthr *t = &rthr[i];
		t->idx = i;
		vp_rng_init(&t->rng, vp_opt.seed, 0x1157, (uint64_t) i);
		t->capstep = 1 << 20;
		t->captrav = 1 << 18;
		t->steps = malloc(t->capstep * sizeof(struct step));
		t->travs = malloc(t->captrav * sizeof(struct trav));
		if (!t->steps || !t->travs)
			return 2;
	}
	for (int i = 0; i < 2; i++) {
		uthr[i].idx = i;
		vp_rng_init(&uthr[i].rng, vp_opt.seed, 0x0bd8, (uint64_t) i);
		uthr[i].target[0] = uthr[i].target[1] = 6;
	}
	vp_watchdog_start((uint64_t) vp_arg_long("stall-ms", 30000), confirm_stuck);

	for (int i = 0; i < n_readers; i++)
		pthread_create(&rthr[i].tid, NULL, reader_main, &rthr[i]);
	for (int i = 0; i < 2; i++)
		pthread_create(&uthr[i].tid, NULL, updater_main, &uthr[i]);
	for (int i = 0; i < 2; i++)
		pthread_join(uthr[i].tid, NULL);
	for (int i = 0; i < n_readers; i++)
		pthread_join(rthr[i].tid, NULL);
	vp_watchdog_stop();

	/* tear down: everything still linked is retired after a last grace period */
	synchronize_rcu();
	for (int k = 0; k < K_NR; k++)
		for (int i = 0; i < ncur[k]; i++)
			node_retire(cur[k][i]);
#if !(VP_ASAN || VP_TSAN)
	vp_quar_drain(&quar);
#endif

	uint64_t ev = 0, nt = 0, onr = 0, onre = 0, steps = 0, trunc = 0, maxw = 0, empty = 0, longt = 0, ab = 0;
	for (int i = 0; i < n_readers; i++) {
		struct rthr *t = &rthr[i];
		ev += t->evaluations; nt += t->nontrivial; onr += t->on_removed; onre += t->on_removed_events;
		steps += t->steps_total; trunc += t->truncated; empty += t->empty_trav; longt += t->long_trav;
		ab += t->aborted;
		if (t->max_window > maxw)
			maxw = t->max_window;
		for (int m = 0; m < M_NR; m++) {
			char name[64];
			snprintf(name, sizeof(name), "trav_%s", macro_name[m]);
			vp_counter_add(name, t->per_macro[m]);
		}
	}
	if (opt_delay && vp_eps && rounds_done >= 4 && !onr && !vp_nviolations())
		vp_inconclusive("no reader was ever positioned on a node while it was removed or replaced");
	if (!vp_eps)
		vp_inconclusive("tsc-calibration-failed: interval part of the list oracle used whole-round version windows");
	vp_counter_add("evaluations", ev);
	vp_counter_add("nontrivial", nt);
	vp_counter_add("reader_on_removed_node", onr);
	vp_counter_add("reader_on_removed_node_events", onre);
	vp_counter_add("nodes_visited", steps);
	vp_counter_add("traversals_truncated_log", trunc);
	vp_counter_add("traversals_empty_list", empty);
	vp_counter_add("traversals_overlapping_gt64_versions", longt);
	vp_counter_add("traversals_aborted", ab);
	vp_counter_add("rounds", (uint64_t) rounds_done);
	uint64_t upd = 0;
	for (int i = 0; i < 2; i++) {
		for (int op = 1; op < OP_NR; op++) {
			char name[64];
			snprintf(name, sizeof(name), "upd_%s", op_name[op]);
			vp_counter_add(name, uthr[i].ops[op]);
			upd += uthr[i].ops[op];
		}
		vp_counter_add("updates_single_stepped", uthr[i].stepped);
#if HAVE_STEPPING
		vp_counter_add("single_step_traps", uthr[i].stp.traps);
#endif
		vp_counter_add("synchronize_rcu_calls", uthr[i].syncs);
		vp_counter_add("update_batches", uthr[i].batches);
	}
	vp_counter_add("updates", upd);
	vp_note("cfg=%s readers=%d rounds=%ld updates=%llu traversals=%llu max version window=%llu eps=%llu",
		cfgname, n_readers, rounds_done, (unsigned long long) upd, (unsigned long long) ev,
		(unsigned long long) maxw, (unsigned long long) vp_eps);
	return vp_finish();
}
