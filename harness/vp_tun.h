/* vp_tun.h - force-included into the library translation units: turns the
 * constants that /repo wraps in #ifndef (URCU_VERIF hook commits) into
 * run-time tunables whose defaults are the stock values. */
#ifndef VP_TUN_H
#define VP_TUN_H
extern unsigned int vp_tun_qs_attempts;		/* RCU_QS_ACTIVE_ATTEMPTS, stock 100 */
extern unsigned int vp_tun_wait_attempts;	/* URCU_WAIT_ATTEMPTS, stock 1000 */
extern int vp_tun_bp_sleep_ms;			/* RCU_SLEEP_DELAY_MS, stock 10 */
extern unsigned long vp_tun_defer_qsize;	/* DEFER_QUEUE_SIZE, stock 4096 */
extern unsigned int vp_tun_count_commit_order;	/* COUNT_COMMIT_ORDER, stock 10 */
extern unsigned int vp_tun_min_part_order;	/* MIN_PARTITION_PER_THREAD_ORDER, stock 12 */
#ifdef VP_LIB_TU
#define RCU_QS_ACTIVE_ATTEMPTS vp_tun_qs_attempts
#define URCU_WAIT_ATTEMPTS vp_tun_wait_attempts
#define RCU_SLEEP_DELAY_MS vp_tun_bp_sleep_ms
#define DEFER_QUEUE_SIZE vp_tun_defer_qsize
#define COUNT_COMMIT_ORDER vp_tun_count_commit_order
#define MIN_PARTITION_PER_THREAD_ORDER vp_tun_min_part_order
#endif
#endif
