/*
 * lfht_seq.c - C08: sequential behaviour of cds_lfht equals a reference multimap.
 *
 * Generated operation sequences (add, add_unique, add_replace, replace, del,
 * lookup, next_duplicate, first/next traversal, count_nodes, resize, destroy +
 * re-create) are executed by ONE thread at a time (optionally several threads
 * handing a baton to each other between operations) on a table created from a
 * generated configuration tuple, and every result is compared with a reference
 * multimap (array of node records with key + hash + state).
 *
 * Unordered results (which duplicate comes first, traversal order) are compared
 * as sets, everything the header specifies is compared exactly.  With
 * CDS_LFHT_AUTO_RESIZE the library's worker thread resizes in the background;
 * the results must still equal the model.
 *
 * Replay of one sequence:  --seed=S --first-seq=N --seqs=1 [--verbose=1]
 */
#include "vp.h"
#include "vp_flavor.h"
#include <limits.h>
#include "rculfhash-internal.h"	/* evidence only: current ht->size for signatures */

#define MAXKEYS 64
#define MAXMETA 2048
#define MAPCAP 8192
#define MAXTHR 4
#define NODE_MAGIC 0x6e6f6465u

enum nstate { NS_NEW, NS_LIVE, NS_REMOVED, NS_FREED };
enum { OP_ADD, OP_ADD_UNIQUE, OP_ADD_REPLACE, OP_REPLACE, OP_DEL, OP_LOOKUP, OP_NEXT_DUP,
       OP_TRAVERSE, OP_COUNT, OP_RESIZE, OP_DESTROY, OP_NR };
static const char *op_names[OP_NR] = { "add", "add_unique", "add_replace", "replace", "del", "lookup",
	"next_duplicate", "first_next", "count_nodes", "resize", "destroy" };
enum { PR_ALL, PR_UNIQ, PR_DUPS, PR_GROW, PR_CHURN, PR_RESIZE, PR_NR };
static const char *profile_names[PR_NR] = { "all", "uniq", "dups", "grow", "churn", "resize" };
enum { HM_RANDOM, HM_POOL, HM_HIGHBITS, HM_SMALLINT, HM_EXTREME, HM_MIX, HM_NR };
static const char *hm_names[HM_NR] = { "random", "equal-pool", "high-bits", "bucket-index", "extremes", "mix" };
enum { PH_NEW, PH_OPS, PH_DRAIN };

struct tnode {
	struct cds_lfht_node n;
	uint64_t key;
	unsigned long hash;
	uint32_t nid, magic;
};

/* ------------------------------------------------------------------ reference multimap */
struct meta {
	struct tnode *p;
	int kidx;
	uint64_t key;
	unsigned long hash;
	int state;
	uint32_t seen;
};

/* recording allocator: one record per table (state pointer), forwards to libc */
struct arec {
	struct cds_lfht_alloc a;
	uint64_t n_malloc, n_calloc, n_realloc, n_aligned, n_free;
	int64_t outstanding;
	int wrong_state, destroyed;
	struct arec *next;
};

struct cfg {
	unsigned long init, min, max, max_eff;
	int flags, mm, ctor, use_attr;
};
#define UNBOUNDED_AUTO(c) (((c)->flags & CDS_LFHT_AUTO_RESIZE) && (c)->max_eff > (1UL << 13))
static const char *mm_names[] = { "order", "chunk", "mmap", "default" };
static const char *ctor_names[] = { "_cds_lfht_new", "cds_lfht_new", "cds_lfht_new_flavor",
	"cds_lfht_new_with_flavor_alloc(NULL)", "cds_lfht_new_with_flavor_alloc(custom)",
	"_cds_lfht_new_with_alloc(custom)" };
static const char *flag_names[] = { "0", "AUTO_RESIZE", "ACCOUNTING", "AUTO_RESIZE|ACCOUNTING" };

static struct seq {
	uint64_t seqno;
	struct vp_rng rng;
	struct cfg cfg;
	char cfgstr[256];
	struct cds_lfht *ht;
	struct arec *ar;
	int keys_unrestricted;
	int profile, hashmode, nkeys, nops, opi, phase;
	uint64_t keyval[MAXKEYS];
	unsigned long keyhash[MAXKEYS];
	struct meta meta[MAXMETA];
	int nmeta, nlive;
	int pending[MAXMETA], npending, batch;
	uint32_t stamp;
	unsigned ops_used;
	unsigned long last_size;
	int size_changes;
	int max_chain, max_dups, resizes, tables;
	unsigned long rcap;
	const void *match_foreign;
	int quiet_absent, absent_quiet_count;
	uint64_t match_calls;
	int failed;
	char *log;
	size_t loglen, logcap;
	int log_trunc;
} S;

static struct { const void *p; uint32_t gen; int nid; } map[MAPCAP];
static uint32_t mapgen = 1;

/* options */
static long opt_qsbr_resize_offline;
static long opt_seqs, opt_first, opt_maxops, opt_nonpow2, opt_threads, opt_verbose, opt_qsbr_auto_resize;
static const char *opt_focus;
static struct vp_quar quar;
static pthread_attr_t g_attr;

/* watchdog state */
static const char *cur_op = "idle";
static int in_call;
static __thread struct vp_thr *my_vt;
#define API_BEGIN(name) do { VP_STORE(cur_op, name); VP_STORE(in_call, 1); } while (0)
#define API_END() do { VP_STORE(in_call, 0); VP_STORE(my_vt->progress, my_vt->progress + 1); } while (0)

/* totals */
static uint64_t tot_evals, tot_nontrivial, tot_seqs, tot_ops[OP_NR], tot_new_rejects, tot_tables,
	tot_resizes, tot_size_changes_seen, tot_approx_exact, tot_approx_inexact, tot_handoffs, tot_sync,
	tot_auto_bg_resizes, tot_failed_seqs;
static int all_done;

/* ------------------------------------------------------------------ op log / failure */

static void slog(const char *fmt, ...) __attribute__((format(printf, 1, 2)));
static void slog(const char *fmt, ...)
{
	va_list ap;
	if (S.loglen + 256 > S.logcap) {
		if (S.logcap >= (1u << 20)) {
			S.log_trunc = 1;
			return;
		}
		S.logcap = S.logcap ? S.logcap * 2 : 16384;
		S.log = realloc(S.log, S.logcap);
		if (!S.log)
			abort();
	}
	va_start(ap, fmt);
	int n = vsnprintf(S.log + S.loglen, 255, fmt, ap);
	va_end(ap);
	if (n > 254)
		n = 254;
	if (opt_verbose)
		fputs(S.log + S.loglen, stderr);
	S.loglen += (size_t) n;
}

static void fail(const char *key, const char *fmt, ...) __attribute__((format(printf, 2, 3)));
static void fail(const char *key, const char *fmt, ...)
{
	char detail[400], path[512] = "";
	va_list ap;
	va_start(ap, fmt);
	vsnprintf(detail, sizeof(detail), fmt, ap);
	va_end(ap);
	if (S.failed)
		return;
	S.failed = 1;
	FILE *f = vp_witness_open("seq", path, sizeof(path));
	if (f) {
		fprintf(f, "violation: %s\n%s\nflavor=%s seed=%llu sequence=%llu operation=#%d\nconfig: %s\n"
			"profile=%s hashmode=%s nkeys=%d\nreplay: --seed=%llu --first-seq=%llu --seqs=1 --threads=%ld --resize-nonpow2=%ld\n"
			"keys (index: value hash):\n", key, detail, VP_FLAVOR_NAME,
			(unsigned long long) vp_opt.seed, (unsigned long long) S.seqno, S.opi, S.cfgstr,
			profile_names[S.profile], hm_names[S.hashmode], S.nkeys,
			(unsigned long long) vp_opt.seed, (unsigned long long) S.seqno, opt_threads, opt_nonpow2);
		for (int k = 0; k < S.nkeys; k++)
			fprintf(f, "  k%d: 0x%llx 0x%lx\n", k, (unsigned long long) S.keyval[k], S.keyhash[k]);
		fprintf(f, "operations (whole sequence up to the mismatch)%s:\n", S.log_trunc ? " [log truncated]" : "");
		if (S.log)
			fwrite(S.log, 1, S.loglen, f);
		fprintf(f, "\nmodel: %d live nodes:", S.nlive);
		for (int i = 0; i < S.nmeta; i++)
			if (S.meta[i].state == NS_LIVE)
				fprintf(f, " n%d(k%d)", i, S.meta[i].kidx);
		fputc('\n', f);
		fclose(f);
	}
	vp_violation(key, "cfg={%s} flavor=%s seq=%llu op=#%d: %s witness=%s", S.cfgstr, VP_FLAVOR_NAME,
		     (unsigned long long) S.seqno, S.opi, detail, path);
	tot_failed_seqs++;
}

/* ------------------------------------------------------------------ pointer map / model */

static inline unsigned map_h(const void *p)
{
	return (unsigned) ((((uintptr_t) p >> 3) * 0x9e3779b97f4a7c15ULL) >> 51) & (MAPCAP - 1);
}
static int map_find(const void *p)
{
	for (unsigned i = map_h(p), n = 0; n < MAPCAP; i = (i + 1) & (MAPCAP - 1), n++) {
		if (map[i].gen != mapgen)
			return -1;
		if (map[i].p == p)
			return map[i].nid;
	}
	return -1;
}
static void map_put(const void *p, int nid)
{
	for (unsigned i = map_h(p);; i = (i + 1) & (MAPCAP - 1)) {
		if (map[i].gen != mapgen || map[i].p == p) {
			map[i].gen = mapgen;
			map[i].p = p;
			map[i].nid = nid;
			return;
		}
	}
}

static int m_new(int kidx)
{
	int nid = S.nmeta++;
	struct meta *m = &S.meta[nid];
	struct tnode *t = malloc(sizeof(*t));
	if (!t)
		abort();
	memset(t, 0xa5, sizeof(*t));
	t->key = S.keyval[kidx];
	t->hash = S.keyhash[kidx];
	t->nid = (uint32_t) nid;
	t->magic = NODE_MAGIC;
	m->p = t;
	m->kidx = kidx;
	m->key = t->key;
	m->hash = t->hash;
	m->state = NS_NEW;
	m->seen = 0;
	map_put(&t->n, nid);
	return nid;
}
static int m_count_key(int kidx)
{
	int c = 0;
	for (int i = 0; i < S.nmeta; i++)
		c += S.meta[i].state == NS_LIVE && S.meta[i].kidx == kidx;
	return c;
}
static void m_set_live(int nid)
{
	S.meta[nid].state = NS_LIVE;
	S.nlive++;
}
/* node leaves the table (or never entered): memory may be released after a grace period */
static void m_retire(int nid)
{
	if (S.meta[nid].state == NS_LIVE)
		S.nlive--;
	S.meta[nid].state = NS_REMOVED;
	S.pending[S.npending++] = nid;
}
static int m_pick_live(void)
{
	if (!S.nlive)
		return -1;
	int k = (int) vp_rand_n(&S.rng, (uint32_t) S.nlive);
	for (int i = 0; i < S.nmeta; i++)
		if (S.meta[i].state == NS_LIVE && k-- == 0)
			return i;
	return -1;
}

static void node_release(void *p)
{
	unsigned char *b = p;
	for (size_t i = 0; i < sizeof(struct tnode); i++)
		if (b[i] != 0x5a) {
			vp_violation("lfht-seq:late-write-to-freed-node",
				     "node memory %p written after the grace period that followed its removal (byte %zu = 0x%02x)",
				     p, i, b[i]);
			break;
		}
	free(p);
}
static void node_free_now(int nid)
{
	struct meta *m = &S.meta[nid];
	m->state = NS_FREED;
	m->p->magic = 0;
#if VP_ASAN || VP_TSAN
	free(m->p);
#else
	memset(m->p, 0x5a, sizeof(struct tnode));
	vp_quar_put(&quar, m->p);
#endif
}
/* wait for a grace period, then really release every removed node */
static void flush_pending(void)
{
	if (!S.npending)
		return;
	API_BEGIN("synchronize_rcu");
	synchronize_rcu();
	API_END();
	tot_sync++;
	for (int i = 0; i < S.npending; i++)
		node_free_now(S.pending[i]);
	S.npending = 0;
}

static int match_fn(struct cds_lfht_node *node, const void *key)
{
	S.match_calls++;
	int nid = map_find(node);
	if (nid < 0 || (S.meta[nid].state != NS_LIVE && S.meta[nid].state != NS_REMOVED)) {
		if (!S.match_foreign)
			S.match_foreign = node;
		return 0;
	}
	struct tnode *t = caa_container_of(node, struct tnode, n);
	return t->key == *(const uint64_t *) key;
}

/* ------------------------------------------------------------------ recording allocator */

static struct arec *zombies;

#define AR_ENTER(field) \
	struct arec *r = state; \
	if (!r || r->a.state != state) { static struct arec dummy; r = &dummy; __atomic_store_n(&S.match_foreign, (const void *) 1, __ATOMIC_RELAXED); } \
	__atomic_add_fetch(&r->field, 1, __ATOMIC_RELAXED)
static void *ca_malloc(void *state, size_t size)
{
	AR_ENTER(n_malloc);
	void *p = malloc(size);
	if (p)
		__atomic_add_fetch(&r->outstanding, 1, __ATOMIC_RELAXED);
	return p;
}
static void *ca_calloc(void *state, size_t nmemb, size_t size)
{
	AR_ENTER(n_calloc);
	void *p = calloc(nmemb, size);
	if (p)
		__atomic_add_fetch(&r->outstanding, 1, __ATOMIC_RELAXED);
	return p;
}
static void *ca_realloc(void *state, void *ptr, size_t size)
{
	AR_ENTER(n_realloc);
	void *p = realloc(ptr, size);
	if (!ptr && p)
		__atomic_add_fetch(&r->outstanding, 1, __ATOMIC_RELAXED);
	return p;
}
static void *ca_aligned(void *state, size_t alignment, size_t size)
{
	AR_ENTER(n_aligned);
	void *p = NULL;
	if (posix_memalign(&p, alignment, size))
		return NULL;
	__atomic_add_fetch(&r->outstanding, 1, __ATOMIC_RELAXED);
	return p;
}
static void ca_free(void *state, void *ptr)
{
	AR_ENTER(n_free);
	free(ptr);
	/* last access to the record: the reaper may release it once outstanding == 0 */
	if (ptr)
		__atomic_sub_fetch(&r->outstanding, 1, __ATOMIC_RELEASE);
}
static struct arec *arec_new(void)
{
	/* reap records of destroyed tables whose memory has all been returned */
	struct arec **pp = &zombies;
	while (*pp) {
		struct arec *z = *pp;
		if (z->destroyed && __atomic_load_n(&z->outstanding, __ATOMIC_ACQUIRE) == 0) {
			*pp = z->next;
			free(z);
		} else
			pp = &z->next;
	}
	struct arec *r = calloc(1, sizeof(*r));
	if (!r)
		abort();
	r->a.malloc = ca_malloc;
	r->a.calloc = ca_calloc;
	r->a.realloc = ca_realloc;
	r->a.aligned_alloc = ca_aligned;
	r->a.free = ca_free;
	r->a.state = r;
	r->next = zombies;
	zombies = r;
	return r;
}

/* ------------------------------------------------------------------ configuration tuples */

static unsigned long pow2_biased(struct vp_rng *r, int lo, int mid, int hi)
{
	uint32_t x = vp_rand_n(r, 100);
	int o;
	if (x < 60)
		o = (int) vp_rand_n(r, (uint32_t) lo + 1);
	else if (x < 90)
		o = lo + 1 + (int) vp_rand_n(r, (uint32_t) (mid - lo));
	else
		o = mid + 1 + (int) vp_rand_n(r, (uint32_t) (hi - mid));
	return 1UL << o;
}

static void cfg_finish(struct cfg *c)
{
	if (c->mm == 0 || (c->mm == 3 && !c->max)) {
		/* order allocator: 0 = "infinite" */
		unsigned long m = c->max ? c->max : 1UL << (MAX_TABLE_ORDER - 1);
		c->max_eff = m > c->min ? m : c->min;
	} else
		c->max_eff = c->max > c->min ? c->max : c->min;
}

static void gen_cfg(struct vp_rng *r, struct cfg *c)
{
	memset(c, 0, sizeof(*c));
	c->mm = (int) vp_rand_n(r, 4);
	c->flags = (int) vp_rand_n(r, 4);
	if (opt_focus) {
		if (!strcmp(opt_focus, "auto"))
			c->flags |= CDS_LFHT_AUTO_RESIZE;
		else if (!strcmp(opt_focus, "noauto"))
			c->flags &= ~CDS_LFHT_AUTO_RESIZE;
		else if (!strcmp(opt_focus, "order"))
			c->mm = 0;
		else if (!strcmp(opt_focus, "chunk"))
			c->mm = 1;
		else if (!strcmp(opt_focus, "mmap"))
			c->mm = 2;
	}
	c->init = pow2_biased(r, 3, 7, 11);
	c->min = pow2_biased(r, 2, 6, 9);
	uint32_t x = vp_rand_n(r, 100);
	if (x < 15 && (c->mm == 0 || c->mm == 3))
		c->max = 0;
	else if (x < 40)
		c->max = 1UL << vp_rand_n(r, 5);
	else if (x < 75)
		c->max = 1UL << (5 + vp_rand_n(r, 6));
	else if (x < 92)
		c->max = 1UL << (11 + vp_rand_n(r, 4));
	else
		c->max = 1UL << (16 + vp_rand_n(r, c->mm == 1 ? 5 : 17));
	x = vp_rand_n(r, 100);
	if (x < 18 && c->init > 1) {
		/* max < init */
		int io = cds_lfht_get_count_order_ulong(c->init);
		c->max = 1UL << vp_rand_n(r, (uint32_t) io);
	} else if (x < 36) {
		/* min > init */
		int io = cds_lfht_get_count_order_ulong(c->init);
		c->min = 1UL << (io + 1 + (int) vp_rand_n(r, 4));
	}
	if (c->mm == 3) {
		static const int ct[] = { 1, 2, 3, 4 };
		c->ctor = ct[vp_rand_n(r, 4)];
	} else
		c->ctor = vp_rand_n(r, 4) == 0 ? 5 : 0;
	c->use_attr = vp_rand_n(r, 7) == 0;
	cfg_finish(c);
}

static void cfg_str(const struct cfg *c, char *buf, size_t len)
{
	snprintf(buf, len, "init=%lu,min=%lu,max=%lu,flags=%s,mm=%s,ctor=%s,attr=%s", c->init, c->min, c->max,
		 flag_names[c->flags & 3], mm_names[c->mm], ctor_names[c->ctor], c->use_attr ? "set" : "NULL");
}

static const struct cds_lfht_mm_type *mm_ptr(int mm)
{
	switch (mm) {
	case 0: return &cds_lfht_mm_order;
	case 1: return &cds_lfht_mm_chunk;
	case 2: return &cds_lfht_mm_mmap;
	default: return NULL;
	}
}

static struct cds_lfht *call_new(const struct cfg *c, struct arec *ar, pthread_attr_t *attr)
{
	struct cds_lfht *ht;
	API_BEGIN("new");
	switch (c->ctor) {
	case 1:
		ht = cds_lfht_new(c->init, c->min, c->max, c->flags, attr);
		break;
	case 2:
		ht = cds_lfht_new_flavor(c->init, c->min, c->max, c->flags, &rcu_flavor, attr);
		break;
	case 3:
		ht = cds_lfht_new_with_flavor_alloc(c->init, c->min, c->max, c->flags, &rcu_flavor, NULL, attr);
		break;
	case 4:
		ht = cds_lfht_new_with_flavor_alloc(c->init, c->min, c->max, c->flags, &rcu_flavor, &ar->a, attr);
		break;
	case 5:
		ht = _cds_lfht_new_with_alloc(c->init, c->min, c->max, c->flags, mm_ptr(c->mm), &rcu_flavor, &ar->a, attr);
		break;
	default:
		ht = _cds_lfht_new(c->init, c->min, c->max, c->flags, mm_ptr(c->mm), &rcu_flavor, attr);
		break;
	}
	API_END();
	return ht;
}

static unsigned long bad_value(struct vp_rng *r, int allow_zero)
{
	static const unsigned long fixed[] = { 3, 5, 6, 7, 9, 12, 1000, ULONG_MAX, (1UL << 63) + 1, ULONG_MAX - 1 };
	uint32_t x = vp_rand_n(r, 14 + (allow_zero ? 2 : 0));
	if (x < 10)
		return fixed[x];
	if (x < 12)
		return (1UL << (2 + vp_rand_n(r, 60))) + 1;
	if (x < 14)
		return (1UL << (2 + vp_rand_n(r, 61))) - 1;
	return 0;
}

/* cds_lfht_new() must refuse non-power-of-two init/min/max (and 0 for init/min) with NULL */
static int new_reject_tests(void)
{
	int n = 1 + (int) vp_rand_n(&S.rng, 3);
	for (int i = 0; i < n; i++) {
		struct cfg c;
		char buf[256];
		gen_cfg(&S.rng, &c);
		c.use_attr = 0;
		int which = (int) vp_rand_n(&S.rng, 3);
		unsigned long bad = bad_value(&S.rng, which != 2);
		if (which == 0)
			c.init = bad;
		else if (which == 1)
			c.min = bad;
		else
			c.max = bad;
		cfg_str(&c, buf, sizeof(buf));
		struct arec *ar = (c.ctor == 4 || c.ctor == 5) ? arec_new() : NULL;
		struct cds_lfht *ht = call_new(&c, ar, NULL);
		if (ar)
			ar->destroyed = 1;
		tot_evals++;
		tot_new_rejects++;
		slog("new(%s) -> %s\n", buf, ht ? "table" : "NULL");
		if (ht) {
			snprintf(S.cfgstr, sizeof(S.cfgstr), "%s", buf);
			fail(bad ? "lfht-seq:new:accepted-non-pow2" : "lfht-seq:new:accepted-zero",
			     "cds_lfht_new accepted %s=%lu (not a power of two): returned %p instead of NULL",
			     which == 0 ? "init_size" : which == 1 ? "min_nr_alloc_buckets" : "max_nr_buckets", bad, (void *) ht);
			return -1;
		}
	}
	return 0;
}

/* ------------------------------------------------------------------ hashes */

static unsigned long gen_hash(struct vp_rng *r, int mode, const unsigned long *pool, int npool, int hb_lo, int hb_hi,
			      unsigned long base)
{
	static const unsigned long ext[] = { 0, ~0UL, 1, ~0UL >> 1, 1UL << 63, ~0UL - 1, 1UL << 32, 0xffffffffUL };
	switch (mode) {
	case HM_POOL:
		return pool[vp_rand_n(r, (uint32_t) npool)];
	case HM_HIGHBITS: {
		int sh = hb_lo + (int) vp_rand_n(r, (uint32_t) (hb_hi - hb_lo + 1));
		unsigned long hi = vp_rand(r);
		if (hb_hi < 20)
			return base ^ ((hi & ((1UL << (hb_hi + 1 - sh)) - 1)) << sh);
		return base ^ (hi << sh);
	}
	case HM_SMALLINT:
		return vp_rand_n(r, 64) < 48 ? vp_rand_n(r, 16) : vp_rand_n(r, 4096);
	case HM_EXTREME:
		return ext[vp_rand_n(r, 8)];
	default:
		return vp_rand(r);
	}
}

static void gen_keys(void)
{
	struct vp_rng *r = &S.rng;
	unsigned long pool[4];
	int npool = 1 + (int) vp_rand_n(r, 3);
	int unbounded_auto = UNBOUNDED_AUTO(&S.cfg);
	int hb_lo = unbounded_auto ? 3 : 8, hb_hi = unbounded_auto ? 12 : 62;
	unsigned long base = vp_rand_n(r, 4) ? vp_rand_n(r, 8) : vp_rand(r) & 0xff;
	for (int i = 0; i < npool; i++) {
		uint32_t x = vp_rand_n(r, 4);
		pool[i] = x == 0 ? vp_rand(r) : x == 1 ? vp_rand_n(r, 8) : x == 2 ? (i ? ~0UL : 0) : (1UL << vp_rand_n(r, 64));
	}
	if (unbounded_auto && S.hashmode == HM_HIGHBITS)
		base &= 7;
	for (int k = 0; k < S.nkeys; k++) {
		int mode = S.hashmode;
		if (mode == HM_MIX)
			mode = (int) vp_rand_n(r, HM_MIX);
		S.keyval[k] = (vp_rand(r) << 8) | (unsigned) k;
		S.keyhash[k] = gen_hash(r, mode, pool, npool, hb_lo, hb_hi, base);
		if (unbounded_auto) {
			/* at most two distinct hashes per class of equal low 13 bits */
			unsigned long other = 0;
			int nother = 0;
			for (int j = 0; j < k; j++) {
				if ((S.keyhash[j] & 0x1fff) != (S.keyhash[k] & 0x1fff) || S.keyhash[j] == S.keyhash[k])
					continue;
				if (nother && S.keyhash[j] != other) {
					S.keyhash[k] = other;
					break;
				}
				other = S.keyhash[j];
				nother = 1;
			}
		}
	}
	S.keys_unrestricted = !unbounded_auto;
}

/* ------------------------------------------------------------------ table creation */

static void sample_size(void)
{
	if (!S.ht)
		return;
	unsigned long sz = __atomic_load_n(&S.ht->size, __ATOMIC_RELAXED);
	if (S.last_size && sz != S.last_size) {
		S.size_changes++;
		tot_size_changes_seen++;
	}
	S.last_size = sz;
}

static int table_create(void)
{
	/*
	 * Chain-length driven lazy growth multiplies the size as long as >= 3 distinct hashes share a
	 * bucket: on tables without a small max_nr_buckets the hashes are restricted (gen_keys) so that
	 * the growth ends near 2^13 buckets.  A re-created table must fit the hashes already chosen.
	 */
	do
		gen_cfg(&S.rng, &S.cfg);
	while (S.keys_unrestricted && UNBOUNDED_AUTO(&S.cfg));
	cfg_str(&S.cfg, S.cfgstr, sizeof(S.cfgstr));
	S.ar = (S.cfg.ctor == 4 || S.cfg.ctor == 5) ? arec_new() : NULL;
	uint64_t before = S.ar ? S.ar->n_calloc + S.ar->n_malloc + S.ar->n_aligned : 0;
	S.ht = call_new(&S.cfg, S.ar, S.cfg.use_attr ? &g_attr : NULL);
	tot_evals++;
	tot_tables++;
	S.tables++;
	slog("new(%s) -> %s\n", S.cfgstr, S.ht ? "table" : "NULL");
	if (!S.ht) {
		fail("lfht-seq:new:rejected-valid", "cds_lfht_new returned NULL for a valid configuration");
		return -1;
	}
	if (S.ar && S.ar->n_calloc + S.ar->n_malloc + S.ar->n_aligned == before) {
		fail("lfht-seq:alloc:not-used", "table created with a custom cds_lfht_alloc but no allocation callback was invoked");
		return -1;
	}
	S.rcap = vp_rand_n(&S.rng, 20) == 0 ? 1UL << 15 : 1UL << 13;
	S.last_size = 0;
	sample_size();
	return 0;
}

/* ------------------------------------------------------------------ result checks */

/* a node pointer handed out by the library: must be a live model node (with key kidx if >= 0) */
static int chk_node(const struct cds_lfht_node *n, int kidx, const char *op, const char *what)
{
	char key[96];
	int nid = map_find(n);
	if (nid < 0) {
		snprintf(key, sizeof(key), "lfht-seq:%s:foreign-node", op);
		fail(key, "%s returned %p which is no node ever given to this table (bucket node or stray pointer)", what, (const void *) n);
		return -1;
	}
	struct meta *m = &S.meta[nid];
	if (m->state != NS_LIVE) {
		snprintf(key, sizeof(key), "lfht-seq:%s:removed-node", op);
		fail(key, "%s returned node n%d (key k%d) which the model holds as %s", what, nid, m->kidx,
		     m->state == NS_NEW ? "never inserted" : m->state == NS_REMOVED ? "removed" : "freed");
		return -1;
	}
	if (kidx >= 0 && m->kidx != kidx) {
		snprintf(key, sizeof(key), "lfht-seq:%s:wrong-key", op);
		fail(key, "%s for key k%d returned node n%d whose key is k%d (hashes 0x%lx / 0x%lx)", what, kidx, nid,
		     m->kidx, S.keyhash[kidx], m->hash);
		return -1;
	}
	if (m->p->magic != NODE_MAGIC || m->p->key != m->key || m->p->hash != m->hash) {
		snprintf(key, sizeof(key), "lfht-seq:%s:node-corrupted", op);
		fail(key, "%s returned node n%d whose payload was overwritten", what, nid);
		return -1;
	}
	return nid;
}

static int post_op_checks(void)
{
	if (S.match_foreign) {
		if (S.match_foreign == (const void *) 1)
			fail("lfht-seq:alloc:wrong-state", "a cds_lfht_alloc callback was invoked with a state pointer different from alloc->state");
		else
			fail("lfht-seq:match:foreign-node", "match() was invoked on %p which is not a node stored in the table (bucket node, freed or never-inserted node)", S.match_foreign);
		return -1;
	}
	return S.failed ? -1 : 0;
}

/* lookup + next_duplicate walk for key kidx: must return exactly the multiset of live nodes with that key */
static int do_lookup(int kidx)
{
	struct cds_lfht_iter it;
	int expect = m_count_key(kidx), got = 0;
	uint32_t st = ++S.stamp;
	tot_ops[OP_LOOKUP]++;
	S.ops_used |= 1u << OP_LOOKUP;
	rcu_read_lock();
	API_BEGIN("lookup");
	cds_lfht_lookup(S.ht, S.keyhash[kidx], match_fn, &S.keyval[kidx], &it);
	API_END();
	struct cds_lfht_node *n = cds_lfht_iter_get_node(&it);
	if (!n && !expect && S.quiet_absent) {
		/* drain phase: absent keys are summarised in one line */
		rcu_read_unlock();
		S.absent_quiet_count++;
		return 0;
	}
	slog("#%d lookup k%d h=0x%lx ->", S.opi, kidx, S.keyhash[kidx]);
	if (!n && expect) {
		rcu_read_unlock();
		slog(" NULL\n");
		fail("lfht-seq:lookup:missing", "lookup of key k%d (hash 0x%lx) returned NULL, the model holds %d node(s) with that key",
		     kidx, S.keyhash[kidx], expect);
		return -1;
	}
	if (n && !expect) {
		int nid = map_find(n);
		rcu_read_unlock();
		slog(" n%d\n", nid);
		fail("lfht-seq:lookup:phantom", "lookup of absent key k%d (hash 0x%lx) returned node %p (n%d, key k%d)", kidx,
		     S.keyhash[kidx], (void *) n, nid, nid >= 0 ? S.meta[nid].kidx : -1);
		return -1;
	}
	while (n) {
		int nid = chk_node(n, kidx, got ? "next_duplicate" : "lookup", got ? "next_duplicate" : "lookup");
		if (nid < 0) {
			rcu_read_unlock();
			return -1;
		}
		slog(" n%d", nid);
		if (S.meta[nid].seen == st) {
			rcu_read_unlock();
			fail("lfht-seq:next_duplicate:repeat", "lookup+next_duplicate walk for key k%d returned node n%d twice", kidx, nid);
			return -1;
		}
		S.meta[nid].seen = st;
		if (++got > expect)
			break;
		tot_ops[OP_NEXT_DUP]++;
		S.ops_used |= 1u << OP_NEXT_DUP;
		API_BEGIN("next_duplicate");
		cds_lfht_next_duplicate(S.ht, match_fn, &S.keyval[kidx], &it);
		API_END();
		n = cds_lfht_iter_get_node(&it);
	}
	rcu_read_unlock();
	slog(" (%d)\n", got);
	if (got != expect) {
		fail(got < expect ? "lfht-seq:next_duplicate:missing" : "lfht-seq:next_duplicate:extra",
		     "lookup+next_duplicate walk for key k%d (hash 0x%lx) returned %d node(s), the model holds %d", kidx,
		     S.keyhash[kidx], got, expect);
		return -1;
	}
	if (expect > S.max_dups)
		S.max_dups = expect;
	return 0;
}

/*
 * Position an iterator on live node nid, by lookup + next_duplicate (how 0) or by
 * first/next (how 1).  Caller holds the read-side lock.
 */
static int find_iter(int nid, int how, struct cds_lfht_iter *it)
{
	struct meta *m = &S.meta[nid];
	int steps = 0;
	if (how == 0) {
		tot_ops[OP_LOOKUP]++;
		S.ops_used |= 1u << OP_LOOKUP;
		API_BEGIN("lookup");
		cds_lfht_lookup(S.ht, m->hash, match_fn, &m->key, it);
		API_END();
		while (it->node && it->node != &m->p->n) {
			if (chk_node(it->node, m->kidx, "next_duplicate", "lookup+next_duplicate walk") < 0)
				return -1;
			if (++steps > S.nlive + 1) {
				fail("lfht-seq:next_duplicate:repeat", "walk for key k%d did not end after %d steps (%d live nodes)", m->kidx, steps, S.nlive);
				return -1;
			}
			tot_ops[OP_NEXT_DUP]++;
			S.ops_used |= 1u << OP_NEXT_DUP;
			API_BEGIN("next_duplicate");
			cds_lfht_next_duplicate(S.ht, match_fn, &m->key, it);
			API_END();
		}
		if (!it->node) {
			fail(steps ? "lfht-seq:next_duplicate:missing" : "lfht-seq:lookup:missing",
			     "live node n%d (key k%d hash 0x%lx) not reached by lookup+next_duplicate (%d other duplicates seen)",
			     nid, m->kidx, m->hash, steps);
			return -1;
		}
	} else {
		tot_ops[OP_TRAVERSE]++;
		S.ops_used |= 1u << OP_TRAVERSE;
		API_BEGIN("first");
		cds_lfht_first(S.ht, it);
		API_END();
		while (it->node && it->node != &m->p->n) {
			if (chk_node(it->node, -1, "traverse", "first/next traversal") < 0)
				return -1;
			if (++steps > S.nlive + 1) {
				fail("lfht-seq:traverse:repeat", "traversal did not end after %d steps (%d live nodes)", steps, S.nlive);
				return -1;
			}
			API_BEGIN("next");
			cds_lfht_next(S.ht, it);
			API_END();
		}
		if (!it->node) {
			fail("lfht-seq:traverse:missing", "live node n%d (key k%d hash 0x%lx) not visited by first/next traversal (%d nodes visited)",
			     nid, m->kidx, m->hash, steps);
			return -1;
		}
	}
	return 0;
}

static int mut_succ_every;	/* next do_traverse(): every n-th step removes / replaces the iterator's saved successor */
static uint64_t tot_succ_del, tot_succ_replace;

/* full traversal: every stored node exactly once; optionally delete every del_every-th visited node */
static int do_traverse(int del_every)
{
	struct cds_lfht_iter it;
	uint32_t st = ++S.stamp;
	int visited = 0, expect = S.nlive, deleted = 0;
	tot_ops[OP_TRAVERSE]++;
	S.ops_used |= 1u << OP_TRAVERSE;
	slog("#%d traverse%s ->", S.opi, del_every ? "+del" : "");
	rcu_read_lock();
	API_BEGIN("first");
	cds_lfht_first(S.ht, &it);
	API_END();
	struct cds_lfht_node *n;
	while ((n = cds_lfht_iter_get_node(&it)) != NULL) {
		int nid = chk_node(n, -1, "traverse", "first/next traversal");
		if (nid < 0) {
			rcu_read_unlock();
			return -1;
		}
		if (S.meta[nid].seen == st) {
			rcu_read_unlock();
			fail("lfht-seq:traverse:repeat", "first/next traversal visited node n%d (key k%d) twice", nid, S.meta[nid].kidx);
			return -1;
		}
		S.meta[nid].seen = st;
		if (expect <= 40)
			slog(" n%d", nid);
		if (++visited > expect)
			break;
		if (del_every && (visited % del_every) == 0) {
			/* removal of the current node during a traversal is explicitly allowed */
			tot_ops[OP_DEL]++;
			S.ops_used |= 1u << OP_DEL;
			API_BEGIN("del");
			int ret = cds_lfht_del(S.ht, n);
			API_END();
			if (ret) {
				rcu_read_unlock();
				fail("lfht-seq:del:failed-on-live", "cds_lfht_del of live node n%d during traversal returned %d", nid, ret);
				return -1;
			}
			m_retire(nid);
			deleted++;
			if (expect <= 40)
				slog("(del)");
		}
		if (mut_succ_every && (visited % mut_succ_every) == 0 && !((unsigned long) it.next & 2UL)) {
			/* The iterator has saved a pointer to the successor.  Remove or replace exactly that node (allowed:
			 * same thread, same read-side section): cds_lfht_next() must not hand out a node that is no longer
			 * stored, and must hand out the replacement. */
			struct cds_lfht_node *succ = (struct cds_lfht_node *) ((unsigned long) it.next & ~7UL);
			int sid = succ ? map_find(succ) : -1;
			if (sid >= 0 && S.meta[sid].state == NS_LIVE && S.meta[sid].seen != st) {
				struct meta *sm = &S.meta[sid];
				if (vp_rand_n(&S.rng, 2)) {
					tot_ops[OP_DEL]++;
					API_BEGIN("del");
					int ret = cds_lfht_del(S.ht, succ);
					API_END();
					if (ret) {
						rcu_read_unlock();
						fail("lfht-seq:del:failed-on-live", "cds_lfht_del of live node n%d (the traversal's saved successor) returned %d", sid, ret);
						return -1;
					}
					m_retire(sid);
					expect--;
					tot_succ_del++;
					if (expect <= 40)
						slog("(del-succ n%d)", sid);
				} else {
					struct cds_lfht_iter rit;
					int rid = m_new(sm->kidx);
					struct meta *rm = &S.meta[rid];
					rit.node = succ;
					rit.next = rcu_dereference(succ->next);
					tot_ops[OP_REPLACE]++;
					API_BEGIN("replace");
					int ret = cds_lfht_replace(S.ht, &rit, rm->hash, match_fn, &rm->key, &rm->p->n);
					API_END();
					if (ret) {
						rcu_read_unlock();
						fail("lfht-seq:replace:failed-on-live", "cds_lfht_replace of live node n%d (the traversal's saved successor) returned %d", sid, ret);
						return -1;
					}
					m_retire(sid);
					m_set_live(rid);
					tot_succ_replace++;
					if (expect <= 40)
						slog("(repl-succ n%d->n%d)", sid, rid);
				}
			}
		}
		API_BEGIN("next");
		cds_lfht_next(S.ht, &it);
		API_END();
	}
	rcu_read_unlock();
	slog(" (%d)\n", visited);
	if (visited != expect) {
		if (visited < expect) {
			int miss = -1;
			for (int i = 0; i < S.nmeta; i++)
				if ((S.meta[i].state == NS_LIVE || (deleted && S.meta[i].state == NS_REMOVED)) && S.meta[i].seen != st) {
					miss = i;
					break;
				}
			fail("lfht-seq:traverse:missing", "first/next traversal visited %d nodes, the model holds %d (e.g. n%d key k%d hash 0x%lx not visited)",
			     visited, expect, miss, miss >= 0 ? S.meta[miss].kidx : -1, miss >= 0 ? S.meta[miss].hash : 0UL);
		} else
			fail("lfht-seq:traverse:extra", "first/next traversal visited more than the %d stored nodes", expect);
		return -1;
	}
	return 0;
}

static int do_count(void)
{
	long before = -777, after = -777;
	unsigned long count = 123456789;	/* out parameters must be written */
	tot_ops[OP_COUNT]++;
	S.ops_used |= 1u << OP_COUNT;
	rcu_read_lock();
	API_BEGIN("count_nodes");
	cds_lfht_count_nodes(S.ht, &before, &count, &after);
	API_END();
	rcu_read_unlock();
	slog("#%d count_nodes -> %lu (approx %ld/%ld)\n", S.opi, count, before, after);
	if (count != (unsigned long) S.nlive) {
		fail("lfht-seq:count_nodes:mismatch", "cds_lfht_count_nodes count=%lu, the model holds %d nodes (approx_before=%ld approx_after=%ld)",
		     count, S.nlive, before, after);
		return -1;
	}
	/* split counters are documented as approximate: statistics only */
	if (S.cfg.flags & CDS_LFHT_ACCOUNTING) {
		if (before == S.nlive && after == S.nlive)
			tot_approx_exact++;
		else
			tot_approx_inexact++;
	}
	return 0;
}

static void note_add(int nid)
{
	/* evidence: chain length in the node's bucket at the current size, duplicates of its key */
	unsigned long sz = __atomic_load_n(&S.ht->size, __ATOMIC_RELAXED);
	unsigned long b = S.meta[nid].hash & (sz - 1);
	int chain = 0, dups = 0;
	for (int i = 0; i < S.nmeta; i++) {
		if (S.meta[i].state != NS_LIVE)
			continue;
		chain += (S.meta[i].hash & (sz - 1)) == b;
		dups += S.meta[i].kidx == S.meta[nid].kidx;
	}
	if (chain > S.max_chain)
		S.max_chain = chain;
	if (dups > S.max_dups)
		S.max_dups = dups;
}

static int do_add(int kidx)
{
	int nid = m_new(kidx);
	struct meta *m = &S.meta[nid];
	tot_ops[OP_ADD]++;
	S.ops_used |= 1u << OP_ADD;
	cds_lfht_node_init(&m->p->n);
	rcu_read_lock();
	API_BEGIN("add");
	cds_lfht_add(S.ht, m->hash, &m->p->n);
	API_END();
	int del = cds_lfht_is_node_deleted(&m->p->n);
	rcu_read_unlock();
	m_set_live(nid);
	slog("#%d add k%d h=0x%lx n%d\n", S.opi, kidx, m->hash, nid);
	if (del) {
		fail("lfht-seq:is_node_deleted:mismatch", "cds_lfht_is_node_deleted() non-zero for node n%d right after cds_lfht_add", nid);
		return -1;
	}
	note_add(nid);
	return 0;
}

static int do_add_unique(int kidx)
{
	int nid = m_new(kidx), present = m_count_key(kidx);
	struct meta *m = &S.meta[nid];
	tot_ops[OP_ADD_UNIQUE]++;
	S.ops_used |= 1u << OP_ADD_UNIQUE;
	cds_lfht_node_init(&m->p->n);
	rcu_read_lock();
	API_BEGIN("add_unique");
	struct cds_lfht_node *ret = cds_lfht_add_unique(S.ht, m->hash, match_fn, &m->key, &m->p->n);
	API_END();
	rcu_read_unlock();
	int rid = map_find(ret);
	slog("#%d add_unique k%d h=0x%lx n%d -> n%d\n", S.opi, kidx, m->hash, nid, rid);
	if (ret == &m->p->n) {
		if (present) {
			fail("lfht-seq:add_unique:duplicate-inserted", "cds_lfht_add_unique inserted node n%d although key k%d (hash 0x%lx) was present %d time(s)",
			     nid, kidx, m->hash, present);
			return -1;
		}
		m_set_live(nid);
		note_add(nid);
		return 0;
	}
	if (!present) {
		fail("lfht-seq:add_unique:spurious-failure", "cds_lfht_add_unique of absent key k%d (hash 0x%lx) returned %p (n%d) instead of the new node",
		     kidx, m->hash, (void *) ret, rid);
		return -1;
	}
	if (chk_node(ret, kidx, "add_unique", "add_unique (failure)") < 0)
		return -1;
	/* not inserted: may be released without waiting for a grace period */
	node_free_now(nid);
	return 0;
}

static int do_add_replace(int kidx)
{
	int nid = m_new(kidx), present = m_count_key(kidx);
	struct meta *m = &S.meta[nid];
	tot_ops[OP_ADD_REPLACE]++;
	S.ops_used |= 1u << OP_ADD_REPLACE;
	cds_lfht_node_init(&m->p->n);
	rcu_read_lock();
	API_BEGIN("add_replace");
	struct cds_lfht_node *ret = cds_lfht_add_replace(S.ht, m->hash, match_fn, &m->key, &m->p->n);
	API_END();
	int rid = ret ? map_find(ret) : -1;
	if (ret)
		slog("#%d add_replace k%d h=0x%lx n%d -> n%d\n", S.opi, kidx, m->hash, nid, rid);
	else
		slog("#%d add_replace k%d h=0x%lx n%d -> NULL\n", S.opi, kidx, m->hash, nid);
	if (!ret) {
		rcu_read_unlock();
		if (present) {
			fail("lfht-seq:add_replace:duplicate-inserted", "cds_lfht_add_replace returned NULL (added) although key k%d (hash 0x%lx) was present %d time(s)",
			     kidx, m->hash, present);
			return -1;
		}
		m_set_live(nid);
		note_add(nid);
		return 0;
	}
	if (ret == &m->p->n) {
		rcu_read_unlock();
		fail("lfht-seq:add_replace:returned-new-node", "cds_lfht_add_replace returned the node being added");
		return -1;
	}
	if (!present) {
		rcu_read_unlock();
		fail("lfht-seq:add_replace:phantom", "cds_lfht_add_replace of absent key k%d returned %p (n%d) as replaced node", kidx, (void *) ret, rid);
		return -1;
	}
	if (chk_node(ret, kidx, "add_replace", "add_replace (replaced node)") < 0) {
		rcu_read_unlock();
		return -1;
	}
	int del = cds_lfht_is_node_deleted(ret);
	rcu_read_unlock();
	m_retire(rid);
	m_set_live(nid);
	if (!del) {
		fail("lfht-seq:is_node_deleted:mismatch", "cds_lfht_is_node_deleted() is 0 for node n%d that cds_lfht_add_replace just replaced", rid);
		return -1;
	}
	note_add(nid);
	return 0;
}

static int pick_absent_key(void)
{
	int start = (int) vp_rand_n(&S.rng, (uint32_t) S.nkeys);
	for (int i = 0; i < S.nkeys; i++) {
		int k = (start + i) % S.nkeys;
		if (!m_count_key(k))
			return k;
	}
	return -1;
}

static int do_replace(void)
{
	struct cds_lfht_iter it;
	uint32_t v = vp_rand_n(&S.rng, 100);
	int variant = v < 55 ? 0 : v < 67 ? 1 : v < 77 ? 2 : v < 90 ? 3 : 4;
	int old = m_pick_live();
	int ret, expect, nid;
	tot_ops[OP_REPLACE]++;
	S.ops_used |= 1u << OP_REPLACE;
	if (old < 0)
		variant = 4;
	if (variant == 4) {
		/* NULL old node: iterator of a failed lookup */
		int k = pick_absent_key();
		if (k < 0) {
			if (old < 0)
				return 0;
			variant = 0;
		} else {
			nid = m_new(k);
			struct meta *m = &S.meta[nid];
			rcu_read_lock();
			API_BEGIN("lookup");
			cds_lfht_lookup(S.ht, m->hash, match_fn, &m->key, &it);
			API_END();
			if (it.node) {
				rcu_read_unlock();
				fail("lfht-seq:lookup:phantom", "lookup of absent key k%d (hash 0x%lx) returned node %p", k, m->hash, (void *) it.node);
				return -1;
			}
			API_BEGIN("replace");
			ret = cds_lfht_replace(S.ht, &it, m->hash, match_fn, &m->key, &m->p->n);
			API_END();
			rcu_read_unlock();
			slog("#%d replace NULL-iter by k%d n%d -> %d\n", S.opi, k, nid, ret);
			m_retire(nid);
			if (ret != -ENOENT) {
				fail(ret == 0 ? "lfht-seq:replace:accepted-null" : "lfht-seq:replace:wrong-return",
				     "cds_lfht_replace with a NULL old node returned %d, documented -ENOENT (%d)", ret, -ENOENT);
				return -1;
			}
			return 0;
		}
	}
	struct meta *om = &S.meta[old];
	int newk = om->kidx;
	unsigned long newhash = om->hash;
	expect = 0;
	if (variant == 1) {
		/* different key (equal or different hash): -EINVAL */
		if (S.nkeys < 2)
			variant = 0;
		else {
			do
				newk = (int) vp_rand_n(&S.rng, (uint32_t) S.nkeys);
			while (newk == om->kidx);
			newhash = S.keyhash[newk];
			expect = -EINVAL;
		}
	} else if (variant == 2) {
		/* same key but another hash value: documented -EINVAL */
		newhash = om->hash ^ (1UL << vp_rand_n(&S.rng, 64));
		expect = -EINVAL;
	}
	nid = m_new(newk);
	struct meta *m = &S.meta[nid];
	rcu_read_lock();
	if (find_iter(old, (int) vp_rand_n(&S.rng, 4) == 0, &it) < 0) {
		rcu_read_unlock();
		return -1;
	}
	if (variant == 3) {
		/* stale iterator: the node is removed between lookup and replace (same read-side section) */
		tot_ops[OP_DEL]++;
		S.ops_used |= 1u << OP_DEL;
		API_BEGIN("del");
		ret = cds_lfht_del(S.ht, &om->p->n);
		API_END();
		if (ret) {
			rcu_read_unlock();
			fail("lfht-seq:del:failed-on-live", "cds_lfht_del of live node n%d (key k%d) returned %d", old, om->kidx, ret);
			return -1;
		}
		m_retire(old);
		expect = -ENOENT;
	}
	API_BEGIN("replace");
	ret = cds_lfht_replace(S.ht, &it, newhash, match_fn, &m->key, &m->p->n);
	API_END();
	int olddel = cds_lfht_is_node_deleted(&om->p->n);
	rcu_read_unlock();
	slog("#%d replace n%d(k%d h=0x%lx)%s by n%d(k%d h=0x%lx) -> %d\n", S.opi, old, om->kidx, om->hash,
	     variant == 3 ? "[deleted first]" : "", nid, newk, newhash, ret);
	if (ret != expect) {
		if (ret == 0)
			fail(variant == 3 ? "lfht-seq:replace:accepted-removed" : "lfht-seq:replace:accepted-mismatch",
			     "cds_lfht_replace of n%d (key k%d hash 0x%lx%s) by a node with key k%d hash 0x%lx returned 0, expected %d",
			     old, om->kidx, om->hash, variant == 3 ? ", already removed" : "", newk, newhash, expect);
		else if (expect == 0)
			fail("lfht-seq:replace:failed-on-live", "cds_lfht_replace of live node n%d (key k%d hash 0x%lx) by a node with the same key and hash returned %d",
			     old, om->kidx, om->hash, ret);
		else
			fail("lfht-seq:replace:wrong-return", "cds_lfht_replace returned %d, documented %d (%s)", ret, expect,
			     expect == -EINVAL ? "hash or key differ" : "old node already removed");
		return -1;
	}
	if (ret == 0) {
		m_retire(old);
		m_set_live(nid);
		if (!olddel) {
			fail("lfht-seq:is_node_deleted:mismatch", "cds_lfht_is_node_deleted() is 0 for node n%d that was just replaced", old);
			return -1;
		}
	} else {
		m_retire(nid);
		if (variant != 3 && olddel) {
			fail("lfht-seq:is_node_deleted:mismatch", "cds_lfht_is_node_deleted() non-zero for live node n%d after a refused replace", old);
			return -1;
		}
	}
	return 0;
}

static int do_del(void)
{
	struct cds_lfht_iter it;
	int nid = m_pick_live(), ret;
	tot_ops[OP_DEL]++;
	S.ops_used |= 1u << OP_DEL;
	if (nid < 0 || vp_rand_n(&S.rng, 40) == 0) {
		rcu_read_lock();
		API_BEGIN("del");
		ret = cds_lfht_del(S.ht, NULL);
		API_END();
		rcu_read_unlock();
		slog("#%d del NULL -> %d\n", S.opi, ret);
		if (ret >= 0) {
			fail("lfht-seq:del:accepted-null", "cds_lfht_del(ht, NULL) returned %d, documented negative", ret);
			return -1;
		}
		return 0;
	}
	struct meta *m = &S.meta[nid];
	int again = vp_rand_n(&S.rng, 4) == 0, ret2 = -1;
	rcu_read_lock();
	if (find_iter(nid, (int) vp_rand_n(&S.rng, 4) == 0, &it) < 0) {
		rcu_read_unlock();
		return -1;
	}
	int del0 = cds_lfht_is_node_deleted(cds_lfht_iter_get_node(&it));
	API_BEGIN("del");
	ret = cds_lfht_del(S.ht, cds_lfht_iter_get_node(&it));
	API_END();
	if (!ret && again) {
		API_BEGIN("del");
		ret2 = cds_lfht_del(S.ht, &m->p->n);
		API_END();
	}
	int del1 = cds_lfht_is_node_deleted(&m->p->n);
	rcu_read_unlock();
	slog("#%d del n%d(k%d h=0x%lx) -> %d%s\n", S.opi, nid, m->kidx, m->hash, ret, again ? (ret2 ? " again -> neg" : " again -> 0") : "");
	if (ret) {
		fail("lfht-seq:del:failed-on-live", "cds_lfht_del of live node n%d (key k%d hash 0x%lx) returned %d", nid, m->kidx, m->hash, ret);
		return -1;
	}
	m_retire(nid);
	if (again && ret2 >= 0) {
		fail("lfht-seq:del:succeeded-twice", "second cds_lfht_del of node n%d (key k%d) returned %d: a node must be removed exactly once", nid, m->kidx, ret2);
		return -1;
	}
	if (del0 || !del1) {
		fail("lfht-seq:is_node_deleted:mismatch", "cds_lfht_is_node_deleted() = %d before / %d after cds_lfht_del of n%d", del0, del1, nid);
		return -1;
	}
	return 0;
}

static int log2_floor(unsigned long x)
{
	return (int) cds_lfht_fls_ulong(x) - 1;
}

static unsigned long gen_resize_target(void)
{
	struct vp_rng *r = &S.rng;
	unsigned long cap = S.rcap, maxe = S.cfg.max_eff;
	unsigned long cur = __atomic_load_n(&S.ht->size, __ATOMIC_RELAXED);
	int overmax_ok = maxe <= cap;
	unsigned long lim = maxe < cap ? maxe : cap;
	for (;;) {
		uint32_t x = vp_rand_n(r, opt_nonpow2 ? 13 : 10);
		switch (x) {
		case 0:
			return 0;
		case 1:
			return 1;
		case 2:
		case 3: {
			int lo = log2_floor(lim);
			/* small targets more often than large ones */
			int k = (int) vp_rand_n(r, (uint32_t) lo + 1);
			if (k > 8 && vp_rand_n(r, 3))
				k = (int) vp_rand_n(r, 9);
			return 1UL << k;
		}
		case 4:
			if (cur * 2 <= cap || overmax_ok)
				return cur * 2;
			break;
		case 5:
			return cur > 1 ? cur / 2 : 1;
		case 6:
			if (overmax_ok)
				return maxe;
			break;
		case 7:
			if (overmax_ok) {
				unsigned long v[] = { maxe + 1, 2 * maxe, 2 * maxe + 1, 3 * maxe + 7, maxe + 2 + vp_rand_n(r, 1000) };
				return v[vp_rand_n(r, 5)];
			}
			break;
		case 8:
			if (overmax_ok)
				return ULONG_MAX;
			break;
		case 9:
			if (overmax_ok)
				return vp_rand_n(r, 4) ? maxe << (1 + vp_rand_n(r, 5)) : 1UL << 63;
			break;
		default: {
			/* non powers of two below max: only with --resize-nonpow2=1 (see C09) */
			static const unsigned long np[] = { 3, 5, 6, 7, 1000, 12, 100 };
			if (vp_rand_n(r, 2))
				return np[vp_rand_n(r, 7)];
			int k = 2 + (int) vp_rand_n(r, (uint32_t) log2_floor(lim) + 1);
			return vp_rand_n(r, 2) ? (1UL << k) + 1 : (1UL << k) - 1;
		}
		}
	}
}

static int do_resize(void)
{
#if VP_IS_QSBR
	/* known C09 issue: explicit resize vs. the worker thread on qsbr AUTO_RESIZE tables */
	if ((S.cfg.flags & CDS_LFHT_AUTO_RESIZE) && !opt_qsbr_auto_resize)
		return do_lookup((int) vp_rand_n(&S.rng, (uint32_t) S.nkeys));
#endif
	unsigned long target = gen_resize_target();
	unsigned long before = __atomic_load_n(&S.ht->size, __ATOMIC_RELAXED);
	tot_ops[OP_RESIZE]++;
	S.ops_used |= 1u << OP_RESIZE;
	slog("#%d resize %lu (size %lu", S.opi, target, before);
	/*
	 * Never from a read-side critical section.  qsbr: the header rule would mean "from an offline
	 * thread", but cds_lfht_resize() then runs rcu_read_lock() sections while offline (assertion in
	 * DEBUG_RCU builds, see report); by default call it online like the library's own worker does,
	 * --qsbr-resize-offline=1 selects the offline caller.
	 */
	if (opt_qsbr_resize_offline)
		vp_rcu_offline();
	API_BEGIN("resize");
	cds_lfht_resize(S.ht, target);
	API_END();
	if (opt_qsbr_resize_offline)
		vp_rcu_online();
	unsigned long after = __atomic_load_n(&S.ht->size, __ATOMIC_RELAXED);
	slog(" -> %lu)\n", after);
	S.resizes++;
	tot_resizes++;
	sample_size();
	return 0;
}

static int delete_all(void)
{
	/* half by traversal + del of the current node, the rest one by one */
	if (S.nlive && vp_rand_n(&S.rng, 2)) {
		if (do_traverse(1) < 0)
			return -1;
	}
	while (S.nlive) {
		struct cds_lfht_iter it;
		int nid = m_pick_live();
		struct meta *m = &S.meta[nid];
		rcu_read_lock();
		if (find_iter(nid, 0, &it) < 0) {
			rcu_read_unlock();
			return -1;
		}
		tot_ops[OP_DEL]++;
		API_BEGIN("del");
		int ret = cds_lfht_del(S.ht, cds_lfht_iter_get_node(&it));
		API_END();
		rcu_read_unlock();
		tot_evals++;
		if (ret) {
			fail("lfht-seq:del:failed-on-live", "cds_lfht_del of live node n%d (key k%d hash 0x%lx) returned %d", nid, m->kidx, m->hash, ret);
			return -1;
		}
		m_retire(nid);
		if (S.npending >= 256)
			flush_pending();
	}
	slog("#%d delete-all\n", S.opi);
	return 0;
}

/* returns 1 if the table is gone */
static int do_destroy(void)
{
	pthread_attr_t *out = (pthread_attr_t *) 0x1;
	int with_attr = S.cfg.use_attr || vp_rand_n(&S.rng, 4) == 0;
	int nlive = S.nlive;
	struct arec *ar = S.ar;
	int is_auto = S.cfg.flags & CDS_LFHT_AUTO_RESIZE;
	tot_ops[OP_DESTROY]++;
	S.ops_used |= 1u << OP_DESTROY;
	vp_rcu_offline();
	API_BEGIN("destroy");
	int ret = cds_lfht_destroy(S.ht, with_attr ? &out : NULL);
	API_END();
	vp_rcu_online();
	slog("#%d destroy (%d nodes) -> %d\n", S.opi, nlive, ret);
	if (nlive) {
		if (ret >= 0) {
			S.ht = NULL;
			fail("lfht-seq:destroy:nonempty-accepted", "cds_lfht_destroy returned %d on a table holding %d node(s)", ret, nlive);
			return -1;
		}
		return 0;
	}
	if (ret) {
		fail("lfht-seq:destroy:empty-refused", "cds_lfht_destroy returned %d on an empty table", ret);
		return -1;
	}
	S.ht = NULL;
	if (with_attr && out != (S.cfg.use_attr ? &g_attr : NULL)) {
		fail("lfht-seq:destroy:attr-mismatch", "cds_lfht_destroy stored attr=%p, cds_lfht_new was given %p", (void *) out,
		     S.cfg.use_attr ? (void *) &g_attr : NULL);
		return -1;
	}
	if (ar) {
		if (!is_auto && __atomic_load_n(&ar->outstanding, __ATOMIC_ACQUIRE) != 0) {
			fail("lfht-seq:destroy:alloc-leak", "after cds_lfht_destroy %lld allocation(s) obtained through the custom cds_lfht_alloc were not returned (alloc calls %llu, free calls %llu)",
			     (long long) ar->outstanding, (unsigned long long) (ar->n_malloc + ar->n_calloc + ar->n_aligned),
			     (unsigned long long) ar->n_free);
			return -1;
		}
		ar->destroyed = 1;
		S.ar = NULL;
	}
	return 1;
}

/* ------------------------------------------------------------------ sequence driver */

static const int weights[PR_NR][OP_NR] = {
	/*            add uniq repl replace del look ndup trav count resize destroy */
	[PR_ALL]    = { 14, 12, 10,  9, 16, 16, 0, 5, 5, 6, 3 },
	[PR_UNIQ]   = {  0, 22, 16, 10, 16, 18, 0, 5, 5, 4, 2 },
	[PR_DUPS]   = { 34,  8,  6,  8,  8, 18, 0, 6, 5, 4, 1 },
	[PR_GROW]   = { 40, 25,  5,  0,  2, 14, 0, 2, 3, 1, 0 },
	[PR_CHURN]  = { 18, 10,  6,  4, 30, 12, 0, 4, 4, 3, 2 },
	[PR_RESIZE] = { 12,  8,  5,  5,  9, 18, 0, 7, 6, 26, 3 },
};

static void seq_begin(void)
{
	struct vp_rng *r = &S.rng;
	vp_rng_init(r, vp_opt.seed, 0xc08, S.seqno);
	if (++mapgen == 0) {
		memset(map, 0, sizeof(map));
		mapgen = 1;
	}
	S.nmeta = S.nlive = S.npending = 0;
	S.stamp = 0;
	S.ops_used = 0;
	S.size_changes = 0;
	S.max_chain = S.max_dups = S.resizes = S.tables = 0;
	S.match_foreign = NULL;
	S.failed = 0;
	S.loglen = 0;
	S.log_trunc = 0;
	S.opi = 0;
	S.ht = NULL;
	S.ar = NULL;
	S.keys_unrestricted = 0;
	S.profile = (int) vp_rand_n(r, PR_NR);
	S.hashmode = (int) vp_rand_n(r, HM_NR);
	uint32_t x = vp_rand_n(r, 100);
	S.nkeys = x < 25 ? 1 + (int) vp_rand_n(r, 4) : x < 75 ? 4 + (int) vp_rand_n(r, 16) : 16 + (int) vp_rand_n(r, MAXKEYS - 15);
	x = vp_rand_n(r, 100);
	if (x < 25)
		S.nops = 3 + (int) vp_rand_n(r, 10);
	else if (x < 75)
		S.nops = 13 + (int) vp_rand_n(r, 88);
	else
		S.nops = 101 + (int) vp_rand_n(r, 200);
	if (S.profile == PR_GROW && vp_rand_n(r, 3) == 0)
		S.nops = 300 + (int) vp_rand_n(r, 500);
	if (opt_maxops && S.nops > opt_maxops)
		S.nops = (int) opt_maxops;
	S.batch = 1 + (int) vp_rand_n(r, vp_rand_n(r, 2) ? 8 : 128);
}

static void node_leak_all(void)
{
	/* after a mismatch the table state is unknown: abandon table and nodes */
	S.npending = 0;
	S.ht = NULL;
}

static void seq_end(void)
{
	tot_seqs++;
	if (S.failed) {
		node_leak_all();
		return;
	}
	int nsizes = 1 + S.size_changes;
	int nontrivial = S.max_chain >= 2 || S.size_changes > 0 || S.max_dups >= 2;
	if (nontrivial) {
		tot_nontrivial++;
		const char *shape = S.cfg.max && S.cfg.max < S.cfg.init ? "max<init" : S.cfg.min > S.cfg.init ? "min>init" : "plain";
		const char *mmn = (S.cfg.ctor == 4 || S.cfg.ctor == 5) ? "custom-alloc" : mm_names[S.cfg.mm];
		unsigned u = S.ops_used;
		vp_sig_add("%s:%s:%s:ops=%s%s%s:chain=%s:sizes=%s", mmn, flag_names[S.cfg.flags & 3], shape,
			   (u & (1u << OP_ADD)) ? "A" : "-",
			   (u & ((1u << OP_ADD_REPLACE) | (1u << OP_REPLACE))) ? "R" : "-",
			   (u & ((1u << OP_RESIZE) | (1u << OP_DESTROY))) ? "Z" : "-",
			   S.max_chain <= 1 ? "1" : S.max_chain <= 3 ? "2-3" : "4+", nsizes <= 1 ? "1" : "2+");
	}
	if (S.size_changes && !S.resizes)
		tot_auto_bg_resizes++;
	if (nontrivial && S.nops <= 14 && S.loglen < 1800 && S.log)
		vp_sample_add("seq %llu {%s} profile=%s hash=%s: %s", (unsigned long long) S.seqno, S.cfgstr,
			      profile_names[S.profile], hm_names[S.hashmode], S.log);
}

static int pick_op(void)
{
	const int *w = weights[S.profile];
	int tot = 0;
	for (int i = 0; i < OP_NR; i++)
		tot += w[i];
	int x = (int) vp_rand_n(&S.rng, (uint32_t) tot);
	for (int i = 0; i < OP_NR; i++) {
		if (x < w[i])
			return i;
		x -= w[i];
	}
	return OP_LOOKUP;
}

static int one_op(void)
{
	int op = pick_op();
	int k = (int) vp_rand_n(&S.rng, (uint32_t) S.nkeys);
	int full = S.nmeta + 4 >= MAXMETA;
	int r = 0;
	if (full && op <= OP_REPLACE)
		op = OP_LOOKUP;
	tot_evals++;
	switch (op) {
	case OP_ADD:
		r = do_add(k);
		break;
	case OP_ADD_UNIQUE:
		r = do_add_unique(k);
		break;
	case OP_ADD_REPLACE:
		r = do_add_replace(k);
		break;
	case OP_REPLACE:
		r = do_replace();
		break;
	case OP_DEL:
		r = do_del();
		break;
	case OP_LOOKUP:
		/* bias towards keys that are present */
		if (S.nlive && vp_rand_n(&S.rng, 2)) {
			int nid = m_pick_live();
			k = S.meta[nid].kidx;
		}
		r = do_lookup(k);
		break;
	case OP_TRAVERSE:
		mut_succ_every = vp_rand_n(&S.rng, 3) == 0 ? 1 + (int) vp_rand_n(&S.rng, 4) : 0;
		r = do_traverse(vp_rand_n(&S.rng, 5) == 0 ? 1 + (int) vp_rand_n(&S.rng, 4) : 0);
		mut_succ_every = 0;
		break;
	case OP_COUNT:
		r = do_count();
		break;
	case OP_RESIZE:
		r = do_resize();
		break;
	case OP_DESTROY:
		if (S.nlive && S.nlive <= 60 && vp_rand_n(&S.rng, 3) == 0 && delete_all() < 0)
			return -1;
		r = do_destroy();
		if (r == 1) {
			flush_pending();
			r = table_create();
		}
		break;
	}
	if (r < 0)
		return -1;
	return post_op_checks();
}

static int drain(void)
{
	/* final verification of the whole content, then empty the table and destroy it */
	tot_evals += 2;
	if (do_traverse(0) < 0 || do_count() < 0)
		return -1;
	S.quiet_absent = 1;
	S.absent_quiet_count = 0;
	for (int k = 0; k < S.nkeys; k++) {
		tot_evals++;
		if (do_lookup(k) < 0 || post_op_checks() < 0) {
			S.quiet_absent = 0;
			return -1;
		}
	}
	S.quiet_absent = 0;
	slog("#%d lookup of each of the %d other keys -> NULL\n", S.opi, S.absent_quiet_count);
	if (S.nlive && vp_rand_n(&S.rng, 3) == 0) {
		/* destroy must refuse while nodes remain */
		tot_evals++;
		if (do_destroy() < 0)
			return -1;
	}
	if (delete_all() < 0)
		return -1;
	tot_evals += 3;
	if (do_count() < 0 || do_traverse(0) < 0)
		return -1;
	int r = do_destroy();
	if (r < 0)
		return -1;
	flush_pending();
	return post_op_checks();
}

/* one step of the global state machine; returns 1 when everything is done */
static int step(void)
{
	switch (S.phase) {
	case PH_NEW:
		if (S.seqno >= (uint64_t) (opt_first + opt_seqs) || tot_failed_seqs >= 3)
			return 1;
		seq_begin();
		if (vp_rand_n(&S.rng, 6) == 0 && new_reject_tests() < 0) {
			seq_end();
			S.seqno++;
			return 0;
		}
		if (table_create() < 0) {
			seq_end();
			S.seqno++;
			return 0;
		}
		gen_keys();
		S.phase = PH_OPS;
		return 0;
	case PH_OPS:
		if (S.opi >= S.nops) {
			S.phase = PH_DRAIN;
			return 0;
		}
		if (one_op() < 0) {
			seq_end();
			S.seqno++;
			S.phase = PH_NEW;
			return 0;
		}
		S.opi++;
		sample_size();
		if (S.npending >= S.batch)
			flush_pending();
		vp_rcu_qs();
		return 0;
	default:
		(void) drain();
		seq_end();
		S.seqno++;
		S.phase = PH_NEW;
		return 0;
	}
}

/* ------------------------------------------------------------------ threads: one at a time */

static pthread_mutex_t turn_lock = PTHREAD_MUTEX_INITIALIZER;
static pthread_cond_t turn_cv = PTHREAD_COND_INITIALIZER;
static int turn;

static void *worker(void *arg)
{
	int me = (int) (intptr_t) arg;
	struct vp_rng hr;
	vp_pin(me);
	my_vt = vp_self();
	vp_rng_init(&hr, vp_opt.seed, 0x68616e64, (uint64_t) me);
	rcu_register_thread();
	for (;;) {
		vp_rcu_offline();
		pthread_mutex_lock(&turn_lock);
		while (turn != me && !all_done)
			pthread_cond_wait(&turn_cv, &turn_lock);
		pthread_mutex_unlock(&turn_lock);
		vp_rcu_online();
		if (VP_LOAD(all_done))
			break;
		int fin = 0;
		for (;;) {
			fin = step();
			if (fin)
				break;
			if (opt_threads > 1 && vp_rand_n(&hr, 64) == 0)
				break;
		}
		pthread_mutex_lock(&turn_lock);
		if (fin)
			all_done = 1;
		else {
			turn = (me + 1 + (int) vp_rand_n(&hr, (uint32_t) opt_threads - 1)) % (int) opt_threads;
			tot_handoffs++;
		}
		pthread_cond_broadcast(&turn_cv);
		pthread_mutex_unlock(&turn_lock);
		if (fin)
			break;
	}
	rcu_unregister_thread();
	return NULL;
}

static int confirm_stuck(char *buf, size_t len)
{
	const char *op = VP_LOAD(cur_op);
	if (VP_LOAD(in_call)) {
		/* the only thread allowed to operate has been inside one API call for the whole stall period */
		snprintf(buf, len, "hang:lfht-seq:%s", op);
		char path[512] = "";
		FILE *f = vp_witness_open("hang", path, sizeof(path));
		if (f) {
			fprintf(f, "operation %s did not return\nflavor=%s seed=%llu sequence=%llu operation=#%d\nconfig: %s\n"
				"replay: --seed=%llu --first-seq=%llu --seqs=1 --threads=%ld --resize-nonpow2=%ld\noperations so far:\n",
				op, VP_FLAVOR_NAME, (unsigned long long) vp_opt.seed, (unsigned long long) S.seqno, S.opi, S.cfgstr,
				(unsigned long long) vp_opt.seed, (unsigned long long) S.seqno, opt_threads, opt_nonpow2);
			if (S.log)
				fwrite(S.log, 1, S.loglen, f);
			fputc('\n', f);
			fclose(f);
		}
		/* recorded first: the watchdog's own record with the same key is then dropped as duplicate */
		vp_violation(buf, "cfg={%s} flavor=%s seq=%llu op=#%d: %s did not return within the stall period (single operating thread inside the call, no progress); witness=%s",
			     S.cfgstr, VP_FLAVOR_NAME, (unsigned long long) S.seqno, S.opi, op, path);
		return 1;
	}
	snprintf(buf, len, "lfht-seq: no progress outside an API call (last %s)", op);
	return 0;
}

extern unsigned int vp_tun_count_commit_order, vp_tun_min_part_order;

int main(int argc, char **argv)
{
	vp_init(argc, argv, "lfht_seq_" VP_FLAVOR_NAME);
	opt_seqs = vp_arg_long("seqs", 2000);
	opt_first = vp_arg_long("first-seq", 0);
	opt_maxops = vp_arg_long("maxops", 0);
	opt_nonpow2 = vp_arg_long("resize-nonpow2", 0);
	opt_threads = vp_arg_long("threads", 1);
	opt_verbose = vp_arg_long("verbose", 0);
	opt_qsbr_auto_resize = vp_arg_long("qsbr-auto-explicit-resize", 0);
	opt_qsbr_resize_offline = vp_arg_long("qsbr-resize-offline", 0);
	opt_focus = vp_arg("focus", NULL);
	vp_tun_count_commit_order = (unsigned) vp_arg_long("tun-commit-order", 10);
	vp_tun_min_part_order = (unsigned) vp_arg_long("tun-part-order", 12);
	if (opt_threads < 1 || opt_threads > MAXTHR)
		return 2;
	S.seqno = (uint64_t) opt_first;
	S.phase = PH_NEW;
	pthread_attr_init(&g_attr);
	vp_quar_init(&quar, 1 << 12, node_release);
	vp_watchdog_start((uint64_t) vp_arg_long("stall-ms", 20000), confirm_stuck);

	pthread_t th[MAXTHR];
	for (long i = 0; i < opt_threads; i++)
		pthread_create(&th[i], NULL, worker, (void *) (intptr_t) i);
	for (long i = 0; i < opt_threads; i++)
		pthread_join(th[i], NULL);
	vp_watchdog_stop();
#if !(VP_ASAN || VP_TSAN)
	vp_quar_drain(&quar);
#endif
	vp_counter_add("evaluations", tot_evals);
	vp_counter_add("traversal_saved_successor_deleted", tot_succ_del);
	vp_counter_add("traversal_saved_successor_replaced", tot_succ_replace);
	vp_counter_add("nontrivial", tot_nontrivial);
	vp_counter_add("sequences", tot_seqs);
	vp_counter_add("tables_created", tot_tables);
	vp_counter_add("new_reject_tests", tot_new_rejects);
	for (int i = 0; i < OP_NR; i++) {
		char name[64];
		snprintf(name, sizeof(name), "op_%s", op_names[i]);
		vp_counter_add(name, tot_ops[i]);
	}
	vp_counter_add("explicit_resizes", tot_resizes);
	vp_counter_add("table_size_changes_observed", tot_size_changes_seen);
	vp_counter_add("sequences_with_background_resize", tot_auto_bg_resizes);
	vp_counter_add("grace_periods_before_free", tot_sync);
	vp_counter_add("thread_handoffs", tot_handoffs);
	vp_counter_add("approx_count_exact", tot_approx_exact);
	vp_counter_add("approx_count_inexact", tot_approx_inexact);
	vp_counter_add("failed_sequences", tot_failed_seqs);
	return vp_finish();
}
