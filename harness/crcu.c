/*
 * crcu.c - call_rcu() / rcu_barrier() monitor (C03, C04).
 *
 * Events recorded per callback (record lives outside the object):
 *   c_call  = ts_before() right before call_rcu()
 *   enq_ret = ts_after() right after call_rcu() returned
 *   r_entry = ts_after() at callback entry
 *   done    = ts_before() as the callback's last action
 *   invoked = fetch_add counter (exactly once)
 * Oracles: exactly-once + head identity; GP-interval (no reader section with
 * b+eps<c_call and e>r_entry+eps); poison / ASan (callback retires the object that
 * was unpublished before call_rcu); rcu_barrier: every callback with
 * enq_ret+eps < barrier.call has done <= barrier.ret+eps.
 */
#include "vp.h"
#include "vp_flavor.h"

#define MAX_THR 48
#define NSLOTS 8
#define ST_LIVE   0x4c495645ULL
#define ST_POISON 0xdeadbeefdeadbeefULL
#define MAGIC 0xc0ffee1234567ULL

struct rec {
	uint64_t c_call, enq_ret, r_entry, done;
	uint32_t invoked;
	uint8_t depth, layout_rt, owner;
	uint8_t handed;
};

struct cobj {
	uint64_t magic, id, state, sum;
	struct rec *rec;
	struct rcu_head head;
	struct cobj *self;
	int depth;
};

static struct cobj *slots[NSLOTS];
static struct vp_quar quar;

/* record pools: one per enqueuer + one shared pool for children created in callbacks */
static struct rec *recs[MAX_THR];
static size_t nrecs[MAX_THR], caprecs[MAX_THR];
static struct rec *child_recs;
static size_t child_cap;
static uint64_t child_next;

static int n_enq, n_readers, n_barrier_thr, layout, rt_flag, slow_cb, max_depth, churn_helpers;
static long calls_per_enq;
static const char *cfgname;
static const char *focus;
static int stop_flag;
static uint64_t total_queued, total_invoked, handed_over_marker_base;

static inline uint64_t obj_sum(uint64_t id) { return id * 0x9e3779b97f4a7c15ULL ^ 0x1234; }

static void obj_release(void *p)
{
	struct cobj *o = p;
	if (o->state != ST_POISON || o->self != VP_POISON_PTR)
		vp_violation("late-write-to-retired-object", "cfg=%s object %llu modified in quarantine", cfgname,
			     (unsigned long long) o->id);
	free(o);
}

static struct cobj *obj_new(uint64_t id, struct rec *r, int depth)
{
	struct cobj *o = malloc(sizeof(*o));
	if (!o)
		abort();
	o->magic = MAGIC;
	o->id = id;
	o->sum = obj_sum(id);
	o->state = ST_LIVE;
	o->rec = r;
	o->self = o;
	o->depth = depth;
	return o;
}

static void do_call_rcu(struct cobj *o);

static void cb(struct rcu_head *head)
{
	uint64_t t_in = ts_after();
	struct cobj *o = caa_container_of(head, struct cobj, head);
	struct vp_thr *vt = vp_self();

	if (o->magic != MAGIC || o->self != o || o->sum != obj_sum(o->id) || o->state != ST_LIVE) {
		vp_violation(o->state == ST_POISON ? "callback-invoked-twice" : "callback-wrong-head",
			     "cfg=%s callback got head %p: magic=%llx state=%llx self=%p (object already retired or not the registered rcu_head)",
			     cfgname, (void *) head, (unsigned long long) o->magic, (unsigned long long) o->state, (void *) o->self);
		return;
	}
	struct rec *r = o->rec;
	if (__atomic_fetch_add(&r->invoked, 1, __ATOMIC_RELAXED) != 0)
		vp_violation("callback-invoked-twice", "cfg=%s object %llu", cfgname, (unsigned long long) o->id);
	VP_STORE(r->r_entry, t_in);
	if (slow_cb && vp_rand_n(&vt->rng, 16) == 0) {
		if (vp_rand_n(&vt->rng, 4) == 0)
			usleep(50 + vp_rand_n(&vt->rng, 300));
		else
			vp_spin_cycles(2000 + vp_rand_n(&vt->rng, 100000));
	}
	/* children: callbacks that re-enqueue further callbacks */
	if (o->depth < max_depth && vp_rand_n(&vt->rng, 4) == 0) {
		uint64_t k = __atomic_fetch_add(&child_next, 1, __ATOMIC_RELAXED);
		if (k < child_cap) {
			struct rec *cr = &child_recs[k];
			cr->depth = (uint8_t) (o->depth + 1);
			cr->owner = 255;
			struct cobj *c = obj_new((0xffULL << 48) | k, cr, o->depth + 1);
			__atomic_fetch_add(&total_queued, 1, __ATOMIC_RELAXED);
			do_call_rcu(c);
		}
	}
	/* retire the object: it was unpublished before call_rcu() */
	o->state = ST_POISON;
#if VP_ASAN || VP_TSAN
	__atomic_fetch_add(&total_invoked, 1, __ATOMIC_RELAXED);
	__atomic_store_n(&vt->progress, vt->progress + 1, __ATOMIC_RELAXED);
	VP_STORE(r->done, ts_before());
	free(o);
#else
	o->self = VP_POISON_PTR;
	vp_quar_put(&quar, o);
	__atomic_fetch_add(&total_invoked, 1, __ATOMIC_RELAXED);
	__atomic_store_n(&vt->progress, vt->progress + 1, __ATOMIC_RELAXED);
	VP_STORE(r->done, ts_before());
#endif
}

static void do_call_rcu(struct cobj *o)
{
	struct rec *r = o->rec;
	VP_STORE(r->c_call, ts_before());
	call_rcu(&o->head, cb);
	VP_STORE(r->enq_ret, ts_after());
}

/* ------------------------------------------------------------------ readers (as in gp.c) */

struct sec { uint64_t b, e; };
struct rthr { pthread_t tid; int idx; struct vp_rng rng; struct sec *secs; size_t nsec, cap; uint64_t total, validations; };
static struct rthr rthr[16];

static inline void validate(struct cobj *p, const char *where)
{
	if (!p)
		return;
	if (p->state != ST_LIVE || p->sum != obj_sum(p->id) || p->self != p)
		vp_violation("reader-saw-retired-object",
			     "cfg=%s %s: object %p id=%llu state=%llx inside a read-side section (callback ran too early)",
			     cfgname, where, (void *) p, (unsigned long long) p->id, (unsigned long long) p->state);
}

static void *reader_main(void *arg)
{
	struct rthr *t = arg;
	vp_pin(n_enq + t->idx);
	struct vp_thr *vt = vp_self();
	rcu_register_thread();
#if VP_IS_QSBR
	uint64_t b = ts_after();
#endif
	while (!VP_LOAD(stop_flag)) {
		struct cobj *p[3];
		int nobj = 1 + vp_rand_n(&t->rng, 3);
		rcu_read_lock();
#if !VP_IS_QSBR
		uint64_t b = ts_after();
#endif
		for (int i = 0; i < nobj; i++) {
			p[i] = rcu_dereference(slots[vp_rand_n(&t->rng, NSLOTS)]);
			validate(p[i], "deref");
		}
		vp_delay_heavy(&t->rng);
		for (int i = 0; i < nobj; i++)
			validate(p[i], "after-delay");
		t->validations += 2 * nobj;
#if !VP_IS_QSBR
		uint64_t e = ts_before();
		rcu_read_unlock();
#else
		rcu_read_unlock();
		if (vp_rand_n(&t->rng, 2))
			continue;
		uint64_t e = ts_before();
		if (vp_rand_n(&t->rng, 8) == 0) {
			rcu_thread_offline();
			vp_spin_cycles(vp_rand_n(&t->rng, 3000));
			rcu_thread_online();
		} else
			rcu_quiescent_state();
#endif
		t->total++;
		if (t->nsec < t->cap && (e - b >= 600 || !(t->total & 31) || t->nsec < (t->cap >> 1))) {
			t->secs[t->nsec].b = b;
			t->secs[t->nsec].e = e;
			t->nsec++;
		}
#if VP_IS_QSBR
		b = ts_after();
#endif
		(void) vt;	/* readers never count as progress: they run until told to stop */
	}
	rcu_unregister_thread();
	return NULL;
}

/* ------------------------------------------------------------------ enqueuers */

struct ethr { pthread_t tid; int idx; struct vp_rng rng; uint64_t queued, helper_cycles; };
static struct ethr ethr[MAX_THR];

static void *enq_main(void *arg)
{
	struct ethr *t = arg;
	vp_pin(t->idx);
	struct vp_thr *vt = vp_self();
	rcu_register_thread();
	struct call_rcu_data *mine = NULL;
	unsigned long flags = rt_flag ? URCU_CALL_RCU_RT : 0;
	int per_thread = (layout == 1) || (layout == 3 && (t->idx & 1));
	if (per_thread) {
		mine = create_call_rcu_data(flags, -1);
		set_thread_call_rcu_data(mine);
	}
	for (long i = 0; i < calls_per_enq && !vp_nviolations(); i++) {
		if (nrecs[t->idx] >= caprecs[t->idx])
			break;
		struct rec *r = &recs[t->idx][nrecs[t->idx]++];
		r->owner = (uint8_t) t->idx;
		r->layout_rt = (uint8_t) (layout * 2 + rt_flag);
		uint64_t id = ((uint64_t) (t->idx + 1) << 40) | (uint64_t) i;
		struct cobj *n = obj_new(id, r, 0);
		/* publish n; the previous occupant is unpublished and handed to call_rcu */
		struct cobj *old = rcu_xchg_pointer(&slots[vp_rand_n(&t->rng, NSLOTS)], n);
		/* `old` carries its own record from when it was published */
		if (old) {
			__atomic_fetch_add(&total_queued, 1, __ATOMIC_RELAXED);
			do_call_rcu(old);
			t->queued++;
		}
		__atomic_store_n(&vt->progress, vt->progress + 1, __ATOMIC_RELAXED);
		uint32_t x = vp_rand_n(&t->rng, 1000);
		if (x < 200)
			vp_spin_cycles(vp_rand_n(&t->rng, 4000));
		else if (x < 205)
			usleep(vp_rand_n(&t->rng, 200));
		if ((i & 63) == 63)
			usleep(500 + vp_rand_n(&t->rng, 2500));
		if (layout >= 2 && x >= 990) {
			/* migrate: per-CPU helper selection follows the current CPU */
			vp_pin_cpu(vp_cpus[vp_rand_n(&t->rng, (uint32_t) vp_ncpu)]);
		}
		vp_rcu_qs();
		if (per_thread && churn_helpers && (i % 509) == 508) {
			/* destroy the helper while callbacks are still queued on it (documented protocol) */
			struct call_rcu_data *c = get_thread_call_rcu_data();
			set_thread_call_rcu_data(NULL);
			synchronize_rcu();
			/* qsbr: waiting for a helper (which may itself be waiting for a grace
			 * period) is only legal from an offline thread */
			vp_rcu_offline();
			call_rcu_data_free(c);
			vp_rcu_online();
			mine = create_call_rcu_data(flags, -1);
			set_thread_call_rcu_data(mine);
			t->helper_cycles++;
		}
	}
	if (per_thread) {
		struct call_rcu_data *c = get_thread_call_rcu_data();
		set_thread_call_rcu_data(NULL);
		synchronize_rcu();
		vp_rcu_offline();
		call_rcu_data_free(c);
		vp_rcu_online();
	}
	rcu_unregister_thread();
	return NULL;
}

/* Stall a call_rcu() caller now and then between the choice of its helper and the enqueue, for
 * longer than a whole per-CPU helper teardown (set_cpu_call_rcu_data(NULL) x n, synchronize_rcu(),
 * stop + join + hand-over + free) takes.  On correct code the caller is inside call_rcu()'s own
 * read-side section there, so the teardown's grace period waits for it; if that section does not cover
 * the enqueue the callback lands on a stopped, freed helper (lost callback / use after free). */
static uint64_t pre_enqueue_stalls, pre_enqueue_stalls_spanning_teardown;
static uint64_t percpu_cycles;
static int ho_mode, ho_def_asleep_at_handover;
static int default_helper_state(int32_t *futex, unsigned long *qlen);
static void crcu_user_hook(int point, const void *ctx)
{
	(void) ctx;
	if (ho_mode) {
		if (point == URCU_VP_CRCU_FREE_STOPPED) {
			/* the dying helper has stopped; its leftovers are about to be handed over */
			int32_t fx = 0;
			unsigned long ql = 1;
			int ok = default_helper_state(&fx, &ql);
			VP_STORE(ho_def_asleep_at_handover, ok && fx == -1 && ql == 0);
		}
		return;
	}
	if (point != URCU_VP_CRCU_PRE_ENQUEUE || layout < 2 || !churn_helpers)
		return;
	struct vp_thr *t = vp_self();
	if (vp_rand_n(&t->rng, 1500))
		return;
	/* bounded number of long stalls per run: on correct code each one holds the manager's grace
	 * period (hence the whole teardown) until the bound expires */
	if (__atomic_fetch_add(&pre_enqueue_stalls, 1, __ATOMIC_RELAXED) >= 10) {
		usleep(2000 + vp_rand_n(&t->rng, 10000));
		return;
	}
	uint64_t c0 = VP_LOAD(percpu_cycles), t0 = vp_now_ns();
	while (VP_LOAD(percpu_cycles) < c0 + 2 && vp_now_ns() - t0 < 700000000ULL && !VP_LOAD(stop_flag))
		usleep(1000);
	if (VP_LOAD(percpu_cycles) >= c0 + 2)
		__atomic_fetch_add(&pre_enqueue_stalls_spanning_teardown, 1, __ATOMIC_RELAXED);
}

/* per-CPU helper manager */
#if !(VP_ASAN || VP_TSAN)
#include <malloc.h>
/* F5(a) again: a destroyed helper's memory is handed straight back by malloc() to the helper created
 * next, which would make a stale enqueue land on a live helper and go unnoticed.  After every teardown
 * the manager re-allocates the blocks of the destroyed per-CPU helpers itself, fills them with a
 * non-canonical pointer pattern and keeps them for two cycles: a late enqueue onto a destroyed helper
 * then faults (ASan / TSan builds rely on the sanitizer's own quarantine instead). */
#define SPOIL_MAX 512
static void *spoil[2][SPOIL_MAX];
static int nspoil[2];
static uint64_t spoiled_blocks;
static int snapshot_percpu(void **stale, size_t *usz)
{
	int n = 0;
	long ncpu = sysconf(_SC_NPROCESSORS_CONF);
	for (long c = 0; c < ncpu && n < SPOIL_MAX; c++) {
		struct call_rcu_data *d = get_cpu_call_rcu_data((int) c);
		if (d) {
			stale[n++] = d;
			*usz = malloc_usable_size(d);
		}
	}
	return n;
}
static void spoil_freed(void **stale, int ns, size_t usz, int gen)
{
	for (int i = 0; i < nspoil[gen]; i++)
		free(spoil[gen][i]);
	nspoil[gen] = 0;
	if (!ns || !usz)
		return;
	void *extra[4 * SPOIL_MAX];
	int nextra = 0, got = 0;
	for (int tries = 0; tries < 4 * ns && got < ns && nextra < 4 * SPOIL_MAX; tries++) {
		void *p = malloc(usz);
		int hit = 0;
		for (int i = 0; i < ns; i++)
			if (stale[i] == p) { hit = 1; break; }
		if (hit) {
			uint64_t *w = p;
			for (size_t k = 0; k < usz / 8; k++)
				w[k] = (uint64_t) (uintptr_t) VP_POISON_PTR;
			spoil[gen][nspoil[gen]++] = p;
			got++;
		} else
			extra[nextra++] = p;
	}
	for (int i = 0; i < nextra; i++)
		free(extra[i]);
	spoiled_blocks += (uint64_t) got;
}
#endif

static void *manager_main(void *arg)
{
	(void) arg;
	vp_pin(n_enq + n_readers + n_barrier_thr);
	rcu_register_thread();
	struct vp_rng r;
	vp_rng_init(&r, vp_opt.seed, 0x3a3a, 0);
	unsigned long flags = rt_flag ? URCU_CALL_RCU_RT : 0;
	while (!VP_LOAD(stop_flag)) {
		vp_rcu_offline();
		usleep(2000 + vp_rand_n(&r, 6000));
		vp_rcu_online();
		if (!churn_helpers)
			continue;
#if !(VP_ASAN || VP_TSAN)
		void *stale[SPOIL_MAX];
		size_t usz = 0;
		int ns = snapshot_percpu(stale, &usz);
#endif
		vp_rcu_offline();
		free_all_cpu_call_rcu_data();
		vp_rcu_online();
#if !(VP_ASAN || VP_TSAN)
		spoil_freed(stale, ns, usz, (int) (percpu_cycles & 1));
#endif
		if (create_all_cpu_call_rcu_data(flags))
			vp_violation("create_all_cpu_call_rcu_data-failed", "cfg=%s errno=%d", cfgname, errno);
		VP_STORE(percpu_cycles, percpu_cycles + 1);
		__atomic_store_n(&vp_self()->progress, vp_self()->progress + 1, __ATOMIC_RELAXED);
	}
	rcu_unregister_thread();
	return NULL;
}

/* ------------------------------------------------------------------ barrier callers */

struct bar { uint64_t call, ret; };
struct bthr { pthread_t tid; int idx; struct vp_rng rng; struct bar *bars; size_t nbar, cap; };
static struct bthr bthr[8];

static void *barrier_main(void *arg)
{
	struct bthr *t = arg;
	vp_pin(n_enq + n_readers + t->idx);
	int reg = (t->idx & 1) || VP_IS_QSBR;
	if (reg)
		rcu_register_thread();
	while (!VP_LOAD(stop_flag) && t->nbar < t->cap) {
		int offline = VP_IS_QSBR && vp_rand_n(&t->rng, 2);
		if (offline)
			vp_rcu_offline();
		uint64_t c = ts_before();
		rcu_barrier();
		uint64_t r = ts_after();
		if (offline)
			vp_rcu_online();
		t->bars[t->nbar].call = c;
		t->bars[t->nbar].ret = r;
		t->nbar++;
		__atomic_store_n(&vp_self()->progress, vp_self()->progress + 1, __ATOMIC_RELAXED);
		if (vp_rand_n(&t->rng, 3))
			usleep(vp_rand_n(&t->rng, 1500));
		vp_rcu_qs();
	}
	if (reg)
		rcu_unregister_thread();
	return NULL;
}

/* ------------------------------------------------------------------ checks */

static const char *phase = "init";
static int confirm_stuck(char *buf, size_t len)
{
	struct vp_crdp_info info[64];
	int n = VP_PEEK(crdp_snapshot)(info, 64);
	unsigned long q = 0;
	int asleep = 0;
	for (int i = 0; i < n && i < 64; i++) {
		q += info[i].qlen;
		if (info[i].futex == -1)
			asleep++;
	}
	snprintf(buf, len, "hang:crcu:%s:phase=%s", cfgname, phase);
	fprintf(stderr, "stuck: helpers=%d asleep=%d qlen=%lu queued=%llu invoked=%llu\n", n, asleep, q,
		(unsigned long long) total_queued, (unsigned long long) total_invoked);
	return 1;
}

static int cmp_u64(const void *a, const void *b)
{
	uint64_t x = *(const uint64_t *) a, y = *(const uint64_t *) b;
	return x < y ? -1 : x > y;
}

static void check_rec(struct rec *rr, uint64_t *ev, uint64_t *nontriv, int c04)
{
	struct rec snap, *r = &snap;
	snap = *rr;
	snap.c_call = VP_LOAD(rr->c_call);
	snap.enq_ret = VP_LOAD(rr->enq_ret);
	snap.r_entry = VP_LOAD(rr->r_entry);
	snap.done = VP_LOAD(rr->done);
	snap.invoked = VP_LOAD(rr->invoked);
	if (!r->c_call)
		return;		/* never queued (object still published at the end) */
	if (r->invoked != 1) {
		vp_violation(r->invoked ? "callback-invoked-twice" : "callback-never-invoked",
			     "cfg=%s callback queued at %llu (owner %d depth %d) invoked %u times at quiescence",
			     cfgname, (unsigned long long) r->c_call, r->owner, r->depth, r->invoked);
		return;
	}
	if (c04)
		return;
	(*ev)++;
	int overl = 0;
	for (int rd = 0; rd < n_readers; rd++) {
		struct rthr *t = &rthr[rd];
		size_t lo = 0, hi = t->nsec;
		while (lo < hi) {
			size_t mid = (lo + hi) / 2;
			if (t->secs[mid].b < r->c_call)
				lo = mid + 1;
			else
				hi = mid;
		}
		if (!lo)
			continue;
		struct sec *s = &t->secs[lo - 1];
		if (s->e > r->c_call)
			overl++;
		if (vp_eps && s->b + vp_eps < r->c_call && s->e > r->r_entry + vp_eps)
			vp_violation("callback-before-grace-period",
				     "cfg=%s callback (call_rcu at %llu, invoked at %llu, depth %d) ran while reader %d section [%llu,%llu] that began before call_rcu() was still open (eps=%llu)",
				     cfgname, (unsigned long long) r->c_call, (unsigned long long) r->r_entry, r->depth, rd,
				     (unsigned long long) s->b, (unsigned long long) s->e, (unsigned long long) vp_eps);
	}
	if (overl) {
		(*nontriv)++;
		vp_sig_add("%s:layout=%d:rt=%d:depth=%d:pre-existing=%d:latency=%s", cfgname, layout, rt_flag, r->depth,
			   overl > 3 ? 3 : overl,
			   (r->r_entry - r->c_call) > 42000000 ? ">20ms" : ((r->r_entry - r->c_call) > 21000000 ? ">10ms" : "<10ms"));
	}
}

static void check_barriers(uint64_t *ev, uint64_t *nontriv)
{
	/* collect (enq_ret, done) of all invoked callbacks, sorted by enq_ret; suffix-max of done */
	size_t n = 0, cap = 0;
	for (int i = 0; i < n_enq; i++)
		cap += nrecs[i];
	uint64_t nchild = child_next < child_cap ? child_next : child_cap;
	cap += nchild;
	uint64_t (*pairs)[2] = malloc((cap + 1) * sizeof(*pairs));
	for (int i = 0; i < n_enq; i++)
		for (size_t k = 0; k < nrecs[i]; k++)
			if (VP_LOAD(recs[i][k].c_call) && VP_LOAD(recs[i][k].invoked)) {
				pairs[n][0] = VP_LOAD(recs[i][k].enq_ret);
				pairs[n][1] = VP_LOAD(recs[i][k].done);
				n++;
			}
	for (uint64_t k = 0; k < nchild; k++)
		if (VP_LOAD(child_recs[k].c_call) && VP_LOAD(child_recs[k].invoked)) {
			pairs[n][0] = VP_LOAD(child_recs[k].enq_ret);
			pairs[n][1] = VP_LOAD(child_recs[k].done);
			n++;
		}
	qsort(pairs, n, sizeof(*pairs), cmp_u64);
	/* prefix max of done over callbacks ordered by enq_ret */
	uint64_t *pmax = malloc((n + 1) * sizeof(uint64_t));
	uint64_t m = 0;
	for (size_t i = 0; i < n; i++) {
		if (pairs[i][1] > m)
			m = pairs[i][1];
		pmax[i] = m;
	}
	for (int b = 0; b < n_barrier_thr; b++) {
		struct bthr *t = &bthr[b];
		for (size_t i = 0; i < t->nbar; i++) {
			uint64_t c = t->bars[i].call, r = t->bars[i].ret;
			(*ev)++;
			if (!vp_eps)
				continue;
			/* callbacks with enq_ret + eps < c */
			size_t lo = 0, hi = n;
			while (lo < hi) {
				size_t mid = (lo + hi) / 2;
				if (pairs[mid][0] + vp_eps < c)
					lo = mid + 1;
				else
					hi = mid;
			}
			if (!lo)
				continue;
			if (pmax[lo - 1] > r + vp_eps)
				vp_violation("barrier-returned-before-callback-finished",
					     "cfg=%s rcu_barrier() [%llu,%llu] returned although a callback whose call_rcu() had returned before the barrier was called finished at %llu (eps=%llu)",
					     cfgname, (unsigned long long) c, (unsigned long long) r,
					     (unsigned long long) pmax[lo - 1], (unsigned long long) vp_eps);
			/* non-trivial: some earlier callback was still pending when the barrier was called */
			size_t pending = 0;
			for (size_t k = lo; k-- > 0 && lo - k < 4096;)
				if (pairs[k][1] > c)
					pending++;
			if (pending) {
				(*nontriv)++;
				vp_sig_add("%s:barrier:layout=%d:rt=%d:pending=%s:callers=%d", cfgname, layout, rt_flag,
					   pending > 100 ? ">100" : (pending > 10 ? ">10" : (pending > 1 ? ">1" : "1")), n_barrier_thr);
				if (*nontriv <= 2)
					vp_sample_add("cfg=%s rcu_barrier [%llu,%llu] (%.0f us): %zu earlier callbacks still pending at call, latest of them finished %lld cycles before return",
						      cfgname, (unsigned long long) c, (unsigned long long) r,
						      (r - c) / (vp_tsc_ghz * 1000), pending, (long long) (r - pmax[lo - 1]));
			}
		}
	}
	free(pairs);
	free(pmax);
}

/* ------------------------------------------------------------------ mode=handover
 * Quiet hand-over: nobody but the actors below touches call_rcu.  A per-thread helper H is busy with a slow
 * callback; rcu_barrier() starts (its marker for H waits in H's queue behind the running batch; the default
 * helper runs its own marker and goes back to sleep); then H is destroyed.  H leaves the marker queued, it is
 * handed over to the sleeping default helper, which must be woken for it - there is no other traffic that
 * would wake it by accident.  The barrier must return, and only after the slow callback has finished. */
struct ho_cb { struct rcu_head head; int started, done; uint32_t ms; };
static void ho_slow_cb(struct rcu_head *h)
{
	struct ho_cb *c = caa_container_of(h, struct ho_cb, head);
	VP_STORE(c->started, 1);
	usleep(c->ms * 1000);
	VP_STORE(c->done, 1);
}
static int ho_bar_done;
static struct ho_cb *ho_cur;
static void *ho_barrier_main(void *arg)
{
	(void) arg;
	vp_pin(2);
	/* not a registered reader: rcu_barrier() must not be called from a read-side section (qsbr: online) */
	rcu_barrier();
	if (!VP_LOAD(ho_cur->done))
		vp_violation("barrier-returned-before-callback-finished",
			     "cfg=%s handover mode: rcu_barrier() returned while the callback queued before it on the helper being destroyed was still running", cfgname);
	VP_STORE(ho_bar_done, 1);
	return NULL;
}
static int default_helper_state(int32_t *futex, unsigned long *qlen)
{
	struct vp_crdp_info info[64];
	int n = VP_PEEK(crdp_snapshot)(info, 64);
	for (int i = 0; i < n && i < 64; i++)
		if (info[i].is_default) {
			*futex = info[i].futex;
			*qlen = info[i].qlen;
			return 1;
		}
	return 0;
}
static struct ho_cb *ho_extra[8];
static int run_handover(long rounds)
{
	int with_barrier = (int) vp_arg_long("ho-barrier", 1);
	struct vp_rng r;
	uint64_t ev = 0, nontriv = 0, asleep_at_free = 0;
	vp_rng_init(&r, vp_opt.seed, 0x4a9d, 0);
	vp_pin(0);
	vp_lib_thread_slot_base(1);
	ho_mode = 1;
	vp_user_hook = crcu_user_hook;
	rcu_register_thread();
	vp_rcu_offline();
	(void) get_default_call_rcu_data();	/* the default helper exists (and goes to sleep) from the start */
	rcu_barrier();
	vp_rcu_online();
	for (long i = 0; i < rounds && !vp_nviolations(); i++) {
		struct ho_cb *c = calloc(1, sizeof(*c));
		c->ms = 80 + vp_rand_n(&r, 60);
		ho_cur = c;
		VP_STORE(ho_bar_done, 0);
		struct call_rcu_data *H = create_call_rcu_data(vp_rand_n(&r, 2) ? URCU_CALL_RCU_RT : 0, -1);
		set_thread_call_rcu_data(H);
		call_rcu(&c->head, ho_slow_cb);
		vp_rcu_offline();
		for (int k = 0; k < 4000 && !VP_LOAD(c->started); k++)
			usleep(100);
		int nextra = 0;
		if (!with_barrier) {
			/* callbacks queued behind the running batch: they are still on H's queue when H stops */
			vp_rcu_online();
			nextra = 1 + (int) vp_rand_n(&r, 5);
			for (int k = 0; k < nextra; k++) {
				ho_extra[k] = calloc(1, sizeof(struct ho_cb));
				ho_extra[k]->ms = 0;
				call_rcu(&ho_extra[k]->head, ho_slow_cb);
			}
			vp_rcu_offline();
		}
		/* wait until the default helper sleeps with an empty queue */
		int32_t fx = 0; unsigned long ql = 1;
		for (int k = 0; k < 3000; k++) {
			if (default_helper_state(&fx, &ql) && fx == -1 && ql == 0)
				break;
			usleep(200);
		}
		pthread_t bt;
		if (with_barrier)
			pthread_create(&bt, NULL, ho_barrier_main, NULL);
		/* long enough for the default helper to run its own marker and go back to sleep */
		usleep(25000 + vp_rand_n(&r, 20000));
		VP_STORE(ho_def_asleep_at_handover, 0);
		vp_rcu_online();
		set_thread_call_rcu_data(NULL);
		vp_rcu_offline();
		synchronize_rcu();
		call_rcu_data_free(H);
		/* nothing else happens from here on */
		uint64_t t0 = vp_now_ns();
		int stuck = 0;
		for (;;) {
			if (with_barrier) {
				if (VP_LOAD(ho_bar_done))
					break;
			} else {
				int all = VP_LOAD(c->done);
				for (int k = 0; k < nextra; k++)
					all = all && VP_LOAD(ho_extra[k]->done);
				if (all)
					break;
			}
			usleep(2000);
			uint64_t el = vp_now_ns() - t0;
			if (el > 3000000000ULL && ((el / 1000000) % 1000) < 3) {
				/* confirm the stuck state: marker(s) queued on a sleeping default helper */
				if (default_helper_state(&fx, &ql) && fx == -1 && ql > 0 && el > 6000000000ULL) {
					stuck = 1;
					break;
				}
			}
			if (el > 120000000000ULL)
				break;
		}
		if (stuck && !with_barrier) {
			vp_violation("callback-never-invoked:handed-over-callbacks-on-sleeping-default-helper",
				     "cfg=%s handover round %ld: callbacks left on a destroyed helper were handed over to the default helper, which sleeps (futex=-1) with qlen=%lu; nothing has been invoked for %llu ms and there is no other call_rcu traffic",
				     cfgname, i, ql, (unsigned long long) ((vp_now_ns() - t0) / 1000000));
			struct ho_cb *kick = calloc(1, sizeof(*kick));
			vp_rcu_online();
			call_rcu(&kick->head, ho_slow_cb);
			vp_rcu_offline();
		} else if (stuck) {
			vp_violation("hang:rcu_barrier:handed-over-callbacks-on-sleeping-default-helper",
				     "cfg=%s handover round %ld: rcu_barrier() has not returned %llu ms after call_rcu_data_free() of a helper that still held the barrier's marker; default helper futex=-1 (asleep) with qlen=%lu and no other call_rcu traffic",
				     cfgname, i, (unsigned long long) ((vp_now_ns() - t0) / 1000000), ql);
			/* unblock so that the process can finish */
			struct ho_cb *kick = calloc(1, sizeof(*kick));
			kick->ms = 0;
			vp_rcu_online();
			call_rcu(&kick->head, ho_slow_cb);
			vp_rcu_offline();
		} else if (with_barrier && !VP_LOAD(ho_bar_done))
			vp_inconclusive("handover: rcu_barrier() did not return within 120 s but the stuck state was not confirmed");
		if (with_barrier)
			pthread_join(bt, NULL);
		vp_rcu_online();
		int def_asleep = VP_LOAD(ho_def_asleep_at_handover);
		ev++;
		nontriv += (uint64_t) def_asleep;
		asleep_at_free += (uint64_t) def_asleep;
		vp_sig_add("%s:handover:default-helper-%s-at-free:slow-cb-%s", cfgname, def_asleep ? "asleep" : "awake",
			   c->ms > 70 ? "long" : "short");
		if (i < 2)
			vp_sample_add("cfg=%s handover round %ld: helper busy with a %u ms callback, rcu_barrier() started, helper destroyed 25-45 ms later (default helper %s when the leftovers were handed over), barrier returned %llu ms after the free and after the callback finished",
				      cfgname, i, c->ms, def_asleep ? "asleep" : "awake", (unsigned long long) ((vp_now_ns() - t0) / 1000000));
		__atomic_store_n(&vp_self()->progress, vp_self()->progress + 1, __ATOMIC_RELAXED);
	}
	vp_rcu_offline();
	rcu_barrier();
	vp_rcu_online();
	rcu_unregister_thread();
	vp_counter_add("evaluations", ev);
	vp_counter_add("nontrivial", nontriv);
	vp_counter_add("handover_rounds_default_helper_asleep_at_free", asleep_at_free);
	return vp_finish();
}

int main(int argc, char **argv)
{
	vp_init(argc, argv, "crcu_" VP_FLAVOR_NAME);
	cfgname = vp_arg("cfg", VP_FLAVOR_NAME);
	if (!strcmp(vp_arg("mode", "mixed"), "handover"))
		return run_handover(vp_arg_long("rounds", 30));
	focus = vp_arg("focus", "c03");
	n_enq = (int) vp_arg_long("enqueuers", 4);
	n_readers = (int) vp_arg_long("readers", 2);
	n_barrier_thr = (int) vp_arg_long("barriers", 1);
	layout = (int) vp_arg_long("layout", 0);	/* 0 default, 1 per-thread, 2 per-cpu, 3 mixed */
	rt_flag = (int) vp_arg_long("rt", 0);
	slow_cb = (int) vp_arg_long("slow-cb", 1);
	max_depth = (int) vp_arg_long("depth", 3);
	churn_helpers = (int) vp_arg_long("churn", 1);
	calls_per_enq = vp_arg_long("calls", 30000);
	double hookp = vp_arg_double("hook-prob", 0.02);
	int c04 = !strcmp(focus, "c04");
	if (n_enq > MAX_THR - 12 || n_readers > 16 || n_barrier_thr > 8)
		return 2;

	int pts[] = { URCU_VP_CRCU_ENQUEUED, URCU_VP_CRCU_HELPER_SPLICED, URCU_VP_CRCU_HELPER_PRE_SLEEP,
		URCU_VP_CRCU_FREE_STOPPED, URCU_VP_CRCU_FREE_HANDOVER, URCU_VP_CRCU_BARRIER_QUEUED,
		URCU_VP_CRCU_BARRIER_PRE_WAIT, URCU_VP_CRCU_BARRIER_WAKE, URCU_VP_CRCU_HELPER_STOP,
		URCU_VP_WFCQ_APPEND_MID, URCU_VP_WFCQ_SPLICE_MID };
	for (unsigned i = 0; i < sizeof(pts) / sizeof(pts[0]); i++)
		vp_point_set(pts[i], pts[i] == URCU_VP_CRCU_ENQUEUED || pts[i] == URCU_VP_WFCQ_APPEND_MID ? hookp / 10 : hookp * 5 > 0.5 ? 0.5 : hookp * 5,
			     VP_D_HEAVY);

	vp_user_hook = crcu_user_hook;
	vp_quar_init(&quar, 1 << 17, obj_release);
	for (int i = 0; i < n_enq; i++) {
		caprecs[i] = (size_t) calls_per_enq + NSLOTS + 1;
		recs[i] = calloc(caprecs[i], sizeof(struct rec));
	}
	child_cap = (size_t) n_enq * (size_t) calls_per_enq;
	child_recs = calloc(child_cap + 1, sizeof(struct rec));
	/* initial occupants get records from enqueuer 0's pool */
	for (int k = 0; k < NSLOTS; k++) {
		struct rec *r = &recs[0][nrecs[0]++];
		slots[k] = obj_new(0x1000 + (uint64_t) k, r, 0);
	}
	/* each newly published object needs its record: obj_new in enq_main passes r (used when it is retired later) */

	rcu_register_thread();
	if (layout >= 2) {
		if (create_all_cpu_call_rcu_data(rt_flag ? URCU_CALL_RCU_RT : 0))
			vp_violation("create_all_cpu_call_rcu_data-failed", "cfg=%s errno=%d", cfgname, errno);
	}
	vp_rcu_offline();
	vp_watchdog_start((uint64_t) vp_arg_long("stall-ms", 20000), confirm_stuck);
	phase = "run";
	for (int i = 0; i < n_readers; i++) {
		rthr[i].idx = i;
		vp_rng_init(&rthr[i].rng, vp_opt.seed, 0x7ead, (uint64_t) i);
		rthr[i].cap = 1 << 20;
		rthr[i].secs = malloc(rthr[i].cap * sizeof(struct sec));
		pthread_create(&rthr[i].tid, NULL, reader_main, &rthr[i]);
	}
	for (int i = 0; i < n_barrier_thr; i++) {
		bthr[i].idx = i;
		vp_rng_init(&bthr[i].rng, vp_opt.seed, 0xba44, (uint64_t) i);
		bthr[i].cap = 1 << 16;
		bthr[i].bars = malloc(bthr[i].cap * sizeof(struct bar));
		pthread_create(&bthr[i].tid, NULL, barrier_main, &bthr[i]);
	}
	pthread_t mgr;
	int have_mgr = layout >= 2;
	if (have_mgr)
		pthread_create(&mgr, NULL, manager_main, NULL);
	for (int i = 0; i < n_enq; i++) {
		ethr[i].idx = i;
		vp_rng_init(&ethr[i].rng, vp_opt.seed, 0xe49, (uint64_t) i);
		pthread_create(&ethr[i].tid, NULL, enq_main, &ethr[i]);
	}
	for (int i = 0; i < n_enq; i++)
		pthread_join(ethr[i].tid, NULL);
	phase = "stopping";
	VP_STORE(stop_flag, 1);
	for (int i = 0; i < n_barrier_thr; i++)
		pthread_join(bthr[i].tid, NULL);
	if (have_mgr)
		pthread_join(mgr, NULL);
	for (int i = 0; i < n_readers; i++)
		pthread_join(rthr[i].tid, NULL);
	phase = "final-barriers";
	/* quiescence: callbacks may re-enqueue up to max_depth generations */
	for (int i = 0; i <= max_depth + 1; i++)
		rcu_barrier();
	phase = "teardown";
	if (layout >= 2) {
		free_all_cpu_call_rcu_data();
		for (int i = 0; i <= max_depth + 1; i++)
			rcu_barrier();
	}
	vp_watchdog_stop();
	phase = "check";

	uint64_t q = __atomic_load_n(&total_queued, __ATOMIC_SEQ_CST), inv = __atomic_load_n(&total_invoked, __ATOMIC_SEQ_CST);
	if (q != inv)
		vp_violation(inv < q ? "callback-never-invoked" : "callback-invoked-twice",
			     "cfg=%s %llu callbacks queued, %llu invoked after rcu_barrier() x%d at quiescence",
			     cfgname, (unsigned long long) q, (unsigned long long) inv, max_depth + 2);
	uint64_t ev = 0, nontriv = 0;
	for (int i = 0; i < n_enq; i++)
		for (size_t k = 0; k < nrecs[i]; k++)
			check_rec(&recs[i][k], &ev, &nontriv, c04);
	uint64_t nchild = child_next < child_cap ? child_next : child_cap;
	for (uint64_t k = 0; k < nchild; k++)
		check_rec(&child_recs[k], &ev, &nontriv, c04);
	uint64_t bev = 0, bnontriv = 0;
	check_barriers(&bev, &bnontriv);
	if (!vp_eps)
		vp_inconclusive("tsc-calibration-failed: interval oracles skipped");
	if (c04) {
		vp_counter_add("evaluations", bev);
		vp_counter_add("nontrivial", bnontriv);
	} else {
		vp_counter_add("evaluations", ev);
		vp_counter_add("nontrivial", nontriv);
		if (nontriv)
			vp_sample_add("cfg=%s layout=%d rt=%d: %llu callbacks checked, %llu of them found an open reader section at call_rcu(); children=%llu",
				      cfgname, layout, rt_flag, (unsigned long long) ev, (unsigned long long) nontriv,
				      (unsigned long long) nchild);
	}
	uint64_t hc = 0, secs = 0, vals = 0, nb = 0;
	for (int i = 0; i < n_enq; i++)
		hc += ethr[i].helper_cycles;
	for (int i = 0; i < n_readers; i++) {
		secs += rthr[i].total;
		vals += rthr[i].validations;
	}
	for (int i = 0; i < n_barrier_thr; i++)
		nb += bthr[i].nbar;
	vp_counter_add("callbacks_queued", q);
	vp_counter_add("callbacks_invoked", inv);
	vp_counter_add("children", nchild);
	vp_counter_add("barriers", nb);
	vp_counter_add("barriers_nontrivial", bnontriv);
	vp_counter_add("helper_destroy_cycles", hc);
	vp_counter_add("percpu_recreate_cycles", percpu_cycles);
	vp_counter_add("pre_enqueue_stalls", __atomic_load_n(&pre_enqueue_stalls, __ATOMIC_RELAXED));
	vp_counter_add("pre_enqueue_stalls_spanning_teardown", __atomic_load_n(&pre_enqueue_stalls_spanning_teardown, __ATOMIC_RELAXED));
#if !(VP_ASAN || VP_TSAN)
	vp_counter_add("destroyed_helper_blocks_poisoned", spoiled_blocks);
#endif
	vp_counter_add("reader_sections", secs);
	vp_counter_add("reader_validations", vals);
#if !(VP_ASAN || VP_TSAN)
	vp_quar_drain(&quar);
#endif
	(void) handed_over_marker_base;
	return vp_finish();
}
