/*
 * progress_q.h - C17 groups wfcq, wfs, lfs, lfq (included by progress.c).
 *
 * Every triple builds fresh structures (nodes malloc()ed, freed at the end: ASan sees late accesses),
 * parks 1-3 operations, runs ONE subject operation under the step counter, checks its result against
 * the sequential model extended with the parked operations, releases, and compares the final content.
 *
 * Linearisation knowledge used for the parked operations (documented in the library source):
 *   wfcq enqueue / splice-destination append parked at WFCQ_APPEND_MID : linearised (tail exchanged),
 *        its nodes are NOT reachable from the head yet  -> a "gap" after the reachable prefix;
 *   wfcq dequeue parked at WFCQ_DEQ_BEFORE_CMPXCHG, wfcq splice (source side) at WFCQ_SPLICE_MID,
 *   wfs/lfs pop before cmpxchg, lfs push before cmpxchg, lfq dequeue before cmpxchg : NOT linearised;
 *   wfs push parked at WFS_PUSH_MID : linearised, the top node's next is unknown (gap at the top);
 *   lfq enqueue parked at LFQ_ENQ_LINKED : linearised and fully reachable (tail pointer lags).
 * Mutual exclusion rules of the headers are respected: the subject dequeues / iterates / splices-from a
 * wfcq only when no parked thread is a consumer of that queue; concurrent pops on the stacks follow the
 * documented RCU scheme (every popper inside a read-side section, nodes untouched until the triple ends).
 */

#define QN_MAX 40
struct qn {
	union {
		struct cds_wfcq_node c;
		struct cds_wfs_node w;
		struct cds_lfs_node l;
		struct cds_lfq_node_rcu q;
	} u;
	int id;
};

struct idl { int v[QN_MAX]; int n; };
static inline void idl_push(struct idl *l, int id) { if (l->n < QN_MAX) l->v[l->n++] = id; }
static inline int idl_pop_front(struct idl *l)
{
	int id = l->v[0];
	memmove(l->v, l->v + 1, sizeof(int) * (size_t) (l->n - 1));
	l->n--;
	return id;
}
static inline void idl_cat(struct idl *d, struct idl *s) { for (int i = 0; i < s->n; i++) idl_push(d, s->v[i]); s->n = 0; }
static const char *idl_str(const struct idl *l, char *buf, size_t len)
{
	size_t off = 0;
	buf[0] = 0;
	off += (size_t) snprintf(buf + off, len - off, "[");
	for (int i = 0; i < l->n && off < len - 8; i++)
		off += (size_t) snprintf(buf + off, len - off, "%s%d", i ? "," : "", l->v[i]);
	snprintf(buf + off, len - off, "]");
	return buf;
}

static const char *const st3_name[3] = { "empty", "one-node", "several" };
static const int st3_n[3] = { 0, 1, 3 };

/* ====================================================================== wfcq */

struct wq {
	struct cds_wfcq_head lh;
	struct __cds_wfcq_head sh;
	struct cds_wfcq_tail tail;
	int sc;
};
static inline cds_wfcq_head_ptr_t wq_head(struct wq *q)
{
	cds_wfcq_head_ptr_t u;
	if (q->sc)
		u._h = &q->sh;
	else
		u.h = &q->lh;
	return u;
}
static inline cds_wfcq_head_const_ptr_t wq_chead(struct wq *q)
{
	cds_wfcq_head_const_ptr_t u;
	if (q->sc)
		u._h = &q->sh;
	else
		u.h = &q->lh;
	return u;
}
static void wq_init(struct wq *q, int sc)
{
	q->sc = sc;
	if (sc)
		__cds_wfcq_init(&q->sh, &q->tail);
	else
		cds_wfcq_init(&q->lh, &q->tail);
}
static void wq_fini(struct wq *q)
{
	if (!q->sc)
		cds_wfcq_destroy(&q->lh, &q->tail);
}

struct wfcq_env {
	struct wq q, q2, q3, q4;
	struct qn *pool;
	int npool;
	struct idl L, L2, L4;	/* model content (ids) of q, q2, q4; q3 is the parked splicer's source */
	int reach;		/* reachable prefix of L; reach < L.n  <=> gap */
};

static struct qn *wfcq_node(struct wfcq_env *e)
{
	struct qn *n = &e->pool[e->npool];
	n->id = ++e->npool;
	cds_wfcq_node_init(&n->u.c);
	return n;
}
#define qn_of_c(p) ((struct qn *) ((char *) (p) - offsetof(struct qn, u.c)))

static void wfcq_env_init(struct wfcq_env *e, int sc, int n)
{
	memset(e, 0, sizeof(*e));
	e->pool = calloc(QN_MAX, sizeof(struct qn));
	wq_init(&e->q, sc);
	wq_init(&e->q2, sc);
	wq_init(&e->q3, sc);
	wq_init(&e->q4, sc);
	for (int i = 0; i < n; i++) {
		struct qn *x = wfcq_node(e);
		cds_wfcq_enqueue(wq_head(&e->q), &e->q.tail, &x->u.c);
		idl_push(&e->L, x->id);
	}
	e->reach = n;
}

static void wfcq_drain_check(struct wfcq_env *e, struct wq *q, struct idl *model, const char *qname, const char *opname)
{
	struct idl got = { .n = 0 };
	struct cds_wfcq_node *c;
	char a[200], b[200];
	while ((c = __cds_wfcq_dequeue_blocking(wq_head(q), &q->tail)) != NULL)
		idl_push(&got, qn_of_c(c)->id);
	if (got.n != model->n || memcmp(got.v, model->v, sizeof(int) * (size_t) got.n))
		triple_final_wrong(opname, "queue %s holds %s, the model says %s", qname, idl_str(&got, a, sizeof(a)),
				   idl_str(model, b, sizeof(b)));
	(void) e;
}

static void wfcq_env_fini(struct wfcq_env *e, const char *opname)
{
	wfcq_drain_check(e, &e->q, &e->L, "q", opname);
	wfcq_drain_check(e, &e->q2, &e->L2, "q2", opname);
	wfcq_drain_check(e, &e->q4, &e->L4, "q4", opname);
	wq_fini(&e->q);
	wq_fini(&e->q2);
	wq_fini(&e->q3);
	wq_fini(&e->q4);
	free(e->pool);
}

enum { WPK_ENQ, WPK_DEQ, WPK_SPLICE_OUT, WPK_SPLICE_IN };
struct wfcq_parg { struct wfcq_env *e; int kind; struct qn *node; };

static void pk_wfcq(struct parker *p, void *a)
{
	struct wfcq_parg *g = a;
	struct wfcq_env *e = g->e;
	switch (g->kind) {
	case WPK_ENQ:
		p->result = cds_wfcq_enqueue(wq_head(&e->q), &e->q.tail, &g->node->u.c);
		break;
	case WPK_DEQ:
		p->result_p = __cds_wfcq_dequeue_blocking(wq_head(&e->q), &e->q.tail);
		break;
	case WPK_SPLICE_OUT:
		p->result = __cds_wfcq_splice_blocking(wq_head(&e->q2), &e->q2.tail, wq_head(&e->q), &e->q.tail);
		break;
	case WPK_SPLICE_IN:
		p->result = __cds_wfcq_splice_blocking(wq_head(&e->q), &e->q.tail, wq_head(&e->q3), &e->q3.tail);
		break;
	}
}

/* park `k` appenders on e->q (the first is a splice-into-q of two nodes when `splicer_first`) */
static int wfcq_park_appenders(struct wfcq_env *e, struct wfcq_parg *pa, int first_parker, int k, int splicer_first)
{
	int ok = 0;
	for (int i = 0; i < k; i++) {
		struct wfcq_parg *g = &pa[first_parker + i];
		g->e = e;
		if (i == 0 && splicer_first) {
			struct qn *s1 = wfcq_node(e), *s2 = wfcq_node(e);
			cds_wfcq_enqueue(wq_head(&e->q3), &e->q3.tail, &s1->u.c);
			cds_wfcq_enqueue(wq_head(&e->q3), &e->q3.tail, &s2->u.c);
			g->kind = WPK_SPLICE_IN;
			g->node = NULL;
			idl_push(&e->L, s1->id);
			idl_push(&e->L, s2->id);
		} else {
			g->kind = WPK_ENQ;
			g->node = wfcq_node(e);
			idl_push(&e->L, g->node->id);
		}
		park_start(first_parker + i, pk_wfcq, g, URCU_VP_WFCQ_APPEND_MID, 0, &e->q.tail);
		if (park_wait_parked(&parkers[first_parker + i]) == 1)
			ok++;
	}
	return ok;
}

enum { WO_ENQ, WO_EMPTY, WO_DEQ_NB, WO_DEQ_STATE_NB, WO_ITER_NB, WO_SPLICE_OUT_NB, WO_SPLICE_IN_NB, WO_ENQ_Q2, WO_EMPTY_Q2, WO_NR };
static const char *const wo_name[WO_NR] = {
	"wfcq_enqueue", "wfcq_empty", "wfcq_dequeue_nonblocking", "wfcq_dequeue_with_state_nonblocking",
	"wfcq_first_next_nonblocking", "wfcq_splice_nonblocking", "wfcq_splice_nonblocking_dest", "wfcq_enqueue_splice_dest",
	"wfcq_empty_splice_dest" };
static const int wo_cls[WO_NR] = { OC_WF, OC_WF, OC_NB, OC_NB, OC_NB, OC_NB, OC_NB, OC_WF, OC_WF };

static const char *splice_ret_name(int r)
{
	switch (r) {
	case CDS_WFCQ_RET_WOULDBLOCK: return "WOULDBLOCK";
	case CDS_WFCQ_RET_DEST_EMPTY: return "DEST_EMPTY";
	case CDS_WFCQ_RET_DEST_NON_EMPTY: return "DEST_NON_EMPTY";
	case CDS_WFCQ_RET_SRC_EMPTY: return "SRC_EMPTY";
	default: return "?";
	}
}

/* the subject operation: stepped call(s), result check, model update */
static void wfcq_subject(struct wfcq_env *e, int o)
{
	struct opstat *os = op_get(wo_name[o], wo_cls[o]);
	char res[160];
	const char *wrong = NULL;
	int gap = e->reach < e->L.n;

	switch (o) {
	case WO_ENQ: case WO_ENQ_Q2: {
		struct wq *q = o == WO_ENQ ? &e->q : &e->q2;
		struct idl *L = o == WO_ENQ ? &e->L : &e->L2;
		struct qn *x = wfcq_node(e);
		bool r;
		step_begin(os);
		STEP_ON(); r = cds_wfcq_enqueue(wq_head(q), &q->tail, &x->u.c); STEP_OFF();
		step_end();
		snprintf(res, sizeof(res), "%s", r ? "true(was non-empty)" : "false(was empty)");
		if (r != (L->n > 0))
			wrong = L->n ? "the queue was not empty (a linearised enqueue or a resident node precedes)" : "the queue was empty";
		idl_push(L, x->id);
		triple_op(os, res, wrong, 0);
		break;
	}
	case WO_EMPTY: case WO_EMPTY_Q2: {
		struct wq *q = o == WO_EMPTY ? &e->q : &e->q2;
		struct idl *L = o == WO_EMPTY ? &e->L : &e->L2;
		bool r;
		step_begin(os);
		STEP_ON(); r = cds_wfcq_empty(wq_chead(q), &q->tail); STEP_OFF();
		step_end();
		snprintf(res, sizeof(res), "%s", r ? "empty" : "non-empty");
		if (r != (L->n == 0))
			wrong = L->n ? "the queue holds nodes (tail already exchanged by the parked enqueuer / resident nodes)" : "the queue is empty";
		triple_op(os, res, wrong, -1);
		break;
	}
	case WO_DEQ_NB: case WO_DEQ_STATE_NB: {
		struct cds_wfcq_node *c;
		int state = -1;
		step_begin(os);
		if (o == WO_DEQ_NB) {
			STEP_ON(); c = __cds_wfcq_dequeue_nonblocking(wq_head(&e->q), &e->q.tail); STEP_OFF();
		} else {
			STEP_ON(); c = __cds_wfcq_dequeue_with_state_nonblocking(wq_head(&e->q), &e->q.tail, &state); STEP_OFF();
		}
		step_end();
		if (c == CDS_WFCQ_WOULDBLOCK) {
			snprintf(res, sizeof(res), "WOULDBLOCK");
			if (!gap)
				wrong = e->L.n ? "no operation is in flight: the first node must be returned" : "no operation is in flight on an empty queue: NULL expected";
		} else if (c == NULL) {
			snprintf(res, sizeof(res), "NULL(empty)");
			if (e->L.n)
				wrong = gap && !e->reach ? "the queue is not empty (enqueue linearised, node not yet linked): WOULDBLOCK expected"
					: "the queue is not empty";
		} else {
			int id = qn_of_c(c)->id;
			snprintf(res, sizeof(res), "node %d%s", id, state > 0 && (state & CDS_WFCQ_STATE_LAST) ? " LAST" : "");
			if (!e->reach || id != e->L.v[0])
				wrong = "not the first node of the queue";
			else {
				int last = state >= 0 && (state & CDS_WFCQ_STATE_LAST);
				if (o == WO_DEQ_STATE_NB && last != (e->L.n == 1))
					wrong = e->L.n == 1 ? "LAST flag missing on the only node" : "LAST flag set although nodes follow";
				(void) idl_pop_front(&e->L);
				e->reach--;
			}
		}
		triple_op(os, res, wrong, 1);
		break;
	}
	case WO_ITER_NB: {
		/* first, then next until NULL / WOULDBLOCK; every call is a stepped evaluation of its own */
		struct cds_wfcq_node *c;
		int i = 0;
		step_begin(os);
		STEP_ON(); c = __cds_wfcq_first_nonblocking(wq_head(&e->q), &e->q.tail); STEP_OFF();
		step_end();
		for (;;) {
			wrong = NULL;
			if (c == CDS_WFCQ_WOULDBLOCK) {
				snprintf(res, sizeof(res), "%s: WOULDBLOCK", i ? "next" : "first");
				if (!gap)
					wrong = "no operation is in flight";
			} else if (c == NULL) {
				snprintf(res, sizeof(res), "%s: NULL(end)", i ? "next" : "first");
				if (i < e->L.n)
					wrong = i < e->reach ? "linked nodes follow" : "a linearised enqueue follows (tail moved): WOULDBLOCK expected";
			} else {
				snprintf(res, sizeof(res), "%s: node %d", i ? "next" : "first", qn_of_c(c)->id);
				if (i >= e->reach || qn_of_c(c)->id != e->L.v[i])
					wrong = "not the next node in FIFO order";
			}
			triple_op(os, res, wrong, -1);
			if (c == NULL || c == CDS_WFCQ_WOULDBLOCK || wrong || st.verdict || i > QN_MAX)
				break;
			i++;
			step_begin(os);
			{
				struct cds_wfcq_node *prev = c;
				STEP_ON(); c = __cds_wfcq_next_nonblocking(wq_head(&e->q), &e->q.tail, prev); STEP_OFF();
			}
			step_end();
		}
		break;
	}
	case WO_SPLICE_OUT_NB: {
		int r;
		step_begin(os);
		STEP_ON();
		r = __cds_wfcq_splice_nonblocking(wq_head(&e->q2), &e->q2.tail, wq_head(&e->q), &e->q.tail);
		STEP_OFF();
		step_end();
		snprintf(res, sizeof(res), "%s", splice_ret_name(r));
		if (r == CDS_WFCQ_RET_WOULDBLOCK) {
			if (!gap)
				wrong = "no operation is in flight on the source queue";
		} else if (r == CDS_WFCQ_RET_SRC_EMPTY) {
			if (e->L.n)
				wrong = gap && !e->reach ? "the source is not empty (enqueue linearised, not yet linked): WOULDBLOCK expected" : "the source queue is not empty";
		} else {
			if (!e->L.n)
				wrong = "the source queue is empty";
			else if ((r == CDS_WFCQ_RET_DEST_NON_EMPTY) != (e->L2.n > 0))
				wrong = "wrong destination state";
			idl_cat(&e->L2, &e->L);
			e->reach = 0;
		}
		triple_op(os, res, wrong, -1);
		break;
	}
	case WO_SPLICE_IN_NB: {
		/* source q4 is quiet (2 nodes); destination q may have parked appenders / a parked consumer */
		int r;
		for (int i = 0; i < 2; i++) {
			struct qn *x = wfcq_node(e);
			cds_wfcq_enqueue(wq_head(&e->q4), &e->q4.tail, &x->u.c);
			idl_push(&e->L4, x->id);
		}
		step_begin(os);
		STEP_ON();
		r = __cds_wfcq_splice_nonblocking(wq_head(&e->q), &e->q.tail, wq_head(&e->q4), &e->q4.tail);
		STEP_OFF();
		step_end();
		snprintf(res, sizeof(res), "%s", splice_ret_name(r));
		if (r == CDS_WFCQ_RET_WOULDBLOCK)
			wrong = "nothing is in flight on the SOURCE queue and appending to the destination is wait-free";
		else if (r == CDS_WFCQ_RET_SRC_EMPTY)
			wrong = "the source queue holds two nodes";
		else {
			if ((r == CDS_WFCQ_RET_DEST_NON_EMPTY) != (e->L.n > 0))
				wrong = "wrong destination state";
			idl_cat(&e->L, &e->L4);
		}
		triple_op(os, res, wrong, -1);
		break;
	}
	}
}

static void run_wfcq(long rep)
{
	struct wfcq_env e;
	struct wfcq_parg pa[NPARK];
	int sc = (int) (rep & 1);
	static const int ops_a[] = { WO_ENQ, WO_EMPTY, WO_DEQ_NB, WO_DEQ_STATE_NB, WO_ITER_NB, WO_SPLICE_OUT_NB, WO_SPLICE_IN_NB };
	static const int ops_b[] = { WO_ENQ, WO_EMPTY, WO_SPLICE_IN_NB };
	static const int ops_c[] = { WO_ENQ, WO_EMPTY, WO_ENQ_Q2, WO_EMPTY_Q2, WO_SPLICE_IN_NB };

	/* quiet: exact answers, never WOULDBLOCK; solo baseline */
	for (int pass = 0; pass < 2; pass++)
		for (int s = 0; s < 3; s++)
			for (int o = 0; o < WO_NR; o++) {
				triple_begin("wfcq", "none", st3_name[s], 0);
				wfcq_env_init(&e, sc, st3_n[s]);
				if (pass && (o == WO_ENQ_Q2 || o == WO_EMPTY_Q2)) {
					struct qn *x = wfcq_node(&e);
					cds_wfcq_enqueue(wq_head(&e.q2), &e.q2.tail, &x->u.c);
					idl_push(&e.L2, x->id);
				}
				wfcq_subject(&e, o);
				wfcq_env_fini(&e, wo_name[o]);
			}

	/* A: 1-3 appenders parked between tail exchange and link store */
	for (int s = 0; s < 3; s++)
		for (int k = 1; k <= NPARK; k++)
			for (unsigned oi = 0; oi < sizeof(ops_a) / sizeof(ops_a[0]); oi++) {
				triple_begin("wfcq", "wfcq_append_mid", st3_name[s], k);
				wfcq_env_init(&e, sc, st3_n[s]);
				cur.nfrozen = wfcq_park_appenders(&e, pa, 0, k, ((rep >> 1) + k + (long) oi) % 3 == 0);
				wfcq_subject(&e, ops_a[oi]);
				release_all();
				for (int i = 0; i < k; i++)
					park_wait_done(i);
				wfcq_env_fini(&e, wo_name[ops_a[oi]]);
			}

	/* B: a dequeuer parked before its tail cmpxchg (only node), optionally appenders parked before / after it */
	for (int variant = 0; variant < 2; variant++)
		for (int k = 1; k <= NPARK; k++)
			for (unsigned oi = 0; oi < sizeof(ops_b) / sizeof(ops_b[0]); oi++) {
				int extra = k - 1, got = 0, first_id;
				if (variant == 1 && extra == 0)
					continue;
				triple_begin("wfcq", "wfcq_deq_before_cmpxchg", variant ? "one-node+appender-first" : "one-node", k);
				wfcq_env_init(&e, sc, 1);
				first_id = e.L.v[0];
				if (variant == 1)
					got += wfcq_park_appenders(&e, pa, 1, extra, 0);
				pa[0].e = &e;
				pa[0].kind = WPK_DEQ;
				park_start(0, pk_wfcq, &pa[0], URCU_VP_WFCQ_DEQ_BEFORE_CMPXCHG, 0, &e.q.tail);
				got += park_wait_parked(&parkers[0]) == 1;
				if (variant == 0)
					got += wfcq_park_appenders(&e, pa, 1, extra, 0);
				cur.nfrozen = got;
				wfcq_subject(&e, ops_b[oi]);
				release_all();
				for (int i = 0; i < k; i++)
					park_wait_done(i);
				/* the parked dequeue takes effect now */
				if (!parkers[0].result_p || qn_of_c(parkers[0].result_p)->id != first_id)
					triple_final_wrong(wo_name[ops_b[oi]], "the parked dequeue returned %s instead of node %d",
							   parkers[0].result_p ? "another node" : "NULL", first_id);
				(void) idl_pop_front(&e.L);
				wfcq_env_fini(&e, wo_name[ops_b[oi]]);
			}

	/* C: a splicer (q -> q2) parked between its head exchange and its tail exchange */
	for (int s = 1; s < 3; s++)
		for (int k = 1; k <= NPARK; k++)
			for (unsigned oi = 0; oi < sizeof(ops_c) / sizeof(ops_c[0]); oi++) {
				int got = 0;
				triple_begin("wfcq", "wfcq_splice_mid", st3_name[s], k);
				wfcq_env_init(&e, sc, st3_n[s]);
				if ((rep + k) & 1) {	/* destination not empty */
					struct qn *x = wfcq_node(&e);
					cds_wfcq_enqueue(wq_head(&e.q2), &e.q2.tail, &x->u.c);
					idl_push(&e.L2, x->id);
				}
				pa[0].e = &e;
				pa[0].kind = WPK_SPLICE_OUT;
				park_start(0, pk_wfcq, &pa[0], URCU_VP_WFCQ_SPLICE_MID, 0, &e.q.tail);
				got += park_wait_parked(&parkers[0]) == 1;
				got += wfcq_park_appenders(&e, pa, 1, k - 1, 0);
				cur.nfrozen = got;
				wfcq_subject(&e, ops_c[oi]);
				release_all();
				for (int i = 0; i < k; i++)
					park_wait_done(i);
				if (parkers[0].result != CDS_WFCQ_RET_DEST_EMPTY && parkers[0].result != CDS_WFCQ_RET_DEST_NON_EMPTY)
					triple_final_wrong(wo_name[ops_c[oi]], "the parked splice returned %s", splice_ret_name((int) parkers[0].result));
				idl_cat(&e.L2, &e.L);	/* the parked splice moves everything, the subject's node included */
				wfcq_env_fini(&e, wo_name[ops_c[oi]]);
			}
}

/* ====================================================================== wfs */

struct ws {
	struct cds_wfs_stack ls;
	struct __cds_wfs_stack ns;
	int sc;
};
static inline cds_wfs_stack_ptr_t ws_p(struct ws *s)
{
	cds_wfs_stack_ptr_t p;
	if (s->sc)
		p._s = &s->ns;
	else
		p.s = &s->ls;
	return p;
}
static inline cds_wfs_stack_const_ptr_t ws_cp(struct ws *s)
{
	cds_wfs_stack_const_ptr_t p;
	if (s->sc)
		p._s = &s->ns;
	else
		p.s = &s->ls;
	return p;
}
#define qn_of_w(p) ((struct qn *) ((char *) (p) - offsetof(struct qn, u.w)))

struct stk_env {
	struct ws w;
	struct cds_lfs_stack lls;
	struct __cds_lfs_stack lns;
	int sc;
	struct qn *pool;
	int npool;
	struct idl S;		/* model, bottom first */
	int toppend;		/* wfs: number of linearised pushes on top whose next is not stored yet */
};

static struct qn *stk_node(struct stk_env *e, int lfs)
{
	struct qn *n = &e->pool[e->npool];
	n->id = ++e->npool;
	if (lfs)
		cds_lfs_node_init(&n->u.l);
	else
		cds_wfs_node_init(&n->u.w);
	return n;
}

static void wfs_env_init(struct stk_env *e, int sc, int n)
{
	memset(e, 0, sizeof(*e));
	e->pool = calloc(QN_MAX, sizeof(struct qn));
	e->sc = e->w.sc = sc;
	if (sc)
		__cds_wfs_init(&e->w.ns);
	else
		cds_wfs_init(&e->w.ls);
	for (int i = 0; i < n; i++) {
		struct qn *x = stk_node(e, 0);
		cds_wfs_push(ws_p(&e->w), &x->u.w);
		idl_push(&e->S, x->id);
	}
}

/* compare a popped chain (top first, blocking iteration: everybody has been released) with ids[n-1..0] */
static void wfs_chain_ids(struct cds_wfs_head *h, struct idl *out)
{
	struct cds_wfs_node *w;
	out->n = 0;
	if (!h)
		return;
	cds_wfs_for_each_blocking(h, w)
		idl_push(out, qn_of_w(w)->id);
}

static void idl_reverse(struct idl *l)
{
	for (int i = 0; i < l->n / 2; i++) {
		int t = l->v[i];
		l->v[i] = l->v[l->n - 1 - i];
		l->v[l->n - 1 - i] = t;
	}
}

static void wfs_env_fini(struct stk_env *e, const char *opname)
{
	struct idl got;
	char a[200], b[200];
	wfs_chain_ids(__cds_wfs_pop_all(ws_p(&e->w)), &got);
	idl_reverse(&got);
	if (got.n != e->S.n || memcmp(got.v, e->S.v, sizeof(int) * (size_t) got.n))
		triple_final_wrong(opname, "stack holds (bottom first) %s, the model says %s", idl_str(&got, a, sizeof(a)),
				   idl_str(&e->S, b, sizeof(b)));
	if (!e->sc)
		cds_wfs_destroy(&e->w.ls);
	free(e->pool);
}

enum { SPK_PUSH, SPK_POP };
struct stk_parg { struct stk_env *e; int kind; struct qn *node; };

static void pk_wfs(struct parker *p, void *a)
{
	struct stk_parg *g = a;
	if (g->kind == SPK_PUSH)
		p->result = cds_wfs_push(ws_p(&g->e->w), &g->node->u.w);
	else {
		rcu_read_lock();
		p->result_p = __cds_wfs_pop_blocking(ws_p(&g->e->w));
		rcu_read_unlock();
	}
}

static int wfs_park_pushers(struct stk_env *e, struct stk_parg *pa, int first, int k)
{
	int ok = 0;
	for (int i = 0; i < k; i++) {
		struct stk_parg *g = &pa[first + i];
		g->e = e;
		g->kind = SPK_PUSH;
		g->node = stk_node(e, 0);
		idl_push(&e->S, g->node->id);
		e->toppend++;
		park_start(first + i, pk_wfs, g, URCU_VP_WFS_PUSH_MID, 0, NULL);
		if (park_wait_parked(&parkers[first + i]) == 1)
			ok++;
	}
	return ok;
}

enum { SO_PUSH, SO_EMPTY, SO_POP_NB, SO_POP_STATE_NB, SO_POP_ALL, SO_NR };
static const char *const wso_name[SO_NR] = { "wfs_push", "wfs_empty", "wfs_pop_nonblocking", "wfs_pop_with_state_nonblocking", "wfs_pop_all" };
static const int wso_cls[SO_NR] = { OC_WF, OC_WF, OC_NB, OC_NB, OC_WF };

/* `chain` receives the head returned by pop_all (iterated again, blocking, after the release) */
static void wfs_subject(struct stk_env *e, int o, struct cds_wfs_head **chain, struct idl *chain_model)
{
	struct opstat *os = op_get(wso_name[o], wso_cls[o]);
	char res[160];
	const char *wrong = NULL;

	switch (o) {
	case SO_PUSH: {
		struct qn *x = stk_node(e, 0);
		int r;
		step_begin(os);
		STEP_ON(); r = cds_wfs_push(ws_p(&e->w), &x->u.w); STEP_OFF();
		step_end();
		snprintf(res, sizeof(res), "%d(%s)", r, r ? "was non-empty" : "was empty");
		if (!!r != (e->S.n > 0))
			wrong = e->S.n ? "the stack was not empty" : "the stack was empty";
		idl_push(&e->S, x->id);
		triple_op(os, res, wrong, 2);
		break;
	}
	case SO_EMPTY: {
		bool r;
		step_begin(os);
		STEP_ON(); r = cds_wfs_empty(ws_cp(&e->w)); STEP_OFF();
		step_end();
		snprintf(res, sizeof(res), "%s", r ? "empty" : "non-empty");
		if (r != (e->S.n == 0))
			wrong = "contradicts the model";
		triple_op(os, res, wrong, -1);
		break;
	}
	case SO_POP_NB: case SO_POP_STATE_NB: {
		struct cds_wfs_node *w;
		int state = -1;
		rcu_read_lock();
		step_begin(os);
		if (o == SO_POP_NB) {
			STEP_ON(); w = __cds_wfs_pop_nonblocking(ws_p(&e->w)); STEP_OFF();
		} else {
			STEP_ON(); w = __cds_wfs_pop_with_state_nonblocking(ws_p(&e->w), &state); STEP_OFF();
		}
		step_end();
		rcu_read_unlock();
		if (w == CDS_WFS_WOULDBLOCK) {
			snprintf(res, sizeof(res), "WOULDBLOCK");
			if (!e->toppend)
				wrong = "no push is in flight";
		} else if (!w) {
			snprintf(res, sizeof(res), "NULL(empty)");
			if (e->S.n)
				wrong = e->toppend ? "the stack is not empty (push linearised, next not stored): WOULDBLOCK expected" : "the stack is not empty";
		} else {
			int id = qn_of_w(w)->id;
			int last = state >= 0 && (state & CDS_WFS_STATE_LAST);
			snprintf(res, sizeof(res), "node %d%s", id, last ? " LAST" : "");
			if (!e->S.n || id != e->S.v[e->S.n - 1])
				wrong = "not the top of the stack";
			else {
				if (o == SO_POP_STATE_NB && last != (e->S.n == 1))
					wrong = "wrong LAST flag";
				e->S.n--;
				if (e->toppend)
					e->toppend--;
			}
		}
		triple_op(os, res, wrong, 2);
		break;
	}
	case SO_POP_ALL: {
		struct cds_wfs_head *h;
		struct cds_wfs_node *w;
		struct opstat *osn = op_get("wfs_first_next_nonblocking", OC_NB);
		int i;
		step_begin(os);
		STEP_ON(); h = __cds_wfs_pop_all(ws_p(&e->w)); STEP_OFF();
		step_end();
		snprintf(res, sizeof(res), "%s", h ? "chain" : "NULL(empty)");
		if (!h != !e->S.n)
			wrong = "contradicts the model";
		triple_op(os, res, wrong, 2);
		*chain = h;
		*chain_model = e->S;
		idl_reverse(chain_model);
		e->S.n = 0;
		if (!h)
			break;
		/* nonblocking iteration over the popped chain: top first; WOULDBLOCK exactly where a parked push has not stored next */
		step_begin(osn);
		STEP_ON(); w = cds_wfs_first(h); STEP_OFF();
		step_end();
		for (i = 0;; i++) {
			wrong = NULL;
			if (w == CDS_WFS_WOULDBLOCK) {
				snprintf(res, sizeof(res), "next: WOULDBLOCK");
				if (i == 0 || i > e->toppend)
					wrong = "no push is in flight on that link";
			} else if (!w) {
				snprintf(res, sizeof(res), "next: NULL(end)");
				if (i != chain_model->n)
					wrong = "nodes follow";
			} else {
				snprintf(res, sizeof(res), "%s: node %d", i ? "next" : "first", qn_of_w(w)->id);
				if (i >= chain_model->n || qn_of_w(w)->id != chain_model->v[i])
					wrong = "not the next node in LIFO order";
				else if (i > 0 && i <= e->toppend)
					wrong = "the link behind a parked push cannot be known yet";
			}
			triple_op(osn, res, wrong, -1);
			if (!w || w == CDS_WFS_WOULDBLOCK || wrong || st.verdict)
				break;
			step_begin(osn);
			{
				struct cds_wfs_node *prev = w;
				STEP_ON(); w = cds_wfs_next_nonblocking(prev); STEP_OFF();
			}
			step_end();
		}
		e->toppend = 0;
		break;
	}
	}
}

static void wfs_check_chain(struct cds_wfs_head *chain, struct idl *model, const char *opname)
{
	struct idl got;
	char a[200], b[200];
	if (!chain)
		return;
	wfs_chain_ids(chain, &got);
	if (got.n != model->n || memcmp(got.v, model->v, sizeof(int) * (size_t) got.n))
		triple_final_wrong(opname, "pop_all chain (top first) is %s, the model says %s", idl_str(&got, a, sizeof(a)),
				   idl_str(model, b, sizeof(b)));
}

static void run_wfs(long rep)
{
	struct stk_env e;
	struct stk_parg pa[NPARK];
	int sc = (int) (rep & 1);
	struct cds_wfs_head *chain;
	struct idl cm;

	for (int pass = 0; pass < 2; pass++)
		for (int s = 0; s < 3; s++)
			for (int o = 0; o < SO_NR; o++) {
				triple_begin("wfs", "none", st3_name[s], 0);
				wfs_env_init(&e, sc, st3_n[s]);
				chain = NULL;
				wfs_subject(&e, o, &chain, &cm);
				wfs_check_chain(chain, &cm, wso_name[o]);
				wfs_env_fini(&e, wso_name[o]);
			}

	/* A: 1-3 pushers parked between head exchange and next store */
	for (int s = 0; s < 3; s++)
		for (int k = 1; k <= NPARK; k++)
			for (int o = 0; o < SO_NR; o++) {
				triple_begin("wfs", "wfs_push_mid", st3_name[s], k);
				wfs_env_init(&e, sc, st3_n[s]);
				cur.nfrozen = wfs_park_pushers(&e, pa, 0, k);
				chain = NULL;
				wfs_subject(&e, o, &chain, &cm);
				release_all();
				for (int i = 0; i < k; i++)
					park_wait_done(i);
				wfs_check_chain(chain, &cm, wso_name[o]);
				wfs_env_fini(&e, wso_name[o]);
			}

	/* B: a popper (RCU scheme) parked before its head cmpxchg, optionally pushers parked after it */
	for (int s = 1; s < 3; s++)
		for (int k = 1; k <= NPARK; k++)
			for (int o = 0; o < SO_NR; o++) {
				int got = 0;
				if (o == SO_POP_STATE_NB)
					continue;
				triple_begin("wfs", "wfs_pop_before_cmpxchg", st3_name[s], k);
				wfs_env_init(&e, sc, st3_n[s]);
				pa[0].e = &e;
				pa[0].kind = SPK_POP;
				park_start(0, pk_wfs, &pa[0], URCU_VP_WFS_POP_BEFORE_CMPXCHG, 0, NULL);
				got += park_wait_parked(&parkers[0]) == 1;
				got += wfs_park_pushers(&e, pa, 1, k - 1);
				cur.nfrozen = got;
				chain = NULL;
				wfs_subject(&e, o, &chain, &cm);
				release_all();
				for (int i = 0; i < k; i++)
					park_wait_done(i);
				wfs_check_chain(chain, &cm, wso_name[o]);
				/* the parked pop takes effect now: it returns the top of what is left */
				{
					int want = e.S.n ? e.S.v[e.S.n - 1] : 0;
					struct cds_wfs_node *r = parkers[0].result_p;
					int gotid = r ? qn_of_w(r)->id : 0;
					if (gotid != want)
						triple_final_wrong(wso_name[o], "the parked pop returned node %d, the model says %d (0 = NULL)", gotid, want);
					if (e.S.n)
						e.S.n--;
				}
				wfs_env_fini(&e, wso_name[o]);
			}
}

/* ====================================================================== lfs */

static inline cds_lfs_stack_ptr_t ls_p(struct stk_env *e)
{
	cds_lfs_stack_ptr_t p;
	if (e->sc)
		p._s = &e->lns;
	else
		p.s = &e->lls;
	return p;
}
static inline cds_lfs_stack_const_ptr_t ls_cp(struct stk_env *e)
{
	cds_lfs_stack_const_ptr_t p;
	if (e->sc)
		p._s = &e->lns;
	else
		p.s = &e->lls;
	return p;
}
#define qn_of_l(p) ((struct qn *) ((char *) (p) - offsetof(struct qn, u.l)))

static void lfs_env_init(struct stk_env *e, int sc, int n)
{
	memset(e, 0, sizeof(*e));
	e->pool = calloc(QN_MAX, sizeof(struct qn));
	e->sc = sc;
	if (sc)
		__cds_lfs_init(&e->lns);
	else
		cds_lfs_init(&e->lls);
	for (int i = 0; i < n; i++) {
		struct qn *x = stk_node(e, 1);
		cds_lfs_push(ls_p(e), &x->u.l);
		idl_push(&e->S, x->id);
	}
}

static void lfs_chain_ids(struct cds_lfs_head *h, struct idl *out)
{
	struct cds_lfs_node *l;
	out->n = 0;
	if (!h)
		return;
	cds_lfs_for_each(h, l)
		idl_push(out, qn_of_l(l)->id);
}

/* final content: `fixed` bottom nodes in exact order, then the nodes of `loose` in any order */
static void lfs_env_fini(struct stk_env *e, struct idl *loose, const char *opname)
{
	struct idl got;
	char a[200], b[200], c[200];
	int bad = 0;
	lfs_chain_ids(__cds_lfs_pop_all(ls_p(e)), &got);
	idl_reverse(&got);
	if (got.n != e->S.n + (loose ? loose->n : 0))
		bad = 1;
	else {
		if (memcmp(got.v, e->S.v, sizeof(int) * (size_t) e->S.n))
			bad = 1;
		for (int i = 0; loose && i < loose->n; i++) {
			int found = 0;
			for (int j = e->S.n; j < got.n; j++)
				found += got.v[j] == loose->v[i];
			if (found != 1)
				bad = 1;
		}
	}
	if (bad)
		triple_final_wrong(opname, "stack holds (bottom first) %s, the model says %s followed by the parked pushers' nodes %s",
				   idl_str(&got, a, sizeof(a)), idl_str(&e->S, b, sizeof(b)), loose ? idl_str(loose, c, sizeof(c)) : "[]");
	if (!e->sc)
		cds_lfs_destroy(&e->lls);
	free(e->pool);
}

static void pk_lfs(struct parker *p, void *a)
{
	struct stk_parg *g = a;
	if (g->kind == SPK_PUSH)
		p->result = cds_lfs_push(ls_p(g->e), &g->node->u.l);
	else {
		rcu_read_lock();
		p->result_p = __cds_lfs_pop(ls_p(g->e));
		rcu_read_unlock();
	}
}

enum { LO_PUSH, LO_EMPTY, LO_POP, LO_POP_ALL, LO_NR };
static const char *const lso_name[LO_NR] = { "lfs_push", "lfs_empty", "lfs_pop", "lfs_pop_all" };
static const int lso_cls[LO_NR] = { OC_LF, OC_WF, OC_LF, OC_WF };

static void lfs_subject(struct stk_env *e, int o)
{
	struct opstat *os = op_get(lso_name[o], lso_cls[o]);
	char res[160];
	const char *wrong = NULL;

	switch (o) {
	case LO_PUSH: {
		struct qn *x = stk_node(e, 1);
		bool r;
		step_begin(os);
		STEP_ON(); r = cds_lfs_push(ls_p(e), &x->u.l); STEP_OFF();
		step_end();
		snprintf(res, sizeof(res), "%s", r ? "true(was non-empty)" : "false(was empty)");
		if (r != (e->S.n > 0))
			wrong = "contradicts the model (a push parked before its cmpxchg has not taken effect)";
		idl_push(&e->S, x->id);
		triple_op(os, res, wrong, 3);
		break;
	}
	case LO_EMPTY: {
		bool r;
		step_begin(os);
		STEP_ON(); r = cds_lfs_empty(ls_cp(e)); STEP_OFF();
		step_end();
		snprintf(res, sizeof(res), "%s", r ? "empty" : "non-empty");
		if (r != (e->S.n == 0))
			wrong = "contradicts the model";
		triple_op(os, res, wrong, -1);
		break;
	}
	case LO_POP: {
		struct cds_lfs_node *l;
		rcu_read_lock();
		step_begin(os);
		STEP_ON(); l = __cds_lfs_pop(ls_p(e)); STEP_OFF();
		step_end();
		rcu_read_unlock();
		if (!l) {
			snprintf(res, sizeof(res), "NULL(empty)");
			if (e->S.n)
				wrong = "the stack is not empty";
		} else {
			snprintf(res, sizeof(res), "node %d", qn_of_l(l)->id);
			if (!e->S.n || qn_of_l(l)->id != e->S.v[e->S.n - 1])
				wrong = "not the top of the stack";
			else
				e->S.n--;
		}
		triple_op(os, res, wrong, 3);
		break;
	}
	case LO_POP_ALL: {
		struct cds_lfs_head *h;
		struct idl got, m;
		step_begin(os);
		STEP_ON(); h = __cds_lfs_pop_all(ls_p(e)); STEP_OFF();
		step_end();
		lfs_chain_ids(h, &got);
		m = e->S;
		idl_reverse(&m);
		snprintf(res, sizeof(res), "chain of %d", got.n);
		if (got.n != m.n || memcmp(got.v, m.v, sizeof(int) * (size_t) got.n))
			wrong = "the chain is not the stack content in LIFO order";
		e->S.n = 0;
		triple_op(os, res, wrong, 3);
		break;
	}
	}
}

static void run_lfs(long rep)
{
	struct stk_env e;
	struct stk_parg pa[NPARK];
	int sc = (int) (rep & 1);

	for (int pass = 0; pass < 2; pass++)
		for (int s = 0; s < 3; s++)
			for (int o = 0; o < LO_NR; o++) {
				triple_begin("lfs", "none", st3_name[s], 0);
				lfs_env_init(&e, sc, st3_n[s]);
				lfs_subject(&e, o);
				lfs_env_fini(&e, NULL, lso_name[o]);
			}

	/* A: 1-3 pushers parked right before their head cmpxchg (first attempt, or second attempt with the real head) */
	for (int s = 0; s < 3; s++)
		for (int k = 1; k <= NPARK; k++)
			for (int o = 0; o < LO_NR; o++) {
				struct idl loose = { .n = 0 };
				int got = 0, zero = 0, was_empty;
				triple_begin("lfs", "lfs_push_before_cmpxchg", st3_name[s], k);
				lfs_env_init(&e, sc, st3_n[s]);
				for (int i = 0; i < k; i++) {
					pa[i].e = &e;
					pa[i].kind = SPK_PUSH;
					pa[i].node = stk_node(&e, 1);
					idl_push(&loose, pa[i].node->id);
					park_start(i, pk_lfs, &pa[i], URCU_VP_LFS_PUSH_BEFORE_CMPXCHG, st3_n[s] > 0 && ((rep + i) & 1), NULL);
					got += park_wait_parked(&parkers[i]) == 1;
				}
				cur.nfrozen = got;
				lfs_subject(&e, o);
				was_empty = e.S.n == 0;
				release_all();
				for (int i = 0; i < k; i++) {
					park_wait_done(i);
					zero += parkers[i].result == 0;
				}
				if (zero != was_empty)
					triple_final_wrong(lso_name[o], "%d parked pushers reported an empty stack, expected %d", zero, was_empty);
				lfs_env_fini(&e, &loose, lso_name[o]);
			}

	/* B: a popper (RCU scheme) parked between its next load and its cmpxchg, optionally pushers parked after it */
	for (int s = 1; s < 3; s++)
		for (int k = 1; k <= NPARK; k++)
			for (int o = 0; o < LO_NR; o++) {
				struct idl loose = { .n = 0 };
				int got = 0;
				triple_begin("lfs", "lfs_pop_before_cmpxchg", st3_name[s], k);
				lfs_env_init(&e, sc, st3_n[s]);
				pa[0].e = &e;
				pa[0].kind = SPK_POP;
				park_start(0, pk_lfs, &pa[0], URCU_VP_LFS_POP_BEFORE_CMPXCHG, 0, NULL);
				got += park_wait_parked(&parkers[0]) == 1;
				for (int i = 1; i < k; i++) {
					pa[i].e = &e;
					pa[i].kind = SPK_PUSH;
					pa[i].node = stk_node(&e, 1);
					idl_push(&loose, pa[i].node->id);
					park_start(i, pk_lfs, &pa[i], URCU_VP_LFS_PUSH_BEFORE_CMPXCHG, (int) ((rep + i) & 1), NULL);
					got += park_wait_parked(&parkers[i]) == 1;
				}
				cur.nfrozen = got;
				lfs_subject(&e, o);
				release_all();
				for (int i = 0; i < k; i++)
					park_wait_done(i);
				/* the parked pop races with the parked pushes: it returns the model's top or one of their nodes
				 * (NULL only if everything is gone) */
				{
					struct cds_lfs_node *r = parkers[0].result_p;
					int id = r ? qn_of_l(r)->id : 0, okr = 0;
					if (!r)
						okr = e.S.n == 0;	/* pushers may all have come later */
					else if (e.S.n && id == e.S.v[e.S.n - 1]) {
						okr = 1;
						e.S.n--;
					} else
						for (int i = 0; i < loose.n; i++)
							if (loose.v[i] == id) {
								okr = 1;
								loose.v[i] = loose.v[--loose.n];
								break;
							}
					if (!okr)
						triple_final_wrong(lso_name[o], "the parked pop returned node %d (0 = NULL), neither the model's top nor a parked pusher's node", id);
				}
				lfs_env_fini(&e, &loose, lso_name[o]);
			}
}

/* ====================================================================== lfq */

#define qn_of_q(p) ((struct qn *) ((char *) (p) - offsetof(struct qn, u.q)))

struct lfq_deferred { struct rcu_head *head; void (*func)(struct rcu_head *); };
static struct lfq_deferred lfq_def[64];
static int lfq_ndef;
static pthread_mutex_t lfq_def_lock = PTHREAD_MUTEX_INITIALIZER;

/* queue_call_rcu callback handed to cds_lfq_init_rcu: dummy nodes are released when the triple is over
 * (every thread quiescent), so the subject's dequeue does not depend on the call_rcu machinery */
static void lfq_defer_free(struct rcu_head *head, void (*func)(struct rcu_head *))
{
	if (tl_subject) {	/* no lock on the subject's path: parkers are parked or done */
		lfq_def[lfq_ndef].head = head;
		lfq_def[lfq_ndef++].func = func;
		return;
	}
	pthread_mutex_lock(&lfq_def_lock);
	lfq_def[lfq_ndef].head = head;
	lfq_def[lfq_ndef++].func = func;
	pthread_mutex_unlock(&lfq_def_lock);
}

struct lfq_env {
	struct cds_lfq_queue_rcu q;
	struct qn *pool;
	int npool;
	struct idl L;
};
static struct qn *lfq_node(struct lfq_env *e)
{
	struct qn *n = &e->pool[e->npool];
	n->id = ++e->npool;
	cds_lfq_node_init_rcu(&n->u.q);
	return n;
}
static void lfq_env_init(struct lfq_env *e, int n)
{
	memset(e, 0, sizeof(*e));
	e->pool = calloc(QN_MAX, sizeof(struct qn));
	cds_lfq_init_rcu(&e->q, lfq_defer_free);
	rcu_read_lock();
	for (int i = 0; i < n; i++) {
		struct qn *x = lfq_node(e);
		cds_lfq_enqueue_rcu(&e->q, &x->u.q);
		idl_push(&e->L, x->id);
	}
	rcu_read_unlock();
}
static void lfq_env_fini(struct lfq_env *e, const char *opname)
{
	struct idl got = { .n = 0 };
	struct cds_lfq_node_rcu *n;
	char a[200], b[200];
	rcu_read_lock();
	while ((n = cds_lfq_dequeue_rcu(&e->q)) != NULL)
		idl_push(&got, qn_of_q(n)->id);
	rcu_read_unlock();
	if (got.n != e->L.n || memcmp(got.v, e->L.v, sizeof(int) * (size_t) got.n))
		triple_final_wrong(opname, "queue holds %s, the model says %s", idl_str(&got, a, sizeof(a)), idl_str(&e->L, b, sizeof(b)));
	if (cds_lfq_destroy_rcu(&e->q))
		triple_final_wrong(opname, "cds_lfq_destroy_rcu refused a drained queue");
	for (int i = 0; i < lfq_ndef; i++)
		lfq_def[i].func(lfq_def[i].head);
	lfq_ndef = 0;
	free(e->pool);
}

enum { QPK_ENQ, QPK_DEQ };
struct lfq_parg { struct lfq_env *e; int kind; struct qn *node; };
static void pk_lfq(struct parker *p, void *a)
{
	struct lfq_parg *g = a;
	rcu_read_lock();
	if (g->kind == QPK_ENQ)
		cds_lfq_enqueue_rcu(&g->e->q, &g->node->u.q);
	else
		p->result_p = cds_lfq_dequeue_rcu(&g->e->q);
	rcu_read_unlock();
}

static int lfq_park_enqueuers(struct lfq_env *e, struct lfq_parg *pa, int first, int k)
{
	int ok = 0;
	for (int i = 0; i < k; i++) {
		struct lfq_parg *g = &pa[first + i];
		g->e = e;
		g->kind = QPK_ENQ;
		g->node = lfq_node(e);
		idl_push(&e->L, g->node->id);	/* linearised at the link cmpxchg */
		park_start(first + i, pk_lfq, g, URCU_VP_LFQ_ENQ_LINKED, 0, &e->q);
		if (park_wait_parked(&parkers[first + i]) == 1)
			ok++;
	}
	return ok;
}

enum { QO_ENQ, QO_DEQ, QO_NR };
static const char *const qo_name[QO_NR] = { "lfq_enqueue", "lfq_dequeue" };

static void lfq_subject(struct lfq_env *e, int o)
{
	struct opstat *os = op_get(qo_name[o], OC_LF);
	char res[160];
	const char *wrong = NULL;

	rcu_read_lock();
	if (o == QO_ENQ) {
		struct qn *x = lfq_node(e);
		step_begin(os);
		STEP_ON(); cds_lfq_enqueue_rcu(&e->q, &x->u.q); STEP_OFF();
		step_end();
		snprintf(res, sizeof(res), "done (helped the tail %u times)", st.mark[URCU_VP_LFQ_ENQ_HELPED]);
		idl_push(&e->L, x->id);
	} else {
		struct cds_lfq_node_rcu *n;
		step_begin(os);
		STEP_ON(); n = cds_lfq_dequeue_rcu(&e->q); STEP_OFF();
		step_end();
		if (!n) {
			snprintf(res, sizeof(res), "NULL(empty)");
			if (e->L.n)
				wrong = "the queue is not empty (a parked enqueue is linearised once its node is linked)";
		} else {
			snprintf(res, sizeof(res), "node %d (helped the tail %u times)", qn_of_q(n)->id, st.mark[URCU_VP_LFQ_ENQ_HELPED]);
			if (!e->L.n || qn_of_q(n)->id != e->L.v[0])
				wrong = "not the first node of the queue";
			else
				(void) idl_pop_front(&e->L);
		}
	}
	rcu_read_unlock();
	if (st.mark[URCU_VP_LFQ_ENQ_HELPED])
		ev_helped++;
	triple_op(os, res, wrong, 4);
}

static void run_lfq(long rep)
{
	struct lfq_env e;
	struct lfq_parg pa[NPARK];
	(void) rep;

	for (int pass = 0; pass < 2; pass++)
		for (int s = 0; s < 3; s++)
			for (int o = 0; o < QO_NR; o++) {
				triple_begin("lfq", "none", st3_name[s], 0);
				lfq_env_init(&e, st3_n[s]);
				lfq_subject(&e, o);
				lfq_env_fini(&e, qo_name[o]);
			}

	/* A: 1-3 enqueuers parked after linking their node, before advancing the tail */
	for (int s = 0; s < 3; s++)
		for (int k = 1; k <= NPARK; k++)
			for (int o = 0; o < QO_NR; o++) {
				triple_begin("lfq", "lfq_enq_linked", st3_name[s], k);
				lfq_env_init(&e, st3_n[s]);
				cur.nfrozen = lfq_park_enqueuers(&e, pa, 0, k);
				lfq_subject(&e, o);
				release_all();
				for (int i = 0; i < k; i++)
					park_wait_done(i);
				lfq_env_fini(&e, qo_name[o]);
			}

	/* B: a dequeuer parked before its head cmpxchg, optionally enqueuers parked after it */
	for (int s = 1; s < 3; s++)
		for (int k = 1; k <= NPARK; k++)
			for (int o = 0; o < QO_NR; o++) {
				int got = 0;
				triple_begin("lfq", "lfq_deq_before_cmpxchg", st3_name[s], k);
				lfq_env_init(&e, st3_n[s]);
				pa[0].e = &e;
				pa[0].kind = QPK_DEQ;
				park_start(0, pk_lfq, &pa[0], URCU_VP_LFQ_DEQ_BEFORE_CMPXCHG, 0, &e.q);
				got += park_wait_parked(&parkers[0]) == 1;
				got += lfq_park_enqueuers(&e, pa, 1, k - 1);
				cur.nfrozen = got;
				lfq_subject(&e, o);
				release_all();
				for (int i = 0; i < k; i++)
					park_wait_done(i);
				{
					struct cds_lfq_node_rcu *r = parkers[0].result_p;
					int want = e.L.n ? e.L.v[0] : 0, id = r ? qn_of_q(r)->id : 0;
					if (id != want)
						triple_final_wrong(qo_name[o], "the parked dequeue returned node %d, the model says %d (0 = NULL)", id, want);
					if (e.L.n)
						(void) idl_pop_front(&e.L);
				}
				lfq_env_fini(&e, qo_name[o]);
			}
}
