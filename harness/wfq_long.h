/*
 * wfq_long.h - C10 long runs (included by wfq.c): P producers, C consumers, 10^6..10^7 nodes,
 * streaming oracles, O(1) per node:
 *   exactly-once + per-producer FIFO + no loss: the node of producer p must carry counter next[p]+1;
 *   conservation: after the final drain next[p] == produced[p];
 *   real-time order / presence cover: M = max over {call stamp of the enqueue of every node
 *     dequeued so far, call stamp of every dequeue that returned NULL or LAST, of every empty()
 *     that said true, of every splice that said SRC_EMPTY}.  A node b dequeued afterwards must
 *     not have been completely enqueued before M:  ret(enq b) + eps >= M.  ret(enq b) is not
 *     stored in b (b may be freed by the consumer before its enqueue returns) but in b's
 *     successor of the same producer (t_prev_ret), so the test is made one node later;
 *   splice moves everything: the consumer splices into a private second queue and drains that:
 *     SRC_EMPTY <=> nothing arrives, LAST exactly on the node before NULL, source stays usable.
 * Consumers: one (cds_wfcq_dequeue_blocking & co, or lock-free __cds_wfcq_* with --api=sc) or
 * several serialised by cds_wfcq_dequeue_lock (legacy wfq: by a harness mutex).
 */
#define L_MAXP 16
#define L_MAXC 4

static int l_wfq, l_sc, l_P, l_C;
static uint64_t l_per_prod;
static struct wq l_q, l_q2;
static struct cds_wfq_queue l_wq;
static pthread_mutex_t l_wq_mutex = PTHREAD_MUTEX_INITIALIZER;

static struct {
	uint64_t next[L_MAXP];		/* last counter consumed per producer (VP_STORE) */
	uint64_t pend[L_MAXP];
	uint64_t pend_id[L_MAXP];
	int has_pend[L_MAXP];
	uint64_t M;
	const char *M_what;
	uint64_t deq, nulls, lasts, splices, splice_empty, empties_true, empties_false, wouldblock, rt_checks;
	uint64_t via_splice;
} cs;

static struct lprod {
	pthread_t tid;
	int idx;
	uint64_t produced, final_ret, enq_nonempty, enq_empty;
	int done;
	int throttled;		/* waiting for the consumer, no enqueue in flight */
	char pad[64];
} lprod[L_MAXP];

static struct lcons {
	pthread_t tid;
	int idx;
	struct vp_rng rng;
	struct nquar nq;
	int cur;
	char pad[64];
} lcons[L_MAXC];

static inline void l_fold(uint64_t stamp, const char *what)
{
	if (stamp > cs.M) {
		cs.M = stamp;
		cs.M_what = what;
	}
}

static void l_rt_check(int p, uint64_t ret_stamp)
{
	if (!cs.has_pend[p] || !vp_eps)
		return;
	cs.rt_checks++;
	if (ret_stamp + vp_eps < cs.pend[p]) {
		char key[96];
		snprintf(key, sizeof(key), "%s:long:real-time-order", l_wfq ? "wfq" : "wfcq");
		vp_violation(key, "cfg=%s node %llx: its enqueue had returned %llu cycles (eps=%llu) before %s, yet it was still in the queue / came out later",
			     cfgname, (unsigned long long) cs.pend_id[p],
			     (unsigned long long) (cs.pend[p] - ret_stamp), (unsigned long long) vp_eps,
			     cs.M_what ? cs.M_what : "?");
	}
	cs.has_pend[p] = 0;
}

/* returns 0 if the node is unusable */
static int l_on_node(struct lcons *c, struct node *n)
{
	const char *fam = l_wfq ? "wfq" : "wfcq";
	char key[96];

	if (n->magic != ND_MAGIC) {
		snprintf(key, sizeof(key), "%s:long:dequeued-node-garbage", fam);
		vp_violation(key, "cfg=%s dequeue returned node %p magic=%x id=%llx: already retired (dequeued twice) or never published",
			     cfgname, (void *) n, n->magic, (unsigned long long) n->id);
		return 0;
	}
	uint64_t id = n->id, cnt = id & 0xffffffffu;
	int p = (int) (id >> 32);
	if (p < 0 || p >= l_P) {
		snprintf(key, sizeof(key), "%s:long:dequeued-node-garbage", fam);
		vp_violation(key, "cfg=%s dequeue returned node with id=%llx", cfgname, (unsigned long long) id);
		return 0;
	}
	if (cnt != cs.next[p] + 1) {
		snprintf(key, sizeof(key), "%s:long:%s", fam, cnt <= cs.next[p] ? "duplicate-or-reordered" : "lost-or-reordered");
		vp_violation(key, "cfg=%s producer %d: expected its node #%llu next, dequeued #%llu (after %llu dequeues)",
			     cfgname, p, (unsigned long long) (cs.next[p] + 1), (unsigned long long) cnt,
			     (unsigned long long) cs.deq);
	}
	l_rt_check(p, n->t_prev_ret);
	cs.pend[p] = cs.M;
	cs.pend_id[p] = id;
	cs.has_pend[p] = 1;
	l_fold(n->t_call, "a later-enqueued node (enqueue call stamp) was dequeued");
	VP_STORE(cs.next[p], cnt);
	cs.deq++;
	node_retire(&c->nq, n);
	return 1;
}

/* drain the private second queue completely; called with mutual exclusion held */
static void l_drain_q2(struct lcons *c, int expect_nonempty)
{
	int got = 0, last_seen = 0;

	for (;;) {
		int state = 0x7e;
		struct cds_wfcq_node *cn = __cds_wfcq_dequeue_with_state_blocking(wq_head(&l_q2), &l_q2.tail, &state);
		if (!cn)
			break;
		if (last_seen) {
			vp_violation("wfcq:long:last-flag", "cfg=%s a node followed the one flagged CDS_WFCQ_STATE_LAST in the private splice destination", cfgname);
			last_seen = 0;
		}
		if (state & CDS_WFCQ_STATE_LAST)
			last_seen = 1;
		else if (state)
			vp_violation("wfcq:long:last-flag", "cfg=%s state=%x", cfgname, state);
		got++;
		cs.via_splice++;
		if (!l_on_node(c, node_of_c(cn)))
			break;
	}
	if (got && !last_seen)
		vp_violation("wfcq:long:last-flag", "cfg=%s %d nodes drained from the private splice destination, none flagged LAST", cfgname, got);
	if (expect_nonempty != (got > 0))
		vp_violation("wfcq:long:splice-moved-nothing", "cfg=%s splice returned %s but %d nodes arrived in the destination",
			     cfgname, expect_nonempty ? "DEST_EMPTY/DEST_NON_EMPTY" : "SRC_EMPTY", got);
	if (!cds_wfcq_empty(wq_chead(&l_q2), &l_q2.tail))
		vp_violation("wfcq:long:splice-dest-not-empty-after-drain", "cfg=%s", cfgname);
}

/* one consumer action; returns 1 if it obtained NULL / empty from the main queue */
static int l_consume_wfcq(struct lcons *c)
{
	uint32_t x = vp_rand_n(&c->rng, 1000);
	int lockit = l_C > 1 || (!l_sc && x >= 400);	/* explicit lock + __ API */
	struct cds_wfcq_node *cn;
	int state = 0x7e, saw_empty = 0, with_state = 0;
	uint64_t t0;

	if (x < 6) {
		enum cds_wfcq_ret ret;
		t0 = ts_before();
		if (lockit || l_sc) {
			if (lockit)
				wq_lock(&l_q);
			ret = (x & 1) ? __cds_wfcq_splice_blocking(wq_head(&l_q2), &l_q2.tail, wq_head(&l_q), &l_q.tail)
				      : __cds_wfcq_splice_nonblocking(wq_head(&l_q2), &l_q2.tail, wq_head(&l_q), &l_q.tail);
		} else {
			/* single consumer: nobody else touches l_q2 */
			ret = cds_wfcq_splice_blocking(&l_q2.lh, &l_q2.tail, &l_q.lh, &l_q.tail);
		}
		cs.splices++;
		if (ret == CDS_WFCQ_RET_WOULDBLOCK)
			cs.wouldblock++;
		else if (ret == CDS_WFCQ_RET_SRC_EMPTY) {
			cs.splice_empty++;
			l_fold(t0, "a splice returned SRC_EMPTY (its call stamp)");
			saw_empty = 1;
			l_drain_q2(c, 0);
		} else if (ret == CDS_WFCQ_RET_DEST_EMPTY)
			l_drain_q2(c, 1);
		else
			vp_violation("wfcq:long:splice-dest-state", "cfg=%s splice into the drained private queue returned %d", cfgname, (int) ret);
		if (lockit)
			wq_unlock(&l_q);
		return saw_empty;
	}
	if (x < 30) {
		t0 = ts_before();
		if (cds_wfcq_empty(wq_chead(&l_q), &l_q.tail)) {
			/* several consumers: M is shared, fold under the lock */
			if (l_C > 1)
				wq_lock(&l_q);
			cs.empties_true++;
			l_fold(t0, "cds_wfcq_empty() returned true (its call stamp)");
			if (l_C > 1)
				wq_unlock(&l_q);
			return 1;
		}
		if (l_C == 1)
			cs.empties_false++;
		return 0;
	}
	t0 = ts_before();
	if (lockit || l_sc) {
		if (lockit)
			wq_lock(&l_q);
		t0 = ts_before();
		switch (x & 3) {
		case 0: cn = __cds_wfcq_dequeue_blocking(wq_head(&l_q), &l_q.tail); break;
		case 1: cn = __cds_wfcq_dequeue_nonblocking(wq_head(&l_q), &l_q.tail); break;
		case 2: with_state = 1; cn = __cds_wfcq_dequeue_with_state_blocking(wq_head(&l_q), &l_q.tail, &state); break;
		default: with_state = 1; cn = __cds_wfcq_dequeue_with_state_nonblocking(wq_head(&l_q), &l_q.tail, &state); break;
		}
	} else if (x & 1) {
		cn = cds_wfcq_dequeue_blocking(&l_q.lh, &l_q.tail);
	} else {
		with_state = 1;
		cn = cds_wfcq_dequeue_with_state_blocking(&l_q.lh, &l_q.tail, &state);
	}
	if (cn == CDS_WFCQ_WOULDBLOCK) {
		cs.wouldblock++;
		if (with_state && state)
			vp_violation("wfcq:long:last-flag", "cfg=%s state=%x with WOULDBLOCK", cfgname, state);
	} else if (!cn) {
		cs.nulls++;
		l_fold(t0, "a dequeue returned NULL (its call stamp)");
		saw_empty = 1;
	} else {
		if (with_state && (state & CDS_WFCQ_STATE_LAST)) {
			cs.lasts++;
			/* the queue held only this node at some instant after t0: fold AFTER judging the node itself */
			l_on_node(c, node_of_c(cn));
			l_fold(t0, "a dequeue reported CDS_WFCQ_STATE_LAST (its call stamp)");
		} else
			l_on_node(c, node_of_c(cn));
	}
	if (lockit)
		wq_unlock(&l_q);
	return saw_empty;
}

static int l_consume_wfq(struct lcons *c)
{
	struct cds_wfq_node *wn;
	uint64_t t0;
	int saw_empty = 0;

	if (l_C > 1)
		pthread_mutex_lock(&l_wq_mutex);
	t0 = ts_before();
	if (l_C > 1)
		wn = __cds_wfq_dequeue_blocking(&l_wq);
	else
		wn = cds_wfq_dequeue_blocking(&l_wq);
	if (!wn) {
		cs.nulls++;
		l_fold(t0, "a dequeue returned NULL (its call stamp)");
		saw_empty = 1;
	} else
		l_on_node(c, node_of_w(wn));
	if (l_C > 1)
		pthread_mutex_unlock(&l_wq_mutex);
	return saw_empty;
}

static int l_all_done(void)
{
	for (int p = 0; p < l_P; p++)
		if (!VP_LOAD(lprod[p].done))
			return 0;
	return 1;
}

static void *lcons_main(void *arg)
{
	struct lcons *c = arg;
	struct vp_thr *vt;

	vp_pin(c->idx);
	vt = vp_self();
	for (;;) {
		int done = l_all_done();	/* sampled BEFORE the operation */
		VP_STORE(c->cur, 1);
		int empty = l_wfq ? l_consume_wfq(c) : l_consume_wfcq(c);
		VP_STORE(c->cur, 0);
		VP_STORE(vt->progress, vt->progress + 1);
		if (empty) {
			if (done)
				break;
			if (vp_rand_n(&c->rng, 4) == 0)
				vp_spin_cycles(vp_rand_n(&c->rng, 3000));
		}
		if (vp_nviolations() > 0 && done)
			break;
	}
	return NULL;
}

static void *lprod_main(void *arg)
{
	struct lprod *pr = arg;
	struct vp_thr *vt;
	struct vp_rng rng;
	uint64_t prev_ret = 0;
	int p = pr->idx;

	vp_pin(l_C + p);
	vt = vp_self();
	vp_rng_init(&rng, vp_opt.seed, 0x9c0d, (uint64_t) p);
	for (uint64_t k = 1; k <= l_per_prod; k++) {
		struct node *n = node_new(((uint64_t) p << 32) | k, 1);
		n->t_prev_ret = prev_ret;
		if (l_wfq) {
			cds_wfq_node_init(&n->link.w);
			n->t_call = ts_before();
			cds_wfq_enqueue(&l_wq, &n->link.w);
		} else {
			cds_wfcq_node_init(&n->link.c);
			n->t_call = ts_before();
			if (cds_wfcq_enqueue(wq_head(&l_q), &l_q.tail, &n->link.c))
				pr->enq_nonempty++;
			else
				pr->enq_empty++;
		}
		prev_ret = ts_after();
		pr->produced = k;
		/* backlog bound, changing every 4096 nodes: 1..8 keeps the queue oscillating around
		 * empty (last-node dequeue vs enqueue, NULL / LAST / empty() results), the larger
		 * ones give long chains to splice */
		static const uint32_t limits[8] = { 1, 2, 4, 8, 3, 64, 2, 1500 };
		uint64_t limit = limits[((k >> 12) + (uint64_t) p) & 7];
		if (k - VP_LOAD(cs.next[p]) > limit) {
			uint64_t spins = 0;
			VP_STORE(pr->throttled, 1);
			/* no progress bump in here: a dead consumer must trip the watchdog */
			while (k - VP_LOAD(cs.next[p]) > limit && !vp_nviolations()) {
				if (++spins > 2000)
					sched_yield();
				else
					__asm__ __volatile__("pause");
			}
			VP_STORE(pr->throttled, 0);
		}
		if ((k & 63) == 0) {
			VP_STORE(vt->progress, vt->progress + 1);
			if (vp_rand_n(&rng, 64) == 0)
				vp_spin_cycles(2000 + vp_rand_n(&rng, 60000));
			if (vp_nviolations() > 0 || (double) (vp_now_ns() - t_start_ns) / 1e9 >= opt_seconds)
				break;
		}
	}
	pr->final_ret = prev_ret;
	VP_STORE(pr->done, 1);
	return NULL;
}

static int long_confirm_stuck(char *buf, size_t len)
{
	int in_op = 0;

	for (int i = 0; i < l_C; i++)
		if (VP_LOAD(lcons[i].cur))
			in_op = 1;
	int quiet = 1;
	for (int p = 0; p < l_P; p++)
		if (!VP_LOAD(lprod[p].done) && !VP_LOAD(lprod[p].throttled))
			quiet = 0;
	if (quiet && in_op && !VP_LOAD(vp_frz.frozen)) {
		snprintf(buf, len, "hang:%s:long:consumer-stuck-after-all-enqueues-returned", l_wfq ? "wfq" : "wfcq");
		return 1;
	}
	snprintf(buf, len, "hang:wfq-long:unconfirmed");
	return 0;
}

static int run_long(void)
{
	const char *fam = vp_arg("family", "wfcq");
	double chaos = vp_arg_double("chaos", 0.0002);
	uint64_t total = (uint64_t) vp_arg_long("nodes", 2000000);

	l_wfq = !strcmp(fam, "wfq");
	l_sc = !strcmp(vp_arg("api", "locked"), "sc");
	l_P = (int) vp_arg_long("producers", 3);
	l_C = (int) vp_arg_long("consumers", 1);
	if (l_P < 1 || l_P > L_MAXP || l_C < 1 || l_C > L_MAXC || (l_sc && l_C > 1))
		return 2;
	l_per_prod = total / (uint64_t) l_P;
	wq_init(&l_q, l_sc);
	wq_init(&l_q2, l_sc);
	cds_wfq_init(&l_wq);
	if (chaos > 0) {
		vp_point_set(URCU_VP_WFCQ_APPEND_MID, chaos, VP_D_HEAVY);
		vp_point_set(URCU_VP_WFCQ_DEQ_BEFORE_CMPXCHG, chaos * 20, VP_D_SPIN);
		vp_point_set(URCU_VP_WFCQ_SPLICE_MID, chaos * 100, VP_D_HEAVY);
		vp_point_set(URCU_VP_WFQ_ENQ_MID, chaos / 4, VP_D_SPIN);
	}
	vp_watchdog_start((uint64_t) vp_arg_long("stall-ms", 6000), long_confirm_stuck);
	for (int i = 0; i < l_C; i++) {
		lcons[i].idx = i;
		vp_rng_init(&lcons[i].rng, vp_opt.seed, 0xc0c0, (uint64_t) i);
		pthread_create(&lcons[i].tid, NULL, lcons_main, &lcons[i]);
	}
	for (int p = 0; p < l_P; p++) {
		lprod[p].idx = p;
		pthread_create(&lprod[p].tid, NULL, lprod_main, &lprod[p]);
	}
	for (int p = 0; p < l_P; p++)
		pthread_join(lprod[p].tid, NULL);
	for (int i = 0; i < l_C; i++)
		pthread_join(lcons[i].tid, NULL);
	vp_watchdog_stop();

	/* quiescence: conservation + last real-time checks */
	uint64_t produced = 0, ne = 0, em = 0;
	for (int p = 0; p < l_P; p++) {
		produced += lprod[p].produced;
		ne += lprod[p].enq_nonempty;
		em += lprod[p].enq_empty;
		if (cs.next[p] != lprod[p].produced && !vp_nviolations()) {
			char key[96];
			snprintf(key, sizeof(key), "%s:long:conservation", l_wfq ? "wfq" : "wfcq");
			vp_violation(key, "cfg=%s producer %d enqueued %llu nodes, %llu came out, queue reports empty",
				     cfgname, p, (unsigned long long) lprod[p].produced, (unsigned long long) cs.next[p]);
		}
		l_rt_check(p, lprod[p].final_ret);
	}
#if !(VP_ASAN || VP_TSAN)
	for (int i = 0; i < l_C; i++)
		nquar_drain(&lcons[i].nq);
#endif
	if (!vp_eps)
		vp_inconclusive("tsc-calibration-failed: real-time order / presence-cover oracle skipped");

	uint64_t mk = 0;
	static const int mpts[] = { URCU_VP_WFCQ_DEQ_CMPXCHG_FAILED, URCU_VP_WFCQ_DEQ_NB_RESTORE,
				    URCU_VP_WFCQ_SPLICE_NULL_HEAD, URCU_VP_WFCQ_SYNC_NEXT_WAIT, URCU_VP_WFQ_DEQ_DUMMY };
	for (size_t i = 0; i < sizeof(mpts) / sizeof(mpts[0]); i++) {
		uint64_t h = vp_point_hits(mpts[i]);
		if (h) {
			mk += h;
			vp_sig_add("long:%s:%s:P%d:C%d:%s", fam, l_sc ? "sc" : "locked", l_P, l_C, vp_point_names[mpts[i]]);
		}
	}
	if (cs.lasts)
		vp_sig_add("long:%s:%s:P%d:C%d:LAST-checked", fam, l_sc ? "sc" : "locked", l_P, l_C);
	if (cs.nulls)
		vp_sig_add("long:%s:%s:P%d:C%d:NULL-checked", fam, l_sc ? "sc" : "locked", l_P, l_C);
	uint64_t ev = cs.deq / 1000;
	vp_counter_add("evaluations", ev);
	vp_counter_add("nontrivial", mk < ev ? mk : ev);
	vp_counter_add("longrun_nodes", cs.deq);
	vp_counter_add("longrun_produced", produced);
	vp_counter_add("longrun_null_results", cs.nulls);
	vp_counter_add("longrun_last_flags", cs.lasts);
	vp_counter_add("longrun_splices", cs.splices);
	vp_counter_add("longrun_splices_src_empty", cs.splice_empty);
	vp_counter_add("longrun_nodes_via_splice", cs.via_splice);
	vp_counter_add("longrun_empty_true", cs.empties_true);
	vp_counter_add("longrun_wouldblock", cs.wouldblock);
	vp_counter_add("longrun_realtime_checks", cs.rt_checks);
	vp_counter_add("longrun_enqueue_saw_empty", em);
	vp_counter_add("longrun_enqueue_saw_nonempty", ne);
	vp_counter_add("library_wait_sleeps", VP_LOAD(wfq_wait_sleeps));
	vp_note("cfg=%s mode=long family=%s api=%s P=%d C=%d nodes=%llu nulls=%llu lasts=%llu splices=%llu rt_checks=%llu eps=%llu",
		cfgname, fam, l_sc ? "sc" : "locked", l_P, l_C, (unsigned long long) cs.deq,
		(unsigned long long) cs.nulls, (unsigned long long) cs.lasts, (unsigned long long) cs.splices,
		(unsigned long long) cs.rt_checks, (unsigned long long) vp_eps);
	return vp_finish();
}
