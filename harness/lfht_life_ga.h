/*
 * lfht_life_ga.h - private helper of lfht_life.c (C07 / C09).
 *
 * Page-guard allocator without the 30000-allocation cap of vp_guard_alloc():
 * every allocation lives on its own pages inside large PROT_NONE reservations,
 * ends right before an inaccessible guard page, is zero-filled (calloc
 * semantics), and is turned PROT_NONE for good when released (addresses are
 * never reused during the run).  Any access before allocation or after release
 * faults; the SIGSEGV handler below names the allocation (kind, table, size,
 * time since release) in the VP-CRASH line the driver parses.
 *
 * Also: the recording `struct cds_lfht_alloc` implementations built on it.
 */
#ifndef LFHT_LIFE_GA_H
#define LFHT_LIFE_GA_H

#include <sys/mman.h>
#include <ucontext.h>
#include <dlfcn.h>
#include <execinfo.h>

#define GA_MAXREC (1u << 20)
#define GA_HASH (GA_MAXREC * 2)
#define GA_CHUNK (1UL << 30)

enum { GA_K_NODE = 1, GA_K_BUCKETS, GA_K_HT, GA_K_SPLIT, GA_K_WORK, GA_K_PART, GA_K_OTHER };
static const char *ga_kind_names[] = { "?", "lfht-node", "lfht-bucket-array", "lfht-table-struct", "lfht-split-counters",
	"lfht-resize-work", "lfht-partition-work", "lfht-other" };

struct ga_rec {
	char *base;
	size_t len;
	char *user;
	size_t size;
	uint32_t kind, table;
	uint32_t state;		/* 1 live, 2 freed */
	uint32_t nmemb;
	uint64_t t_alloc, t_free;
};

static struct ga_rec *ga_recs;
static uint32_t *ga_hash;
static uint32_t ga_n;
static pthread_mutex_t ga_lock = PTHREAD_MUTEX_INITIALIZER;
static char *ga_cur, *ga_end;
static uint64_t ga_bytes_live, ga_fallbacks;

static void ga_init(void)
{
	ga_recs = mmap(NULL, sizeof(struct ga_rec) * GA_MAXREC, PROT_READ | PROT_WRITE,
		       MAP_PRIVATE | MAP_ANONYMOUS | MAP_NORESERVE, -1, 0);
	ga_hash = mmap(NULL, sizeof(uint32_t) * GA_HASH, PROT_READ | PROT_WRITE,
		       MAP_PRIVATE | MAP_ANONYMOUS | MAP_NORESERVE, -1, 0);
	if (ga_recs == MAP_FAILED || ga_hash == MAP_FAILED) {
		perror("ga_init mmap");
		exit(2);
	}
}

static inline uint32_t ga_h(const void *p)
{
	return (uint32_t) ((((uintptr_t) p >> 4) * 0x9e3779b97f4a7c15ULL) >> 40) & (GA_HASH - 1);
}

/* returns NULL when the record table or the address space is exhausted (caller falls back) */
static void *ga_alloc(size_t size, uint32_t kind, uint32_t table, uint32_t nmemb)
{
	size_t pg = 4096;
	size_t usz = (size + 15) & ~(size_t) 15;
	size_t body = (usz + pg - 1) & ~(pg - 1);
	if (!body)
		body = pg;
	size_t need = body + pg;
	pthread_mutex_lock(&ga_lock);
	if (ga_n >= GA_MAXREC) {
		ga_fallbacks++;
		pthread_mutex_unlock(&ga_lock);
		return NULL;
	}
	if (!ga_cur || ga_cur + need > ga_end) {
		size_t clen = need > GA_CHUNK ? need : GA_CHUNK;
		char *c = mmap(NULL, clen, PROT_NONE, MAP_PRIVATE | MAP_ANONYMOUS | MAP_NORESERVE, -1, 0);
		if (c == MAP_FAILED) {
			ga_fallbacks++;
			pthread_mutex_unlock(&ga_lock);
			return NULL;
		}
		ga_cur = c;
		ga_end = c + clen;
	}
	char *p = ga_cur;
	ga_cur += need;
	uint32_t idx = ga_n;
	struct ga_rec *r = &ga_recs[idx];
	r->base = p;
	r->len = need;
	r->user = p + body - usz;
	r->size = size;
	r->kind = kind;
	r->table = table;
	r->nmemb = nmemb;
	r->state = 1;
	r->t_alloc = vp_rdtsc();
	for (uint32_t h = ga_h(r->user);; h = (h + 1) & (GA_HASH - 1)) {
		if (!ga_hash[h]) {
			ga_hash[h] = idx + 1;
			break;
		}
	}
	__atomic_store_n(&ga_n, idx + 1, __ATOMIC_RELEASE);
	ga_bytes_live += body;
	pthread_mutex_unlock(&ga_lock);
	if (mprotect(p, body, PROT_READ | PROT_WRITE)) {
		perror("ga_alloc mprotect");
		abort();
	}
	return r->user;
}

static struct ga_rec *ga_find(const void *user)
{
	struct ga_rec *r = NULL;
	pthread_mutex_lock(&ga_lock);
	for (uint32_t h = ga_h(user);; h = (h + 1) & (GA_HASH - 1)) {
		uint32_t v = ga_hash[h];
		if (!v)
			break;
		if (ga_recs[v - 1].user == (const char *) user) {
			r = &ga_recs[v - 1];
			break;
		}
	}
	pthread_mutex_unlock(&ga_lock);
	return r;
}

/* 1 released, 0 not a guard allocation, -1 double free */
static int ga_free(void *user)
{
	struct ga_rec *r = ga_find(user);
	if (!r)
		return 0;
	uint32_t st = __atomic_exchange_n(&r->state, 2, __ATOMIC_ACQ_REL);
	if (st != 1)
		return -1;
	r->t_free = vp_rdtsc();
	/*
	 * Replace the pages by a fresh inaccessible mapping (same trick as the library's mmap back end):
	 * releases the memory and, unlike mprotect(), leaves a VMA that merges with the neighbouring
	 * reservations, so the number of mappings stays proportional to the LIVE allocations.
	 */
	if (mmap(r->base, r->len, PROT_NONE, MAP_FIXED | MAP_PRIVATE | MAP_ANONYMOUS | MAP_NORESERVE, -1, 0) != (void *) r->base)
		mprotect(r->base, r->len, PROT_NONE);
	pthread_mutex_lock(&ga_lock);
	ga_bytes_live -= r->len - 4096;
	pthread_mutex_unlock(&ga_lock);
	return 1;
}

static int ga_classify(const void *addr, char *cls, size_t clen, char *detail, size_t dlen)
{
	uint32_t n = __atomic_load_n(&ga_n, __ATOMIC_ACQUIRE);
	for (uint32_t i = 0; i < n; i++) {
		struct ga_rec *r = &ga_recs[i];
		if ((const char *) addr >= r->base && (const char *) addr < r->base + r->len) {
			uint32_t st = r->state;
			const char *what = st == 2 ? "FREED" : ((const char *) addr >= r->user + ((r->size + 15) & ~15UL) ? "live(overflow)" :
				((const char *) addr < r->user ? "live(underflow)" : "live"));
			snprintf(cls, clen, "%s %s", ga_kind_names[r->kind < 8 ? r->kind : 0], what);
			snprintf(detail, dlen, "ga#%u table=%u size=%zu nmemb=%u off=%ld alloc_tsc=%llu free_tsc=%llu now_tsc=%llu",
				 i, r->table, r->size, r->nmemb, (long) ((const char *) addr - r->user),
				 (unsigned long long) r->t_alloc, (unsigned long long) r->t_free,
				 (unsigned long long) vp_rdtsc());
			return 1;
		}
	}
	return 0;
}

#if !VP_ASAN && !VP_TSAN
static void (*ga_crash_extra)(void);
static void ga_crash_handler(int sig, siginfo_t *si, void *uc_)
{
	ucontext_t *uc = uc_;
	char cls[128] = "unclassified", detail[320] = "";
	void *addr = si ? si->si_addr : NULL;
	if (!ga_classify(addr, cls, sizeof(cls), detail, sizeof(detail))) {
		char b[256];
		if (vp_guard_classify(addr, b, sizeof(b)))
			snprintf(cls, sizeof(cls), "%s", b);
		else if (((uintptr_t) addr >> 32) == 0xdead4eadULL)
			snprintf(cls, sizeof(cls), "poisoned-pointer");
		else if (addr == NULL || (uintptr_t) addr < 4096)
			snprintf(cls, sizeof(cls), "null");
		else if ((uintptr_t) addr >= 0x0000800000000000ULL)
			snprintf(cls, sizeof(cls), "non-canonical(poison?)");
	}
	fprintf(stderr, "VP-CRASH sig=%d addr=%p class=[%s] rip=%p %s\n", sig, addr, cls,
		uc ? (void *) uc->uc_mcontext.gregs[REG_RIP] : NULL, detail);
	{
		Dl_info di;
		void *rip = uc ? (void *) uc->uc_mcontext.gregs[REG_RIP] : NULL;
		void *pc[20];
		if (rip && dladdr(rip, &di) && di.dli_fbase)
			fprintf(stderr, "VP-CRASH-AT %s+0x%lx (addr2line -f -i -e <binary> 0x%lx)\n", di.dli_fname ? di.dli_fname : "?",
				(unsigned long) ((char *) rip - (char *) di.dli_fbase), (unsigned long) ((char *) rip - (char *) di.dli_fbase));
		int n = backtrace(pc, 20);
		backtrace_symbols_fd(pc, n, 2);
	}
	if (ga_crash_extra)
		ga_crash_extra();
	vp_dump_threads(stderr);
	/* the driver keeps only the tail of stderr: repeat the classification line last */
	fprintf(stderr, "VP-CRASH sig=%d addr=%p class=[%s] rip=%p %s\n", sig, addr, cls,
		uc ? (void *) uc->uc_mcontext.gregs[REG_RIP] : NULL, detail);
	signal(sig, SIG_DFL);
	raise(sig);
}
#endif

static void ga_install_crash_handler(void)
{
#if !VP_ASAN && !VP_TSAN
	struct sigaction sa;
	memset(&sa, 0, sizeof(sa));
	sa.sa_sigaction = ga_crash_handler;
	sa.sa_flags = SA_SIGINFO | SA_ONSTACK | SA_RESETHAND;
	sigemptyset(&sa.sa_mask);
	sigaction(SIGSEGV, &sa, NULL);
	sigaction(SIGBUS, &sa, NULL);
#endif
}

#endif
