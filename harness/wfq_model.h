/*
 * wfq_model.h - C10: sequential specification of two wfcqueues for the linearizability checker.
 *
 * State: two FIFO queues of local node indexes plus, per thread, the chain a splice of that
 * thread has taken out of its source and not yet appended to its destination.
 *
 * What the documentation promises and therefore what the model accepts:
 *   enqueue       -> false iff the queue was empty before
 *   dequeue       -> first node, NULL iff empty; with_state: LAST iff it was the only node
 *   *_nonblocking -> as above, or WOULDBLOCK as a no-op that is legal only on a non-empty queue
 *                    (the library needs to block only while a node that is already queued - tail
 *                    exchanged - is not linked yet)
 *   empty()       -> true iff empty
 *   first/next    -> the exact queue content (iteration excludes dequeuers; it ends at the node
 *                    the tail points to, i.e. it is a snapshot taken at that instant);
 *                    nonblocking iteration that stopped with WOULDBLOCK: a strict prefix
 *   splice        -> NOT documented as atomic ("dequeue all nodes from src_q", "enqueue all at the
 *                    end of dest_q"): it is two lin_ops with the same interval, TAKE (source
 *                    becomes empty; SRC_EMPTY iff it was empty) and PUT (append; DEST_EMPTY /
 *                    DEST_NON_EMPTY as for enqueue), PUT after TAKE of the same thread.
 *   FINAL         -> content found by the controller at quiescence (drained in order)
 */
#ifndef WFQ_MODEL_H
#define WFQ_MODEL_H
#include "lin.h"
#include <string.h>

#define M_MAXN 44		/* nodes per episode (local index 1..M_MAXN) */
#define M_MAXT 4
#define M_WB 255

enum {
	K_ENQ = 0, K_DEQ_B, K_DEQ_NB, K_DEQS_B, K_DEQS_NB, K_SPL_B_TAKE, K_SPL_B_PUT,
	K_SPL_NB_TAKE, K_SPL_NB_PUT, K_EMPTY, K_ITER_B, K_ITER_NB, K_FINAL, K_NR
};
static const char *const kind_names[32] = {
	"enq", "deq", "deq_nb", "deqs", "deqs_nb", "spl_take", "spl_put",
	"splnb_take", "splnb_put", "empty", "iter", "iter_nb", "final",
	"?", "?", "?", "?", "?", "?", "?", "?", "?", "?", "?", "?", "?", "?", "?", "?", "?", "?", "?",
};

/* splice return codes as recorded (enum cds_wfcq_ret + 1 so that they are unsigned) */
#define R_WB 0
#define R_DEST_EMPTY 1
#define R_DEST_NON_EMPTY 2
#define R_SRC_EMPTY 3

/* lin_op.a = queue | (index of the op in its thread's program order << 8).  The checker only
 * knows [call,ret] widened by eps, which would let it reorder back-to-back operations of ONE
 * thread; program order is certain, so the model enforces it. */
#define OP_Q(o) ((int) ((o)->a & 0xff))
#define OP_SEQ(o) ((int) ((o)->a >> 8))

struct mstate {
	uint8_t nextop[M_MAXT];
	uint8_t n[2];
	uint8_t q[2][M_MAXN];
	uint8_t ts[M_MAXT];		/* 0 none, 1 chain pending, 2 nothing to put */
	uint8_t tn[M_MAXT];
	uint8_t t[M_MAXT][M_MAXN];
};

/* history + side data = ctx of the model */
struct hist {
	struct lin_op ops[LIN_MAX_OPS];
	int nops;
	uint8_t seqn[LIN_MAX_OPS];
	uint8_t seq[LIN_MAX_OPS][M_MAXN];	/* iteration / final content, by op index */
	uint8_t pre_n[2];
	uint8_t pre[2][M_MAXN];			/* initial content */
	uint64_t gid[M_MAXN + 1];		/* local index -> node id */
	int api_sc, nthr, frozen, chaos;
	uint64_t episode;
};

static void m_init(void *state, void *ctx)
{
	struct mstate *s = state;
	struct hist *h = ctx;
	memset(s, 0, sizeof(*s));
	for (int q = 0; q < 2; q++) {
		s->n[q] = h->pre_n[q];
		memcpy(s->q[q], h->pre[q], h->pre_n[q]);
	}
}

static inline int m_pop(struct mstate *s, int q)
{
	int v = s->q[q][0];
	memmove(&s->q[q][0], &s->q[q][1], (size_t) (s->n[q] - 1));
	s->n[q]--;
	s->q[q][s->n[q]] = 0;
	return v;
}

static int m_apply(void *state, const struct lin_op *op, void *ctx)
{
	struct mstate *s = state;
	struct hist *h = ctx;
	int q = OP_Q(op), th = op->thread, idx = (int) (op - h->ops);

	if (th >= 0 && th < M_MAXT) {
		if (OP_SEQ(op) != s->nextop[th])
			return 0;
		s->nextop[th]++;
	}
	switch (op->kind) {
	case K_ENQ:
		if ((op->r != 0) != (s->n[q] != 0) || s->n[q] >= M_MAXN)
			return 0;
		s->q[q][s->n[q]++] = (uint8_t) op->b;
		return 1;
	case K_DEQ_B: case K_DEQ_NB: case K_DEQS_B: case K_DEQS_NB: {
		int with_state = op->kind == K_DEQS_B || op->kind == K_DEQS_NB;
		if (op->r == M_WB) {
			if (op->kind == K_DEQ_B || op->kind == K_DEQS_B)
				return 0;
			return s->n[q] != 0 && (!with_state || op->r2 == 0);
		}
		if (op->r == 0)
			return s->n[q] == 0 && (!with_state || op->r2 == 0);
		if (!s->n[q] || s->q[q][0] != op->r)
			return 0;
		if (with_state && op->r2 != (s->n[q] == 1 ? 1u : 0u))
			return 0;
		m_pop(s, q);
		return 1;
	}
	case K_SPL_B_TAKE: case K_SPL_NB_TAKE: {
		int src = (int) op->b;
		if (th < 0 || th >= M_MAXT || s->ts[th])
			return 0;
		if (op->r == R_WB) {
			if (op->kind == K_SPL_B_TAKE || !s->n[src])
				return 0;
			s->ts[th] = 2;
			return 1;
		}
		if (op->r == R_SRC_EMPTY) {
			if (s->n[src])
				return 0;
			s->ts[th] = 2;
			return 1;
		}
		if (!s->n[src])
			return 0;
		s->tn[th] = s->n[src];
		memcpy(s->t[th], s->q[src], s->n[src]);
		memset(s->q[src], 0, s->n[src]);
		s->n[src] = 0;
		s->ts[th] = 1;
		return 1;
	}
	case K_SPL_B_PUT: case K_SPL_NB_PUT:
		if (th < 0 || th >= M_MAXT || !s->ts[th])
			return 0;
		if (op->r == R_WB || op->r == R_SRC_EMPTY) {
			if (s->ts[th] != 2)
				return 0;
			s->ts[th] = 0;
			return 1;
		}
		if (s->ts[th] != 1 || s->n[q] + s->tn[th] > M_MAXN)
			return 0;
		if ((op->r == R_DEST_NON_EMPTY) != (s->n[q] != 0))
			return 0;
		memcpy(&s->q[q][s->n[q]], s->t[th], s->tn[th]);
		s->n[q] = (uint8_t) (s->n[q] + s->tn[th]);
		memset(s->t[th], 0, s->tn[th]);
		s->tn[th] = 0;
		s->ts[th] = 0;
		return 1;
	case K_EMPTY:
		return (op->r != 0) == (s->n[q] == 0);
	case K_ITER_B: case K_FINAL:
		if (op->r2)		/* WOULDBLOCK: never in blocking iteration / at quiescence */
			return 0;
		return h->seqn[idx] == s->n[q] && !memcmp(h->seq[idx], s->q[q], s->n[q]);
	case K_ITER_NB:
		if (op->r2)
			return h->seqn[idx] < s->n[q] && !memcmp(h->seq[idx], s->q[q], h->seqn[idx]);
		return h->seqn[idx] == s->n[q] && !memcmp(h->seq[idx], s->q[q], s->n[q]);
	}
	return 0;
}

static void m_print_id(FILE *f, struct hist *h, uint64_t li)
{
	if (li == M_WB)
		fprintf(f, "WOULDBLOCK");
	else if (li == 0)
		fprintf(f, "NULL");
	else if (li <= M_MAXN)
		fprintf(f, "n%llu(%llx)", (unsigned long long) li, (unsigned long long) h->gid[li]);
	else
		fprintf(f, "garbage(%llu)", (unsigned long long) li);
}

static void m_print_op(FILE *f, const struct lin_op *op, void *ctx)
{
	struct hist *h = ctx;
	int idx = (int) (op - h->ops);
	static const char *const rn[4] = { "WOULDBLOCK", "DEST_EMPTY", "DEST_NON_EMPTY", "SRC_EMPTY" };

	switch (op->kind) {
	case K_ENQ:
		fprintf(f, "enqueue(q%d, ", OP_Q(op));
		m_print_id(f, h, op->b);
		fprintf(f, ") -> %s", op->r ? "true(was non-empty)" : "false(was empty)");
		break;
	case K_DEQ_B: case K_DEQ_NB: case K_DEQS_B: case K_DEQS_NB:
		fprintf(f, "%s(q%d) -> ", kind_names[op->kind], OP_Q(op));
		m_print_id(f, h, op->r);
		if (op->kind == K_DEQS_B || op->kind == K_DEQS_NB)
			fprintf(f, " state=%s", op->r2 ? "LAST" : "0");
		break;
	case K_SPL_B_TAKE: case K_SPL_NB_TAKE: case K_SPL_B_PUT: case K_SPL_NB_PUT:
		fprintf(f, "%s(dest=q%d, src=q%d) -> %s", kind_names[op->kind], OP_Q(op), (int) op->b,
			op->r < 4 ? rn[op->r] : "?");
		break;
	case K_EMPTY:
		fprintf(f, "empty(q%d) -> %s", OP_Q(op), op->r ? "true" : "false");
		break;
	case K_ITER_B: case K_ITER_NB: case K_FINAL:
		fprintf(f, "%s(q%d) -> [", kind_names[op->kind], OP_Q(op));
		for (int i = 0; i < h->seqn[idx]; i++) {
			if (i)
				fputc(' ', f);
			m_print_id(f, h, h->seq[idx][i]);
		}
		fprintf(f, "]%s", op->r2 ? " then WOULDBLOCK" : "");
		break;
	default:
		fprintf(f, "kind=%d", op->kind);
	}
}

static const struct lin_model wfq_model = {
	.name = "two-fifo-queues-with-splice",
	.state_size = sizeof(struct mstate),
	.init = m_init,
	.apply = m_apply,
	.hash = NULL,
	.print_op = m_print_op,
};

#endif
