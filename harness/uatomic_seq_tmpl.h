/*
 * uatomic_seq_tmpl.h - per-type instantiation of the sequential differential
 * drivers of harness/uatomic.c (property C20, family (i)).
 *
 * Include with:
 *   ST_T     operand type            ST_UT  unsigned type of the same width
 *   ST_WT    long / unsigned long (type of the "wide operand" variants)
 *   ST_N     identifier suffix       ST_NAME string name
 *   ST_W     width in bytes          ST_SIGNED 0/1
 *
 * Two noinline drivers per (operation variant): they iterate olds[] x operands[],
 * and for every pair
 *     *p = old;            plain C store into the window
 *     cmm_barrier();       ONLY in the "barrier" driver (value semantics in isolation);
 *                          the "nobarrier" driver lets the compiler see the plain store
 *                          directly in front of the operation: an implementation that
 *                          does not tell the compiler that it READS *p loses the store
 *     <uatomic call>       real implementation under test
 *     now = *p;            plain C load
 * computes the reference (plain C, unsigned arithmetic truncated to the width),
 * writes the reference result into the reference image and compares the return
 * value (as a value of type T: truncation + signedness), the target and all 48
 * bytes of the image (neighbours + guards).
 */

#define ST_CAT_(a, b) a##b
#define ST_CAT(a, b) ST_CAT_(a, b)
#define ST_FN(tag) ST_CAT(ST_CAT(seqdrv_, ST_N), ST_CAT(_, tag))
#define ST_FN_NB(tag) ST_CAT(ST_CAT(seqdrvnb_, ST_N), ST_CAT(_, tag))

#define ST_ADD(x, y) ((ST_T) (ST_UT) ((ST_UT) (x) + (ST_UT) (y)))
#define ST_SUB(x, y) ((ST_T) (ST_UT) ((ST_UT) (x) - (ST_UT) (y)))
#define ST_AND(x, y) ((ST_T) (ST_UT) ((ST_UT) (x) & (ST_UT) (y)))
#define ST_OR(x, y) ((ST_T) (ST_UT) ((ST_UT) (x) | (ST_UT) (y)))

/* value that converts to v when converted to ST_T, with junk above the width */
static inline ST_WT ST_CAT(seq_widen_, ST_N)(ST_T v, unsigned long g)
{
	unsigned long u = (unsigned long) (ST_UT) v;
	unsigned long hi = ((g | 1UL) << (4 * ST_W)) << (4 * ST_W);
	return (ST_WT) (u | hi);
}

/*
 * X(tag, "variant name", "base operation", uses_operand, has_return,
 *   call, expected return, expected new memory value)
 * In scope: p (ST_T *), old, a, b (ST_T), aw, bw, oldw (ST_WT), ret (long long: the
 * value of the call expression converted to long long, i.e. sign-/zero-extended
 * according to the type the API yields).
 */
#define SEQ_VARIANTS(X) \
X(set,            "set",                    "set",        1, 0, uatomic_set(p, a),                                   0, a) \
X(set_wide,       "set/wide-operand",       "set",        1, 0, uatomic_set(p, aw),                                  0, a) \
X(store,          "store",                  "store",      1, 0, uatomic_store(p, a),                                 0, a) \
X(read,           "read",                   "read",       0, 1, ret = uatomic_read(p),                               old, old) \
X(load,           "load",                   "load",       0, 1, ret = uatomic_load(p),                               old, old) \
X(xchg,           "xchg",                   "xchg",       1, 1, ret = uatomic_xchg(p, a),                            old, a) \
X(xchg_wide,      "xchg/wide-operand",      "xchg",       1, 1, ret = uatomic_xchg(p, aw),                           old, a) \
X(cmpxchg_hit,    "cmpxchg-success",        "cmpxchg",    1, 1, ret = uatomic_cmpxchg(p, old, b),                    old, b) \
X(cmpxchg,        "cmpxchg",                "cmpxchg",    1, 1, ret = uatomic_cmpxchg(p, a, b),                      old, (old == a ? b : old)) \
X(cmpxchg_wide,   "cmpxchg/wide-operands",  "cmpxchg",    1, 1, ret = uatomic_cmpxchg(p, aw, bw),                    old, (old == a ? b : old)) \
X(cmpxchg_hit_wide, "cmpxchg-success/wide-operands", "cmpxchg", 1, 1, ret = uatomic_cmpxchg(p, oldw, bw),            old, b) \
X(add_return,     "add_return",             "add_return", 1, 1, ret = uatomic_add_return(p, a),                      ST_ADD(old, a), ST_ADD(old, a)) \
X(add_return_wide, "add_return/wide-operand", "add_return", 1, 1, ret = uatomic_add_return(p, aw),                   ST_ADD(old, a), ST_ADD(old, a)) \
X(sub_return,     "sub_return",             "sub_return", 1, 1, ret = uatomic_sub_return(p, a),                      ST_SUB(old, a), ST_SUB(old, a)) \
X(sub_return_wide, "sub_return/wide-operand", "sub_return", 1, 1, ret = uatomic_sub_return(p, aw),                   ST_SUB(old, a), ST_SUB(old, a)) \
X(add,            "add",                    "add",        1, 0, uatomic_add(p, a),                                   0, ST_ADD(old, a)) \
X(add_wide,       "add/wide-operand",       "add",        1, 0, uatomic_add(p, aw),                                  0, ST_ADD(old, a)) \
X(sub,            "sub",                    "sub",        1, 0, uatomic_sub(p, a),                                   0, ST_SUB(old, a)) \
X(sub_wide,       "sub/wide-operand",       "sub",        1, 0, uatomic_sub(p, aw),                                  0, ST_SUB(old, a)) \
X(inc,            "inc",                    "inc",        0, 0, uatomic_inc(p),                                      0, ST_ADD(old, 1)) \
X(dec,            "dec",                    "dec",        0, 0, uatomic_dec(p),                                      0, ST_SUB(old, 1)) \
X(and,            "and",                    "and",        1, 0, uatomic_and(p, a),                                   0, ST_AND(old, a)) \
X(and_wide,       "and/wide-operand",       "and",        1, 0, uatomic_and(p, aw),                                  0, ST_AND(old, a)) \
X(or,             "or",                     "or",         1, 0, uatomic_or(p, a),                                    0, ST_OR(old, a)) \
X(or_wide,        "or/wide-operand",        "or",         1, 0, uatomic_or(p, aw),                                   0, ST_OR(old, a))

/* explicit memory-order variants: barrier driver only */
#define SEQ_VARIANTS_MO(X) \
X(set_rel,        "set/release",            "set",        1, 0, uatomic_set(p, a, CMM_RELEASE),                      0, a) \
X(set_sc,         "set/seq_cst",            "set",        1, 0, uatomic_set(p, a, CMM_SEQ_CST),                      0, a) \
X(store_rel,      "store/release",          "store",      1, 0, uatomic_store(p, a, CMM_RELEASE),                    0, a) \
X(store_scf,      "store/seq_cst_fence",    "store",      1, 0, uatomic_store(p, a, CMM_SEQ_CST_FENCE),              0, a) \
X(read_acq,       "read/acquire",           "read",       0, 1, ret = uatomic_read(p, CMM_ACQUIRE),                  old, old) \
X(read_scf,       "read/seq_cst_fence",     "read",       0, 1, ret = uatomic_read(p, CMM_SEQ_CST_FENCE),            old, old) \
X(load_consume,   "load/consume",           "load",       0, 1, ret = uatomic_load(p, CMM_CONSUME),                  old, old) \
X(load_sc,        "load/seq_cst",           "load",       0, 1, ret = uatomic_load(p, CMM_SEQ_CST),                  old, old) \
X(xchg_rlx,       "xchg/relaxed",           "xchg",       1, 1, ret = uatomic_xchg(p, a, CMM_RELAXED),               old, a) \
X(xchg_acqrel,    "xchg/acq_rel",           "xchg",       1, 1, ret = uatomic_xchg(p, a, CMM_ACQ_REL),               old, a) \
X(xchg_sc,        "xchg/seq_cst",           "xchg",       1, 1, ret = uatomic_xchg(p, a, CMM_SEQ_CST),               old, a) \
X(cmpxchg_sc_sc,  "cmpxchg/seq_cst,seq_cst", "cmpxchg",   1, 1, ret = uatomic_cmpxchg(p, a, b, CMM_SEQ_CST, CMM_SEQ_CST), old, (old == a ? b : old)) \
X(cmpxchg_ar_acq, "cmpxchg/acq_rel,acquire", "cmpxchg",   1, 1, ret = uatomic_cmpxchg(p, a, b, CMM_ACQ_REL, CMM_ACQUIRE), old, (old == a ? b : old)) \
X(cmpxchg_rlx,    "cmpxchg/relaxed,relaxed", "cmpxchg",   1, 1, ret = uatomic_cmpxchg(p, a, b, CMM_RELAXED, CMM_RELAXED), old, (old == a ? b : old)) \
X(cmpxchg_rel1,   "cmpxchg-success/release", "cmpxchg",   1, 1, ret = uatomic_cmpxchg(p, old, b, CMM_RELEASE),       old, b) \
X(add_return_rlx, "add_return/relaxed",     "add_return", 1, 1, ret = uatomic_add_return(p, a, CMM_RELAXED),         ST_ADD(old, a), ST_ADD(old, a)) \
X(add_return_sc,  "add_return/seq_cst",     "add_return", 1, 1, ret = uatomic_add_return(p, a, CMM_SEQ_CST),         ST_ADD(old, a), ST_ADD(old, a)) \
X(sub_return_rlx, "sub_return/relaxed",     "sub_return", 1, 1, ret = uatomic_sub_return(p, a, CMM_RELAXED),         ST_SUB(old, a), ST_SUB(old, a)) \
X(sub_return_ar,  "sub_return/acq_rel",     "sub_return", 1, 1, ret = uatomic_sub_return(p, a, CMM_ACQ_REL),         ST_SUB(old, a), ST_SUB(old, a)) \
X(add_scf,        "add/seq_cst_fence",      "add",        1, 0, uatomic_add(p, a, CMM_SEQ_CST_FENCE),                0, ST_ADD(old, a)) \
X(sub_sc,         "sub/seq_cst",            "sub",        1, 0, uatomic_sub(p, a, CMM_SEQ_CST),                      0, ST_SUB(old, a)) \
X(inc_sc,         "inc/seq_cst",            "inc",        0, 0, uatomic_inc(p, CMM_SEQ_CST),                         0, ST_ADD(old, 1)) \
X(dec_scf,        "dec/seq_cst_fence",      "dec",        0, 0, uatomic_dec(p, CMM_SEQ_CST_FENCE),                   0, ST_SUB(old, 1)) \
X(and_rlx,        "and/relaxed",            "and",        1, 0, uatomic_and(p, a, CMM_RELAXED),                      0, ST_AND(old, a)) \
X(or_sc,          "or/seq_cst",             "or",         1, 0, uatomic_or(p, a, CMM_SEQ_CST),                       0, ST_OR(old, a))

#define ST_GEN_DRV(tag, vname, base, uses_a, hasret, CALL, XRET, XNEW)				\
	ST_GEN_ONE(ST_FN(tag), cmm_barrier(), 0, vname, base, uses_a, hasret, CALL, XRET, XNEW)	\
	ST_GEN_ONE(ST_FN_NB(tag), (void) 0, 1, vname, base, uses_a, hasret, CALL, XRET, XNEW)
#define ST_GEN_DRV_BARONLY(tag, vname, base, uses_a, hasret, CALL, XRET, XNEW)			\
	ST_GEN_ONE(ST_FN(tag), cmm_barrier(), 0, vname, base, uses_a, hasret, CALL, XRET, XNEW)

#define ST_GEN_ONE(FNNAME, BARRIER, NOBAR, vname, base, uses_a, hasret, CALL, XRET, XNEW)	\
static __attribute__((noinline)) void								\
FNNAME(struct seq_ctx *c, unsigned off, const void *olds_, size_t no,				\
	   const void *as_, size_t na)								\
{												\
	static const struct seq_desc desc_ = { vname, base, ST_NAME, ST_W, ST_SIGNED, hasret, NOBAR }; \
	const ST_T *olds = olds_, *as = as_;							\
	ST_T *p = (ST_T *) (c->real + SEQ_GUARD + off);						\
	ST_T *q = (ST_T *) (c->ref + SEQ_GUARD + off);						\
	uint64_t nt = 0, done = 0;								\
	unsigned fails = 0;									\
	for (size_t i = 0; i < no; i++) {							\
		for (size_t j = 0; j < na; j++) {						\
			const ST_T old = olds[i], a = as[j];					\
			const ST_T b = (ST_T) (ST_UT) ((ST_UT) a * 5u + (ST_UT) old + 0x3bu);	\
			const unsigned long g = 0xa5c3d2e1f0b49687UL ^				\
				((unsigned long) (i * 131 + j) * 0x9e3779b97f4a7c15UL);		\
			const ST_WT aw = ST_CAT(seq_widen_, ST_N)(a, g);			\
			const ST_WT bw = ST_CAT(seq_widen_, ST_N)(b, g >> 7);			\
			const ST_WT oldw = ST_CAT(seq_widen_, ST_N)(old, g >> 13);		\
			long long ret = 0;	/* wide: sees what the expression yields */	\
			(void) aw; (void) bw; (void) oldw; (void) b;				\
			*p = old;								\
			BARRIER;								\
			CALL;									\
			const ST_T now = *p;							\
			const ST_T xret = (ST_T) (XRET);					\
			const ST_T xnew = (ST_T) (XNEW);					\
			*q = xnew;								\
			done++;									\
			nt += (uint64_t) ((xnew != old) | (hasret));				\
			const int bad = ret != (long long) xret || now != xnew ||		\
					seq_img_differs(c->real, c->ref);			\
			if (caa_unlikely(bad || c->want_sample)) {				\
				const struct seq_case k_ = { off,				\
					(uint64_t) (ST_UT) old, (uint64_t) (ST_UT) a,		\
					(uint64_t) (ST_UT) b, (uint64_t) ret, ret,		\
					(uint64_t) (ST_UT) xret, (long long) xret,		\
					(uint64_t) (ST_UT) now, (uint64_t) (ST_UT) xnew };	\
				if (seq_slow(c, &desc_, &k_, bad) && ++fails >= 3)		\
					goto out;						\
			}									\
		}										\
	}											\
out:												\
	c->evals += done;									\
	c->nontrivial += nt;									\
}

SEQ_VARIANTS(ST_GEN_DRV)
SEQ_VARIANTS_MO(ST_GEN_DRV_BARONLY)

#define ST_GEN_TAB(tag, vname, base, uses_a, hasret, CALL, XRET, XNEW)	\
	{ vname, base, uses_a, hasret, ST_FN(tag), ST_FN_NB(tag) },
#define ST_GEN_TAB_BARONLY(tag, vname, base, uses_a, hasret, CALL, XRET, XNEW)	\
	{ vname, base, uses_a, hasret, ST_FN(tag), NULL },

static const struct seq_variant ST_CAT(seq_tab_, ST_N)[] = {
	SEQ_VARIANTS(ST_GEN_TAB)
	SEQ_VARIANTS_MO(ST_GEN_TAB_BARONLY)
};

#undef ST_GEN_DRV
#undef ST_GEN_DRV_BARONLY
#undef ST_GEN_TAB_BARONLY
#undef SEQ_VARIANTS_MO
#undef ST_GEN_ONE
#undef ST_FN_NB
#undef ST_GEN_TAB
#undef SEQ_VARIANTS
#undef ST_ADD
#undef ST_SUB
#undef ST_AND
#undef ST_OR
#undef ST_FN
#undef ST_T
#undef ST_UT
#undef ST_WT
#undef ST_N
#undef ST_NAME
#undef ST_W
#undef ST_SIGNED
