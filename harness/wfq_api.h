/*
 * wfq_api.h - C10: thin layer over cds_wfcq / __cds_wfcq / legacy cds_wfq used by wfq.c.
 *
 * Default build: _LGPL_SOURCE (static inline implementation).  -DVP_NO_LGPL: the very same
 * names resolve to the exported wrappers of src/wfcqueue.c / src/wfqueue.c.
 *
 * LGPL build only: CDS_WFCQ_WAIT_SLEEP() - the customisation point urcu/static/wfcqueue.h
 * documents for LGPL users - is pointed at a 30 us sleep instead of the stock poll(10 ms) so that
 * episodes in which a consumer has to wait for a delayed enqueuer stay cheap.  The exported-wrapper
 * build keeps the stock 10 ms.
 */
#ifndef WFQ_API_H
#define WFQ_API_H

#include "vp.h"

#ifndef VP_NO_LGPL
#define _LGPL_SOURCE
extern uint64_t wfq_wait_sleeps;
static inline void wfq_wait_sleep(int msec)
{
	(void) msec;
	VP_STORE(wfq_wait_sleeps, VP_LOAD(wfq_wait_sleeps) + 1);
	usleep(30);
}
#define CDS_WFCQ_WAIT_SLEEP(msec) wfq_wait_sleep(msec)
#endif
#define CDS_WFQ_DEPRECATED
#include <urcu/wfcqueue.h>
#include <urcu/wfqueue.h>

#define ND_MAGIC  0x6e6f6465u
#define ND_POISON 0xdeadbeefu

struct node {
	union {
		struct cds_wfcq_node c;
		struct cds_wfq_node w;
	} link;
	uint64_t id;		/* producer << 32 | counter; PLAIN stores before enqueue */
	uint64_t t_call;	/* long runs: ts_before() of this enqueue */
	uint64_t t_prev_ret;	/* long runs: ts_after() of the same producer's previous enqueue */
	uint32_t li;		/* episodes: local index 1..N */
	uint32_t magic;
};

#define node_of_c(p) ((struct node *) ((char *) (p) - offsetof(struct node, link.c)))
#define node_of_w(p) ((struct node *) ((char *) (p) - offsetof(struct node, link.w)))

/* one queue, usable through the locked API (lh) or the lock-free single-consumer API (sh) */
struct wq {
	struct cds_wfcq_head lh;
	char pad0[128];
	struct __cds_wfcq_head sh;
	char pad1[128];
	struct cds_wfcq_tail tail;
	char pad2[128];
	int sc;			/* 1: sh is the head */
};

static inline cds_wfcq_head_ptr_t wq_head(struct wq *q)
{
	cds_wfcq_head_ptr_t u;
	if (q->sc)
		u._h = &q->sh;
	else
		u.h = &q->lh;
	return u;
}
static inline cds_wfcq_head_const_ptr_t wq_chead(struct wq *q)
{
	cds_wfcq_head_const_ptr_t u;
	if (q->sc)
		u._h = &q->sh;
	else
		u.h = &q->lh;
	return u;
}
static inline void wq_init(struct wq *q, int sc)
{
	q->sc = sc;
	if (sc)
		__cds_wfcq_init(&q->sh, &q->tail);
	else
		cds_wfcq_init(&q->lh, &q->tail);
}
static inline void wq_lock(struct wq *q)
{
	if (!q->sc)
		cds_wfcq_dequeue_lock(&q->lh, &q->tail);
}
static inline void wq_unlock(struct wq *q)
{
	if (!q->sc)
		cds_wfcq_dequeue_unlock(&q->lh, &q->tail);
}

/* ---------------------------------------------------------------- node life cycle */

#define QUAR_N 512
struct nquar { struct node *ring[QUAR_N]; unsigned head, count; uint64_t late_writes; };

static inline struct node *node_new(uint64_t id, uint32_t li)
{
	struct node *n = malloc(sizeof(*n));
	if (!n)
		abort();
	/* garbage in the link: the API says node_init is the caller's job */
	n->link.c.next = (struct cds_wfcq_node *) 0x5a5a5a5a5a5a5a5aULL;
	n->id = id;
	n->li = li;
	n->magic = ND_MAGIC;
	n->t_call = 0;
	n->t_prev_ret = 0;
	return n;
}

static inline void node_release_check(struct nquar *nq, struct node *o)
{
	if (o->magic != ND_POISON || o->link.c.next != (struct cds_wfcq_node *) VP_POISON_PTR) {
		nq->late_writes++;
		vp_violation("wfcq:late-write-to-dequeued-node",
			     "node id=%llx was written after it had been dequeued and retired (next=%p magic=%x)",
			     (unsigned long long) o->id, (void *) o->link.c.next, o->magic);
	}
	free(o);
}

/* a dequeued node may be freed at once (API).  asan/tsan: really free(); plain: poison and keep
 * it in a small per-thread quarantine so that a late store of the library into it is seen */
static inline void node_retire(struct nquar *nq, struct node *n)
{
#if VP_ASAN || VP_TSAN
	(void) nq;
	n->magic = ND_POISON;
	free(n);
#else
	n->magic = ND_POISON;
	n->link.c.next = (struct cds_wfcq_node *) VP_POISON_PTR;
	if (nq->count == QUAR_N) {
		struct node *o = nq->ring[nq->head];
		nq->ring[nq->head] = n;
		nq->head = (nq->head + 1) % QUAR_N;
		node_release_check(nq, o);
	} else {
		nq->ring[(nq->head + nq->count) % QUAR_N] = n;
		nq->count++;
	}
#endif
}

static inline void nquar_drain(struct nquar *nq)
{
	while (nq->count) {
		struct node *o = nq->ring[nq->head];
		nq->head = (nq->head + 1) % QUAR_N;
		nq->count--;
		node_release_check(nq, o);
	}
}

#endif
