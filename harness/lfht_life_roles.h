/*
 * lfht_life_roles.h - private part of lfht_life.c: the thread roles.
 *   R_CONT      contenders: race del / replace / add_replace (+ add_unique, add of duplicates) on a few hot keys
 *   R_UPD       updaters: churn private keys (population swings, chain growth, node counter)
 *   R_RESIDENT  resident readers: look up keys that are never removed
 *   R_WALK      walkers: long sections, full traversals and duplicate walks with heavy-tailed delays
 *   R_RES       resizers: explicit cds_lfht_resize() requests
 */
#ifndef LFHT_LIFE_ROLES_H
#define LFHT_LIFE_ROLES_H

static inline void att_set(struct life *l, struct thr *t, int op)
{
	__atomic_store_n(&l->att.b[t->idx & 7], (uint8_t) op, __ATOMIC_RELAXED);
}
static inline uint64_t att_others(struct life *l, struct thr *t)
{
	return __atomic_load_n(&l->att.w, __ATOMIC_RELAXED) & ~(0xffULL << ((t->idx & 7) * 8));
}
/* add_replace does not know its victim in advance: in-flight flag per hot key */
static union { uint8_t b[8]; uint64_t w; } g_katt[MAXHOT] __attribute__((aligned(64)));

static inline void end_iteration(struct thr *t)
{
	vp_rcu_qs();
	if (t->nbatch >= t->batch_lim)
		retire_flush(t, 0);
	VP_STORE(t->vt->progress, t->vt->progress + 1);
}

static void check_negative(int ret, const char *op, struct lnode *n)
{
	if (ret >= 0 || (ret != -ENOENT)) {
		vp_violation(ret > 0 ? "lfht:owner:loser-got-positive-return" : "lfht:owner:loser-got-unexpected-error",
			     "cfg=%s round=%llu {%s}: losing %s on node id=%llx key=%llx returned %d (expected -ENOENT)",
			     g_cfgname, (unsigned long long) g_round, g_rc.str, op, (unsigned long long) n->id,
			     (unsigned long long) n->key, ret);
		VP_STORE(g_abort, 1);
	}
}

/* lookup of `key`, then 0..steps next_duplicate moves; returns node or NULL, iterator in *it */
static struct lnode *find_victim(struct thr *t, uint64_t key, unsigned long hash, struct cds_lfht_iter *it, int steps)
{
	cds_lfht_lookup(g_ht, hash, match_fn, &key, it);
	struct cds_lfht_node *nd = cds_lfht_iter_get_node(it);
	VP_STORE(g_cum[t->idx].n_lookup, g_cum[t->idx].n_lookup + 1);
	while (nd && steps-- > 0) {
		struct cds_lfht_iter nx = *it;
		cds_lfht_next_duplicate(g_ht, match_fn, &key, &nx);
		if (!cds_lfht_iter_get_node(&nx))
			break;
		*it = nx;
		nd = cds_lfht_iter_get_node(it);
	}
	if (!nd)
		return NULL;
	struct lnode *n = caa_container_of(nd, struct lnode, node);
	validate(n, "lookup result");
	if (n->key != key) {
		vp_violation("lfht:lookup:wrong-key", "cfg=%s: lookup of key %llx returned node with key %llx", g_cfgname,
			     (unsigned long long) key, (unsigned long long) n->key);
		VP_STORE(g_abort, 1);
	}
	return n;
}

static inline void window_delay(struct thr *t)
{
	uint32_t x = vp_rand_n(&t->rng, 64);
	if (x < 6)
		vp_spin_cycles(vp_rand_n(&t->rng, 1500));
	else if (x == 63)
		vp_delay_heavy(&t->rng);
}

static void do_del(struct thr *t, uint64_t key, int steps)
{
	struct cds_lfht_iter it;
	struct lnode *n = find_victim(t, key, hash_of(key), &it, steps);
	if (!n)
		return;
	struct life *l = life_of_id(n->id);
	if (!l)
		return;
	uint64_t steps0 = VP_LOAD(g_resize_steps);
	att_set(l, t, OP_DEL);
	uint64_t others = att_others(l, t) | (key < MAXHOT ? __atomic_load_n(&g_katt[key].w, __ATOMIC_RELAXED) : 0);
	if (others)
		VP_STORE(l->contended, 1);
	window_delay(t);
	t->st_attempts++;
	int ret = cds_lfht_del(g_ht, &n->node);
	others |= att_others(l, t);
	att_set(l, t, 0);
	VP_STORE(g_cum[t->idx].n_upd, g_cum[t->idx].n_upd + 1);
	(void) steps0;
	if (ret == 0)
		own(t, n, OP_DEL, others);
	else {
		t->st_lost++;
		check_negative(ret, "cds_lfht_del", n);
		if (!cds_lfht_is_node_deleted(&n->node)) {
			vp_violation("lfht:owner:failed-del-on-live-node", "cfg=%s round=%llu {%s}: cds_lfht_del returned %d but the node id=%llx is not "
				     "marked deleted", g_cfgname, (unsigned long long) g_round, g_rc.str, ret, (unsigned long long) n->id);
			VP_STORE(g_abort, 1);
		}
	}
}

static void do_replace(struct thr *t, uint64_t key)
{
	struct cds_lfht_iter it;
	struct lnode *old = find_victim(t, key, hash_of(key), &it, 0);
	if (!old)
		return;
	struct life *l = life_of_id(old->id);
	if (!l)
		return;
	struct lnode *nn = node_new(t, key);
	att_set(l, t, OP_REPLACE);
	uint64_t others = att_others(l, t) | (key < MAXHOT ? __atomic_load_n(&g_katt[key].w, __ATOMIC_RELAXED) : 0);
	if (others)
		VP_STORE(l->contended, 1);
	window_delay(t);
	t->st_attempts++;
	int ret = cds_lfht_replace(g_ht, &it, nn->hash, match_fn, &key, &nn->node);
	others |= att_others(l, t);
	att_set(l, t, 0);
	VP_STORE(g_cum[t->idx].n_upd, g_cum[t->idx].n_upd + 1);
	if (ret == 0) {
		life_of_id(nn->id)->inserted = 1;
		own(t, old, OP_REPLACE, others);
	} else {
		t->st_lost++;
		t->spare = nn;		/* never published */
		check_negative(ret, "cds_lfht_replace", old);
	}
}

static void do_add_replace(struct thr *t, uint64_t key)
{
	struct lnode *nn = node_new(t, key);
	if (key < MAXHOT)
		__atomic_store_n(&g_katt[key].b[t->idx & 7], OP_ADDREPL, __ATOMIC_RELAXED);
	t->st_attempts++;
	struct cds_lfht_node *ret = cds_lfht_add_replace(g_ht, nn->hash, match_fn, &key, &nn->node);
	if (key < MAXHOT)
		__atomic_store_n(&g_katt[key].b[t->idx & 7], 0, __ATOMIC_RELAXED);
	VP_STORE(g_cum[t->idx].n_upd, g_cum[t->idx].n_upd + 1);
	life_of_id(nn->id)->inserted = 1;
	if (ret) {
		struct lnode *old = caa_container_of(ret, struct lnode, node);
		validate(old, "add_replace result");
		struct life *l = life_of_id(old->id);
		uint64_t others = l ? att_others(l, t) : 0;
		own(t, old, OP_ADDREPL, others);
	}
}

static void do_add_unique(struct thr *t, uint64_t key)
{
	struct lnode *nn = node_new(t, key);
	struct cds_lfht_node *ret = cds_lfht_add_unique(g_ht, nn->hash, match_fn, &key, &nn->node);
	VP_STORE(g_cum[t->idx].n_upd, g_cum[t->idx].n_upd + 1);
	if (ret == &nn->node)
		life_of_id(nn->id)->inserted = 1;
	else {
		struct lnode *ex = caa_container_of(ret, struct lnode, node);
		validate(ex, "add_unique result");
		t->spare = nn;
	}
}

static void *cont_main(struct thr *t)
{
	for (long i = 0; i < g_rc.cont_ops && !VP_LOAD(g_abort); i++) {
		uint32_t x = vp_rand_n(&t->rng, 100);
		uint64_t key = vp_rand_n(&t->rng, (uint32_t) g_rc.nkeys);
		rcu_read_lock();
		if (x < 24)
			do_add_replace(t, key);
		else if (x < 38)
			do_add_unique(t, key);
		else if (x < 66)
			do_del(t, key, 0);
		else if (x < 86)
			do_replace(t, key);
		else if (g_rc.ndup) {
			uint64_t dk = DUP_BASE + vp_rand_n(&t->rng, (uint32_t) g_rc.ndup);
			if (x < 93) {
				struct lnode *nn = node_new(t, dk);
				cds_lfht_add(g_ht, nn->hash, &nn->node);
				life_of_id(nn->id)->inserted = 1;
				VP_STORE(g_cum[t->idx].n_upd, g_cum[t->idx].n_upd + 1);
			} else
				do_del(t, dk, (int) vp_rand_n(&t->rng, 4));
		}
		rcu_read_unlock();
		end_iteration(t);
	}
	return NULL;
}

/* ------------------------------------------------------------------ updater */

static void upd_del_one(struct thr *t, struct lnode **mine, long *pop, long j)
{
	struct lnode *n = mine[j];
	uint64_t key = n->key, id = n->id;
	struct cds_lfht_iter it;
	rcu_read_lock();
	struct lnode *f = find_victim(t, key, n->hash, &it, 0);
	if (f != n) {
		vp_violation("lfht:resident:own-node-missed",
			     "cfg=%s round=%llu {%s}: thread %d looked up its own node id=%llx key=%llx hash=%lx (inserted, never removed by "
			     "anybody else) and got %p (size now %lu, resize steps so far %llu): a node present in the table was not found",
			     g_cfgname, (unsigned long long) g_round, g_rc.str, t->idx, (unsigned long long) id, (unsigned long long) key,
			     n->hash, (void *) f, ht_size(g_ht), (unsigned long long) VP_LOAD(g_resize_steps));
		VP_STORE(g_abort, 1);
		rcu_read_unlock();
		return;
	}
	struct life *l = life_of_id(id);
	att_set(l, t, OP_DEL);
	t->st_attempts++;
	int ret = cds_lfht_del(g_ht, &n->node);
	att_set(l, t, 0);
	VP_STORE(g_cum[t->idx].n_upd, g_cum[t->idx].n_upd + 1);
	if (ret) {
		vp_violation("lfht:owner:sole-remover-failed", "cfg=%s round=%llu {%s}: cds_lfht_del by the only remover of node id=%llx returned %d",
			     g_cfgname, (unsigned long long) g_round, g_rc.str, (unsigned long long) id, ret);
		VP_STORE(g_abort, 1);
	} else
		own(t, n, OP_DEL, 0);
	rcu_read_unlock();
	mine[j] = mine[--*pop];
}

static void upd_add_one(struct thr *t, struct lnode **mine, long *pop, uint64_t *seq, int same_hash)
{
	uint64_t key = UPD_BASE * (uint64_t) (t->idx + 1) + (*seq)++;
	struct lnode *nn = node_new(t, key);
	if (same_hash)	/* same bucket at every table size in use, distinct hashes: the chain length grows */
		nn->hash = ((unsigned long) mix64((uint64_t) t->idx + 77) & 0xff) | ((unsigned long) (*seq & 0xfff) << 44);
	rcu_read_lock();
	if (vp_rand_n(&t->rng, 4) == 0) {
		struct cds_lfht_node *ret = cds_lfht_add_unique(g_ht, nn->hash, match_fn, &key, &nn->node);
		if (ret != &nn->node) {
			vp_violation("lfht:add_unique:spurious-duplicate", "cfg=%s: add_unique of never-used key %llx returned another node",
				     g_cfgname, (unsigned long long) key);
			VP_STORE(g_abort, 1);
		}
	} else
		cds_lfht_add(g_ht, nn->hash, &nn->node);
	rcu_read_unlock();
	life_of_id(nn->id)->inserted = 1;
	VP_STORE(g_cum[t->idx].n_upd, g_cum[t->idx].n_upd + 1);
	mine[(*pop)++] = nn;
}

static void *upd_main(struct thr *t)
{
	long cap = g_rc.pop_hi + 64;
	struct lnode **mine = malloc(sizeof(*mine) * (size_t) cap);
	long pop = 0;
	uint64_t seq = 0;
	int up = 1;
	if (!mine)
		abort();
	for (long i = 0; (UPD_INF ? !VP_LOAD(g_stop_inf) : i < g_rc.upd_ops) && !VP_LOAD(g_abort); i++) {
		if (up && pop >= g_rc.pop_hi)
			up = 0;
		else if (!up && pop <= g_rc.pop_lo)
			up = 1;
		int add = up ? vp_rand_n(&t->rng, 8) != 0 : vp_rand_n(&t->rng, 8) == 0;
		if (pop == 0)
			add = 1;
		if (pop >= cap - 1)
			add = 0;
		if (t->nlives + 32 >= t->caplives) {
			/* life table of this round used up: only drain */
			add = 0;
			if (pop == 0) {
				vp_rcu_offline();
				usleep(200);
				vp_rcu_online();
				continue;
			}
		}
		if (add)
			upd_add_one(t, mine, &pop, &seq, 0);
		else
			upd_del_one(t, mine, &pop, (long) vp_rand_n(&t->rng, (uint32_t) pop));
		end_iteration(t);
	}
	/* drain: the table must end up without any node of this thread */
	while (pop > 0 && !VP_LOAD(g_abort)) {
		upd_del_one(t, mine, &pop, pop - 1);
		end_iteration(t);
	}
	if (g_rc.final_burst && !VP_LOAD(g_abort)) {
		/* leave lazy resize work queued behind us: a burst of colliding adds, removed at once */
		long b0 = pop;
		for (int k = 0; k < g_rc.final_burst; k++)
			upd_add_one(t, mine, &pop, &seq, 1);
		while (pop > b0) {
			upd_del_one(t, mine, &pop, pop - 1);
			end_iteration(t);
		}
	}
	free(mine);
	return NULL;
}

/* ------------------------------------------------------------------ resident readers */

static void resident_missed(struct thr *t, int grp, int i, struct lnode *got, const char *how)
{
	struct lnode *n = g_resnode[grp][i];
	vp_violation("lfht:resident:missed",
		     "cfg=%s round=%llu {%s}: thread %d: %s of resident key %llx (hash %lx, node id=%llx, inserted before the round, never "
		     "removed) returned %p; table size now %lu, resize_target %lu, %llu resize steps so far: a node that is present "
		     "was not found", g_cfgname, (unsigned long long) g_round, g_rc.str, t->idx, how,
		     (unsigned long long) n->key, n->hash, (unsigned long long) n->id, (void *) got, ht_size(g_ht), ht_target(g_ht),
		     (unsigned long long) VP_LOAD(g_resize_steps));
	VP_STORE(g_abort, 1);
}

static void *resident_main(struct thr *t)
{
	int grp = (t->idx) % g_rc.nresgrp;
	uint64_t n = 0;
	tl_match_delay = 1;
	while (!VP_LOAD(g_stop_inf) && !VP_LOAD(g_abort)) {
		int i = (int) vp_rand_n(&t->rng, (uint32_t) g_rc.nres_keys);
		uint64_t key = g_resnode[grp][i]->key;
		struct cds_lfht_iter it;
		rcu_read_lock();
		unsigned long sz = ht_size(g_ht);
		cds_lfht_lookup(g_ht, g_resnode[grp][i]->hash, match_fn, &key, &it);
		struct cds_lfht_node *nd = cds_lfht_iter_get_node(&it);
		if (!nd || caa_container_of(nd, struct lnode, node) != g_resnode[grp][i])
			resident_missed(t, grp, i, nd ? caa_container_of(nd, struct lnode, node) : NULL, "cds_lfht_lookup");
		rcu_read_unlock();
		if (sz < 1 || sz > g_ht->max_nr_buckets || !is_pow2(sz))
			check_size_bounds(g_ht, sz, "by a reader before its lookup");
		VP_STORE(g_cum[t->idx].n_lookup, g_cum[t->idx].n_lookup + 1);
		n++;
		if ((n & 15) == 0)
			vp_rcu_qs();
	}
	t->st_res_lookups = n;
	return NULL;
}

/* ------------------------------------------------------------------ walkers */

static void *walk_main(struct thr *t)
{
	static __thread uint32_t seen[MAXRESGRP * MAXRESKEYS];
	uint32_t stamp = 0;
	int nres = g_rc.nresgrp * g_rc.nres_keys;
	while (!VP_LOAD(g_stop_inf) && !VP_LOAD(g_abort)) {
		uint32_t x = vp_rand_n(&t->rng, 100);
		rcu_read_lock();
		if (x < 55 || g_rc.nkeys + g_rc.ndup == 0) {
			/* traversal of the whole list (or a bounded prefix of it on big tables) */
			struct cds_lfht_iter it;
			long steps = 0, maxsteps = g_rc.walk_full ? LONG_MAX : 4000;
			int found = 0;
			stamp++;
			cds_lfht_first(g_ht, &it);
			struct cds_lfht_node *nd;
			while ((nd = cds_lfht_iter_get_node(&it)) != NULL && steps++ < maxsteps) {
				struct lnode *n = caa_container_of(nd, struct lnode, node);
				validate(n, "first/next traversal");
				if (n->key >= RES_BASE) {
					uint64_t r = n->key - RES_BASE;
					uint32_t si = (uint32_t) ((r >> 16) * (uint64_t) g_rc.nres_keys + (r & 0xffff));
					if (si < (uint32_t) nres) {
						if (seen[si] == stamp) {
							vp_violation("lfht:resident:traversal-saw-node-twice",
								     "cfg=%s round=%llu {%s}: one first/next traversal returned resident key %llx twice",
								     g_cfgname, (unsigned long long) g_round, g_rc.str, (unsigned long long) n->key);
							VP_STORE(g_abort, 1);
						}
						seen[si] = stamp;
						found++;
					}
				}
				/* the iterator's next pointer carries the library's flag bits: bit 1 = the successor is a
				 * bucket node, i.e. memory that a shrink unlinks and releases: delay 8x more often there */
				uint64_t dp = (uint64_t) opt_walk_delay_ppm << (((uintptr_t) it.next & 2) ? 3 : 0);
				if ((vp_rand(&t->rng) >> 44) < dp) {
					/* hold the iterator (it may stand on a bucket node's successor) across a long delay */
					vp_delay_heavy(&t->rng);
					validate(n, "first/next traversal (after delay, same section)");
				}
				cds_lfht_next(g_ht, &it);
				t->st_walk_nodes++;
			}
			if (!nd && g_rc.walk_full && found != nres && !VP_LOAD(g_abort)) {
				int miss = -1;
				for (int k = 0; k < nres; k++)
					if (seen[k] != stamp) { miss = k; break; }
				vp_violation("lfht:resident:traversal-missed",
					     "cfg=%s round=%llu {%s}: a complete first/next traversal found %d of %d resident nodes (first missing: "
					     "group %d index %d key %llx); size now %lu, %llu resize steps so far", g_cfgname,
					     (unsigned long long) g_round, g_rc.str, found, nres, miss / g_rc.nres_keys, miss % g_rc.nres_keys,
					     miss >= 0 ? (unsigned long long) g_resnode[miss / g_rc.nres_keys][miss % g_rc.nres_keys]->key : 0ULL,
					     ht_size(g_ht), (unsigned long long) VP_LOAD(g_resize_steps));
				VP_STORE(g_abort, 1);
			}
			t->st_walks++;
		} else {
			/* lookup of a hot key + duplicate walk, nodes held across delays */
			int nk = g_rc.nkeys + g_rc.ndup;
			uint32_t ki = vp_rand_n(&t->rng, (uint32_t) nk);
			uint64_t key = ki < (uint32_t) g_rc.nkeys ? ki : DUP_BASE + (ki - (uint32_t) g_rc.nkeys);
			struct cds_lfht_iter it;
			struct lnode *held[6];
			int nh = 0;
			tl_match_delay = 1;
			cds_lfht_lookup(g_ht, hash_of(key), match_fn, &key, &it);
			struct cds_lfht_node *nd;
			while ((nd = cds_lfht_iter_get_node(&it)) != NULL && nh < 6) {
				held[nh] = caa_container_of(nd, struct lnode, node);
				validate(held[nh], "duplicate walk");
				nh++;
				cds_lfht_next_duplicate(g_ht, match_fn, &key, &it);
			}
			tl_match_delay = 0;
			if (nh) {
				vp_delay_heavy(&t->rng);
				for (int k = 0; k < nh; k++) {
					validate(held[k], "held node after delay (same section)");
					/* reading the links of a held node must stay legal for the whole section */
					(void) cds_lfht_is_node_deleted(&held[k]->node);
				}
				t->st_validations += (uint64_t) nh;
			}
			VP_STORE(g_cum[t->idx].n_lookup, g_cum[t->idx].n_lookup + 1);
		}
		rcu_read_unlock();
		vp_rcu_qs();
	}
	return NULL;
}

/* ------------------------------------------------------------------ resizers */

static unsigned long g_requests[96];
static int g_nrequests;

static unsigned long expected_size(unsigned long req)
{
	unsigned long e = req < 1 ? 1 : req;
	if (e > g_ht->max_nr_buckets)
		e = g_ht->max_nr_buckets;
	return 1UL << cds_lfht_get_count_order_ulong(e);
}

static void *res_main(struct thr *t)
{
	int pos = (int) vp_rand_n(&t->rng, (uint32_t) g_nrequests);
	int exclusive = g_rc.n_role[R_RES] == 1 && !(g_rc.flags & CDS_LFHT_AUTO_RESIZE);
	for (long i = 0; (RES_INF ? !VP_LOAD(g_stop_inf) : i < g_rc.res_calls) && !VP_LOAD(g_abort); i++) {
		unsigned long req = g_requests[pos];
		pos = (pos + 1) % g_nrequests;
		unsigned long before = ht_size(g_ht);
		int off = VP_IS_QSBR && opt_qsbr_offline;
		VP_STORE(t->call_arg, req);
		VP_STORE(t->offline_at_call, off);
		rz_open(0, before);
		if (off)
			vp_rcu_offline();
		__atomic_fetch_add(&g_explicit_active, 1, __ATOMIC_RELAXED);
		VP_STORE(t->in_call, CALL_RESIZE);
		vp_create_fail_armed = 1;	/* --f-create-eagain: partition helper threads may fail to start */
		cds_lfht_resize(g_ht, req);
		vp_create_fail_armed = 0;
		VP_STORE(t->in_call, CALL_NONE);
		__atomic_fetch_sub(&g_explicit_active, 1, __ATOMIC_RELAXED);
		if (off)
			vp_rcu_online();
		unsigned long after = ht_size(g_ht);
		check_size_bounds(g_ht, after, "after cds_lfht_resize returned");
		t->st_calls++;
		if (rz_close(exclusive ? after : 0, req))
			t->st_nontrivial_calls++;
		if (exclusive) {
			__atomic_fetch_add(&tot_seq_size_checks, 1, __ATOMIC_RELAXED);
			if (after != expected_size(req)) {
				vp_violation("lfht:resize:size-after-exclusive-call",
					     "cfg=%s round=%llu {%s}: cds_lfht_resize(%lu) from size %lu returned with size %lu, expected %lu "
					     "(only resizer, no AUTO_RESIZE)", g_cfgname, (unsigned long long) g_round, g_rc.str, req, before,
					     after, expected_size(req));
				VP_STORE(g_abort, 1);
			}
		}
		VP_STORE(t->vt->progress, t->vt->progress + 1);
		/* let updates and lookups through between requests */
		uint32_t x = vp_rand_n(&t->rng, 100);
		if (x < 50)
			vp_spin_cycles(vp_rand_n(&t->rng, 20000));
		else if (x < 60) {
			vp_rcu_offline();
			usleep(vp_rand_n(&t->rng, 300));
			vp_rcu_online();
		}
		vp_rcu_qs();
	}
	return NULL;
}

static void *thr_main(void *arg)
{
	struct thr *t = arg;
	me = t;
	vp_pin(t->idx);
	t->vt = vp_self();
	VP_STORE(t->ktid, (int) syscall(SYS_gettid));
	rcu_register_thread();
	if (g_rc.sig && (t->role == R_RESIDENT || t->role == R_WALK || t->role == R_CONT))
		vp_chaos_register_self();
	switch (t->role) {
	case R_CONT: cont_main(t); break;
	case R_UPD: upd_main(t); break;
	case R_RESIDENT: resident_main(t); break;
	case R_WALK: walk_main(t); break;
	case R_RES: res_main(t); break;
	default: break;
	}
	if (g_rc.sig && (t->role == R_RESIDENT || t->role == R_WALK || t->role == R_CONT))
		vp_chaos_unregister_self();
	retire_flush(t, 1);
	if (t->spare) {
		/* never published: no grace period needed */
		struct lnode *n = t->spare;
		t->spare = NULL;
		if (n->akind)
			ga_free(n);
		else
			free(n);
	}
	rcu_unregister_thread();
	return NULL;
}

#endif
