/*
 * lfq_long.h - C12 long runs (included by lfq.c): T threads, each enqueueing AND dequeueing inside
 * read-side sections, 10^6..10^7 nodes, streaming oracles, O(T) per operation:
 *   exactly-once / no loss: node (producer p, counter k) is marked in seen[p][k] by the thread that
 *     dequeues it and its magic goes MAGIC -> TAKEN; at the end every node of every producer is marked
 *     (conservation: produced == dequeued, final drain included);
 *   per-producer order: one consumer sees increasing counters of each producer; across consumers: the
 *     counter must exceed what another consumer PUBLISHED for that producer before this dequeue was
 *     called (one producer sampled per operation);
 *   real-time order / presence cover (sound for concurrent consumers): every consumer c publishes
 *     pub_M[c] = max{ call stamp of the enqueue of every node c dequeued, call stamp of every dequeue of c
 *     that returned NULL }, stored AFTER the dequeue returned.  A consumer d reads G = max(own M, every
 *     pub_M) BEFORE it calls dequeue; whatever fed G was dequeued / found empty by an operation that had
 *     returned before d's dequeue began, so the node b that d obtains was enqueued (linearisation point)
 *     after it: ret(enq b) + eps >= G must hold.  ret(enq b) is stored in b by its enqueuer inside the
 *     enqueuer's read-side section (b cannot be reclaimed before), 0 = not known yet;
 *   reclamation only after a grace period: dequeued nodes go through call_rcu() of the flavor, or are
 *     batched and released / RE-ENQUEUED (same memory, new identity) after synchronize_rcu(); plain
 *     builds poison + quarantine, asan/tsan really free;
 *   dummy nodes: lfq_api.h (queue_call_rcu interposer, free()-inside-operation, conservation);
 *   destroy: -EPERM before the final drain if nodes are left, 0 after it.
 */
#define L_MAXT 8
#define L_BATCH 128

static int l_T, l_reclaim;		/* reclaim: 0 call_rcu, 1 sync+free, 2 sync+recycle, 3 mixed */
static uint64_t l_per_thr;
static uint8_t *l_seen[L_MAXT];
static struct vp_quar l_sync_quar;

static struct lthr {
	pthread_t tid;
	int idx;
	struct vp_rng rng;
	/* published (read by the others with VP_LOAD) */
	uint64_t pub_M __attribute__((aligned(128)));
	uint64_t pub_lastk[L_MAXT];
	uint64_t pub_enq, pub_deq;
	int done_producing, in_op, exited;
	/* private */
	uint64_t M __attribute__((aligned(128)));
	const char *M_what;
	uint64_t lastk[L_MAXT];
	uint64_t produced, deq, nulls, rt_checks, rt_unknown, cross_reads, order_checks, recycled, gp_sync, via_callrcu;
	uint64_t enq_after_null;
	struct node *batch[L_BATCH];
	int nbatch, batch_mode;
	struct node **pool;
	int npool;
	char pad[64];
} lthr[L_MAXT];

static void l_fold(struct lthr *t, uint64_t stamp, const char *what)
{
	if (stamp > t->M) {
		t->M = stamp;
		t->M_what = what;
	}
}

static void l_flush_batch(struct lthr *t)
{
	if (!t->nbatch)
		return;
	synchronize_rcu();
	t->gp_sync++;
	for (int i = 0; i < t->nbatch; i++) {
		struct node *n = t->batch[i];
		if (t->batch_mode == 2 && t->npool < L_BATCH * 2) {
			t->pool[t->npool++] = n;	/* reused by a later enqueue of this thread */
			t->recycled++;
		} else
			node_reclaim(&l_sync_quar, n);
	}
	t->nbatch = 0;
}

static void l_retire(struct lthr *t, struct node *n)
{
	int mode = l_reclaim == 3 ? t->batch_mode : l_reclaim;

	if (mode == 0) {
		t->via_callrcu++;
		call_rcu(&n->rh, node_rcu_cb);
		if (l_reclaim == 3 && (t->via_callrcu % L_BATCH) == 0)
			t->batch_mode = (int) vp_rand_n(&t->rng, 3);
		return;
	}
	t->batch[t->nbatch++] = n;
	if (t->nbatch == L_BATCH) {
		l_flush_batch(t);
		if (l_reclaim == 3)
			t->batch_mode = (int) vp_rand_n(&t->rng, 3);
	}
}

static void l_enqueue(struct lthr *t)
{
	struct node *n;
	uint64_t k = ++t->produced, id = ((uint64_t) t->idx << 32) | k, tr;

	if (t->npool) {
		n = t->pool[--t->npool];
		/* a grace period has elapsed since it was dequeued: the node is ours again */
		n->link.next = (struct cds_lfq_node_rcu *) 0x5a5a5a5a5a5a5a5aULL;
		n->id = id;
		n->magic = ND_MAGIC;
		VP_STORE(n->t_ret, 0);
	} else
		n = node_new(id, 1);
	n->payload = payload_of(id);
	cds_lfq_node_init_rcu(&n->link);
	rcu_read_lock();
	n->t_call = ts_before();
	q_enqueue(n);
	tr = ts_after();
	VP_STORE(n->t_ret, tr);		/* n may already be dequeued, but not reclaimed: we are in a section */
	rcu_read_unlock();
	VP_STORE(t->pub_enq, k);
}

/* returns 1 if the dequeue returned NULL */
static int l_dequeue(struct lthr *t)
{
	struct cds_lfq_node_rcu *cn;
	uint64_t G = t->M, maxk = 0, t0;
	const char *G_what = t->M_what;
	int ps = (int) vp_rand_n(&t->rng, (uint32_t) l_T), cross = vp_rand_n(&t->rng, 4) != 0, G_from = t->idx;

	if (cross) {
		t->cross_reads++;
		for (int c = 0; c < l_T; c++) {
			if (c == t->idx)
				continue;
			uint64_t g = VP_LOAD(lthr[c].pub_M), kk = VP_LOAD(lthr[c].pub_lastk[ps]);
			if (g > G) {
				G = g;
				G_from = c;
				G_what = "an operation of another consumer that had returned before this dequeue was called (a dequeue of a later-enqueued node, or a dequeue that returned NULL)";
			}
			if (kk > maxk)
				maxk = kk;
		}
	}
	rcu_read_lock();
	t0 = ts_before();
	cn = q_dequeue();
	if (!cn) {
		rcu_read_unlock();
		t->nulls++;
		l_fold(t, t0, "an earlier dequeue of this consumer returned NULL (its call stamp)");
		VP_STORE(t->pub_M, t->M);
		return 1;
	}
	if (VP_LOAD(cn->dummy)) {
		rcu_read_unlock();
		vp_violation("lfq:dequeue-returned-dummy", "cfg=%s long run: dequeue returned node %p with dummy=%d", cfgname,
			     (void *) cn, VP_LOAD(cn->dummy));
		return 0;
	}
	struct node *n = node_of(cn);
	uint32_t magic = n->magic;
	uint64_t id = n->id, tc = n->t_call, tr = VP_LOAD(n->t_ret), pl = n->payload;
	rcu_read_unlock();
	if (magic != ND_MAGIC || pl != payload_of(id)) {
		vp_violation(magic == ND_TAKEN ? "lfq:long:node-dequeued-twice" : "lfq:long:dequeued-node-garbage",
			     "cfg=%s dequeue returned node %p magic=%x id=%llx payload=%llx: %s", cfgname, (void *) n, magic,
			     (unsigned long long) id, (unsigned long long) pl,
			     magic == ND_TAKEN ? "already returned by an earlier dequeue" :
			     magic == ND_POISON ? "already reclaimed" : "never fully published");
		return 0;
	}
	n->magic = ND_TAKEN;
	int p = (int) (id >> 32);
	uint64_t k = id & 0xffffffffu;
	if (p < 0 || p >= l_T || k == 0 || k > l_per_thr) {
		vp_violation("lfq:long:dequeued-node-garbage", "cfg=%s dequeue returned node with id=%llx", cfgname, (unsigned long long) id);
		return 0;
	}
	if (VP_LOAD(l_seen[p][k]))
		vp_violation("lfq:long:node-dequeued-twice", "cfg=%s node #%llu of producer %d was dequeued twice (second time by thread %d)",
			     cfgname, (unsigned long long) k, p, t->idx);
	VP_STORE(l_seen[p][k], (uint8_t) (t->idx + 1));
	t->order_checks++;
	if (k <= t->lastk[p])
		vp_violation("lfq:long:per-producer-order",
			     "cfg=%s consumer %d dequeued node #%llu of producer %d after node #%llu of the same producer", cfgname,
			     t->idx, (unsigned long long) k, p, (unsigned long long) t->lastk[p]);
	if (cross && p == ps && k <= maxk)
		vp_violation("lfq:long:per-producer-order",
			     "cfg=%s consumer %d dequeued node #%llu of producer %d although another consumer had already dequeued (and published) node #%llu of that producer before this dequeue was called",
			     cfgname, t->idx, (unsigned long long) k, p, (unsigned long long) maxk);
	if (tr && vp_eps) {
		t->rt_checks++;
		if (tr + vp_eps < G)
			vp_violation("lfq:long:real-time-order",
				     "cfg=%s node #%llu of producer %d, dequeued by consumer %d: its enqueue had returned %llu cycles (eps=%llu) before %s [consumer %d], yet it was still in the queue / came out later",
				     cfgname, (unsigned long long) k, p, t->idx, (unsigned long long) (G - tr),
				     (unsigned long long) vp_eps, G_what ? G_what : "?", G_from);
	} else
		t->rt_unknown++;
	t->lastk[p] = k;
	l_fold(t, tc, "a later-enqueued node (enqueue call stamp) had been dequeued by this consumer");
	VP_STORE(t->pub_lastk[p], k);
	VP_STORE(t->pub_M, t->M);
	t->deq++;
	VP_STORE(t->pub_deq, t->deq);
	l_retire(t, n);
	return 0;
}

static int64_t l_backlog(void)
{
	int64_t e = 0, d = 0;
	for (int c = 0; c < l_T; c++) {
		e += (int64_t) VP_LOAD(lthr[c].pub_enq);
		d += (int64_t) VP_LOAD(lthr[c].pub_deq);
	}
	return e - d;
}

static int l_all_done(void)
{
	for (int c = 0; c < l_T; c++)
		if (!VP_LOAD(lthr[c].done_producing))
			return 0;
	return 1;
}

static void *lthr_main(void *arg)
{
	struct lthr *t = arg;
	struct vp_thr *vt;
	uint64_t ops = 0;
	int64_t backlog = 0;
	int last_null = 0;

	vp_pin(t->idx);
	vt = vp_self();
	rcu_register_thread();
	for (;;) {
		static const uint32_t limits[8] = { 1, 2, 4, 8, 3, 64, 2, 1500 };
		int64_t limit = limits[((ops >> 12) + (uint64_t) t->idx) & 7];
		int can_enq = t->produced < l_per_thr, do_enq;

		if ((ops & 3) == 0)
			backlog = l_backlog();
		if (!can_enq) {
			if (!VP_LOAD(t->done_producing))
				VP_STORE(t->done_producing, 1);
			do_enq = 0;
		} else if (backlog > limit)
			do_enq = vp_rand_n(&t->rng, 8) == 0;
		else if (backlog <= 0)
			do_enq = vp_rand_n(&t->rng, 8) != 0;
		else
			do_enq = (int) vp_rand_n(&t->rng, 2);
		ops++;
		if (do_enq) {
			VP_STORE(t->in_op, 1);
			l_enqueue(t);
			VP_STORE(t->in_op, 0);
			if (last_null)
				t->enq_after_null++;
			last_null = 0;
		} else {
			int done = !can_enq && l_all_done();	/* sampled BEFORE the operation */
			VP_STORE(t->in_op, 2);
			last_null = l_dequeue(t);
			VP_STORE(t->in_op, 0);
			if (last_null && done)
				break;
			if (last_null && !can_enq)
				vp_spin_cycles(200 + vp_rand_n(&t->rng, 3000));
		}
		vp_rcu_qs();
		if ((ops & 63) == 0) {
			VP_STORE(vt->progress, vt->progress + 1);
			if (vp_rand_n(&t->rng, 64) == 0)
				vp_spin_cycles(2000 + vp_rand_n(&t->rng, 60000));
			if (vp_nviolations() > 0 || (double) (vp_now_ns() - t_start_ns) / 1e9 >= opt_seconds) {
				VP_STORE(t->done_producing, 1);
				break;
			}
		}
	}
	VP_STORE(t->done_producing, 1);
	t->batch_mode = 1;
	l_flush_batch(t);
	VP_STORE(t->exited, 1);
	rcu_unregister_thread();
	return NULL;
}

static int l_final_phase;
static int long_confirm_stuck(char *buf, size_t len)
{
	int in_op = 0, exited = 0;

	for (int i = 0; i < l_T; i++) {
		if (VP_LOAD(lthr[i].in_op))
			in_op = VP_LOAD(lthr[i].in_op);
		exited += VP_LOAD(lthr[i].exited);
	}
	if (in_op && (exited < l_T || VP_LOAD(l_final_phase))) {
		snprintf(buf, len, "hang:lfq:long:%s-never-returns%s", in_op == 1 ? "enqueue" : "dequeue",
			 VP_LOAD(l_final_phase) ? "-at-quiescence" : "");
		return 1;
	}
	snprintf(buf, len, "hang:lfq-long:unconfirmed");
	return 0;
}

static int run_long(void)
{
	double chaos = vp_arg_double("chaos", 0.0005);
	uint64_t total = (uint64_t) vp_arg_long("nodes", 2000000);
	const char *rc = vp_arg("reclaim", "mix");

	l_T = (int) vp_arg_long("threads", 4);
	if (l_T > vp_ncpu && vp_ncpu >= 2)
		l_T = vp_ncpu;
	if (l_T < 2 || l_T > L_MAXT)
		return 2;
	l_reclaim = !strcmp(rc, "callrcu") ? 0 : !strcmp(rc, "sync") ? 1 : !strcmp(rc, "recycle") ? 2 : 3;
	l_per_thr = total / (uint64_t) l_T;
	q_init();
	vp_quar_init(&g_cb_quar, 16384, node_quar_release);
	vp_quar_init(&l_sync_quar, 16384, node_quar_release);
	if (chaos > 0) {
		vp_point_set(URCU_VP_LFQ_ENQ_LINKED, chaos, VP_D_HEAVY);
		vp_point_set(URCU_VP_LFQ_DEQ_BEFORE_CMPXCHG, chaos * 4, VP_D_SPIN);
		VP_STORE(mfrz.mode, VP_D_SPIN);
		VP_STORE(mfrz.prob, (uint32_t) (chaos * 40 * (1 << 20)));
	}
	for (int i = 0; i < l_T; i++) {
		lthr[i].idx = i;
		vp_rng_init(&lthr[i].rng, vp_opt.seed, 0xc12c, (uint64_t) i);
		l_seen[i] = calloc(l_per_thr + 2, 1);
		lthr[i].pool = calloc(L_BATCH * 2, sizeof(struct node *));
		lthr[i].batch_mode = l_reclaim == 3 ? i % 3 : l_reclaim;
		if (!l_seen[i] || !lthr[i].pool)
			return 2;
	}
	vp_watchdog_start((uint64_t) vp_arg_long("stall-ms", VP_TSAN ? 60000 : 10000), long_confirm_stuck);
	for (int i = 0; i < l_T; i++)
		pthread_create(&lthr[i].tid, NULL, lthr_main, &lthr[i]);
	vp_rcu_offline();
	for (int i = 0; i < l_T; i++)
		pthread_join(lthr[i].tid, NULL);
	vp_rcu_online();
	VP_STORE(l_final_phase, 1);	/* the watchdog keeps running: a broken chain may make the final drain spin */
	vp_points_clear();
	VP_STORE(mfrz.prob, 0);

	/* quiescence: destroy must refuse while nodes are left, drain, conservation */
	uint64_t produced = 0, deq = 0, nulls = 0, rtc = 0, rtu = 0, cross = 0, recycled = 0, gps = 0, viacr = 0, ean = 0, left = 0;
	for (int i = 0; i < l_T; i++) {
		produced += lthr[i].produced;
		deq += lthr[i].deq;
		nulls += lthr[i].nulls;
		rtc += lthr[i].rt_checks;
		rtu += lthr[i].rt_unknown;
		cross += lthr[i].cross_reads;
		recycled += lthr[i].recycled;
		gps += lthr[i].gp_sync;
		viacr += lthr[i].via_callrcu;
		ean += lthr[i].enq_after_null;
	}
	if (!vp_nviolations()) {
		struct lthr *t = &lthr[0];
		if (produced != deq) {
			int r = q_destroy("long run, nodes left");
			if (r == 0) {
				vp_violation("lfq:destroy-succeeded-on-non-empty-queue",
					     "cfg=%s long run: %llu nodes enqueued, %llu dequeued, cds_lfq_destroy_rcu() returned 0", cfgname,
					     (unsigned long long) produced, (unsigned long long) deq);
				q_init();
			}
		}
		t->batch_mode = 1;
		VP_STORE(t->in_op, 2);
		while (!l_dequeue(t) && !vp_nviolations()) {
			left++;
			if ((left & 1023) == 0)
				VP_STORE(vp_wd_extra_progress, VP_LOAD(vp_wd_extra_progress) + 1);
			if (left > produced + 16) {
				vp_violation("lfq:long:conservation", "cfg=%s the final drain returned more nodes (%llu) than were ever enqueued (%llu)",
					     cfgname, (unsigned long long) left, (unsigned long long) produced);
				break;
			}
		}
		VP_STORE(t->in_op, 0);
		l_flush_batch(t);
		deq += left;
		if (produced != deq && !vp_nviolations())
			vp_violation("lfq:long:conservation", "cfg=%s %llu nodes enqueued, %llu came out, queue reports empty", cfgname,
				     (unsigned long long) produced, (unsigned long long) deq);
		for (int p = 0; p < l_T && !vp_nviolations(); p++)
			for (uint64_t k = 1; k <= lthr[p].produced; k++)
				if (!l_seen[p][k]) {
					vp_violation("lfq:long:node-lost", "cfg=%s node #%llu of producer %d (of %llu) never came out",
						     cfgname, (unsigned long long) k, p, (unsigned long long) lthr[p].produced);
					break;
				}
	}
	rcu_barrier();
	if (!vp_nviolations()) {
		lfq_dummy_accounting(1);
		if (q_destroy("long run, drained") != 0)
			vp_violation("lfq:destroy-eperm-after-drain", "cfg=%s long run: dequeue returned NULL at quiescence, destroy did not return 0", cfgname);
	}
#if !(VP_ASAN || VP_TSAN)
	vp_quar_drain(&l_sync_quar);
	vp_quar_drain(&g_cb_quar);
	vp_quar_drain(&g_dummy_quar);
#endif
	if (!vp_eps)
		vp_inconclusive("tsc-calibration-failed: real-time order / presence-cover oracle skipped");

	uint64_t mk = 0;
	static const int mpts[] = { URCU_VP_LFQ_ENQ_HELPED, URCU_VP_LFQ_DEQ_DUMMY };
	for (size_t i = 0; i < sizeof(mpts) / sizeof(mpts[0]); i++) {
		uint64_t h = vp_point_hits(mpts[i]);
		if (h) {
			mk += h;
			vp_sig_add("long:%s:T%d:%s:%s", VP_FLAVOR_NAME, l_T, rc, vp_point_names[mpts[i]]);
		}
	}
	if (VP_LOAD(g_dummy_allocs_in_deq))
		vp_sig_add("long:%s:T%d:%s:deq_dummy_alloc_window", VP_FLAVOR_NAME, l_T, rc);
	if (nulls)
		vp_sig_add("long:%s:T%d:%s:NULL-checked", VP_FLAVOR_NAME, l_T, rc);
	if (recycled)
		vp_sig_add("long:%s:T%d:%s:nodes-re-enqueued-after-gp", VP_FLAVOR_NAME, l_T, rc);
	if (!vp_point_hits(URCU_VP_LFQ_ENQ_HELPED) || !vp_point_hits(URCU_VP_LFQ_DEQ_DUMMY))
		vp_inconclusive("a required window was never entered (helped-tail or dummy-dequeued marker is 0)");
	uint64_t ev = deq / 1000;
	vp_counter_add("evaluations", ev);
	vp_counter_add("nontrivial", mk / 1000 < ev ? mk / 1000 : ev);
	vp_counter_add("longrun_nodes", deq);
	vp_counter_add("longrun_produced", produced);
	vp_counter_add("longrun_left_for_final_drain", left);
	vp_counter_add("longrun_null_results", nulls);
	vp_counter_add("longrun_enqueue_right_after_null", ean);
	vp_counter_add("longrun_realtime_checks", rtc);
	vp_counter_add("longrun_realtime_unknown_ret", rtu);
	vp_counter_add("longrun_cross_consumer_reads", cross);
	vp_counter_add("longrun_nodes_re_enqueued_after_gp", recycled);
	vp_counter_add("longrun_synchronize_rcu", gps);
	vp_counter_add("longrun_nodes_via_call_rcu", viacr);
	lfq_report_common();
	if (deq >= 1000)
		vp_sample_add("long run cfg=%s flavor=%s T=%d reclaim=%s: %llu nodes, %llu NULL results, %llu real-time checks, helped-tail=%llu dummy-dequeued=%llu dummy-alloc-window=%llu re-enqueued-after-gp=%llu",
			      cfgname, VP_FLAVOR_NAME, l_T, rc, (unsigned long long) deq, (unsigned long long) nulls,
			      (unsigned long long) rtc, (unsigned long long) vp_point_hits(URCU_VP_LFQ_ENQ_HELPED),
			      (unsigned long long) vp_point_hits(URCU_VP_LFQ_DEQ_DUMMY),
			      (unsigned long long) VP_LOAD(g_dummy_allocs_in_deq), (unsigned long long) recycled);
	vp_note("cfg=%s flavor=%s mode=long T=%d reclaim=%s nodes=%llu nulls=%llu rt_checks=%llu eps=%llu", cfgname,
		VP_FLAVOR_NAME, l_T, rc, (unsigned long long) deq, (unsigned long long) nulls, (unsigned long long) rtc,
		(unsigned long long) vp_eps);
	return vp_finish();
}
