/* lin.c - see lin.h */
#include "lin.h"
#include <stdlib.h>
#include <string.h>

struct memo_ent { uint64_t mask, hash; };
struct memo {
	struct memo_ent *tab;
	size_t cap, used;
};

static int memo_seen_or_add(struct memo *m, uint64_t mask, uint64_t hash)
{
	if (m->used * 2 >= m->cap) {
		size_t ncap = m->cap ? m->cap * 2 : 4096;
		struct memo_ent *nt = calloc(ncap, sizeof(*nt));
		if (!nt)
			abort();
		for (size_t i = 0; i < m->cap; i++) {
			if (!m->tab[i].mask && !m->tab[i].hash)
				continue;
			size_t h = (m->tab[i].mask * 0x9e3779b97f4a7c15ULL ^ m->tab[i].hash) & (ncap - 1);
			while (nt[h].mask || nt[h].hash)
				h = (h + 1) & (ncap - 1);
			nt[h] = m->tab[i];
		}
		free(m->tab);
		m->tab = nt;
		m->cap = ncap;
	}
	/* (0,0) is reserved as empty marker: remap */
	if (!mask && !hash)
		hash = 1;
	size_t h = (mask * 0x9e3779b97f4a7c15ULL ^ hash) & (m->cap - 1);
	while (m->tab[h].mask || m->tab[h].hash) {
		if (m->tab[h].mask == mask && m->tab[h].hash == hash)
			return 1;
		h = (h + 1) & (m->cap - 1);
	}
	m->tab[h].mask = mask;
	m->tab[h].hash = hash;
	m->used++;
	return 0;
}

static uint64_t fnv(const void *p, size_t n)
{
	const unsigned char *c = p;
	uint64_t h = 1469598103934665603ULL;
	for (size_t i = 0; i < n; i++) {
		h ^= c[i];
		h *= 1099511628211ULL;
	}
	return h;
}

struct search {
	const struct lin_model *m;
	void *ctx;
	const struct lin_op *ops;
	int n;
	uint64_t eps, budget, nodes;
	struct memo memo;
	uint64_t pred[LIN_MAX_OPS];	/* ops that must be linearised before op i */
	unsigned char *states;	/* (n+1) * state_size */
	int order[LIN_MAX_OPS];
	int inconclusive;
};

static int dfs(struct search *s, uint64_t mask, int depth)
{
	if (depth == s->n)
		return 1;
	if (++s->nodes > s->budget) {
		s->inconclusive = 1;
		return 0;
	}
	size_t ss = s->m->state_size;
	unsigned char *cur = s->states + (size_t) depth * ss;
	unsigned char *nxt = s->states + (size_t) (depth + 1) * ss;

	for (int i = 0; i < s->n; i++) {
		if (mask & (1ULL << i))
			continue;
		/* op i may go next iff everything that must precede it is already linearised */
		if (s->pred[i] & ~mask)
			continue;
		memcpy(nxt, cur, ss);
		if (!s->m->apply(nxt, &s->ops[i], s->ctx))
			continue;
		uint64_t nm = mask | (1ULL << i);
		uint64_t h = s->m->hash ? s->m->hash(nxt, s->ctx) : fnv(nxt, ss);
		if (memo_seen_or_add(&s->memo, nm, h))
			continue;
		s->order[depth] = i;
		if (dfs(s, nm, depth + 1))
			return 1;
		if (s->inconclusive)
			return 0;
	}
	return 0;
}

int lin_count_overlaps(const struct lin_op *ops, int n, uint64_t eps)
{
	int c = 0;
	(void) eps;
	for (int i = 0; i < n; i++)
		for (int j = i + 1; j < n; j++)
			if (ops[i].call < ops[j].ret && ops[j].call < ops[i].ret)
				c++;
	return c;
}

void lin_overlap_sig(const struct lin_op *ops, int n, uint64_t eps, const char *const *kind_names,
		     char *buf, size_t len)
{
	/* set (not multiset) of overlapping kind pairs, in canonical order */
	unsigned char seen[32][32];
	size_t off = 0;
	(void) eps;
	memset(seen, 0, sizeof(seen));
	for (int i = 0; i < n; i++)
		for (int j = i + 1; j < n; j++)
			if (ops[i].call < ops[j].ret && ops[j].call < ops[i].ret) {
				int a = ops[i].kind & 31, b = ops[j].kind & 31;
				if (a > b) { int t = a; a = b; b = t; }
				seen[a][b] = 1;
			}
	buf[0] = 0;
	for (int a = 0; a < 32; a++)
		for (int b = a; b < 32; b++)
			if (seen[a][b] && off + 40 < len)
				off += (size_t) snprintf(buf + off, len - off, "%s%s|%s", off ? "," : "",
							 kind_names[a], kind_names[b]);
}

int lin_check(const struct lin_model *m, void *ctx, const struct lin_op *ops, int n,
	      uint64_t eps, uint64_t budget, struct lin_result *res)
{
	struct search s;
	memset(&s, 0, sizeof(s));
	if (n > LIN_MAX_OPS || m->state_size > LIN_MAX_STATE) {
		res->verdict = LIN_INCONCLUSIVE;
		return res->verdict;
	}
	s.m = m;
	s.ctx = ctx;
	s.ops = ops;
	s.n = n;
	s.eps = eps;
	s.budget = budget;
	/* Precedence: (a) real time between different threads, with the clock margin: j before i iff j
	 * returned more than eps before i was called; (b) program order inside one thread is certain (its
	 * operations are sequential and stamped on one clock), so eps must not blur it: j before i iff j was
	 * called before i.  `thread` must identify one sequential actor. */
	for (int i = 0; i < n; i++) {
		s.pred[i] = 0;
		for (int j = 0; j < n; j++) {
			if (j == i)
				continue;
			if (ops[j].thread == ops[i].thread) {
				if (ops[j].call < ops[i].call || (ops[j].call == ops[i].call && j < i))
					s.pred[i] |= 1ULL << j;
			} else if (ops[j].ret != UINT64_MAX && ops[j].ret + eps < ops[i].call)
				s.pred[i] |= 1ULL << j;
		}
	}
	s.states = calloc((size_t) n + 1, m->state_size ? m->state_size : 1);
	m->init(s.states, ctx);
	int ok = dfs(&s, 0, 0);
	res->nodes = s.nodes;
	/* max concurrency: sweep */
	int maxc = 0;
	for (int i = 0; i < n; i++) {
		int c = 0;
		for (int j = 0; j < n; j++)
			if (ops[j].call <= ops[i].call && ops[i].call < ops[j].ret)
				c++;
		if (c > maxc)
			maxc = c;
	}
	res->max_concurrency = maxc;
	if (ok) {
		res->verdict = LIN_OK;
		memcpy(res->order, s.order, sizeof(int) * (size_t) n);
	} else
		res->verdict = s.inconclusive ? LIN_INCONCLUSIVE : LIN_VIOLATION;
	free(s.states);
	free(s.memo.tab);
	return res->verdict;
}

void lin_dump(FILE *f, const struct lin_model *m, void *ctx, const struct lin_op *ops, int n)
{
	uint64_t t0 = UINT64_MAX;
	for (int i = 0; i < n; i++)
		if (ops[i].call < t0)
			t0 = ops[i].call;
	fprintf(f, "history model=%s ops=%d (times relative, cycles)\n", m->name, n);
	for (int i = 0; i < n; i++) {
		fprintf(f, "  #%02d T%d [%8llu, %8lld] ", i, ops[i].thread,
			(unsigned long long) (ops[i].call - t0),
			ops[i].ret == UINT64_MAX ? -1LL : (long long) (ops[i].ret - t0));
		if (m->print_op)
			m->print_op(f, &ops[i], ctx);
		else
			fprintf(f, "kind=%d a=%llu b=%llu -> r=%llu r2=%llu", ops[i].kind,
				(unsigned long long) ops[i].a, (unsigned long long) ops[i].b,
				(unsigned long long) ops[i].r, (unsigned long long) ops[i].r2);
		fputc('\n', f);
	}
}
