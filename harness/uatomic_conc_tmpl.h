/*
 * uatomic_conc_tmpl.h - per-type thread bodies of the concurrent conservation
 * tests of harness/uatomic.c (property C20, family (ii)).
 *
 * Include with CT_T, CT_UT, CT_N, CT_NAME, CT_W, CT_SIGNED defined.
 * Every body has the type-erased signature  void fn(struct conc_ctx *, int tid);
 * the verdict is computed by generic code in uatomic.c from cc->res[] and the
 * final memory image.
 */

#define CT_CAT_(a, b) a##b
#define CT_CAT(a, b) CT_CAT_(a, b)
#define CT_FN(tag) CT_CAT(CT_CAT(conc_, CT_N), CT_CAT(_, tag))
#define CT_BITS (8 * CT_W)

/* ---- sum modulo 2^w under add / sub / inc / dec / add_return / sub_return */
static void CT_FN(sum)(struct conc_ctx *cc, int tid)
{
	CT_T *p = (CT_T *) (cc->line + cc->off);
	struct vp_rng r;
	CT_UT local = 0;
	uint64_t chk = 0;
	vp_rng_init(&r, cc->seed, 0x73756d, (uint64_t) tid);
	for (long i = 0; i < cc->n; i++) {
		uint64_t x = vp_rand(&r);
		CT_T v = (CT_T) (CT_UT) (x >> 8);
		if (x & 0x80)
			v = (CT_T) (CT_UT) ((x >> 8) & 3);
		switch (x & 7) {
		case 0: uatomic_add(p, v); local = (CT_UT) (local + (CT_UT) v); break;
		case 1: uatomic_sub(p, v); local = (CT_UT) (local - (CT_UT) v); break;
		case 2: uatomic_inc(p); local = (CT_UT) (local + 1u); break;
		case 3: uatomic_dec(p); local = (CT_UT) (local - 1u); break;
		case 4: case 6:
			chk += (uint64_t) (CT_UT) uatomic_add_return(p, v);
			local = (CT_UT) (local + (CT_UT) v);
			break;
		default:
			chk += (uint64_t) (CT_UT) uatomic_sub_return(p, v);
			local = (CT_UT) (local - (CT_UT) v);
			break;
		}
	}
	cc->res[tid].v[0] = (uint64_t) local;
	cc->res[tid].v[1] = chk;
}

/* ---- tickets: add_return(p, 1) (phase 0) / sub_return(p, 1) (phase 1): every
 * returned value is logged; each value must have been handed out exactly
 * (total / 2^w) times (w <= 2) or exactly once (w >= 4). */
static void CT_FN(ticket)(struct conc_ctx *cc, int tid)
{
	CT_T *p = (CT_T *) (cc->line + cc->off);
	uint64_t *arr = cc->res[tid].arr;
	if (cc->phase == 0) {
		for (long i = 0; i < cc->n; i++)
			arr[i] = (uint64_t) (CT_UT) uatomic_add_return(p, (CT_T) 1);
	} else {
		for (long i = 0; i < cc->n; i++)
			arr[i] = (uint64_t) (CT_UT) uatomic_sub_return(p, (CT_T) 1);
	}
}

/* ---- bit ownership under or / and: thread owns the bits in res[tid].v[7] */
static void CT_FN(bits)(struct conc_ctx *cc, int tid)
{
	CT_T *p = (CT_T *) (cc->line + cc->off);
	const CT_UT own = (CT_UT) cc->res[tid].v[7];
	CT_UT exp = 0;
	uint64_t checks = 0, bad = 0;
	struct vp_rng r;
	vp_rng_init(&r, cc->seed, 0x62697473, (uint64_t) tid);
	for (long i = 0; i < cc->n; i++) {
		uint64_t x = vp_rand(&r);
		CT_UT m = (CT_UT) ((CT_UT) (x >> 8) & own);
		if (x & 1) {
			uatomic_or(p, (CT_T) m);
			exp = (CT_UT) (exp | m);
		} else {
			uatomic_and(p, (CT_T) (CT_UT) ~m);
			exp = (CT_UT) (exp & (CT_UT) ~m);
		}
		if ((x & 0x70) == 0) {
			CT_UT cur = (CT_UT) uatomic_read(p);
			checks++;
			if ((CT_UT) (cur & own) != exp && !bad) {
				bad = 1;
				cc->res[tid].v[2] = (uint64_t) i;
				cc->res[tid].v[3] = (uint64_t) cur;
				cc->res[tid].v[4] = (uint64_t) exp;
			}
		}
	}
	cc->res[tid].v[0] = (uint64_t) exp;
	cc->res[tid].v[1] = checks;
	cc->res[tid].v[5] = bad;
}

/* ---- token conservation under xchg: multiset(written + initial) == multiset(returned + final) */
static void CT_FN(xchg)(struct conc_ctx *cc, int tid)
{
	CT_T *p = (CT_T *) (cc->line + cc->off);
	uint64_t in1 = 0, in2 = 0, out1 = 0, out2 = 0;
	struct vp_rng r;
	vp_rng_init(&r, cc->seed, 0x78636867, (uint64_t) tid);
	for (long i = 0; i < cc->n; i++) {
		CT_UT tok;
#if CT_W >= 4
		tok = (CT_UT) (((CT_UT) (tid + 1) << (CT_BITS - 6)) |
			       ((CT_UT) i & (((CT_UT) 1 << (CT_BITS - 6)) - 1)));
#else
		tok = (CT_UT) vp_rand(&r);
#endif
		CT_UT got = (CT_UT) uatomic_xchg(p, (CT_T) tok);
		in1 += conc_h1((uint64_t) tok);
		in2 += conc_h2((uint64_t) tok);
		out1 += conc_h1((uint64_t) got);
		out2 += conc_h2((uint64_t) got);
	}
	cc->res[tid].v[0] = in1;
	cc->res[tid].v[1] = in2;
	cc->res[tid].v[2] = out1;
	cc->res[tid].v[3] = out2;
}

/* ---- cmpxchg increment loop: n successes per thread, every consumed value logged */
static void CT_FN(cmpxchg_inc)(struct conc_ctx *cc, int tid)
{
	CT_T *p = (CT_T *) (cc->line + cc->off);
	uint64_t *arr = cc->res[tid].arr;
	uint64_t failures = 0;
	/* a failure proves that another thread succeeded in between, hence at most
	 * (nthr - 1) * n legitimate failures per thread */
	const uint64_t max_failures = (uint64_t) cc->nthr * (uint64_t) cc->n + 16;
	long k = 0;
	while (k < cc->n) {
		CT_T old = uatomic_read(p);
		CT_T nw = (CT_T) (CT_UT) ((CT_UT) old + 1u);
		CT_T got = uatomic_cmpxchg(p, old, nw);
		if (got == old)
			arr[k++] = (uint64_t) (CT_UT) old;
		else if (++failures > max_failures || VP_LOAD(cc->abort)) {
			VP_STORE(cc->abort, 1);
			cc->res[tid].v[1] = 1;
			cc->res[tid].v[2] = (uint64_t) (CT_UT) old;
			cc->res[tid].v[3] = (uint64_t) (CT_UT) got;
			break;
		}
	}
	cc->res[tid].v[0] = failures;
	cc->res[tid].v[4] = (uint64_t) k;
}

/* ---- neighbours: thread tid owns slot tid of a small aligned region; it is the
 * only writer of its slot, so every return value is exactly predictable */
static void CT_FN(neigh)(struct conc_ctx *cc, int tid)
{
	if (tid >= cc->nslots)
		return;
	CT_T *p = (CT_T *) (cc->line + cc->off) + tid;
	CT_T cur = (CT_T) (CT_UT) cc->res[tid].v[6];
	uint64_t checks = 0;
	struct vp_rng r;
	vp_rng_init(&r, cc->seed, 0x6e656967, (uint64_t) tid);
	for (long i = 0; i < cc->n; i++) {
		uint64_t x = vp_rand(&r);
		CT_T a = (CT_T) (CT_UT) (x >> 8);
		CT_T b = (CT_T) (CT_UT) (x >> 32);
		CT_T ret = 0, exp = 0;
		int op = (int) (x % 13), hasret = 1;
		switch (op) {
		case 0: uatomic_set(p, a); cur = a; hasret = 0; break;
		case 1: ret = uatomic_xchg(p, a); exp = cur; cur = a; break;
		case 2: ret = uatomic_cmpxchg(p, cur, a); exp = cur; cur = a; break;
		case 3: {
			CT_T wrong = (CT_T) (CT_UT) ((CT_UT) cur ^ ((CT_UT) a | 1u));
			ret = uatomic_cmpxchg(p, wrong, b); exp = cur;
			break;
		}
		case 4: ret = uatomic_add_return(p, a); cur = (CT_T) (CT_UT) ((CT_UT) cur + (CT_UT) a); exp = cur; break;
		case 5: ret = uatomic_sub_return(p, a); cur = (CT_T) (CT_UT) ((CT_UT) cur - (CT_UT) a); exp = cur; break;
		case 6: uatomic_add(p, a); cur = (CT_T) (CT_UT) ((CT_UT) cur + (CT_UT) a); hasret = 0; break;
		case 7: uatomic_sub(p, a); cur = (CT_T) (CT_UT) ((CT_UT) cur - (CT_UT) a); hasret = 0; break;
		case 8: uatomic_inc(p); cur = (CT_T) (CT_UT) ((CT_UT) cur + 1u); hasret = 0; break;
		case 9: uatomic_dec(p); cur = (CT_T) (CT_UT) ((CT_UT) cur - 1u); hasret = 0; break;
		case 10: uatomic_and(p, a); cur = (CT_T) (CT_UT) ((CT_UT) cur & (CT_UT) a); hasret = 0; break;
		case 11: uatomic_or(p, a); cur = (CT_T) (CT_UT) ((CT_UT) cur | (CT_UT) a); hasret = 0; break;
		default: break;
		}
		checks++;
		/* returned value, then read-back of what the (sole) owner just wrote */
		if (hasret && op != 12 && ret != exp) {
			cc->res[tid].v[1] = 1;
			cc->res[tid].v[2] = (uint64_t) i;
			cc->res[tid].v[3] = (uint64_t) op;
			cc->res[tid].v[4] = (uint64_t) (CT_UT) ret;
			cc->res[tid].v[5] = (uint64_t) (CT_UT) exp;
			break;
		}
		ret = uatomic_read(p);
		if (ret != cur) {
			cc->res[tid].v[1] = 2;
			cc->res[tid].v[2] = (uint64_t) i;
			cc->res[tid].v[3] = (uint64_t) op;
			cc->res[tid].v[4] = (uint64_t) (CT_UT) ret;
			cc->res[tid].v[5] = (uint64_t) (CT_UT) cur;
			break;
		}
	}
	cc->res[tid].v[0] = (uint64_t) (CT_UT) cur;
	cc->res[tid].v[7] = checks;
}

/* ---- lock built from the documented full-barrier RMWs protecting PLAIN data.
 * phase 0: xchg test-and-set / xchg release; 1: cmpxchg(0->1) / cmpxchg(1->0);
 * 2: add_return()==1 trylock (undo with sub_return) / sub_return release. */
static void CT_FN(lock)(struct conc_ctx *cc, int tid)
{
	CT_T *p = (CT_T *) (cc->line + cc->off);
	uint64_t bad = 0, spins_total = 0;
	for (long i = 0; i < cc->n; i++) {
		uint64_t spins = 0;
		const uint64_t t0 = vp_rdtsc();	/* asm without "memory" clobber: no compiler barrier */
		for (;;) {
			int got;
			if (cc->phase == 0)
				got = uatomic_xchg(p, (CT_T) 1) == 0;
			else if (cc->phase == 1)
				got = uatomic_cmpxchg(p, (CT_T) 0, (CT_T) 1) == 0;
			else {
				got = uatomic_add_return(p, (CT_T) 1) == 1;
				if (!got)
					(void) uatomic_sub_return(p, (CT_T) 1);
			}
			if (got)
				break;
			conc_pause_noclobber();
			if (cc->oversub)
				sched_yield();
			if ((++spins & 0xfffff) == 0) {
				if (VP_LOAD(cc->abort) || vp_rdtsc() - t0 > cc->lock_timeout_cycles) {
					VP_STORE(cc->abort, 1);
					cc->res[tid].v[2] = 1;
					cc->res[tid].v[3] = (uint64_t) i;
					goto out;
				}
			}
		}
		spins_total += spins;
		/* critical section: plain, non-atomic accesses */
		uint64_t a = cc->plain->a, b = cc->plain->b;
		if (a != b)
			bad++;
		cc->plain->a = a + 1;
		cc->plain->b = b + 1;
		if (cc->phase == 0)
			(void) uatomic_xchg(p, (CT_T) 0);
		else if (cc->phase == 1)
			(void) uatomic_cmpxchg(p, (CT_T) 1, (CT_T) 0);
		else
			(void) uatomic_sub_return(p, (CT_T) 1);
	}
out:
	cc->res[tid].v[0] = bad;
	cc->res[tid].v[1] = spins_total;
}

/* ---- no tearing of uatomic_set / uatomic_read: writer stores values whose bytes are all equal */
static void CT_FN(tear)(struct conc_ctx *cc, int tid)
{
	CT_T *p = (CT_T *) (cc->line + cc->off);
	uint64_t bad = 0, distinct = 0;
	if (tid == 0) {
		for (long i = 0; i < cc->n; i++) {
			CT_UT v = (CT_UT) ((CT_UT) ~(CT_UT) 0 / 0xffu * (CT_UT) (i & 0xff));
			if (i & 0x100)
				uatomic_store(p, (CT_T) v);
			else
				uatomic_set(p, (CT_T) v);
		}
	} else {
		CT_UT last = 0;
		for (long i = 0; i < cc->n; i++) {
			CT_UT v = (i & 1) ? (CT_UT) uatomic_read(p) : (CT_UT) uatomic_load(p);
			CT_UT want = (CT_UT) ((CT_UT) ~(CT_UT) 0 / 0xffu * (CT_UT) (v & 0xffu));
			if (v != want && !bad) {
				bad = 1;
				cc->res[tid].v[2] = (uint64_t) v;
			}
			distinct += v != last;
			last = v;
		}
	}
	cc->res[tid].v[0] = bad;
	cc->res[tid].v[1] = distinct;
}

static const struct conc_type CT_CAT(conc_type_, CT_N) = {
	CT_NAME, CT_W, CT_SIGNED,
	CT_FN(sum), CT_FN(ticket), CT_FN(bits), CT_FN(xchg), CT_FN(cmpxchg_inc),
	CT_FN(neigh), CT_FN(lock), CT_FN(tear),
};

#undef CT_FN
#undef CT_BITS
#undef CT_T
#undef CT_UT
#undef CT_N
#undef CT_NAME
#undef CT_W
#undef CT_SIGNED
