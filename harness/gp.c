/*
 * gp.c - grace-period torture for C01 / C02 / C15 (memb, mb, qsbr part) / C19 (async part).
 *
 * Oracles (all decide on recorded events of the real library code):
 *   - poison: updater unpublishes an object, waits a grace period, then poisons
 *     (plain build: + quarantine, asan/tsan: really free()s) it; readers validate
 *     every object they obtained inside their section, before and after a delay;
 *   - GP-interval: reader sections [b,e] and synchronize_rcu() calls [c,r]
 *     stamped with the TSC; a section with b+eps<c and e>r+eps refutes C01;
 *   - message passing: x[u]=k; synchronize_rcu(); y[u]=k.  Reader in one
 *     section: ry=y[u]; rx=x[u]; rx<ry refutes C01;
 *   - completion accounting + stuck-state detector: C02;
 *   - registry census through the peek accessors: C15.
 */
#include "vp.h"
#include "vp_flavor.h"

#define MAX_THR 64
#define NSLOTS 8

#define ST_LIVE   0x4c495645ULL
#define ST_POISON 0xdeadbeefdeadbeefULL

struct obj {
	uint64_t id, gen, state, sum;
	struct obj *self;	/* poisoned to a non-canonical address */
	uint64_t pad[3];
};

static struct obj *slots[NSLOTS];
static struct vp_quar quar;
static uint64_t next_id;

static inline uint64_t obj_sum(uint64_t id, uint64_t gen)
{
	return (id * 0x9e3779b97f4a7c15ULL) ^ (gen + 0x5555) ^ 0xa5a5a5a5a5a5a5a5ULL;
}

static void obj_release(void *p)
{
	struct obj *o = p;
	/* canary check on leaving quarantine: nobody may have written it */
	if (o->state != ST_POISON || o->self != VP_POISON_PTR || o->sum != ~obj_sum(o->id, o->gen))
		vp_violation("late-write-to-retired-object",
			     "object id=%llu modified while in quarantine (state=%llx)",
			     (unsigned long long) o->id, (unsigned long long) o->state);
	free(o);
}

static struct obj *obj_new(void)
{
	struct obj *o = malloc(sizeof(*o));
	if (!o)
		abort();
	o->id = __atomic_add_fetch(&next_id, 1, __ATOMIC_RELAXED);
	o->gen = o->id ^ 0x77;
	o->sum = obj_sum(o->id, o->gen);
	o->self = o;
	o->state = ST_LIVE;
	return o;
}

static void obj_retire(struct obj *o)
{
#if VP_ASAN || VP_TSAN
	/* plain write first: TSan sees a write that is only race-free thanks to the GP */
	o->state = ST_POISON;
	free(o);
#else
	o->state = ST_POISON;
	o->self = VP_POISON_PTR;
	o->sum = ~o->sum;
	vp_quar_put(&quar, o);
#endif
}

/* ------------------------------------------------------------------ config */

static int n_readers, n_updaters;
static long n_gp_per_updater;		/* bounded */
static long reader_sections;		/* bounded (0 = until updaters done) */
static int max_nest;
static int reader_delay_mode;		/* 0 none, 1 heavy */
static int churn;			/* readers re-register / offline cycles */
static int updaters_registered;
static int sig_reader;			/* chaos signals whose handler runs a read section */
static int tight;
/* store-buffer stress: before its outermost rcu_read_lock() the reader issues plain stores to cache lines
 * that hammer threads keep stealing, so that the store buffer drains slowly and the reader-word store of
 * rcu_read_lock() sits behind them while the section's loads already execute.  Only the updater's
 * sys_membarrier / the reader's own fence makes that store visible in time (x86-TSO) */
static int sb_lines;
static uint32_t n_slots = NSLOTS;	/* --slots=1 concentrates readers and updaters on one pointer */
static volatile uint64_t *sb_area;	/* 64 cache lines, MAP_SHARED with the hammer processes */
static int sb_stop;
static uint64_t sb_sections;
static const char *cfgname;
static int g_sig_all;

static int stop_readers;
static volatile int updaters_done;

struct sec { uint64_t b, e; };
struct wait { uint64_t c, r; uint32_t flags; };
#define WF_MERGED 1
#define WF_SLEPT 2

struct thr {
	pthread_t tid;
	int idx, role;		/* 0 reader 1 updater */
	struct vp_rng rng;
	struct sec *secs; size_t nsec, capsec; uint64_t sec_dropped, sec_total;
	struct wait *waits; size_t nwait, capwait;
	uint64_t calls, returns;
	int in_section;
	int registered;
	uint64_t validations, mp_checks, reg_cycles, offline_cycles, deep_sections;
	uint64_t handler_sections;
	volatile uint64_t x, y;		/* MP litmus, written by updater idx */
	char pad[64];
} thr[MAX_THR];

static __thread struct thr *me;
static __thread uint32_t my_gpflags;

static void gp_user_hook(int point, const void *ctx)
{
	(void) ctx;
	if (point == URCU_VP_GP_MERGED)
		my_gpflags |= WF_MERGED;
	else if (point == URCU_VP_GP_PRE_SLEEP)
		my_gpflags |= WF_SLEPT;
}

/* ------------------------------------------------------------------ validation */

static inline void validate(struct obj *p, const char *where)
{
	if (!p)
		return;
	uint64_t st = p->state, id = p->id, gen = p->gen, sum = p->sum;
	struct obj *self = p->self;
	if (st != ST_LIVE || sum != obj_sum(id, gen) || self != p) {
		vp_violation("reader-saw-retired-object",
			     "cfg=%s %s: object %p id=%llu state=%llx self=%p inside a read-side section",
			     cfgname, where, (void *) p, (unsigned long long) id,
			     (unsigned long long) st, (void *) self);
	}
}

static void mp_check(struct thr *t)
{
	int u = n_readers + vp_rand_n(&t->rng, n_updaters);
	uint64_t ry = __atomic_load_n(&thr[u].y, __ATOMIC_RELAXED);
	if (!tight)
		vp_spin_cycles(vp_rand_n(&t->rng, 300));
	else
		__asm__ __volatile__("" ::: "memory");
	uint64_t rx = __atomic_load_n(&thr[u].x, __ATOMIC_RELAXED);
	t->mp_checks++;
	if (rx < ry)
		vp_violation("message-passing-broken",
			     "cfg=%s reader saw y=%llu (stored after synchronize_rcu returned) but x=%llu (stored before the call)",
			     cfgname, (unsigned long long) ry, (unsigned long long) rx);
}

/* signal handler body: a complete read-side section (C19, asynchronous part) */
static void handler_section(void)
{
#if !VP_IS_QSBR
	struct thr *t = me;
	if (!t || !VP_LOAD(t->registered))
		return;
	int before = rcu_read_ongoing();
	rcu_read_lock();
	struct obj *p = rcu_dereference(slots[t->handler_sections % NSLOTS]);
	validate(p, "signal-handler");
	if (p)
		vp_spin_cycles(200);
	validate(p, "signal-handler-2");
	rcu_read_unlock();
	int after = rcu_read_ongoing();
	if (!!before != !!after || before != after)
		vp_violation("handler-changed-nesting",
			     "cfg=%s rcu_read_ongoing() %d before handler section, %d after", cfgname, before, after);
	t->handler_sections++;
#endif
}

/* ------------------------------------------------------------------ reader */

static inline void log_sec(struct thr *t, uint64_t b, uint64_t e)
{
	t->sec_total++;
	if (e - b < 600 && (t->sec_total & 63) && t->nsec >= (t->capsec >> 1))
		return;
	if (t->nsec < t->capsec) {
		t->secs[t->nsec].b = b;
		t->secs[t->nsec].e = e;
		t->nsec++;
	} else
		t->sec_dropped++;
}

static void reader_register(struct thr *t)
{
	rcu_register_thread();
	VP_STORE(t->registered, 1);
}
static void reader_unregister(struct thr *t)
{
	VP_STORE(t->registered, 0);
	rcu_unregister_thread();
}

/* Registration handshake (--reg-handshake=1): now and then a reader, INSIDE its read-side section, asks a
 * helper thread to register and unregister as a reader and waits for it.  Registration must never depend
 * on a grace period in progress (the updater drops rcu_registry_lock while it waits): if it does, the
 * reader cannot leave its section, the grace period cannot end, nothing moves any more. */
static int reg_handshake;
static int deep_nest;
static int churn_direct_pct;	/* qsbr: percentage of sections that end with a direct unregister / register */
static uint64_t hs_req, hs_ack, hs_done;
static int hs_stop;
static void *regger_main(void *arg)
{
	vp_pin((int) (intptr_t) arg);
	while (!VP_LOAD(hs_stop)) {
		uint64_t want = __atomic_load_n(&hs_req, __ATOMIC_ACQUIRE);
		if (want == VP_LOAD(hs_ack)) {
			usleep(30);
			continue;
		}
		rcu_register_thread();
		rcu_read_lock();
		rcu_read_unlock();
		rcu_unregister_thread();
		__atomic_store_n(&hs_ack, want, __ATOMIC_RELEASE);
		hs_done++;
	}
	return NULL;
}
static inline void reg_handshake_in_section(struct thr *t)
{
	if (!reg_handshake || vp_rand_n(&t->rng, 400))
		return;
	uint64_t my = __atomic_add_fetch(&hs_req, 1, __ATOMIC_ACQ_REL);
	while (__atomic_load_n(&hs_ack, __ATOMIC_ACQUIRE) < my && !VP_LOAD(hs_stop))
		__asm__ __volatile__("pause");
}

static void *reader_main(void *arg)
{
	struct thr *t = arg;
	me = t;
	vp_pin(t->idx);
	struct vp_thr *vt = vp_self();
	reader_register(t);
	if (sig_reader || g_sig_all)
		vp_chaos_register_self();
	long done = 0;

#if VP_IS_QSBR
	if (sb_lines) {
		/* store-buffer stress, qsbr: the offline -> online transition is a plain store of the reader word
		 * followed by a full fence; queue it behind stores to contended lines and start reading at once */
		rcu_thread_offline();
		while (!VP_LOAD(stop_readers)) {
			vp_spin_cycles(vp_rand_n(&t->rng, (uint32_t) (120 * 2000)));
			for (int i = 0; i < sb_lines; i++)
				sb_area[i * 8] = (uint64_t) done;
			sb_sections++;
			rcu_thread_online();
			uint64_t b = ts_after();
			VP_STORE(t->in_section, 1);
			struct obj *p = rcu_dereference(slots[vp_rand_n(&t->rng, n_slots)]);
			validate(p, "qsbr-online-deref");
			vp_spin_cycles(vp_rand_n(&t->rng, 4) ? 100000 + vp_rand_n(&t->rng, 200000) : vp_rand_n(&t->rng, 4000));
			validate(p, "qsbr-online-after-delay");
			t->validations += 2;
			uint64_t e = ts_before();
			VP_STORE(t->in_section, 0);
			rcu_thread_offline();
			log_sec(t, b, e);
			done++;
			__atomic_store_n(&vt->progress, vt->progress + 1, __ATOMIC_RELAXED);
		}
		rcu_thread_online();
		goto qsbr_out;
	}
	/* qsbr: a section is the online stretch between two quiescent states */
	uint64_t b = ts_after();
	VP_STORE(t->in_section, 1);
	while (!VP_LOAD(stop_readers) && (!reader_sections || done < reader_sections)) {
		int nobj = 1 + vp_rand_n(&t->rng, 3);
		struct obj *p[4];
		rcu_read_lock();
		for (int i = 0; i < nobj; i++) {
			p[i] = rcu_dereference(slots[vp_rand_n(&t->rng, n_slots)]);
			validate(p[i], "qsbr-deref");
		}
		mp_check(t);
		reg_handshake_in_section(t);
		if (reader_delay_mode)
			vp_delay_heavy(&t->rng);
		for (int i = 0; i < nobj; i++)
			validate(p[i], "qsbr-after-delay");
		t->validations += 2 * nobj;
		rcu_read_unlock();
		/* end of section: report QS / go offline / re-register */
		uint32_t x = vp_rand_n(&t->rng, 1000);
		if (x < 500 && !tight) {
			/* stay online: the implicit section continues (longer section) */
			continue;
		}
		uint64_t e = ts_before();
		VP_STORE(t->in_section, 0);
		if (churn && (x >= 990 || (churn_direct_pct && vp_rand_n(&t->rng, 100) < (uint32_t) churn_direct_pct))) {
			/* unregister straight from the online state: the library must treat it as a quiescent state AND
			 * wake a grace period that sleeps waiting for this thread */
			reader_unregister(t);
			if (churn_direct_pct) {
				/* stay away (like a thread that exits) until some grace period completes: if the one that was
				 * waiting for this thread was not woken by the unregistration, nothing else will wake it */
				uint64_t r0 = 0;
				for (int i = n_readers; i < n_readers + n_updaters; i++)
					r0 += VP_LOAD(thr[i].returns);
				for (;;) {
					uint64_t r1 = 0;
					for (int i = n_readers; i < n_readers + n_updaters; i++)
						r1 += VP_LOAD(thr[i].returns);
					if (r1 != r0 || VP_LOAD(stop_readers) ||
					    __atomic_load_n(&updaters_done, __ATOMIC_RELAXED) >= n_updaters)
						break;
					usleep(20);
				}
			} else if (x >= 997)
				usleep(vp_rand_n(&t->rng, 2000));
			reader_register(t);
			t->reg_cycles++;
		} else if (x >= 900) {
			rcu_thread_offline();
			if (x >= 985)
				usleep(vp_rand_n(&t->rng, 300));
			else
				vp_spin_cycles(vp_rand_n(&t->rng, 2000));
			rcu_thread_online();
			t->offline_cycles++;
		} else {
			rcu_quiescent_state();
		}
		log_sec(t, b, e);
		b = ts_after();
		VP_STORE(t->in_section, 1);
		done++;
		__atomic_store_n(&vt->progress, vt->progress + 1, __ATOMIC_RELAXED);
	}
	{
		uint64_t e = ts_before();
		VP_STORE(t->in_section, 0);
		rcu_thread_offline();
		log_sec(t, b, e);
		rcu_thread_online();
	}
qsbr_out:
#else
	while (!VP_LOAD(stop_readers) && (!reader_sections || done < reader_sections)) {
		int depth = 1 + (max_nest > 1 ? (int) vp_rand_n(&t->rng, max_nest) : 0);
		if (deep_nest && vp_rand_n(&t->rng, 6000) == 0) {
			/* any nesting depth: values around the widths a counter field could have */
			static const int deep[] = { 255, 256, 257, 4095, 4096, 65535, 65536, 65536, 65537, 131072, 196608 };
			depth = deep[vp_rand_n(&t->rng, sizeof(deep) / sizeof(deep[0]))];
			t->deep_sections++;
		}
		int nobj = 1 + vp_rand_n(&t->rng, 3);
		struct obj *p[4];

		if (sb_lines) {
			/* quiescent pause of random length: decorrelates the reader from the updater (every grace
			 * period ends with a membarrier IPI on this CPU, which would phase-lock the two loops) */
			vp_spin_cycles(vp_rand_n(&t->rng, (uint32_t) (120 * 2000)));
			for (int i = 0; i < sb_lines; i++)
				sb_area[i * 8] = (uint64_t) done;
			sb_sections++;
		}
		rcu_read_lock();
		uint64_t b = ts_after();
		VP_STORE(t->in_section, 1);
		for (int i = 0; i < nobj; i++) {
			p[i] = rcu_dereference(slots[vp_rand_n(&t->rng, n_slots)]);
			validate(p[i], "deref");
		}
		for (int d = 1; d < depth; d++)
			rcu_read_lock();
		mp_check(t);
		reg_handshake_in_section(t);
		if (depth > 200) {
			/* hold the deeply nested section across a few grace periods */
			uint64_t t0 = vp_now_ns();
			while (vp_now_ns() - t0 < 2000000ULL) {
				vp_spin_cycles(20000);
				for (int i = 0; i < nobj; i++)
					validate(p[i], "inside-deeply-nested-section");
			}
		}
		if (reader_delay_mode)
			vp_delay_heavy(&t->rng);
		else if (sb_lines)
			vp_spin_cycles(vp_rand_n(&t->rng, 4) ? 100000 + vp_rand_n(&t->rng, 200000) : vp_rand_n(&t->rng, 4000));	/* no store, no fence: the store buffer is left alone; long enough (50-150 us) to outlast a grace period */
		for (int i = 0; i < nobj; i++)
			validate(p[i], "after-delay");
		/* inner unlocks do not end the section */
		for (int d = 1; d < depth; d++) {
			rcu_read_unlock();
			if (d < 8 || !(d & 4095))
				validate(p[d % nobj], "after-inner-unlock");
		}
		if (depth > 1 && reader_delay_mode && vp_rand_n(&t->rng, 4) == 0) {
			vp_delay_heavy(&t->rng);
			for (int i = 0; i < nobj; i++)
				validate(p[i], "after-inner-unlock-delay");
		}
		t->validations += 2 * nobj + depth - 1;
		VP_STORE(t->in_section, 0);
		uint64_t e = ts_before();
		rcu_read_unlock();
		log_sec(t, b, e);
		done++;
		__atomic_store_n(&vt->progress, vt->progress + 1, __ATOMIC_RELAXED);
		if (churn) {
			uint32_t x = vp_rand_n(&t->rng, 1000);
			if (x >= 985) {
				if (sig_reader || g_sig_all)
					vp_chaos_unregister_self();
				reader_unregister(t);
				if (x >= 997)
					usleep(vp_rand_n(&t->rng, 2000));
				reader_register(t);
				if (sig_reader || g_sig_all)
					vp_chaos_register_self();
				t->reg_cycles++;
			}
		}
		if (!tight && vp_rand_n(&t->rng, 8) == 0)
			vp_spin_cycles(vp_rand_n(&t->rng, 2000));
	}
#endif
	if (sig_reader || g_sig_all)
		vp_chaos_unregister_self();
	reader_unregister(t);
	return NULL;
}

/* Hammer PROCESSES (not threads: they must not be targets of the library's membarrier IPIs, and their
 * locked increments keep each line in another core's exclusive state most of the time) */
#include <sys/mman.h>
#include <sys/prctl.h>
#include <sys/wait.h>
static pid_t sb_hammer_pid[3];
static int sb_nhammer;
static void sb_start_hammers(int first_slot)
{
	sb_area = mmap(NULL, 64 * 64, PROT_READ | PROT_WRITE, MAP_SHARED | MAP_ANONYMOUS, -1, 0);
	if (sb_area == MAP_FAILED) {
		sb_area = NULL;
		sb_lines = 0;
		return;
	}
	for (int i = 0; i < 3; i++) {
		pid_t pid = fork();
		if (pid == 0) {
			prctl(PR_SET_PDEATHSIG, SIGKILL);
			vp_pin(first_slot + i);
			for (;;)
				for (int k = 0; k < 64; k++)
					__atomic_fetch_add(&sb_area[k * 8], 1, __ATOMIC_SEQ_CST);
		}
		if (pid > 0)
			sb_hammer_pid[sb_nhammer++] = pid;
	}
}
static void sb_stop_hammers(void)
{
	for (int i = 0; i < sb_nhammer; i++) {
		kill(sb_hammer_pid[i], SIGKILL);
		waitpid(sb_hammer_pid[i], NULL, 0);
	}
	sb_nhammer = 0;
}

/* ------------------------------------------------------------------ updater */

static void *updater_main(void *arg)
{
	struct thr *t = arg;
	me = t;
	vp_pin(t->idx);
	struct vp_thr *vt = vp_self();
	int reg = updaters_registered && (t->idx & 1);
	if (g_sig_all)
		vp_chaos_register_self();
	if (reg) {
		rcu_register_thread();
		VP_STORE(t->registered, 1);
	}
	for (long i = 0; i < n_gp_per_updater; i++) {
		int k = vp_rand_n(&t->rng, n_slots);
		struct obj *n = obj_new();
		struct obj *old = rcu_xchg_pointer(&slots[k], n);

		uint64_t seq = (uint64_t) i + 1;
		__atomic_store_n(&t->x, seq, __ATOMIC_RELAXED);
		my_gpflags = 0;
#if VP_IS_QSBR
		/* qsbr: a registered updater is online here; the library takes it offline */
#endif
		VP_STORE(t->calls, t->calls + 1);
		uint64_t c = ts_before();
		synchronize_rcu();
		uint64_t r = ts_after();
		VP_STORE(t->returns, t->returns + 1);
		__atomic_store_n(&t->y, seq, __ATOMIC_RELAXED);
		if (old)
			obj_retire(old);
		if (t->nwait < t->capwait) {
			t->waits[t->nwait].c = c;
			t->waits[t->nwait].r = r;
			t->waits[t->nwait].flags = my_gpflags;
			t->nwait++;
		}
		__atomic_store_n(&vt->progress, vt->progress + 1, __ATOMIC_RELAXED);
		if (sb_lines)
			vp_spin_cycles(vp_rand_n(&t->rng, 40000));	/* jitter against phase-locking, see reader */
		if (!tight) {
			uint32_t x = vp_rand_n(&t->rng, 100);
			if (x < 30)
				vp_spin_cycles(vp_rand_n(&t->rng, 3000));
			else if (x < 33)
				usleep(vp_rand_n(&t->rng, 100));
		}
#if VP_IS_QSBR
		if (reg && vp_rand_n(&t->rng, 4) == 0)
			rcu_quiescent_state();
#endif
	}
	if (reg) {
		VP_STORE(t->registered, 0);
		rcu_unregister_thread();
	}
	if (g_sig_all)
		vp_chaos_unregister_self();
	__atomic_add_fetch(&updaters_done, 1, __ATOMIC_SEQ_CST);
	return NULL;
}

/* ------------------------------------------------------------------ stuck detector */

static int confirm_stuck(char *buf, size_t len)
{
	uint64_t calls = 0, rets = 0;
	int in_sec = 0;
	for (int i = 0; i < n_readers; i++)
		in_sec += VP_LOAD(thr[i].in_section);
	for (int i = n_readers; i < n_readers + n_updaters; i++) {
		calls += VP_LOAD(thr[i].calls);
		rets += VP_LOAD(thr[i].returns);
	}
	int32_t futex = VP_PEEK(gp_futex)();
	snprintf(buf, len, "hang:gp:%s:inflight=%llu:readers_in_section=%d:gp_futex=%d",
		 cfgname, (unsigned long long) (calls - rets), in_sec, (int) futex);
	/* sections are bounded (delays <= a few ms); 20 s without any progress with a
	 * caller in flight means the grace period cannot complete any more */
	if (calls > rets) {
		snprintf(buf, len, "hang:gp:%s", cfgname);
		return 1;
	}
	return 0;
}

/* ------------------------------------------------------------------ offline interval check */

static void check_intervals(void)
{
	uint64_t evaluations = 0, nontrivial = 0, pairs = 0;
	if (!vp_eps) {
		vp_inconclusive("tsc-calibration-failed: interval oracle skipped");
		return;
	}
	for (int u = n_readers; u < n_readers + n_updaters; u++) {
		struct thr *w = &thr[u];
		for (size_t i = 0; i < w->nwait; i++) {
			uint64_t c = w->waits[i].c, r = w->waits[i].r;
			int overlapping = 0;
			evaluations++;
			for (int rd = 0; rd < n_readers; rd++) {
				struct thr *t = &thr[rd];
				/* last section with b < c */
				size_t lo = 0, hi = t->nsec;
				while (lo < hi) {
					size_t mid = (lo + hi) / 2;
					if (t->secs[mid].b < c)
						lo = mid + 1;
					else
						hi = mid;
				}
				if (lo == 0)
					continue;
				struct sec *s = &t->secs[lo - 1];
				pairs++;
				if (s->e > c)
					overlapping++;
				if (s->b + vp_eps < c && s->e > r + vp_eps) {
					char path[512] = "";
					FILE *f = vp_witness_open("interval", path, sizeof(path));
					if (f) {
						fprintf(f, "cfg=%s eps=%llu\nreader %d section b=%llu e=%llu\nupdater %d synchronize_rcu call=%llu return=%llu flags=%u\n",
							cfgname, (unsigned long long) vp_eps, rd,
							(unsigned long long) s->b, (unsigned long long) s->e, u,
							(unsigned long long) c, (unsigned long long) r, w->waits[i].flags);
						fclose(f);
					}
					vp_violation("gp-too-short",
						     "cfg=%s synchronize_rcu() [%llu,%llu] returned while reader %d section [%llu,%llu] that began before the call was still open (eps=%llu) witness=%s",
						     cfgname, (unsigned long long) c, (unsigned long long) r, rd,
						     (unsigned long long) s->b, (unsigned long long) s->e,
						     (unsigned long long) vp_eps, path);
				}
			}
			if (overlapping) {
				nontrivial++;
				int b = overlapping >= 4 ? 4 : overlapping;
				vp_sig_add("%s:pre-existing=%d:%s:%s", cfgname, b,
					   (w->waits[i].flags & WF_MERGED) ? "merged" : "leader",
					   (w->waits[i].flags & WF_SLEPT) ? "slept" : "spun");
				if (nontrivial <= 2)
					vp_sample_add("cfg=%s wait[c=%llu,r=%llu,len=%lluns] overlapped %d open reader sections at call; flags=%s%s",
						      cfgname, (unsigned long long) c, (unsigned long long) r,
						      (unsigned long long) ((r - c) / (vp_tsc_ghz > 0 ? vp_tsc_ghz : 1)),
						      overlapping, (w->waits[i].flags & WF_MERGED) ? "merged " : "leader ",
						      (w->waits[i].flags & WF_SLEPT) ? "slept" : "spun");
			}
		}
	}
	if (sb_lines)
		vp_counter_add("sections_entered_behind_contended_stores", sb_sections);
	if (reg_handshake)
		vp_counter_add("registrations_awaited_from_inside_a_section", hs_done);
	vp_counter_add("evaluations", evaluations);
	vp_counter_add("nontrivial", nontrivial);
	vp_counter_add("interval_pairs_checked", pairs);
}

/* ------------------------------------------------------------------ main */

extern unsigned int vp_tun_qs_attempts, vp_tun_wait_attempts;
extern int vp_tun_bp_sleep_ms;

int main(int argc, char **argv)
{
	vp_init(argc, argv, "gp_" VP_FLAVOR_NAME);
	cfgname = vp_arg("cfg", VP_FLAVOR_NAME);
	n_readers = (int) vp_arg_long("readers", 4);
	n_updaters = (int) vp_arg_long("updaters", 2);
	n_gp_per_updater = vp_arg_long("gps", 5000);
	reader_sections = vp_arg_long("reader-sections", 0);
	max_nest = (int) vp_arg_long("nest", 4);
	reader_delay_mode = (int) vp_arg_long("reader-delay", 1);
	churn = (int) vp_arg_long("churn", 0);
	updaters_registered = (int) vp_arg_long("updaters-registered", 1);
	sig_reader = (int) vp_arg_long("sig-reader", 0);
	tight = (int) vp_arg_long("tight", 0);
	reg_handshake = (int) vp_arg_long("reg-handshake", 0);
	deep_nest = (int) vp_arg_long("deep-nest", 0);
	churn_direct_pct = (int) vp_arg_long("churn-direct-pct", 0);
	sb_lines = (int) vp_arg_long("sb-lines", 0);
	n_slots = (uint32_t) vp_arg_long("slots", NSLOTS);
	if (n_slots < 1 || n_slots > NSLOTS)
		n_slots = NSLOTS;
	if (sb_lines > 64)
		sb_lines = 64;
	vp_tun_qs_attempts = (unsigned) vp_arg_long("tun-qs", 100);
	vp_tun_wait_attempts = (unsigned) vp_arg_long("tun-wait", 1000);
	vp_tun_bp_sleep_ms = (int) vp_arg_long("tun-bp-sleep", 10);
	double hookp = vp_arg_double("hook-prob", tight ? 0.0 : 0.002);
	if (n_readers + n_updaters > MAX_THR)
		return 2;
#if VP_IS_QSBR
	sig_reader = 0;
#endif

	vp_user_hook = gp_user_hook;
	if (hookp > 0) {
		int pts[] = { URCU_VP_READ_LOCK_MID, URCU_VP_READ_UNLOCK_PRE_WAKE, URCU_VP_WAKE_GP_MID,
			URCU_VP_WAKE_GP_PRE_SYSCALL, URCU_VP_QSBR_QS_PRE_WAKE };
		for (unsigned i = 0; i < sizeof(pts) / sizeof(pts[0]); i++)
			vp_point_set(pts[i], hookp, VP_D_HEAVY);
		int gpts[] = { URCU_VP_GP_LEADER_PRE_LOCK, URCU_VP_GP_WAITERS_MOVED, URCU_VP_GP_PRE_FLIP,
			URCU_VP_GP_POST_FLIP, URCU_VP_GP_PRE_WAKE_WAITERS, URCU_VP_GP_SCAN_AFTER_DEC,
			URCU_VP_GP_REGISTRY_UNLOCKED, URCU_VP_GP_PRE_SLEEP, URCU_VP_GP_REGISTER,
			URCU_VP_GP_UNREGISTER, URCU_VP_WAIT_WAKER_MID, URCU_VP_WAIT_WAKER_PRE_TEARDOWN,
			URCU_VP_WAIT_WAITER_PRE_FUTEX, URCU_VP_WAIT_WAITER_PRE_RUNNING, URCU_VP_GP_MERGED };
		for (unsigned i = 0; i < sizeof(gpts) / sizeof(gpts[0]); i++)
			vp_point_set(gpts[i], hookp * 20 > 0.2 ? 0.2 : hookp * 20, VP_D_HEAVY);
	}

	vp_quar_init(&quar, 1 << 16, obj_release);
	for (int k = 0; k < NSLOTS; k++)
		slots[k] = obj_new();

	int scenarios = (int) vp_arg_long("scenarios", 1);
	int sig_all = (int) vp_arg_long("sig-all", 0);
	int max_readers = n_readers, max_updaters = n_updaters;
	struct vp_rng srng;
	vp_rng_init(&srng, vp_opt.seed, 0x5ce9, 0);
	g_sig_all = sig_all;
	if (sig_reader || sig_all)
		vp_chaos_start(max_readers + max_updaters, (uint32_t) vp_arg_long("sig-period-us", 40),
			       sig_reader ? handler_section : NULL);
	vp_watchdog_start((uint64_t) vp_arg_long("stall-ms", 20000), confirm_stuck);

	uint64_t calls = 0, rets = 0, val = 0, mp = 0, secs = 0, dropped = 0, regc = 0, deepc = 0, offc = 0, hs = 0;
	for (int sc = 0; sc < scenarios; sc++) {
		if (scenarios > 1) {
			/* bounded scenario: random shape, every reader terminates */
			n_readers = 1 + (int) vp_rand_n(&srng, (uint32_t) max_readers);
			n_updaters = 1 + (int) vp_rand_n(&srng, (uint32_t) max_updaters);
		}
		int reg_before = VP_PEEK(registry_count)();
		int nthr = n_readers + n_updaters;
		VP_STORE(stop_readers, 0);
		for (int i = 0; i < nthr; i++) {
			struct thr *t = &thr[i];
			struct sec *osecs = t->secs;
			struct wait *owaits = t->waits;
			size_t ocs = t->capsec, ocw = t->capwait;
			memset(t, 0, sizeof(*t));
			t->secs = osecs; t->capsec = ocs;
			t->waits = owaits; t->capwait = ocw;
			t->idx = i;
			t->role = i >= n_readers;
			vp_rng_init(&t->rng, vp_opt.seed, 0x6770 + (uint64_t) sc, (uint64_t) i);
			if (!t->role && !t->secs) {
				t->capsec = scenarios > 1 ? (1 << 16) : (1 << 21);
				t->secs = malloc(t->capsec * sizeof(struct sec));
			}
			if (t->role && (!t->waits || t->capwait < (size_t) n_gp_per_updater + 1)) {
				free(t->waits);
				t->capwait = (size_t) n_gp_per_updater + 1;
				t->waits = malloc(t->capwait * sizeof(struct wait));
			}
			if (!t->role && t->waits) { free(t->waits); t->waits = NULL; t->capwait = 0; }
			if (t->role && t->secs) { free(t->secs); t->secs = NULL; t->capsec = 0; }
		}
		if (sb_lines && !sb_nhammer)
			sb_start_hammers(nthr);
		pthread_t regger;
		VP_STORE(hs_stop, 0);
		if (reg_handshake)
			pthread_create(&regger, NULL, regger_main, (void *) (intptr_t) nthr);
		for (int i = 0; i < nthr; i++)
			pthread_create(&thr[i].tid, NULL, i < n_readers ? reader_main : updater_main, &thr[i]);
		for (int i = n_readers; i < nthr; i++)
			pthread_join(thr[i].tid, NULL);
		VP_STORE(stop_readers, 1);
		for (int i = 0; i < n_readers; i++)
			pthread_join(thr[i].tid, NULL);
		if (sb_lines && sc == scenarios - 1)
			sb_stop_hammers();
		if (reg_handshake) {
			VP_STORE(hs_stop, 1);
			pthread_join(regger, NULL);
		}

		/* quiescence checks */
		uint64_t sc_calls = 0, sc_rets = 0;
		for (int i = 0; i < nthr; i++) {
			sc_calls += thr[i].calls;
			sc_rets += thr[i].returns;
			val += thr[i].validations;
			mp += thr[i].mp_checks;
			secs += thr[i].sec_total;
			dropped += thr[i].sec_dropped;
			regc += thr[i].reg_cycles;
			deepc += thr[i].deep_sections;
			offc += thr[i].offline_cycles;
			hs += thr[i].handler_sections;
		}
		calls += sc_calls;
		rets += sc_rets;
		if (sc_calls != sc_rets)
			vp_violation("gp-call-never-returned", "cfg=%s %llu calls, %llu returns", cfgname,
				     (unsigned long long) sc_calls, (unsigned long long) sc_rets);
		int reg_after = VP_PEEK(registry_count)();
		if (reg_after != reg_before)
			vp_violation("registry-census-mismatch",
				     "cfg=%s registry holds %d entries after all workers unregistered, %d before they started",
				     cfgname, reg_after, reg_before);
		check_intervals();
		if (vp_nviolations())
			break;
	}
	vp_chaos_stop();
	vp_watchdog_stop();
#if !(VP_ASAN || VP_TSAN)
	vp_quar_drain(&quar);
#endif
	vp_counter_add("scenarios", (uint64_t) scenarios);
	vp_counter_add("gp_calls", calls);
	vp_counter_add("reader_sections", secs);
	vp_counter_add("reader_sections_logged_dropped", dropped);
	vp_counter_add("reader_validations", val);
	vp_counter_add("mp_checks", mp);
	vp_counter_add("register_cycles", regc);
	if (deep_nest)
		vp_counter_add("sections_nested_255_to_1M_deep", deepc);
	vp_counter_add("offline_cycles", offc);
	vp_counter_add("handler_sections", hs);
	return vp_finish();
}
