#include "vp_tun.h"
unsigned int vp_tun_qs_attempts = 100;
unsigned int vp_tun_wait_attempts = 1000;
int vp_tun_bp_sleep_ms = 10;
unsigned long vp_tun_defer_qsize = 1UL << 12;
unsigned int vp_tun_count_commit_order = 10;
unsigned int vp_tun_min_part_order = 12;
