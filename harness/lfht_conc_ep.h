/*
 * lfht_conc_ep.h - episode mode of lfht_conc.c (included once).
 *
 * Long-lived pinned threads: workers 0..W-1 (worker 0 is also the controller), one reader (slot W),
 * optionally the explicit resizer (slot W+1) and the library's resize worker (slot W+1).
 * Per episode: the controller plans (keys, prefill, operations per worker, traversals / resident lookups
 * of the reader, chaos level), barrier, everybody runs, barrier, the controller records what is in the
 * table at quiescence and removes the hot nodes.  Histories are checked in batches (one per worker),
 * then a grace period is waited for and the removed nodes are reclaimed.
 */

#define MAXW 4
#define MAX_OPS_THR 6
#define MAXREC (2 * MAX_OPS_THR)
#define EPN 64
#define WALKMAX 16
#define MAXTRAV 3
#define MAXRLOOK 10
#define WALK_STEP_LIMIT 8192

enum { X_ADD, X_ADDU, X_ADDR, X_REPLACE, X_DEL, X_LOOKUP, X_WALK, X_NR };
static const char *const x_names[X_NR] = { "add", "add_unique", "add_replace", "replace", "del", "lookup", "walk" };
enum { K_ADD, K_ADDU, K_ADDR, K_REPL, K_DEL, K_LOOK, K_WALK, K_FINAL, K_NR };
static const char *const k_names[K_NR] = { "add", "add_unique", "add_replace", "replace", "del", "lookup", "lookup+next_duplicate", "content-at-quiescence" };

/* result classes (signatures) */
enum { C_ADD, C_ADDU_INS, C_ADDU_FOUND, C_ADDR_INS, C_ADDR_REPL, C_REPL_OK, C_REPL_ENOENT, C_DEL_OK, C_DEL_ENOENT,
       C_LOOK_HIT, C_LOOK_NULL, C_WALK, C_NR };
static const char *const c_names[C_NR] = { "add", "addu+", "addu=", "addr+", "addr~", "repl+", "repl-", "del+", "del-",
	"look+", "look0", "walk" };

#define LID_BAD 255

struct plan_op {
	uint8_t x, kidx, find_walk, pick, new_lid, sync;
	uint16_t gap, jitter;
};

struct rec {
	uint8_t kind, kidx;
	uint8_t a;		/* new node (add*, replace) */
	uint8_t b;		/* old node (replace, del), 0 = NULL */
	uint8_t r;		/* node result (lookup / add_unique / add_replace), 0 = NULL */
	uint8_t nset, overflow, during;
	int32_t rc;		/* return code (replace, del) */
	uint8_t set[WALKMAX];
	uint64_t call, ret, ret1;
};

struct enode {
	struct hnode *p;
	uint8_t kidx, prefilled;
};

struct trav {
	uint64_t call, ret;
	uint64_t hotmask, dupmask;
	uint32_t nres;
	uint8_t during, bad;
};

struct episode {
	uint64_t number;
	int nthr, nk, focus, chaos, unique;
	uint64_t keyval[MAXHOT];
	unsigned long keyhash[MAXHOT];
	int nn;					/* lids 1..nn */
	struct enode nodes[EPN];
	int nplan[MAXW];
	struct plan_op plan[MAXW][MAX_OPS_THR];
	uint32_t start_off[MAXW];
	int nrec[MAXW];
	struct rec recs[MAXW][MAXREC];
	int r_n;				/* reader actions */
	uint8_t r_act[MAXTRAV + MAXRLOOK];	/* 0 = traversal, 1 = resident lookup */
	uint16_t r_gap[MAXTRAV + MAXRLOOK];
	uint32_t r_off;
	int ntrav;
	struct trav trav[MAXTRAV];
	uint64_t final_mask[MAXHOT];
	uint64_t final_call, final_ret;
	unsigned long size_before, size_after;
	uint64_t rzcount_before, rzcount_after;
	int nres;
	int broken;
	uint64_t sync_go;
	int sync_n, sync_cnt;			/* rendezvous of the first operations ("race" episodes) */
	char ctx[160];
};

struct wthr {
	pthread_t tid;
	int idx;
	struct vp_rng rng;
	int cur_op;			/* X_* + 1 while inside the library (watchdog) */
	/* evidence */
	uint64_t checked, nontrivial, inconclusive, lin_nodes, max_lin_nodes, max_conc;
	uint64_t ops_by_class[C_NR], walks_checked, travs_checked, walk_nodes, during_grow, during_shrink;
	uint64_t size_changed_eps, resized_eps, keys_checked, anomaly_addu_vs_add, del_lost_owner;
	int samples;
	char pad[64];
};

static struct episode eps[MAXW];
static struct episode *cur_ep;
static struct wthr wthr[MAXW + 1];
static struct vp_barrier ep_bar;
static int nworkers, ep_stop, ep_check_phase, ep_nslots;
static long opt_episodes, opt_gen_len;
static double opt_seconds;
static uint64_t ep_counter, ep_in_gen, t_start_ns;
static struct pend ctl_pend;
static uint64_t hot_keyval[MAXHOT];
static unsigned long hot_keyhash[MAXHOT];
static int res_target, res_phase_up = 1;
static uint64_t reader_travs, reader_rlooks, reader_res_nodes, reader_during_grow, reader_during_shrink, reader_size_changed;
static uint64_t quiescent_checks;
static pthread_mutex_t sample_lock = PTHREAD_MUTEX_INITIALIZER;
static unsigned soft_violations;

static void ep_bar_wait(void)
{
	vp_rcu_offline();
	vp_barrier_wait(&ep_bar);
	vp_rcu_online();
}

/* ------------------------------------------------------------------ identifying nodes handed out by the library */

/* inside a read-side critical section */
static uint8_t decode_node(struct episode *e, struct cds_lfht_node *n, int kidx, const char *what)
{
	struct hnode *h;
	uint32_t m;

	if (!n)
		return 0;
	h = caa_container_of(n, struct hnode, n);
	m = h->magic;
	if (m == ND_HOT) {
		if (h->epoch != e->number) {
			viol("lfht:stale-node-returned",
			     "episode %llu: %s for key k%d returned a node of episode %llu, which had been removed (del returned 0) before this episode began",
			     (unsigned long long) e->number, what, kidx, (unsigned long long) h->epoch);
			e->broken = 1;
			return LID_BAD;
		}
		if (kidx >= 0 && h->kidx != kidx) {
			viol("lfht:wrong-key-returned", "episode %llu: %s for key k%d (hash 0x%lx) returned node n%u whose key is k%d (hash 0x%lx)",
			     (unsigned long long) e->number, what, kidx, e->keyhash[kidx], h->lid, h->kidx, h->hash);
			e->broken = 1;
			return LID_BAD;
		}
		if (h->lid == 0 || h->lid > (uint32_t) e->nn || e->nodes[h->lid].p != h) {
			viol("lfht:garbage-node-returned", "episode %llu: %s returned node %p with inconsistent identity (lid %u)",
			     (unsigned long long) e->number, what, (void *) h, h->lid);
			e->broken = 1;
			return LID_BAD;
		}
		return (uint8_t) h->lid;
	}
	if (m == ND_RES)
		viol("lfht:wrong-key-returned", "episode %llu: %s for hot key k%d returned resident node (key 0x%llx hash 0x%lx)",
		     (unsigned long long) e->number, what, kidx, (unsigned long long) h->key, h->hash);
	else
		viol("lfht:reclaimed-node-returned", "episode %llu: %s for key k%d returned node %p with magic 0x%x (%s)",
		     (unsigned long long) e->number, what, kidx, (void *) h, m, m == ND_POISON ? "poisoned: reclaimed after a grace period" : "garbage");
	e->broken = 1;
	return LID_BAD;
}

static inline uint8_t during_flag(int d0, int d1)
{
	return (d0 == d1 && d0) ? (uint8_t) d0 : 0;
}

/* ------------------------------------------------------------------ executing the plan (workers) */

static inline struct rec *rec_next(struct episode *e, int me, int kind, int kidx)
{
	struct rec *r = &e->recs[me][e->nrec[me]++];
	r->kind = (uint8_t) kind;
	r->kidx = (uint8_t) kidx;
	r->a = r->b = r->r = r->nset = r->overflow = r->during = 0;
	r->rc = 0;
	r->ret1 = 0;
	return r;
}

static void do_lookup(struct episode *e, int me, int kidx, struct cds_lfht_iter *it)
{
	struct cds_lfht *ht = cur_ht();
	struct rec *r = rec_next(e, me, K_LOOK, kidx);
	int d0 = VP_LOAD(rz.dir);

	r->call = ts_before();
	cds_lfht_lookup(ht, e->keyhash[kidx], match_fn, &e->keyval[kidx], it);
	r->ret = ts_after();
	r->during = during_flag(d0, VP_LOAD(rz.dir));
	r->r = decode_node(e, cds_lfht_iter_get_node(it), kidx, "lookup");
}

/* full lookup + next_duplicate walk; its[] receives an iterator per returned node */
static int do_walk(struct episode *e, int me, int kidx, struct cds_lfht_iter *its)
{
	struct cds_lfht *ht = cur_ht();
	struct rec *r = rec_next(e, me, K_WALK, kidx);
	struct cds_lfht_iter it;
	int d0 = VP_LOAD(rz.dir), steps = 0;

	r->call = ts_before();
	cds_lfht_lookup(ht, e->keyhash[kidx], match_fn, &e->keyval[kidx], &it);
	r->ret1 = ts_after();
	while (cds_lfht_iter_get_node(&it)) {
		if (r->nset < WALKMAX) {
			if (its)
				its[r->nset] = it;
			r->set[r->nset++] = decode_node(e, cds_lfht_iter_get_node(&it), kidx, "lookup+next_duplicate");
		} else
			r->overflow = 1;
		if (++steps > WALK_STEP_LIMIT) {
			viol("lfht:walk-does-not-terminate", "episode %llu: lookup+next_duplicate walk for key k%d returned more than %d nodes",
			     (unsigned long long) e->number, kidx, WALK_STEP_LIMIT);
			e->broken = 1;
			break;
		}
		cds_lfht_next_duplicate(ht, match_fn, &e->keyval[kidx], &it);
	}
	r->ret = ts_after();
	r->during = during_flag(d0, VP_LOAD(rz.dir));
	r->r = r->nset ? r->set[0] : 0;
	return r->nset;
}

/* "race" episodes: the participants meet right before the call under test (bounded wait) */
static inline void rendezvous(struct episode *e, const struct plan_op *p)
{
	uint64_t t0, go;

	if (!p->sync)
		return;
	t0 = vp_rdtsc();
	if (__atomic_add_fetch(&e->sync_cnt, 1, __ATOMIC_RELAXED) == e->sync_n)
		__atomic_store_n(&e->sync_go, t0 + 700, __ATOMIC_RELAXED);	/* common start time on the shared TSC */
	while (!(go = __atomic_load_n(&e->sync_go, __ATOMIC_RELAXED)) && vp_rdtsc() - t0 < 5000)
		;
	if (go)
		while (vp_rdtsc() < go + p->jitter)
			;
}

static void exec_op(struct wthr *w, struct episode *e, const struct plan_op *p)
{
	struct cds_lfht *ht = cur_ht();
	int me = w->idx, k = p->kidx, d0;
	struct hnode *nn = p->new_lid ? e->nodes[p->new_lid].p : NULL;
	struct cds_lfht_iter it, its[WALKMAX];
	struct cds_lfht_node *ret;
	struct rec *r;

	if (p->gap)
		vp_spin_cycles(p->gap);
	VP_STORE(w->cur_op, p->x + 1);
	rcu_read_lock();
	switch (p->x) {
	case X_ADD:
		r = rec_next(e, me, K_ADD, k);
		r->a = p->new_lid;
		d0 = VP_LOAD(rz.dir);
		r->call = ts_before();
		cds_lfht_add(ht, nn->hash, &nn->n);
		r->ret = ts_after();
		r->during = during_flag(d0, VP_LOAD(rz.dir));
		break;
	case X_ADDU:
		r = rec_next(e, me, K_ADDU, k);
		r->a = p->new_lid;
		d0 = VP_LOAD(rz.dir);
		rendezvous(e, p);
		r->call = ts_before();
		ret = cds_lfht_add_unique(ht, nn->hash, match_fn, &nn->key, &nn->n);
		r->ret = ts_after();
		r->during = during_flag(d0, VP_LOAD(rz.dir));
		r->r = decode_node(e, ret, k, "add_unique");
		if (!ret) {
			viol("lfht:add_unique:returned-null", "episode %llu: cds_lfht_add_unique returned NULL", (unsigned long long) e->number);
			e->broken = 1;
		}
		break;
	case X_ADDR:
		r = rec_next(e, me, K_ADDR, k);
		r->a = p->new_lid;
		d0 = VP_LOAD(rz.dir);
		rendezvous(e, p);
		r->call = ts_before();
		ret = cds_lfht_add_replace(ht, nn->hash, match_fn, &nn->key, &nn->n);
		r->ret = ts_after();
		r->during = during_flag(d0, VP_LOAD(rz.dir));
		r->r = decode_node(e, ret, k, "add_replace");
		if (ret == &nn->n) {
			viol("lfht:add_replace:returned-new-node", "episode %llu: cds_lfht_add_replace returned the node being added",
			     (unsigned long long) e->number);
			e->broken = 1;
		}
		break;
	case X_LOOKUP:
		do_lookup(e, me, k, &it);
		break;
	case X_WALK:
		(void) do_walk(e, me, k, NULL);
		break;
	case X_REPLACE:
	case X_DEL: {
		uint8_t old;
		if (p->find_walk) {
			int n = do_walk(e, me, k, its);
			if (n) {
				int j = p->pick % n;
				it = its[j];
				old = e->recs[me][e->nrec[me] - 1].set[j];
			} else {
				it.node = it.next = NULL;
				old = 0;
			}
		} else {
			do_lookup(e, me, k, &it);
			old = e->recs[me][e->nrec[me] - 1].r;
		}
		if (old == LID_BAD)
			break;
		if (p->x == X_REPLACE) {
			r = rec_next(e, me, K_REPL, k);
			r->a = p->new_lid;
			r->b = old;
			d0 = VP_LOAD(rz.dir);
			rendezvous(e, p);
			r->call = ts_before();
			r->rc = cds_lfht_replace(ht, &it, nn->hash, match_fn, &nn->key, &nn->n);
			r->ret = ts_after();
			r->during = during_flag(d0, VP_LOAD(rz.dir));
		} else {
			r = rec_next(e, me, K_DEL, k);
			r->b = old;
			d0 = VP_LOAD(rz.dir);
			uint64_t flagged0 = vp_self()->hits[URCU_VP_HT_DEL_FLAGGED];
			rendezvous(e, p);
			r->call = ts_before();
			r->rc = cds_lfht_del(ht, cds_lfht_iter_get_node(&it));
			r->ret = ts_after();
			/* private marker (no hook on that branch of _cds_lfht_del): this call set the REMOVED flag
			 * itself and then lost the ownership exchange */
			if (r->rc && vp_self()->hits[URCU_VP_HT_DEL_FLAGGED] != flagged0)
				w->del_lost_owner++;
			r->during = during_flag(d0, VP_LOAD(rz.dir));
		}
		break;
	}
	}
	rcu_read_unlock();
	VP_STORE(w->cur_op, 0);
	struct vp_thr *vt = vp_self();
	VP_STORE(vt->progress, vt->progress + 1);
}

static void run_worker_ops(struct wthr *w)
{
	struct episode *e = cur_ep;
	int me = w->idx;

	if (me >= e->nthr)
		return;
	if (e->start_off[me])
		vp_spin_cycles(e->start_off[me]);
	for (int i = 0; i < e->nplan[me]; i++)
		exec_op(w, e, &e->plan[me][i]);
}

/* ------------------------------------------------------------------ reader: traversals + lookups of residents */

static uint8_t res_seen[MAXRES];

/* full traversal inside one read-side critical section; residents are judged at once (they do not
 * change during an episode), hot nodes are recorded for the interval oracle */
static void do_traversal(struct episode *e, struct trav *t, const char *who)
{
	struct cds_lfht *ht = cur_ht();
	struct cds_lfht_iter it;
	struct cds_lfht_node *n;
	int steps = 0, d0 = VP_LOAD(rz.dir);
	unsigned long s0 = ht_size(ht);

	memset(t, 0, sizeof(*t));
	memset(res_seen, 0, (size_t) e->nres);
	rcu_read_lock();
	t->call = ts_before();
	cds_lfht_first(ht, &it);
	while ((n = cds_lfht_iter_get_node(&it)) != NULL) {
		struct hnode *h = caa_container_of(n, struct hnode, n);
		uint32_t m = h->magic;
		if (m == ND_RES) {
			if (h->lid < (uint32_t) e->nres && g_res[h->lid] == h) {
				if (res_seen[h->lid] < 200)
					res_seen[h->lid]++;
				t->nres++;
			} else {
				viol("lfht:traverse:removed-resident-seen", "episode %llu: %s first/next traversal visited a resident node (hash 0x%lx) that had been removed (del returned 0) at an earlier quiescent point",
				     (unsigned long long) e->number, who, h->hash);
				t->bad = 1;
			}
		} else if (m == ND_HOT) {
			if (h->epoch != e->number) {
				viol("lfht:stale-node-returned", "episode %llu: %s first/next traversal visited a node of episode %llu which had been removed (del returned 0) before this episode began",
				     (unsigned long long) e->number, who, (unsigned long long) h->epoch);
				t->bad = 1;
			} else if (h->lid && h->lid <= (uint32_t) e->nn && e->nodes[h->lid].p == h) {
				uint64_t bit = 1ULL << h->lid;
				if (t->hotmask & bit)
					t->dupmask |= bit;
				t->hotmask |= bit;
			} else {
				viol("lfht:garbage-node-returned", "episode %llu: %s traversal visited node %p with inconsistent identity", (unsigned long long) e->number, who, (void *) h);
				t->bad = 1;
			}
		} else {
			viol("lfht:reclaimed-node-returned", "episode %llu: %s first/next traversal visited node %p with magic 0x%x (%s)",
			     (unsigned long long) e->number, who, (void *) h, m, m == ND_POISON ? "poisoned: reclaimed after a grace period" : "garbage");
			t->bad = 1;
			break;
		}
		if (++steps > WALK_STEP_LIMIT) {
			viol("lfht:walk-does-not-terminate", "episode %llu: %s first/next traversal visited more than %d nodes (table holds %d residents + <= %d hot nodes)",
			     (unsigned long long) e->number, who, WALK_STEP_LIMIT, e->nres, e->nn);
			t->bad = 1;
			break;
		}
		cds_lfht_next(ht, &it);
	}
	t->ret = ts_after();
	rcu_read_unlock();
	int d1 = VP_LOAD(rz.dir);
	unsigned long s1 = ht_size(ht);
	t->during = during_flag(d0, d1);
	if (s0 != s1)
		t->during |= 4;
	if (t->bad) {
		e->broken = 1;
		return;
	}
	for (int i = 0; i < e->nres; i++) {
		if (res_seen[i] == 1)
			continue;
		struct hnode *h = g_res[i];
		if (res_seen[i] == 0)
			viol("lfht:traverse:resident-missed",
			     "episode %llu: %s first/next traversal did not visit resident node #%d (key 0x%llx hash 0x%lx), which was in the table before the traversal began and is never removed during an episode; visited %u of %d residents; table size %lu -> %lu, explicit resize in progress: %s",
			     (unsigned long long) e->number, who, i, (unsigned long long) h->key, h->hash, t->nres, e->nres, s0, s1,
			     d0 == 1 || d1 == 1 ? "grow" : d0 == 2 || d1 == 2 ? "shrink" : "no");
		else
			viol("lfht:traverse:node-seen-twice", "episode %llu: %s first/next traversal visited resident node #%d (hash 0x%lx) %d times",
			     (unsigned long long) e->number, who, i, h->hash, res_seen[i]);
		e->broken = 1;
		break;
	}
}

static void resident_lookup(struct episode *e, struct vp_rng *r)
{
	struct cds_lfht *ht = cur_ht();
	struct cds_lfht_iter it;
	struct hnode *h;
	int d0 = VP_LOAD(rz.dir);
	unsigned long s0;

	if (!e->nres)
		return;
	h = g_res[vp_rand_n(r, (uint32_t) e->nres)];
	s0 = ht_size(ht);
	rcu_read_lock();
	cds_lfht_lookup(ht, h->hash, match_fn, &h->key, &it);
	struct cds_lfht_node *n = cds_lfht_iter_get_node(&it);
	if (n != &h->n) {
		int d1 = VP_LOAD(rz.dir);
		viol(n ? "lfht:resident-lookup-wrong-node" : "lfht:resident-lookup-missed",
		     "episode %llu: lookup of resident key 0x%llx (hash 0x%lx; in the table since before the episode, never removed) returned %p instead of its node; table size %lu -> %lu, explicit resize in progress: %s",
		     (unsigned long long) e->number, (unsigned long long) h->key, h->hash, (void *) n, s0, ht_size(ht),
		     d0 == 1 || d1 == 1 ? "grow" : d0 == 2 || d1 == 2 ? "shrink" : "no");
		e->broken = 1;
	} else {
		/* the resident key is unique: there is no duplicate */
		cds_lfht_next_duplicate(ht, match_fn, &h->key, &it);
		if (cds_lfht_iter_get_node(&it)) {
			viol("lfht:resident-duplicate", "episode %llu: next_duplicate after the lookup of unique resident key 0x%llx returned a second node %p",
			     (unsigned long long) e->number, (unsigned long long) h->key, (void *) cds_lfht_iter_get_node(&it));
			e->broken = 1;
		}
	}
	rcu_read_unlock();
	int d1 = VP_LOAD(rz.dir);
	if (during_flag(d0, d1) == 1)
		reader_during_grow++;
	else if (during_flag(d0, d1) == 2)
		reader_during_shrink++;
	if (s0 != ht_size(ht))
		reader_size_changed++;
	reader_rlooks++;
}

static void run_reader(struct wthr *w)
{
	struct episode *e = cur_ep;
	struct vp_thr *vt = vp_self();

	if (e->r_off)
		vp_spin_cycles(e->r_off);
	for (int i = 0; i < e->r_n; i++) {
		if (e->r_gap[i])
			vp_spin_cycles(e->r_gap[i]);
		VP_STORE(w->cur_op, X_NR + 1);
		if (e->r_act[i] == 0 && e->ntrav < MAXTRAV) {
			struct trav *t = &e->trav[e->ntrav++];
			do_traversal(e, t, "reader");
			reader_travs++;
			reader_res_nodes += t->nres;
			if ((t->during & 3) == 1)
				reader_during_grow++;
			else if ((t->during & 3) == 2)
				reader_during_shrink++;
			if (t->during & 4)
				reader_size_changed++;
		} else
			resident_lookup(e, &w->rng);
		VP_STORE(w->cur_op, 0);
		VP_STORE(vt->progress, vt->progress + 1);
		vp_rcu_qs();
	}
}

/* ------------------------------------------------------------------ planning (controller) */

static uint8_t plan_node(struct episode *e, int kidx)
{
	int lid = ++e->nn;
	e->nodes[lid].p = node_new(ND_HOT, e->keyval[kidx], e->keyhash[kidx], kidx, (uint32_t) lid, e->number);
	e->nodes[lid].kidx = (uint8_t) kidx;
	e->nodes[lid].prefilled = 0;
	return (uint8_t) lid;
}

static void generation_begin(struct vp_rng *r)
{
	int nbase;

	table_new(r);
	ep_in_gen = 0;
	for (int k = 0; k < MAXHOT; k++) {
		hot_keyval[k] = new_keyval();
		hot_keyhash[k] = k == 0 ? g_fam.h0 : fam_hash(r, &g_fam);
	}
	nbase = 2 + (int) vp_rand_n(r, 11);
	for (int i = 0; i < nbase; i++)
		res_add(r, vp_rand_n(r, 5) ? fam_hash(r, &g_fam) : vp_rand(r));
	switch (opt_resize) {
	case RZ_AUTO:
		res_target = 40 + (int) vp_rand_n(r, 260);
		break;
	case RZ_ACCT:
		res_target = 330;
		res_phase_up = 1;
		break;
	default:
		res_target = nbase + (int) vp_rand_n(r, 24);
		break;
	}
	resizer_resume();
}

static void generation_end(void)
{
	resizer_pause();
	while (g_nres)
		res_remove(g_nres - 1, &ctl_pend);
	pend_flush(&ctl_pend);
	table_destroy();
}

/* residents come and go between episodes only: they drive chain-length / counter based resizes */
static void maintain_residents(struct vp_rng *r)
{
	int step = 3 + (int) vp_rand_n(r, 8);

	if (opt_resize == RZ_ACCT) {
		if (res_phase_up) {
			for (int i = 0; i < step * 2 && g_nres < res_target; i++)
				res_add(r, vp_rand_n(r, 4) ? vp_rand(r) : fam_hash(r, &g_fam));
			if (g_nres >= res_target)
				res_phase_up = 0;
		} else {
			for (int i = 0; i < step * 2 && g_nres > 24; i++)
				res_remove((int) vp_rand_n(r, (uint32_t) g_nres), &ctl_pend);
			if (g_nres <= 24)
				res_phase_up = 1;
		}
		return;
	}
	for (int i = 0; i < step && g_nres < res_target; i++)
		res_add(r, vp_rand_n(r, 3) ? vp_rand(r) : fam_hash(r, &g_fam));
}

static void plan_episode(struct wthr *w, struct episode *e)
{
	struct vp_rng *r = &w->rng;
	struct cds_lfht *ht;
	static const int wt_any[X_NR] = { 14, 16, 14, 14, 18, 14, 10 };
	static const int wt_uniq[X_NR] = { 0, 26, 20, 16, 20, 10, 8 };
	const int *wt = opt_unique ? wt_uniq : wt_any;
	int wsum = 0;

	if (!cur_ht())
		generation_begin(r);
	else if ((long) ep_in_gen >= opt_gen_len) {
		generation_end();
		generation_begin(r);
	}
	ep_in_gen++;
	maintain_residents(r);
	ht = cur_ht();

	for (int i = 0; i < X_NR; i++)
		wsum += wt[i];
	memset(e->nrec, 0, sizeof(e->nrec));
	e->number = ++ep_counter;
	e->nn = 0;
	e->ntrav = 0;
	e->broken = 0;
	e->unique = opt_unique;
	e->nk = opt_unique ? 1 + (int) vp_rand_n(r, 3) : 2 + (int) vp_rand_n(r, 3);
	e->focus = vp_rand_n(r, 100) < 35;
	e->nthr = 2 + (int) vp_rand_n(r, (uint32_t) (nworkers - 1));
	if (e->nthr > nworkers)
		e->nthr = nworkers;
	e->nres = g_nres;
	snprintf(e->ctx, sizeof(e->ctx), "%s", g_ctx);
	for (int k = 0; k < e->nk; k++) {
		e->keyval[k] = hot_keyval[k];
		e->keyhash[k] = hot_keyhash[k];
	}
	e->chaos = chaos_pick(r);
	chaos_set(e->chaos);

	/* "race" episodes: every thread starts with the same kind of update on key k0, aligned by a rendezvous */
	int race = vp_rand_n(r, 100) < 14, race_op = 0;
	if (race) {
		static const uint8_t rops[] = { X_DEL, X_DEL, X_REPLACE, X_ADDU, X_ADDR, X_DEL };
		race_op = rops[vp_rand_n(r, sizeof(rops))];
		if (vp_rand_n(r, 3) == 0)
			race_op = -1;		/* mixed: del / replace / add_replace on the same node */
	}

	/* prefill, sequentially (no worker is running; the resizer may be) */
	for (int k = 0; k < e->nk; k++) {
		uint32_t x = vp_rand_n(r, 100);
		int n = opt_unique ? (x < 50) : x < 35 ? 0 : x < 65 ? 1 : x < 85 ? 2 : 3;
		if (e->focus && k)
			n = n > 1 ? 1 : n;
		if (race && k == 0 && n == 0 && vp_rand_n(r, 8))
			n = 1;
		for (int i = 0; i < n; i++) {
			uint8_t lid = plan_node(e, k);
			struct hnode *h = e->nodes[lid].p;
			e->nodes[lid].prefilled = 1;
			rcu_read_lock();
			if (opt_unique || vp_rand_n(r, 4) == 0) {
				struct cds_lfht_node *ret = cds_lfht_add_unique(ht, h->hash, match_fn, &h->key, &h->n);
				int expect_own = (i == 0);
				if ((ret == &h->n) != expect_own) {
					viol("lfht:quiescent-add_unique-wrong", "episode %llu prefill: add_unique of key k%d with %d node(s) present returned %s",
					     (unsigned long long) e->number, k, i, ret == &h->n ? "the new node" : "another node");
					e->broken = 1;
				}
				if (ret != &h->n) {
					/* not inserted: insert it as a duplicate */
					cds_lfht_add(ht, h->hash, &h->n);
				}
			} else
				cds_lfht_add(ht, h->hash, &h->n);
			rcu_read_unlock();
		}
	}

	e->sync_n = race ? e->nthr : 0;
	e->sync_cnt = 0;
	e->sync_go = 0;
	for (int t = 0; t < e->nthr; t++) {
		int nops = e->focus ? 1 + (int) vp_rand_n(r, 3) : 1 + (int) vp_rand_n(r, MAX_OPS_THR);
		e->start_off[t] = vp_rand_n(r, 3) ? vp_rand_n(r, 1500) : 0;
		if (race)
			e->start_off[t] = 0;
		e->nplan[t] = 0;
		for (int i = 0; i < nops; i++) {
			struct plan_op *p = &e->plan[t][e->nplan[t]];
			int x = (int) vp_rand_n(r, (uint32_t) wsum), op = 0;
			while (x >= wt[op]) {
				x -= wt[op];
				op++;
			}
			memset(p, 0, sizeof(*p));
			p->x = (uint8_t) op;
			p->kidx = e->focus ? 0 : (uint8_t) vp_rand_n(r, (uint32_t) e->nk);
			p->gap = vp_rand_n(r, 100) < 30 ? (uint16_t) vp_rand_n(r, 900) : 0;
			p->find_walk = vp_rand_n(r, 3) == 0;
			p->pick = (uint8_t) vp_rand_n(r, 4);
			if (race && i == 0) {
				static const uint8_t mixed[] = { X_DEL, X_REPLACE, X_ADDR };
				p->x = race_op >= 0 ? (uint8_t) race_op : mixed[vp_rand_n(r, 3)];
				op = p->x;
				p->kidx = 0;
				p->gap = 0;
				p->find_walk = 0;
				p->sync = 1;
				p->jitter = vp_rand_n(r, 2) ? (uint16_t) vp_rand_n(r, 160) : 0;
			}
			if (op == X_ADD || op == X_ADDU || op == X_ADDR || op == X_REPLACE) {
				if (e->nn >= EPN - 2) {
					p->x = X_LOOKUP;
				} else
					p->new_lid = plan_node(e, p->kidx);
			}
			e->nplan[t]++;
		}
	}
	for (int t = e->nthr; t < MAXW; t++)
		e->nplan[t] = 0;

	/* reader */
	{
		int nt = 1 + (int) vp_rand_n(r, MAXTRAV), nl = (int) vp_rand_n(r, MAXRLOOK + 1);
		e->r_n = 0;
		e->r_off = vp_rand_n(r, 2) ? vp_rand_n(r, 2500) : 0;
		while (nt || nl) {
			int trav = nt && (!nl || vp_rand_n(r, (uint32_t) (nt + nl)) < (uint32_t) nt);
			e->r_act[e->r_n] = trav ? 0 : 1;
			e->r_gap[e->r_n] = vp_rand_n(r, 3) ? 0 : (uint16_t) vp_rand_n(r, 1200);
			e->r_n++;
			if (trav)
				nt--;
			else
				nl--;
		}
	}
	e->size_before = ht_size(ht);
	e->rzcount_before = VP_LOAD(rz.count);
}

/* ------------------------------------------------------------------ after the episode (controller) */

static void finalize_episode(struct wthr *w, struct episode *e)
{
	struct cds_lfht *ht = cur_ht();
	struct trav t;

	(void) w;
	e->size_after = ht_size(ht);
	e->rzcount_after = VP_LOAD(rz.count);
	chaos_set(0);

	/* content at quiescence: full traversal, then per key lookup + next_duplicate must agree */
	do_traversal(e, &t, "quiescent");
	quiescent_checks++;
	e->final_call = t.call;
	e->final_ret = t.ret;
	memset(e->final_mask, 0, sizeof(e->final_mask));
	if (t.dupmask) {
		viol("lfht:traverse:node-seen-twice", "episode %llu: quiescent first/next traversal visited hot node(s) mask 0x%llx twice",
		     (unsigned long long) e->number, (unsigned long long) t.dupmask);
		e->broken = 1;
	}
	for (int lid = 1; lid <= e->nn; lid++)
		if (t.hotmask & (1ULL << lid))
			e->final_mask[e->nodes[lid].kidx] |= 1ULL << lid;
	for (int k = 0; k < e->nk && !e->broken; k++) {
		struct cds_lfht_iter it;
		uint64_t m = 0;
		int steps = 0;
		rcu_read_lock();
		cds_lfht_lookup(ht, e->keyhash[k], match_fn, &e->keyval[k], &it);
		while (cds_lfht_iter_get_node(&it) && ++steps < WALK_STEP_LIMIT) {
			uint8_t lid = decode_node(e, cds_lfht_iter_get_node(&it), k, "quiescent lookup+next_duplicate");
			if (lid == LID_BAD)
				break;
			if (m & (1ULL << lid)) {
				viol("lfht:walk:node-returned-twice", "episode %llu: quiescent lookup+next_duplicate walk for key k%d returned node n%u twice",
				     (unsigned long long) e->number, k, lid);
				e->broken = 1;
				break;
			}
			m |= 1ULL << lid;
			cds_lfht_next_duplicate(ht, match_fn, &e->keyval[k], &it);
		}
		rcu_read_unlock();
		if (!e->broken && m != e->final_mask[k]) {
			viol("lfht:quiescent-walk-differs-from-traversal",
			     "episode %llu: with no operation in flight, lookup+next_duplicate for key k%d (hash 0x%lx) returned node set 0x%llx but first/next traversal visited 0x%llx",
			     (unsigned long long) e->number, k, e->keyhash[k], (unsigned long long) m, (unsigned long long) e->final_mask[k]);
			e->broken = 1;
		}
	}

	/* remove what is left (through a lookup of its own, as the API demands) */
	for (int lid = 1; lid <= e->nn; lid++) {
		struct hnode *h = e->nodes[lid].p;
		if (!(t.hotmask & (1ULL << lid)))
			continue;
		rcu_read_lock();
		int ret = cds_lfht_del(ht, &h->n);
		rcu_read_unlock();
		if (ret) {
			viol("lfht:quiescent-del-failed", "episode %llu: cds_lfht_del of node n%d (key k%d), visited by the quiescent traversal, returned %d",
			     (unsigned long long) e->number, lid, e->nodes[lid].kidx, ret);
			e->broken = 1;
		}
	}

	/*
	 * Memory: nodes that some operation published wait for a grace period; nodes that were never
	 * inserted according to the results (add_unique found another node, replace failed) may be
	 * released at once, as the header says.  If the library linked them nevertheless, the next
	 * traversal finds a poisoned / freed node.
	 */
	{
		uint64_t published = 0;
		for (int lid = 1; lid <= e->nn; lid++)
			if (e->nodes[lid].prefilled)
				published |= 1ULL << lid;
		for (int th = 0; th < e->nthr; th++)
			for (int i = 0; i < e->nrec[th]; i++) {
				const struct rec *r = &e->recs[th][i];
				if (r->kind == K_ADD || r->kind == K_ADDR || (r->kind == K_ADDU && r->r == r->a) ||
				    (r->kind == K_REPL && r->rc == 0))
					published |= 1ULL << r->a;
			}
		published |= t.hotmask;
		for (int lid = 1; lid <= e->nn; lid++) {
			if (published & (1ULL << lid))
				pend_push(&ctl_pend, e->nodes[lid].p);
			else {
				node_reclaim(e->nodes[lid].p);
				n_freed_unpublished++;
			}
			e->nodes[lid].p = NULL;
		}
	}
}

/* ------------------------------------------------------------------ checking one episode (any worker) */

struct ndisp {
	uint64_t ins_call, ins_ret;	/* interval of the operation that inserted the node */
	uint64_t rem_call, rem_ret;	/* interval of the operation that removed it */
	int inserted, removed, claims;
	int ins_thr, rem_thr;
};

struct keyhist {
	int n;
	struct lin_op ops[LIN_MAX_OPS];
	const struct rec *src[LIN_MAX_OPS];
};

/* o->a new lid, o->b old lid (or FINAL mask), o->r node result, o->r2 return code (as uint64); s0 = present set */
static int m_apply(struct plin_state *st, const struct lin_op *o)
{
	uint64_t *s = &st->s0, bn = 1ULL << (o->a & 63), bo = 1ULL << (o->b & 63), br = 1ULL << (o->r & 63);

	switch (o->kind) {
	case K_ADD:
		*s |= bn;
		return 1;
	case K_ADDU:
		if (o->r == o->a) {
			if (*s)
				return 0;
			*s |= bn;
			return 1;
		}
		return (*s & br) != 0;
	case K_ADDR:
		if (o->r == 0) {
			if (*s)
				return 0;
			*s |= bn;
			return 1;
		}
		if (!(*s & br))
			return 0;
		*s = (*s & ~br) | bn;
		return 1;
	case K_REPL:
		if (o->r2 == 0) {
			if (!(*s & bo))
				return 0;
			*s = (*s & ~bo) | bn;
			return 1;
		}
		return !(*s & bo);
	case K_DEL:
		if (o->r2 == 0) {
			if (!(*s & bo))
				return 0;
			*s &= ~bo;
			return 1;
		}
		return !(*s & bo);
	case K_LOOK:
	case K_WALK:
		if (o->r == 0)
			return *s == 0;
		return (*s & br) != 0;
	case K_FINAL:
		return *s == o->b;
	}
	return 0;
}

static void m_print(FILE *f, const struct lin_op *o, void *ctx)
{
	const struct rec *const *src = ctx;
	(void) src;
	switch (o->kind) {
	case K_ADD:
		fprintf(f, "add(n%llu)", (unsigned long long) o->a);
		break;
	case K_ADDU:
		fprintf(f, "add_unique(n%llu) -> n%llu%s", (unsigned long long) o->a, (unsigned long long) o->r, o->r == o->a ? " (inserted)" : " (found)");
		break;
	case K_ADDR:
		if (o->r)
			fprintf(f, "add_replace(n%llu) -> n%llu (replaced)", (unsigned long long) o->a, (unsigned long long) o->r);
		else
			fprintf(f, "add_replace(n%llu) -> NULL (inserted)", (unsigned long long) o->a);
		break;
	case K_REPL:
		fprintf(f, "replace(old=n%llu, new=n%llu) -> %lld", (unsigned long long) o->b, (unsigned long long) o->a, (long long) (int64_t) o->r2);
		break;
	case K_DEL:
		fprintf(f, "del(n%llu) -> %lld", (unsigned long long) o->b, (long long) (int64_t) o->r2);
		break;
	case K_LOOK:
		if (o->r)
			fprintf(f, "lookup -> n%llu", (unsigned long long) o->r);
		else
			fprintf(f, "lookup -> NULL");
		break;
	case K_WALK:
		if (o->r)
			fprintf(f, "lookup (first step of a duplicate walk) -> n%llu", (unsigned long long) o->r);
		else
			fprintf(f, "lookup (first step of a duplicate walk) -> NULL");
		break;
	case K_FINAL:
		fprintf(f, "content at quiescence = {");
		for (int i = 1; i < 64; i++)
			if (o->b & (1ULL << i))
				fprintf(f, " n%d", i);
		fprintf(f, " }");
		break;
	}
}

/* only for lin_dump() */
static const struct lin_model ht_model = {
	.name = "multiset-of-node-ids-for-one-key",
	.print_op = m_print,
};

/*
 * Relaxed model used only to CLASSIFY a history the strict model rejects (see the finding on
 * add_unique / add_replace versus plain add of the same key): nodes carry a lineage - "head" (inserted
 * by a successful add_unique, by add_replace returning NULL, or replacing a head node) or "tail"
 * (inserted by plain add, or replacing a tail node).  A successful add_unique / add_replace-NULL then
 * only requires that no HEAD-lineage node is present.
 */
static int r_apply(struct plin_state *st, const struct lin_op *o)
{
	uint64_t *present = &st->s0, *head = &st->s1;
	uint64_t bn = 1ULL << (o->a & 63), bo = 1ULL << (o->b & 63), br = 1ULL << (o->r & 63);

	switch (o->kind) {
	case K_ADDU:
		if (o->r == o->a) {
			if (*present & *head)
				return 0;
			*present |= bn;
			*head |= bn;
			return 1;
		}
		return (*present & br) != 0;
	case K_ADDR:
		if (o->r == 0) {
			if (*present & *head)
				return 0;
			*present |= bn;
			*head |= bn;
			return 1;
		}
		if (!(*present & br))
			return 0;
		*present = (*present & ~br) | bn;
		if (*head & br)
			*head |= bn;
		return 1;
	case K_REPL:
		if (o->r2 == 0) {
			if (!(*present & bo))
				return 0;
			*present = (*present & ~bo) | bn;
			if (*head & bo)
				*head |= bn;
			return 1;
		}
		return !(*present & bo);
	default:
		/* everything else exactly as in the strict model (s1 untouched) */
		return m_apply(st, o);
	}
}

/* model starts from the prefilled nodes: expressed as add operations that precede everything */
static void build_keyhist(const struct episode *e, int k, struct keyhist *kh)
{
	uint64_t first = UINT64_MAX;

	for (int th = 0; th < e->nthr; th++)
		if (e->nrec[th] && e->recs[th][0].call < first)
			first = e->recs[th][0].call;
	if (first == UINT64_MAX || first < 4)
		first = e->final_call;
	kh->n = 0;
	for (int lid = 1; lid <= e->nn; lid++) {
		if (!e->nodes[lid].prefilled || e->nodes[lid].kidx != k)
			continue;
		struct lin_op *o = &kh->ops[kh->n];
		memset(o, 0, sizeof(*o));
		o->thread = PLIN_T_INIT;
		o->kind = K_ADD;
		o->a = (uint64_t) lid;
		o->call = first - 2;	/* before the start barrier (PLIN_T_INIT precedes everything) */
		o->ret = first - 1;
		kh->src[kh->n++] = NULL;
	}
	for (int th = 0; th < e->nthr; th++)
		for (int i = 0; i < e->nrec[th]; i++) {
			const struct rec *r = &e->recs[th][i];
			if (r->kidx != k || kh->n >= LIN_MAX_OPS - 1)
				continue;
			if ((r->kind == K_REPL || r->kind == K_DEL) && r->b == 0)
				continue;	/* NULL node: judged directly */
			struct lin_op *o = &kh->ops[kh->n];
			memset(o, 0, sizeof(*o));
			o->thread = th;
			o->kind = r->kind;
			o->a = r->a;
			o->b = r->b;
			o->r = r->r;
			o->r2 = (uint64_t) (int64_t) r->rc;
			o->call = r->call;
			o->ret = r->kind == K_WALK ? r->ret1 : r->ret;
			kh->src[kh->n++] = r;
		}
	struct lin_op *o = &kh->ops[kh->n];
	memset(o, 0, sizeof(*o));
	o->thread = PLIN_T_FINAL;
	o->kind = K_FINAL;
	o->b = e->final_mask[k];
	o->call = e->final_call;
	o->ret = e->final_ret;
	kh->src[kh->n++] = NULL;
	/* order of likely effect: by return stamp (stable insertion sort) */
	for (int i = 1; i < kh->n; i++) {
		struct lin_op t = kh->ops[i];
		const struct rec *s = kh->src[i];
		int j = i - 1;
		while (j >= 0 && kh->ops[j].ret > t.ret) {
			kh->ops[j + 1] = kh->ops[j];
			kh->src[j + 1] = kh->src[j];
			j--;
		}
		kh->ops[j + 1] = t;
		kh->src[j + 1] = s;
	}
}

static int rec_class(const struct rec *r)
{
	switch (r->kind) {
	case K_ADD: return C_ADD;
	case K_ADDU: return r->r == r->a ? C_ADDU_INS : C_ADDU_FOUND;
	case K_ADDR: return r->r ? C_ADDR_REPL : C_ADDR_INS;
	case K_REPL: return r->rc == 0 ? C_REPL_OK : C_REPL_ENOENT;
	case K_DEL: return r->rc == 0 ? C_DEL_OK : C_DEL_ENOENT;
	case K_LOOK: return r->r ? C_LOOK_HIT : C_LOOK_NULL;
	default: return C_WALK;
	}
}

static int class_is_update(int c)
{
	return c == C_ADD || c == C_ADDU_INS || c == C_ADDR_INS || c == C_ADDR_REPL || c == C_REPL_OK || c == C_DEL_OK;
}

static void dump_episode(FILE *f, const struct episode *e, int only_key)
{
	uint64_t t0 = UINT64_MAX;

	for (int th = 0; th < e->nthr; th++)
		for (int i = 0; i < e->nrec[th]; i++)
			if (e->recs[th][i].call < t0)
				t0 = e->recs[th][i].call;
	fprintf(f, "episode %llu table={%s} threads=%d keys=%d focus=%d chaos=%d residents=%d size %lu->%lu explicit-resizes-during=%llu eps=%llu\n",
		(unsigned long long) e->number, e->ctx, e->nthr, e->nk, e->focus, e->chaos, e->nres, e->size_before, e->size_after,
		(unsigned long long) (e->rzcount_after - e->rzcount_before), (unsigned long long) vp_eps);
	for (int k = 0; k < e->nk; k++) {
		if (only_key >= 0 && k != only_key)
			continue;
		fprintf(f, " key k%d hash=0x%lx prefilled={", k, e->keyhash[k]);
		for (int lid = 1; lid <= e->nn; lid++)
			if (e->nodes[lid].prefilled && e->nodes[lid].kidx == k)
				fprintf(f, " n%d", lid);
		fprintf(f, " } at-quiescence={");
		for (int lid = 1; lid <= e->nn; lid++)
			if (e->final_mask[k] & (1ULL << lid))
				fprintf(f, " n%d", lid);
		fprintf(f, " }\n");
	}
	for (int th = 0; th < e->nthr; th++)
		for (int i = 0; i < e->nrec[th]; i++) {
			const struct rec *r = &e->recs[th][i];
			if (only_key >= 0 && r->kidx != only_key)
				continue;
			fprintf(f, "  T%d [%7llu,%7llu] k%d %s", th, (unsigned long long) (r->call - t0), (unsigned long long) (r->ret - t0), r->kidx, k_names[r->kind]);
			switch (r->kind) {
			case K_ADD: fprintf(f, "(n%d)", r->a); break;
			case K_ADDU: case K_ADDR: fprintf(f, "(n%d) -> n%d", r->a, r->r); break;
			case K_REPL: fprintf(f, "(old=n%d,new=n%d) -> %d", r->b, r->a, r->rc); break;
			case K_DEL: fprintf(f, "(n%d) -> %d", r->b, r->rc); break;
			case K_LOOK: fprintf(f, " -> n%d", r->r); break;
			case K_WALK:
				fprintf(f, " -> {");
				for (int j = 0; j < r->nset; j++)
					fprintf(f, " n%d", r->set[j]);
				fprintf(f, " } (lookup part returned at %llu)", (unsigned long long) (r->ret1 - t0));
				break;
			}
			if (r->during)
				fprintf(f, " [during explicit %s]", r->during == 1 ? "grow" : "shrink");
			fputc('\n', f);
		}
	for (int i = 0; i < e->ntrav; i++) {
		const struct trav *t = &e->trav[i];
		fprintf(f, "  R  [%7lld,%7lld] first/next traversal -> hot {", (long long) (t->call - t0), (long long) (t->ret - t0));
		for (int lid = 1; lid <= e->nn; lid++)
			if (t->hotmask & (1ULL << lid))
				fprintf(f, " n%d(k%d)", lid, e->nodes[lid].kidx);
		fprintf(f, " } + %u residents\n", t->nres);
	}
	fprintf(f, "  (n0 = NULL; times in cycles relative to the first call)\n");
}

static void episode_to_string(const struct episode *e, int only_key, char *buf, size_t len)
{
	FILE *f = fmemopen(buf, len, "w");
	if (!f) {
		buf[0] = 0;
		return;
	}
	dump_episode(f, e, only_key);
	fclose(f);
	buf[len - 1] = 0;
	for (char *c = buf; *c; c++)
		if (*c == '\n')
			*c = ';';
}

static void ep_violation(const struct episode *e, int key_idx, const char *key, const char *fmt, ...) __attribute__((format(printf, 4, 5)));
static void ep_violation(const struct episode *e, int key_idx, const char *key, const char *fmt, ...)
{
	char what[500], path[400] = "", hist[1400];
	va_list ap;
	FILE *f;

	va_start(ap, fmt);
	vsnprintf(what, sizeof(what), fmt, ap);
	va_end(ap);
	f = vp_witness_open("lfht-episode", path, sizeof(path));
	if (f) {
		fprintf(f, "%s\n%s\n", key, what);
		dump_episode(f, e, -1);
		fclose(f);
	}
	episode_to_string(e, key_idx, hist, sizeof(hist));
	vp_violation(key, "cfg=%s flavor=%s %s witness=%s history: %s", cfgname, VP_FLAVOR_NAME, what, path, hist);
}

static void check_episode(struct wthr *w, struct episode *e)
{
	struct ndisp nd[EPN];
	struct keyhist kh;
	uint64_t eps_m = vp_eps;
	int resized = e->rzcount_after != e->rzcount_before, size_changed = e->size_before != e->size_after;
	int nontrivial = 0;

	w->checked++;
	if (resized)
		w->resized_eps++;
	if (size_changed)
		w->size_changed_eps++;
	if (e->broken)
		return;		/* already reported */

	/* ---- node dispositions */
	memset(nd, 0, sizeof(nd));
	for (int lid = 1; lid <= e->nn; lid++) {
		nd[lid].ins_thr = nd[lid].rem_thr = -1;
		if (e->nodes[lid].prefilled) {
			nd[lid].inserted = 1;
			nd[lid].ins_call = 0;
			nd[lid].ins_ret = 0;
		}
	}
	for (int th = 0; th < e->nthr; th++)
		for (int i = 0; i < e->nrec[th]; i++) {
			const struct rec *r = &e->recs[th][i];
			int c = rec_class(r);
			int ins = 0, rem = 0;
			w->ops_by_class[c]++;
			if (r->during == 1)
				w->during_grow++;
			else if (r->during == 2)
				w->during_shrink++;
			switch (r->kind) {
			case K_ADD:
				ins = r->a;
				break;
			case K_ADDU:
				if (r->r == r->a)
					ins = r->a;
				break;
			case K_ADDR:
				ins = r->a;
				rem = r->r;
				break;
			case K_REPL:
				if (r->b == 0) {
					if (r->rc != -ENOENT) {
						ep_violation(e, r->kidx, "lfht:replace:null-node-wrong-return", "cds_lfht_replace with the iterator of a failed lookup (NULL node) returned %d, documented -ENOENT", r->rc);
						return;
					}
				} else if (r->rc == 0) {
					ins = r->a;
					rem = r->b;
				} else if (r->rc != -ENOENT) {
					ep_violation(e, r->kidx, "lfht:replace:wrong-return-code", "cds_lfht_replace (same key, same hash) returned %d: only 0 and -ENOENT (%d) are documented", r->rc, -ENOENT);
					return;
				}
				break;
			case K_DEL:
				if (r->b == 0) {
					if (r->rc >= 0) {
						ep_violation(e, r->kidx, "lfht:del:null-node-accepted", "cds_lfht_del(NULL) returned %d, documented negative", r->rc);
						return;
					}
				} else if (r->rc == 0)
					rem = r->b;
				else if (r->rc != -ENOENT) {
					ep_violation(e, r->kidx, "lfht:del:wrong-return-code", "cds_lfht_del returned %d: only 0 and -ENOENT (%d) are expected", r->rc, -ENOENT);
					return;
				}
				break;
			}
			if (ins) {
				nd[ins].inserted = 1;
				nd[ins].ins_call = r->call;
				nd[ins].ins_ret = r->ret;
				nd[ins].ins_thr = th;
			}
			if (rem) {
				nd[rem].claims++;
				if (nd[rem].claims > 1) {
					ep_violation(e, r->kidx, "lfht:node-handed-to-two-callers",
						     "node n%d was obtained by two operations (T%d and T%d): del returning 0 / successful replace / add_replace returning it must happen once per node",
						     rem, nd[rem].rem_thr, th);
					return;
				}
				nd[rem].removed = 1;
				nd[rem].rem_call = r->call;
				nd[rem].rem_ret = r->ret;
				nd[rem].rem_thr = th;
			}
		}

	/* ---- linearizability per key */
	for (int k = 0; k < e->nk; k++) {
		struct { int verdict; uint64_t nodes; int max_concurrency; } res;
		build_keyhist(e, k, &kh);
		memset(&res, 0, sizeof(res));
		res.verdict = plin_check(m_apply, kh.ops, kh.n, eps_m ? eps_m : (1ULL << 40), &res.nodes, &res.max_concurrency);
		w->keys_checked++;
		w->lin_nodes += res.nodes;
		if (res.nodes > w->max_lin_nodes)
			w->max_lin_nodes = res.nodes;
		if ((uint64_t) res.max_concurrency > w->max_conc)
			w->max_conc = (uint64_t) res.max_concurrency;
		if (res.verdict == LIN_INCONCLUSIVE) {
			w->inconclusive++;
			vp_inconclusive("linearizability search exceeded its budget of 65536 states on some per-key histories (counted in lin_inconclusive)");
		} else if (res.verdict == LIN_VIOLATION) {
			char path[400] = "", hist[1500];
			int mixed = 0, known_anomaly = 0;
			/* classification: plain add and add_unique / add_replace mixed on this key? */
			for (int i = 0; i < kh.n; i++)
				if (kh.ops[i].kind == K_ADD)
					mixed = 1;
			if (mixed && !e->unique) {
				known_anomaly = plin_check(r_apply, kh.ops, kh.n, eps_m ? eps_m : (1ULL << 40), NULL, NULL) == LIN_OK;
			}
			FILE *f = vp_witness_open("lfht-lin", path, sizeof(path));
			if (f) {
				fprintf(f, "NOT LINEARIZABLE: operations on key k%d (hash 0x%lx) against the multiset-of-node-ids model; search nodes %llu\n",
					k, e->keyhash[k], (unsigned long long) res.nodes);
				lin_dump(f, &ht_model, kh.src, kh.ops, kh.n);
				fprintf(f, "\nwhole episode:\n");
				dump_episode(f, e, -1);
				fclose(f);
			}
			episode_to_string(e, k, hist, sizeof(hist));
			if (known_anomaly) {
				w->anomaly_addu_vs_add++;
				__atomic_fetch_add(&soft_violations, 1, __ATOMIC_RELAXED);	/* reported, but the run goes on */
				vp_violation("lfht:not-linearizable:add_unique-vs-plain-add-same-key",
					     "cfg=%s flavor=%s no linearization of the operations on key k%d against the multiset model: add_unique / add_replace inserted (returned its own node / NULL) although the key was present at every instant it could have taken effect; the present instances were inserted with plain cds_lfht_add (tail of the equal-hash run), which the insertion cmpxchg at the head of the run does not cover (history IS accepted when add_unique only has to exclude nodes inserted by add_unique / add_replace); witness=%s history: %s",
					     cfgname, VP_FLAVOR_NAME, k, path, hist);
				continue;
			}
			vp_violation(e->unique ? "lfht:not-linearizable:unique-discipline" : "lfht:not-linearizable",
				     "cfg=%s flavor=%s no linearization of the operations on key k%d against the multiset model; witness=%s history: %s",
				     cfgname, VP_FLAVOR_NAME, k, path, hist);
			return;
		}

		/* evidence: overlapping pairs on this key with at least one update */
		{
			unsigned char seen[C_NR][C_NR];
			int any = 0;
			memset(seen, 0, sizeof(seen));
			for (int i = 0; i < kh.n; i++)
				for (int j = i + 1; j < kh.n; j++) {
					const struct rec *a = kh.src[i], *b = kh.src[j];
					if (!a || !b)
						continue;
					if (!(a->call < b->ret && b->call < a->ret))
						continue;
					int ca = rec_class(a), cb = rec_class(b);
					if (!class_is_update(ca) && !class_is_update(cb))
						continue;
					if (ca > cb) {
						int t = ca;
						ca = cb;
						cb = t;
					}
					seen[ca][cb] = 1;
					any = 1;
				}
			if (any) {
				char sig[120];
				const char *cb = res.max_concurrency <= 2 ? "<=2" : res.max_concurrency <= 4 ? "3-4" : "5+";
				nontrivial = 1;
				/* one signature per overlapping (operation,result) class pair: bounded by construction */
				for (int a = 0; a < C_NR; a++)
					for (int b = a; b < C_NR; b++)
						if (seen[a][b]) {
							snprintf(sig, sizeof(sig), "ep:%s:%s:conc=%s:%s|%s", e->unique ? "uniq" : "any",
								 resized ? "explicit-resize" : size_changed ? "size-changed" : "stable", cb,
								 c_names[a], c_names[b]);
							sig_add_bounded(sig);
						}
			}
		}
	}

	/* ---- unique-key discipline: never two nodes with one key in one walk / traversal */
	if (e->unique) {
		for (int th = 0; th < e->nthr; th++)
			for (int i = 0; i < e->nrec[th]; i++) {
				const struct rec *r = &e->recs[th][i];
				if (r->kind == K_WALK && r->nset > 1) {
					ep_violation(e, r->kidx, "lfht:unique:two-nodes-same-key-in-one-walk",
						     "key k%d is only ever inserted with add_unique / add_replace / replace, yet one lookup+next_duplicate walk (T%d) returned %d nodes (n%d, n%d)",
						     r->kidx, th, r->nset, r->set[0], r->set[1]);
					return;
				}
			}
		for (int i = 0; i < e->ntrav; i++)
			for (int k = 0; k < e->nk; k++) {
				uint64_t m = 0;
				for (int lid = 1; lid <= e->nn; lid++)
					if (e->nodes[lid].kidx == k && (e->trav[i].hotmask & (1ULL << lid)))
						m |= 1ULL << lid;
				if (m & (m - 1)) {
					ep_violation(e, k, "lfht:unique:two-nodes-same-key-in-one-traversal",
						     "key k%d is only ever inserted with add_unique / add_replace / replace, yet one first/next traversal visited several nodes with it (mask 0x%llx)",
						     k, (unsigned long long) m);
					return;
				}
			}
	}

	/* ---- interval oracles: duplicate walks and traversals against presence intervals */
	if (!eps_m) {
		vp_inconclusive("tsc-calibration-failed: walk / traversal interval oracles skipped, value oracles decided");
	} else {
/* margin: none between operations of one thread (program order, same clock), eps otherwise */
#define MARG(t1, t2) ((t1) == (t2) ? 0 : eps_m)
#define PRESENT_WHOLE(x, a, b, t) (nd[x].inserted && nd[x].ins_ret + MARG(nd[x].ins_thr, t) < (a) && \
				   (!nd[x].removed || nd[x].rem_call > (b) + MARG(nd[x].rem_thr, t)))
#define ABSENT_WHOLE(x, a, b, t) (!nd[x].inserted || nd[x].ins_call > (b) + MARG(nd[x].ins_thr, t) || \
				  (nd[x].removed && nd[x].rem_ret + MARG(nd[x].rem_thr, t) < (a)))
		for (int th = 0; th < e->nthr; th++)
			for (int i = 0; i < e->nrec[th]; i++) {
				const struct rec *r = &e->recs[th][i];
				uint64_t got = 0;
				if (r->kind != K_WALK)
					continue;
				w->walks_checked++;
				w->walk_nodes += r->nset;
				for (int j = 0; j < r->nset; j++) {
					int x = r->set[j];
					if (got & (1ULL << x)) {
						ep_violation(e, r->kidx, "lfht:walk:node-returned-twice", "lookup+next_duplicate walk of T%d for key k%d returned node n%d twice", th, r->kidx, x);
						return;
					}
					got |= 1ULL << x;
					if (ABSENT_WHOLE(x, r->call, r->ret, th)) {
						ep_violation(e, r->kidx, "lfht:walk:returned-absent-node",
							     "lookup+next_duplicate walk of T%d for key k%d returned node n%d which was not in the table at any time of the walk (%s)",
							     th, r->kidx, x, !nd[x].inserted ? "never inserted" : nd[x].removed && nd[x].rem_ret <= r->call ? "its removal had returned before the walk began" : "its insertion was called after the walk had returned");
						return;
					}
				}
				if (r->overflow)
					continue;
				for (int x = 1; x <= e->nn; x++)
					if (e->nodes[x].kidx == r->kidx && !(got & (1ULL << x)) && PRESENT_WHOLE(x, r->call, r->ret, th)) {
						ep_violation(e, r->kidx, "lfht:walk:missed-resident-node",
							     "lookup+next_duplicate walk of T%d for key k%d did not return node n%d, which was in the table during the whole walk (inserted before it began, not removed until after it returned)",
							     th, r->kidx, x);
						return;
					}
			}
		for (int i = 0; i < e->ntrav; i++) {
			const struct trav *t = &e->trav[i];
			w->travs_checked++;
			if (t->dupmask) {
				ep_violation(e, -1, "lfht:traverse:node-seen-twice", "one first/next traversal visited hot node(s) mask 0x%llx twice", (unsigned long long) t->dupmask);
				return;
			}
			for (int x = 1; x <= e->nn; x++) {
				int seen = (t->hotmask >> x) & 1;
				if (seen && ABSENT_WHOLE(x, t->call, t->ret, 100)) {
					ep_violation(e, e->nodes[x].kidx, "lfht:traverse:visited-absent-node",
						     "first/next traversal #%d visited node n%d (key k%d) which was not in the table at any time of the traversal (%s)",
						     i, x, e->nodes[x].kidx, !nd[x].inserted ? "never inserted" : nd[x].removed && nd[x].rem_ret <= t->call ? "its removal had returned before the traversal began" : "its insertion was called after the traversal had returned");
					return;
				}
				if (!seen && PRESENT_WHOLE(x, t->call, t->ret, 100)) {
					ep_violation(e, e->nodes[x].kidx, "lfht:traverse:missed-resident-node",
						     "first/next traversal #%d did not visit node n%d (key k%d), which was in the table during the whole traversal",
						     i, x, e->nodes[x].kidx);
					return;
				}
			}
		}
#undef MARG
#undef PRESENT_WHOLE
#undef ABSENT_WHOLE
	}

	if (nontrivial) {
		w->nontrivial++;
		if (w->samples < 2 && (e->number & 15) == 3) {
			int total = 0;
			for (int th = 0; th < e->nthr; th++)
				total += e->nrec[th];
			if (total <= 12) {
				char buf[1900];
				w->samples++;
				episode_to_string(e, -1, buf, sizeof(buf));
				pthread_mutex_lock(&sample_lock);
				vp_sample_add("%s", buf);
				pthread_mutex_unlock(&sample_lock);
			}
		}
	}
}

/* ------------------------------------------------------------------ threads */

static int ep_done(void)
{
	return (long) ep_counter >= opt_episodes || (double) (vp_now_ns() - t_start_ns) / 1e9 >= opt_seconds ||
	       vp_nviolations() > (int) __atomic_load_n(&soft_violations, __ATOMIC_RELAXED);
}

static void *ep_worker_main(void *arg)
{
	struct wthr *w = arg;
	int me = w->idx;
	struct vp_thr *vt;

	vp_pin(me);
	vt = vp_self();
	rcu_register_thread();
	for (;;) {
		if (me == 0) {
			for (int s = 0; s < nworkers; s++) {
				ep_check_phase = 0;
				cur_ep = &eps[s];
				plan_episode(w, cur_ep);
				ep_bar_wait();			/* A */
				run_worker_ops(w);
				ep_bar_wait();			/* B */
				finalize_episode(w, cur_ep);
				ep_nslots = s + 1;
				if (ep_done())
					break;
			}
			ep_check_phase = 1;
			ep_bar_wait();				/* A */
			vp_rcu_offline();
			check_episode(w, &eps[0]);
			vp_rcu_online();
			ep_bar_wait();				/* B */
			pend_flush(&ctl_pend);
			if (ep_done()) {
				ep_stop = 1;
				ep_bar_wait();
				break;
			}
		} else {
			ep_bar_wait();				/* A */
			if (ep_stop)
				break;
			if (ep_check_phase) {
				if (me < ep_nslots && me < nworkers) {
					vp_rcu_offline();
					check_episode(w, &eps[me]);
					vp_rcu_online();
				}
			} else if (me == nworkers)
				run_reader(w);
			else
				run_worker_ops(w);
			ep_bar_wait();				/* B */
		}
		VP_STORE(vt->progress, vt->progress + 1);
	}
	if (me == 0) {
		/* tear the last generation down */
		if (cur_ht())
			generation_end();
		if (opt_reclaim == 1)
			rcu_barrier();
		pend_account(&ctl_pend);
	}
	rcu_unregister_thread();
	return NULL;
}

static int ep_confirm_stuck(char *buf, size_t len)
{
	for (int i = 0; i <= nworkers; i++) {
		int c = VP_LOAD(wthr[i].cur_op);
		if (c) {
			snprintf(buf, len, "hang:lfht:%s-does-not-return", c <= X_NR ? x_names[c - 1] : "traversal-or-lookup");
			return 1;
		}
	}
	if (resizer_confirm_stuck(buf, len))
		return 1;
	snprintf(buf, len, "hang:lfht-episodes:unconfirmed (no worker inside an operation)");
	return 0;
}

static int run_episodes(void)
{
	nworkers = (int) vp_arg_long("workers", 3);
	if (nworkers > MAXW)
		nworkers = MAXW;
	if (nworkers < 2)
		nworkers = 2;
	opt_episodes = vp_arg_long("episodes", 20000);
	opt_gen_len = vp_arg_long("gen-len", opt_resize == RZ_ACCT ? 500 : opt_resize == RZ_AUTO ? 250 : 400);
	opt_seconds = vp_arg_double("seconds", 1e9);
	t_start_ns = vp_now_ns();
	vp_lib_thread_slot_base(opt_resize == RZ_EXPLICIT ? nworkers + 2 : nworkers + 1);
	vp_barrier_init(&ep_bar, nworkers + 1);
	for (int i = 0; i <= nworkers; i++) {
		wthr[i].idx = i;
		vp_rng_init(&wthr[i].rng, vp_opt.seed, 0xc05, (uint64_t) i);
	}
	rz.pause = 1;
	resizer_start(nworkers + 1);
	vp_watchdog_start((uint64_t) opt_stall_ms, ep_confirm_stuck);
	for (int i = nworkers; i >= 0; i--)
		pthread_create(&wthr[i].tid, NULL, ep_worker_main, &wthr[i]);
	for (int i = 0; i <= nworkers; i++)
		pthread_join(wthr[i].tid, NULL);
	resizer_stop();
	vp_watchdog_stop();
#if !(VP_ASAN || VP_TSAN)
	vp_quar_drain(&quar);
#endif

	uint64_t checked = 0, nt = 0, inc = 0, nodes = 0, maxn = 0, conc = 0, walks = 0, travs = 0, dg = 0, ds = 0, szc = 0, rze = 0, keys = 0, wn = 0;
	uint64_t byc[C_NR] = { 0 };
	for (int i = 0; i < nworkers; i++) {
		struct wthr *w = &wthr[i];
		checked += w->checked; nt += w->nontrivial; inc += w->inconclusive; nodes += w->lin_nodes;
		walks += w->walks_checked; travs += w->travs_checked; dg += w->during_grow; ds += w->during_shrink;
		szc += w->size_changed_eps; rze += w->resized_eps; keys += w->keys_checked; wn += w->walk_nodes;
		if (w->max_lin_nodes > maxn)
			maxn = w->max_lin_nodes;
		if (w->max_conc > conc)
			conc = w->max_conc;
		for (int c = 0; c < C_NR; c++)
			byc[c] += w->ops_by_class[c];
	}
	if (!vp_eps)
		vp_inconclusive("tsc-calibration-failed: histories were checked with all operations treated as concurrent");
	vp_counter_add("evaluations", checked);
	vp_counter_add("nontrivial", nt);
	vp_counter_add("episodes", checked);
	vp_counter_add("per_key_histories_checked", keys);
	vp_counter_add("lin_inconclusive", inc);
	{
		uint64_t an = 0, lo = 0;
		for (int i = 0; i < nworkers; i++) {
			an += wthr[i].anomaly_addu_vs_add;
			lo += wthr[i].del_lost_owner;
		}
		vp_counter_add("anomaly_add_unique_vs_plain_add", an);
		vp_counter_add("marker_del_lost_owner_after_flagging", lo);
	}
	vp_counter_add("lin_search_nodes", nodes);
	vp_counter_set("lin_max_search_nodes", maxn);
	vp_counter_set("lin_max_concurrency", conc);
	for (int c = 0; c < C_NR; c++) {
		char name[48];
		snprintf(name, sizeof(name), "op_%s", c_names[c]);
		vp_counter_add(name, byc[c]);
	}
	vp_counter_add("duplicate_walks_checked", walks);
	vp_counter_add("duplicate_walk_nodes", wn);
	vp_counter_add("traversals_interval_checked", travs);
	vp_counter_add("reader_traversals", reader_travs);
	vp_counter_add("reader_resident_nodes_visited", reader_res_nodes);
	vp_counter_add("reader_resident_lookups", reader_rlooks);
	vp_counter_add("quiescent_content_checks", quiescent_checks);
	vp_counter_add("worker_ops_during_explicit_grow", dg);
	vp_counter_add("worker_ops_during_explicit_shrink", ds);
	vp_counter_add("reader_ops_during_explicit_grow", reader_during_grow);
	vp_counter_add("reader_ops_during_explicit_shrink", reader_during_shrink);
	vp_counter_add("reader_ops_table_size_changed", reader_size_changed);
	vp_counter_add("episodes_with_explicit_resize", rze);
	vp_counter_add("episodes_table_size_changed", szc);
	common_counters();
	vp_note("cfg=%s mode=episodes discipline=%s resize=%s workers=%d episodes=%llu nontrivial=%llu lin_inconclusive=%llu eps=%llu",
		cfgname, opt_unique ? "unique" : "any", rz_names[opt_resize], nworkers, (unsigned long long) checked,
		(unsigned long long) nt, (unsigned long long) inc, (unsigned long long) vp_eps);
	return vp_finish();
}


/* ------------------------------------------------------------------ --mode=finding-addu
 * Drives, on purpose, the interleaving behind the known finding "add_unique / add_replace versus plain add
 * of the same key" (see /verif/findings/c05_addu_dup.c): T1 is parked inside its duplicate scan (in the
 * match callback invoked on the LAST node of the equal-hash run, whose next pointer the library has
 * already loaded) while the main thread runs add_unique(n7) -> n7, add(n4), lookup, del(n7) -> 0.  The
 * recorded history goes through the same strict / relaxed model classification as any episode.
 */
static struct hnode *fa_park_node;
static int fa_parked, fa_go;
static __thread int fa_is_t1;
static struct {
	struct cds_lfht *ht;
	struct hnode *node;
	int use_add_replace;
	struct cds_lfht_node *ret;
	uint64_t call, rets;
} fa;

static int fa_match(struct cds_lfht_node *node, const void *key)
{
	struct hnode *h = caa_container_of(node, struct hnode, n);
	if (fa_is_t1 && h == fa_park_node && !__atomic_load_n(&fa_parked, __ATOMIC_ACQUIRE)) {
		__atomic_store_n(&fa_parked, 1, __ATOMIC_RELEASE);
		while (!__atomic_load_n(&fa_go, __ATOMIC_ACQUIRE))
			sched_yield();
	}
	return match_fn(node, key);
}

static void *fa_t1(void *arg)
{
	(void) arg;
	vp_pin(1);
	fa_is_t1 = 1;
	rcu_register_thread();
	rcu_read_lock();
	fa.call = ts_before();
	if (fa.use_add_replace)
		fa.ret = cds_lfht_add_replace(fa.ht, fa.node->hash, fa_match, &fa.node->key, &fa.node->n);
	else
		fa.ret = cds_lfht_add_unique(fa.ht, fa.node->hash, fa_match, &fa.node->key, &fa.node->n);
	fa.rets = ts_after();
	rcu_read_unlock();
	rcu_unregister_thread();
	return NULL;
}

static int run_finding_addu(void)
{
	struct vp_rng r;
	uint64_t evals = 0, reproduced = 0;

	vp_pin(0);
	rcu_register_thread();
	vp_rng_init(&r, vp_opt.seed, 0xfa, 0);
	for (int rep = 0; rep < 8; rep++) {
		struct cds_lfht *ht;
		struct hnode *R1, *n4, *n6, *n7, *all[4];
		struct lin_op ops[8];
		int verdict, verdict2 = LIN_OK;
		struct cds_lfht_iter it;
		struct cds_lfht_node *ret;
		uint64_t keyval, mask = 0;
		unsigned long hash;
		pthread_t t1;
		int n = 0, rc;
		/* T0's operations are spaced by more than the comparison margin, so that it cannot blur their order */
		uint64_t gapc = 3 * (vp_eps ? vp_eps : 3000);

		opt_mm = rep & 3;
		ht = table_new(&r);
		hash = g_fam.h0;
		keyval = new_keyval();
		R1 = node_new(ND_RES, new_keyval(), hash, -1, 0, 0);
		n4 = node_new(ND_HOT, keyval, hash, 0, 4, 1);
		n6 = node_new(ND_HOT, keyval, hash, 0, 6, 1);
		n7 = node_new(ND_HOT, keyval, hash, 0, 7, 1);
		all[0] = R1; all[1] = n4; all[2] = n6; all[3] = n7;
		rcu_read_lock();
		cds_lfht_add(ht, hash, &R1->n);
		rcu_read_unlock();
		fa_park_node = R1;
		__atomic_store_n(&fa_parked, 0, __ATOMIC_SEQ_CST);
		__atomic_store_n(&fa_go, 0, __ATOMIC_SEQ_CST);
		fa.ht = ht;
		fa.node = n6;
		fa.use_add_replace = rep >= 4;
		memset(ops, 0, sizeof(ops));
		pthread_create(&t1, NULL, fa_t1, NULL);
		while (!__atomic_load_n(&fa_parked, __ATOMIC_ACQUIRE))
			sched_yield();
		rcu_read_lock();
		/* #0 add_unique(n7) */
		ops[n].kind = K_ADDU; ops[n].a = 7; ops[n].call = ts_before();
		ret = cds_lfht_add_unique(ht, hash, match_fn, &keyval, &n7->n);
		ops[n].ret = ts_after(); ops[n].r = ret == &n7->n ? 7 : ret == &n4->n ? 4 : 6; n++;
		vp_spin_cycles(gapc);
		/* #1 add(n4) */
		ops[n].kind = K_ADD; ops[n].a = 4; ops[n].call = ts_before();
		cds_lfht_add(ht, hash, &n4->n);
		ops[n].ret = ts_after(); n++;
		vp_spin_cycles(gapc);
		/* #2 lookup */
		ops[n].kind = K_LOOK; ops[n].call = ts_before();
		cds_lfht_lookup(ht, hash, match_fn, &keyval, &it);
		ops[n].ret = ts_after();
		ret = cds_lfht_iter_get_node(&it);
		ops[n].r = ret == &n7->n ? 7 : ret == &n4->n ? 4 : ret == &n6->n ? 6 : 0; n++;
		vp_spin_cycles(gapc);
		/* #3 del(n7) */
		ops[n].kind = K_DEL; ops[n].b = 7; ops[n].call = ts_before();
		rc = cds_lfht_del(ht, &n7->n);
		ops[n].ret = ts_after(); ops[n].r2 = (uint64_t) (int64_t) rc; n++;
		rcu_read_unlock();
		vp_spin_cycles(gapc);
		__atomic_store_n(&fa_go, 1, __ATOMIC_SEQ_CST);
		pthread_join(t1, NULL);
		/* #4 the parked call */
		ops[n].thread = 1; ops[n].kind = fa.use_add_replace ? K_ADDR : K_ADDU; ops[n].a = 6;
		ops[n].call = fa.call; ops[n].ret = fa.rets;
		if (fa.use_add_replace)
			ops[n].r = fa.ret == NULL ? 0 : fa.ret == &n4->n ? 4 : 7;
		else
			ops[n].r = fa.ret == &n6->n ? 6 : fa.ret == &n4->n ? 4 : 7;
		n++;
		vp_spin_cycles(gapc);
		/* #5 content at quiescence */
		ops[n].thread = PLIN_T_FINAL; ops[n].kind = K_FINAL; ops[n].call = ts_before();
		rcu_read_lock();
		cds_lfht_lookup(ht, hash, match_fn, &keyval, &it);
		while ((ret = cds_lfht_iter_get_node(&it)) != NULL) {
			mask |= 1ULL << caa_container_of(ret, struct hnode, n)->lid;
			cds_lfht_next_duplicate(ht, match_fn, &keyval, &it);
		}
		rcu_read_unlock();
		ops[n].ret = ts_after(); ops[n].b = mask; n++;

		evals++;
		verdict = plin_check(m_apply, ops, n, vp_eps ? vp_eps : 1, NULL, NULL);
		if (verdict == LIN_VIOLATION) {
			char path[400] = "", buf[1200];
			FILE *f;
			verdict2 = plin_check(r_apply, ops, n, vp_eps ? vp_eps : 1, NULL, NULL);
			f = vp_witness_open("lfht-finding-addu", path, sizeof(path));
			if (f) {
				fprintf(f, "table={%s} hash 0x%lx; resident R1 (another key, same hash) inserted first; T1's %s(n6) was parked inside its duplicate scan (match() on R1, the last node of the equal-hash run) while T0 ran the other operations\n",
					g_ctx, hash, fa.use_add_replace ? "add_replace" : "add_unique");
				lin_dump(f, &ht_model, NULL, ops, n);
				fclose(f);
			}
			f = fmemopen(buf, sizeof(buf), "w");
			if (f) {
				lin_dump(f, &ht_model, NULL, ops, n);
				fclose(f);
			}
			buf[sizeof(buf) - 1] = 0;
			for (char *c = buf; *c; c++)
				if (*c == '\n')
					*c = ';';
			if (verdict2 == LIN_OK) {
				reproduced++;
				vp_violation("lfht:not-linearizable:add_unique-vs-plain-add-same-key",
					     "cfg=%s flavor=%s table={%s}: DRIVEN interleaving (T1's %s(n6) parked inside its duplicate scan, past the tail of the equal-hash run, while T0 ran add_unique(n7) -> n7, add(n4), del(n7) -> 0): %s inserted although the key was present at every instant it could have taken effect (n7, then n7+n4, then n4, the latter inserted with plain cds_lfht_add at the tail of the run); witness=%s %s",
					     cfgname, VP_FLAVOR_NAME, g_ctx, fa.use_add_replace ? "add_replace" : "add_unique",
					     fa.use_add_replace ? "add_replace" : "add_unique", path, buf);
			} else
				vp_violation("lfht:not-linearizable", "cfg=%s flavor=%s table={%s}: driven add_unique-vs-add interleaving gave a history that neither the strict nor the relaxed model accepts; witness=%s %s",
					     cfgname, VP_FLAVOR_NAME, g_ctx, path, buf);
		}
		vp_sig_add("finding-addu:%s:%s:%s", fa.use_add_replace ? "add_replace" : "add_unique", mm_names[g_tc.mm],
			   verdict == LIN_VIOLATION ? "anomaly" : "linearizable");
		/* clean up */
		rcu_read_lock();
		for (int i = 0; i < 4; i++)
			(void) cds_lfht_del(ht, &all[i]->n);
		rcu_read_unlock();
		synchronize_rcu();
		for (int i = 0; i < 4; i++)
			node_reclaim(all[i]);
		table_destroy();
	}
	rcu_unregister_thread();
#if !(VP_ASAN || VP_TSAN)
	vp_quar_drain(&quar);
#endif
	vp_counter_add("evaluations", evals);
	vp_counter_add("nontrivial", evals);
	vp_counter_add("driven_interleavings", evals);
	vp_counter_add("anomaly_add_unique_vs_plain_add", reproduced);
	common_counters();
	vp_note("cfg=%s mode=finding-addu: %llu driven interleavings, anomaly reproduced %llu times", cfgname,
		(unsigned long long) evals, (unsigned long long) reproduced);
	return vp_finish();
}
