/*
 * vp.h - common runtime of the verification harnesses.
 *
 * Placement (every thread pinned), TSC clock, PRNG, hook handler with
 * per-point delay injection / freezing / hit counters, syscall fault
 * injection, chaos signals, quarantine pools, violation + JSON result output.
 */
#ifndef VP_H
#define VP_H

#ifndef _GNU_SOURCE
#define _GNU_SOURCE
#endif
#include <stdint.h>
#include <stddef.h>
#include <stdio.h>
#include <stdlib.h>
#include <string.h>
#include <stdarg.h>
#include <stdbool.h>
#include <errno.h>
#include <pthread.h>
#include <sched.h>
#include <signal.h>
#include <unistd.h>
#include <time.h>

#ifndef URCU_VERIF
#error "harness must be built with -DURCU_VERIF"
#endif
#include <urcu/verif.h>

#if defined(__SANITIZE_THREAD__)
#define VP_TSAN 1
#else
#define VP_TSAN 0
#endif
#if defined(__SANITIZE_ADDRESS__)
#define VP_ASAN 1
#else
#define VP_ASAN 0
#endif

#ifdef __cplusplus
extern "C" {
#endif

/* relaxed atomics for harness-internal flags (plain mov on x86, TSan-clean) */
#define VP_LOAD(x) __atomic_load_n(&(x), __ATOMIC_RELAXED)
#define VP_STORE(x, v) __atomic_store_n(&(x), (v), __ATOMIC_RELAXED)

/* ---------------------------------------------------------------- options */

struct vp_opts {
	uint64_t seed;
	const char *out;	/* result JSON path */
	const char *witness_dir;
	int placement;		/* 0 spread, 1 pairs, 2 packed; -1 = from seed */
	int tier;		/* 0 quick, 1 thorough */
	double scale;		/* workload multiplier */
};
extern struct vp_opts vp_opt;

/* generic key=value arguments: --name=value */
const char *vp_arg(const char *name, const char *dflt);
long vp_arg_long(const char *name, long dflt);
double vp_arg_double(const char *name, double dflt);

void vp_init(int argc, char **argv, const char *harness_name);
/* writes result JSON, returns process exit code: 0 held, 1 violation(s) */
int vp_finish(void);

/* ---------------------------------------------------------------- placement */

extern int vp_ncpu;		/* CPUs this process may use */
extern int vp_cpus[256];
/* Pin calling thread; slot is a small integer identifying the thread role.
 * Mapping slot -> cpu depends on vp_opt.placement. */
void vp_pin(int slot);
void vp_pin_cpu(int cpu);
int vp_slot_cpu(int slot);
/* next library-created thread goes to this slot (consumed round-robin when unset) */
void vp_lib_thread_slot_base(int slot);

/* ---------------------------------------------------------------- PRNG */

struct vp_rng { uint64_t s; };
static inline uint64_t vp_rand(struct vp_rng *r)
{
	uint64_t z = (r->s += 0x9e3779b97f4a7c15ULL);
	z = (z ^ (z >> 30)) * 0xbf58476d1ce4e5b9ULL;
	z = (z ^ (z >> 27)) * 0x94d049bb133111ebULL;
	return z ^ (z >> 31);
}
static inline void vp_rng_init(struct vp_rng *r, uint64_t a, uint64_t b, uint64_t c)
{
	r->s = a * 0x9e3779b97f4a7c15ULL ^ (b + 0x1234567) * 0xc2b2ae3d27d4eb4fULL ^ (c + 77) * 0x165667b19e3779f9ULL;
	(void) vp_rand(r);
}
static inline uint32_t vp_rand_n(struct vp_rng *r, uint32_t n)
{
	return (uint32_t) ((vp_rand(r) >> 32) * (uint64_t) n >> 32);
}

/* ---------------------------------------------------------------- clock */

static inline uint64_t vp_rdtsc(void)
{
	uint32_t lo, hi;
	__asm__ __volatile__("rdtsc" : "=a"(lo), "=d"(hi));
	return ((uint64_t) hi << 32) | lo;
}
/* stamp <= start of what follows */
static inline uint64_t ts_before(void)
{
	uint32_t lo, hi;
	__asm__ __volatile__("rdtsc\n\tlfence" : "=a"(lo), "=d"(hi) :: "memory");
	return ((uint64_t) hi << 32) | lo;
}
/* stamp >= completion of preceding loads */
static inline uint64_t ts_after(void)
{
	uint32_t lo, hi;
	__asm__ __volatile__("lfence\n\trdtsc" : "=a"(lo), "=d"(hi) :: "memory");
	return ((uint64_t) hi << 32) | lo;
}
extern uint64_t vp_eps;		/* comparison margin in cycles; 0 = calibration failed */
extern double vp_tsc_ghz;
void vp_calibrate_clock(void);
static inline void vp_spin_cycles(uint64_t n)
{
	uint64_t t0 = vp_rdtsc();
	while (vp_rdtsc() - t0 < n)
		__asm__ __volatile__("pause");
}
uint64_t vp_now_ns(void);

/* ---------------------------------------------------------------- hooks */

enum vp_delay_mode {
	VP_D_NONE = 0,
	VP_D_SPIN,	/* 50..5000 cycles */
	VP_D_HEAVY,	/* heavy tailed: spin / yield / usleep */
	VP_D_YIELD,
	VP_D_SLEEP,	/* usleep 50..500us */
};
struct vp_point_cfg {
	uint32_t prob;		/* out of 1<<20 */
	uint8_t mode;
};
extern struct vp_point_cfg vp_pcfg[URCU_VP_NR_POINTS];
extern const char *vp_point_names[URCU_VP_NR_POINTS];
static inline void vp_point_set(int id, double prob, int mode)
{
	vp_pcfg[id].prob = (uint32_t) (prob * (1 << 20));
	vp_pcfg[id].mode = (uint8_t) mode;
}
void vp_points_clear(void);
uint64_t vp_point_hits(int id);
/* optional per-harness hook, called before delay handling */
extern void (*vp_user_hook)(int point, const void *ctx);
void vp_delay(struct vp_rng *r, int mode);
/* heavy-tailed reader delay (F5b) */
void vp_delay_heavy(struct vp_rng *r);

/* Freeze: thread that hits `point` (and for which filter returns true) parks
 * until released. Used by C17 and targeted window tests. */
struct vp_freeze {
	int point;			/* 0 = disarmed */
	int armed;
	int frozen;			/* number of threads currently parked */
	int release;
	int max_frozen;
	pthread_t only;			/* if only_set, only this thread freezes */
	int only_set;
};
extern struct vp_freeze vp_frz;
void vp_freeze_arm(int point, int max_frozen);
void vp_freeze_arm_thread(int point, pthread_t t);
int vp_freeze_wait_frozen(int n, uint64_t timeout_ms);	/* 1 if n threads frozen */
void vp_freeze_release(void);

/* per-thread runtime state */
struct vp_thr {
	uint64_t hits[URCU_VP_NR_POINTS];
	struct vp_rng rng;
	int slot_idx;
	int in_hook;
	uint64_t progress;	/* bumped by harness for the stuck detector */
};
struct vp_thr *vp_self(void);

/* ---------------------------------------------------------------- syscall faults */

struct vp_fault_cfg {
	uint32_t wait_spurious;		/* prob out of 1<<20: FUTEX_WAIT returns 0 at once */
	uint32_t wait_eintr;		/* FUTEX_WAIT returns -1/EINTR at once */
	uint32_t wake_delay;		/* delay before FUTEX_WAKE */
	int futex_enosys;		/* every futex() returns ENOSYS */
	uint32_t wait_enosys;		/* prob out of 1<<20: FUTEX_WAIT alone returns ENOSYS (the spurious ENOSYS that
					 * include/urcu/futex.h documents for some kernels; wakes still reach the kernel) */
	int no_membarrier;		/* MEMBARRIER_CMD_QUERY -> ENOSYS (env VP_NO_MEMBARRIER) */
};
extern struct vp_fault_cfg vp_fault;
struct vp_fault_stats {
	uint64_t futex_wait, futex_wake, futex_wait_blocked, wake_woke;
	uint64_t inj_spurious, inj_eintr, inj_enosys, inj_wake_delay, inj_wait_enosys;
	uint64_t membarrier, membarrier_denied;
};
void vp_fault_stats_get(struct vp_fault_stats *s);

/* pthread_create() fault: while the calling thread has vp_create_fail_armed set, the
 * --wrap=pthread_create shim returns EAGAIN with probability vp_create_fail_prob / 2^20 (the
 * library's partitioned hash-table resize documents a fallback for exactly that error) */
extern __thread int vp_create_fail_armed;
extern uint32_t vp_create_fail_prob;
extern uint64_t vp_create_fail_injected;

/* ---------------------------------------------------------------- chaos signals */

/* worker threads call this once; chaos thread may then signal them */
void vp_chaos_register_self(void);
void vp_chaos_unregister_self(void);
/* handler_cb (may be NULL) runs inside the signal handler */
void vp_chaos_start(int cpu_slot, uint32_t period_us, void (*handler_cb)(void));
void vp_chaos_stop(void);
extern uint64_t vp_chaos_signals_sent, vp_chaos_signals_handled;

/* ---------------------------------------------------------------- results */

void vp_violation(const char *key, const char *fmt, ...) __attribute__((format(printf, 2, 3)));
int vp_nviolations(void);
void vp_inconclusive(const char *what);
void vp_counter_add(const char *name, uint64_t v);	/* thread-safe (mutex) - call at end of thread */
void vp_counter_set(const char *name, uint64_t v);
void vp_sig_add(const char *fmt, ...) __attribute__((format(printf, 1, 2)));	/* distinct signature set */
void vp_sample_add(const char *fmt, ...) __attribute__((format(printf, 1, 2)));	/* keeps first few */
void vp_note(const char *fmt, ...) __attribute__((format(printf, 1, 2)));
/* witness file: returns FILE* opened in witness dir (caller fclose) */
FILE *vp_witness_open(const char *tag, char *path_out, size_t path_len);

/* ---------------------------------------------------------------- watchdog */

/* Stuck detector: harness sets vp_wd_state_fn to describe logical state;
 * the watchdog samples vp_wd_progress (sum over threads' progress + extra)
 * and calls vp_wd_stuck_fn when nothing moved for `stall_ms`. */
extern uint64_t vp_wd_extra_progress;
void vp_watchdog_start(uint64_t stall_ms, int (*confirm_stuck)(char *buf, size_t len));
void vp_watchdog_stop(void);
void vp_dump_threads(FILE *f);	/* /proc/self/task/.../wchan,stat,syscall */

/* ---------------------------------------------------------------- quarantine */

#define VP_POISON_PTR ((void *) 0xdead4ead00000000ULL)
struct vp_quar {
	void **ring;
	size_t cap, head, count;
	void (*release)(void *obj);	/* verify canary + final free */
	pthread_mutex_t lock;
};
void vp_quar_init(struct vp_quar *q, size_t cap, void (*release)(void *));
void vp_quar_put(struct vp_quar *q, void *obj);
void vp_quar_drain(struct vp_quar *q);

/* page-guard allocator: each allocation on its own pages, PROT_NONE on free */
void *vp_guard_alloc(size_t size, size_t align);
void vp_guard_free(void *p);	/* mprotect(PROT_NONE), never reused */
int vp_guard_classify(const void *addr, char *buf, size_t len);

/* barrier helper (sense-reversing spin barrier, no futex) */
struct vp_barrier { volatile int count; volatile int sense; int n; };
void vp_barrier_init(struct vp_barrier *b, int n);
void vp_barrier_wait(struct vp_barrier *b);

#ifdef __cplusplus
}
#endif
#endif
