/*
 * lfq.c - C12: the RCU lock-free queue cds_lfq_*_rcu is a linearizable FIFO.
 *
 * --mode=episodes  many short histories (2-4 pinned workers x 1-6 operations enqueue / dequeue, every
 *                  call inside a read-side section of the flavor), prefill + optional pre-dequeues by the
 *                  controller (so that the episode starts with or without a dummy at the head), final
 *                  destroy attempt + drain at quiescence; each history is checked right away against a
 *                  FIFO model with the linearizability checker (lin.c).  Worker 0 is the controller.
 *                  1 episode in --freeze-every is targeted:
 *                    A  worker 1 parked at URCU_VP_LFQ_ENQ_LINKED in its first enqueue (node linked,
 *                       tail not advanced) while the others run their operations to completion;
 *                    B  worker 1 parked at the same point inside the enqueue_dummy() of its first dequeue;
 *                    C  one or two dequeuers parked in make_dummy() (after "head->next == NULL", before
 *                       the dummy is enqueued; private point, see lfq_api.h) while the others run.
 *                  The others must complete (stuck-state detector) and the whole history, with the
 *                  parked operation spanning the others, must be linearizable.
 * --mode=long      streaming oracles over 10^6..10^7 nodes (lfq_long.h).
 */
#include "lfq_api.h"
#include "lin.h"

#define MAXW 4
#define MAX_OPS_THR 6
#define M_MAXN 40
#define MAX_ENQ_EP 10
#define LIN_BUDGET 2000000ULL
#define DEFER_CAP 8192

enum { X_ENQ, X_DEQ, X_NR };
static const char *const x_names[X_NR] = { "enqueue", "dequeue" };
enum { K_ENQ = 0, K_DEQ, K_FINAL, K_NR };
static const char *const kind_names[32] = {
	"enq", "deq", "final", "?", "?", "?", "?", "?", "?", "?", "?", "?", "?", "?", "?", "?",
	"?", "?", "?", "?", "?", "?", "?", "?", "?", "?", "?", "?", "?", "?", "?", "?",
};
enum { FZ_NONE, FZ_ENQ_LINKED, FZ_DEQ_DUMMY_LINKED, FZ_DEQ_DUMMY_ALLOC, FZ_NR };
static const char *const fz_names[FZ_NR] = { "none", "enqueuer-parked-at-LINKED", "dequeuer-parked-at-dummy-LINKED",
					      "dequeuers-parked-before-dummy-enqueue" };

struct pop {
	uint8_t x;
	uint16_t gap;
	uint32_t li;
	struct node *node;
};
struct rec {
	uint64_t call, ret;
	uint32_t r;
};

/* ------------------------------------------------------------------ model */

struct mstate {
	uint8_t nextop[MAXW];
	uint8_t n;
	uint8_t q[M_MAXN];
};

struct hist {
	struct lin_op ops[LIN_MAX_OPS];
	int nops;
	uint8_t fin_n, fin[M_MAXN + 2];
	uint8_t pre_n, pre[M_MAXN];
	uint64_t gid[M_MAXN + 1];
	int nthr, fz, nparked, chaos, bad;
	int destroy_ret, destroy_tried, destroy_chain, expected_empty;
	uint64_t d_helped, d_dummy, d_alloc, d_cmpx;
	uint64_t episode;
};

#define OP_SEQ(o) ((int) (o)->a)

static void m_init(void *state, void *ctx)
{
	struct mstate *s = state;
	struct hist *h = ctx;

	memset(s, 0, sizeof(*s));
	s->n = h->pre_n;
	memcpy(s->q, h->pre, h->pre_n);
}

static int m_apply(void *state, const struct lin_op *op, void *ctx)
{
	struct mstate *s = state;
	struct hist *h = ctx;
	int th = op->thread;

	if (th >= 0 && th < MAXW) {
		/* program order of one thread is certain: do not let eps reorder it */
		if (OP_SEQ(op) != s->nextop[th])
			return 0;
		s->nextop[th]++;
	}
	switch (op->kind) {
	case K_ENQ:
		if (s->n >= M_MAXN)
			return 0;
		s->q[s->n++] = (uint8_t) op->b;
		return 1;
	case K_DEQ:
		if (op->r == 0)
			return s->n == 0;
		if (!s->n || s->q[0] != op->r)
			return 0;
		memmove(&s->q[0], &s->q[1], (size_t) (s->n - 1));
		s->n--;
		s->q[s->n] = 0;
		return 1;
	case K_FINAL:
		return h->fin_n == s->n && !memcmp(h->fin, s->q, s->n);
	}
	return 0;
}

static void m_print_id(FILE *f, struct hist *h, uint64_t li)
{
	if (li == 0)
		fprintf(f, "NULL");
	else if (li <= M_MAXN)
		fprintf(f, "n%llu(%llx)", (unsigned long long) li, (unsigned long long) h->gid[li]);
	else
		fprintf(f, "garbage(%llu)", (unsigned long long) li);
}

static void m_print_op(FILE *f, const struct lin_op *op, void *ctx)
{
	struct hist *h = ctx;

	switch (op->kind) {
	case K_ENQ:
		fprintf(f, "enqueue(");
		m_print_id(f, h, op->b);
		fprintf(f, ")");
		break;
	case K_DEQ:
		fprintf(f, "dequeue() -> ");
		m_print_id(f, h, op->r);
		break;
	case K_FINAL:
		fprintf(f, "drain-at-quiescence -> [");
		for (int i = 0; i < h->fin_n; i++) {
			if (i)
				fputc(' ', f);
			m_print_id(f, h, h->fin[i]);
		}
		fprintf(f, "]");
		break;
	default:
		fprintf(f, "kind=%d", op->kind);
	}
}

static const struct lin_model lfq_model = {
	.name = "fifo-queue",
	.state_size = sizeof(struct mstate),
	.init = m_init,
	.apply = m_apply,
	.hash = NULL,
	.print_op = m_print_op,
};

/* ------------------------------------------------------------------ state */

static struct episode {
	int stop, check_phase, nslots;
	int nthr, fz, nparked, frozen_ok, chaos, bad;
	int done_cnt;
	int nops[MAXW];
	int one_section[MAXW], imm_callrcu[MAXW];
	uint32_t start_off[MAXW];
	struct pop ops[MAXW][MAX_OPS_THR];
	struct rec recs[MAXW][MAX_OPS_THR];
	uint8_t pre_n, pre[M_MAXN];
	uint64_t gid[M_MAXN + 1];
	int nnodes, nenq_pre, ndeq_pre;
	uint64_t number;
	uint64_t m_helped, m_dummy, m_alloc, m_cmpx;	/* marker counts at plan time */
} ep;

static struct hist hists[MAXW];
static struct vp_barrier bar;
static int nworkers;
static int opt_chaos, opt_freeze_every, opt_reclaim_every;
static double opt_seconds;
static long opt_episodes;
static uint64_t t_start_ns;

struct wthr {
	pthread_t tid;
	int idx;
	struct vp_rng rng;
	int cur;			/* X_* + 1 of the op in flight (VP_STORE) */
	uint64_t counter;
	struct node **defer;
	int ndefer;
	struct vp_quar quar;
	/* evidence */
	uint64_t checked, nontrivial, inconclusive, lin_nodes, max_lin_nodes, violations, max_conc;
	uint64_t ops_by_x[X_NR], res_null, imm_callrcu;
	int samples;
	char pad[64];
} wthr[MAXW];

static uint64_t ev_fz[FZ_NR], ev_fz_skipped, ev_destroy_tried, ev_destroy_ok, ev_destroy_eperm, ev_gp_sync, ev_gp_callrcu;
static uint64_t ev_spurious_dummy_shapes, ev_pre_nodummy, ev_eperm_on_empty;
static pthread_mutex_t sample_lock = PTHREAD_MUTEX_INITIALIZER;

/* ------------------------------------------------------------------ executing one operation */

static void defer_node(struct wthr *w, struct node *n)
{
	if (w->ndefer >= DEFER_CAP)
		abort();
	w->defer[w->ndefer++] = n;
}

/* node just obtained from the library: identify, validate, hand over to reclamation */
static uint32_t consume_node(struct wthr *w, struct cds_lfq_node_rcu *cn, int imm)
{
	struct node *n;
	uint32_t li;

	if (!cn) {
		w->res_null++;
		return 0;
	}
	if (VP_LOAD(cn->dummy)) {
		vp_violation("lfq:dequeue-returned-dummy",
			     "cfg=%s episode %llu: cds_lfq_dequeue_rcu() returned node %p whose dummy flag is %d: internal dummy nodes must never reach the user",
			     cfgname, (unsigned long long) ep.number, (void *) cn, VP_LOAD(cn->dummy));
		VP_STORE(ep.bad, 1);
		return 254;
	}
	n = node_of(cn);
	/* PLAIN loads: ordered after the enqueuer's plain stores only by the queue */
	if (n->magic != ND_MAGIC || n->payload != payload_of(n->id) || n->li == 0 || n->li > M_MAXN) {
		vp_violation(n->magic == ND_TAKEN ? "lfq:node-dequeued-twice" : "lfq:dequeued-node-garbage",
			     "cfg=%s episode %llu: dequeue returned node %p with magic=%x id=%llx li=%u payload=%llx: %s",
			     cfgname, (unsigned long long) ep.number, (void *) n, n->magic, (unsigned long long) n->id, n->li,
			     (unsigned long long) n->payload,
			     n->magic == ND_TAKEN ? "already returned by an earlier dequeue" : "reclaimed or never fully published node");
		VP_STORE(ep.bad, 1);
		return 254;
	}
	li = n->li;
	n->magic = ND_TAKEN;
	if (imm) {
		w->imm_callrcu++;
		call_rcu(&n->rh, node_rcu_cb);
	} else
		defer_node(w, n);
	return li;
}

static void exec_op(struct wthr *w, const struct pop *p, struct rec *r, int own_section)
{
	struct cds_lfq_node_rcu *cn;

	r->r = 0;
	if (p->gap)
		vp_spin_cycles(p->gap);
	VP_STORE(w->cur, p->x + 1);
	w->ops_by_x[p->x]++;
	switch (p->x) {
	case X_ENQ: {
		struct node *n = p->node;
		n->payload = payload_of(n->id);		/* plain store, published by the enqueue */
		cds_lfq_node_init_rcu(&n->link);
		if (own_section)
			rcu_read_lock();
		r->call = ts_before();
		q_enqueue(n);
		r->ret = ts_after();
		if (own_section)
			rcu_read_unlock();
		break;
	}
	case X_DEQ:
		if (own_section)
			rcu_read_lock();
		r->call = ts_before();
		cn = q_dequeue();
		r->ret = ts_after();
		r->r = consume_node(w, cn, ep.imm_callrcu[w->idx]);
		if (own_section)
			rcu_read_unlock();
		break;
	}
	VP_STORE(w->cur, 0);
	struct vp_thr *vt = vp_self();
	VP_STORE(vt->progress, vt->progress + 1);
}

static void run_ops(struct wthr *w)
{
	int me = w->idx, parked, others;

	if (me >= ep.nthr)
		return;
	parked = ep.fz && me >= 1 && me <= ep.nparked;
	if (ep.fz && !parked) {
		int ok = ep.fz == FZ_DEQ_DUMMY_ALLOC ? lfq_mfrz_wait(ep.nparked, 3000) : vp_freeze_wait_frozen(1, 3000);
		if (me == 0)
			ep.frozen_ok = ok;
	}
	if (ep.start_off[me])
		vp_spin_cycles(ep.start_off[me]);
	if (ep.one_section[me])
		rcu_read_lock();
	for (int k = 0; k < ep.nops[me]; k++)
		exec_op(w, &ep.ops[me][k], &ep.recs[me][k], !ep.one_section[me]);
	if (ep.one_section[me])
		rcu_read_unlock();
	if (ep.fz && !parked) {
		__atomic_add_fetch(&ep.done_cnt, 1, __ATOMIC_SEQ_CST);
		if (me == 0) {
			/* no progress bump in here: operations blocked by the parked thread must trip the watchdog */
			others = ep.nthr - ep.nparked;
			while (__atomic_load_n(&ep.done_cnt, __ATOMIC_ACQUIRE) < others)
				__asm__ __volatile__("pause");
			if (ep.fz == FZ_DEQ_DUMMY_ALLOC)
				lfq_mfrz_release();
			else
				vp_freeze_release();
		}
	}
}

/* ------------------------------------------------------------------ planning (worker 0) */

static struct node *plan_node(int thread)
{
	struct wthr *w = &wthr[thread < MAXW ? thread : 0];
	uint64_t id = ((uint64_t) thread << 32) | (++w->counter & 0xffffffffu);
	struct node *n;

	ep.nnodes++;
	n = node_new(id, (uint32_t) ep.nnodes);
	ep.gid[ep.nnodes] = id;
	return n;
}

static void plan_chaos(struct vp_rng *r)
{
	uint32_t x = vp_rand_n(r, 100);

	vp_points_clear();
	VP_STORE(mfrz.prob, 0);
	ep.chaos = 0;
	if (!opt_chaos || x < 30)
		return;
	if (x < 70 || opt_chaos == 1) {
		ep.chaos = 1;
		vp_point_set(URCU_VP_LFQ_ENQ_LINKED, 0.30, VP_D_SPIN);
		vp_point_set(URCU_VP_LFQ_DEQ_BEFORE_CMPXCHG, 0.30, VP_D_SPIN);
		vp_point_set(URCU_VP_LFQ_ENQ_HELPED, 0.10, VP_D_SPIN);
		VP_STORE(mfrz.mode, VP_D_SPIN);
		VP_STORE(mfrz.prob, (uint32_t) (0.40 * (1 << 20)));
	} else {
		ep.chaos = 2;
		vp_point_set(URCU_VP_LFQ_ENQ_LINKED, 0.15, VP_D_HEAVY);
		vp_point_set(URCU_VP_LFQ_DEQ_BEFORE_CMPXCHG, 0.20, VP_D_HEAVY);
		VP_STORE(mfrz.mode, VP_D_HEAVY);
		VP_STORE(mfrz.prob, (uint32_t) (0.25 * (1 << 20)));
	}
}

static void reclaim_deferred(struct wthr *w0)
{
	int any = 0, use_callrcu;

	for (int i = 0; i < nworkers; i++)
		any |= wthr[i].ndefer;
	if (!any)
		return;
	use_callrcu = (int) vp_rand_n(&w0->rng, 2);
	if (use_callrcu)
		ev_gp_callrcu++;
	else {
		ev_gp_sync++;
		synchronize_rcu();
	}
	for (int i = 0; i < nworkers; i++) {
		struct wthr *w = &wthr[i];
		for (int k = 0; k < w->ndefer; k++) {
			if (use_callrcu)
				call_rcu(&w->defer[k]->rh, node_rcu_cb);
			else
				node_reclaim(&w0->quar, w->defer[k]);
		}
		w->ndefer = 0;
	}
}

static void plan_episode(struct wthr *w)
{
	struct vp_rng *r = &w->rng;
	int focus, nenq = 0, k, j;

	if (opt_reclaim_every && (ep.number % (uint64_t) opt_reclaim_every) == 0)
		reclaim_deferred(w);
	ep.number++;
	ep.nnodes = 0;
	ep.fz = FZ_NONE;
	ep.nparked = 0;
	ep.frozen_ok = 0;
	ep.done_cnt = 0;
	VP_STORE(ep.bad, 0);
	ep.nthr = 2 + (int) vp_rand_n(r, (uint32_t) (nworkers - 1));
	if (ep.nthr > nworkers)
		ep.nthr = nworkers;
	focus = vp_rand_n(r, 100) < 35;
	if (opt_freeze_every && vp_rand_n(r, (uint32_t) opt_freeze_every) == 0) {
		ep.fz = 1 + (int) vp_rand_n(r, 3);
		ep.nparked = 1;
		if (ep.fz == FZ_DEQ_DUMMY_ALLOC && nworkers >= 3 && vp_rand_n(r, 3)) {
			ep.nparked = 2;
			if (ep.nthr < 3)
				ep.nthr = 3;
		}
	}
	plan_chaos(r);

	/* initial content: k enqueues then j dequeues by the controller.  j > 0 leaves the queue WITHOUT a dummy
	 * in front (j == k: a fresh dummy only) */
	if (ep.fz == FZ_DEQ_DUMMY_LINKED || ep.fz == FZ_DEQ_DUMMY_ALLOC) {
		j = (int) vp_rand_n(r, 3);
		k = j + 1;		/* exactly one real node: the parked dequeue needs a dummy */
	} else {
		uint32_t x = vp_rand_n(r, 100);
		k = x < 30 ? 0 : x < 60 ? 1 : x < 80 ? 2 : x < 93 ? 3 : 5;
		j = vp_rand_n(r, 100) < 45 ? (int) vp_rand_n(r, (uint32_t) k + 1) : 0;
	}
	ep.nenq_pre = k;
	ep.ndeq_pre = j;
	struct node *pre_nodes[8];
	for (int i = 0; i < k; i++)
		pre_nodes[i] = plan_node(15);

	for (int t = 0; t < ep.nthr; t++) {
		int nops = focus ? 1 + (int) vp_rand_n(r, 3) : 1 + (int) vp_rand_n(r, MAX_OPS_THR);
		int role = (int) vp_rand_n(r, 4);	/* 0 producer, 1 consumer, 2-3 mixed */
		int parked = ep.fz && t >= 1 && t <= ep.nparked;

		ep.start_off[t] = vp_rand_n(r, 3) ? vp_rand_n(r, 1200) : 0;
		ep.one_section[t] = vp_rand_n(r, 4) == 0;
		ep.imm_callrcu[t] = vp_rand_n(r, 2) == 0;
		if (ep.fz && t == 0 && nops < 2)
			nops = 2 + (int) vp_rand_n(r, 3);
		ep.nops[t] = 0;
		for (int o = 0; o < nops; o++) {
			struct pop *p = &ep.ops[t][ep.nops[t]];
			uint32_t x = vp_rand_n(r, 100);

			memset(p, 0, sizeof(*p));
			p->gap = vp_rand_n(r, 100) < 30 ? (uint16_t) vp_rand_n(r, 900) : 0;
			if (parked && o == 0)
				p->x = ep.fz == FZ_ENQ_LINKED ? X_ENQ : X_DEQ;
			else if (role == 0)
				p->x = x < 90 ? X_ENQ : X_DEQ;
			else if (role == 1)
				p->x = x < 90 ? X_DEQ : X_ENQ;
			else
				p->x = x < 50 ? X_ENQ : X_DEQ;
			/* concurrent enqueues are what makes the search exponential (their order shows only when the
			 * nodes come out): bounded per episode */
			if (p->x == X_ENQ && (nenq >= MAX_ENQ_EP || ep.nnodes >= M_MAXN - 1)) {
				if (parked && o == 0)
					abort();
				p->x = X_DEQ;
			}
			if (p->x == X_ENQ) {
				p->node = plan_node(t);
				p->li = p->node->li;
				nenq++;
			}
			ep.nops[t]++;
		}
	}

	/* prefill for real (quiescent: nobody else touches the queue now) */
	rcu_read_lock();
	for (int i = 0; i < k; i++) {
		struct node *nd = pre_nodes[i];
		nd->payload = payload_of(nd->id);
		cds_lfq_node_init_rcu(&nd->link);
		q_enqueue(nd);
	}
	for (int i = 0; i < j; i++) {
		uint32_t li = consume_node(w, q_dequeue(), 0);
		if (li != pre_nodes[i]->li) {
			vp_violation("lfq:sequential-fifo-order",
				     "cfg=%s episode %llu: controller enqueued %d nodes into the drained queue, dequeue #%d returned local node %u instead of %u",
				     cfgname, (unsigned long long) ep.number, k, i, li, pre_nodes[i]->li);
			VP_STORE(ep.bad, 1);
		}
	}
	rcu_read_unlock();
	ep.pre_n = (uint8_t) (k - j);
	for (int i = j; i < k; i++)
		ep.pre[i - j] = (uint8_t) pre_nodes[i]->li;
	if (j)
		ev_pre_nodummy++;
	if (j && !ep.bad) {
		struct q_shape s;
		q_walk(&s);
		/* after j >= 1 dequeues: k - j real nodes (+ 1 dummy behind them iff the last dequeue needed one) */
		if (s.nodes - s.dummies != k - j || s.dummies != (k == j ? 1 : 0))
			vp_violation("lfq:sequential-shape",
				     "cfg=%s episode %llu: after %d enqueues and %d dequeues at quiescence the chain holds %d nodes of which %d dummies",
				     cfgname, (unsigned long long) ep.number, k, j, s.nodes, s.dummies);
	}
	ep.m_helped = vp_point_hits(URCU_VP_LFQ_ENQ_HELPED);
	ep.m_dummy = vp_point_hits(URCU_VP_LFQ_DEQ_DUMMY);
	ep.m_cmpx = vp_point_hits(URCU_VP_LFQ_DEQ_BEFORE_CMPXCHG);
	ep.m_alloc = VP_LOAD(g_dummy_allocs_in_deq);
	if (ep.fz == FZ_ENQ_LINKED || ep.fz == FZ_DEQ_DUMMY_LINKED)
		vp_freeze_arm_thread(URCU_VP_LFQ_ENQ_LINKED, wthr[1].tid);
	else if (ep.fz == FZ_DEQ_DUMMY_ALLOC)
		lfq_mfrz_arm(ep.nparked);
}

/* ------------------------------------------------------------------ after the episode (worker 0) */

static void add_op(struct hist *h, int thread, int kind, uint64_t a, uint64_t b, const struct rec *r)
{
	struct lin_op *o = &h->ops[h->nops];

	memset(o, 0, sizeof(*o));
	o->thread = thread;
	o->kind = kind;
	o->a = a;
	o->b = b;
	o->r = r->r;
	o->call = r->call;
	o->ret = r->ret;
	h->nops++;
}

static uint64_t sort_key(const struct lin_op *o)
{
	return o->kind == K_ENQ ? o->call : o->ret;
}

static void sort_history(struct hist *h)
{
	for (int i = 1; i < h->nops; i++) {
		struct lin_op o = h->ops[i];
		uint64_t k = sort_key(&o);
		int j = i - 1;
		while (j >= 0 && sort_key(&h->ops[j]) > k) {
			h->ops[j + 1] = h->ops[j];
			j--;
		}
		h->ops[j + 1] = o;
	}
}

static void shape_text(char *buf, size_t len)
{
	struct cds_lfq_node_rcu *n = Q.head;
	size_t o = 0;

	o += (size_t) snprintf(buf + o, len - o, "head");
	for (int i = 0; n && i < 12 && o + 24 < len; i++) {
		o += (size_t) snprintf(buf + o, len - o, "->%s", n->dummy ? "DUMMY" : "node");
		if (Q.tail == n)
			o += (size_t) snprintf(buf + o, len - o, "(tail)");
		n = n->next;
	}
	if (n)
		snprintf(buf + o, len - o, "->...");
}

static void finalize_episode(struct wthr *w, struct hist *h)
{
	struct rec fin;
	int nenq = ep.nenq_pre, ndeq = ep.ndeq_pre, r;
	struct q_shape s;
	char shape[256];

	memset(h, 0, offsetof(struct hist, episode));
	h->nthr = ep.nthr;
	h->fz = ep.fz;
	h->nparked = ep.nparked;
	h->chaos = ep.chaos;
	h->episode = ep.number;
	h->pre_n = ep.pre_n;
	memcpy(h->pre, ep.pre, sizeof(h->pre));
	memcpy(h->gid, ep.gid, sizeof(h->gid));
	h->d_helped = vp_point_hits(URCU_VP_LFQ_ENQ_HELPED) - ep.m_helped;
	h->d_dummy = vp_point_hits(URCU_VP_LFQ_DEQ_DUMMY) - ep.m_dummy;
	h->d_cmpx = vp_point_hits(URCU_VP_LFQ_DEQ_BEFORE_CMPXCHG) - ep.m_cmpx;
	h->d_alloc = VP_LOAD(g_dummy_allocs_in_deq) - ep.m_alloc;
	for (int t = 0; t < ep.nthr; t++)
		for (int k = 0; k < ep.nops[t]; k++) {
			const struct pop *p = &ep.ops[t][k];
			const struct rec *rc = &ep.recs[t][k];
			if (p->x == X_ENQ) {
				add_op(h, t, K_ENQ, (uint64_t) k, p->li, rc);
				nenq++;
			} else {
				add_op(h, t, K_DEQ, (uint64_t) k, 0, rc);
				if (rc->r)
					ndeq++;
			}
		}
	ev_fz[ep.fz]++;
	if (ep.fz && !ep.frozen_ok) {
		ev_fz_skipped++;
		vp_inconclusive("targeted episode: the designated thread(s) did not reach the park point within 3 s");
	}
	h->expected_empty = nenq == ndeq;

	/* quiescence.  1: destroy succeeds exactly when the queue is empty */
	q_walk(&s);
	if (s.dummies > 1 || (s.dummies == 1 && s.nodes > 1 && !s.head_is_dummy))
		ev_spurious_dummy_shapes++;
	shape_text(shape, sizeof(shape));
	h->destroy_tried = !VP_LOAD(ep.bad) && vp_rand_n(&w->rng, 100) < 80;
	if (h->destroy_tried) {
		ev_destroy_tried++;
		r = q_destroy("destroy attempt at quiescence");
		h->destroy_ret = r;
		h->destroy_chain = g_last_destroy_chain;
		if (r == 0) {
			ev_destroy_ok++;
			if (!h->expected_empty) {
				vp_violation("lfq:destroy-succeeded-on-non-empty-queue",
					     "cfg=%s episode %llu: %d nodes enqueued, %d dequeued, all operations returned; cds_lfq_destroy_rcu() returned 0 (chain before the call: %s)",
					     cfgname, (unsigned long long) ep.number, nenq, ndeq, shape);
				VP_STORE(ep.bad, 1);
			}
			q_init();
		} else if (r == -EPERM) {
			ev_destroy_eperm++;
			if (h->expected_empty)
				ev_eperm_on_empty++;
			if (h->expected_empty)
				vp_violation("lfq:destroy-eperm-on-empty-queue",
					     "cfg=%s episode %llu (%d threads, %s): %d nodes enqueued, %d dequeued, every operation has returned, so the queue is empty, yet cds_lfq_destroy_rcu() returned -EPERM; chain at quiescence: %s (%d nodes, %d dummies)",
					     cfgname, (unsigned long long) ep.number, ep.nthr, fz_names[ep.fz], nenq, ndeq, shape, s.nodes,
					     s.dummies);
		}
	}

	/* 2: drain (part of the history) */
	memset(&fin, 0, sizeof(fin));
	VP_STORE(w->cur, X_DEQ + 1);
	rcu_read_lock();
	fin.call = ts_before();
	for (;;) {
		struct cds_lfq_node_rcu *cn = q_dequeue();
		if (!cn)
			break;
		if (h->fin_n >= M_MAXN + 1) {
			vp_violation("lfq:quiescent-drain-does-not-terminate",
				     "cfg=%s episode %llu: with no operation in flight, dequeue returned more than %d nodes (the episode created %d)",
				     cfgname, (unsigned long long) ep.number, M_MAXN + 1, ep.nnodes);
			VP_STORE(ep.bad, 1);
			break;
		}
		h->fin[h->fin_n++] = (uint8_t) consume_node(w, cn, 0);
	}
	fin.ret = ts_after();
	rcu_read_unlock();
	VP_STORE(w->cur, 0);
	add_op(h, 15, K_FINAL, 0, 0, &fin);

	/* 3: a dequeue returned NULL at quiescence: exactly one dummy, tail on it; destroy must succeed now */
	if (!VP_LOAD(ep.bad)) {
		q_walk(&s);
		if (s.nodes != 1 || s.dummies != 1 || !s.tail_is_last) {
			shape_text(shape, sizeof(shape));
			vp_violation("lfq:quiescent-shape-after-drain",
				     "cfg=%s episode %llu: dequeue returned NULL with no operation in flight but the chain is %s (%d nodes, %d dummies, tail %s)",
				     cfgname, (unsigned long long) ep.number, shape, s.nodes, s.dummies,
				     s.tail_is_last ? "on the last node" : "NOT on the last node");
		}
		if (vp_rand_n(&w->rng, 100) < 50) {
			ev_destroy_tried++;
			r = q_destroy("destroy after a drain that ended with NULL");
			if (r == 0) {
				ev_destroy_ok++;
				q_init();
			} else if (r == -EPERM) {
				ev_destroy_eperm++;
				vp_violation("lfq:destroy-eperm-after-drain",
					     "cfg=%s episode %llu: dequeue returned NULL at quiescence, then cds_lfq_destroy_rcu() returned -EPERM",
					     cfgname, (unsigned long long) ep.number);
			}
		}
	} else {
		/* the structure is not trustworthy any more: start over with a new queue (old chain leaked) */
		q_init();
	}
	h->bad = VP_LOAD(ep.bad);
	sort_history(h);
}

/* ------------------------------------------------------------------ checking one history (any worker) */

#define SIGTAB 8192
static uint64_t sigtab[SIGTAB];
static int sigtab_n;
static pthread_mutex_t sig_lock = PTHREAD_MUTEX_INITIALIZER;

static void sig_add_bounded(const char *s)
{
	uint64_t h = 1469598103934665603ULL;
	int isnew = 0;

	for (const char *c = s; *c; c++)
		h = (h ^ (unsigned char) *c) * 1099511628211ULL;
	if (!h)
		h = 1;
	pthread_mutex_lock(&sig_lock);
	for (size_t i = h % SIGTAB;; i = (i + 1) % SIGTAB) {
		if (sigtab[i] == h)
			break;
		if (!sigtab[i]) {
			if (sigtab_n < 2500) {
				sigtab[i] = h;
				sigtab_n++;
				isnew = 1;
			}
			break;
		}
	}
	pthread_mutex_unlock(&sig_lock);
	if (isnew)
		vp_sig_add("%s", s);
}

static void hist_header(FILE *f, struct hist *h)
{
	fprintf(f, "episode %llu threads=%d targeted=%s(parked=%d) chaos=%d markers{helped-tail=%llu dummy-dequeued=%llu dummy-alloc-window=%llu} destroy=%s; initial=[",
		(unsigned long long) h->episode, h->nthr, fz_names[h->fz], h->nparked, h->chaos,
		(unsigned long long) h->d_helped, (unsigned long long) h->d_dummy, (unsigned long long) h->d_alloc,
		!h->destroy_tried ? "not-tried" : h->destroy_ret == 0 ? "0" : h->destroy_ret == -EPERM ? "-EPERM" : "?");
	for (int i = 0; i < h->pre_n; i++)
		fprintf(f, "%sn%d", i ? " " : "", h->pre[i]);
	fprintf(f, "]; ");
}

static void dump_to_string(struct hist *h, char *buf, size_t len)
{
	FILE *f = fmemopen(buf, len, "w");

	if (!f) {
		buf[0] = 0;
		return;
	}
	hist_header(f, h);
	lin_dump(f, &lfq_model, h, h->ops, h->nops);
	fclose(f);
	buf[len - 1] = 0;
}

static void check_history(struct wthr *w, struct hist *h)
{
	struct lin_result res;
	uint64_t eps = vp_eps ? vp_eps : (1ULL << 40);
	int n = h->nops, nontrivial = 0, nulls = 0;

	w->checked++;
	if (h->bad)
		return;		/* already reported by a direct oracle; node identities are not trustworthy */
	memset(&res, 0, sizeof(res));
	lin_check(&lfq_model, h, h->ops, n, eps, LIN_BUDGET, &res);
	w->lin_nodes += res.nodes;
	if (res.nodes > w->max_lin_nodes)
		w->max_lin_nodes = res.nodes;
	if ((uint64_t) res.max_concurrency > w->max_conc)
		w->max_conc = (uint64_t) res.max_concurrency;
	if (res.verdict == LIN_INCONCLUSIVE) {
		w->inconclusive++;
		if (w->inconclusive <= 2) {
			char path[400];
			FILE *f = vp_witness_open("lfq-lin-budget", path, sizeof(path));
			if (f) {
				fprintf(f, "search budget exceeded (inconclusive): %llu search nodes eps=%llu\n",
					(unsigned long long) res.nodes, (unsigned long long) vp_eps);
				hist_header(f, h);
				fputc('\n', f);
				lin_dump(f, &lfq_model, h, h->ops, n);
				fclose(f);
			}
		}
		vp_inconclusive("linearizability search exceeded its budget of 2e6 nodes on some histories (counted in lin_inconclusive)");
	} else if (res.verdict == LIN_VIOLATION) {
		char path[400] = "", first[900];
		FILE *f = vp_witness_open("lfq-lin", path, sizeof(path));

		w->violations++;
		if (f) {
			fprintf(f, "NOT LINEARIZABLE against a FIFO queue  cfg=%s eps=%llu search-nodes=%llu\n", cfgname,
				(unsigned long long) vp_eps, (unsigned long long) res.nodes);
			hist_header(f, h);
			fputc('\n', f);
			lin_dump(f, &lfq_model, h, h->ops, n);
			fclose(f);
		}
		dump_to_string(h, first, sizeof(first));
		vp_violation(h->fz ? "lfq:not-linearizable:targeted" : "lfq:not-linearizable", "cfg=%s witness=%s %s", cfgname, path, first);
	}

	/* evidence: a dequeue overlapped an enqueue or a dequeue of another thread */
	for (int i = 0; i < n; i++) {
		const struct lin_op *c = &h->ops[i];
		if (c->kind != K_DEQ)
			continue;
		if (!c->r)
			nulls++;
		for (int k = 0; k < n && !nontrivial; k++) {
			const struct lin_op *e = &h->ops[k];
			if (e->kind != K_FINAL && e->thread != c->thread && e->call < c->ret && c->call < e->ret)
				nontrivial = 1;
		}
	}
	if (nontrivial) {
		struct lin_op red[LIN_MAX_OPS];
		char sig[200], full[300];
		int m = 0;

		w->nontrivial++;
		for (int i = 0; i < n; i++)
			if (h->ops[i].kind != K_FINAL)
				red[m++] = h->ops[i];
		lin_overlap_sig(red, m, eps, kind_names, sig, sizeof(sig));
		snprintf(full, sizeof(full), "ep:t%d:%s:%s:helped%d:dummy%d:dummy-alloc-window%d:null%d:pre%s:destroy%s", h->nthr,
			 fz_names[h->fz], sig, h->d_helped ? 1 : 0, h->d_dummy > 2 ? 2 : (int) h->d_dummy,
			 h->d_alloc > 2 ? 2 : (int) h->d_alloc, nulls ? 1 : 0, h->pre_n ? "filled" : "empty",
			 !h->destroy_tried ? "-" : h->destroy_ret ? "EPERM" : h->destroy_chain > 1 ? "0-several-dummies" : "0");
		sig_add_bounded(full);
		if (w->samples < 2 && n <= 12 && (h->fz || (h->episode & 7) == 0) && (h->d_helped || h->d_dummy)) {
			char buf[1900];
			w->samples++;
			dump_to_string(h, buf, sizeof(buf));
			pthread_mutex_lock(&sample_lock);
			vp_sample_add("linearizable (search nodes=%llu, max concurrency=%d): %s", (unsigned long long) res.nodes,
				      res.max_concurrency, buf);
			pthread_mutex_unlock(&sample_lock);
		}
	}
}

/* ------------------------------------------------------------------ worker threads */

static int time_is_up(void)
{
	return (double) (vp_now_ns() - t_start_ns) / 1e9 >= opt_seconds || (long) ep.number >= opt_episodes ||
	       (uint64_t) vp_nviolations() >= 4 + ev_eperm_on_empty;	/* that one does not damage the run */
}

static void bar_wait(void)
{
	vp_rcu_offline();
	vp_barrier_wait(&bar);
	vp_rcu_online();
}

static void *worker_main(void *arg)
{
	struct wthr *w = arg;
	int me = w->idx;

	vp_pin(me);
	(void) vp_self();
	rcu_register_thread();
	for (;;) {
		if (me == 0) {
			for (int s = 0; s < nworkers; s++) {
				ep.check_phase = 0;
				plan_episode(w);
				bar_wait();			/* A */
				run_ops(w);
				bar_wait();			/* B */
				finalize_episode(w, &hists[s]);
				ep.nslots = s + 1;
				if (time_is_up())
					break;
			}
			vp_points_clear();
			VP_STORE(mfrz.prob, 0);
			ep.check_phase = 1;
			bar_wait();				/* A */
			check_history(w, &hists[0]);
			bar_wait();				/* B */
			if (time_is_up()) {
				ep.stop = 1;
				bar_wait();
				break;
			}
		} else {
			bar_wait();				/* A */
			if (ep.stop)
				break;
			if (ep.check_phase) {
				if (me < ep.nslots)
					check_history(w, &hists[me]);
			} else
				run_ops(w);
			bar_wait();				/* B */
		}
		struct vp_thr *vt = vp_self();
		VP_STORE(vt->progress, vt->progress + 1);
	}
	if (me == 0) {
		/* everything still deferred: one last grace period */
		synchronize_rcu();
		for (int i = 0; i < nworkers; i++) {
			for (int k = 0; k < wthr[i].ndefer; k++)
				node_reclaim(&w->quar, wthr[i].defer[k]);
			wthr[i].ndefer = 0;
		}
	}
	rcu_unregister_thread();
	return NULL;
}

static int episodes_confirm_stuck(char *buf, size_t len)
{
	int in_op = 0, parked;

	for (int i = 0; i < nworkers; i++) {
		int c = VP_LOAD(wthr[i].cur);
		if (c)
			in_op = c;
	}
	parked = __atomic_load_n(&vp_frz.frozen, __ATOMIC_ACQUIRE) + __atomic_load_n(&mfrz.frozen, __ATOMIC_ACQUIRE);
	if (parked) {
		/* the parked thread is itself "in op"; somebody else must be as well */
		int others = 0;
		for (int i = 0; i < nworkers; i++)
			if (VP_LOAD(wthr[i].cur) && !(i >= 1 && i <= ep.nparked))
				others = VP_LOAD(wthr[i].cur);
		if (others) {
			snprintf(buf, len, "hang:lfq:%s-blocked-by-thread-suspended-%s", x_names[others - 1],
				 ep.fz == FZ_DEQ_DUMMY_ALLOC ? "before-dummy-enqueue" : "between-link-and-tail-advance");
			return 1;
		}
		snprintf(buf, len, "hang:lfq-episodes:parked-thread-not-released");
		return 0;
	}
	if (in_op) {
		snprintf(buf, len, "hang:lfq:%s-never-returns", x_names[in_op - 1]);
		return 1;
	}
	snprintf(buf, len, "hang:lfq-episodes:unconfirmed");
	return 0;
}

static int run_episodes(void)
{
	opt_chaos = (int) vp_arg_long("chaos", 2);
	opt_freeze_every = (int) vp_arg_long("freeze-every", 24);
	opt_reclaim_every = (int) vp_arg_long("reclaim-every", 48);
	opt_episodes = vp_arg_long("episodes", 1L << 40);
	nworkers = (int) vp_arg_long("workers", 4);
	if (nworkers > MAXW)
		nworkers = MAXW;
	if (nworkers > vp_ncpu && vp_ncpu >= 2)
		nworkers = vp_ncpu;
	if (nworkers < 2)
		nworkers = 2;
	q_init();
	vp_quar_init(&g_cb_quar, 8192, node_quar_release);
	vp_barrier_init(&bar, nworkers);
	for (int i = 0; i < nworkers; i++) {
		wthr[i].idx = i;
		vp_rng_init(&wthr[i].rng, vp_opt.seed, 0xc12, (uint64_t) i);
		wthr[i].defer = calloc(DEFER_CAP, sizeof(struct node *));
		vp_quar_init(&wthr[i].quar, 8192, node_quar_release);
	}
	vp_watchdog_start((uint64_t) vp_arg_long("stall-ms", VP_TSAN ? 60000 : 10000), episodes_confirm_stuck);
	for (int i = nworkers - 1; i >= 0; i--)		/* worker 0 needs wthr[1].tid: start it last */
		pthread_create(&wthr[i].tid, NULL, worker_main, &wthr[i]);
	vp_rcu_offline();
	for (int i = 0; i < nworkers; i++)
		pthread_join(wthr[i].tid, NULL);
	vp_rcu_online();

	/* quiescence of the whole run (watchdog still on: a broken chain may make these spin) */
	rcu_barrier();
	lfq_dummy_accounting(1);
	if (!vp_nviolations()) {
		struct cds_lfq_node_rcu *cn;
		VP_STORE(wthr[0].cur, X_DEQ + 1);
		rcu_read_lock();
		cn = q_dequeue();
		rcu_read_unlock();
		VP_STORE(wthr[0].cur, 0);
		if (cn)
			vp_violation("lfq:node-left-after-last-episode", "cfg=%s", cfgname);
		else if (q_destroy("end of run") != 0)
			vp_violation("lfq:destroy-eperm-after-drain", "cfg=%s end of run: dequeue returned NULL, destroy did not return 0", cfgname);
	}
#if !(VP_ASAN || VP_TSAN)
	for (int i = 0; i < nworkers; i++)
		vp_quar_drain(&wthr[i].quar);
	vp_quar_drain(&g_cb_quar);
	vp_quar_drain(&g_dummy_quar);
#endif

	uint64_t checked = 0, nt = 0, inc = 0, nodes = 0, maxn = 0, rnull = 0, conc = 0, imm = 0;
	for (int i = 0; i < nworkers; i++) {
		struct wthr *w = &wthr[i];
		checked += w->checked; nt += w->nontrivial; inc += w->inconclusive; nodes += w->lin_nodes;
		rnull += w->res_null; imm += w->imm_callrcu;
		if (w->max_lin_nodes > maxn)
			maxn = w->max_lin_nodes;
		if (w->max_conc > conc)
			conc = w->max_conc;
		for (int x = 0; x < X_NR; x++) {
			char name[64];
			snprintf(name, sizeof(name), "op_%s", x_names[x]);
			vp_counter_add(name, w->ops_by_x[x]);
		}
	}
	if (!vp_eps)
		vp_inconclusive("tsc-calibration-failed: histories were checked with all operations treated as concurrent");
	if (checked > 200 && (!vp_point_hits(URCU_VP_LFQ_ENQ_HELPED) || !vp_point_hits(URCU_VP_LFQ_DEQ_DUMMY)))
		vp_inconclusive("a required window was never entered (helped-tail or dummy-dequeued marker is 0)");
	vp_counter_add("evaluations", checked);
	vp_counter_add("nontrivial", nt);
	vp_counter_add("episodes", checked);
	vp_counter_add("lin_inconclusive", inc);
	vp_counter_add("lin_search_nodes", nodes);
	vp_counter_set("lin_max_search_nodes", maxn);
	vp_counter_set("lin_max_concurrency", conc);
	vp_counter_add("results_null", rnull);
	vp_counter_add("episodes_targeted_enqueuer_parked_at_linked", ev_fz[FZ_ENQ_LINKED]);
	vp_counter_add("episodes_targeted_dequeuer_parked_at_dummy_linked", ev_fz[FZ_DEQ_DUMMY_LINKED]);
	vp_counter_add("episodes_targeted_dequeuers_parked_before_dummy_enqueue", ev_fz[FZ_DEQ_DUMMY_ALLOC]);
	vp_counter_add("episodes_targeted_park_point_not_reached", ev_fz_skipped);
	vp_counter_add("episodes_starting_without_dummy", ev_pre_nodummy);
	vp_counter_add("quiescent_chains_with_extra_dummy", ev_spurious_dummy_shapes);
	vp_counter_add("destroy_attempts", ev_destroy_tried);
	vp_counter_add("destroy_returned_0", ev_destroy_ok);
	vp_counter_add("destroy_returned_eperm", ev_destroy_eperm);
	vp_counter_add("destroy_returned_eperm_on_empty_queue", ev_eperm_on_empty);
	vp_counter_add("reclaim_rounds_synchronize_rcu", ev_gp_sync);
	vp_counter_add("reclaim_rounds_call_rcu", ev_gp_callrcu);
	vp_counter_add("nodes_call_rcu_right_after_dequeue", imm);
	lfq_report_common();
	vp_note("cfg=%s flavor=%s mode=episodes workers=%d episodes=%llu nontrivial=%llu inconclusive=%llu eps=%llu",
		cfgname, VP_FLAVOR_NAME, nworkers, (unsigned long long) checked, (unsigned long long) nt,
		(unsigned long long) inc, (unsigned long long) vp_eps);
	return vp_finish();
}

#include "lfq_long.h"

int main(int argc, char **argv)
{
#ifdef VP_NO_LGPL
	vp_init(argc, argv, "lfq_nolgpl_" VP_FLAVOR_NAME);
#else
	vp_init(argc, argv, "lfq_" VP_FLAVOR_NAME);
#endif
	cfgname = vp_arg("cfg", "lfq");
	opt_seconds = vp_arg_double("seconds", 10.0);
	t_start_ns = vp_now_ns();
	rcu_register_thread();
	if (!strcmp(vp_arg("mode", "episodes"), "long"))
		return run_long();
	return run_episodes();
}
