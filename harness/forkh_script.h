/*
 * forkh_script.h - the script both processes run right after the after_fork_*
 * handlers (harness/forkh.c, C16): read-side section, synchronize_rcu x n,
 * call_rcu of new callbacks + rcu_barrier, exactly-once accounting, inherited
 * and fresh AUTO_RESIZE hash tables driven through the (re-created) worker.
 */
#ifndef FORKH_SCRIPT_H
#define FORKH_SCRIPT_H

static void check_counts(struct cbrec *recs, int n, const char *role, const char *fl, const char *cfg)
{
	int lost[3] = { 0, 0, 0 }, twice[3] = { 0, 0, 0 }, first_lost[3] = { -1, -1, -1 }, first_twice[3] = { -1, -1, -1 };
	unsigned maxinv[3] = { 0, 0, 0 };
	static const char *cls_name[3] = { "pending-callback", "completed-callback", "new-callback" };
	for (int i = 0; i < n; i++) {
		struct cbrec *r = &recs[i];
		if (!r->queued)
			continue;
		unsigned inv = __atomic_load_n(&r->invoked, __ATOMIC_RELAXED);
		int cls = r->gen ? 2 : (r->pend ? 0 : 1);
		if (inv == 0) {
			if (!lost[cls]++)
				first_lost[cls] = i;
		} else if (inv > 1) {
			if (!twice[cls]++)
				first_twice[cls] = i;
			if (inv > maxinv[cls])
				maxinv[cls] = inv;
		}
	}
	for (int c = 0; c < 3; c++) {
		char key[96];
		if (lost[c]) {
			snprintf(key, sizeof(key), "c16:%s:%s-lost", role, cls_name[c]);
			R_viol(key, "%s %s%s: %d %ss (first id %d of %d records) were never invoked although rcu_barrier() x2 returned in the %s",
			       cfg, fl, role, lost[c], cls_name[c], first_lost[c], n, role);
		}
		if (twice[c]) {
			snprintf(key, sizeof(key), "c16:%s:%s-ran-twice", role, cls_name[c]);
			R_viol(key, "%s %s%s: %d %ss (first id %d) were invoked more than once in the %s (max %u times)", cfg, fl,
			       role, twice[c], cls_name[c], first_twice[c], role, maxinv[c]);
		}
	}
	if (__atomic_load_n(&g_bad_heads, __ATOMIC_RELAXED))
		R_viol("c16:callback-wrong-head", "%s %s: a callback was invoked with a head that is not a registered record", cfg, role);
}

static struct cbrec *new_recs(struct scen *s, int *n_inout, int qsbr)
{
	struct cbrec *base = qsbr ? s->qrecs : s->recs;
	int *used = qsbr ? &s->nqrecs : &s->nrecs;
	int n = *n_inout;
	if (*used + n > MAXCB)
		n = MAXCB - *used;
	struct cbrec *r = base + *used;
	for (int i = 0; i < n; i++) {
		r[i].magic = CB_MAGIC;
		r[i].id = (uint16_t) (*used + i);
		r[i].gen = 1;
		r[i].fl2 = (uint8_t) qsbr;
	}
	*used += n;
	*n_inout = n;
	return r;
}

#define PH(x) do { snprintf(ph, sizeof(ph), "%s:%s", role, (x)); phase(ph); } while (0)

/* returns 0 when the whole script completed */
static int post_fork_script(struct scen *s, const char *role)
{
	char ph[56];
	int is_child = !strcmp(role, "child");

	if (!VP_IS_BP && !g_reg) {
		PH("register");
		rcu_register_thread();
		g_reg = 1;
	}
	PH("read");
	rcu_read_lock();
	rcu_read_lock();
	rcu_read_unlock();
	rcu_read_unlock();
	PH("sync");
	int nsync = 1 + (int) vp_rand_n(&s->rng, 3);
	for (int i = 0; i < nsync; i++) {
		synchronize_rcu();
		bump();
	}
	if (is_child && s->npend > 0 && vp_rand_n(&s->rng, 2) == 0) {
		/* Passive phase: the callbacks that were pending at fork() must run in the child WITHOUT any further
		 * call_rcu() / rcu_barrier() by the child (either would wake the helper and repair a lost wake-up).
		 * Stuck = nothing invoked for 8 s, every helper with callbacks queued has futex == -1, and no
		 * thread of this process other than this one is running or in uninterruptible sleep, at 3 samples. */
		PH("passive-wait-for-pending");
		uint64_t t_last = vp_now_ns();
		unsigned long done_last = 0;
		int confirm = 0;
		for (;;) {
			unsigned long done = 0, need = 0;
			for (int i = 0; i < s->nrecs; i++)
				if (s->recs[i].queued && s->recs[i].pend && !s->recs[i].gen) {
					need++;
					done += __atomic_load_n(&s->recs[i].invoked, __ATOMIC_RELAXED) != 0;
				}
			if (done >= need)
				break;
			uint64_t now = vp_now_ns();
			if (done != done_last) {
				done_last = done;
				t_last = now;
				confirm = 0;
				bump();
			} else if (now - t_last > (uint64_t) (8 + 2 * confirm) * 1000000000ULL) {
				struct vp_crdp_info info[48];
				int n = VP_PEEK(crdp_snapshot)(info, 48), queued_asleep = 0, queued_other = 0;
				unsigned long ql = 0;
				for (int i = 0; i < n && i < 48; i++)
					if (info[i].qlen > 0) {
						if (info[i].futex == -1) queued_asleep++; else queued_other++;
						ql += info[i].qlen;
					}
				int busy = count_tasks_state(getpid(), 'R') - 1 + count_tasks_state(getpid(), 'D');
				if (queued_asleep > 0 && !queued_other && busy <= 0)
					confirm++;
				else {
					confirm = 0;
					if (now - t_last > 90000000000ULL) {
						R_inconcl("child: pending callbacks not run after 90 s of passive waiting, stuck state not confirmed");
						break;
					}
				}
				if (confirm >= 3) {
					R_viol("c16:child:pending-callbacks-never-run-without-further-call_rcu",
					       "%s child: %lu of %lu callbacks that were pending at fork() have not run %llu s after call_rcu_after_fork_child(), the child made no call_rcu()/rcu_barrier() call meanwhile; %d helper(s) hold %lu queued callbacks with futex == -1 and every thread of the process is asleep",
					       s->cfg, need - done, need, (unsigned long long) ((now - t_last) / 1000000000ULL), queued_asleep, ql);
					return -1;
				}
			}
			nap(2000);	/* qsbr: offline while sleeping, so that the helpers' grace periods can end */
		}
		R_count("child_passive_waits_for_pending_callbacks", 1);
	}
	PH("call_rcu");
	int knew = 1 + (int) vp_rand_n(&s->rng, 24);
	struct cbrec *nr = new_recs(s, &knew, 0);
	for (int i = 0; i < knew; i++) {
		if (is_child) {
			nr[i].queued = 1;
			call_rcu(&nr[i].head, cb_fn);
		} else
			queue_one(s, &nr[i]);
	}
	if (!is_child)
		vp_pin(0);
	PH("barrier");
	rcu_barrier();
	PH("barrier2");
	rcu_barrier();
	PH("check");
	check_counts(s->recs, s->nrecs, role, VP_FLAVOR_NAME ":", s->cfg);
	if (G.nviol)
		return -1;

#ifdef HAVE_MULTI
	if (s->multi) {
		PH("qsbr-read-sync");
		urcu_qsbr_thread_online();
		urcu_qsbr_read_lock();
		urcu_qsbr_read_unlock();
		urcu_qsbr_synchronize_rcu();
		PH("qsbr-call_rcu");
		int qn = 1 + (int) vp_rand_n(&s->rng, 8);
		struct cbrec *qr = new_recs(s, &qn, 1);
		for (int i = 0; i < qn; i++) {
			qr[i].queued = 1;
			urcu_qsbr_call_rcu(&qr[i].head, cb_fn);
		}
		PH("qsbr-barrier");
		urcu_qsbr_barrier();
		urcu_qsbr_barrier();
		check_counts(s->qrecs, s->nqrecs, role, "qsbr(second flavor):", s->cfg);
		if (G.nviol)
			return -1;
		if (s->have_qht) {
			PH("qsbr-ht");
			if (ht_wait_settled(&s->qht, role, "qsbr-bound table inherited over fork", qnap))
				return -1;
			if (ht_check_lookups(&s->qht, role, "qsbr-bound table"))
				return -1;
			int lz = ht_grow_through_worker(&s->qht, 2, 20, role, "qsbr-bound table", qnap);
			if (lz < 0)
				return -1;
			s->resizes_after += lz;
			if (ht_check_lookups(&s->qht, role, "qsbr-bound table after growth"))
				return -1;
			if (ht_del_all_destroy(&s->qht, role, "qsbr-bound table", qnap))
				return -1;
			s->have_qht = 0;
		}
		urcu_qsbr_thread_offline();
	}
#endif

	for (int i = 0; i < s->nht; i++) {
		struct htab *t = &s->ht[i];
		char what[64];
		snprintf(what, sizeof(what), "inherited table %d (%s at fork)", i, ht_state_names[t->state_at_fork]);
		PH("ht-inherited-settle");
		if (ht_wait_settled(t, role, what, nap))
			return -1;
		if (t->state_at_fork == HT_QUEUED && !t->stale_flag && t->target_at_fork > t->size_at_fork && ht_size(t) <= t->size_at_fork) {
			char key[96];
			snprintf(key, sizeof(key), "c16:%s:ht-queued-resize-lost", role);
			R_viol(key, "%s %s %s: resize queued at fork (size %lu target %lu) settled at size %lu", s->cfg, role, what,
			       t->size_at_fork, t->target_at_fork, ht_size(t));
			return -1;
		}
		PH("ht-inherited-lookup");
		if (ht_check_lookups(t, role, what))
			return -1;
		PH("ht-inherited-grow");
		int lz = ht_grow_through_worker(t, 2, 24, role, what, nap);
		if (lz < 0)
			return -1;
		s->resizes_after += lz;
		if (ht_check_lookups(t, role, what))
			return -1;
	}
	{
		struct htab f;
		PH("ht-fresh-new");
		if (ht_create(&f, &rcu_flavor, 64, 0x77000000ULL + (uint64_t) G.depth)) {
			R_viol("c16:ht-new-failed", "%s %s: cds_lfht_new_flavor failed after fork", s->cfg, role);
			return -1;
		}
		PH("ht-fresh-grow");
		int lz = ht_grow_through_worker(&f, 3, 16, role, "fresh table", nap);
		if (lz < 0)
			return -1;
		s->resizes_after += lz;
		s->fresh_size = ht_size(&f);
		PH("ht-fresh-lookup");
		if (ht_check_lookups(&f, role, "fresh table"))
			return -1;
		PH("ht-fresh-destroy");
		if (ht_del_all_destroy(&f, role, "fresh table", nap))
			return -1;
	}
	for (int i = 0; i < s->nht; i++) {
		PH("ht-inherited-destroy");
		if (ht_del_all_destroy(&s->ht[i], role, "inherited table", nap))
			return -1;
	}
	s->nht = 0;
	PH("script-done");
	return 0;
}

#endif
