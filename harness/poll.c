/*
 * poll.c - grace-period polling monitor (C14).
 *
 * Events: reader sections [b,e]; per handle: c = ts_before() at
 * start_poll_synchronize_rcu(), r = ts_after() at return of the first poll that
 * said true.  Refuting observations: a section with b+eps<c and e>r+eps; a handle
 * polled true and later false; an object retired after "true" seen by a reader
 * inside a section; a handle that never becomes true in a bounded scenario.
 */
#include "vp.h"
#include "vp_flavor.h"

#define MAX_THR 32
#define NSLOTS 8
#define ST_LIVE   0x4c495645ULL
#define ST_POISON 0xdeadbeefdeadbeefULL
#define NHELD 8

struct obj { uint64_t id, state, sum; struct obj *self; struct rcu_head head; };
static struct obj *slots[NSLOTS];
static struct vp_quar quar;
static uint64_t next_id;
static const char *cfgname;
static int n_pollers, n_readers, traffic;
static long handles_per_poller;
static int stop_flag;

static inline uint64_t osum(uint64_t id) { return id * 0x9e3779b97f4a7c15ULL ^ 0x77; }
static void obj_release(void *p)
{
	struct obj *o = p;
	if (o->state != ST_POISON || o->self != VP_POISON_PTR)
		vp_violation("late-write-to-retired-object", "cfg=%s obj %llu", cfgname, (unsigned long long) o->id);
	free(o);
}
static struct obj *obj_new(void)
{
	struct obj *o = malloc(sizeof(*o));
	o->id = __atomic_add_fetch(&next_id, 1, __ATOMIC_RELAXED);
	o->sum = osum(o->id);
	o->self = o;
	o->state = ST_LIVE;
	return o;
}
static void obj_retire(struct obj *o)
{
	o->state = ST_POISON;
#if VP_ASAN || VP_TSAN
	free(o);
#else
	o->self = VP_POISON_PTR;
	vp_quar_put(&quar, o);
#endif
}
static inline void validate(struct obj *p, const char *where)
{
	if (p && (p->state != ST_LIVE || p->sum != osum(p->id) || p->self != p))
		vp_violation("reader-saw-retired-object",
			     "cfg=%s %s: object id=%llu state=%llx inside a section (poll reported completion early)",
			     cfgname, where, (unsigned long long) p->id, (unsigned long long) p->state);
}

static int quiet_active;	/* pollers currently inside a quiet point */
struct sec { uint64_t b, e; };
struct rthr { pthread_t tid; int idx; struct vp_rng rng; struct sec *secs; size_t nsec, cap; uint64_t total, own_handles; } rthr[16];

static void *reader_main(void *arg)
{
	struct rthr *t = arg;
	vp_pin(n_pollers + t->idx);
	rcu_register_thread();
#if VP_IS_QSBR
	uint64_t b = ts_after();
#endif
	while (!VP_LOAD(stop_flag)) {
		struct obj *p[3];
		int nobj = 1 + vp_rand_n(&t->rng, 3);
		rcu_read_lock();
#if !VP_IS_QSBR
		uint64_t b = ts_after();
#endif
		for (int i = 0; i < nobj; i++) {
			p[i] = rcu_dereference(slots[vp_rand_n(&t->rng, NSLOTS)]);
			validate(p[i], "deref");
		}
		struct urcu_gp_poll_state own_h;
		int own = vp_rand_n(&t->rng, 6) == 0 && !VP_LOAD(quiet_active);	/* quiet points: nobody but the straggler starts a poll */
		if (own) {
			/* the polling API is legal inside a read-side section (qsbr: on an online thread) and must not
			 * act as a quiescent state for the caller */
			own_h = start_poll_synchronize_rcu();
			(void) poll_state_synchronize_rcu(own_h);
			/* stay inside the section for longer than a grace period takes */
			uint64_t t0 = vp_now_ns(), len = 1500000 + vp_rand_n(&t->rng, 5000000);
			while (vp_now_ns() - t0 < len) {
				vp_spin_cycles(50000);
				(void) poll_state_synchronize_rcu(own_h);
			}
		}
		vp_delay_heavy(&t->rng);
		for (int i = 0; i < nobj; i++)
			validate(p[i], "after-delay");
		if (own) {
			/* this very section began before that start_poll: the handle cannot be complete yet */
			if (poll_state_synchronize_rcu(own_h))
				vp_violation("poll-true-inside-the-section-that-preceded-start_poll",
					     "cfg=%s reader %d: handle %lu obtained inside a read-side section polled complete while that same section is still open",
					     cfgname, t->idx, own_h.grace_period_id);
			for (int i = 0; i < nobj; i++)
				validate(p[i], "after-own-poll");
			t->own_handles++;
		}
#if !VP_IS_QSBR
		uint64_t e = ts_before();
		rcu_read_unlock();
#else
		rcu_read_unlock();
		if (vp_rand_n(&t->rng, 2))
			continue;
		uint64_t e = ts_before();
		rcu_quiescent_state();
#endif
		t->total++;
		if (t->nsec < t->cap) {
			t->secs[t->nsec].b = b;
			t->secs[t->nsec].e = e;
			t->nsec++;
		}
#if VP_IS_QSBR
		b = ts_after();
#endif
	}
	rcu_unregister_thread();
	return NULL;
}

struct hrec { uint64_t c, r; uint8_t was_active; };
struct held { struct urcu_gp_poll_state h; struct obj *o; struct hrec *rec; int done; };
struct pthr {
	pthread_t tid; int idx; struct vp_rng rng;
	struct hrec *recs; size_t nrec, cap;
	uint64_t polls, recheck_true;
} pthr[MAX_THR];

static int hold_request, cb_holding, hold_release;
static uint64_t straggler_in_window, straggler_missed;
static __thread int my_start_flag;
static void poll_hook(int point, const void *ctx)
{
	(void) ctx;
	if (point == URCU_VP_POLL_CB_ENTRY && VP_LOAD(hold_request)) {
		uint64_t t0 = vp_now_ns();
		VP_STORE(cb_holding, 1);
		while (!VP_LOAD(hold_release) && vp_now_ns() - t0 < 100000000ULL)
			__asm__ __volatile__("pause");
		VP_STORE(hold_request, 0);
		VP_STORE(hold_release, 0);
		VP_STORE(cb_holding, 0);
		return;
	}
	if (point == URCU_VP_POLL_START_ACTIVE)
		my_start_flag = 1;
	else if (point == URCU_VP_POLL_START_IDLE)
		my_start_flag = 0;
}

/* Quiet points: every `quiet_every` handles all pollers stop taking new handles until every outstanding
 * handle of every poller has been reported complete.  During that time nobody calls start_poll, so a
 * worker that went idle although a target is outstanding (lost re-queue) is not restarted by accident:
 * the handles never complete and the stuck-state detector sees worker inactive with an outstanding target. */
static long quiet_every;
static int quiet_arrived, quiet_gen, quiet_entered;
static uint64_t quiet_points;
/* The last poller to reach a quiet point is the straggler: it asks the worker callback to pause at its
 * entry (hook POLL_CB_ENTRY, i.e. after the grace period, before it takes the lock), issues its final
 * start_poll exactly while the callback sits there, releases it and goes quiet like everybody else.
 * That handle depends on the callback noticing, under the lock, that a newer target exists. */

static void *poller_main(void *arg)
{
	struct pthr *t = arg;
	vp_pin(t->idx);
	struct vp_thr *vt = vp_self();
	rcu_register_thread();
	struct held held[NHELD];
	int nheld = 0;
	struct urcu_gp_poll_state old_done[16];
	int n_old = 0;
	long started = 0;
	int in_quiet = 0, my_gen = 0, straggler_pending = 0;
	long next_quiet = quiet_every;
	while ((started < handles_per_poller || nheld > 0) && !vp_nviolations()) {
		if (quiet_every > 0 && !in_quiet && started >= next_quiet && next_quiet < handles_per_poller) {
			in_quiet = 1;
			__atomic_add_fetch(&quiet_active, 1, __ATOMIC_SEQ_CST);
			my_gen = VP_LOAD(quiet_gen);
			if (__atomic_add_fetch(&quiet_entered, 1, __ATOMIC_SEQ_CST) == n_pollers) {
				__atomic_store_n(&quiet_entered, 0, __ATOMIC_SEQ_CST);
				straggler_pending = 1;
			}
		}
		if (straggler_pending && in_quiet == 1) {
			if (nheld + 2 <= NHELD) {
				/* straggler: everybody else has stopped taking handles */
				straggler_pending = 0;
				VP_STORE(hold_release, 0);
				VP_STORE(hold_request, 1);
				for (int phase = 0; phase < 2; phase++) {
					if (phase == 1) {
						uint64_t t0 = vp_now_ns();
						while (!VP_LOAD(cb_holding) && vp_now_ns() - t0 < 300000000ULL) {
							vp_rcu_offline();
							usleep(20);
							vp_rcu_online();
						}
						if (!VP_LOAD(cb_holding)) {
							straggler_missed++;
							VP_STORE(hold_request, 0);
							break;
						}
						straggler_in_window++;
					}
					/* phase 0: make sure a callback is on its way; phase 1: the final start_poll, in the window */
					struct obj *n = obj_new();
					struct obj *old = rcu_xchg_pointer(&slots[vp_rand_n(&t->rng, NSLOTS)], n);
					struct held *h = &held[nheld++];
					h->o = old;
					h->rec = &t->recs[t->nrec++];
					h->done = 0;
					my_start_flag = -1;
					h->rec->c = ts_before();
					h->h = start_poll_synchronize_rcu();
					h->rec->was_active = (uint8_t) my_start_flag;
					/* not counted in `started`: every poller must reach the same milestones */
				}
				VP_STORE(hold_release, 1);
			}
		}
		if (in_quiet && nheld == 0) {
			/* all my handles completed: wait for the other pollers (they are draining too) */
			if (in_quiet == 1) {
				in_quiet = 2;
				if (__atomic_add_fetch(&quiet_arrived, 1, __ATOMIC_SEQ_CST) == n_pollers) {
					__atomic_store_n(&quiet_arrived, 0, __ATOMIC_SEQ_CST);
					quiet_points++;
					__atomic_store_n(&quiet_gen, my_gen + 1, __ATOMIC_SEQ_CST);
				}
			}
			if (VP_LOAD(quiet_gen) == my_gen) {
				usleep(50);
				vp_rcu_qs();
				continue;
			}
			in_quiet = 0;
			__atomic_sub_fetch(&quiet_active, 1, __ATOMIC_SEQ_CST);
			next_quiet += quiet_every;
		}
		if (!in_quiet && started < handles_per_poller && nheld < NHELD && (nheld == 0 || vp_rand_n(&t->rng, 3))) {
			/* unpublish an object, take a handle */
			struct obj *n = obj_new();
			struct obj *old = rcu_xchg_pointer(&slots[vp_rand_n(&t->rng, NSLOTS)], n);
			struct held *h = &held[nheld++];
			h->o = old;
			h->rec = &t->recs[t->nrec++];
			h->done = 0;
			my_start_flag = -1;
			h->rec->c = ts_before();
			h->h = start_poll_synchronize_rcu();
			h->rec->was_active = (uint8_t) my_start_flag;
			started++;
		}
		/* poll a random outstanding handle */
		if (nheld) {
			int k = vp_rand_n(&t->rng, (uint32_t) nheld);
			struct held *h = &held[k];
			bool ok = poll_state_synchronize_rcu(h->h);
			uint64_t now = ts_after();
			t->polls++;
			if (ok) {
				h->rec->r = now;
				if (h->o)
					obj_retire(h->o);
				if (n_old < 16)
					old_done[n_old++] = h->h;
				else
					old_done[vp_rand_n(&t->rng, 16)] = h->h;
				held[k] = held[--nheld];
				__atomic_store_n(&vt->progress, vt->progress + 1, __ATOMIC_RELAXED);
			}
		}
		/* once true, stays true */
		if (n_old && vp_rand_n(&t->rng, 4) == 0) {
			struct urcu_gp_poll_state h = old_done[vp_rand_n(&t->rng, (uint32_t) n_old)];
			if (!poll_state_synchronize_rcu(h))
				vp_violation("poll-true-then-false", "cfg=%s handle %lu was reported complete and later incomplete",
					     cfgname, h.grace_period_id);
			t->recheck_true++;
		}
		uint32_t x = vp_rand_n(&t->rng, 100);
		if (x < 50)
			vp_spin_cycles(vp_rand_n(&t->rng, 5000));
		else if (x < 70)
			usleep(vp_rand_n(&t->rng, 800));
		vp_rcu_qs();
	}
	rcu_unregister_thread();
	return NULL;
}

/* unrelated call_rcu traffic */
static uint64_t traffic_cbs;
static void traffic_cb(struct rcu_head *h)
{
	struct obj *o = caa_container_of(h, struct obj, head);
	__atomic_fetch_add(&traffic_cbs, 1, __ATOMIC_RELAXED);
	free(o);
}
static void *traffic_main(void *arg)
{
	(void) arg;
	vp_pin(n_pollers + n_readers);
	rcu_register_thread();
	struct vp_rng r;
	vp_rng_init(&r, vp_opt.seed, 0x7aff, 0);
	while (!VP_LOAD(stop_flag)) {
		struct obj *o = obj_new();
		call_rcu(&o->head, traffic_cb);
		vp_rcu_offline();
		usleep(100 + vp_rand_n(&r, 2000));
		vp_rcu_online();
	}
	rcu_unregister_thread();
	return NULL;
}

static int confirm_stuck(char *buf, size_t len)
{
	unsigned long cur, target;
	int active;
	VP_PEEK(poll_state)(&cur, &target, &active);
	if (!active && (long) (target - cur) >= 0)
		snprintf(buf, len, "hang:poll:%s:worker-inactive-with-outstanding-target", cfgname);
	else
		snprintf(buf, len, "hang:poll:%s", cfgname);
	fprintf(stderr, "stuck: cur=%lu target=%lu active=%d\n", cur, target, active);
	return 1;
}

int main(int argc, char **argv)
{
	vp_init(argc, argv, "poll_" VP_FLAVOR_NAME);
	cfgname = vp_arg("cfg", VP_FLAVOR_NAME);
	n_pollers = (int) vp_arg_long("pollers", 4);
	n_readers = (int) vp_arg_long("readers", 2);
	traffic = (int) vp_arg_long("traffic", 1);
	handles_per_poller = vp_arg_long("handles", 2000);
	quiet_every = vp_arg_long("quiet-every", 40);
	const char *preset = vp_arg("preset", "none");
	double hookp = vp_arg_double("hook-prob", 0.3);
	if (n_pollers > MAX_THR || n_readers > 16)
		return 2;
	vp_user_hook = poll_hook;
	vp_point_set(URCU_VP_POLL_CB_ENTRY, hookp, VP_D_HEAVY);
	vp_point_set(URCU_VP_CRCU_HELPER_SPLICED, hookp / 3, VP_D_HEAVY);
	vp_quar_init(&quar, 1 << 15, obj_release);
	for (int i = 0; i < NSLOTS; i++)
		slots[i] = obj_new();
	if (!strcmp(preset, "wrap")) {
		if (!VP_PEEK(poll_preset)(~0UL - 40))
			return 2;
	} else if (!strcmp(preset, "signwrap")) {
		if (!VP_PEEK(poll_preset)(((~0UL) >> 1) - 40))
			return 2;
	}
	vp_watchdog_start((uint64_t) vp_arg_long("stall-ms", 20000), confirm_stuck);
	for (int i = 0; i < n_readers; i++) {
		rthr[i].idx = i;
		vp_rng_init(&rthr[i].rng, vp_opt.seed, 0x4ead, (uint64_t) i);
		rthr[i].cap = 1 << 20;
		rthr[i].secs = malloc(rthr[i].cap * sizeof(struct sec));
		pthread_create(&rthr[i].tid, NULL, reader_main, &rthr[i]);
	}
	pthread_t tr;
	if (traffic)
		pthread_create(&tr, NULL, traffic_main, NULL);
	for (int i = 0; i < n_pollers; i++) {
		pthr[i].idx = i;
		vp_rng_init(&pthr[i].rng, vp_opt.seed, 0x9011, (uint64_t) i);
		pthr[i].cap = (size_t) handles_per_poller + 8 + 2 * (size_t) (quiet_every > 0 ? handles_per_poller / quiet_every + 1 : 0);
		pthr[i].recs = calloc(pthr[i].cap, sizeof(struct hrec));
		pthread_create(&pthr[i].tid, NULL, poller_main, &pthr[i]);
	}
	for (int i = 0; i < n_pollers; i++)
		pthread_join(pthr[i].tid, NULL);
	VP_STORE(stop_flag, 1);
	if (traffic)
		pthread_join(tr, NULL);
	for (int i = 0; i < n_readers; i++)
		pthread_join(rthr[i].tid, NULL);
	vp_watchdog_stop();

	uint64_t ev = 0, nontriv = 0, polls = 0, rechecks = 0;
	for (int p = 0; p < n_pollers; p++) {
		struct pthr *t = &pthr[p];
		polls += t->polls;
		rechecks += t->recheck_true;
		for (size_t i = 0; i < t->nrec; i++) {
			struct hrec *h = &t->recs[i];
			if (!h->r)
				continue;
			ev++;
			int overl = 0;
			for (int rd = 0; rd < n_readers; rd++) {
				struct rthr *rt = &rthr[rd];
				size_t lo = 0, hi = rt->nsec;
				while (lo < hi) {
					size_t mid = (lo + hi) / 2;
					if (rt->secs[mid].b < h->c)
						lo = mid + 1;
					else
						hi = mid;
				}
				if (!lo)
					continue;
				struct sec *s = &rt->secs[lo - 1];
				if (s->e > h->c)
					overl++;
				if (vp_eps && s->b + vp_eps < h->c && s->e > h->r + vp_eps)
					vp_violation("poll-true-before-grace-period",
						     "cfg=%s handle obtained at %llu reported complete at %llu while reader %d section [%llu,%llu] that began before start_poll was still open (eps=%llu, worker %s at start)",
						     cfgname, (unsigned long long) h->c, (unsigned long long) h->r, rd,
						     (unsigned long long) s->b, (unsigned long long) s->e,
						     (unsigned long long) vp_eps, h->was_active ? "active" : "idle");
			}
			if (overl) {
				nontriv++;
				uint64_t lat = h->r - h->c;
				vp_sig_add("%s:worker=%s:pre-existing=%d:latency=%s", cfgname,
					   h->was_active == 1 ? "active" : (h->was_active == 0 ? "idle" : "?"), overl,
					   lat > 63000000 ? ">30ms" : (lat > 21000000 ? ">10ms" : "<10ms"));
				if (nontriv <= 3)
					vp_sample_add("cfg=%s handle: start_poll at %llu (worker %s), first true poll at +%.0f us, %d reader sections open at start",
						      cfgname, (unsigned long long) h->c, h->was_active ? "active" : "idle",
						      lat / (vp_tsc_ghz * 1000), overl);
			}
		}
	}
	if (!vp_eps)
		vp_inconclusive("tsc-calibration-failed: interval oracle skipped");
	unsigned long cur, target;
	int active;
	VP_PEEK(poll_state)(&cur, &target, &active);
	vp_note("final poll state: current=%lu latest_target=%lu active=%d preset=%s", cur, target, active, preset);
	vp_counter_add("evaluations", ev);
	vp_counter_add("nontrivial", nontriv);
	vp_counter_add("polls", polls);
	vp_counter_add("true_rechecks", rechecks);
	{
		uint64_t oh = 0;
		for (int i = 0; i < n_readers; i++)
			oh += rthr[i].own_handles;
		vp_counter_add("handles_taken_and_polled_inside_a_reader_section", oh);
	}
	vp_counter_add("quiet_points_all_handles_completed_without_new_start_poll", quiet_points);
	vp_counter_add("final_start_poll_while_worker_callback_between_gp_and_lock", straggler_in_window);
	vp_counter_add("straggler_window_missed", straggler_missed);
	vp_counter_add("traffic_callbacks", __atomic_load_n(&traffic_cbs, __ATOMIC_RELAXED));
#if !(VP_ASAN || VP_TSAN)
	vp_quar_drain(&quar);
#endif
	return vp_finish();
}
