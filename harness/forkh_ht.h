/*
 * forkh_ht.h - hash-table part of harness/forkh.c (C16): AUTO_RESIZE|ACCOUNTING
 * tables bound to a flavor, lazy resizes observed through ht->size /
 * resize_target / resize_initiated (rculfhash-internal.h), worker liveness
 * observed through the workqueue / resize hook-point hit counters.
 */
#ifndef FORKH_HT_H
#define FORKH_HT_H

#include "rculfhash-internal.h"

struct htnode {
	struct cds_lfht_node node;
	uint64_t key;
};

enum { HT_NONE = 0, HT_SETTLED, HT_INFLIGHT, HT_QUEUED };
static const char *ht_state_names[] = { "none", "settled", "inflight", "queued" };

struct htab {
	struct cds_lfht *ht;
	const struct rcu_flavor_struct *flv;
	struct htnode *nodes;
	int cap, n;
	uint64_t salt;
	int state_at_fork;
	unsigned long size_at_fork, target_at_fork, size_at_call;
};

static inline uint64_t hmix(uint64_t z)
{
	z = (z ^ (z >> 30)) * 0xbf58476d1ce4e5b9ULL;
	z = (z ^ (z >> 27)) * 0x94d049bb133111ebULL;
	return z ^ (z >> 31);
}

static int ht_match(struct cds_lfht_node *n, const void *key)
{
	return caa_container_of(n, struct htnode, node)->key == *(const uint64_t *) key;
}

static inline unsigned long ht_size(struct htab *t)
{
	return __atomic_load_n(&t->ht->size, __ATOMIC_RELAXED);
}
static inline unsigned long ht_target(struct htab *t)
{
	return __atomic_load_n(&t->ht->resize_target, __ATOMIC_RELAXED);
}
static inline int ht_unsettled(struct htab *t)
{
	return __atomic_load_n(&t->ht->resize_initiated, __ATOMIC_RELAXED) || ht_size(t) != ht_target(t);
}

static int ht_create(struct htab *t, const struct rcu_flavor_struct *flv, int cap, uint64_t salt)
{
	memset(t, 0, sizeof(*t));
	t->flv = flv;
	t->cap = cap;
	t->salt = salt;
	t->nodes = calloc((size_t) cap, sizeof(struct htnode));
	t->ht = cds_lfht_new_flavor(1, 1, 0, CDS_LFHT_AUTO_RESIZE | CDS_LFHT_ACCOUNTING, flv, NULL);
	if (!t->ht || !t->nodes)
		return -1;
	return 0;
}

static void ht_add_n(struct htab *t, int k)
{
	for (int i = 0; i < k && t->n < t->cap; i++) {
		struct htnode *nd = &t->nodes[t->n];
		nd->key = t->salt + (uint64_t) (t->n + 1) * 0x10001ULL;
		cds_lfht_node_init(&nd->node);
		t->flv->read_lock();
		cds_lfht_add(t->ht, (unsigned long) hmix(nd->key), &nd->node);
		t->flv->read_unlock();
		t->n++;
	}
	bump();
}

/* resize-worker activity as seen through hook points hit in this process */
static uint64_t worker_activity(void)
{
	return vp_point_hits(URCU_VP_WQ_PRE_SLEEP) + vp_point_hits(URCU_VP_WQ_PAUSE) +
		vp_point_hits(URCU_VP_HT_RESIZE_LOOP) + vp_point_hits(URCU_VP_HT_GROW_BEFORE_PUBLISH) +
		vp_point_hits(URCU_VP_HT_SHRINK_BEFORE_GP);
}

static long g_settle_polls = 24000;

/*
 * Wait until no resize is pending on the table.  Returns 0 when settled.
 * A resize that stays queued (resize_initiated set or size != target) for the
 * whole poll budget while the worker shows no activity at all is a stuck state:
 * the work item exists and nothing will ever process it.
 */
static int ht_wait_settled(struct htab *t, const char *role, const char *what, void (*nap)(unsigned))
{
	uint64_t act0 = worker_activity();
	unsigned long s0 = ht_size(t);
	for (long i = 0; i < g_settle_polls; i++) {
		if (!ht_unsettled(t))
			return 0;
		nap(500);
		if (i == 4000 && getenv("FORKH_DEBUG")) {
			char dbg[4096];
			dump_tasks(getpid(), dbg, sizeof(dbg));
			fprintf(stderr, "forkh[d%d pid %d] slow settle %s %s: initiated=%d size=%lu target=%lu activity=%llu\n%s", G.depth,
				(int) getpid(), role, what, t->ht->resize_initiated, ht_size(t), ht_target(t),
				(unsigned long long) (worker_activity() - act0), dbg);
		}
		if (ht_size(t) != s0) {
			s0 = ht_size(t);
			bump();
		}
	}
	uint64_t act = worker_activity() - act0;
	if (!act) {
		char key[96];
		snprintf(key, sizeof(key), "hang:fork:%s:ht-resize-never-ran", role);
		R_viol(key, "%s %s: lazy resize queued (resize_initiated=%d size=%lu target=%lu) stayed queued for %ld polls and the resize worker showed no activity (no workqueue/resize hook point hit in pid %d, %d tasks)",
		       role, what, t->ht->resize_initiated, ht_size(t), ht_target(t), g_settle_polls, (int) getpid(),
		       count_tasks(getpid()));
	} else {
		R_inconcl("%s %s: table did not settle in %ld polls although the worker was active (%llu hook hits)", role, what,
			  g_settle_polls, (unsigned long long) act);
	}
	return -1;
}

static int ht_check_lookups(struct htab *t, const char *role, const char *what)
{
	int miss = 0;
	for (int i = 0; i < t->n; i++) {
		struct cds_lfht_iter it;
		t->flv->read_lock();
		cds_lfht_lookup(t->ht, (unsigned long) hmix(t->nodes[i].key), ht_match, &t->nodes[i].key, &it);
		struct cds_lfht_node *f = cds_lfht_iter_get_node(&it);
		t->flv->read_unlock();
		if (f != &t->nodes[i].node)
			miss++;
	}
	long before, after;
	unsigned long cnt;
	t->flv->read_lock();
	cds_lfht_count_nodes(t->ht, &before, &cnt, &after);
	t->flv->read_unlock();
	if (miss || cnt != (unsigned long) t->n) {
		char key[96];
		snprintf(key, sizeof(key), "c16:%s:ht-content-wrong", role);
		R_viol(key, "%s %s: %d of %d resident nodes not found by lookup, count_nodes=%lu (size=%lu)", role, what, miss,
		       t->n, cnt, ht_size(t));
		return -1;
	}
	bump();
	return 0;
}

static int ht_del_all_destroy(struct htab *t, const char *role, const char *what, void (*nap)(unsigned))
{
	int bad = 0;
	for (int i = 0; i < t->n; i++) {
		t->flv->read_lock();
		if (cds_lfht_del(t->ht, &t->nodes[i].node))
			bad++;
		t->flv->read_unlock();
	}
	bump();
	if (bad) {
		char key[96];
		snprintf(key, sizeof(key), "c16:%s:ht-del-failed", role);
		R_viol(key, "%s %s: cds_lfht_del failed for %d of %d nodes", role, what, bad, t->n);
	}
	if (ht_wait_settled(t, role, what, nap))
		return -1;
	t->flv->update_synchronize_rcu();
	int ret = cds_lfht_destroy(t->ht, NULL);
	if (ret) {
		char key[96];
		snprintf(key, sizeof(key), "c16:%s:ht-destroy-failed", role);
		R_viol(key, "%s %s: cds_lfht_destroy returned %d on an emptied table", role, what, ret);
		return -1;
	}
	t->ht = NULL;
	free(t->nodes);
	t->nodes = NULL;
	bump();
	return bad ? -1 : 0;
}

/*
 * Grow a table through the lazy-resize worker: add nodes in batches, wait for the
 * worker after each.  Returns number of lazy resizes launched (>= 0) or -1.
 */
static int ht_grow_through_worker(struct htab *t, int batches, int per_batch, const char *role, const char *what,
				  void (*nap)(unsigned))
{
	uint64_t lazy0 = vp_point_hits(URCU_VP_HT_LAZY_RESIZE);
	unsigned long s0 = ht_size(t);
	for (int b = 0; b < batches; b++) {
		ht_add_n(t, per_batch);
		if (ht_wait_settled(t, role, what, nap))
			return -1;
	}
	int lazy = (int) (vp_point_hits(URCU_VP_HT_LAZY_RESIZE) - lazy0);
	if (lazy > 0 && ht_size(t) <= s0) {
		char key[96];
		snprintf(key, sizeof(key), "c16:%s:ht-did-not-grow", role);
		R_viol(key, "%s %s: %d lazy resizes launched after adding %d nodes but size stayed %lu (target %lu)", role, what,
		       lazy, batches * per_batch, ht_size(t), ht_target(t));
		return -1;
	}
	return lazy;
}

#endif
