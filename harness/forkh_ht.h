/*
 * forkh_ht.h - hash-table part of harness/forkh.c (C16): AUTO_RESIZE|ACCOUNTING
 * tables bound to a flavor, lazy resizes observed through ht->size /
 * resize_target / resize_initiated (rculfhash-internal.h), worker liveness
 * observed through the workqueue / resize hook-point hit counters.
 */
#ifndef FORKH_HT_H
#define FORKH_HT_H

#include "rculfhash-internal.h"

struct htnode {
	struct cds_lfht_node node;
	uint64_t key;
};

enum { HT_NONE = 0, HT_SETTLED, HT_INFLIGHT, HT_QUEUED };
static const char *ht_state_names[] = { "none", "settled", "inflight", "queued" };

struct htab {
	struct cds_lfht *ht;
	const struct rcu_flavor_struct *flv;
	struct htnode *nodes;
	int cap, n;
	uint64_t salt;
	int state_at_fork, stale_flag;
	unsigned long size_at_fork, target_at_fork, size_at_call;
};

/*
 * The hash-table work queue (static cds_lfht_workqueue in rculfhash.c, struct private
 * to workqueue.c) has no accessor in vp_peek.h.  Its address is the ctx argument of the
 * URCU_VP_WQ_PRE_SLEEP / URCU_VP_WQ_PAUSE hook points; the leading fields are mirrored
 * here read-only (same layout as struct call_rcu_data's leading fields).  qlen counts
 * work items queued or being processed.
 */
struct wq_mirror {
	struct cds_wfcq_tail cbs_tail;
	struct cds_wfcq_head cbs_head;
	unsigned long flags;
	int32_t futex;
	unsigned long qlen;
};
static const struct wq_mirror *g_wq;

/* -1 unknown, else number of work items queued or in progress */
static inline long wq_qlen(void)
{
	const struct wq_mirror *w = __atomic_load_n(&g_wq, __ATOMIC_RELAXED);
	if (!w)
		return -1;
	unsigned long q = __atomic_load_n(&w->qlen, __ATOMIC_RELAXED);
	return q > 1000000 ? -1 : (long) q;
}

static uint64_t g_stale_flag_seen;

static inline uint64_t hmix(uint64_t z)
{
	z = (z ^ (z >> 30)) * 0xbf58476d1ce4e5b9ULL;
	z = (z ^ (z >> 27)) * 0x94d049bb133111ebULL;
	return z ^ (z >> 31);
}

static int ht_match(struct cds_lfht_node *n, const void *key)
{
	return caa_container_of(n, struct htnode, node)->key == *(const uint64_t *) key;
}

static inline unsigned long ht_size(struct htab *t)
{
	return __atomic_load_n(&t->ht->size, __ATOMIC_RELAXED);
}
static inline unsigned long ht_target(struct htab *t)
{
	return __atomic_load_n(&t->ht->resize_target, __ATOMIC_RELAXED);
}
static inline int ht_unsettled(struct htab *t)
{
	return __atomic_load_n(&t->ht->resize_initiated, __ATOMIC_RELAXED) || ht_size(t) != ht_target(t);
}

static int ht_create(struct htab *t, const struct rcu_flavor_struct *flv, int cap, uint64_t salt)
{
	memset(t, 0, sizeof(*t));
	t->flv = flv;
	t->cap = cap;
	t->salt = salt;
	t->nodes = calloc((size_t) cap, sizeof(struct htnode));
	t->ht = cds_lfht_new_flavor(1, 1, 0, CDS_LFHT_AUTO_RESIZE | CDS_LFHT_ACCOUNTING, flv, NULL);
	if (!t->ht || !t->nodes)
		return -1;
	return 0;
}

static void ht_add_n(struct htab *t, int k)
{
	for (int i = 0; i < k && t->n < t->cap; i++) {
		struct htnode *nd = &t->nodes[t->n];
		nd->key = t->salt + (uint64_t) (t->n + 1) * 0x10001ULL;
		cds_lfht_node_init(&nd->node);
		t->flv->read_lock();
		cds_lfht_add(t->ht, (unsigned long) hmix(nd->key), &nd->node);
		t->flv->read_unlock();
		t->n++;
	}
	bump();
}

/* resize-worker activity as seen through hook points hit in this process */
static uint64_t worker_activity(void)
{
	return vp_point_hits(URCU_VP_WQ_PRE_SLEEP) + vp_point_hits(URCU_VP_WQ_PAUSE) +
		vp_point_hits(URCU_VP_HT_RESIZE_LOOP) + vp_point_hits(URCU_VP_HT_GROW_BEFORE_PUBLISH) +
		vp_point_hits(URCU_VP_HT_SHRINK_BEFORE_GP);
}

static long g_settle_polls = 24000;

/*
 * Wait until no resize is pending on the table.  Returns 0 when settled.
 *
 * resize_initiated == 1 while the work queue holds no item is NOT a pending resize:
 * __cds_lfht_resize_lazy_launch() stores the flag *after* queueing the work, so a
 * worker that finishes the whole resize in between leaves the flag set for good
 * (no later lazy resize is launched for that table).  That is unrelated to fork;
 * it is counted (stale_resize_initiated_flag) and treated as "nothing pending".
 *
 * A resize that stays queued (work queue length > 0) for the whole poll budget
 * while the worker shows no activity at all is a stuck state: the work item exists
 * and nothing will ever process it.
 */
static int ht_wait_settled(struct htab *t, const char *role, const char *what, void (*nap)(unsigned))
{
	uint64_t act0 = worker_activity();
	unsigned long s0 = ht_size(t);
	int stale_run = 0;
	long minq = 1L << 30;
	struct rq_snap rq0;
	rq0.n = 0;
	for (long i = 0; i < g_settle_polls; i++) {
		if (!ht_unsettled(t))
			return 0;
		int init1 = __atomic_load_n(&t->ht->resize_initiated, __ATOMIC_SEQ_CST);
		long q = wq_qlen();
		int init2 = __atomic_load_n(&t->ht->resize_initiated, __ATOMIC_SEQ_CST);
		if (q >= 0 && q < minq)
			minq = q;
		if (q == 0 && init1 && init2) {
			if (++stale_run >= 4) {
				__atomic_fetch_add(&g_stale_flag_seen, 1, __ATOMIC_RELAXED);
				t->stale_flag = 1;
				return 0;
			}
		} else
			stale_run = 0;
		nap(500);
		if (i == 200)
			rq_snapshot(getpid(), &rq0);
		if (i == 4000 && getenv("FORKH_DEBUG")) {
			char dbg[4096];
			dump_tasks(getpid(), dbg, sizeof(dbg));
			fprintf(stderr, "forkh[d%d pid %d] slow settle %s %s: initiated=%d size=%lu target=%lu qlen=%ld activity=%llu\n%s", G.depth,
				(int) getpid(), role, what, t->ht->resize_initiated, ht_size(t), ht_target(t), wq_qlen(),
				(unsigned long long) (worker_activity() - act0), dbg);
		}
		if (ht_size(t) != s0) {
			s0 = ht_size(t);
			bump();
		}
	}
	uint64_t act = worker_activity() - act0;
	int starved = rq_starved_permille(getpid(), &rq0);
	int dstate = count_tasks_state(getpid(), 'D');
	if (!act && minq >= 1 && minq < (1L << 30) && starved < 250 && !dstate) {
		char key[96];
		snprintf(key, sizeof(key), "hang:fork:%s:ht-resize-never-ran", role);
		R_viol(key, "%s %s: lazy resize queued (resize_initiated=%d size=%lu target=%lu, work queue length stayed >= %ld) for %ld polls and the resize worker showed no activity (no workqueue/resize hook point hit in pid %d, %d tasks)",
		       role, what, t->ht->resize_initiated, ht_size(t), ht_target(t), minq, g_settle_polls, (int) getpid(),
		       count_tasks(getpid()));
	} else {
		R_inconcl("%s %s: table did not settle in %ld polls (worker hook hits %llu, min work queue length %ld, max CPU starvation %d per mille, %d tasks in uninterruptible sleep)",
			  role, what, g_settle_polls, (unsigned long long) act, minq == (1L << 30) ? -1 : minq, starved, dstate);
	}
	return -1;
}

static int ht_check_lookups(struct htab *t, const char *role, const char *what)
{
	int miss = 0;
	for (int i = 0; i < t->n; i++) {
		struct cds_lfht_iter it;
		t->flv->read_lock();
		cds_lfht_lookup(t->ht, (unsigned long) hmix(t->nodes[i].key), ht_match, &t->nodes[i].key, &it);
		struct cds_lfht_node *f = cds_lfht_iter_get_node(&it);
		t->flv->read_unlock();
		if (f != &t->nodes[i].node)
			miss++;
	}
	long before, after;
	unsigned long cnt;
	t->flv->read_lock();
	cds_lfht_count_nodes(t->ht, &before, &cnt, &after);
	t->flv->read_unlock();
	if (miss || cnt != (unsigned long) t->n) {
		char key[96];
		snprintf(key, sizeof(key), "c16:%s:ht-content-wrong", role);
		R_viol(key, "%s %s: %d of %d resident nodes not found by lookup, count_nodes=%lu (size=%lu)", role, what, miss,
		       t->n, cnt, ht_size(t));
		return -1;
	}
	bump();
	return 0;
}

static int ht_del_all_destroy(struct htab *t, const char *role, const char *what, void (*nap)(unsigned))
{
	int bad = 0;
	for (int i = 0; i < t->n; i++) {
		t->flv->read_lock();
		if (cds_lfht_del(t->ht, &t->nodes[i].node))
			bad++;
		t->flv->read_unlock();
	}
	bump();
	if (bad) {
		char key[96];
		snprintf(key, sizeof(key), "c16:%s:ht-del-failed", role);
		R_viol(key, "%s %s: cds_lfht_del failed for %d of %d nodes", role, what, bad, t->n);
	}
	if (ht_wait_settled(t, role, what, nap))
		return -1;
	t->flv->update_synchronize_rcu();
	int ret = cds_lfht_destroy(t->ht, NULL);
	if (ret) {
		char key[96];
		snprintf(key, sizeof(key), "c16:%s:ht-destroy-failed", role);
		R_viol(key, "%s %s: cds_lfht_destroy returned %d on an emptied table", role, what, ret);
		return -1;
	}
	t->ht = NULL;
	free(t->nodes);
	t->nodes = NULL;
	bump();
	return bad ? -1 : 0;
}

/*
 * Grow a table through the lazy-resize worker: add nodes in batches, wait for the
 * worker after each.  Returns number of lazy resizes launched (>= 0) or -1.
 */
static int ht_grow_through_worker(struct htab *t, int batches, int per_batch, const char *role, const char *what,
				  void (*nap)(unsigned))
{
	uint64_t lazy0 = vp_point_hits(URCU_VP_HT_LAZY_RESIZE);
	unsigned long s0 = ht_size(t);
	for (int b = 0; b < batches; b++) {
		ht_add_n(t, per_batch);
		if (ht_wait_settled(t, role, what, nap))
			return -1;
	}
	int lazy = (int) (vp_point_hits(URCU_VP_HT_LAZY_RESIZE) - lazy0);
	if (lazy > 0 && ht_size(t) <= s0) {
		char key[96];
		snprintf(key, sizeof(key), "c16:%s:ht-did-not-grow", role);
		R_viol(key, "%s %s: %d lazy resizes launched after adding %d nodes but size stayed %lu (target %lu)", role, what,
		       lazy, batches * per_batch, ht_size(t), ht_target(t));
		return -1;
	}
	return lazy;
}

#endif
