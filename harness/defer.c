/*
 * defer.c - defer_rcu() monitor (C13).
 *
 * Functions handed to defer_rcu() are JIT stubs in an executable page
 * (mov $id,%esi; movabs $common,%rax; jmp *%rax) placed at odd and even
 * addresses, a disjoint stub set per queuing thread, so the global invocation log
 * partitions by owner and must equal each owner's queued log exactly (function,
 * argument bits, order, multiplicity).  Arguments are drawn from adversarial bit
 * patterns (low bit set, the internal marker value (void *)-2, -1, 0, 1, random).
 * "Object" stubs additionally retire an RCU-protected object (poison / free), which
 * readers validate inside read-side sections.
 */
#include "vp.h"
#include "vp_flavor.h"
#include <sys/mman.h>

#define MAX_Q 16
#define NSLOTS 8
#define NSTUB 8			/* per owner: 0..5 data stubs (even/odd addresses), 6..7 object stubs */
#define ST_LIVE   0x4c495645ULL
#define ST_POISON 0xdeadbeefdeadbeefULL

struct obj { uint64_t id, state, sum; struct obj *self; };
static struct obj *slots[NSLOTS];
static struct vp_quar quar;
static uint64_t next_id;
static const char *cfgname;
static int stop_flag;

static inline uint64_t osum(uint64_t id) { return id * 0x9e3779b97f4a7c15ULL ^ 0xd3f; }
static void obj_release(void *p)
{
	struct obj *o = p;
	if (o->state != ST_POISON || o->self != VP_POISON_PTR)
		vp_violation("late-write-to-retired-object", "cfg=%s obj %llu", cfgname, (unsigned long long) o->id);
	free(o);
}
static struct obj *obj_new(void)
{
	struct obj *o = malloc(sizeof(*o));
	o->id = __atomic_add_fetch(&next_id, 1, __ATOMIC_RELAXED);
	o->sum = osum(o->id);
	o->self = o;
	o->state = ST_LIVE;
	return o;
}
static inline void validate(struct obj *p, const char *where)
{
	if (p && (p->state != ST_LIVE || p->sum != osum(p->id) || p->self != p))
		vp_violation("reader-saw-retired-object",
			     "cfg=%s %s: object id=%llu state=%llx inside a section (deferred call ran too early)",
			     cfgname, where, (unsigned long long) p->id, (unsigned long long) p->state);
}

/* ------------------------------------------------------------------ logs */

struct qent { uint32_t id; void *arg; uint64_t c, enq_ret; };
struct ient { uint32_t id; void *arg; uint64_t ts; };
struct bar { uint64_t call, ret; };
struct owner {
	pthread_t tid;
	int idx;
	struct vp_rng rng;
	struct qent *q; uint64_t nq, capq;
	struct ient *inv; uint64_t ninv;		/* appended by whoever runs the callbacks */
	struct bar *bars; uint64_t nbar, capbar;
	void (*stub[NSTUB])(void *);
	uint64_t reg_cycles, barriers, barrier_threads, reclaimer_waits, reclaimer_served;
	char pad[64];
} own[MAX_Q];
static int n_q, n_readers;
static long calls_per_q;

/* ------------------------------------------------------------------ JIT stubs */

static unsigned char *jit;
static size_t jit_off;
static void defer_common(void *p, uint32_t id);

static void (*make_stub(uint32_t id, int odd))(void *)
{
	if (((uintptr_t) (jit + jit_off) & 1) != (unsigned) odd)
		jit[jit_off++] = 0xcc;	/* int3: a call to (odd stub address - 1) must trap, not slide into the stub */
	unsigned char *c = jit + jit_off;
	uint64_t target = (uint64_t) (uintptr_t) defer_common;
	c[0] = 0xbe;				/* mov $imm32,%esi */
	memcpy(c + 1, &id, 4);
	c[5] = 0x48; c[6] = 0xb8;		/* movabs $imm64,%rax */
	memcpy(c + 7, &target, 8);
	c[15] = 0xff; c[16] = 0xe0;		/* jmp *%rax */
	jit_off += 17 + 7;
	return (void (*)(void *)) c;
}

#if VP_TSAN
/* The defer ring publishes its slots with cmm_smp_wmb()/cmm_smp_rmb(), which are compiler barriers
 * on x86 and therefore invisible to ThreadSanitizer.  The hand-over of the *argument object* from the
 * queuing thread to whichever thread runs the call is annotated here, so that TSan judges everything
 * except the ring's own store order (which the exact-log / poison oracles of the plain builds judge). */
extern void __tsan_acquire(void *);
extern void __tsan_release(void *);
#define HANDOVER_RELEASE(p) __tsan_release(p)
#define HANDOVER_ACQUIRE(p) __tsan_acquire(p)
#else
#define HANDOVER_RELEASE(p) ((void) 0)
#define HANDOVER_ACQUIRE(p) ((void) 0)
#endif

static void defer_common(void *p, uint32_t id)
{
	uint64_t ts = ts_after();
	unsigned o = id >> 8, k = id & 0xff;
	if (o >= (unsigned) n_q || k >= NSTUB) {
		vp_violation("defer-invoked-unknown-function", "cfg=%s id=%x arg=%p", cfgname, id, p);
		return;
	}
	struct owner *w = &own[o];
	uint64_t i = __atomic_fetch_add(&w->ninv, 1, __ATOMIC_RELAXED);
	if (i < w->capq) {
		w->inv[i].id = id;
		w->inv[i].arg = p;
		VP_STORE(w->inv[i].ts, ts);
	}
	if (k >= 6) {
		struct obj *ob = p;
		HANDOVER_ACQUIRE(p);
		if (ob->state != ST_LIVE || ob->self != ob || ob->sum != osum(ob->id)) {
			vp_violation("defer-invoked-twice-or-wrong-arg", "cfg=%s object stub got %p state=%llx", cfgname, p,
				     (unsigned long long) ob->state);
			return;
		}
		ob->state = ST_POISON;
#if VP_ASAN || VP_TSAN
		free(ob);
#else
		ob->self = VP_POISON_PTR;
		vp_quar_put(&quar, ob);
#endif
	}
	struct vp_thr *vt = vp_self();
	__atomic_store_n(&vt->progress, vt->progress + 1, __ATOMIC_RELAXED);
}

/* ------------------------------------------------------------------ readers */

struct sec { uint64_t b, e; };
struct rthr { pthread_t tid; int idx; struct vp_rng rng; struct sec *secs; size_t nsec, cap; uint64_t total; } rthr[16];

static void *reader_main(void *arg)
{
	struct rthr *t = arg;
	vp_pin(n_q + t->idx);
	rcu_register_thread();
#if VP_IS_QSBR
	uint64_t b = ts_after();
#endif
	while (!VP_LOAD(stop_flag)) {
		struct obj *p[3];
		int nobj = 1 + vp_rand_n(&t->rng, 3);
		rcu_read_lock();
#if !VP_IS_QSBR
		uint64_t b = ts_after();
#endif
		for (int i = 0; i < nobj; i++) {
			p[i] = rcu_dereference(slots[vp_rand_n(&t->rng, NSLOTS)]);
			validate(p[i], "deref");
		}
		vp_delay_heavy(&t->rng);
		for (int i = 0; i < nobj; i++)
			validate(p[i], "after-delay");
#if !VP_IS_QSBR
		uint64_t e = ts_before();
		rcu_read_unlock();
#else
		rcu_read_unlock();
		if (vp_rand_n(&t->rng, 2))
			continue;
		uint64_t e = ts_before();
		rcu_quiescent_state();
#endif
		t->total++;
		if (t->nsec < t->cap) {
			t->secs[t->nsec].b = b;
			t->secs[t->nsec].e = e;
			t->nsec++;
		}
#if VP_IS_QSBR
		b = ts_after();
#endif
	}
	rcu_unregister_thread();
	return NULL;
}

/* ------------------------------------------------------------------ queuers */

static int reg_cycles_enabled, reclaimer_test, queuer_registered;
static const char *phase_of[MAX_Q];

static void *arg_pick(struct vp_rng *r)
{
	switch (vp_rand_n(r, 9)) {
	case 0: return (void *) ((vp_rand(r) << 3) & 0x7ffffffffff8ULL);
	case 1: return (void *) (vp_rand(r) | 1);
	case 2: return (void *) -2L;		/* the queue's internal marker value */
	case 3: return (void *) -1L;
	case 4: return NULL;
	case 5: return (void *) 1L;
	case 6: return (void *) -3L;
	case 7: return (void *) (uintptr_t) (vp_rand(r) & ~1ULL);
	default: return (void *) vp_rand(r);
	}
}

static void check_all_mine_ran(struct owner *w, const char *after)
{
	uint64_t ninv = __atomic_load_n(&w->ninv, __ATOMIC_ACQUIRE);
	if (ninv != w->nq)
		vp_violation(ninv < w->nq ? "defer-calls-pending-after-barrier" : "defer-call-invoked-twice",
			     "cfg=%s thread %d: %llu calls queued, %llu invoked when %s returned", cfgname, w->idx,
			     (unsigned long long) w->nq, (unsigned long long) ninv, after);
}

/* A queuer may itself be a registered reader (--queuer-registered=1).  defer_rcu(), the
 * barriers and defer (un)registration may call synchronize_rcu() / block on the defer mutexes and
 * must not be used inside a read-side section; an online qsbr thread counts as inside one, so the
 * registered qsbr queuer is offline whenever it is not inside its own explicit section. */
static void queuer_own_section(struct owner *w)
{
	if (!queuer_registered)
		return;
#if VP_IS_QSBR
	rcu_thread_online();
#endif
	rcu_read_lock();
	struct obj *p = rcu_dereference(slots[vp_rand_n(&w->rng, NSLOTS)]);
	validate(p, "queuer-deref");
	vp_spin_cycles(vp_rand_n(&w->rng, 2000));
	validate(p, "queuer-after-delay");
	rcu_read_unlock();
#if VP_IS_QSBR
	rcu_thread_offline();
#endif
}

static void *queuer_main(void *arg)
{
	struct owner *w = arg;
	vp_pin(w->idx);
	struct vp_thr *vt = vp_self();
	if (queuer_registered) {
		rcu_register_thread();
#if VP_IS_QSBR
		rcu_thread_offline();
#endif
	}
	phase_of[w->idx] = "register";
	if (rcu_defer_register_thread())
		vp_violation("defer-register-failed", "cfg=%s", cfgname);
	int last = 0;
	for (long i = 0; i < calls_per_q && !vp_nviolations(); i++) {
		int k;
		if (vp_rand_n(&w->rng, 10) < 6)
			k = last;
		else
			k = (int) vp_rand_n(&w->rng, NSTUB);
		if (vp_rand_n(&w->rng, 12) == 0)
			k = 6 + (int) vp_rand_n(&w->rng, 2);
		last = k;
		void *a;
		if (k >= 6) {
			struct obj *n = obj_new();
			a = rcu_xchg_pointer(&slots[vp_rand_n(&w->rng, NSLOTS)], n);
			if (!a)
				continue;
		} else
			a = arg_pick(&w->rng);
		struct qent *q = &w->q[w->nq];
		q->id = ((uint32_t) w->idx << 8) | (uint32_t) k;
		q->arg = a;
		q->c = ts_before();
		phase_of[w->idx] = "defer_rcu";
		if (k >= 6)
			HANDOVER_RELEASE(a);
		defer_rcu(w->stub[k], a);
		q->enq_ret = ts_after();
		w->nq++;
		__atomic_store_n(&vt->progress, vt->progress + 1, __ATOMIC_RELAXED);
		uint32_t x = vp_rand_n(&w->rng, 10000);
		if (x < 30) {
			struct bar *b = w->nbar < w->capbar ? &w->bars[w->nbar++] : NULL;
			phase_of[w->idx] = "rcu_defer_barrier";
			uint64_t c = ts_before();
			rcu_defer_barrier();
			uint64_t r = ts_after();
			if (b) { b->call = c; b->ret = r; }
			check_all_mine_ran(w, "rcu_defer_barrier()");
			w->barriers++;
		} else if (x < 60) {
			phase_of[w->idx] = "rcu_defer_barrier_thread";
			rcu_defer_barrier_thread();
			check_all_mine_ran(w, "rcu_defer_barrier_thread()");
			w->barrier_threads++;
		} else if (x < 75 && reclaimer_test) {
			/* make no further API call: the background reclaimer must run what is queued */
			phase_of[w->idx] = "waiting-for-reclaimer";
			uint64_t t0 = vp_now_ns();
			int served = 0;
			while (vp_now_ns() - t0 < 30000000000ULL) {
				if (__atomic_load_n(&w->ninv, __ATOMIC_ACQUIRE) == w->nq) { served = 1; break; }
				usleep(2000);
			}
			w->reclaimer_waits++;
			if (served)
				w->reclaimer_served++;
			else {
				int32_t fx = VP_PEEK(defer_futex)();
				unsigned long pend = VP_PEEK(defer_pending_nolock)();
				if (fx == -1 && pend > 0)
					vp_violation("defer-reclaimer-asleep-with-pending",
						     "cfg=%s thread %d: %llu queued, %llu invoked after 30 s without API calls; defer_thread_futex=-1, pending=%lu",
						     cfgname, w->idx, (unsigned long long) w->nq,
						     (unsigned long long) w->ninv, pend);
				else
					vp_inconclusive("reclaimer did not serve the queue within 30 s but is not parked");
			}
		} else if (x < 95 && reg_cycles_enabled) {
			phase_of[w->idx] = "unregister";
			rcu_defer_unregister_thread();
			check_all_mine_ran(w, "rcu_defer_unregister_thread()");
			phase_of[w->idx] = "re-register";
			if (rcu_defer_register_thread())
				vp_violation("defer-register-failed", "cfg=%s (re-registration)", cfgname);
			w->reg_cycles++;
		} else if (x < 400)
			usleep(vp_rand_n(&w->rng, 400));
		else if (x < 3000)
			vp_spin_cycles(vp_rand_n(&w->rng, 3000));
		else if (x < 3600)
			queuer_own_section(w);
	}
	phase_of[w->idx] = "final-unregister";
	rcu_defer_unregister_thread();
	check_all_mine_ran(w, "final rcu_defer_unregister_thread()");
	if (queuer_registered) {
#if VP_IS_QSBR
		rcu_thread_online();
#endif
		rcu_unregister_thread();
	}
	phase_of[w->idx] = "done";
	return NULL;
}

/* ------------------------------------------------------------------ reclaimer-only mode
 * One queuing thread, nobody else touches the defer API, so only the background reclaimer can run
 * what is queued.  Each round: one call wakes the reclaimer; when the reclaimer starts its batch
 * (hook DEFER_THR_BATCH) the queuer waits a little and queues a burst that lands *while the reclaimer is
 * inside its grace period* (too late for that batch); then it stays quiet.  The reclaimer must notice
 * the leftovers when it next decides whether to sleep.  Stuck state = defer_thread_futex == -1 with calls
 * pending and nothing served for 30 s: a violation; mere expiry otherwise: inconclusive. */
static int rm_batch_started, rm_after_dec;
static void rm_hook(int point, const void *ctx)
{
	(void) ctx;
	if (point == URCU_VP_DEFER_THR_BATCH)
		VP_STORE(rm_batch_started, VP_LOAD(rm_batch_started) + 1);
	else if (point == URCU_VP_DEFER_WAIT_AFTER_DEC)
		VP_STORE(rm_after_dec, VP_LOAD(rm_after_dec) + 1);
}

static void rm_queue_one(struct owner *w, int k)
{
	void *a = arg_pick(&w->rng);
	struct qent *q = &w->q[w->nq];
	q->id = ((uint32_t) w->idx << 8) | (uint32_t) k;
	q->arg = a;
	q->c = ts_before();
	defer_rcu(w->stub[k], a);
	q->enq_ret = ts_after();
	w->nq++;
}

/* an older, idle registered defer thread: the reclaimer's decision to sleep must take EVERY registered
 * queue into account, not only the first or the last one on its list */
static int rm_idle_registered, rm_idle_stop;
static void *reclaimer_mode_idle_main(void *arg)
{
	struct owner *w = arg;
	vp_pin(w->idx);
	if (rcu_defer_register_thread())
		vp_violation("defer-register-failed", "cfg=%s (idle thread)", cfgname);
	VP_STORE(rm_idle_registered, 1);
	while (!VP_LOAD(rm_idle_stop))
		usleep(1000);
	rcu_defer_unregister_thread();
	phase_of[w->idx] = "done";
	return NULL;
}

static uint64_t rm_rounds, rm_in_gp_window, rm_served;
static void *reclaimer_mode_main(void *arg)
{
	struct owner *w = arg;
	vp_pin(w->idx);
	struct vp_thr *vt = vp_self();
	phase_of[w->idx] = "register";
	if (rcu_defer_register_thread())
		vp_violation("defer-register-failed", "cfg=%s", cfgname);
	long rounds = calls_per_q;
	for (long r = 0; r < rounds && !vp_nviolations(); r++) {
		int b0 = VP_LOAD(rm_batch_started);
		phase_of[w->idx] = "defer_rcu";
		rm_queue_one(w, (int) vp_rand_n(&w->rng, 6));	/* wakes the reclaimer if it sleeps */
		/* wait for the reclaimer to start a batch (it polls 100 ms first) */
		uint64_t t0 = vp_now_ns();
		while (VP_LOAD(rm_batch_started) == b0 && vp_now_ns() - t0 < 5000000000ULL)
			usleep(200);
		int d0 = VP_LOAD(rm_after_dec);
		if (VP_LOAD(rm_batch_started) != b0) {
			vp_spin_cycles(20000 + vp_rand_n(&w->rng, 400000));
			int burst = 1 + (int) vp_rand_n(&w->rng, 5);
			for (int i = 0; i < burst; i++)
				rm_queue_one(w, (int) vp_rand_n(&w->rng, 6));
			if (VP_LOAD(rm_after_dec) == d0 && __atomic_load_n(&w->ninv, __ATOMIC_ACQUIRE) < w->nq - (uint64_t) burst + 0)
				rm_in_gp_window++;	/* batch not finished, first call of the round not yet run: burst is a leftover */
		}
		rm_rounds++;
		phase_of[w->idx] = "waiting-for-reclaimer";
		t0 = vp_now_ns();
		int served = 0;
		while (vp_now_ns() - t0 < 30000000000ULL) {
			if (__atomic_load_n(&w->ninv, __ATOMIC_ACQUIRE) == w->nq) { served = 1; break; }
			usleep(500);
		}
		w->reclaimer_waits++;
		__atomic_store_n(&vt->progress, vt->progress + 1, __ATOMIC_RELAXED);
		if (served) {
			w->reclaimer_served++;
			rm_served++;
			continue;
		}
		int32_t fx = VP_PEEK(defer_futex)();
		unsigned long pend = VP_PEEK(defer_pending_nolock)();
		if (fx == -1 && pend > 0)
			vp_violation("defer-reclaimer-asleep-with-pending",
				     "cfg=%s round %ld: %llu queued, %llu invoked after 30 s without API calls; defer_thread_futex=-1, pending=%lu (calls queued while the reclaimer was inside its grace period were never noticed)",
				     cfgname, r, (unsigned long long) w->nq, (unsigned long long) w->ninv, pend);
		else
			vp_inconclusive("reclaimer did not serve the queue within 30 s but is not parked");
		break;
	}
	phase_of[w->idx] = "final-unregister";
	rcu_defer_unregister_thread();
	check_all_mine_ran(w, "final rcu_defer_unregister_thread()");
	phase_of[w->idx] = "done";
	return NULL;
}

static int confirm_stuck(char *buf, size_t len)
{
	const char *ph = "?";
	for (int i = 0; i < n_q; i++)
		if (phase_of[i] && strcmp(phase_of[i], "done") && strcmp(phase_of[i], "waiting-for-reclaimer"))
			ph = phase_of[i];
	snprintf(buf, len, "hang:defer:%s:in=%s", cfgname, ph);
	return 1;
}

extern unsigned long vp_tun_defer_qsize;
extern int vp_tun_bp_sleep_ms;
extern unsigned int vp_tun_qs_attempts, vp_tun_wait_attempts;

int main(int argc, char **argv)
{
	vp_init(argc, argv, "defer_" VP_FLAVOR_NAME);
	cfgname = vp_arg("cfg", VP_FLAVOR_NAME);
	n_q = (int) vp_arg_long("queuers", 3);
	n_readers = (int) vp_arg_long("readers", 2);
	calls_per_q = vp_arg_long("calls", 100000);
	reg_cycles_enabled = (int) vp_arg_long("reg-cycles", 1);
	reclaimer_test = (int) vp_arg_long("reclaimer", 1);
	queuer_registered = (int) vp_arg_long("queuer-registered", 0);
	vp_tun_bp_sleep_ms = (int) vp_arg_long("tun-bp-sleep", 10);
	vp_tun_qs_attempts = (unsigned) vp_arg_long("tun-qs", 100);
	vp_tun_wait_attempts = (unsigned) vp_arg_long("tun-wait", 1000);
	vp_tun_defer_qsize = (unsigned long) vp_arg_long("qsize", 4096);
	double hookp = vp_arg_double("hook-prob", 0.05);
	if (n_q > MAX_Q || n_readers > 16 || (vp_tun_defer_qsize & (vp_tun_defer_qsize - 1)) || vp_tun_defer_qsize < 8)
		return 2;
	vp_point_set(URCU_VP_DEFER_HEAD_PUBLISHED, hookp / 20, VP_D_HEAVY);
	vp_point_set(URCU_VP_DEFER_WAIT_AFTER_DEC, hookp * 4, VP_D_HEAVY);
	vp_point_set(URCU_VP_DEFER_THR_BATCH, hookp * 4, VP_D_HEAVY);
	vp_point_set(URCU_VP_DEFER_FULL_FLUSH, hookp, VP_D_HEAVY);
	vp_quar_init(&quar, 1 << 15, obj_release);
	for (int i = 0; i < NSLOTS; i++)
		slots[i] = obj_new();
	jit = mmap(NULL, 65536, PROT_READ | PROT_WRITE | PROT_EXEC, MAP_PRIVATE | MAP_ANONYMOUS, -1, 0);
	if (jit == MAP_FAILED) {
		perror("mmap jit");
		return 2;
	}
	int odd_stubs = 0, even_stubs = 0;
	for (int i = 0; i < n_q; i++) {
		struct owner *w = &own[i];
		w->idx = i;
		vp_rng_init(&w->rng, vp_opt.seed, 0xdef3, (uint64_t) i);
		w->capq = (uint64_t) calls_per_q * (!strcmp(vp_arg("mode", "mixed"), "reclaimer") ? 8 : 1) + 64;
		w->q = calloc(w->capq, sizeof(struct qent));
		w->inv = calloc(w->capq, sizeof(struct ient));
		w->capbar = 4096;
		w->bars = calloc(w->capbar, sizeof(struct bar));
		for (int k = 0; k < NSTUB; k++) {
			w->stub[k] = make_stub(((uint32_t) i << 8) | (uint32_t) k, k & 1);
			if ((uintptr_t) w->stub[k] & 1) odd_stubs++; else even_stubs++;
		}
	}
	vp_watchdog_start((uint64_t) vp_arg_long("stall-ms", 40000), confirm_stuck);
	for (int i = 0; i < n_readers; i++) {
		rthr[i].idx = i;
		vp_rng_init(&rthr[i].rng, vp_opt.seed, 0x4eae, (uint64_t) i);
		rthr[i].cap = 1 << 20;
		rthr[i].secs = malloc(rthr[i].cap * sizeof(struct sec));
		pthread_create(&rthr[i].tid, NULL, reader_main, &rthr[i]);
	}
	int reclaimer_mode = !strcmp(vp_arg("mode", "mixed"), "reclaimer");
	if (reclaimer_mode) {
		vp_user_hook = rm_hook;
		n_q = 2;	/* owner 0: registered first, idle; owner 1: the only thread that queues */
		pthread_create(&own[0].tid, NULL, reclaimer_mode_idle_main, &own[0]);
		while (!VP_LOAD(rm_idle_registered))
			usleep(100);
		pthread_create(&own[1].tid, NULL, reclaimer_mode_main, &own[1]);
		pthread_join(own[1].tid, NULL);
		VP_STORE(rm_idle_stop, 1);
		pthread_join(own[0].tid, NULL);
	}
	for (int i = 0; i < n_q && !reclaimer_mode; i++)
		pthread_create(&own[i].tid, NULL, queuer_main, &own[i]);
	for (int i = 0; i < n_q && !reclaimer_mode; i++)
		pthread_join(own[i].tid, NULL);
	VP_STORE(stop_flag, 1);
	for (int i = 0; i < n_readers; i++)
		pthread_join(rthr[i].tid, NULL);
	vp_watchdog_stop();

	/* exact log comparison per owner + GP-interval + barrier oracle */
	uint64_t ev = 0, nontriv = 0, enc_fct_bit = 0, enc_mark = 0, enc_plain = 0;
	for (int o = 0; o < n_q; o++) {
		struct owner *w = &own[o];
		uint64_t ninv = w->ninv;
		if (ninv != w->nq)
			vp_violation(ninv < w->nq ? "defer-call-never-invoked" : "defer-call-invoked-twice",
				     "cfg=%s thread %d: %llu queued, %llu invoked at quiescence", cfgname, o,
				     (unsigned long long) w->nq, (unsigned long long) ninv);
		uint64_t n = ninv < w->nq ? ninv : w->nq;
		for (uint64_t i = 0; i < n && i < w->capq; i++) {
			struct qent *q = &w->q[i];
			struct ient *v = &w->inv[i];
			ev++;
			if (q->id != v->id || q->arg != v->arg) {
				char path[512] = "";
				FILE *f = vp_witness_open("defer-log", path, sizeof(path));
				if (f) {
					fprintf(f, "cfg=%s owner=%d qsize=%lu first mismatch at index %llu\n", cfgname, o,
						vp_tun_defer_qsize, (unsigned long long) i);
					for (uint64_t j = i > 8 ? i - 8 : 0; j < n && j < i + 8; j++)
						fprintf(f, "%llu: queued fct=%p(id %x) arg=%p | invoked id %x arg=%p\n",
							(unsigned long long) j, (void *) w->stub[w->q[j].id & 0xff],
							w->q[j].id, w->q[j].arg, w->inv[j].id, w->inv[j].arg);
					fclose(f);
				}
				vp_violation("defer-wrong-function-or-argument-or-order",
					     "cfg=%s thread %d call #%llu: queued (fct id %x at %s address, arg %p) but invoked (fct id %x, arg %p); witness=%s",
					     cfgname, o, (unsigned long long) i, q->id,
					     ((uintptr_t) w->stub[q->id & 0xff] & 1) ? "odd" : "even", q->arg, v->id, v->arg, path);
				break;
			}
			/* which encoding did this call exercise? */
			int fct_odd = (int) ((uintptr_t) w->stub[q->id & 0xff] & 1);
			int changed = (i == 0) || w->q[i - 1].id != q->id;
			int argflag = ((uintptr_t) q->arg & 1) || q->arg == (void *) -2L;
			if ((changed || argflag) && fct_odd)
				enc_mark++;
			else if (changed || argflag)
				enc_fct_bit++;
			else
				enc_plain++;
			uint64_t ts = VP_LOAD(v->ts);
			int overl = 0;
			if (i % 7 == 0 || (q->id & 0xff) >= 6)
			for (int rd = 0; rd < n_readers; rd++) {
				struct rthr *rt = &rthr[rd];
				size_t lo = 0, hi = rt->nsec;
				while (lo < hi) {
					size_t mid = (lo + hi) / 2;
					if (rt->secs[mid].b < q->c)
						lo = mid + 1;
					else
						hi = mid;
				}
				if (!lo)
					continue;
				struct sec *s = &rt->secs[lo - 1];
				if (s->e > q->c)
					overl++;
				if (vp_eps && s->b + vp_eps < q->c && s->e > ts + vp_eps)
					vp_violation("defer-call-before-grace-period",
						     "cfg=%s thread %d call #%llu queued at %llu ran at %llu while reader %d section [%llu,%llu] that began before defer_rcu() was still open (eps=%llu)",
						     cfgname, o, (unsigned long long) i, (unsigned long long) q->c,
						     (unsigned long long) ts, rd, (unsigned long long) s->b,
						     (unsigned long long) s->e, (unsigned long long) vp_eps);
			}
			if (overl) {
				nontriv++;
				vp_sig_add("%s:q=%lu:stub=%s%s:arg=%s:fct-%s:pre-existing=%d", cfgname, vp_tun_defer_qsize,
					   fct_odd ? "odd" : "even", (q->id & 0xff) >= 6 ? "-obj" : "",
					   q->arg == (void *) -2L ? "marker" : (((uintptr_t) q->arg & 1) ? "lowbit" : "plain"),
					   changed ? "changed" : "repeated", overl);
			}
		}
		/* barrier oracle against every other owner's calls */
		for (uint64_t b = 0; b < w->nbar; b++) {
			uint64_t c = w->bars[b].call, r = w->bars[b].ret;
			if (!vp_eps)
				break;
			for (int p = 0; p < n_q; p++) {
				struct owner *x = &own[p];
				uint64_t lim = x->ninv < x->nq ? x->ninv : x->nq;
				/* last call of x with enq_ret + eps < c */
				uint64_t lo = 0, hi = lim;
				while (lo < hi) {
					uint64_t mid = (lo + hi) / 2;
					if (x->q[mid].enq_ret + vp_eps < c)
						lo = mid + 1;
					else
						hi = mid;
				}
				if (!lo)
					continue;
				uint64_t ts = VP_LOAD(x->inv[lo - 1].ts);
				if (ts > r + vp_eps)
					vp_violation("defer-barrier-returned-before-earlier-call-ran",
						     "cfg=%s rcu_defer_barrier() by thread %d [%llu,%llu] returned but call #%llu of thread %d (defer_rcu returned at %llu) ran at %llu",
						     cfgname, o, (unsigned long long) c, (unsigned long long) r,
						     (unsigned long long) (lo - 1), p, (unsigned long long) x->q[lo - 1].enq_ret,
						     (unsigned long long) ts);
			}
		}
	}
	if (!vp_eps)
		vp_inconclusive("tsc-calibration-failed: interval oracles skipped");
	uint64_t regc = 0, bars = 0, bts = 0, rw = 0, rs = 0;
	for (int o = 0; o < n_q; o++) {
		regc += own[o].reg_cycles;
		bars += own[o].barriers;
		bts += own[o].barrier_threads;
		rw += own[o].reclaimer_waits;
		rs += own[o].reclaimer_served;
	}
	if (n_q > 0 && own[0].nq > 6)
		vp_sample_add("cfg=%s qsize=%lu thread 0 first calls: (%x,%p) (%x,%p) (%x,%p) (%x,%p) (%x,%p) (%x,%p) ... %llu calls, all invoked in order",
			      cfgname, vp_tun_defer_qsize, own[0].q[0].id, own[0].q[0].arg, own[0].q[1].id, own[0].q[1].arg,
			      own[0].q[2].id, own[0].q[2].arg, own[0].q[3].id, own[0].q[3].arg, own[0].q[4].id, own[0].q[4].arg,
			      own[0].q[5].id, own[0].q[5].arg, (unsigned long long) own[0].nq);
	vp_counter_add("evaluations", ev);
	vp_counter_add("nontrivial", nontriv);
	vp_counter_add("encoding_fct_bit", enc_fct_bit);
	vp_counter_add("encoding_marker", enc_mark);
	vp_counter_add("encoding_repeat", enc_plain);
	vp_counter_add("odd_address_stubs", (uint64_t) odd_stubs);
	vp_counter_add("even_address_stubs", (uint64_t) even_stubs);
	vp_counter_add("register_cycles", regc);
	vp_counter_add("defer_barriers", bars);
	vp_counter_add("defer_barrier_threads", bts);
	vp_counter_add("reclaimer_waits", rw);
	vp_counter_add("reclaimer_served", rs);
	if (reclaimer_mode) {
		vp_counter_add("reclaimer_mode_rounds", rm_rounds);
		vp_counter_add("reclaimer_mode_burst_during_gp", rm_in_gp_window);
		vp_sig_add("%s:reclaimer-only:burst-during-gp=%s", cfgname, rm_in_gp_window ? "yes" : "no");
		vp_sample_add("cfg=%s reclaimer-only mode: %llu rounds, %llu bursts queued while the reclaimer was inside its grace period, %llu rounds fully served by the reclaimer alone",
			      cfgname, (unsigned long long) rm_rounds, (unsigned long long) rm_in_gp_window, (unsigned long long) rm_served);
	}
#if !(VP_ASAN || VP_TSAN)
	vp_quar_drain(&quar);
#endif
	return vp_finish();
}
