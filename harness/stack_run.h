/*
 * stack_run.h - C11 long runs with streaming oracles and the ABA run (included by stack.c).
 *
 * LONG RUN (--mode=long): per (kind, scheme) rounds of --round-ms; nodes carry a fresh unique id
 * (pusher << 32 | counter) for every push.
 *   exactly-once   every popper keeps one bitmap per pusher (bit = counter): a bit already set =
 *                  duplicate; at the end of the round (all threads stopped, stack drained by a final
 *                  pop_all) the bitmaps of all poppers must partition [1, pushed] of every pusher.
 *   conservation   pushed == popped + drained (follows from the partition; also counted).
 *   LIFO chain     inside ONE pop_all chain the ids of one pusher appear in decreasing counter order.
 *   node state     plain `state` word: INSTACK set before the push, checked + set OWNED after the pop.
 *   quiescent      empty() / push result / LAST state / NULL on the drained stack.
 * ABA RUN (--mode=aba): see run_aba().
 */

#define L_POOL 2048
#define L_CAP (1u << 25)
#define L_PEND 32

struct lthr {
	pthread_t tid;
	int idx;
	struct vp_rng rng;
	struct snode **freel;
	int nfree;
	struct snode **pend;
	int npend;
	struct snode **chain;
	uint64_t pushed;
	uint64_t *bm[MAX_W];
	struct snode **ret;		/* single consumer -> home pusher, SPSC */
	uint64_t ret_head, ret_tail;
	uint64_t n_push, n_push_first, n_pop, n_pop_null, n_wouldblock, n_popall, n_popall_nodes, n_empty, n_empty_true,
		 n_sync, n_iter_wb, n_last;
	char pad[64];
} __attribute__((aligned(64)));
static struct lthr L[MAX_W];
static struct snode *lnodes;
static int l_total;
static int l_stop, l_finish, l_bias;
static long opt_round_ms;
static uint64_t l_round_end_ns;
static uint64_t l_rounds, l_ops_total;

static void l_fail(const char *what, const char *fmt, ...) __attribute__((format(printf, 2, 3)));
static void l_fail(const char *what, const char *fmt, ...)
{
	char key[128], msg[500];
	va_list ap;

	va_start(ap, fmt);
	vsnprintf(msg, sizeof(msg), fmt, ap);
	va_end(ap);
	snprintf(key, sizeof(key), "stack:%s:%s:%s", kind_name[cur_kind], what, scheme_name[cur_scheme]);
	vp_violation(key, "long run, round %llu: %s", (unsigned long long) l_rounds, msg);
}

static void l_record_pop(struct lthr *t, struct snode *n, const char *how)
{
	uint64_t id = n->id;		/* PLAIN load */
	uint32_t st = n->state;
	unsigned q = (unsigned) (id >> 32);
	uint32_t c = (uint32_t) id;

	if (st != NS_INSTACK)
		l_fail("node-popped-while-owned", "thread %d %s returned node %p id=%u:%u whose state is %x (not in the stack: owned by a thread / returned twice)",
		       t->idx, how, (void *) n, q, c, st);
	n->state = NS_OWNED;
	if (q >= (unsigned) nthreads || c == 0 || c > L_CAP) {
		l_fail("garbage-id", "thread %d %s returned node %p with id %llx", t->idx, how, (void *) n, (unsigned long long) id);
		return;
	}
	uint64_t *w = &t->bm[q][(c - 1) >> 6], bit = 1ULL << ((c - 1) & 63);
	if (*w & bit)
		l_fail("duplicate-pop", "id %u:%u returned twice to thread %d (%s)", q, c, t->idx, how);
	*w |= bit;
}

static void l_give_back(struct lthr *t, struct snode *n)
{
	if (cur_scheme == S_SINGLE) {
		struct lthr *h = &L[n->home];
		uint64_t tail = h->ret_tail;
		h->ret[tail & (L_POOL - 1)] = n;
		__atomic_store_n(&h->ret_tail, tail + 1, __ATOMIC_RELEASE);
	} else if (cur_scheme == S_RCU || cur_kind == K_LFSRCU)
		t->pend[t->npend++] = n;
	else
		t->freel[t->nfree++] = n;
}

static void l_flush_pending(struct lthr *t)
{
	if (!t->npend)
		return;
	synchronize_rcu();
	t->n_sync++;
	for (int i = 0; i < t->npend; i++)
		t->freel[t->nfree++] = t->pend[i];
	t->npend = 0;
}

static struct snode *l_get_free(struct lthr *t)
{
	if (t->nfree)
		return t->freel[--t->nfree];
	if (cur_scheme == S_SINGLE) {
		uint64_t head = t->ret_head;
		if (__atomic_load_n(&t->ret_tail, __ATOMIC_ACQUIRE) == head)
			return NULL;
		t->ret_head = head + 1;
		return t->ret[head & (L_POOL - 1)];
	}
	if (t->npend) {
		l_flush_pending(t);
		return t->freel[--t->nfree];
	}
	return NULL;
}

static void l_push(struct lthr *t, struct snode *n)
{
	uint64_t tc, tr;

	n->id = ((uint64_t) t->idx << 32) | (uint32_t) ++t->pushed;
	n->state = NS_INSTACK;
	if (cur_scheme != S_SINGLE)
		n->home = (uint16_t) t->idx;
	node_prepare(n);
	VP_STORE(W[t->idx].in_op, 1 + OP_PUSH);
	if (!stack_push(n, &tc, &tr))
		t->n_push_first++;
	VP_STORE(W[t->idx].in_op, 0);
	t->n_push++;
}

static void l_pop(struct lthr *t)
{
	uint64_t tc, tr;
	int st, pv = PV_BLOCKING, internal = (int) vp_rand_n(&t->rng, 2);
	struct snode *n;

	if (cur_kind == K_WFS)
		pv = (int) vp_rand_n(&t->rng, PV_NR);
	VP_STORE(W[t->idx].in_op, 1 + OP_POP);
	n = stack_pop(pv, internal, &st, &tc, &tr);
	VP_STORE(W[t->idx].in_op, 0);
	if (n == SN_WOULDBLOCK) {
		t->n_wouldblock++;
		return;
	}
	if (!n) {
		t->n_pop_null++;
		if (st != -1 && st != 0)
			l_fail("state-with-null", "pop_%s returned NULL with state=%d", pv_names[pv], st);
		return;
	}
	if (st != -1 && (st & ~(int) CDS_WFS_STATE_LAST))
		l_fail("state-garbage", "pop_%s returned state=%d", pv_names[pv], st);
	if (st > 0)
		t->n_last++;
	t->n_pop++;
	l_record_pop(t, n, "pop");
	l_give_back(t, n);
}

static int l_popall(struct lthr *t, int drain)
{
	uint64_t tc, tr;
	unsigned wb = 0;
	uint32_t last[MAX_W];
	int it = (int) vp_rand_n(&t->rng, cur_kind == K_WFS ? IT_NR : 2), cnt;
	void *head;

	VP_STORE(W[t->idx].in_op, 1 + OP_POPALL);
	head = stack_pop_all((int) vp_rand_n(&t->rng, 2), (int) vp_rand_n(&t->rng, 2), &tc, &tr);
	cnt = chain_iter(head, it, t->chain, l_total + 1, &wb);
	VP_STORE(W[t->idx].in_op, 0);
	t->n_iter_wb += wb;
	if (cnt < 0) {
		l_fail("popall-chain-does-not-end", "thread %d: chain of pop_all has more than %d nodes (only %d exist)", t->idx,
		       l_total, l_total);
		return 0;
	}
	if (!drain)
		t->n_popall++;
	t->n_popall_nodes += (uint64_t) cnt;
	memset(last, 0xff, sizeof(last));
	for (int i = 0; i < cnt; i++) {
		struct snode *n = t->chain[i];
		unsigned q = (unsigned) (n->id >> 32);
		uint32_t c = (uint32_t) n->id;
		if (q < (unsigned) nthreads) {
			if (c >= last[q])
				l_fail("popall-order", "chain of one pop_all (%s, %d nodes) holds id %u:%u BELOW id %u:%u of the same pusher: not LIFO",
				       it_names[it], cnt, q, last[q], q, c);
			last[q] = c;
		}
		l_record_pop(t, n, "pop_all");
	}
	for (int i = 0; i < cnt; i++)
		l_give_back(t, t->chain[i]);
	return cnt;
}

static void l_quiescent(struct lthr *t)
{
	uint64_t tc, tr;
	int st, r;
	struct snode *a = t->freel[t->nfree - 1], *b = t->freel[t->nfree - 2], *n;
	int pv1 = cur_kind == K_WFS ? PV_STATE_BLOCKING : PV_BLOCKING;
	int pv2 = cur_kind == K_WFS ? PV_STATE_NONBLOCKING : PV_BLOCKING;

	if (cur_kind != K_LFSRCU && !stack_empty(&tc, &tr))
		l_fail("quiescent:empty-false-on-drained-stack", "empty() = 0 right after the final pop_all with every thread stopped");
	node_prepare(a);
	node_prepare(b);
	r = stack_push(a, &tc, &tr);
	if (r)
		l_fail("quiescent:push-on-empty-says-nonempty", "push on the drained stack returned %d", r);
	if (cur_kind != K_LFSRCU && stack_empty(&tc, &tr))
		l_fail("quiescent:empty-true-after-push", "empty() = 1 with one node pushed");
	r = stack_push(b, &tc, &tr);
	if (!r)
		l_fail("quiescent:push-on-nonempty-says-empty", "second push returned 0");
	n = stack_pop(pv1, 1, &st, &tc, &tr);
	if (n != b || (st != -1 && st != 0))
		l_fail("quiescent:pop-wrong", "pop of 2-node stack returned %p (expected %p) state=%d (expected 0)", (void *) n, (void *) b, st);
	n = stack_pop(pv2, 0, &st, &tc, &tr);
	if (n != a || (st != -1 && st != (int) CDS_WFS_STATE_LAST))
		l_fail("quiescent:last-pop-wrong", "pop of 1-node stack returned %p (expected %p) state=%d (expected LAST)", (void *) n,
		       (void *) a, st);
	if (cur_kind != K_LFSRCU && !stack_empty(&tc, &tr))
		l_fail("quiescent:empty-false-after-last-pop", "empty() = 0 after the last node was popped");
	n = stack_pop(pv2, 0, &st, &tc, &tr);
	if (n != NULL)
		l_fail("quiescent:pop-on-empty-not-null", "pop on the empty stack returned %p", (void *) n);
	if (cur_kind != K_LFSRCU && stack_pop_all(1, 0, &tc, &tr) != NULL)
		l_fail("quiescent:pop_all-on-empty-not-null", "pop_all on the empty stack returned a chain");
	if (cur_scheme == S_RCU || cur_kind == K_LFSRCU)
		synchronize_rcu();
}

/* worker 0, every other thread waits at a barrier */
static void l_round_end(void)
{
	struct lthr *t = &L[0];
	uint64_t pushed = 0, popped = 0;

	if (cur_kind == K_LFSRCU) {
		for (int i = 0; i <= l_total; i++) {
			uint64_t tc, tr;
			int st;
			struct snode *n = stack_pop(PV_BLOCKING, 0, &st, &tc, &tr);
			if (!n)
				break;
			l_record_pop(t, n, "final pop");
			t->n_pop++;
		}
	} else
		l_popall(t, 1);
	for (int q = 0; q < nthreads; q++) {
		uint64_t n = L[q].pushed, words = (n + 63) / 64;
		for (uint64_t i = 0; i < words; i++) {
			uint64_t acc = 0, dup = 0, expect = (i == words - 1 && (n & 63)) ? (1ULL << (n & 63)) - 1 : ~0ULL;
			for (int p = 0; p < nthreads; p++) {
				uint64_t w = L[p].bm[q][i];
				dup |= acc & w;
				acc |= w;
				L[p].bm[q][i] = 0;
			}
			if (dup)
				l_fail("duplicate-pop", "id %d:%llu returned to two different threads", q,
				       (unsigned long long) (i * 64 + (uint64_t) __builtin_ctzll(dup) + 1));
			if (acc & ~expect)
				l_fail("popped-never-pushed", "id %d:%llu was returned but pusher %d only pushed %llu nodes", q,
				       (unsigned long long) (i * 64 + (uint64_t) __builtin_ctzll(acc & ~expect) + 1), q, (unsigned long long) n);
			if (~acc & expect)
				l_fail("lost-node", "id %d:%llu was pushed (of %llu) but returned by no pop / pop_all, and is not in the stack after the final pop_all",
				       q, (unsigned long long) (i * 64 + (uint64_t) __builtin_ctzll(~acc & expect) + 1), (unsigned long long) n);
		}
		/* a popper may have set bits beyond `words` only through garbage ids: clear a margin */
		for (int p = 0; p < nthreads; p++)
			L[p].bm[q][words] = 0;
	}
	for (int i = 0; i < nthreads; i++) {
		pushed += L[i].n_push;
		popped += L[i].n_pop + L[i].n_popall_nodes;
	}
	if (pushed != popped)
		l_fail("conservation", "%llu nodes pushed, %llu returned by pop + pop_all including the final drain",
		       (unsigned long long) pushed, (unsigned long long) popped);
	/* every node is owned by the harness again: rebuild the free lists */
	if (cur_scheme == S_RCU || cur_kind == K_LFSRCU)
		synchronize_rcu();
	for (int i = 0; i < nthreads; i++) {
		L[i].nfree = L[i].npend = 0;
		L[i].ret_head = L[i].ret_tail = 0;
		L[i].pushed = 0;
	}
	for (int i = 0; i < l_total; i++) {
		struct lthr *h = &L[i / L_POOL];
		if (lnodes[i].state == NS_INSTACK && !vp_nviolations())
			l_fail("lost-node", "node #%d still marked in-stack after the final drain", i);
		lnodes[i].state = NS_OWNED;
		lnodes[i].home = (uint16_t) h->idx;
		h->freel[h->nfree++] = &lnodes[i];
	}
	l_quiescent(t);
	l_rounds++;
}

static void l_round_begin(void)
{
	struct lthr *t = &L[0];

	if ((double) (vp_now_ns() - t_start_ns) / 1e9 >= opt_seconds || vp_nviolations()) {
		l_finish = 1;
		return;
	}
	combo_i = (combo_i + 1) % ncombos;
	VP_STORE(cur_kind, combos[combo_i].kind);
	VP_STORE(cur_scheme, combos[combo_i].scheme);
	ep.consumer = 0;
	l_bias = 35 + (int) vp_rand_n(&t->rng, 31);
	l_round_end_ns = vp_now_ns() + (uint64_t) opt_round_ms * 1000000ULL;
	VP_STORE(l_stop, 0);
}

static void *l_worker(void *arg)
{
	struct lthr *t = arg;
	struct vp_thr *vt;

	vp_pin(t->idx);
	vt = vp_self();
	rcu_register_thread();
	for (;;) {
		if (t->idx == 0)
			l_round_begin();
		vp_rcu_offline();
		bar_wait();
		vp_rcu_online();
		if (VP_LOAD(l_finish))
			break;
		int consumer = cur_scheme != S_SINGLE || t->idx == 0;
		int pusher = cur_scheme != S_SINGLE || t->idx != 0;
		uint64_t k = 0;
		while (!VP_LOAD(l_stop)) {
			if ((++k & 255) == 0) {
				VP_STORE(vt->progress, vt->progress + 1);
				if (t->idx == 0 && vp_now_ns() >= l_round_end_ns)
					VP_STORE(l_stop, 1);
				vp_rcu_qs();
			}
			uint32_t r = vp_rand_n(&t->rng, 1000);
			struct snode *n = NULL;
			int want_push = pusher && t->pushed < L_CAP && (!consumer || r < (uint32_t) l_bias * 10);
			if (want_push && (n = l_get_free(t))) {
				l_push(t, n);
				continue;
			}
			if (!consumer) {
				if (r < 20 && cur_kind != K_LFSRCU) {
					uint64_t tc, tr;
					t->n_empty++;
					t->n_empty_true += (uint64_t) stack_empty(&tc, &tr);
				} else
					caa_cpu_relax();
				continue;
			}
			if (cur_kind == K_LFSRCU || r < 975)
				l_pop(t);
			else if (r < 988)
				l_popall(t, 0);
			else {
				uint64_t tc, tr;
				t->n_empty++;
				t->n_empty_true += (uint64_t) stack_empty(&tc, &tr);
			}
			if (t->npend >= L_PEND)
				l_flush_pending(t);
		}
		l_flush_pending(t);
		vp_rcu_offline();
		bar_wait();
		vp_rcu_online();
		if (t->idx == 0)
			l_round_end();
		VP_STORE(vt->progress, vt->progress + 1);
	}
	rcu_unregister_thread();
	return NULL;
}

static int run_long(void)
{
	opt_round_ms = vp_arg_long("round-ms", 400);
	set_episode_delays(vp_arg_double("hook-prob", 0.001));
	l_total = nthreads * L_POOL;
	lnodes = calloc((size_t) l_total, sizeof(*lnodes));
	if (!lnodes)
		return 2;
	bar_init(nthreads);
	for (int i = 0; i < nthreads; i++) {
		struct lthr *t = &L[i];
		t->idx = i;
		vp_rng_init(&t->rng, vp_opt.seed, 0x10c9, (uint64_t) i);
		t->freel = calloc((size_t) l_total + 2, sizeof(void *));
		t->pend = calloc((size_t) l_total + 2, sizeof(void *));
		t->chain = calloc((size_t) l_total + 2, sizeof(void *));
		t->ret = calloc(L_POOL, sizeof(void *));
		for (int q = 0; q < nthreads; q++)
			t->bm[q] = calloc(L_CAP / 64 + 2, sizeof(uint64_t));
		if (!t->freel || !t->pend || !t->chain || !t->ret || !t->bm[nthreads - 1])
			return 2;
		for (int k = 0; k < L_POOL; k++) {
			struct snode *n = &lnodes[i * L_POOL + k];
			n->state = NS_OWNED;
			n->home = (uint16_t) i;
			t->freel[t->nfree++] = n;
		}
	}
	for (int i = 0; i < nthreads; i++)
		pthread_create(&L[i].tid, NULL, l_worker, &L[i]);
	for (int i = 0; i < nthreads; i++)
		pthread_join(L[i].tid, NULL);
	uint64_t s[12] = { 0 };
	for (int i = 0; i < nthreads; i++) {
		struct lthr *t = &L[i];
		s[0] += t->n_push; s[1] += t->n_pop; s[2] += t->n_pop_null; s[3] += t->n_wouldblock; s[4] += t->n_popall;
		s[5] += t->n_popall_nodes; s[6] += t->n_empty; s[7] += t->n_empty_true; s[8] += t->n_sync; s[9] += t->n_iter_wb;
		s[10] += t->n_push_first; s[11] += t->n_last;
	}
	vp_counter_add("long_ops", s[0] + s[1] + s[2] + s[3] + s[4] + s[6]);
	vp_counter_add("long_pushes", s[0]);
	vp_counter_add("long_pushes_on_empty_stack", s[10]);
	vp_counter_add("long_pops", s[1]);
	vp_counter_add("long_pops_state_last", s[11]);
	vp_counter_add("long_pops_null", s[2]);
	vp_counter_add("long_pops_wouldblock", s[3]);
	vp_counter_add("long_popall_calls", s[4]);
	vp_counter_add("long_popall_nodes", s[5]);
	vp_counter_add("long_empty_calls", s[6]);
	vp_counter_add("long_empty_true", s[7]);
	vp_counter_add("long_synchronize_rcu", s[8]);
	vp_counter_add("long_iteration_wouldblock", s[9]);
	vp_counter_add("long_rounds", l_rounds);
	vp_counter_add("evaluations", 0);
	vp_counter_add("nontrivial", 0);
	return 0;
}

/* ------------------------------------------------------------------ ABA run */

/*
 * lfstack and rculfstack, scheme rcu.  A SMALL pool (all nodes pushed at the start) is recycled as
 * fast as the grace period allows: pop inside a read-side section, mark the node owned, poison its
 * next pointer, synchronize_rcu(), push the same node again.  Poppers are delayed between the load of
 * head->next and the cmpxchg (URCU_VP_LFS_POP_BEFORE_CMPXCHG, inside their read-side section), i.e.
 * exactly in the window in which "A popped, B popped, A pushed back" would make the cmpxchg succeed
 * wrongly if A could come back too early.
 * Oracles: node state machine (a pop that returns a node the harness holds as OWNED = duplication),
 * final accounting (every pool node found exactly once by the final drain, chain bounded), poisoned
 * next of owned nodes (a stack that links to an owned node faults on VP_POISON_PTR; the crash handler
 * reports it).  lfstack documents "it is valid to overwrite the content of cds_lfs_node immediately
 * after __cds_lfs_pop", rculfstack forbids modifying the node before the grace period: the poison is
 * written at once for lfs and after the grace period for lfs_rcu.
 * --aba-no-gp=1 = NEGATIVE CONTROL (never part of the C11 check): recycle without the grace period.
 * --aba-malloc=1: nodes are really free()d after the grace period and malloc()ed again (ASan build).
 */
struct athr {
	pthread_t tid;
	int idx;
	struct vp_rng rng;
	uint64_t recycles, pop_null, popall, popall_nodes, syncs, ctr;
	char pad[64];
} __attribute__((aligned(64)));
static struct athr A[MAX_W];
static int a_stop, aba_no_gp, aba_malloc, aba_pool, aba_mutex;
static double aba_prob;
static uint64_t aba_delays[MAX_W + 1];
static __thread int a_self = MAX_W;
static struct snode *a_nodes;

static void aba_hook(int point, const void *ctx)
{
	struct vp_thr *t;
	(void) ctx;
	if (point != URCU_VP_LFS_POP_BEFORE_CMPXCHG)
		return;
	t = vp_self();
	if ((double) (vp_rand(&t->rng) >> 11) * (1.0 / 9007199254740992.0) < aba_prob) {
		aba_delays[a_self]++;
		vp_delay(&t->rng, VP_D_HEAVY);
	}
}

static void a_fail(const char *what, const char *fmt, ...) __attribute__((format(printf, 2, 3)));
static void a_fail(const char *what, const char *fmt, ...)
{
	char key[128], msg[500];
	va_list ap;

	va_start(ap, fmt);
	vsnprintf(msg, sizeof(msg), fmt, ap);
	va_end(ap);
	snprintf(key, sizeof(key), "stack:%s:aba:%s", kind_name[cur_kind], what);
	vp_violation(key, "ABA run (pool=%d nodes, %s): %s", aba_pool,
		     aba_no_gp ? "NEGATIVE CONTROL: recycling WITHOUT grace period" : (aba_mutex ? "pop-mutex scheme, immediate reuse" : "recycling after synchronize_rcu()"), msg);
}

static int a_take(struct athr *t, struct snode *n, const char *how)
{
	uint32_t old = __atomic_exchange_n(&n->state, NS_OWNED, __ATOMIC_RELAXED);
	if (old != NS_INSTACK) {
		a_fail("node-popped-while-owned", "thread %d: %s returned node %p (id %llx) whose state is %x: it is owned by a thread, i.e. it was handed out twice / the stack links to a node that is not in it",
		       t ? t->idx : -1, how, (void *) n, (unsigned long long) n->id, old);
		return 0;
	}
	if (cur_kind == K_LFS || aba_no_gp)
		n->u.next = VP_POISON_PTR;
	return 1;
}

static void a_recycle(struct athr *t, struct snode **v, int cnt)
{
	uint64_t tc, tr;

	/* mutex sub-run: pop / pop_all are serialised by the stack's pop mutex (internal: cds_lfs_pop_blocking /
	 * cds_lfs_pop_all_blocking, or explicit: cds_lfs_pop_lock around __cds_lfs_pop / __cds_lfs_pop_all), so a
	 * node may be pushed again at once - the tightest ABA schedule.  The RCU scheme needs a grace period. */
	if (!aba_no_gp && !aba_mutex) {
		synchronize_rcu();
		t->syncs++;
	}
	for (int i = 0; i < cnt; i++) {
		struct snode *n = v[i];
		if (aba_malloc) {
			free(n);
			n = malloc(sizeof(*n));
			if (!n)
				abort();
		}
		n->u.next = VP_POISON_PTR;
		if (vp_rand_n(&t->rng, 4) == 0)
			vp_spin_cycles(vp_rand_n(&t->rng, 3000));
		n->id = ((uint64_t) t->idx << 32) | (uint32_t) ++t->ctr;
		__atomic_store_n(&n->state, NS_INSTACK, __ATOMIC_RELAXED);
		node_prepare(n);
		stack_push(n, &tc, &tr);
		t->recycles++;
	}
}

static void *a_worker(void *arg)
{
	struct athr *t = arg;
	struct vp_thr *vt;
	struct snode **chain = calloc((size_t) aba_pool + 2, sizeof(void *));

	vp_pin(t->idx);
	vt = vp_self();
	a_self = t->idx;
	rcu_register_thread();
	while (!VP_LOAD(a_stop)) {
		uint64_t tc, tr;
		int st;

		VP_STORE(vt->progress, vt->progress + 1);
		vp_rcu_qs();
		if (cur_kind == K_LFS && vp_rand_n(&t->rng, aba_mutex ? 24 : 256) == 0) {
			unsigned wb = 0;
			void *head = stack_pop_all(aba_mutex ? (int) vp_rand_n(&t->rng, 2) : 0, (int) vp_rand_n(&t->rng, 2), &tc, &tr);
			int cnt = chain_iter(head, (int) vp_rand_n(&t->rng, 2), chain, aba_pool + 1, &wb), ok = 0;
			if (cnt < 0) {
				a_fail("popall-chain-does-not-end", "thread %d: pop_all chain longer than the pool", t->idx);
				break;
			}
			for (int i = 0; i < cnt; i++)
				if (a_take(t, chain[i], "pop_all"))
					chain[ok++] = chain[i];
			t->popall++;
			t->popall_nodes += (uint64_t) cnt;
			a_recycle(t, chain, ok);
			continue;
		}
		struct snode *n = stack_pop(PV_BLOCKING, aba_mutex ? (int) vp_rand_n(&t->rng, 2) : 0, &st, &tc, &tr);
		if (!n) {
			t->pop_null++;
			continue;
		}
		if (a_take(t, n, "pop"))
			a_recycle(t, &n, 1);
	}
	rcu_unregister_thread();
	free(chain);
	return NULL;
}

static void aba_one_kind(double seconds)
{
	uint64_t tc, tr, t_end;
	struct snode **chain = calloc((size_t) aba_pool + 2, sizeof(void *));
	int found = 0, st;

	stacks_init();
	a_nodes = calloc((size_t) aba_pool, sizeof(*a_nodes));
	for (int i = 0; i < aba_pool; i++) {
		struct snode *n = aba_malloc ? malloc(sizeof(*n)) : &a_nodes[i];
		n->id = 0xabaULL << 32 | (unsigned) i;
		n->state = NS_INSTACK;
		node_prepare(n);
		stack_push(n, &tc, &tr);
	}
	VP_STORE(a_stop, 0);
	for (int i = 0; i < nthreads; i++)
		pthread_create(&A[i].tid, NULL, a_worker, &A[i]);
	t_end = vp_now_ns() + (uint64_t) (seconds * 1e9);
	while (vp_now_ns() < t_end && !vp_nviolations())
		usleep(2000);
	VP_STORE(a_stop, 1);
	for (int i = 0; i < nthreads; i++)
		pthread_join(A[i].tid, NULL);
	/* final accounting: every thread pushed its node(s) back before it left */
	if (cur_kind == K_LFS) {
		unsigned wb = 0;
		void *head = stack_pop_all(1, 0, &tc, &tr);
		found = chain_iter(head, IT_EACH, chain, aba_pool + 1, &wb);
		if (found < 0) {
			a_fail("final-chain-does-not-end", "the final pop_all returned a chain longer than the pool: cycle");
			found = 0;
		}
	} else {
		for (found = 0; found <= aba_pool; found++) {
			struct snode *n = stack_pop(PV_BLOCKING, 0, &st, &tc, &tr);
			if (!n)
				break;
			chain[found] = n;
		}
		if (found > aba_pool)
			a_fail("final-chain-does-not-end", "more than %d nodes popped from the final stack: cycle", aba_pool);
	}
	if (!vp_nviolations() || found) {
		int ok = 0;
		for (int i = 0; i < found && i <= aba_pool; i++)
			ok += a_take(NULL, chain[i], "final drain");
		if (ok != aba_pool && !vp_nviolations())
			a_fail("nodes-lost", "final drain found %d of %d pool nodes in the stack with every thread stopped", ok, aba_pool);
	}
	if (aba_malloc) {
		synchronize_rcu();
		for (int i = 0; i < found && i <= aba_pool; i++)
			free(chain[i]);
	}
	free(chain);
}

static int run_aba(void)
{
	uint64_t s[6] = { 0 }, delays = 0;
	int nk = 0;

	aba_no_gp = (int) vp_arg_long("aba-no-gp", 0);
	aba_malloc = (int) vp_arg_long("aba-malloc", 0);
	aba_pool = (int) vp_arg_long("pool", 16);
	aba_prob = vp_arg_double("aba-delay-prob", 0.05);
	if (aba_pool < 2 || aba_pool > 4096)
		return 2;
	vp_user_hook = aba_hook;
	cur_scheme = S_RCU;
	rcu_register_thread();
	for (int i = 0; i < nthreads; i++) {
		A[i].idx = i;
		vp_rng_init(&A[i].rng, vp_opt.seed, 0xaba, (uint64_t) i);
	}
	for (int k = K_LFS; k <= K_LFSRCU; k++)
		nk += !!(kinds_mask & (1u << k));
	if (!nk)
		return 2;
	for (int k = K_LFS; k <= K_LFSRCU; k++) {
		if (!(kinds_mask & (1u << k)) || vp_nviolations())
			continue;
		VP_STORE(cur_kind, k);
		aba_one_kind(opt_seconds / (nk + 1));
	}
	if ((kinds_mask & (1u << K_LFS)) && !aba_no_gp && !vp_nviolations()) {
		/* lfstack under its pop-mutex scheme, immediate reuse */
		cur_scheme = S_MUTEX;
		aba_mutex = 1;
		VP_STORE(cur_kind, K_LFS);
		aba_one_kind(opt_seconds / (nk + 1));
		aba_mutex = 0;
		cur_scheme = S_RCU;
	}
	rcu_unregister_thread();
	for (int i = 0; i < nthreads; i++) {
		s[0] += A[i].recycles; s[1] += A[i].pop_null; s[2] += A[i].popall; s[3] += A[i].popall_nodes; s[4] += A[i].syncs;
	}
	for (int i = 0; i <= MAX_W; i++)
		delays += aba_delays[i];
	vp_counter_add("aba_recycles", s[0]);
	vp_counter_add("aba_pops_null", s[1]);
	vp_counter_add("aba_popall_calls", s[2]);
	vp_counter_add("aba_popall_nodes", s[3]);
	vp_counter_add("aba_synchronize_rcu", s[4]);
	vp_counter_add("aba_poppers_delayed_in_window", delays);
	vp_counter_add("aba_window_passes", vp_point_hits(URCU_VP_LFS_POP_BEFORE_CMPXCHG));
	vp_counter_add("evaluations", 0);
	vp_counter_add("nontrivial", 0);
	return 0;
}
