/*
 * lfht_life_core.h - private part of lfht_life.c: types, globals, node life
 * cycle (ownership counter, poison, quarantine, guard pages), recording
 * bucket allocator, hook handler (step budget, bounds, resize evaluations).
 */
#ifndef LFHT_LIFE_CORE_H
#define LFHT_LIFE_CORE_H

#define MAXT 24
#define MAIN_T (MAXT - 1)
#define MAXHOT 16
#define DUP_BASE 8		/* hot keys 0..7 unique discipline, 8..15 duplicates allowed */
#define UPD_BASE (1ULL << 32)
#define RES_BASE (1ULL << 56)
#define MAXRESGRP 4
#define MAXRESKEYS 4096

#define ST_LIVE   0x4c4956454c495645ULL
#define ST_POISON 0xdeadbeefdeadbeefULL

enum { MODE_OWN, MODE_RESIZE, MODE_DESTROY, MODE_BIG };
enum role { R_CONT, R_UPD, R_RESIDENT, R_WALK, R_RES, R_NR };
enum { AK_DEFAULT, AK_GUARD, AK_LOG };
enum { OP_DEL = 1, OP_REPLACE = 2, OP_ADDREPL = 3 };
enum { CALL_NONE, CALL_RESIZE, CALL_DESTROY, CALL_FLUSH, CALL_SYNC, CALL_JOIN };
static const char *call_names[] = { "none", "resize", "destroy", "workqueue-flush", "synchronize_rcu", "join" };
static const char *mm_names[] = { "order", "chunk", "mmap", "default" };
static const char *ak_names[] = { "libc", "guard", "log" };
static const char *op_names[] = { "?", "del", "replace", "add_replace" };

struct lnode {
	struct cds_lfht_node node;
	uint64_t state, id, key, sum;
	unsigned long hash;
	struct rcu_head rh;
	uint32_t akind;		/* 1 = on guard pages */
	uint32_t pad;
};

/* bookkeeping of one node life; lives outside the node (the node gets poisoned / unmapped) */
struct life {
	struct lnode *p;
	union { uint8_t b[8]; uint64_t w; } att;	/* in-flight removal attempts, one byte per thread (idx & 7) */
	uint8_t owners;		/* atomic */
	uint8_t inserted;	/* set by the adder after a successful add */
	uint8_t contended;	/* some attempter saw another attempt in flight */
	uint8_t winner_op;
	uint8_t present;	/* found by the quiescent traversal */
	uint8_t winner_thr;
	uint8_t pad[2];
};

struct rcfg {
	int mm, ak, flags;
	unsigned long init, min_alloc, max, max_eff;
	int n_role[R_NR];
	long cont_ops, upd_ops, res_calls;
	int nkeys, ndup, hashmode;
	unsigned long hmask;
	long pop_hi, pop_lo;
	int nres_keys, nresgrp;
	int destroy_pending, big, walk_full, final_burst, sig;
	unsigned long res_cycle_max;
	char str[256];
};

struct tstate {
	struct cds_lfht_alloc a;
	uint32_t id;
	int kind;
	unsigned long bound;
	long live_bucket_nodes, peak_bucket_nodes;
	long n_alloc, n_free, live_allocs;
	long works_out, works_total;
	void *ht_ptr;
	int ht_freed;
};

struct thr {
	pthread_t tid;
	int idx, started, ktid;
	enum role role;
	struct vp_rng rng;
	struct vp_thr *vt;
	/* watchdog state */
	int in_call, offline_at_call;
	unsigned long call_arg;
	/* node lives created by this thread in the current round */
	struct life *lives;
	uint32_t nlives, caplives;
	/* retire batch */
	struct lnode *batch[64];
	int nbatch, batch_lim;
	struct lnode *spare;
	uint64_t sigmask_seen[8];
	/* statistics of the round (summed by main after join) */
	uint64_t st_attempts, st_lost, st_won, st_walks, st_walk_nodes, st_validations, st_match_delays,
		 st_res_lookups, st_calls, st_nontrivial_calls, st_sync, st_callrcu, st_guard_nodes;
	char pad[64];
};

static struct thr T[MAXT];
/* cumulative operation counters (never reset; read by hooks on library threads at any time) */
static struct { uint64_t n_upd, n_lookup; char pad[48]; } g_cum[MAXT];
static int g_nthr;
static struct cds_lfht *g_ht;
static struct tstate *g_ts;
static struct rcfg g_rc;
static uint64_t g_round;
static int g_mode, g_prop;		/* g_prop 7 or 9: which evaluations are reported */
static const char *g_cfgname = "?";
static int g_stop_inf, g_abort;
static int opt_qsbr_offline = 1;
static double opt_guard_frac;
static long opt_walk_delay_ppm, opt_match_delay_ppm;
static struct vp_quar g_quar;
static unsigned long g_hot_hash[MAXHOT];
static struct lnode *g_resnode[MAXRESGRP][MAXRESKEYS];
static uint64_t g_resid[MAXRESGRP][MAXRESKEYS];

static __thread struct thr *me;		/* NULL on library threads */

/* totals */
static uint64_t tot_lives, tot_lives_removed, tot_contended, tot_rounds, tot_tables, tot_resize_calls,
	tot_resize_nontrivial, tot_lazy_evals, tot_lazy_nontrivial, tot_res_lookups, tot_walks, tot_walk_nodes,
	tot_validations, tot_destroy, tot_destroy_pending_work, tot_destroy_resize_running, tot_flushes,
	tot_attempts, tot_lost, tot_guard_nodes, tot_sync, tot_callrcu, tot_match_delays, tot_alloc_events,
	tot_bucket_allocs, tot_bucket_frees, tot_leaks, tot_max_loop_iters, tot_seq_size_checks, tot_partitioned_calls,
	tot_quiescent_present, tot_reclaimed, tot_upd_ops;
static uint64_t g_lazy_launched, g_resize_steps, g_worker_loops;
static int g_worker_tid;
static int g_explicit_active, g_worker_active;
static uint32_t g_ts_seq;

static void fatal_exit(void)
{
	VP_STORE(g_abort, 1);
	int rc = vp_finish();
	_exit(rc ? rc : 1);
}

/* ------------------------------------------------------------------ helpers */

static inline uint64_t mix64(uint64_t z)
{
	z = (z ^ (z >> 30)) * 0xbf58476d1ce4e5b9ULL;
	z = (z ^ (z >> 27)) * 0x94d049bb133111ebULL;
	return z ^ (z >> 31);
}
static inline uint64_t node_sum(uint64_t id, uint64_t key)
{
	return (id * 0x9e3779b97f4a7c15ULL) ^ (key + 0x5555) ^ 0xa5a5a5a5a5a5a5a5ULL;
}
static inline unsigned long hash_of(uint64_t key)
{
	if (key < MAXHOT)
		return g_hot_hash[key];
	return (unsigned long) mix64(key) & g_rc.hmask;
}
static inline int is_pow2(unsigned long x)
{
	return x && !(x & (x - 1));
}
static inline int order_of(unsigned long x)
{
	return x ? cds_lfht_get_count_order_ulong(x) : -1;
}
static inline unsigned long ht_size(struct cds_lfht *ht)
{
	return __atomic_load_n(&ht->size, __ATOMIC_RELAXED);
}
static inline unsigned long ht_target(struct cds_lfht *ht)
{
	return __atomic_load_n(&ht->resize_target, __ATOMIC_RELAXED);
}
static inline void progress(void)
{
	struct vp_thr *vt = vp_self();
	VP_STORE(vt->progress, vt->progress + 1);
}
static inline uint64_t sum_upd(void)
{
	uint64_t s = 0;
	for (int i = 0; i < MAXT; i++)
		s += VP_LOAD(g_cum[i].n_upd);
	return s;
}
static inline uint64_t sum_lookup(void)
{
	uint64_t s = 0;
	for (int i = 0; i < MAXT; i++)
		s += VP_LOAD(g_cum[i].n_lookup);
	return s;
}

static void check_size_bounds(struct cds_lfht *ht, unsigned long size, const char *where)
{
	unsigned long max = ht->max_nr_buckets;
	if (size < 1 || size > max || !is_pow2(size)) {
		vp_violation(size > max ? "lfht:bounds:size-above-max_nr_buckets" :
			     size < 1 ? "lfht:bounds:size-below-one" : "lfht:bounds:size-not-power-of-two",
			     "cfg=%s round=%llu {%s}: ht->size=%lu observed %s, max_nr_buckets=%lu",
			     g_cfgname, (unsigned long long) g_round, g_rc.str, size, where, max);
		fatal_exit();
	}
}

/* ------------------------------------------------------------------ node lives */

static inline struct life *life_of_id(uint64_t id)
{
	unsigned thr = (unsigned) (id >> 32) & 0xff;
	uint32_t seq = (uint32_t) id;
	if ((id >> 40) != (g_round & 0xffffff) || thr >= MAXT || seq >= __atomic_load_n(&T[thr].nlives, __ATOMIC_ACQUIRE))
		return NULL;
	return &T[thr].lives[seq];
}

static struct lnode *node_new(struct thr *t, uint64_t key)
{
	struct lnode *n = t->spare;
	if (n) {
		/* never published (failed add_unique / replace): reuse the memory, new key */
		t->spare = NULL;
		struct life *l = life_of_id(n->id);
		n->key = key;
		n->hash = hash_of(key);
		n->sum = node_sum(n->id, key);
		(void) l;
		return n;
	}
	if (t->nlives >= t->caplives) {
		fprintf(stderr, "lfht_life: life table of thread %d exhausted (%u)\n", t->idx, t->caplives);
		exit(2);
	}
	int guard = opt_guard_frac > 0 && (vp_rand(&t->rng) >> 40) < (uint64_t) (opt_guard_frac * (1 << 24));
	n = NULL;
	if (guard) {
		n = ga_alloc(sizeof(*n), GA_K_NODE, (uint32_t) g_round, 1);
		if (n)
			t->st_guard_nodes++;
	}
	if (!n) {
		guard = 0;
		n = malloc(sizeof(*n));
		if (!n)
			abort();
	}
	uint32_t seq = t->nlives;
	struct life *l = &t->lives[seq];
	memset(l, 0, sizeof(*l));
	l->p = n;
	n->akind = (uint32_t) guard;
	n->pad = 0;
	n->id = ((g_round & 0xffffff) << 40) | ((uint64_t) t->idx << 32) | seq;
	n->key = key;
	n->hash = hash_of(key);
	n->sum = node_sum(n->id, key);
	n->node.next = NULL;
	n->node.reverse_hash = 0;
	n->state = ST_LIVE;
	__atomic_store_n(&t->nlives, seq + 1, __ATOMIC_RELEASE);
	return n;
}

static void node_bad(struct lnode *n, const char *where, uint64_t st, uint64_t id, uint64_t key, uint64_t sum)
{
	vp_violation("lfht:node:retired-node-reached",
		     "cfg=%s round=%llu {%s}: %s reached node %p inside a read-side section with state=%llx id=%llx key=%llx "
		     "sum=%llx (expected live state %llx): the node was reclaimed after its owner waited a grace period",
		     g_cfgname, (unsigned long long) g_round, g_rc.str, where, (void *) n, (unsigned long long) st,
		     (unsigned long long) id, (unsigned long long) key, (unsigned long long) sum,
		     (unsigned long long) ST_LIVE);
	VP_STORE(g_abort, 1);
}

static inline void validate(struct lnode *n, const char *where)
{
	uint64_t st = n->state, id = n->id, key = n->key, sum = n->sum;
	if (__builtin_expect(st != ST_LIVE || sum != node_sum(id, key), 0))
		node_bad(n, where, st, id, key, sum);
}

static __thread int tl_match_delay;

static int match_fn(struct cds_lfht_node *node, const void *key)
{
	struct lnode *n = caa_container_of(node, struct lnode, node);
	uint64_t st = n->state, id = n->id, k = n->key, sum = n->sum;
	if (__builtin_expect(st != ST_LIVE || sum != node_sum(id, k), 0))
		node_bad(n, "library traversal (match callback)", st, id, k, sum);
	if (tl_match_delay && me && (vp_rand(&me->rng) >> 44) < (uint64_t) opt_match_delay_ppm) {
		/* delay inside the library's traversal, which holds node / bucket pointers */
		me->st_match_delays++;
		vp_delay_heavy(&me->rng);
		if (n->state != ST_LIVE)
			node_bad(n, "library traversal (match callback, after delay)", n->state, n->id, n->key, n->sum);
	}
	return k == *(const uint64_t *) key;
}

static void quar_release(void *p)
{
	struct lnode *n = p;
	if (n->state != ST_POISON || n->node.next != VP_POISON_PTR || n->node.reverse_hash != 0 ||
	    n->sum != ~node_sum(n->id, n->key))
		vp_violation("lfht:node:late-write-to-retired-node",
			     "cfg=%s: node %p id=%llx modified while in quarantine (state=%llx next=%p rhash=%lx)",
			     g_cfgname, p, (unsigned long long) n->id, (unsigned long long) n->state,
			     (void *) n->node.next, n->node.reverse_hash);
	free(n);
}

/* called once per life, by its single owner, after a grace period */
static void node_reclaim(struct lnode *n)
{
	__atomic_fetch_add(&tot_reclaimed, 1, __ATOMIC_RELAXED);
#if VP_ASAN || VP_TSAN
	n->state = ST_POISON;	/* plain write: race-free only thanks to the grace period (TSan oracle) */
	if (n->akind)
		ga_free(n);
	else
		free(n);
#else
	if (n->akind) {
		n->state = ST_POISON;
		ga_free(n);
		return;
	}
	n->state = ST_POISON;
	n->node.next = VP_POISON_PTR;	/* following it faults */
	n->node.reverse_hash = 0;	/* smaller than anything: a stale traversal keeps going and faults */
	n->sum = ~n->sum;
	vp_quar_put(&g_quar, n);
#endif
}

static void reclaim_cb(struct rcu_head *h)
{
	node_reclaim(caa_container_of(h, struct lnode, rh));
}

static void retire_flush(struct thr *t, int force_sync)
{
	if (!t->nbatch)
		return;
	if (force_sync || (vp_rand(&t->rng) & 1)) {
		VP_STORE(t->in_call, CALL_SYNC);
		synchronize_rcu();
		VP_STORE(t->in_call, CALL_NONE);
		t->st_sync++;
		for (int i = 0; i < t->nbatch; i++)
			node_reclaim(t->batch[i]);
	} else {
		for (int i = 0; i < t->nbatch; i++)
			call_rcu(&t->batch[i]->rh, reclaim_cb);
		t->st_callrcu += (uint64_t) t->nbatch;
	}
	t->nbatch = 0;
	t->batch_lim = 1 + (int) vp_rand_n(&t->rng, 64);
}

static inline void retire_push(struct thr *t, struct lnode *n)
{
	t->batch[t->nbatch++] = n;
}

/* every "obtained" result goes through here: exactly one caller per life may arrive */
static void own(struct thr *t, struct lnode *n, int op, uint64_t others_before)
{
	struct life *l = life_of_id(n->id);
	if (!l || l->p != n) {
		vp_violation("lfht:owner:unknown-node", "cfg=%s round=%llu: %s returned node %p id=%llx which is not a node of this round",
			     g_cfgname, (unsigned long long) g_round, op_names[op], (void *) n, (unsigned long long) n->id);
		VP_STORE(g_abort, 1);
		return;
	}
	uint8_t prev = __atomic_fetch_add(&l->owners, 1, __ATOMIC_SEQ_CST);
	if (prev != 0) {
		vp_violation("lfht:owner:node-obtained-twice",
			     "cfg=%s round=%llu {%s}: node %p id=%llx key=%llx hash=%lx obtained by %s in thread %d, but it had already been "
			     "obtained %u time(s) (first by %s in thread %u): two owners for one node life",
			     g_cfgname, (unsigned long long) g_round, g_rc.str, (void *) n, (unsigned long long) n->id,
			     (unsigned long long) n->key, n->hash, op_names[op], t->idx, prev, op_names[l->winner_op & 3], l->winner_thr);
		VP_STORE(g_abort, 1);
		return;		/* do not retire twice */
	}
	l->winner_op = (uint8_t) op;
	l->winner_thr = (uint8_t) t->idx;
	t->st_won++;
	uint64_t others = others_before | (__atomic_load_n(&l->att.w, __ATOMIC_RELAXED) & ~(0xffULL << ((t->idx & 7) * 8)));
	if (others || VP_LOAD(l->contended)) {
		VP_STORE(l->contended, 1);
		if (g_prop == 7) {
			unsigned kinds = 0;
			for (int b = 0; b < 8; b++)
				if ((others >> (b * 8)) & 0xff)
					kinds |= 1u << (((others >> (b * 8)) & 0xff) - 1);
			int nothers = 0;
			for (int b = 0; b < 8; b++)
				nothers += ((others >> (b * 8)) & 0xff) != 0;
			int rz = VP_LOAD(g_explicit_active) || VP_LOAD(g_worker_active);
			unsigned sid = (unsigned) op | (kinds << 2) | ((unsigned) rz << 5) | ((unsigned) (nothers > 2 ? 2 : nothers) << 6);
			sid &= 511;
			if (!(t->sigmask_seen[sid >> 6] & (1ULL << (sid & 63)))) {
				t->sigmask_seen[sid >> 6] |= 1ULL << (sid & 63);
				vp_sig_add("own:winner=%s:racing=%s%s%s%s:n=%d:resize=%d:%s/%s:%s", op_names[op],
					   (kinds & 1) ? "del," : "", (kinds & 2) ? "replace," : "", (kinds & 4) ? "add_replace," : "",
					   kinds ? "" : "seen-by-loser",
					   nothers > 2 ? 3 : nothers, rz, mm_names[g_rc.mm], ak_names[g_rc.ak], VP_FLAVOR_NAME);
				vp_sample_add("cfg=%s round=%llu {%s}: node id=%llx key=%llx obtained by %s (thread %d) while %d other removal attempt(s) "
					      "[%s%s%s] were in flight on it; resize active=%d; every loser must see a negative return",
					      g_cfgname, (unsigned long long) g_round, g_rc.str, (unsigned long long) n->id,
					      (unsigned long long) n->key, op_names[op], t->idx, nothers, (kinds & 1) ? "del " : "",
					      (kinds & 2) ? "replace " : "", (kinds & 4) ? "add_replace" : "", rz);
			}
		}
	}
	retire_push(t, n);
}

/* ------------------------------------------------------------------ recording bucket allocator */

struct lhdr { uint64_t magic; uint32_t kind, nmemb; uint64_t size, pad; };
#define LHDR_MAGIC 0x6c686472a110c8edULL

static int classify_alloc(size_t nmemb, size_t size, int is_calloc)
{
	if (!is_calloc)
		return GA_K_WORK;
	if (size == sizeof(struct cds_lfht_node))
		return GA_K_BUCKETS;
	if (nmemb == 1 && size >= sizeof(struct cds_lfht))
		return GA_K_HT;
	if (size == 2 * CAA_CACHE_LINE_SIZE || size == CAA_CACHE_LINE_SIZE)
		return GA_K_SPLIT;
	return GA_K_PART;
}

static void *ts_alloc(struct tstate *ts, size_t nmemb, size_t size, int is_calloc)
{
	size_t total = nmemb * size;
	int kind = classify_alloc(nmemb, size, is_calloc);
	void *p = NULL;
	if (ts->kind == AK_GUARD)
		p = ga_alloc(total, (uint32_t) kind, ts->id, (uint32_t) nmemb);
	if (!p) {
		struct lhdr *h = calloc(1, total + sizeof(*h));
		if (!h)
			return NULL;
		h->magic = LHDR_MAGIC;
		h->kind = (uint32_t) kind;
		h->nmemb = (uint32_t) nmemb;
		h->size = total;
		p = h + 1;
	}
	__atomic_fetch_add(&ts->n_alloc, 1, __ATOMIC_RELAXED);
	__atomic_fetch_add(&ts->live_allocs, 1, __ATOMIC_RELAXED);
	if (kind == GA_K_WORK) {
		__atomic_fetch_add(&ts->works_out, 1, __ATOMIC_SEQ_CST);
		__atomic_fetch_add(&ts->works_total, 1, __ATOMIC_RELAXED);
	} else if (kind == GA_K_HT) {
		if (!VP_LOAD(ts->ht_ptr))
			VP_STORE(ts->ht_ptr, p);
	} else if (kind == GA_K_BUCKETS) {
		long live = __atomic_add_fetch(&ts->live_bucket_nodes, (long) nmemb, __ATOMIC_RELAXED);
		if (live > VP_LOAD(ts->peak_bucket_nodes))
			VP_STORE(ts->peak_bucket_nodes, live);
		__atomic_fetch_add(&tot_bucket_allocs, 1, __ATOMIC_RELAXED);
		if (ts->bound && (unsigned long) live > ts->bound) {
			vp_violation("lfht:bounds:bucket-memory-above-max_nr_buckets",
				     "cfg=%s round=%llu {%s}: allocator asked for a bucket array of %zu nodes; %ld bucket nodes would be live, "
				     "more than max(max_nr_buckets, min_nr_alloc_buckets)=%lu",
				     g_cfgname, (unsigned long long) g_round, g_rc.str, nmemb, live, ts->bound);
			fatal_exit();
		}
	}
	return p;
}

static void *ah_malloc(void *state, size_t size)
{
	return ts_alloc(state, 1, size, 0);
}
static void *ah_calloc(void *state, size_t nmemb, size_t size)
{
	return ts_alloc(state, nmemb, size, 1);
}
static void *ah_realloc(void *state, void *ptr, size_t size)
{
	(void) state; (void) ptr; (void) size;
	vp_violation("lfht-life:alloc:unexpected-realloc", "library called alloc->realloc, which this harness does not model");
	return NULL;
}
static void *ah_aligned(void *state, size_t alignment, size_t size)
{
	(void) alignment;
	return ts_alloc(state, 1, size, 1);
}
static void ah_free(void *state, void *ptr)
{
	struct tstate *ts = state;
	uint32_t kind, nmemb;
	if (!ptr)
		return;
	struct ga_rec *r = ga_find(ptr);
	if (r) {
		kind = r->kind;
		nmemb = r->nmemb;
		if (ga_free(ptr) < 0) {
			vp_violation("lfht:alloc:released-twice", "cfg=%s round=%llu {%s}: %s %p (table %u) released twice by the library",
				     g_cfgname, (unsigned long long) g_round, g_rc.str, ga_kind_names[kind], ptr, r->table);
			fatal_exit();
		}
	} else {
		struct lhdr *h = (struct lhdr *) ptr - 1;
		if (h->magic != LHDR_MAGIC) {
			vp_violation("lfht:alloc:released-unknown-pointer", "cfg=%s round=%llu {%s}: alloc->free(%p): not an allocation of this allocator "
				     "(or released twice)", g_cfgname, (unsigned long long) g_round, g_rc.str, ptr);
			fatal_exit();
		}
		kind = h->kind;
		nmemb = h->nmemb;
		h->magic = ~LHDR_MAGIC;
		free(h);
	}
	__atomic_fetch_add(&ts->n_free, 1, __ATOMIC_RELAXED);
	if (kind == GA_K_BUCKETS) {
		__atomic_fetch_sub(&ts->live_bucket_nodes, (long) nmemb, __ATOMIC_RELAXED);
		__atomic_fetch_add(&tot_bucket_frees, 1, __ATOMIC_RELAXED);
	} else if (kind == GA_K_WORK)
		__atomic_fetch_sub(&ts->works_out, 1, __ATOMIC_SEQ_CST);
	__atomic_fetch_sub(&ts->live_allocs, 1, __ATOMIC_RELAXED);
	if (ptr == VP_LOAD(ts->ht_ptr))
		__atomic_store_n(&ts->ht_freed, 1, __ATOMIC_RELEASE);	/* last touch of ts by the library */
}

static struct tstate *tstate_new(int kind)
{
	struct tstate *ts = calloc(1, sizeof(*ts));
	if (!ts)
		abort();
	ts->a.malloc = ah_malloc;
	ts->a.calloc = ah_calloc;
	ts->a.realloc = ah_realloc;
	ts->a.aligned_alloc = ah_aligned;
	ts->a.free = ah_free;
	ts->a.state = ts;
	ts->kind = kind;
	ts->id = __atomic_add_fetch(&g_ts_seq, 1, __ATOMIC_RELAXED);
	return ts;
}

/* ------------------------------------------------------------------ hook handler */

struct rz_rec {
	int open, lazy, partitioned, grew, shrank;
	unsigned long from, cur;
	uint64_t upd0, look0, iters, same;
	unsigned long last_size, last_target;
};
static __thread struct rz_rec tl_rz;

static void rz_open(int lazy, unsigned long size)
{
	memset(&tl_rz, 0, sizeof(tl_rz));
	tl_rz.open = 1;
	tl_rz.lazy = lazy;
	tl_rz.from = tl_rz.cur = size;
	tl_rz.upd0 = sum_upd();
	tl_rz.look0 = sum_lookup();
	tl_rz.last_size = tl_rz.last_target = ~0UL;
}

/* returns 1 if non-trivial */
static int rz_close(unsigned long final_size, unsigned long requested)
{
	struct rz_rec *z = &tl_rz;
	if (!z->open)
		return 0;
	z->open = 0;
	if (final_size)
		z->cur = final_size;
	if (z->lazy && z->cur == z->from && !z->grew && !z->shrank)
		return 0;	/* worker iteration that had nothing to do */
	uint64_t du = sum_upd() - z->upd0, dl = sum_lookup() - z->look0;
	int nontrivial = du >= 1 && dl >= 1;
	if (z->iters > VP_LOAD(tot_max_loop_iters))
		VP_STORE(tot_max_loop_iters, z->iters);
	if (z->lazy) {
		__atomic_fetch_add(&tot_lazy_evals, 1, __ATOMIC_RELAXED);
		if (nontrivial)
			__atomic_fetch_add(&tot_lazy_nontrivial, 1, __ATOMIC_RELAXED);
	}
	if (z->partitioned)
		__atomic_fetch_add(&tot_partitioned_calls, 1, __ATOMIC_RELAXED);
	if (nontrivial && g_prop == 9) {
		const char *dir = z->grew && z->shrank ? "both" : z->grew ? "grow" : z->shrank ? "shrink" : "none";
		char reqbuf[40] = "";
		if (!z->lazy)
			snprintf(reqbuf, sizeof(reqbuf), "(%lu)", requested);
		vp_sig_add("rz:%d>%d:%s:%s/%s:%s:%s", order_of(z->from), order_of(z->cur), dir, mm_names[g_rc.mm], ak_names[g_rc.ak],
			   z->lazy ? "lazy" : "explicit", z->partitioned ? "partitioned" : "single");
		vp_sample_add("cfg=%s round=%llu {%s}: %s resize%s size %lu -> %lu (%s, %s, %llu loop iteration(s)) overlapped %llu update(s) and "
			      "%llu lookup(s) of other threads", g_cfgname, (unsigned long long) g_round, g_rc.str,
			      z->lazy ? "lazy (worker)" : "explicit cds_lfht_resize", reqbuf, z->from, z->cur, dir,
			      z->partitioned ? "partitioned" : "single-thread", (unsigned long long) z->iters,
			      (unsigned long long) du, (unsigned long long) dl);
	}
	return nontrivial;
}

static void life_hook(int point, const void *ctx)
{
	if (point < URCU_VP_HT_ADD_BEFORE_CMPXCHG || point > URCU_VP_WQ_PAUSE)
		return;
	progress();
	switch (point) {
	case URCU_VP_WQ_PRE_SLEEP:
		if (!me) {
			if (!g_worker_tid)
				g_worker_tid = (int) syscall(SYS_gettid);
			if (tl_rz.open)
				rz_close(0, 0);
			memset(&tl_rz, 0, sizeof(tl_rz));
			__atomic_store_n(&g_worker_active, 0, __ATOMIC_RELEASE);
		}
		return;
	case URCU_VP_HT_LAZY_RESIZE:
		__atomic_fetch_add(&g_lazy_launched, 1, __ATOMIC_RELAXED);
		return;
	case URCU_VP_HT_RESIZE_LOOP:
	case URCU_VP_HT_GROW_BEFORE_PUBLISH:
	case URCU_VP_HT_SHRINK_BEFORE_GP:
	case URCU_VP_HT_PARTITION_THREADS:
		break;
	default:
		return;
	}
	struct cds_lfht *ht = (struct cds_lfht *) ctx;
	if (ht != VP_LOAD(g_ht))
		return;
	unsigned long size = ht_size(ht), target = ht_target(ht);
	struct rz_rec *z = &tl_rz;
	switch (point) {
	case URCU_VP_HT_RESIZE_LOOP:
		check_size_bounds(ht, size, "at the top of the resize loop");
		if (!me) {
			/* library worker: one evaluation per loop iteration that changes the size */
			__atomic_fetch_add(&g_worker_loops, 1, __ATOMIC_RELAXED);
			VP_STORE(g_worker_active, 1);
			uint64_t same = z->same, iters = z->iters;
			unsigned long ls = z->last_size, lt = z->last_target;
			if (z->open)
				rz_close(size, 0);
			rz_open(1, size);
			z->same = same;
			z->iters = iters;
			z->last_size = ls;
			z->last_target = lt;
		}
		z->iters++;
		/*
		 * Step budget: on correct code one iteration with an unchanged target reaches
		 * size == target.  The same (size, target) pair with size != target seen again and
		 * again means the loop cannot make progress (no concurrent retargeting: the target
		 * is the same).  Decided on iterations, not on time.
		 */
		if (size == z->last_size && target == z->last_target && size != target)
			z->same++;
		else
			z->same = 0;
		z->last_size = size;
		z->last_target = target;
		if (z->same > 10000) {
			vp_violation(is_pow2(target) ? "lfht:resize:loop-makes-no-progress" :
				     "lfht:resize:non-power-of-two-target-never-reached",
				     "cfg=%s round=%llu {%s}: %s: the resize loop ran %llu consecutive iterations with size=%lu and "
				     "resize_target=%lu unchanged (request %lu): size can only be a power of two, the loop "
				     "`while (size != resize_target)` cannot terminate; caller holds resize_mutex",
				     g_cfgname, (unsigned long long) g_round, g_rc.str,
				     me ? "cds_lfht_resize() call" : "lazy resize in the worker thread",
				     (unsigned long long) z->same, size, target, me ? me->call_arg : 0UL);
			fatal_exit();
		}
		break;
	case URCU_VP_HT_GROW_BEFORE_PUBLISH:
		__atomic_fetch_add(&g_resize_steps, 1, __ATOMIC_RELAXED);
		/* level populated, size about to be doubled */
		if (size * 2 > ht->max_nr_buckets) {
			vp_violation("lfht:bounds:size-above-max_nr_buckets",
				     "cfg=%s round=%llu {%s}: init_table is about to publish size=%lu (current %lu, resize_target=%lu) "
				     "above max_nr_buckets=%lu", g_cfgname, (unsigned long long) g_round, g_rc.str, size * 2, size,
				     target, ht->max_nr_buckets);
			fatal_exit();
		}
		z->grew = 1;
		z->cur = size * 2;
		break;
	case URCU_VP_HT_SHRINK_BEFORE_GP:
		__atomic_fetch_add(&g_resize_steps, 1, __ATOMIC_RELAXED);
		check_size_bounds(ht, size, "right after fini_table stored the smaller size");
		z->shrank = 1;
		z->cur = size;
		break;
	case URCU_VP_HT_PARTITION_THREADS:
		z->partitioned = 1;
		break;
	}
}

#endif
