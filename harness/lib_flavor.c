/*
 * lib_flavor.c - builds one RCU flavor of the library *from the real source
 * file* (urcu.c / urcu-qsbr.c / urcu-bp.c is #included verbatim) and appends
 * read-only accessors ("peek") for static state that monitors need to read:
 * registry, arena, futexes, defer queues, call_rcu helper list, poll state.
 * Nothing here changes library behaviour.
 *
 * Build with exactly one of -DRCU_MEMBARRIER -DRCU_MB -DRCU_QSBR -DVP_RCU_BP.
 */
#if defined(RCU_MEMBARRIER)
#define VPF(x) vp_peek_memb_##x
#include "urcu.c"
#elif defined(RCU_MB)
#define VPF(x) vp_peek_mb_##x
#include "urcu.c"
#elif defined(RCU_QSBR)
#define VPF(x) vp_peek_qsbr_##x
#include "urcu-qsbr.c"
#elif defined(VP_RCU_BP)
#define VPF(x) vp_peek_bp_##x
#include "urcu-bp.c"
#else
#error flavor
#endif

#include "vp_peek.h"

/* number of registered readers; takes the library's own registry lock */
int VPF(registry_count)(void)
{
	struct cds_list_head *pos;
	int n = 0;
	/* rcu_gp_lock first (same order as synchronize_rcu): while a grace period is
	 * in flight the updater keeps reader nodes on private lists */
	mutex_lock(&rcu_gp_lock);
	mutex_lock(&rcu_registry_lock);
	cds_list_for_each(pos, &registry)
		n++;
	mutex_unlock(&rcu_registry_lock);
	mutex_unlock(&rcu_gp_lock);
	return n;
}

int VPF(registry_count_nolock)(void)
{
	struct cds_list_head *pos;
	int n = 0;
	cds_list_for_each(pos, &registry)
		n++;
	return n;
}

#if !defined(VP_RCU_BP)
int32_t VPF(gp_futex)(void)
{
	return uatomic_load(&rcu_gp.futex);
}
int VPF(gp_waiters_nonempty)(void)
{
	return !cds_wfs_empty(&gp_waiters.stack);
}
#else
int32_t VPF(gp_futex)(void)
{
	return 0;
}
int VPF(gp_waiters_nonempty)(void)
{
	return 0;
}
#endif

/* ---- defer ---- */
int32_t VPF(defer_futex)(void)
{
	return uatomic_load(&defer_thread_futex);
}
unsigned long VPF(defer_pending_nolock)(void)
{
	unsigned long num_items = 0;
	struct defer_queue *index;
	/* racy walk: only called when the harness knows nobody (un)registers */
	cds_list_for_each_entry(index, &registry_defer, list)
		num_items += uatomic_load(&index->head) - uatomic_load(&index->tail);
	return num_items;
}
unsigned long VPF(defer_self_head)(void)
{
	return URCU_TLS(defer_queue).head;
}
unsigned long VPF(defer_self_tail)(void)
{
	return uatomic_load(&URCU_TLS(defer_queue).tail);
}

/* ---- call_rcu ---- */
int VPF(crdp_count)(void)
{
	struct call_rcu_data *crdp;
	int n = 0;
	call_rcu_lock(&call_rcu_mutex);
	cds_list_for_each_entry(crdp, &call_rcu_data_list, list)
		n++;
	call_rcu_unlock(&call_rcu_mutex);
	return n;
}
int VPF(crdp_snapshot)(struct vp_crdp_info *out, int max)
{
	struct call_rcu_data *crdp;
	int n = 0;
	call_rcu_lock(&call_rcu_mutex);
	cds_list_for_each_entry(crdp, &call_rcu_data_list, list) {
		if (n < max) {
			out[n].crdp = crdp;
			out[n].futex = uatomic_load(&crdp->futex);
			out[n].qlen = uatomic_load(&crdp->qlen);
			out[n].flags = uatomic_load(&crdp->flags);
			out[n].empty = cds_wfcq_empty(&crdp->cbs_head, &crdp->cbs_tail);
			out[n].is_default = (crdp == default_call_rcu_data);
		}
		n++;
	}
	call_rcu_unlock(&call_rcu_mutex);
	return n;
}

/* ---- poll ---- */
void VPF(poll_state)(unsigned long *cur, unsigned long *target, int *active)
{
	mutex_lock(&poll_worker_gp_state.lock);
	*cur = poll_worker_gp_state.current_state.grace_period_id;
	*target = poll_worker_gp_state.latest_target.grace_period_id;
	*active = poll_worker_gp_state.active;
	mutex_unlock(&poll_worker_gp_state.lock);
}
/* preset ids before any thread uses polling (wrap-around scenario, C14) */
int VPF(poll_preset)(unsigned long id)
{
	int ok = 0;
	mutex_lock(&poll_worker_gp_state.lock);
	if (!poll_worker_gp_state.active) {
		poll_worker_gp_state.current_state.grace_period_id = id;
		poll_worker_gp_state.latest_target.grace_period_id = id;
		ok = 1;
	}
	mutex_unlock(&poll_worker_gp_state.lock);
	return ok;
}

#if defined(VP_RCU_BP)
/* ---- bp arena ---- */
int VPF(arena_snapshot)(struct vp_bp_arena_info *out)
{
	struct registry_chunk *chunk;
	int nchunks = 0;
	sigset_t newmask, oldmask;

	memset(out, 0, sizeof(*out));
	sigfillset(&newmask);
	pthread_sigmask(SIG_BLOCK, &newmask, &oldmask);
	mutex_lock(&rcu_gp_lock);
	mutex_lock(&rcu_registry_lock);
	cds_list_for_each_entry(chunk, &registry_arena.chunk_list, node) {
		size_t i, alloc = 0;
		for (i = 0; i < chunk->capacity; i++) {
			if (chunk->readers[i].alloc) {
				alloc++;
				if (!chunk->readers[i].tid)
					out->alloc_without_tid++;
			} else if (chunk->readers[i].ctr & URCU_BP_GP_CTR_NEST_MASK)
				out->free_slot_active++;
		}
		if (alloc != chunk->used)
			out->used_mismatch++;
		if (nchunks < VP_BP_MAX_CHUNKS) {
			out->chunk_cap[nchunks] = chunk->capacity;
			out->chunk_used[nchunks] = chunk->used;
			out->chunk_addr[nchunks] = chunk;
		}
		out->total_cap += chunk->capacity;
		out->total_used += chunk->used;
		nchunks++;
	}
	{
		struct cds_list_head *pos;
		cds_list_for_each(pos, &registry)
			out->registry_len++;
	}
	out->nchunks = nchunks;
	mutex_unlock(&rcu_registry_lock);
	mutex_unlock(&rcu_gp_lock);
	pthread_sigmask(SIG_SETMASK, &oldmask, NULL);
	return nchunks;
}
#endif
