/*
 * lfht_conc_uniq.h - C06 modes of lfht_conc.c (included once).
 *
 * --mode=uniq    phases on a fresh table each: U updaters hammer add_unique / add_replace / replace / del on
 *                1-3 keys with colliding hashes (key 0 optionally "continuous": primed once, then only ever
 *                add_replace'd / replace'd), W walkers run lookup+next_duplicate walks, first/next traversals
 *                and plain lookups, each inside one read-side critical section, and assert online:
 *                  - never two nodes with one key in one walk / traversal,
 *                  - the continuous key is found by every lookup, exactly once by every walk / traversal,
 *                  - no node is returned whose removal had returned before the walk began (rm_ts + eps < call),
 *                  - residents are visited exactly once per traversal.
 *                Updaters check results, the per-node-life ownership counter, and at the quiescent end of a phase
 *                inserted - handed-out == present (<= 1) per key.
 * --mode=rounds  K threads add_unique the same key at the same time (start barrier + sub-microsecond offsets +
 *                hook delays): exactly one winner, everybody else gets the winner's node (or, if the key was
 *                present, nobody wins and everybody gets the resident node).
 */

#define UMAX 8
#define WKMAX 3
#define BAL_MAX 320

enum { U_ADDU, U_ADDR, U_REPL, U_DEL, U_NR };
static const char *const u_names[U_NR] = { "add_unique", "add_replace", "replace", "del" };

struct uthr {
	pthread_t tid;
	int idx, role;			/* role 0 updater, 1 walker */
	struct vp_rng rng;
	int cur_op;
	struct pend pend;
	uint64_t ins[MAXHOT], claimed[MAXHOT];
	/* evidence */
	uint64_t ops[U_NR], ok[U_NR], addu_found, replace_enoent, del_enoent, lookup_null;
	uint64_t walks, walks_nontrivial, dupwalks, travs, lookups, cont_checks, nodes_seen, during_grow, during_shrink, size_changed;
	uint64_t ballast_ops, del_lost_owner;
	int samples;
	char pad[64];
};

static struct uthr uthr[UMAX + WKMAX];
static int n_upd, n_walk, opt_continuous;
static long opt_phases, opt_ops;
static struct vp_barrier u_bar;
static int u_stop, u_phase_end, u_upd_done;
static uint64_t u_phase;
static int u_nk;
static uint64_t upd_cnt[MAXHOT][U_NR];		/* completed successful updates (relaxed, evidence only) */
static struct hnode *bal[BAL_MAX];
static int nbal, bal_up = 1;
static uint64_t u_conservation_checks;

static void u_bar_wait(void)
{
	vp_rcu_offline();
	vp_barrier_wait(&u_bar);
	vp_rcu_online();
}

static inline void upd_bump(int k, int kind)
{
	VP_STORE(upd_cnt[k][kind], VP_LOAD(upd_cnt[k][kind]) + 1);
}

/* a node handed out by the library for key k (k < 0: any) inside a read-side section that began at `call` */
static int u_check_node(struct hnode *h, int k, uint64_t call, const char *what)
{
	uint32_t m = h->magic;

	if (m != ND_HOT) {
		viol(m == ND_RES || m == ND_BAL ? "lfht:wrong-key-returned" : "lfht:reclaimed-node-returned",
		     "phase %llu: %s for key k%d returned node %p with magic 0x%x (%s)", (unsigned long long) u_phase, what, k, (void *) h, m,
		     m == ND_POISON ? "poisoned: reclaimed after a grace period" : m == ND_RES || m == ND_BAL ? "a node with another key" : "garbage");
		return -1;
	}
	if (h->epoch != u_phase) {
		viol("lfht:stale-node-returned", "phase %llu: %s returned a node of phase %llu (removed at quiescence, del returned 0)",
		     (unsigned long long) u_phase, what, (unsigned long long) h->epoch);
		return -1;
	}
	if (k >= 0 && h->kidx != k) {
		viol("lfht:wrong-key-returned", "phase %llu: %s for key k%d returned a node with key k%d", (unsigned long long) u_phase, what, k, h->kidx);
		return -1;
	}
	uint64_t rm = VP_LOAD(h->rm_ts);
	if (rm && vp_eps && rm + vp_eps < call) {
		viol("lfht:returned-node-removed-before-call",
		     "phase %llu: %s (key k%d) returned node %p (inserted by T%u) although an operation that removed it (del 0 / replace 0 / add_replace result) or that found it already removed (del / replace -> -ENOENT) had returned %llu cycles before this call began (eps %llu)",
		     (unsigned long long) u_phase, what, h->kidx, (void *) h, h->lid, (unsigned long long) (call - rm), (unsigned long long) vp_eps);
		return -1;
	}
	return 0;
}

/* node obtained by this thread: it is the only owner of this node life */
static void u_claim(struct uthr *u, struct hnode *h, int k, uint64_t ret_ts, const char *how)
{
	if (__atomic_fetch_add(&h->owner, 1, __ATOMIC_RELAXED) != 0) {
		viol("lfht:node-handed-to-two-callers",
		     "phase %llu: node %p (key k%d) was handed to a second caller by %s (T%d): del returning 0 / successful replace / add_replace returning it must happen exactly once per node",
		     (unsigned long long) u_phase, (void *) h, k, how, u->idx);
		return;
	}
	VP_STORE(h->rm_ts, ret_ts);
	u->claimed[k]++;
	pend_push(&u->pend, h);
}

static void ballast_step(struct uthr *u)
{
	struct cds_lfht *ht = cur_ht();
	int n = 1 + (int) vp_rand_n(&u->rng, 6);

	for (int i = 0; i < n; i++) {
		if (bal_up) {
			if (nbal >= BAL_MAX) {
				bal_up = 0;
				break;
			}
			struct hnode *h = node_new(ND_BAL, new_keyval(), vp_rand_n(&u->rng, 4) ? vp_rand(&u->rng) : fam_hash(&u->rng, &g_fam), -1, 0, u_phase);
			rcu_read_lock();
			cds_lfht_add(ht, h->hash, &h->n);
			rcu_read_unlock();
			bal[nbal++] = h;
		} else {
			if (nbal <= 8) {
				bal_up = 1;
				break;
			}
			int j = (int) vp_rand_n(&u->rng, (uint32_t) nbal);
			struct hnode *h = bal[j];
			rcu_read_lock();
			int ret = cds_lfht_del(ht, &h->n);
			rcu_read_unlock();
			if (ret)
				viol("lfht:del-failed-on-private-node", "phase %llu: cds_lfht_del of a ballast node nobody else removes returned %d", (unsigned long long) u_phase, ret);
			pend_push(&u->pend, h);
			bal[j] = bal[--nbal];
		}
		u->ballast_ops++;
	}
}

static void updater_op(struct uthr *u)
{
	struct cds_lfht *ht = cur_ht();
	struct vp_rng *r = &u->rng;
	int k = (int) vp_rand_n(r, (uint32_t) u_nk), op;
	uint32_t x = vp_rand_n(r, 100);
	struct hnode *nn = NULL, *unused = NULL;
	struct cds_lfht_node *ret;
	struct cds_lfht_iter it;
	uint64_t call, rts;
	int rc;

	if (k == 0 && opt_continuous)
		op = x < 50 ? U_ADDR : U_REPL;
	else
		op = x < 35 ? U_ADDU : x < 60 ? U_ADDR : x < 75 ? U_REPL : U_DEL;
	if (op != U_DEL)
		nn = node_new(ND_HOT, hot_keyval[k], hot_keyhash[k], k, (uint32_t) u->idx, u_phase);
	u->ops[op]++;
	VP_STORE(u->cur_op, op + 1);
	rcu_read_lock();
	switch (op) {
	case U_ADDU:
		call = ts_before();
		ret = cds_lfht_add_unique(ht, nn->hash, match_fn, &nn->key, &nn->n);
		if (ret == &nn->n) {
			u->ins[k]++;
			u->ok[op]++;
			upd_bump(k, op);
		} else if (!ret) {
			viol("lfht:add_unique:returned-null", "phase %llu: cds_lfht_add_unique returned NULL", (unsigned long long) u_phase);
			unused = nn;
		} else {
			(void) u_check_node(caa_container_of(ret, struct hnode, n), k, call, "add_unique (failure)");
			u->addu_found++;
			unused = nn;
		}
		break;
	case U_ADDR:
		call = ts_before();
		ret = cds_lfht_add_replace(ht, nn->hash, match_fn, &nn->key, &nn->n);
		rts = ts_after();
		u->ins[k]++;
		u->ok[op]++;
		if (!ret) {
			if (k == 0 && opt_continuous)
				viol("lfht:continuous-key:add_replace-found-nothing",
				     "phase %llu: key k0 is continuously present (primed once, then only add_replace'd / replace'd), yet add_replace returned NULL (inserted instead of replacing)",
				     (unsigned long long) u_phase);
		} else if (ret == &nn->n) {
			viol("lfht:add_replace:returned-new-node", "phase %llu: add_replace returned the node being added", (unsigned long long) u_phase);
		} else {
			struct hnode *old = caa_container_of(ret, struct hnode, n);
			if (!u_check_node(old, k, call, "add_replace (replaced node)"))
				u_claim(u, old, k, rts, "add_replace");
		}
		upd_bump(k, op);
		break;
	case U_REPL:
	case U_DEL:
		call = ts_before();
		cds_lfht_lookup(ht, hot_keyhash[k], match_fn, &hot_keyval[k], &it);
		if (!cds_lfht_iter_get_node(&it)) {
			u->lookup_null++;
			if (k == 0 && opt_continuous)
				viol("lfht:continuous-key:lookup-missed",
				     "phase %llu: updater T%d: lookup of key k0 returned NULL although the key is continuously present (primed once, then only add_replace'd / replace'd, never deleted); table size %lu",
				     (unsigned long long) u_phase, u->idx, ht_size(ht));
			unused = nn;
			break;
		}
		struct hnode *old = caa_container_of(cds_lfht_iter_get_node(&it), struct hnode, n);
		if (u_check_node(old, k, call, "lookup")) {
			unused = nn;
			break;
		}
		if (op == U_REPL) {
			rc = cds_lfht_replace(ht, &it, nn->hash, match_fn, &nn->key, &nn->n);
			rts = ts_after();
			if (rc == 0) {
				u->ins[k]++;
				u->ok[op]++;
				u_claim(u, old, k, rts, "replace");
				upd_bump(k, op);
			} else {
				if (rc != -ENOENT)
					viol("lfht:replace:wrong-return-code", "phase %llu: cds_lfht_replace (same key and hash) returned %d", (unsigned long long) u_phase, rc);
				u->replace_enoent++;
				unused = nn;
				/* somebody else removed it (maybe still unlinking): no later-started read may return it */
				if (rc == -ENOENT && !VP_LOAD(old->rm_ts))
					VP_STORE(old->rm_ts, rts);
			}
		} else {
			uint64_t flagged0 = vp_self()->hits[URCU_VP_HT_DEL_FLAGGED];
			rc = cds_lfht_del(ht, cds_lfht_iter_get_node(&it));
			rts = ts_after();
			if (rc && vp_self()->hits[URCU_VP_HT_DEL_FLAGGED] != flagged0)
				u->del_lost_owner++;
			if (rc == 0) {
				u->ok[op]++;
				u_claim(u, old, k, rts, "del");
				upd_bump(k, op);
			} else {
				if (rc != -ENOENT)
					viol("lfht:del:wrong-return-code", "phase %llu: cds_lfht_del returned %d", (unsigned long long) u_phase, rc);
				u->del_enoent++;
				if (rc == -ENOENT && !VP_LOAD(old->rm_ts))
					VP_STORE(old->rm_ts, rts);
			}
		}
		break;
	}
	rcu_read_unlock();
	VP_STORE(u->cur_op, 0);
	if (unused) {
		/* never inserted: no grace period needed */
		node_reclaim(unused);
		__atomic_fetch_add(&n_freed_unpublished, 1, __ATOMIC_RELAXED);
	}
	if (u->pend.n >= 256)
		pend_flush(&u->pend);
	vp_rcu_qs();
}

/* ------------------------------------------------------------------ walkers */

static uint8_t wk_res_seen[WKMAX][MAXRES];

static void walker_sig(struct uthr *u, const char *kind, int k, const uint64_t before[U_NR], int d0, int d1, unsigned long s0, unsigned long s1, int nnodes)
{
	unsigned mask = 0;
	uint64_t total = 0;
	char sig[160];

	for (int i = 0; i < U_NR; i++) {
		uint64_t d = VP_LOAD(upd_cnt[k][i]) - before[i];
		if (d)
			mask |= 1u << i;
		total += d;
	}
	u->walks++;
	if (during_flag(d0, d1) == 1)
		u->during_grow++;
	else if (during_flag(d0, d1) == 2)
		u->during_shrink++;
	if (s0 != s1)
		u->size_changed++;
	if (!total)
		return;
	u->walks_nontrivial++;
	if (u->samples < 2 && total >= 2 && (u->walks_nontrivial & 1023) == 9) {
		u->samples++;
		vp_sample_add("phase %llu table={%s} walker T%d: %s for key k%d (hash 0x%lx, %s) found %d node(s); successful updates of that key that completed during the walk: add_unique %llu, add_replace %llu, replace %llu, del %llu; table size %lu -> %lu, explicit resize %s",
			      (unsigned long long) u_phase, g_ctx, u->idx, kind, k, hot_keyhash[k], k == 0 && opt_continuous ? "continuous" : "churn", nnodes,
			      (unsigned long long) (VP_LOAD(upd_cnt[k][0]) - before[0]), (unsigned long long) (VP_LOAD(upd_cnt[k][1]) - before[1]),
			      (unsigned long long) (VP_LOAD(upd_cnt[k][2]) - before[2]), (unsigned long long) (VP_LOAD(upd_cnt[k][3]) - before[3]),
			      s0, s1, (d0 | d1) == 0 ? "idle" : (d0 | d1) == 1 ? "growing" : "shrinking");
	}
	snprintf(sig, sizeof(sig), "walk:%s:%s:%s:upd=%s%s%s%s:%s", kind, k == 0 && opt_continuous ? "continuous-key" : "churn-key",
		 rz_names[opt_resize], (mask & 1) ? "U" : "-", (mask & 2) ? "A" : "-", (mask & 4) ? "R" : "-", (mask & 8) ? "D" : "-",
		 s0 != s1 ? "size-changed" : (d0 | d1) ? "resizing" : "stable");
	sig_add_bounded(sig);
}

static void walker_step(struct uthr *u)
{
	struct cds_lfht *ht = cur_ht();
	struct vp_rng *r = &u->rng;
	uint32_t x = vp_rand_n(r, 100);
	int k = (int) vp_rand_n(r, (uint32_t) u_nk), wi = u->idx - n_upd;
	uint64_t before[U_NR], call;

	if (x >= 45 && x < 75 && opt_continuous)
		k = 0;		/* traversal: evidence is kept for the continuous key */
	struct cds_lfht_iter it;
	struct cds_lfht_node *n;
	int d0 = VP_LOAD(rz.dir), steps = 0;
	unsigned long s0 = ht_size(ht);
	int cont = opt_continuous && k == 0;

	for (int i = 0; i < U_NR; i++)
		before[i] = VP_LOAD(upd_cnt[k][i]);
	VP_STORE(u->cur_op, 1);
	if (x < 45) {
		/* lookup + next_duplicate walk */
		struct hnode *first = NULL;
		int cnt = 0;
		rcu_read_lock();
		call = ts_before();
		cds_lfht_lookup(ht, hot_keyhash[k], match_fn, &hot_keyval[k], &it);
		while ((n = cds_lfht_iter_get_node(&it)) != NULL) {
			struct hnode *h = caa_container_of(n, struct hnode, n);
			if (u_check_node(h, k, call, "lookup+next_duplicate"))
				break;
			if (++cnt == 1)
				first = h;
			else {
				viol("lfht:unique:two-nodes-same-key-in-one-walk",
				     "phase %llu: key k%d (hash 0x%lx) is only ever inserted with add_unique / add_replace / replace, yet one lookup+next_duplicate walk inside one read-side critical section returned two nodes with it: %p (inserted by T%u, now %s) and %p (inserted by T%u, now %s); table size %lu",
				     (unsigned long long) u_phase, k, hot_keyhash[k], (void *) first, first->lid,
				     cds_lfht_is_node_deleted(&first->n) ? "removed" : "NOT removed", (void *) h, h->lid,
				     cds_lfht_is_node_deleted(&h->n) ? "removed" : "NOT removed", ht_size(ht));
				break;
			}
			if (++steps > WALK_STEP_LIMIT)
				break;
			cds_lfht_next_duplicate(ht, match_fn, &hot_keyval[k], &it);
		}
		rcu_read_unlock();
		if (cont && cnt == 0)
			viol("lfht:continuous-key:lookup-missed",
			     "phase %llu: walker: lookup of key k0 returned NULL although the key is continuously present (primed once, then only add_replace'd / replace'd, never deleted); table size %lu -> %lu",
			     (unsigned long long) u_phase, s0, ht_size(ht));
		if (cont)
			u->cont_checks++;
		u->dupwalks++;
		u->nodes_seen += (uint64_t) cnt;
		walker_sig(u, "dupwalk", k, before, d0, VP_LOAD(rz.dir), s0, ht_size(ht), cnt);
	} else if (x < 75) {
		/* full traversal */
		struct hnode *seen[MAXHOT] = { NULL };
		int cnt[MAXHOT] = { 0 }, bad = 0, nres = g_nres;
		uint8_t *rs = wk_res_seen[wi];
		memset(rs, 0, (size_t) nres);
		rcu_read_lock();
		call = ts_before();
		cds_lfht_first(ht, &it);
		while ((n = cds_lfht_iter_get_node(&it)) != NULL) {
			struct hnode *h = caa_container_of(n, struct hnode, n);
			uint32_t m = h->magic;
			if (m == ND_RES) {
				if (h->lid < (uint32_t) nres && g_res[h->lid] == h) {
					if (rs[h->lid] < 200)
						rs[h->lid]++;
				} else {
					viol("lfht:traverse:removed-resident-seen", "phase %llu: traversal visited a resident of an earlier phase", (unsigned long long) u_phase);
					bad = 1;
				}
			} else if (m == ND_HOT) {
				if (u_check_node(h, -1, call, "first/next traversal")) {
					bad = 1;
					break;
				}
				int kk = h->kidx;
				if (++cnt[kk] == 1)
					seen[kk] = h;
				else {
					viol("lfht:unique:two-nodes-same-key-in-one-traversal",
					     "phase %llu: key k%d (hash 0x%lx) is only ever inserted with add_unique / add_replace / replace, yet one first/next traversal inside one read-side critical section visited two nodes with it: %p (inserted by T%u, now %s) and %p (inserted by T%u, now %s); table size %lu",
					     (unsigned long long) u_phase, kk, hot_keyhash[kk], (void *) seen[kk], seen[kk]->lid,
					     cds_lfht_is_node_deleted(&seen[kk]->n) ? "removed" : "NOT removed", (void *) h, h->lid,
					     cds_lfht_is_node_deleted(&h->n) ? "removed" : "NOT removed", ht_size(ht));
					bad = 1;
					break;
				}
			} else if (m != ND_BAL) {
				viol("lfht:reclaimed-node-returned", "phase %llu: first/next traversal visited node %p with magic 0x%x (%s)",
				     (unsigned long long) u_phase, (void *) h, m, m == ND_POISON ? "poisoned: reclaimed after a grace period" : "garbage");
				bad = 1;
				break;
			}
			if (++steps > WALK_STEP_LIMIT) {
				viol("lfht:walk-does-not-terminate", "phase %llu: first/next traversal visited more than %d nodes", (unsigned long long) u_phase, WALK_STEP_LIMIT);
				bad = 1;
				break;
			}
			cds_lfht_next(ht, &it);
		}
		rcu_read_unlock();
		if (!bad) {
			for (int i = 0; i < nres; i++)
				if (rs[i] != 1) {
					viol(rs[i] ? "lfht:traverse:node-seen-twice" : "lfht:traverse:resident-missed",
					     "phase %llu: first/next traversal visited resident #%d (hash 0x%lx, never removed during a phase) %d times; table size %lu -> %lu",
					     (unsigned long long) u_phase, i, g_res[i]->hash, rs[i], s0, ht_size(ht));
					break;
				}
			if (opt_continuous && cnt[0] != 1)
				viol("lfht:continuous-key:traversal-missed",
				     "phase %llu: first/next traversal did not visit any node with key k0, which is continuously present (only ever add_replace'd / replace'd); table size %lu -> %lu",
				     (unsigned long long) u_phase, s0, ht_size(ht));
			if (opt_continuous)
				u->cont_checks++;
		}
		u->travs++;
		u->nodes_seen += (uint64_t) steps;
		walker_sig(u, "traversal", k, before, d0, VP_LOAD(rz.dir), s0, ht_size(ht), cnt[k]);
	} else {
		/* plain lookup */
		int found;
		rcu_read_lock();
		call = ts_before();
		cds_lfht_lookup(ht, hot_keyhash[k], match_fn, &hot_keyval[k], &it);
		n = cds_lfht_iter_get_node(&it);
		found = n != NULL;
		if (n)
			(void) u_check_node(caa_container_of(n, struct hnode, n), k, call, "lookup");
		rcu_read_unlock();
		if (cont && !found)
			viol("lfht:continuous-key:lookup-missed",
			     "phase %llu: walker: lookup of key k0 returned NULL although the key is continuously present (primed once, then only add_replace'd / replace'd, never deleted); table size %lu -> %lu",
			     (unsigned long long) u_phase, s0, ht_size(ht));
		if (cont)
			u->cont_checks++;
		u->lookups++;
		walker_sig(u, "lookup", k, before, d0, VP_LOAD(rz.dir), s0, ht_size(ht), found);
	}
	VP_STORE(u->cur_op, 0);
	vp_rcu_qs();
}

/* ------------------------------------------------------------------ phases */

static void phase_begin(struct uthr *u)
{
	struct vp_rng *r = &u->rng;
	struct cds_lfht *ht;

	generation_begin(r);
	ht = cur_ht();
	u_phase++;
	u_nk = 1 + (int) vp_rand_n(r, 3);
	/* colliding hashes: equal to h0 more often than fam_hash() alone gives */
	for (int k = 1; k < u_nk; k++)
		if (vp_rand_n(r, 2))
			hot_keyhash[k] = g_fam.h0;
	nbal = 0;
	bal_up = 1;
	for (int i = 0; i < n_upd + n_walk; i++) {
		memset(uthr[i].ins, 0, sizeof(uthr[i].ins));
		memset(uthr[i].claimed, 0, sizeof(uthr[i].claimed));
	}
	if (opt_continuous) {
		struct hnode *h = node_new(ND_HOT, hot_keyval[0], hot_keyhash[0], 0, (uint32_t) u->idx, u_phase);
		rcu_read_lock();
		struct cds_lfht_node *ret = cds_lfht_add_unique(ht, h->hash, match_fn, &h->key, &h->n);
		rcu_read_unlock();
		if (ret != &h->n)
			viol("lfht:add_unique:spurious-failure", "phase %llu: add_unique of key k0 into a table that does not hold it returned another node", (unsigned long long) u_phase);
		u->ins[0]++;
	}
	chaos_set(chaos_pick(r));
	__atomic_store_n(&u_upd_done, 0, __ATOMIC_SEQ_CST);
	__atomic_store_n(&u_phase_end, 0, __ATOMIC_SEQ_CST);
}

/* quiescent: every updater and walker waits at the barrier */
static void phase_end(struct uthr *u)
{
	struct cds_lfht *ht = cur_ht();
	struct cds_lfht_iter it;
	struct cds_lfht_node *n;
	struct hnode *present[MAXHOT][4];
	int cnt[MAXHOT] = { 0 }, steps = 0;

	chaos_set(0);
	rcu_read_lock();
	cds_lfht_first(ht, &it);
	while ((n = cds_lfht_iter_get_node(&it)) != NULL && ++steps < WALK_STEP_LIMIT) {
		struct hnode *h = caa_container_of(n, struct hnode, n);
		if (h->magic == ND_HOT && h->epoch == u_phase && h->kidx >= 0 && h->kidx < MAXHOT) {
			if (cnt[h->kidx] < 4)
				present[h->kidx][cnt[h->kidx]] = h;
			cnt[h->kidx]++;
		}
		cds_lfht_next(ht, &it);
	}
	rcu_read_unlock();
	for (int k = 0; k < u_nk; k++) {
		uint64_t ins = 0, cl = 0;
		for (int i = 0; i < n_upd; i++) {
			ins += uthr[i].ins[k];
			cl += uthr[i].claimed[k];
		}
		u_conservation_checks++;
		if (cnt[k] > 1)
			viol("lfht:unique:duplicate-at-quiescence",
			     "phase %llu: key k%d (hash 0x%lx) was only ever inserted with add_unique / add_replace / replace, yet %d nodes with it are in the table at quiescence",
			     (unsigned long long) u_phase, k, hot_keyhash[k], cnt[k]);
		else if (ins - cl != (uint64_t) cnt[k])
			viol(ins - cl > (uint64_t) cnt[k] ? "lfht:unique:node-handed-to-no-caller" : "lfht:unique:more-nodes-handed-out-than-inserted",
			     "phase %llu: key k%d: %llu successful insertions (add_unique returning its node, add_replace, successful replace), %llu nodes handed to callers (del 0, successful replace, add_replace result), %d present at quiescence: inserted - handed out must equal present",
			     (unsigned long long) u_phase, k, (unsigned long long) ins, (unsigned long long) cl, cnt[k]);
		if (opt_continuous && k == 0 && cnt[0] != 1)
			viol("lfht:continuous-key:absent-at-quiescence", "phase %llu: replace-only key k0 has %d nodes at quiescence", (unsigned long long) u_phase, cnt[0]);
		for (int j = 0; j < cnt[k] && j < 4; j++) {
			struct hnode *h = present[k][j];
			rcu_read_lock();
			int ret = cds_lfht_del(ht, &h->n);
			rcu_read_unlock();
			if (ret)
				viol("lfht:quiescent-del-failed", "phase %llu: cds_lfht_del of a node visited by the quiescent traversal returned %d", (unsigned long long) u_phase, ret);
			else if (__atomic_fetch_add(&h->owner, 1, __ATOMIC_RELAXED) != 0)
				viol("lfht:node-handed-to-two-callers", "phase %llu: node %p still in the table at quiescence had already been handed to a caller", (unsigned long long) u_phase, (void *) h);
			else
				pend_push(&u->pend, h);
		}
	}
	while (nbal) {
		struct hnode *h = bal[--nbal];
		rcu_read_lock();
		int ret = cds_lfht_del(ht, &h->n);
		rcu_read_unlock();
		if (ret)
			viol("lfht:del-failed-on-private-node", "phase %llu: cds_lfht_del of a ballast node returned %d", (unsigned long long) u_phase, ret);
		pend_push(&u->pend, h);
	}
	pend_flush(&u->pend);
	for (int i = 0; i < MAXHOT; i++)
		for (int j = 0; j < U_NR; j++)
			VP_STORE(upd_cnt[i][j], 0);
	generation_end();
}

static void *uniq_main(void *arg)
{
	struct uthr *u = arg;
	struct vp_thr *vt;

	vp_pin(u->idx);
	vt = vp_self();
	rcu_register_thread();
	for (long ph = 0;; ph++) {
		if (u->idx == 0) {
			if (ph >= opt_phases || vp_nviolations() > 0)
				u_stop = 1;
			else
				phase_begin(u);
		}
		u_bar_wait();				/* A: phase starts */
		if (u_stop)
			break;
		if (u->role == 0) {
			for (long i = 0; i < opt_ops; i++) {
				updater_op(u);
				if (u->idx == 0 && (opt_resize == RZ_AUTO || opt_resize == RZ_ACCT) && (i & 7) == 0)
					ballast_step(u);
				if ((i & 63) == 0) {
					VP_STORE(vt->progress, vt->progress + 1);
					if (vp_nviolations() > 0)
						break;
				}
			}
			if (__atomic_add_fetch(&u_upd_done, 1, __ATOMIC_SEQ_CST) == n_upd)
				__atomic_store_n(&u_phase_end, 1, __ATOMIC_SEQ_CST);
		} else {
			uint64_t i = 0;
			while (!__atomic_load_n(&u_phase_end, __ATOMIC_RELAXED)) {
				walker_step(u);
				if ((++i & 63) == 0)
					VP_STORE(vt->progress, vt->progress + 1);
			}
		}
		pend_flush(&u->pend);
		u_bar_wait();				/* B: quiescent */
		if (u->idx == 0)
			phase_end(u);
		VP_STORE(vt->progress, vt->progress + 1);
	}
	if (u->idx == 0) {
		if (opt_reclaim == 1)
			rcu_barrier();
		pend_account(&ctl_pend);
	}
	rcu_unregister_thread();
	return NULL;
}

static int uniq_confirm_stuck(char *buf, size_t len)
{
	for (int i = 0; i < n_upd + n_walk; i++) {
		int c = VP_LOAD(uthr[i].cur_op);
		if (c) {
			snprintf(buf, len, "hang:lfht:%s-does-not-return", uthr[i].role ? "walk" : u_names[c - 1]);
			return 1;
		}
	}
	if (resizer_confirm_stuck(buf, len))
		return 1;
	snprintf(buf, len, "hang:lfht-uniq:unconfirmed (no thread inside an operation)");
	return 0;
}

static int run_uniq(void)
{
	n_upd = (int) vp_arg_long("updaters", 4);
	n_walk = (int) vp_arg_long("walkers", 2);
	if (n_upd < 2) n_upd = 2;
	if (n_upd > UMAX) n_upd = UMAX;
	if (n_walk < 1) n_walk = 1;
	if (n_walk > WKMAX) n_walk = WKMAX;
	opt_phases = vp_arg_long("phases", 10);
	opt_ops = vp_arg_long("ops", 20000);
	opt_continuous = (int) vp_arg_long("continuous", 1);
	opt_unique = 1;
	vp_lib_thread_slot_base(opt_resize == RZ_EXPLICIT ? n_upd + n_walk + 1 : n_upd + n_walk);
	vp_barrier_init(&u_bar, n_upd + n_walk);
	for (int i = 0; i < n_upd + n_walk; i++) {
		uthr[i].idx = i;
		uthr[i].role = i >= n_upd;
		vp_rng_init(&uthr[i].rng, vp_opt.seed, 0xc06, (uint64_t) i);
	}
	rz.pause = 1;
	resizer_start(n_upd + n_walk);
	vp_watchdog_start((uint64_t) opt_stall_ms, uniq_confirm_stuck);
	for (int i = n_upd + n_walk - 1; i >= 0; i--)
		pthread_create(&uthr[i].tid, NULL, uniq_main, &uthr[i]);
	for (int i = 0; i < n_upd + n_walk; i++)
		pthread_join(uthr[i].tid, NULL);
	resizer_stop();
	vp_watchdog_stop();
#if !(VP_ASAN || VP_TSAN)
	vp_quar_drain(&quar);
#endif
	uint64_t walks = 0, nt = 0, dw = 0, tr = 0, lk = 0, cc = 0, ns = 0, dg = 0, ds = 0, sc = 0, ops[U_NR] = { 0 }, ok[U_NR] = { 0 };
	uint64_t found = 0, renoent = 0, denoent = 0, lnull = 0, balops = 0, lost = 0;
	for (int i = 0; i < n_upd + n_walk; i++) {
		struct uthr *u = &uthr[i];
		walks += u->walks; nt += u->walks_nontrivial; dw += u->dupwalks; tr += u->travs; lk += u->lookups; cc += u->cont_checks;
		ns += u->nodes_seen; dg += u->during_grow; ds += u->during_shrink; sc += u->size_changed;
		lost += u->del_lost_owner; found += u->addu_found; renoent += u->replace_enoent; denoent += u->del_enoent; lnull += u->lookup_null; balops += u->ballast_ops;
		for (int j = 0; j < U_NR; j++) {
			ops[j] += u->ops[j];
			ok[j] += u->ok[j];
		}
		pend_account(&u->pend);
	}
	vp_counter_add("evaluations", walks);
	vp_counter_add("nontrivial", nt);
	vp_counter_add("walks", walks);
	vp_counter_add("walks_lookup_next_duplicate", dw);
	vp_counter_add("walks_first_next_traversal", tr);
	vp_counter_add("walks_plain_lookup", lk);
	vp_counter_add("continuous_key_checks", cc);
	vp_counter_add("walk_nodes_visited", ns);
	vp_counter_add("walks_during_explicit_grow", dg);
	vp_counter_add("walks_during_explicit_shrink", ds);
	vp_counter_add("walks_table_size_changed", sc);
	for (int j = 0; j < U_NR; j++) {
		char name[48];
		snprintf(name, sizeof(name), "upd_%s", u_names[j]);
		vp_counter_add(name, ops[j]);
		snprintf(name, sizeof(name), "upd_%s_success", u_names[j]);
		vp_counter_add(name, ok[j]);
	}
	vp_counter_add("add_unique_found_existing", found);
	vp_counter_add("replace_enoent", renoent);
	vp_counter_add("del_enoent", denoent);
	vp_counter_add("updater_lookup_null", lnull);
	vp_counter_add("ballast_ops", balops);
	vp_counter_add("marker_del_lost_owner_after_flagging", lost);
	vp_counter_add("phases", u_phase);
	vp_counter_add("conservation_checks", u_conservation_checks);
	common_counters();
	if (!vp_eps)
		vp_inconclusive("tsc-calibration-failed: removed-before-call oracle skipped, value oracles decided");
	vp_note("cfg=%s mode=uniq resize=%s updaters=%d walkers=%d phases=%llu walks=%llu nontrivial=%llu eps=%llu", cfgname, rz_names[opt_resize],
		n_upd, n_walk, (unsigned long long) u_phase, (unsigned long long) walks, (unsigned long long) nt, (unsigned long long) vp_eps);
	return vp_finish();
}

/* ------------------------------------------------------------------ winner accounting rounds */

struct rthr {
	pthread_t tid;
	int idx;
	struct vp_rng rng;
	int cur_op;
	char pad[64];
};

static struct {
	uint64_t number;
	int k, nthr, prefilled, chaos;
	struct hnode *pre;
	struct hnode *node[UMAX];
	uint32_t off[UMAX];
	uint64_t call[UMAX], ret[UMAX];
	struct cds_lfht_node *res[UMAX];
	uint8_t during[UMAX];
	unsigned long size_before;
	uint64_t rz_before;
} rd;
static struct rthr rthr[UMAX];
static int r_nthr, r_stop;
static long opt_rounds;
static uint64_t r_rounds, r_nontrivial, r_prefilled, r_in_gen, r_losers, r_max_overlap;

static void round_plan(struct rthr *c)
{
	struct vp_rng *r = &c->rng;
	struct cds_lfht *ht;

	if (!cur_ht()) {
		generation_begin(r);
		r_in_gen = 0;
	} else if ((long) r_in_gen >= opt_gen_len) {
		pend_flush(&ctl_pend);
		generation_end();
		generation_begin(r);
		r_in_gen = 0;
	}
	if ((r_in_gen & 63) == 63)
		pend_flush(&ctl_pend);
	r_in_gen++;
	ht = cur_ht();
	rd.number++;
	u_phase = rd.number;
	rd.k = (int) vp_rand_n(r, 3);
	rd.nthr = 2 + (int) vp_rand_n(r, (uint32_t) (r_nthr - 1));
	rd.prefilled = vp_rand_n(r, 100) < 15;
	rd.chaos = chaos_pick(r);
	chaos_set(rd.chaos);
	rd.pre = NULL;
	if (rd.prefilled) {
		rd.pre = node_new(ND_HOT, hot_keyval[rd.k], hot_keyhash[rd.k], rd.k, 99, rd.number);
		rcu_read_lock();
		struct cds_lfht_node *ret = cds_lfht_add_unique(ht, rd.pre->hash, match_fn, &rd.pre->key, &rd.pre->n);
		rcu_read_unlock();
		if (ret != &rd.pre->n)
			viol("lfht:add_unique:spurious-failure", "round %llu: add_unique of an absent key at quiescence returned another node", (unsigned long long) rd.number);
	}
	for (int t = 0; t < rd.nthr; t++) {
		rd.node[t] = node_new(ND_HOT, hot_keyval[rd.k], hot_keyhash[rd.k], rd.k, (uint32_t) t, rd.number);
		rd.off[t] = vp_rand_n(r, 3) ? vp_rand_n(r, 1200) : 0;
	}
	rd.size_before = ht_size(ht);
	rd.rz_before = VP_LOAD(rz.count);
}

static void round_run(struct rthr *t)
{
	struct cds_lfht *ht = cur_ht();
	int me = t->idx, d0;
	struct hnode *h;

	if (me >= rd.nthr)
		return;
	h = rd.node[me];
	if (rd.off[me])
		vp_spin_cycles(rd.off[me]);
	VP_STORE(t->cur_op, 1);
	d0 = VP_LOAD(rz.dir);
	rcu_read_lock();
	rd.call[me] = ts_before();
	rd.res[me] = cds_lfht_add_unique(ht, h->hash, match_fn, &h->key, &h->n);
	rd.ret[me] = ts_after();
	if (rd.res[me] && rd.res[me] != &h->n)
		(void) u_check_node(caa_container_of(rd.res[me], struct hnode, n), rd.k, rd.call[me], "add_unique (failure)");
	rcu_read_unlock();
	rd.during[me] = during_flag(d0, VP_LOAD(rz.dir));
	VP_STORE(t->cur_op, 0);
	struct vp_thr *vt = vp_self();
	VP_STORE(vt->progress, vt->progress + 1);
}

static void round_describe(char *buf, size_t len)
{
	size_t off = 0;
	uint64_t t0 = UINT64_MAX;

	for (int t = 0; t < rd.nthr; t++)
		if (rd.call[t] < t0)
			t0 = rd.call[t];
	off += (size_t) snprintf(buf + off, len - off, "round %llu key k%d hash 0x%lx %s chaos=%d size %lu:", (unsigned long long) rd.number, rd.k,
				 hot_keyhash[rd.k], rd.prefilled ? "PRESENT(node P)" : "absent", rd.chaos, rd.size_before);
	for (int t = 0; t < rd.nthr && off + 80 < len; t++) {
		int who = -2;
		if (rd.res[t] == NULL)
			who = -1;
		else if (rd.pre && rd.res[t] == &rd.pre->n)
			who = 99;
		else
			for (int j = 0; j < rd.nthr; j++)
				if (rd.res[t] == &rd.node[j]->n)
					who = j;
		off += (size_t) snprintf(buf + off, len - off, " T%d[%llu,%llu] add_unique(N%d)->", t, (unsigned long long) (rd.call[t] - t0),
					 (unsigned long long) (rd.ret[t] - t0), t);
		if (who == 99)
			off += (size_t) snprintf(buf + off, len - off, "P");
		else if (who >= 0)
			off += (size_t) snprintf(buf + off, len - off, "N%d", who);
		else
			off += (size_t) snprintf(buf + off, len - off, "%s", who == -1 ? "NULL" : "?");
	}
}

static void round_check(struct rthr *c)
{
	struct cds_lfht *ht = cur_ht();
	int winners = 0, winner = -1, overlap = 0, bad = 0;
	char desc[900];
	struct cds_lfht_iter it;

	(void) c;
	chaos_set(0);
	r_rounds++;
	for (int t = 0; t < rd.nthr; t++)
		if (rd.res[t] == &rd.node[t]->n) {
			winners++;
			winner = t;
		}
	round_describe(desc, sizeof(desc));
	if (rd.prefilled) {
		r_prefilled++;
		if (winners) {
			viol("lfht:add_unique:inserted-duplicate", "add_unique inserted its node although the key was present before the round and nothing removes it: %s", desc);
			bad = 1;
		}
		for (int t = 0; t < rd.nthr && !bad; t++)
			if (rd.res[t] != &rd.pre->n) {
				viol("lfht:add_unique:loser-returned-wrong-node", "add_unique of a present key must return the (only) node with that key: %s", desc);
				bad = 1;
			}
	} else {
		if (winners > 1) {
			viol("lfht:add_unique:two-winners", "%d concurrent add_unique calls for one absent key each got their own node back: %s", winners, desc);
			bad = 1;
		} else if (winners == 0) {
			viol("lfht:add_unique:no-winner", "none of the concurrent add_unique calls for an absent key inserted its node: %s", desc);
			bad = 1;
		}
		for (int t = 0; t < rd.nthr && !bad; t++)
			if (rd.res[t] != &rd.node[winner]->n) {
				viol("lfht:add_unique:loser-returned-wrong-node",
				     "nothing removes nodes during a round, so every losing add_unique must return the winner's node: %s", desc);
				bad = 1;
			}
	}
	/* quiescent: exactly one node with the key */
	struct hnode *expect = rd.prefilled ? rd.pre : winner >= 0 ? rd.node[winner] : NULL;
	if (!bad && expect) {
		rcu_read_lock();
		cds_lfht_lookup(ht, hot_keyhash[rd.k], match_fn, &hot_keyval[rd.k], &it);
		if (cds_lfht_iter_get_node(&it) != &expect->n) {
			viol("lfht:add_unique:winner-not-in-table", "after the round, lookup of the key does not return the node every add_unique returned: %s", desc);
			bad = 1;
		} else {
			cds_lfht_next_duplicate(ht, match_fn, &hot_keyval[rd.k], &it);
			if (cds_lfht_iter_get_node(&it)) {
				viol("lfht:unique:duplicate-at-quiescence", "after the round, the key has a second node in the table: %s", desc);
				bad = 1;
			}
		}
		if (!bad) {
			int ret = cds_lfht_del(ht, &expect->n);
			if (ret)
				viol("lfht:quiescent-del-failed", "cds_lfht_del of the winner node returned %d: %s", ret, desc);
		}
		rcu_read_unlock();
	}
	/* memory: losers were never inserted */
	for (int t = 0; t < rd.nthr; t++) {
		if (bad || t == winner)
			continue;
		node_reclaim(rd.node[t]);
		n_freed_unpublished++;
		r_losers++;
	}
	if (!bad && expect)
		pend_push(&ctl_pend, expect);
	/* evidence */
	for (int t = 0; t < rd.nthr; t++) {
		int o = 0;
		for (int j = 0; j < rd.nthr; j++)
			if (j != t && rd.call[t] < rd.ret[j] && rd.call[j] < rd.ret[t])
				o++;
		if (o > overlap)
			overlap = o;
	}
	if ((uint64_t) overlap > r_max_overlap)
		r_max_overlap = (uint64_t) overlap;
	if (overlap) {
		char sig[160];
		int rzd = 0;
		for (int t = 0; t < rd.nthr; t++)
			rzd |= rd.during[t];
		r_nontrivial++;
		snprintf(sig, sizeof(sig), "round:%s:K=%s:overlap=%s:%s:chaos=%d:%s", rz_names[opt_resize],
			 rd.nthr <= 2 ? "2" : rd.nthr <= 4 ? "3-4" : "5+", overlap <= 1 ? "1" : overlap <= 3 ? "2-3" : "4+",
			 rd.prefilled ? "present" : "absent", rd.chaos,
			 ht_size(ht) != rd.size_before ? "size-changed" : (rzd || VP_LOAD(rz.count) != rd.rz_before) ? "resizing" : "stable");
		sig_add_bounded(sig);
		if ((rd.number & 1023) == 17)
			vp_sample_add("%s", desc);
	}
}

static void *round_main(void *arg)
{
	struct rthr *t = arg;

	vp_pin(t->idx);
	(void) vp_self();
	rcu_register_thread();
	for (;;) {
		if (t->idx == 0) {
			if ((long) rd.number >= opt_rounds || vp_nviolations() > 0)
				r_stop = 1;
			else
				round_plan(t);
		}
		u_bar_wait();
		if (r_stop)
			break;
		round_run(t);
		u_bar_wait();
		if (t->idx == 0)
			round_check(t);
	}
	if (t->idx == 0) {
		pend_flush(&ctl_pend);
		if (cur_ht())
			generation_end();
		if (opt_reclaim == 1)
			rcu_barrier();
		pend_account(&ctl_pend);
	}
	rcu_unregister_thread();
	return NULL;
}

static int round_confirm_stuck(char *buf, size_t len)
{
	for (int i = 0; i < r_nthr; i++)
		if (VP_LOAD(rthr[i].cur_op)) {
			snprintf(buf, len, "hang:lfht:add_unique-does-not-return");
			return 1;
		}
	if (resizer_confirm_stuck(buf, len))
		return 1;
	snprintf(buf, len, "hang:lfht-rounds:unconfirmed");
	return 0;
}

static int run_rounds(void)
{
	r_nthr = (int) vp_arg_long("threads", 6);
	if (r_nthr < 2) r_nthr = 2;
	if (r_nthr > UMAX) r_nthr = UMAX;
	opt_rounds = vp_arg_long("rounds", 50000);
	opt_gen_len = vp_arg_long("gen-len", 2000);
	opt_unique = 1;
	vp_lib_thread_slot_base(opt_resize == RZ_EXPLICIT ? r_nthr + 1 : r_nthr);
	vp_barrier_init(&u_bar, r_nthr);
	for (int i = 0; i < r_nthr; i++) {
		rthr[i].idx = i;
		vp_rng_init(&rthr[i].rng, vp_opt.seed, 0xc06b, (uint64_t) i);
	}
	rz.pause = 1;
	resizer_start(r_nthr);
	vp_watchdog_start((uint64_t) opt_stall_ms, round_confirm_stuck);
	for (int i = r_nthr - 1; i >= 0; i--)
		pthread_create(&rthr[i].tid, NULL, round_main, &rthr[i]);
	for (int i = 0; i < r_nthr; i++)
		pthread_join(rthr[i].tid, NULL);
	resizer_stop();
	vp_watchdog_stop();
#if !(VP_ASAN || VP_TSAN)
	vp_quar_drain(&quar);
#endif
	vp_counter_add("evaluations", r_rounds);
	vp_counter_add("nontrivial", r_nontrivial);
	vp_counter_add("rounds", r_rounds);
	vp_counter_add("rounds_key_present", r_prefilled);
	vp_counter_add("losing_add_unique_calls", r_losers);
	vp_counter_set("max_overlapping_calls", r_max_overlap);
	common_counters();
	if (!vp_eps)
		vp_inconclusive("tsc-calibration-failed: removed-before-call oracle skipped, value oracles decided");
	vp_note("cfg=%s mode=rounds resize=%s threads=%d rounds=%llu nontrivial=%llu eps=%llu", cfgname, rz_names[opt_resize], r_nthr,
		(unsigned long long) r_rounds, (unsigned long long) r_nontrivial, (unsigned long long) vp_eps);
	return vp_finish();
}
