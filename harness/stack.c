/*
 * stack.c - C11: cds_wfs / cds_lfs / cds_lfs_*_rcu are linearizable LIFO stacks.
 *
 *  --mode=episodes  short random episodes (2-4 pinned long-lived workers, spin barrier start, random
 *                   sub-us offsets, 1-6 operations each) on a persistent stack, every history decided
 *                   by the Wing-Gong-Lowe checker (lin.c) against a LIFO + pop_all model.  Worker 0 is
 *                   the controller: it prefills 0-3 nodes before the start barrier and drains the stack
 *                   after the end barrier (both part of the history).  The (kind, scheme) pair changes
 *                   every --block episodes.  wfs: every --freeze-every-th episode parks a pusher at
 *                   URCU_VP_WFS_PUSH_MID while a prober runs the nonblocking calls (exact results are
 *                   known there; the history is lin-checked as well).
 *  --mode=long      free-running pushers / poppers, streaming oracles (stack_run.h).
 *  --mode=aba       small recycled node pool, scheme rcu, lfs + lfs_rcu (stack_run.h);
 *                   --aba-no-gp=1 is the NEGATIVE CONTROL (recycles without a grace period).
 *
 * Model-side ordering: the checker widens every interval by eps, which would let it reorder the
 * consecutive operations of ONE thread; program order (and prefill-first / drain-last, both
 * separated from the workers' operations by a barrier) is therefore enforced by the model itself
 * through per-thread sequence numbers, which is sound whatever the clock does.
 */
#include "stack_api.h"
#include "lin.h"

#define MAX_W 4
#define MAX_OPS_W 6
#define NODES_W 12		/* nodes one worker may push in one episode (prefill 3 + 6 + slack) */
#define RING 64			/* episode slots before a node is used again (non-ASan builds) */
#define MAXCHAIN 64
#define LOG_CAP 56
#define SEQ_CAP 256
#define MODEL_IDS 43
#define DEFER_CAP 4096

enum { OP_PUSH, OP_POP, OP_POPALL, OP_EMPTY, OP_NR };
static const char *const op_names[32] = { "push", "pop", "popall", "empty" };
static const char *const pv_names[PV_NR] = { "blocking", "nonblocking", "with_state_blocking", "with_state_nonblocking" };
static const char *const it_names[IT_NR] = { "for_each", "for_each_safe", "next_nonblocking" };

/* lin_op.b: low 32 bits flags, high 32 bits per-thread sequence number */
#define F_PV(x)      ((x) & 3u)
#define F_INTERNAL   (1u << 4)	/* cds_*_blocking (internal lock) rather than explicit lock + __cds_* */
#define F_INSECTION  (1u << 5)	/* pop_all inside a read-side section (scheme rcu) */
#define F_IT(x)      (((x) & 3u) << 6)
#define F_GET_IT(f)  (((f) >> 6) & 3u)
#define F_PREFILL    (1u << 8)
#define F_DRAIN      (1u << 9)
#define F_FROZEN     (1u << 10)	/* issued while a pusher was parked at WFS_PUSH_MID */

struct worker {
	pthread_t tid;
	int idx;
	struct vp_rng rng;
	struct lin_op ops[LOG_CAP];
	int nops;
	uint8_t seq[SEQ_CAP];
	int nseq;
	uint64_t push_ctr;
	struct snode *ring;
	int nalloc;
	struct snode **defer;
	int ndefer;
	int in_op;		/* for the stuck-state detector */
	char pad[64];
} __attribute__((aligned(64)));
static struct worker W[MAX_W];
static int nthreads;

/* vp_barrier spins 20000 times before it yields: far too long when the placement makes workers
 * share a CPU (the partner we wait for cannot run).  Same algorithm, spin bound chosen from the
 * placement. */
static struct { int count, sense, n, spin; } bar;
static void bar_init(int n)
{
	bar.count = bar.sense = 0;
	bar.n = n;
	bar.spin = 20000;
	for (int i = 0; i < n; i++)
		for (int k = 0; k < i; k++)
			if (vp_slot_cpu(i) == vp_slot_cpu(k))
				bar.spin = 100;
}
/* The "memory" clobbers matter: the harness state handed over at the barrier lives in static
 * variables whose address never escapes, and gcc -O2 otherwise keeps such a variable in a register
 * across the call (it did: a stale `ep.stop`). */
static void __attribute__((noinline)) bar_wait(void)
{
	int s, spins = 0;

	__asm__ __volatile__("" ::: "memory");
	s = __atomic_load_n(&bar.sense, __ATOMIC_ACQUIRE);
	if (__atomic_add_fetch(&bar.count, 1, __ATOMIC_ACQ_REL) == bar.n) {
		__atomic_store_n(&bar.count, 0, __ATOMIC_RELAXED);
		__atomic_store_n(&bar.sense, !s, __ATOMIC_RELEASE);
		__asm__ __volatile__("" ::: "memory");
		return;
	}
	while (__atomic_load_n(&bar.sense, __ATOMIC_ACQUIRE) == s) {
		if (++spins > bar.spin)
			sched_yield();
		else
			caa_cpu_relax();
	}
	__asm__ __volatile__("" ::: "memory");
}

static struct {
	uint64_t epoch;
	int slot, nw, consumer, freeze, prefill, stop;
} ep;
static uint64_t eid2id[1 + MAX_W * NODES_W];
static int ep_bad;		/* a direct oracle already reported this episode */

/* freeze episode hand-shake */
static struct snode *frz_node;
static int frz_probe_done, frz_released, frz_skipped;

static long opt_block, opt_freeze_every, opt_max_episodes;
static double opt_seconds;
static uint64_t t_start_ns;
static unsigned kinds_mask = 7, schemes_mask = 7;

struct combo { int kind, scheme; };
static struct combo combos[K_NR * S_NR];
static int ncombos, combo_i = -1;

/* evidence */
static uint64_t ev_episodes, ev_nontrivial, ev_inconclusive, ev_freeze_eps, ev_freeze_skipped, ev_violations;
static uint64_t ev_combo[K_NR][S_NR], ev_ops[OP_NR], ev_wouldblock, ev_iter_wouldblock, ev_max_conc, ev_search_nodes;
static uint64_t ev_frozen_probes;
static int samples_combo[K_NR][S_NR];

/* ------------------------------------------------------------------ model */

struct mstate { uint8_t n; uint8_t next[MAX_W]; uint8_t ids[MODEL_IDS]; };
struct mctx {
	int nprefill;
	int nops[MAX_W];
	/* below[x]: node directly under x during x's whole stay in the stack (0 = bottom, 0xff = unknown).
	 * Nothing under a node can leave before the node does, so the successor of x in a pop_all chain
	 * (or in the final sequence of drain pops) was the top when x was pushed: pure search pruning. */
	uint8_t below[1 + MAX_W * NODES_W + 8];
};

static void m_init(void *s, void *c)
{
	(void) c;
	memset(s, 0, sizeof(struct mstate));
}

static int m_apply(void *sv, const struct lin_op *op, void *cv)
{
	struct mstate *s = sv;
	const struct mctx *c = cv;
	unsigned seq = (unsigned) (op->b >> 32), fl = (uint32_t) op->b;
	int t = op->thread;

	if (s->next[t] != seq)
		return 0;
	if (!(fl & F_PREFILL) && s->next[0] < c->nprefill)
		return 0;
	if (fl & F_DRAIN)
		for (int k = 1; k < MAX_W; k++)
			if (s->next[k] != c->nops[k])
				return 0;
	s->next[t]++;
	switch (op->kind) {
	case OP_PUSH:
		if ((int) op->r != (s->n > 0) || s->n >= MODEL_IDS)
			return 0;
		if (op->a < sizeof(c->below) && c->below[op->a] != 0xff && c->below[op->a] != (s->n ? s->ids[s->n - 1] : 0))
			return 0;
		s->ids[s->n++] = (uint8_t) op->a;
		return 1;
	case OP_POP: {
		int st = (int) (int64_t) op->r2;
		if (op->r == UINT64_MAX)	/* WOULDBLOCK: no-op */
			return st == -1 || st == 0;
		if (op->r == 0)
			return s->n == 0 && (st == -1 || st == 0);
		if (s->n == 0 || s->ids[s->n - 1] != (uint8_t) op->r)
			return 0;
		s->ids[--s->n] = 0;
		if (st != -1 && st != (s->n == 0 ? (int) CDS_WFS_STATE_LAST : 0))
			return 0;
		return 1;
	}
	case OP_POPALL: {
		const uint8_t *q = &W[t].seq[op->a];
		if (op->r != s->n)
			return 0;
		for (unsigned i = 0; i < s->n; i++)
			if (q[i] != s->ids[s->n - 1 - i])
				return 0;
		memset(s->ids, 0, s->n);
		s->n = 0;
		return 1;
	}
	case OP_EMPTY:
		return (int) op->r == (s->n == 0);
	}
	return 0;
}

static size_t fmt_id(char *b, size_t len, unsigned eidx)
{
	if (eidx < sizeof(eid2id) / sizeof(eid2id[0]) && eid2id[eidx])
		return (size_t) snprintf(b, len, "%u:%u", (unsigned) (eid2id[eidx] >> 32), (unsigned) eid2id[eidx]);
	return (size_t) snprintf(b, len, "?%u", eidx);
}

static size_t fmt_op(char *b, size_t len, const struct lin_op *op)
{
	size_t o = 0;
	unsigned fl = (uint32_t) op->b;
	const char *tag = (fl & F_PREFILL) ? "prefill " : (fl & F_DRAIN) ? "drain " : (fl & F_FROZEN) ? "while-pusher-frozen " : "";

	switch (op->kind) {
	case OP_PUSH:
		o += (size_t) snprintf(b + o, len - o, "%spush(", tag);
		o += fmt_id(b + o, len - o, (unsigned) op->a);
		o += (size_t) snprintf(b + o, len - o, ") -> was_nonempty=%d", (int) op->r);
		break;
	case OP_POP:
		o += (size_t) snprintf(b + o, len - o, "%spop[%s%s] -> ", tag, pv_names[F_PV(fl)],
				       (fl & F_INTERNAL) ? ",internal-lock" : "");
		if (op->r == UINT64_MAX)
			o += (size_t) snprintf(b + o, len - o, "WOULDBLOCK");
		else if (!op->r)
			o += (size_t) snprintf(b + o, len - o, "NULL");
		else
			o += fmt_id(b + o, len - o, (unsigned) op->r);
		if ((int) (int64_t) op->r2 != -1)
			o += (size_t) snprintf(b + o, len - o, " state=%d", (int) (int64_t) op->r2);
		break;
	case OP_POPALL:
		o += (size_t) snprintf(b + o, len - o, "%spop_all[%s%s%s] -> [", tag, it_names[F_GET_IT(fl)],
				       (fl & F_INTERNAL) ? ",internal-lock" : "", (fl & F_INSECTION) ? ",in-section" : "");
		for (unsigned i = 0; i < op->r && o + 24 < len; i++) {
			if (i)
				b[o++] = ' ';
			o += fmt_id(b + o, len - o, W[op->thread].seq[op->a + i]);
		}
		o += (size_t) snprintf(b + o, len - o, "]");
		break;
	default:
		o += (size_t) snprintf(b + o, len - o, "%sempty -> %d", tag, (int) op->r);
		break;
	}
	return o;
}

static void m_print(FILE *f, const struct lin_op *op, void *c)
{
	char b[512];
	(void) c;
	fmt_op(b, sizeof(b), op);
	fputs(b, f);
}

static const struct lin_model stack_model = {
	.name = "lifo-stack+pop_all",
	.state_size = sizeof(struct mstate),
	.init = m_init,
	.apply = m_apply,
	.hash = NULL,
	.print_op = m_print,
};

/* ------------------------------------------------------------------ nodes (episodes) */

static struct snode *ep_node_alloc(struct worker *w)
{
	struct snode *n;

	if (w->nalloc >= NODES_W)
		abort();
#if VP_ASAN
	n = malloc(sizeof(*n));
	if (!n)
		abort();
#else
	n = &w->ring[ep.slot * NODES_W + w->nalloc];
#endif
	n->eidx = (uint16_t) (1 + w->idx * NODES_W + w->nalloc);
	w->nalloc++;
	n->id = ((uint64_t) w->idx << 32) | (uint32_t) ++w->push_ctr;
	n->epoch = (uint32_t) ep.epoch;
	n->state = NS_INSTACK;
	n->home = (uint16_t) w->idx;
	eid2id[n->eidx] = n->id;
	node_prepare(n);
	return n;
}

/* validate a node a pop / pop_all handed out; returns its episode index */
static unsigned take_node(struct worker *w, struct snode *n, const char *how)
{
	/* PLAIN loads: ordered after the pusher's plain stores only by the stack's barriers */
	uint64_t id = n->id;
	unsigned eidx = n->eidx, epoch = n->epoch;

	if (epoch != (uint32_t) ep.epoch || eidx == 0 || eidx >= sizeof(eid2id) / sizeof(eid2id[0]) ||
	    eid2id[eidx] != id) {
		char key[96];
		snprintf(key, sizeof(key), "stack:%s:foreign-node:%s", kind_name[cur_kind], scheme_name[cur_scheme]);
		vp_violation(key, "worker %d %s returned node %p id=%llx eidx=%u epoch=%u that was not pushed in episode %llu",
			     w->idx, how, (void *) n, (unsigned long long) id, eidx, epoch, (unsigned long long) ep.epoch);
		VP_STORE(ep_bad, 1);
		return 0xfe;
	}
	return eidx;
}

static void release_node(struct worker *w, struct snode *n)
{
#if VP_ASAN
	/* mutex / single consumer: the popper owns the node at once.  rcu: only after a grace period. */
	if (cur_scheme == S_RCU || cur_kind == K_LFSRCU) {
		if (w->ndefer < DEFER_CAP)
			w->defer[w->ndefer++] = n;
	} else
		free(n);
#else
	(void) w;
	(void) n;
#endif
}

/* ------------------------------------------------------------------ operations (episodes) */

static struct lin_op *op_begin(struct worker *w, int kind, unsigned flags)
{
	struct lin_op *o;

	if (w->nops >= LOG_CAP)
		abort();
	o = &w->ops[w->nops];
	memset(o, 0, sizeof(*o));
	o->thread = w->idx;
	o->kind = kind;
	o->b = ((uint64_t) w->nops << 32) | flags;
	return o;
}

static void w_push(struct worker *w, unsigned flags)
{
	struct snode *n = ep_node_alloc(w);
	struct lin_op *o = op_begin(w, OP_PUSH, flags);

	o->a = n->eidx;
	VP_STORE(w->in_op, 1 + OP_PUSH);
	o->r = (uint64_t) stack_push(n, &o->call, &o->ret);
	VP_STORE(w->in_op, 0);
	w->nops++;
}

static struct snode *w_pop(struct worker *w, int pv, int internal, unsigned flags)
{
	struct lin_op *o;
	struct snode *n;
	int st = -1;

	if (cur_kind != K_WFS)
		pv = PV_BLOCKING;
	if (cur_scheme != S_MUTEX || pv == PV_NONBLOCKING || pv == PV_STATE_NONBLOCKING)
		internal = 0;
	o = op_begin(w, OP_POP, flags | F_PV((unsigned) pv) | (internal ? F_INTERNAL : 0));
	VP_STORE(w->in_op, 1 + OP_POP);
	n = stack_pop(pv, internal, &st, &o->call, &o->ret);
	VP_STORE(w->in_op, 0);
	o->r2 = (uint64_t) (int64_t) st;
	if (n == SN_WOULDBLOCK)
		o->r = UINT64_MAX;
	else if (!n)
		o->r = 0;
	else {
		o->r = take_node(w, n, "pop");
		release_node(w, n);
	}
	w->nops++;
	return n;
}

/* second half of a pop_all: iterate the chain (may block on an incomplete push: NOT part of the
 * operation's interval, the content of the chain is fixed by the exchange) */
static void w_popall_iter(struct worker *w, struct lin_op *o, void *head, int it)
{
	struct snode *nodes[MAXCHAIN];
	unsigned wb = 0;
	int cnt;

	VP_STORE(w->in_op, 1 + OP_POPALL);
	cnt = chain_iter(head, it, nodes, MAXCHAIN, &wb);
	VP_STORE(w->in_op, 0);
	if (cnt < 0) {
		char key[96];
		snprintf(key, sizeof(key), "stack:%s:popall-chain-does-not-end:%s", kind_name[cur_kind], scheme_name[cur_scheme]);
		vp_violation(key, "worker %d: chain returned by pop_all has more than %d nodes (at most %d were pushed): cycle or foreign nodes",
			     w->idx, MAXCHAIN, MAX_W * NODES_W);
		VP_STORE(ep_bad, 1);
		cnt = 0;
	}
	if (w->nseq + cnt > SEQ_CAP)
		abort();
	o->a = (uint64_t) w->nseq;
	o->r = (uint64_t) cnt;
	o->r2 = wb;
	for (int i = 0; i < cnt; i++)
		w->seq[w->nseq++] = (uint8_t) take_node(w, nodes[i], "pop_all");
	for (int i = 0; i < cnt; i++)
		release_node(w, nodes[i]);
}

static void w_popall(struct worker *w, int internal, int insec, int it, unsigned flags)
{
	struct lin_op *o;
	void *head;

	if (cur_scheme != S_MUTEX)
		internal = 0;
	if (cur_scheme != S_RCU)
		insec = 0;
	if (cur_kind != K_WFS && it == IT_NONBLOCKING)
		it = IT_EACH;
	o = op_begin(w, OP_POPALL, flags | (internal ? F_INTERNAL : 0) | (insec ? F_INSECTION : 0) | F_IT((unsigned) it));
	VP_STORE(w->in_op, 1 + OP_POPALL);
	head = stack_pop_all(internal, insec, &o->call, &o->ret);
	VP_STORE(w->in_op, 0);
	w->nops++;
	w_popall_iter(w, o, head, it);
}

static void w_empty(struct worker *w, unsigned flags)
{
	struct lin_op *o = op_begin(w, OP_EMPTY, flags);

	VP_STORE(w->in_op, 1 + OP_EMPTY);
	o->r = (uint64_t) stack_empty(&o->call, &o->ret);
	VP_STORE(w->in_op, 0);
	w->nops++;
}

/* ------------------------------------------------------------------ freeze episode (wfs) */

static void frz_fail(const char *what, const char *fmt, ...) __attribute__((format(printf, 2, 3)));
static void frz_fail(const char *what, const char *fmt, ...)
{
	char key[128], msg[400];
	va_list ap;

	va_start(ap, fmt);
	vsnprintf(msg, sizeof(msg), fmt, ap);
	va_end(ap);
	snprintf(key, sizeof(key), "stack:wfs:frozen-pusher:%s:%s", what, scheme_name[cur_scheme]);
	vp_violation(key, "pusher parked between head exchange and next store (URCU_VP_WFS_PUSH_MID), prefill=%d: %s",
		     ep.prefill, msg);
	VP_STORE(ep_bad, 1);
}

static void frz_pusher(struct worker *w)
{
	struct snode *n = ep_node_alloc(w);
	struct lin_op *o = op_begin(w, OP_PUSH, 0);

	o->a = n->eidx;
	__atomic_store_n(&frz_node, n, __ATOMIC_RELEASE);
	VP_STORE(w->in_op, 1 + OP_PUSH);
	o->r = (uint64_t) stack_push(n, &o->call, &o->ret);	/* parks inside */
	VP_STORE(w->in_op, 0);
	w->nops++;
}

static void frz_prober(struct worker *w)
{
	int popped_all = 0, it = IT_EACH;
	struct lin_op *pa = NULL;
	void *head = NULL;

	if (!vp_freeze_wait_frozen(1, 2000)) {
		VP_STORE(frz_skipped, 1);
		__atomic_store_n(&frz_probe_done, 1, __ATOMIC_RELEASE);
		return;
	}
	struct snode *x = __atomic_load_n(&frz_node, __ATOMIC_ACQUIRE);
	int nprobe = 2 + (int) vp_rand_n(&w->rng, 4);
	for (int i = 0; i < nprobe; i++) {
		uint32_t r = vp_rand_n(&w->rng, 100);
		ev_frozen_probes++;
		if (r < 40) {
			int pv = vp_rand_n(&w->rng, 2) ? PV_NONBLOCKING : PV_STATE_NONBLOCKING;
			struct snode *n = w_pop(w, pv, 0, F_FROZEN);
			if (!popped_all && n != SN_WOULDBLOCK)
				frz_fail("nonblocking-pop-not-wouldblock",
					 "__cds_wfs_pop_%s returned %s, expected CDS_WFS_WOULDBLOCK (top node has a NULL next)",
					 pv_names[pv], n ? "a node" : "NULL");
			if (popped_all && n != NULL)
				frz_fail("pop-after-pop_all-not-null", "__cds_wfs_pop_%s returned %s after pop_all emptied the stack",
					 pv_names[pv], n == SN_WOULDBLOCK ? "WOULDBLOCK" : "a node");
		} else if (r < 70) {
			w_empty(w, F_FROZEN);
			int e = (int) w->ops[w->nops - 1].r;
			if (e != popped_all)
				frz_fail("empty-wrong", "cds_wfs_empty() = %d, expected %d", e, popped_all);
		} else if (!popped_all) {
			struct cds_wfs_node *first, *nx;
			it = (int) vp_rand_n(&w->rng, IT_NR);
			int insec = (int) vp_rand_n(&w->rng, 2);
			if (cur_scheme != S_RCU)
				insec = 0;
			pa = op_begin(w, OP_POPALL, F_FROZEN | (insec ? F_INSECTION : 0) | F_IT((unsigned) it));
			head = stack_pop_all(0, insec, &pa->call, &pa->ret);
			w->nops++;
			popped_all = 1;
			first = head ? cds_wfs_first(head) : NULL;
			if ((struct snode *) first != x)
				frz_fail("pop_all-head-wrong", "pop_all / cds_wfs_first returned %p, expected the parked pusher's node %p",
					 (void *) first, (void *) x);
			else
				for (int k = 0; k < 2; k++) {
					nx = cds_wfs_next_nonblocking(first);
					if (nx != CDS_WFS_WOULDBLOCK) {
						frz_fail("next_nonblocking-not-wouldblock",
							 "cds_wfs_next_nonblocking(top) returned %p, expected CDS_WFS_WOULDBLOCK", (void *) nx);
						break;
					}
					ev_iter_wouldblock++;
				}
		}
	}
	__atomic_store_n(&frz_probe_done, 1, __ATOMIC_RELEASE);
	while (!__atomic_load_n(&frz_released, __ATOMIC_ACQUIRE))
		caa_cpu_relax();
	if (pa)
		w_popall_iter(w, pa, head, it);
}

static void frz_controller(void)
{
	uint64_t t0 = vp_now_ns();
	int late = 0;

	while (!__atomic_load_n(&frz_probe_done, __ATOMIC_ACQUIRE)) {
		if (vp_now_ns() - t0 > 3000000000ULL) {
			late = 1;
			break;
		}
		caa_cpu_relax();
	}
	if (late)
		frz_fail("nonblocking-call-blocked",
			 "a nonblocking call (__cds_wfs_pop_*nonblocking / cds_wfs_next_nonblocking / cds_wfs_empty / __cds_wfs_pop_all) did not return within 3 s (worker 2 in_op=%d)",
			 VP_LOAD(W[2].in_op));
	vp_freeze_release();
	__atomic_store_n(&frz_released, 1, __ATOMIC_RELEASE);
}

/* ------------------------------------------------------------------ one worker's part of an episode */

static void run_ops(struct worker *w)
{
	if (ep.freeze) {
		if (w->idx == 0)
			frz_controller();
		else if (w->idx == 1)
			frz_pusher(w);
		else if (w->idx == 2)
			frz_prober(w);
		return;
	}
	int may_consume = cur_scheme != S_SINGLE || w->idx == ep.consumer;
	int nops = 1 + (int) vp_rand_n(&w->rng, MAX_OPS_W);

	vp_spin_cycles(vp_rand_n(&w->rng, 1500));
	for (int i = 0; i < nops; i++) {
		uint32_t r = vp_rand_n(&w->rng, 100);
		if (cur_kind == K_LFSRCU) {
			if (r < 50)
				w_push(w, 0);
			else
				w_pop(w, PV_BLOCKING, 0, 0);
		} else if (!may_consume) {
			if (r < 80)
				w_push(w, 0);
			else
				w_empty(w, 0);
		} else if (r < 40)
			w_push(w, 0);
		else if (r < 80)
			w_pop(w, (int) vp_rand_n(&w->rng, PV_NR), (int) vp_rand_n(&w->rng, 2), 0);
		else if (r < 90)
			w_popall(w, (int) vp_rand_n(&w->rng, 2), (int) vp_rand_n(&w->rng, 2), (int) vp_rand_n(&w->rng, IT_NR), 0);
		else
			w_empty(w, 0);
		if (vp_rand_n(&w->rng, 3) == 0)
			vp_spin_cycles(vp_rand_n(&w->rng, 400));
	}
}

/* ------------------------------------------------------------------ controller: plan / finish */

static void reclaim_deferred(void)
{
#if VP_ASAN
	int any = 0;
	for (int i = 0; i < nthreads; i++)
		any |= W[i].ndefer;
	if (!any)
		return;
	synchronize_rcu();
	for (int i = 0; i < nthreads; i++) {
		for (int k = 0; k < W[i].ndefer; k++)
			free(W[i].defer[k]);
		W[i].ndefer = 0;
	}
#endif
}

static void plan_episode(void)
{
	struct worker *w = &W[0];

	if ((opt_max_episodes && (long) ev_episodes >= opt_max_episodes) ||
	    (double) (vp_now_ns() - t_start_ns) / 1e9 >= opt_seconds || ev_violations >= 3 || vp_nviolations() >= 6) {
		ep.stop = 1;
		return;
	}
	if (combo_i < 0 || (ep.epoch % (uint64_t) opt_block) == 0) {
		reclaim_deferred();
		combo_i = (combo_i + 1) % ncombos;
		VP_STORE(cur_kind, combos[combo_i].kind);
		VP_STORE(cur_scheme, combos[combo_i].scheme);
	}
	ep.epoch++;
	ep.slot = (int) (ep.epoch % RING);
	if (cur_scheme == S_RCU || cur_kind == K_LFSRCU) {
		/* nodes of the slot are used again: "wait for a grace period before modifying / pushing again" */
#if VP_ASAN
		if ((ep.epoch & 31) == 0)
			reclaim_deferred();
#else
		if (ep.slot == 0)
			synchronize_rcu();
#endif
	}
	ep.nw = nthreads <= 2 ? nthreads : 2 + (int) vp_rand_n(&w->rng, (uint32_t) nthreads - 1);
	ep.consumer = (int) vp_rand_n(&w->rng, (uint32_t) ep.nw);
	ep.prefill = vp_rand_n(&w->rng, 100) < 40 ? 0 : 1 + (int) vp_rand_n(&w->rng, 3);
	ep.freeze = cur_kind == K_WFS && nthreads >= 3 && opt_freeze_every && (ep.epoch % (uint64_t) opt_freeze_every) == 0;
	if (ep.freeze) {
		ep.nw = 3;
		ep.consumer = 2;
		frz_node = NULL;
		frz_probe_done = frz_released = frz_skipped = 0;
		vp_freeze_arm_thread(URCU_VP_WFS_PUSH_MID, W[1].tid);
	}
	VP_STORE(ep_bad, 0);
	memset(eid2id, 0, sizeof(eid2id));
	w->nops = w->nseq = w->nalloc = 0;
	for (int i = 0; i < ep.prefill; i++)
		w_push(w, F_PREFILL);
}

static size_t fmt_hist(char *b, size_t len, const struct lin_op *h, int n)
{
	size_t o = 0;
	uint64_t t0 = UINT64_MAX;

	for (int i = 0; i < n; i++)
		if (h[i].call < t0)
			t0 = h[i].call;
	o += (size_t) snprintf(b + o, len - o, "%s/%s eps=%llu:", kind_name[cur_kind], scheme_name[cur_scheme],
			       (unsigned long long) vp_eps);
	for (int i = 0; i < n && o + 160 < len; i++) {
		o += (size_t) snprintf(b + o, len - o, " T%d[%llu,%llu] ", h[i].thread, (unsigned long long) (h[i].call - t0),
				       (unsigned long long) (h[i].ret - t0));
		o += fmt_op(b + o, len - o, &h[i]);
		if (o + 2 < len)
			b[o++] = ';';
	}
	b[o < len ? o : len - 1] = 0;
	return o;
}

static void finish_episode(void)
{
	struct worker *w = &W[0];
	struct lin_op h[LIN_MAX_OPS], hs[LIN_MAX_OPS];
	struct mctx ctx;
	struct lin_result res;
	int n = 0, ns = 0;

	/* drain: part of the history */
	if (cur_kind == K_LFSRCU) {
		for (int i = 0; i < MAX_W * NODES_W + 1; i++)
			if (!w_pop(w, PV_BLOCKING, 0, F_DRAIN))
				break;
	} else {
		w_popall(w, (int) vp_rand_n(&w->rng, 2), (int) vp_rand_n(&w->rng, 2), (int) vp_rand_n(&w->rng, IT_NR), F_DRAIN);
		w_empty(w, F_DRAIN);
	}
	memset(&ctx, 0, sizeof(ctx));
	ctx.nprefill = ep.prefill;
	for (int i = 0; i < ep.nw; i++) {
		ctx.nops[i] = W[i].nops;
		for (int k = 0; k < W[i].nops; k++) {
			if (n >= LIN_MAX_OPS)
				abort();
			h[n++] = W[i].ops[k];
			ev_ops[W[i].ops[k].kind]++;
			if (W[i].ops[k].kind == OP_POP && W[i].ops[k].r == UINT64_MAX)
				ev_wouldblock++;
			if (W[i].ops[k].kind == OP_POPALL)
				ev_iter_wouldblock += W[i].ops[k].r2;
		}
	}
	/* search pruning table + candidate order (the checker tries operations in array order) */
	memset(ctx.below, 0xff, sizeof(ctx.below));
	for (int i = 0; i < n; i++) {
		if (h[i].kind == OP_POPALL) {
			const uint8_t *q = &W[h[i].thread].seq[h[i].a];
			for (unsigned k = 0; k < h[i].r; k++)
				if (q[k] < sizeof(ctx.below))
					ctx.below[q[k]] = ctx.below[q[k]] != 0xff ? 0xfd : (k + 1 < h[i].r ? q[k + 1] : 0);
		} else if (h[i].kind == OP_POP && ((uint32_t) h[i].b & F_DRAIN) && h[i].r && h[i].r < sizeof(ctx.below)) {
			/* drain pops are consecutive entries of worker 0's log */
			uint64_t nx = (i + 1 < n && h[i + 1].thread == 0 && h[i + 1].kind == OP_POP && h[i + 1].r != UINT64_MAX) ? h[i + 1].r : 0;
			ctx.below[h[i].r] = ctx.below[h[i].r] != 0xff ? 0xfd : (uint8_t) nx;
		}
	}
	for (int i = 1; i < n; i++) {
		struct lin_op x = h[i];
		int k = i;
		while (k > 0 && h[k - 1].call / 2 + h[k - 1].ret / 2 > x.call / 2 + x.ret / 2) {
			h[k] = h[k - 1];
			k--;
		}
		h[k] = x;
	}
	ev_episodes++;
	ev_combo[cur_kind][cur_scheme]++;
	if (ep.freeze) {
		if (frz_skipped)
			ev_freeze_skipped++;
		else
			ev_freeze_eps++;
	}
	if (VP_LOAD(ep_bad)) {
		ev_violations++;
		return;		/* already reported by a direct oracle; node identities are not trustworthy */
	}
	uint64_t eps = vp_eps ? vp_eps : (1ULL << 40);
	lin_check(&stack_model, &ctx, h, n, eps, 2000000, &res);
	ev_search_nodes += res.nodes;
	if ((uint64_t) res.max_concurrency > ev_max_conc)
		ev_max_conc = (uint64_t) res.max_concurrency;
	if (res.verdict == LIN_INCONCLUSIVE) {
		ev_inconclusive++;
		vp_inconclusive("linearizability search budget (2e6 nodes) exceeded for some histories");
		return;
	}
	if (res.verdict == LIN_VIOLATION) {
		char key[96], path[400] = "", msg[700];
		FILE *f = vp_witness_open("stack-lin", path, sizeof(path));
		if (f) {
			fprintf(f, "kind=%s scheme=%s episode=%llu workers=%d prefill=%d freeze=%d eps=%llu search-nodes=%llu\n"
				"program order, prefill-first and drain-last are enforced by the model (barriers)\n",
				kind_name[cur_kind], scheme_name[cur_scheme], (unsigned long long) ep.epoch, ep.nw, ep.prefill,
				ep.freeze, (unsigned long long) vp_eps, (unsigned long long) res.nodes);
			lin_dump(f, &stack_model, &ctx, h, n);
			fclose(f);
		}
		fmt_hist(msg, sizeof(msg), h, n);
		snprintf(key, sizeof(key), "stack:%s:not-linearizable:%s", kind_name[cur_kind], scheme_name[cur_scheme]);
		vp_violation(key, "episode %llu (%d workers, %d ops%s) has no LIFO linearisation; witness=%s; %s",
			     (unsigned long long) ep.epoch, ep.nw, n, ep.freeze ? ", pusher parked at WFS_PUSH_MID" : "", path, msg);
		ev_violations++;
		return;
	}
	/* evidence: did a pop / pop_all overlap a push? */
	int overl = 0;
	for (int i = 0; i < n; i++) {
		if (h[i].kind == OP_EMPTY)
			continue;
		hs[ns++] = h[i];
		if (h[i].kind != OP_POP && h[i].kind != OP_POPALL)
			continue;
		for (int k = 0; k < n; k++)
			if (h[k].kind == OP_PUSH && h[k].thread != h[i].thread && h[i].call < h[k].ret && h[k].call < h[i].ret)
				overl++;
	}
	if (overl) {
		char sig[200];
		ev_nontrivial++;
		lin_overlap_sig(hs, ns, eps, op_names, sig, sizeof(sig));
		vp_sig_add("%s:%s:w%d%s:%s", kind_name[cur_kind], scheme_name[cur_scheme], ep.nw, ep.freeze ? ":frozen-pusher" : "", sig);
		if (samples_combo[cur_kind][cur_scheme] < 1 && (overl >= 2 || ep.freeze) && n <= 14) {
			char msg[1900];
			samples_combo[cur_kind][cur_scheme]++;
			fmt_hist(msg, sizeof(msg), h, n);
			vp_sample_add("linearizable (search nodes=%llu, max concurrency=%d): %s", (unsigned long long) res.nodes,
				      res.max_concurrency, msg);
		}
	}
}

static void *ep_worker(void *arg)
{
	struct worker *w = arg;
	struct vp_thr *vt;

	vp_pin(w->idx);
	vt = vp_self();
	rcu_register_thread();
	for (;;) {
		if (w->idx == 0)
			plan_episode();
		vp_rcu_offline();
		bar_wait();		/* A: plan published, prefill done */
		vp_rcu_online();
		if (VP_LOAD(ep.stop))
			break;
		if (w->idx != 0)
			w->nops = w->nseq = w->nalloc = 0;
		if (w->idx < ep.nw)
			run_ops(w);
		vp_rcu_offline();
		bar_wait();		/* B: every operation returned */
		vp_rcu_online();
		if (w->idx == 0)
			finish_episode();
		VP_STORE(vt->progress, vt->progress + 1);
	}
	if (w->idx == 0)
		reclaim_deferred();
	rcu_unregister_thread();
	return NULL;
}

/* stuck-state detector: a pop / pop_all / iteration that does not return although no push is in
 * flight can never return (nothing will ever store the next pointer it waits for) */
static int mode_episodes;
static int confirm_stuck(char *buf, size_t len)
{
	int pushing = 0, consuming = 0, k = VP_LOAD(cur_kind), sc = VP_LOAD(cur_scheme);

	for (int i = 0; i < nthreads; i++) {
		int o = VP_LOAD(W[i].in_op);
		if (o == 1 + OP_PUSH)
			pushing++;
		else if (o == 1 + OP_POP || o == 1 + OP_POPALL)
			consuming++;
	}
	if (consuming && !pushing) {
		snprintf(buf, len, "hang:stack:%s:%s:pop-or-iteration-blocked-with-no-push-in-flight", kind_name[k],
			 scheme_name[sc]);
		return 1;
	}
	snprintf(buf, len, "hang:stack:%s:%s:pushing=%d:consuming=%d", kind_name[k], scheme_name[sc], pushing,
		 consuming);
	return 0;
}

static void set_episode_delays(double p)
{
	if (p <= 0)
		return;
	vp_point_set(URCU_VP_WFS_POP_BEFORE_CMPXCHG, p, VP_D_SPIN);
	vp_point_set(URCU_VP_LFS_POP_BEFORE_CMPXCHG, p, VP_D_SPIN);
	vp_point_set(URCU_VP_LFS_PUSH_BEFORE_CMPXCHG, p, VP_D_SPIN);
	/* a blocking popper that meets a delayed pusher sleeps 10 ms (CDS_WFS_WAIT): keep it rare */
	vp_point_set(URCU_VP_WFS_PUSH_MID, p / 20, VP_D_SPIN);
}

static int run_episodes(void)
{
	opt_block = vp_arg_long("block", 256);
	opt_freeze_every = vp_arg_long("freeze-every", 97);
	opt_max_episodes = vp_arg_long("episodes", 0);
	set_episode_delays(vp_arg_double("hook-prob", 0.03));
	if (opt_block < 1)
		opt_block = 1;
	mode_episodes = 1;
	bar_init(nthreads);
	for (int i = 0; i < nthreads; i++) {
		W[i].idx = i;
		vp_rng_init(&W[i].rng, vp_opt.seed, 0xc11, (uint64_t) i);
		W[i].ring = calloc((size_t) RING * NODES_W, sizeof(struct snode));
		W[i].defer = calloc(DEFER_CAP, sizeof(struct snode *));
		if (!W[i].ring || !W[i].defer)
			return 2;
	}
	for (int i = 0; i < nthreads; i++)
		pthread_create(&W[i].tid, NULL, ep_worker, &W[i]);
	for (int i = 0; i < nthreads; i++)
		pthread_join(W[i].tid, NULL);

	vp_counter_add("evaluations", ev_episodes);
	vp_counter_add("nontrivial", ev_nontrivial);
	vp_counter_add("lin_inconclusive", ev_inconclusive);
	vp_counter_add("lin_search_nodes", ev_search_nodes);
	vp_counter_set("lin_max_concurrency", ev_max_conc);
	vp_counter_add("freeze_episodes", ev_freeze_eps);
	vp_counter_add("freeze_episodes_skipped", ev_freeze_skipped);
	vp_counter_add("frozen_pusher_probes", ev_frozen_probes);
	vp_counter_add("pop_wouldblock_results", ev_wouldblock);
	vp_counter_add("iteration_wouldblock_results", ev_iter_wouldblock);
	for (int o = 0; o < OP_NR; o++) {
		char name[64];
		snprintf(name, sizeof(name), "ep_ops_%s", op_names[o]);
		vp_counter_add(name, ev_ops[o]);
	}
	for (int k = 0; k < K_NR; k++)
		for (int s = 0; s < S_NR; s++)
			if (ev_combo[k][s]) {
				char name[64];
				snprintf(name, sizeof(name), "episodes_%s_%s", kind_name[k], scheme_name[s]);
				vp_counter_add(name, ev_combo[k][s]);
			}
	if (!vp_eps)
		vp_inconclusive("tsc-calibration-failed: histories checked with every cross-thread pair treated as concurrent");
	return 0;
}

#include "stack_run.h"

/* ------------------------------------------------------------------ main */

static unsigned parse_mask(const char *v, const char *const *names, int n)
{
	unsigned m = 0;
	if (!strcmp(v, "all"))
		return (1u << n) - 1;
	for (int i = 0; i < n; i++) {
		const char *p = v;
		size_t l = strlen(names[i]);
		while ((p = strstr(p, names[i]))) {
			if ((p == v || p[-1] == ',') && (p[l] == 0 || p[l] == ','))
				m |= 1u << i;
			p += l;
		}
	}
	return m;
}

int main(int argc, char **argv)
{
	const char *mode;
	int rc;

	vp_init(argc, argv, "stack_" VP_FLAVOR_NAME);
	mode = vp_arg("mode", "episodes");
	nthreads = (int) vp_arg_long("threads", 4);
	opt_seconds = vp_arg_double("seconds", 10.0);
	kinds_mask = parse_mask(vp_arg("kinds", "all"), kind_name, K_NR);
	schemes_mask = parse_mask(vp_arg("schemes", "all"), scheme_name, S_NR);
	if (nthreads < 2 || nthreads > MAX_W || !kinds_mask || !schemes_mask)
		return 2;
	for (int k = 0; k < K_NR; k++)
		for (int s = 0; s < S_NR; s++) {
			if (!(kinds_mask & (1u << k)) || !(schemes_mask & (1u << s)))
				continue;
			if (k == K_LFSRCU && s != S_RCU)
				continue;	/* cds_lfs_pop_rcu: "should be called under rcu read lock" only */
			combos[ncombos].kind = k;
			combos[ncombos].scheme = s;
			ncombos++;
		}
	if (!ncombos)
		return 2;
	stacks_init();
	t_start_ns = vp_now_ns();
	vp_watchdog_start((uint64_t) vp_arg_long("stall-ms", VP_TSAN ? 40000 : 12000), confirm_stuck);
	if (!strcmp(mode, "episodes"))
		rc = run_episodes();
	else if (!strcmp(mode, "long"))
		rc = run_long();
	else if (!strcmp(mode, "aba"))
		rc = run_aba();
	else
		rc = 2;
	vp_watchdog_stop();
	if (rc)
		return rc;
	return vp_finish();
}
