/*
 * lfq_api.h - C12: thin layer over cds_lfq_*_rcu used by lfq.c / lfq_long.h.
 *
 * Default build: _LGPL_SOURCE (static inline implementation, hook points in this TU).
 * -DVP_NO_LGPL: the same names resolve to the exported wrappers of src/rculfqueue.c.
 *
 * Private observability (the shared runtime has no equivalent; see the final report):
 *   - the binary is linked with --wrap=malloc --wrap=free.  tl_op tells the wrappers that the
 *     calling thread is inside a cds_lfq call:
 *       malloc(sizeof dummy) inside a dequeue = make_dummy(), i.e. the window between "head->next
 *       was NULL" and the enqueue of the fresh dummy (no urcu_verif_point there): counted, chaos
 *       delay, and a private freeze point (lfq_mfrz_*);
 *       free() inside enqueue / dequeue = a dummy (or worse) released without queue_call_rcu;
 *       free() inside destroy is recorded (exactly the dummies of the chain iff it returns 0).
 *   - the queue_call_rcu function given to cds_lfq_init_rcu() is lfq_qcr(): it validates the head
 *     it is handed, marks the dummy (atomic exchange of its private `q` back pointer, which the
 *     library never reads again), forwards to the flavor's real call_rcu() and runs the library's
 *     callback from its own callback: at once in asan/tsan builds (really freed), through a
 *     poison + quarantine ring in the other builds.
 */
#ifndef LFQ_API_H
#define LFQ_API_H

#include "vp.h"
#include "vp_flavor.h"
#include <urcu/rculfqueue.h>

#define ND_MAGIC  0x6c66716eu
#define ND_TAKEN  0x74616b65u
#define ND_POISON 0xdeadbeefu
#define LFQ_DUMMY_POISON 0x5a5a5a5a

struct node {
	struct cds_lfq_node_rcu link;
	struct rcu_head rh;
	uint64_t id;		/* producer << 32 | counter; PLAIN store before the enqueue */
	uint64_t payload;
	uint64_t t_call;	/* long runs: ts_before() of the enqueue (plain, before publication) */
	uint64_t t_ret;		/* long runs: ts_after() of the enqueue, VP_STORE by the enqueuer inside its read-side section */
	uint32_t li;		/* episodes: local index 1..N */
	uint32_t magic;
};
#define node_of(p) ((struct node *) ((char *) (p) - offsetof(struct node, link)))

static inline uint64_t payload_of(uint64_t id)
{
	return id * 0x9e3779b97f4a7c15ULL ^ 0x1f12;
}

/* mirror of struct cds_lfq_node_rcu_dummy (urcu/static/rculfqueue.h) */
struct lfq_dummy {
	struct cds_lfq_node_rcu parent;
	struct rcu_head head;
	struct cds_lfq_queue_rcu *q;
};
#ifndef VP_NO_LGPL
_Static_assert(sizeof(struct lfq_dummy) == sizeof(struct cds_lfq_node_rcu_dummy), "dummy mirror");
_Static_assert(offsetof(struct lfq_dummy, head) == offsetof(struct cds_lfq_node_rcu_dummy, head), "dummy mirror");
_Static_assert(offsetof(struct lfq_dummy, q) == offsetof(struct cds_lfq_node_rcu_dummy, q), "dummy mirror");
#endif
#define LFQ_HANDED ((struct cds_lfq_queue_rcu *) 0x4a4d4d59d00d0001ULL)

enum { OP_NONE = 0, OP_ENQ, OP_DEQ, OP_DESTROY, OP_INIT };

static struct cds_lfq_queue_rcu Q __attribute__((aligned(128)));
static char Q_pad[128] __attribute__((unused));
static const char *cfgname = "lfq";

static __thread volatile int tl_op;	/* OP_* while inside a cds_lfq call; volatile: gcc knows malloc()/free() do not touch it and would drop the stores */
static __thread int tl_in_dummy_release;
static __thread uint64_t tl_dummy_allocs;

/* ---------------------------------------------------------------- private point: make_dummy() inside dequeue */

static struct {
	int armed, frozen, release, max;
	uint32_t prob;		/* out of 1<<20 */
	int mode;
} mfrz;
static uint64_t g_dummy_allocs_in_deq, g_dummy_allocs_total, g_free_in_destroy, g_free_in_op_bad;
#define LFQ_DESTROY_FREES 16
static void *volatile g_destroy_freed[LFQ_DESTROY_FREES];	/* pointers free()d by the destroy call in progress; volatile: gcc "knows" free() cannot touch them */
static volatile int g_destroy_nfreed;

static void lfq_mfrz_arm(int max)
{
	mfrz.release = 0;
	mfrz.frozen = 0;
	mfrz.max = max;
	__atomic_store_n(&mfrz.armed, 1, __ATOMIC_SEQ_CST);
}
static int lfq_mfrz_wait(int n, uint64_t timeout_ms)
{
	uint64_t t0 = vp_now_ns();
	while (__atomic_load_n(&mfrz.frozen, __ATOMIC_ACQUIRE) < n) {
		if (vp_now_ns() - t0 > timeout_ms * 1000000ULL)
			return 0;
		__asm__ __volatile__("pause");
	}
	return 1;
}
static void lfq_mfrz_release(void)
{
	__atomic_store_n(&mfrz.armed, 0, __ATOMIC_SEQ_CST);
	__atomic_store_n(&mfrz.release, 1, __ATOMIC_SEQ_CST);
	while (__atomic_load_n(&mfrz.frozen, __ATOMIC_ACQUIRE) > 0)
		sched_yield();
}

static void lfq_dummy_alloc_point(void)
{
	struct vp_thr *t = vp_self();

	__atomic_fetch_add(&g_dummy_allocs_in_deq, 1, __ATOMIC_RELAXED);
	if (__atomic_load_n(&mfrz.armed, __ATOMIC_RELAXED)) {
		int n = __atomic_add_fetch(&mfrz.frozen, 1, __ATOMIC_SEQ_CST);
		if (n > mfrz.max) {
			__atomic_sub_fetch(&mfrz.frozen, 1, __ATOMIC_SEQ_CST);
		} else {
			uint64_t spins = 0;
			while (!__atomic_load_n(&mfrz.release, __ATOMIC_ACQUIRE)) {
				if (++spins > 2000)
					usleep(50);
				else
					__asm__ __volatile__("pause");
			}
			__atomic_sub_fetch(&mfrz.frozen, 1, __ATOMIC_SEQ_CST);
			return;
		}
	}
	uint32_t p = VP_LOAD(mfrz.prob);
	if (p && (uint32_t) (vp_rand(&t->rng) >> 44) < p)
		vp_delay(&t->rng, VP_LOAD(mfrz.mode));
}

void *__real_malloc(size_t n);
void __real_free(void *p);

void *__wrap_malloc(size_t n)
{
	if (__builtin_expect(tl_op != OP_NONE, 0) && n == sizeof(struct lfq_dummy)) {
		int op = tl_op;
		tl_op = OP_NONE;
		__atomic_fetch_add(&g_dummy_allocs_total, 1, __ATOMIC_RELAXED);
		if (op == OP_DEQ)
			lfq_dummy_alloc_point();
		tl_op = op;
	}
	return __real_malloc(n);
}

void __wrap_free(void *p)
{
	if (__builtin_expect(tl_op != OP_NONE, 0) && p) {
		int op = tl_op;
		tl_op = OP_NONE;
		if (op == OP_DESTROY) {
			__atomic_fetch_add(&g_free_in_destroy, 1, __ATOMIC_RELAXED);
			if (g_destroy_nfreed < LFQ_DESTROY_FREES)
				g_destroy_freed[g_destroy_nfreed] = p;
			g_destroy_nfreed++;
		} else if (op == OP_ENQ || op == OP_DEQ) {
			__atomic_fetch_add(&g_free_in_op_bad, 1, __ATOMIC_RELAXED);
			vp_violation("lfq:free-inside-operation",
				     "cfg=%s free(%p) was called from inside cds_lfq_%s_rcu(): a dummy node (or a user node) was released without going through the queue's queue_call_rcu / a grace period",
				     cfgname, p, op == OP_ENQ ? "enqueue" : "dequeue");
		}
		tl_op = op;
	}
	__real_free(p);
}

/* ---------------------------------------------------------------- queue_call_rcu interposer */

static uint64_t g_qcr_calls, g_qcr_cbs, g_qcr_released, g_destroy_ok, g_inits;
static void (*g_lib_dummy_cb)(struct rcu_head *);
static struct vp_quar g_dummy_quar;
static int g_dummy_quar_ready;

static void lfq_dummy_really_free(struct lfq_dummy *d)
{
	void (*f)(struct rcu_head *) = __atomic_load_n(&g_lib_dummy_cb, __ATOMIC_ACQUIRE);

	__atomic_fetch_add(&g_qcr_released, 1, __ATOMIC_RELAXED);
	tl_in_dummy_release = 1;
	f(&d->head);			/* the library's free_dummy_cb */
	tl_in_dummy_release = 0;
}

static void lfq_dummy_quar_release(void *obj)
{
	struct lfq_dummy *d = obj;

	if (d->parent.next != (struct cds_lfq_node_rcu *) VP_POISON_PTR || d->parent.dummy != LFQ_DUMMY_POISON ||
	    d->q != LFQ_HANDED)
		vp_violation("lfq:late-write-to-retired-dummy",
			     "cfg=%s dummy node %p was written after its grace period had elapsed (next=%p dummy=%x q=%p): a node was linked behind / a tail pointed to a reclaimed dummy",
			     cfgname, obj, (void *) d->parent.next, (unsigned) d->parent.dummy, (void *) d->q);
	d->parent.dummy = 1;
	lfq_dummy_really_free(d);
}

static void lfq_dummy_cb(struct rcu_head *head)
{
	struct lfq_dummy *d = caa_container_of(head, struct lfq_dummy, head);

	__atomic_fetch_add(&g_qcr_cbs, 1, __ATOMIC_RELAXED);
	if (d->q != LFQ_HANDED || d->parent.dummy != 1)
		vp_violation("lfq:dummy-modified-after-handover",
			     "cfg=%s dummy %p changed between queue_call_rcu() and its callback: dummy=%d q=%p",
			     cfgname, (void *) d, d->parent.dummy, (void *) d->q);
#if VP_ASAN || VP_TSAN
	lfq_dummy_really_free(d);
#else
	d->parent.next = (struct cds_lfq_node_rcu *) VP_POISON_PTR;
	d->parent.dummy = LFQ_DUMMY_POISON;
	vp_quar_put(&g_dummy_quar, d);
#endif
}

static void lfq_qcr(struct rcu_head *head, void (*func)(struct rcu_head *head))
{
	struct lfq_dummy *d = caa_container_of(head, struct lfq_dummy, head);
	int op = tl_op;
	struct cds_lfq_queue_rcu *oldq;
	void (*prev)(struct rcu_head *);

	tl_op = OP_NONE;
	__atomic_fetch_add(&g_qcr_calls, 1, __ATOMIC_RELAXED);
	if (VP_LOAD(d->parent.dummy) != 1) {
		vp_violation("lfq:queue_call_rcu-on-non-dummy",
			     "cfg=%s queue_call_rcu() was handed a head whose enclosing node has dummy=%d", cfgname,
			     VP_LOAD(d->parent.dummy));
		tl_op = op;
		return;			/* not ours to free */
	}
	oldq = __atomic_exchange_n(&d->q, LFQ_HANDED, __ATOMIC_RELAXED);
	if (oldq == LFQ_HANDED) {
		vp_violation("lfq:dummy-handed-twice", "cfg=%s dummy %p was passed to queue_call_rcu() twice", cfgname, (void *) d);
		tl_op = op;
		return;
	}
	if (oldq != &Q)
		vp_violation("lfq:dummy-wrong-queue", "cfg=%s dummy %p handed to queue_call_rcu() has q=%p, expected %p",
			     cfgname, (void *) d, (void *) oldq, (void *) &Q);
	if (VP_LOAD(Q.head) == &d->parent)
		vp_violation("lfq:dummy-handed-while-head",
			     "cfg=%s dummy %p was passed to queue_call_rcu() while q->head still points to it (its grace period starts before it is unreachable)",
			     cfgname, (void *) d);
	if (VP_LOAD(d->parent.next) == NULL)
		vp_violation("lfq:dummy-handed-while-last",
			     "cfg=%s dummy %p was passed to queue_call_rcu() with next == NULL: it is still the last node of the queue",
			     cfgname, (void *) d);
	if (op != OP_DEQ)
		vp_violation("lfq:queue_call_rcu-outside-dequeue", "cfg=%s queue_call_rcu() called while the thread is in op %d", cfgname, op);
	prev = __atomic_load_n(&g_lib_dummy_cb, __ATOMIC_ACQUIRE);
	if (!prev)
		__atomic_store_n(&g_lib_dummy_cb, func, __ATOMIC_RELEASE);
	else if (prev != func)
		vp_violation("lfq:queue_call_rcu-func-changes", "cfg=%s queue_call_rcu() called with two different callbacks", cfgname);
	call_rcu(head, lfq_dummy_cb);
	tl_op = op;
}

/* ---------------------------------------------------------------- the calls */

static inline void q_init(void)
{
	tl_op = OP_INIT;
	cds_lfq_init_rcu(&Q, lfq_qcr);
	tl_op = OP_NONE;
	g_inits++;
	if (!g_dummy_quar_ready) {
		g_dummy_quar_ready = 1;
		vp_quar_init(&g_dummy_quar, 4096, lfq_dummy_quar_release);
	}
}

/* inside a read-side section */
static inline void q_enqueue(struct node *n)
{
	tl_op = OP_ENQ;
	cds_lfq_enqueue_rcu(&Q, &n->link);
	tl_op = OP_NONE;
}

static inline struct cds_lfq_node_rcu *q_dequeue(void)
{
	struct cds_lfq_node_rcu *cn;

	tl_op = OP_DEQ;
	cn = cds_lfq_dequeue_rcu(&Q);
	tl_op = OP_NONE;
	return cn;
}

/* structure walk; only at quiescence (no operation in flight, no grace period needed: single thread) */
struct q_shape { int nodes, dummies, tail_is_last, head_is_dummy; };
static void q_walk(struct q_shape *s)
{
	struct cds_lfq_node_rcu *n = Q.head, *last = NULL;

	memset(s, 0, sizeof(*s));
	s->head_is_dummy = n && n->dummy;
	for (int i = 0; n && i < 1000000; i++) {
		s->nodes++;
		if (n->dummy)
			s->dummies++;
		last = n;
		n = n->next;
	}
	s->tail_is_last = Q.tail == last;
}

/* at quiescence.  Returns the library's return value; checks the free() calls it performed: success
 * releases exactly the nodes of the chain, which must all be dummies (an empty queue holds one dummy, or
 * several when concurrent dequeuers each enqueued one); -EPERM releases nothing */
static uint64_t g_destroy_dummies_freed, g_destroy_ok_multi;
static int g_last_destroy_chain;
static int q_destroy(const char *when)
{
	struct cds_lfq_node_rcu *chain[LFQ_DESTROY_FREES], *n;
	int nchain = 0, real = 0, ret, nf, bad = 0;

	for (n = Q.head; n; n = n->next) {
		if (!n->dummy)
			real++;
		if (nchain < LFQ_DESTROY_FREES)
			chain[nchain] = n;
		nchain++;
		if (nchain > 1000000)
			break;
	}
	g_destroy_nfreed = 0;
	g_last_destroy_chain = nchain;
	tl_op = OP_DESTROY;
	ret = cds_lfq_destroy_rcu(&Q);
	tl_op = OP_NONE;
	nf = g_destroy_nfreed;
	if (ret == 0) {
		g_destroy_ok++;
		g_destroy_dummies_freed += (uint64_t) nf;
		if (nchain > 1 && !real)
			g_destroy_ok_multi++;
		if (!real && nchain <= LFQ_DESTROY_FREES) {
			for (int i = 0; i < nchain && !bad; i++) {
				int found = 0;
				for (int k = 0; k < nf && k < LFQ_DESTROY_FREES; k++)
					found += g_destroy_freed[k] == (void *) chain[i];
				bad = found != 1;
			}
			if (nf != nchain || bad)
				vp_violation("lfq:destroy-does-not-free-the-dummies",
					     "cfg=%s %s: cds_lfq_destroy_rcu() returned 0 on a chain of %d dummy node(s) and called free() %d times%s; expected: each of them exactly once, nothing else",
					     cfgname, when, nchain, nf, bad ? " (not on the nodes of the chain)" : "");
		}
		/* real != 0: destroy accepted a non-empty queue; reported by the caller, which knows the counts */
	} else if (ret == -EPERM) {
		if (nf)
			vp_violation("lfq:destroy-eperm-but-freed",
				     "cfg=%s %s: cds_lfq_destroy_rcu() returned -EPERM yet called free() %d times", cfgname, when, nf);
	} else
		vp_violation("lfq:destroy-return-value", "cfg=%s %s: cds_lfq_destroy_rcu() returned %d (documented: 0 or -EPERM)",
			     cfgname, when, ret);
	return ret;
}

/* ---------------------------------------------------------------- user node life cycle */

static inline struct node *node_new(uint64_t id, uint32_t li)
{
	struct node *n = malloc(sizeof(*n));
	if (!n)
		abort();
	/* garbage in the link: cds_lfq_node_init_rcu is the caller's job */
	n->link.next = (struct cds_lfq_node_rcu *) 0x5a5a5a5a5a5a5a5aULL;
	n->link.dummy = 0x5a5a;
	n->id = id;
	n->payload = 0;
	n->li = li;
	n->magic = ND_MAGIC;
	n->t_call = 0;
	n->t_ret = 0;
	return n;
}

static uint64_t g_node_late_writes;
static void node_quar_release(void *obj)
{
	struct node *o = obj;

	if (o->magic != ND_POISON || o->link.next != (struct cds_lfq_node_rcu *) VP_POISON_PTR || o->link.dummy != LFQ_DUMMY_POISON) {
		__atomic_fetch_add(&g_node_late_writes, 1, __ATOMIC_RELAXED);
		vp_violation("lfq:late-write-to-reclaimed-node",
			     "cfg=%s node id=%llx was written after it had been dequeued and a grace period had elapsed (next=%p dummy=%x magic=%x)",
			     cfgname, (unsigned long long) o->id, (void *) o->link.next, (unsigned) o->link.dummy, o->magic);
	}
	free(o);
}

/* a grace period has elapsed since n was dequeued: asan/tsan really free, otherwise poison + quarantine */
static inline void node_reclaim(struct vp_quar *quar, struct node *n)
{
#if VP_ASAN || VP_TSAN
	(void) quar;
	n->magic = ND_POISON;
	free(n);
#else
	n->magic = ND_POISON;
	n->link.next = (struct cds_lfq_node_rcu *) VP_POISON_PTR;
	n->link.dummy = LFQ_DUMMY_POISON;
	vp_quar_put(quar, n);
#endif
}

static struct vp_quar g_cb_quar;	/* nodes reclaimed from call_rcu callbacks (any thread) */
static uint64_t g_node_cbs;
static void node_rcu_cb(struct rcu_head *rh)
{
	struct node *n = caa_container_of(rh, struct node, rh);

	__atomic_fetch_add(&g_node_cbs, 1, __ATOMIC_RELAXED);
	node_reclaim(&g_cb_quar, n);
}

static void lfq_report_common(void)
{
	vp_counter_add("dummy_allocs_total", VP_LOAD(g_dummy_allocs_total));
	vp_counter_add("marker_deq_dummy_alloc_window", VP_LOAD(g_dummy_allocs_in_deq));
	vp_counter_add("queue_call_rcu_calls", VP_LOAD(g_qcr_calls));
	vp_counter_add("queue_call_rcu_callbacks", VP_LOAD(g_qcr_cbs));
	vp_counter_add("dummies_released_by_library_cb", VP_LOAD(g_qcr_released));
	vp_counter_add("destroy_ok", g_destroy_ok);
	vp_counter_add("dummies_freed_by_destroy", g_destroy_dummies_freed);
	vp_counter_add("destroy_ok_on_chain_of_several_dummies", g_destroy_ok_multi);
	vp_counter_add("queue_inits", g_inits);
	vp_counter_add("user_nodes_reclaimed_by_call_rcu", VP_LOAD(g_node_cbs));
}

/* final accounting of dummy nodes: call with no operation in flight, after rcu_barrier() */
static void lfq_dummy_accounting(int queue_alive)
{
	struct q_shape s = { 0 };
	uint64_t allocs = VP_LOAD(g_dummy_allocs_total);	/* init's make_dummy runs with tl_op == OP_INIT: included */
	uint64_t in_queue = 0;

	if (queue_alive) {
		q_walk(&s);
		in_queue = (uint64_t) s.dummies;
	}
	if (VP_LOAD(g_qcr_calls) != VP_LOAD(g_qcr_cbs))
		vp_violation("lfq:dummy-callback-count",
			     "cfg=%s %llu dummies handed to queue_call_rcu, %llu callbacks ran after rcu_barrier()", cfgname,
			     (unsigned long long) VP_LOAD(g_qcr_calls), (unsigned long long) VP_LOAD(g_qcr_cbs));
	if (allocs != VP_LOAD(g_qcr_calls) + g_destroy_dummies_freed + in_queue)
		vp_violation("lfq:dummy-conservation",
			     "cfg=%s %llu dummy nodes allocated = %llu handed to queue_call_rcu + %llu freed by a successful destroy + %llu still in the queue does not hold (a dummy leaked or was released some other way)",
			     cfgname, (unsigned long long) allocs, (unsigned long long) VP_LOAD(g_qcr_calls),
			     (unsigned long long) g_destroy_dummies_freed, (unsigned long long) in_queue);
}

#endif
