/*
 * progress_rs.h - C17 group rs: read-side primitives of a REGISTERED thread (memb, mb, qsbr) while
 * updaters are parked inside synchronize_rcu() / the call_rcu helper is parked before its sleep.
 *
 * Parked: U1 = synchronize_rcu() at GP_SCAN_AFTER_DEC (holds rcu_gp_lock + rcu_registry_lock),
 * GP_POST_FLIP (both locks), GP_REGISTRY_UNLOCKED (rcu_gp_lock only, waiting for the subject),
 * GP_PRE_SLEEP (futex already -1, about to FUTEX_WAIT); optional U2 = second caller, becomes the next
 * leader and is parked at GP_LEADER_PRE_LOCK; optional U3 = third caller parked at GP_MERGED (queued
 * behind U2).  Or: the default call_rcu helper thread parked at CRCU_HELPER_PRE_SLEEP.
 * Subject: rcu_read_lock / rcu_read_unlock (outermost and nested, static inline AND through the
 * exported functions reachable from rcu_flavor, which is what the hash table calls), for qsbr also
 * rcu_quiescent_state / rcu_thread_offline / rcu_thread_online.  Every call is stepped and is one
 * evaluated operation; rcu_read_ongoing() is the result oracle.  After the release every parked
 * synchronize_rcu() must return (the harness waits for it: the subject is outside any section then).
 */

static int rs_crcu_used;
static struct rcu_head rs_heads[8];
static int rs_cb_runs;

static void rs_cb(struct rcu_head *h)
{
	(void) h;
	__atomic_fetch_add(&rs_cb_runs, 1, __ATOMIC_RELAXED);
}

static void pk_sync(struct parker *p, void *a)
{
	(void) p; (void) a;
	synchronize_rcu();
}

static void rs_teardown(void)
{
	if (rs_crcu_used) {
		subj_offline();
		rcu_barrier();
		subj_online();
	}
}

enum { RO_LOCK, RO_UNLOCK, RO_LOCK_NESTED, RO_UNLOCK_NESTED, RO_LOCK_FN, RO_UNLOCK_FN, RO_QS, RO_OFFLINE, RO_ONLINE,
       RO_QS_FN, RO_OFFLINE_FN, RO_ONLINE_FN, RO_NR };
static const char *const ro_name[RO_NR] = { "rs_read_lock", "rs_read_unlock", "rs_read_lock_nested", "rs_read_unlock_nested",
	"rs_read_lock_exported", "rs_read_unlock_exported", "rs_quiescent_state", "rs_thread_offline", "rs_thread_online",
	"rs_quiescent_state_exported", "rs_thread_offline_exported", "rs_thread_online_exported" };

static void rs_op(int o)
{
	struct opstat *os = op_get(ro_name[o], OC_WF);
	char res[96];
	const char *wrong = NULL;
	int ongoing;

	step_begin(os);
	switch (o) {
	case RO_LOCK: case RO_LOCK_NESTED:
		STEP_ON(); rcu_read_lock(); STEP_OFF();
		break;
	case RO_UNLOCK: case RO_UNLOCK_NESTED:
		STEP_ON(); rcu_read_unlock(); STEP_OFF();
		break;
	case RO_LOCK_FN:
		STEP_ON(); rcu_flavor.read_lock(); STEP_OFF();
		break;
	case RO_UNLOCK_FN:
		STEP_ON(); rcu_flavor.read_unlock(); STEP_OFF();
		break;
#if VP_IS_QSBR
	case RO_QS:
		STEP_ON(); rcu_quiescent_state(); STEP_OFF();
		break;
	case RO_OFFLINE:
		STEP_ON(); rcu_thread_offline(); STEP_OFF();
		break;
	case RO_ONLINE:
		STEP_ON(); rcu_thread_online(); STEP_OFF();
		break;
	case RO_QS_FN:
		STEP_ON(); rcu_flavor.read_quiescent_state(); STEP_OFF();
		break;
	case RO_OFFLINE_FN:
		STEP_ON(); rcu_flavor.thread_offline(); STEP_OFF();
		break;
	case RO_ONLINE_FN:
		STEP_ON(); rcu_flavor.thread_online(); STEP_OFF();
		break;
#endif
	default:
		break;
	}
	step_end();
	ongoing = rcu_read_ongoing();
	snprintf(res, sizeof(res), "returned, read_ongoing=%d, futex-wake %s", !!ongoing,
		 st.mark[URCU_VP_WAKE_GP_PRE_SYSCALL] ? "issued" : "not needed");
#if VP_IS_QSBR
	if ((o == RO_OFFLINE || o == RO_OFFLINE_FN) && ongoing)
		wrong = "thread still online after rcu_thread_offline()";
	if ((o == RO_ONLINE || o == RO_QS || o == RO_ONLINE_FN || o == RO_QS_FN) && !ongoing)
		wrong = "thread not online";
#else
	if ((o == RO_LOCK || o == RO_LOCK_NESTED || o == RO_LOCK_FN || o == RO_UNLOCK_NESTED) && !ongoing)
		wrong = "rcu_read_ongoing() false inside the section";
	if ((o == RO_UNLOCK || o == RO_UNLOCK_FN) && ongoing)
		wrong = "rcu_read_ongoing() true after the outermost unlock";
#endif
	triple_op(os, res, wrong, 6);
}

/* the subject's sequence.  `inside`: the subject entered a section before the updaters started. */
static void rs_subject_seq(int inside)
{
#if VP_IS_QSBR
	(void) inside;
	rs_op(RO_LOCK);
	rs_op(RO_UNLOCK);
	rs_op(RO_LOCK_FN);
	rs_op(RO_UNLOCK_FN);
	rs_op(RO_QS);		/* announces the quiescent state the parked updater waits for */
	rs_op(RO_OFFLINE);
	rs_op(RO_ONLINE);
	rs_op(RO_QS);
	rs_op(RO_OFFLINE_FN);
	rs_op(RO_ONLINE_FN);
	rs_op(RO_QS_FN);
#else
	if (inside) {
		rs_op(RO_LOCK_NESTED);
		rs_op(RO_UNLOCK_NESTED);
		rs_op(RO_UNLOCK);	/* outermost: ends the section the updater is waiting for */
	}
	rs_op(RO_LOCK);
	rs_op(RO_LOCK_NESTED);
	rs_op(RO_UNLOCK_NESTED);
	rs_op(RO_UNLOCK);
	rs_op(RO_LOCK_FN);
	rs_op(RO_UNLOCK_FN);
#endif
}

struct rs_cfg { const char *P; int point, skip, needs_inside; };

static void run_rs(long rep)
{
#if VP_IS_BP
	(void) rep;
	return;
#else
	static const struct rs_cfg cfgs[] = {
		{ "gp_scan_after_dec", URCU_VP_GP_SCAN_AFTER_DEC, 0, 0 },
		{ "gp_post_flip", URCU_VP_GP_POST_FLIP, 0, 0 },
#if !VP_IS_QSBR
		{ "gp_scan_after_dec(2nd pass)", URCU_VP_GP_SCAN_AFTER_DEC, 1, 0 },
#endif
		{ "gp_registry_unlocked", URCU_VP_GP_REGISTRY_UNLOCKED, 0, 1 },
		{ "gp_registry_unlocked(3rd loop)", URCU_VP_GP_REGISTRY_UNLOCKED, 2, 1 },
		{ "gp_pre_sleep", URCU_VP_GP_PRE_SLEEP, 0, 1 },
	};
	int ncfg = (int) (sizeof(cfgs) / sizeof(cfgs[0]));
	unsigned int saved_attempts = vp_tun_qs_attempts;

	/* quiet baseline */
	for (int pass = 0; pass < 3; pass++) {
		triple_begin("rs", "none", "outside-section", 0);
		rs_subject_seq(0);
#if !VP_IS_QSBR
		triple_begin("rs", "none", "inside-section", 0);
		rcu_read_lock();
		rs_subject_seq(1);
#endif
	}

	for (int c = 0; c < ncfg; c++)
		for (int inside = 0; inside <= 1; inside++)
			for (int k = 1; k <= NPARK; k++) {
				int got = 0;
				if (cfgs[c].needs_inside && !inside)
					continue;
#if VP_IS_QSBR
				if (!inside)
					continue;	/* an online qsbr thread is always "inside" for the updater */
#endif
				/* sleep path after few loops on odd repetitions, stock 100 attempts otherwise */
				vp_tun_qs_attempts = (rep & 1) ? 5 : saved_attempts;
				triple_begin("rs", cfgs[c].P, inside ? "inside-section" : "outside-section", k);
#if !VP_IS_QSBR
				if (inside)
					rcu_read_lock();
#endif
				park_start(0, pk_sync, NULL, cfgs[c].point, cfgs[c].skip, NULL);
				{
					/* the subject must stay online / inside its section while the updater runs up to its point */
					struct parker *p = &parkers[0];
					uint64_t t0 = vp_now_ns();
					int r = -1;
					for (;;) {
						if (__atomic_load_n(&p->parked, __ATOMIC_ACQUIRE)) { r = 1; break; }
						if (__atomic_load_n(&p->done_seq, __ATOMIC_ACQUIRE) == p->cmd_seq) { r = 0; break; }
						if (vp_now_ns() - t0 > PARK_TIMEOUT_NS)
							break;
						__asm__ __volatile__("pause");
					}
					got += r == 1;
				}
				if (k >= 2) {
					park_start(1, pk_sync, NULL, URCU_VP_GP_LEADER_PRE_LOCK, 0, NULL);
					uint64_t t0 = vp_now_ns();
					while (!__atomic_load_n(&parkers[1].parked, __ATOMIC_ACQUIRE) &&
					       __atomic_load_n(&parkers[1].done_seq, __ATOMIC_ACQUIRE) != parkers[1].cmd_seq &&
					       vp_now_ns() - t0 < PARK_TIMEOUT_NS)
						__asm__ __volatile__("pause");
					got += __atomic_load_n(&parkers[1].parked, __ATOMIC_ACQUIRE) == 1;
				}
				if (k >= 3) {
					park_start(2, pk_sync, NULL, URCU_VP_GP_MERGED, 0, NULL);
					uint64_t t0 = vp_now_ns();
					while (!__atomic_load_n(&parkers[2].parked, __ATOMIC_ACQUIRE) &&
					       __atomic_load_n(&parkers[2].done_seq, __ATOMIC_ACQUIRE) != parkers[2].cmd_seq &&
					       vp_now_ns() - t0 < PARK_TIMEOUT_NS)
						__asm__ __volatile__("pause");
					got += __atomic_load_n(&parkers[2].parked, __ATOMIC_ACQUIRE) == 1;
				}
				cur.nfrozen = got;
				rs_subject_seq(inside);
				release_all();
				for (int i = 0; i < k; i++)
					park_wait_done(i);
			}
	vp_tun_qs_attempts = saved_attempts;

	/* the call_rcu helper parked right before it goes to sleep */
	for (int inside = 0; inside <= 1; inside++) {
#if VP_IS_QSBR
		if (!inside)
			continue;
#endif
		triple_begin("rs", "crcu_helper_pre_sleep", inside ? "inside-section" : "outside-section", 1);
		__atomic_store_n(&libpark.release, 0, __ATOMIC_SEQ_CST);
		libpark.want_point = URCU_VP_CRCU_HELPER_PRE_SLEEP;
		__atomic_store_n(&libpark.armed, 1, __ATOMIC_SEQ_CST);
		rs_crcu_used = 1;
		call_rcu(&rs_heads[(rep * 2 + inside) & 7], rs_cb);
		cur.nfrozen = park_wait_parked(&libpark) == 1;	/* subject offline / outside while the helper's grace period runs */
#if !VP_IS_QSBR
		if (inside)
			rcu_read_lock();
#endif
		rs_subject_seq(inside);
		__atomic_store_n(&libpark.armed, 0, __ATOMIC_SEQ_CST);
		release_all();
		/* the callback handed over above must have run before its rcu_head is reused */
		subj_offline();
		rcu_barrier();
		subj_online();
	}
#endif
}
