/*
 * progress_ht.h - C17 group lfht (included by progress.c).
 *
 * One triple = fresh cds_lfht (4 or 8 buckets, max 64; allocator order / chunk / mmap and the ACCOUNTING
 * flag rotate with the repetition; never AUTO_RESIZE: the lazy-resize launch calls malloc() and the
 * workqueue, which the statement does not list) + a "primary" operation parked at P + 0-2 "modifier"
 * threads parked elsewhere (a deleter at HT_DEL_FLAGGED = logically removed node still linked; a resizer
 * at HT_GROW_BEFORE_PUBLISH / HT_SHRINK_BEFORE_GP = resize half done) + ONE subject operation, run inside
 * a read-side section, stepped.
 *
 * Model: per node `live` = visible to lookups.  Parked operations: add / add_unique / add_replace /
 * replace parked before their cmpxchg have NOT taken effect; a del parked at HT_DEL_FLAGGED,
 * HT_GC_BEFORE_UNLINK or HT_DEL_BEFORE_OWNER HAS (REMOVED flag set: lookups skip the node, another del
 * of it gets -ENOENT) although ownership is only claimed after the release.  Resizes never change the
 * content.  The subject runs alone, so its result is determined: lookup -> a live node of the key or
 * NULL; traversal -> exactly the live nodes; add_unique -> a live node of the key or the new node;
 * add_replace -> the replaced live node or NULL; replace / del of a live node -> 0; del of a logically
 * removed node -> -ENOENT.  After the release every parked operation reports what it inserted / removed
 * and the table content must equal: initial + inserted - removed, every node removed by exactly one
 * operation, keys only ever added through add_unique / add_replace present at most once.
 */

#define HT_MAXN 32
#define HKEY(hash, var) ((unsigned long) (hash) | ((unsigned long) (var) << 16))
#define HHASH(key) ((key) & 0xffffUL)
#define K0 HKEY(1, 0)		/* bucket 1: target of the parked del / replace */
#define K1 HKEY(5, 0)		/* bucket 1 of 4 (5 of 8) */
#define K2 HKEY(1, 1)		/* same hash as K0, different key */
#define K3 HKEY(2, 0)		/* bucket 2 */
#define K4 HKEY(6, 0)		/* bucket 2 of 4 (6 of 8) */
#define KNEW_SAME HKEY(9, 0)	/* bucket 1: key of the parked add */
#define KNEW_SAME2 HKEY(1, 2)	/* bucket 1, hash of K0 */
#define KNEW_OTHER HKEY(10, 0)	/* bucket 2 */
#define KABSENT HKEY(13, 0)

struct hn {
	struct cds_lfht_node n;
	unsigned long key;
	int id;
};
#define hn_of(p) ((struct hn *) ((char *) (p) - offsetof(struct hn, n)))

static int ht_match(struct cds_lfht_node *node, const void *key)
{
	return hn_of(node)->key == *(const unsigned long *) key;
}

struct ht_env {
	struct cds_lfht *ht;
	struct hn *pool;
	int npool;
	unsigned long size0;
	int live[HT_MAXN + 1];		/* model: visible to lookups */
	int removed[HT_MAXN + 1];	/* operations that reported having removed the node */
	int enoent[HT_MAXN + 1];	/* operations that reported -ENOENT on the node */
	int plain_add[HT_MAXN + 1];	/* node was inserted with cds_lfht_add (duplicates legal) */
	struct hn *k0;			/* node of K0 added at setup (may be NULL) */
};

static struct hn *ht_node(struct ht_env *e, unsigned long key)
{
	struct hn *n = &e->pool[e->npool];
	n->id = ++e->npool;
	n->key = key;
	cds_lfht_node_init(&n->n);
	return n;
}

static int ht_nodes_linked(struct ht_env *e)
{
	return e->npool + 64;	/* upper bound: every node ever created + max_nr_buckets bucket nodes */
}

static void ht_env_init(struct ht_env *e, long rep, unsigned long size, int nstate)
{
	static const struct cds_lfht_mm_type *const mms[3] = { &cds_lfht_mm_order, &cds_lfht_mm_chunk, &cds_lfht_mm_mmap };
	int mm = (int) (rep % 3);
	int flags = (rep & 1) ? CDS_LFHT_ACCOUNTING : 0;
	memset(e, 0, sizeof(*e));
	e->pool = calloc(HT_MAXN + 1, sizeof(struct hn));
	e->size0 = size;
	e->ht = _cds_lfht_new(size, mm == 1 ? 4 : 1, mm == 0 ? 0 : 64, flags, mms[mm], &rcu_flavor, NULL);
	if (!e->ht) {
		fprintf(stderr, "progress: cds_lfht_new failed\n");
		exit(2);
	}
	rcu_read_lock();
	if (nstate >= 1) {
		e->k0 = ht_node(e, K0);
		cds_lfht_add(e->ht, HHASH(K0), &e->k0->n);
		e->live[e->k0->id] = 1;
		e->plain_add[e->k0->id] = 1;
	}
	if (nstate >= 2) {
		static const unsigned long ks[] = { K1, K2, K3, K4, K3 /* duplicate key */ };
		for (unsigned i = 0; i < sizeof(ks) / sizeof(ks[0]); i++) {
			struct hn *n = ht_node(e, ks[i]);
			cds_lfht_add(e->ht, HHASH(ks[i]), &n->n);
			e->live[n->id] = 1;
			e->plain_add[n->id] = 1;
		}
	}
	rcu_read_unlock();
}

static struct hn *ht_find_live(struct ht_env *e, unsigned long key)
{
	for (int i = 0; i < e->npool; i++)
		if (e->live[e->pool[i].id] && e->pool[i].key == key)
			return &e->pool[i];
	return NULL;
}

/* final content check + teardown */
static void ht_env_fini(struct ht_env *e, const char *opname)
{
	struct cds_lfht_iter it;
	struct cds_lfht_node *n;
	int seen[HT_MAXN + 1];
	char msg[300];
	size_t off = 0;
	int bad = 0;

	memset(seen, 0, sizeof(seen));
	msg[0] = 0;
	rcu_read_lock();
	cds_lfht_for_each(e->ht, &it, n) {
		int id = hn_of(n)->id;
		if (id < 1 || id > e->npool || seen[id]++)
			bad = 1;
	}
	for (int i = 1; i <= e->npool; i++) {
		if (seen[i] != e->live[i]) {
			bad = 1;
			if (off < sizeof(msg) - 40)
				off += (size_t) snprintf(msg + off, sizeof(msg) - off, " node %d(key %lx) %s;", i, e->pool[i - 1].key,
							 seen[i] ? "present but removed in the model" : "missing");
		}
		if (e->removed[i] > 1) {
			bad = 1;
			if (off < sizeof(msg) - 40)
				off += (size_t) snprintf(msg + off, sizeof(msg) - off, " node %d removed by %d operations;", i, e->removed[i]);
		}
		if (e->enoent[i] && e->removed[i] != 1) {
			bad = 1;
			if (off < sizeof(msg) - 40)
				off += (size_t) snprintf(msg + off, sizeof(msg) - off, " node %d: -ENOENT reported but %d removals;", i, e->removed[i]);
		}
	}
	/* uniqueness of keys never added with plain cds_lfht_add */
	for (int i = 1; i <= e->npool && !bad; i++)
		for (int j = i + 1; j <= e->npool; j++)
			if (e->live[i] && e->live[j] && e->pool[i - 1].key == e->pool[j - 1].key &&
			    !e->plain_add[i] && !e->plain_add[j]) {
				bad = 1;
				off += (size_t) snprintf(msg + off, sizeof(msg) - off, " key %lx present twice (nodes %d, %d) after unique adds;",
							 e->pool[i - 1].key, i, j);
			}
	if (bad)
		triple_final_wrong(opname, "table content differs from the model:%s", msg);
	/* empty the table */
	cds_lfht_for_each(e->ht, &it, n)
		(void) cds_lfht_del(e->ht, n);
	rcu_read_unlock();
	subj_offline();
	if (cds_lfht_destroy(e->ht, NULL))
		triple_final_wrong(opname, "cds_lfht_destroy refused an emptied table");
	subj_online();
	free(e->pool);
}

/* ------------------------------------------------------------------ parked operations */

enum { HPK_ADD, HPK_ADD_UNIQUE, HPK_ADD_REPLACE, HPK_DEL, HPK_REPLACE, HPK_RESIZE };
struct ht_parg {
	struct ht_env *e;
	int kind;
	unsigned long key;
	unsigned long new_size;
	struct hn *own;		/* node to insert */
	struct hn *target;	/* node deleted / replaced (filled by the parker) */
};

static void pk_ht(struct parker *p, void *a)
{
	struct ht_parg *g = a;
	struct ht_env *e = g->e;
	struct cds_lfht_iter it;
	struct cds_lfht_node *n;

	if (g->kind == HPK_RESIZE) {
		cds_lfht_resize(e->ht, g->new_size);
		return;
	}
	rcu_read_lock();
	switch (g->kind) {
	case HPK_ADD:
		cds_lfht_add(e->ht, HHASH(g->key), &g->own->n);
		p->result_p = &g->own->n;
		break;
	case HPK_ADD_UNIQUE:
		p->result_p = cds_lfht_add_unique(e->ht, HHASH(g->key), ht_match, &g->key, &g->own->n);
		break;
	case HPK_ADD_REPLACE:
		p->result_p = cds_lfht_add_replace(e->ht, HHASH(g->key), ht_match, &g->key, &g->own->n);
		break;
	case HPK_DEL:
		cds_lfht_lookup(e->ht, HHASH(g->key), ht_match, &g->key, &it);
		n = cds_lfht_iter_get_node(&it);
		g->target = n ? hn_of(n) : NULL;
		p->result = n ? cds_lfht_del(e->ht, n) : -ENOENT;
		break;
	case HPK_REPLACE:
		cds_lfht_lookup(e->ht, HHASH(g->key), ht_match, &g->key, &it);
		n = cds_lfht_iter_get_node(&it);
		g->target = n ? hn_of(n) : NULL;
		p->result = n ? cds_lfht_replace(e->ht, &it, HHASH(g->key), ht_match, &g->key, &g->own->n) : -ENOENT;
		break;
	}
	rcu_read_unlock();
}

/* fold the reported result of a released parked operation into the model */
static void ht_apply_parked(struct ht_env *e, struct ht_parg *g, struct parker *p, const char *opname)
{
	switch (g->kind) {
	case HPK_ADD:
		e->live[g->own->id] = 1;
		e->plain_add[g->own->id] = 1;
		break;
	case HPK_ADD_UNIQUE: {
		struct cds_lfht_node *r = p->result_p;
		if (r == &g->own->n)
			e->live[g->own->id] = 1;
		else if (!r || hn_of(r)->key != g->key)
			triple_final_wrong(opname, "parked add_unique(%lx) returned a node of another key", g->key);
		break;
	}
	case HPK_ADD_REPLACE: {
		struct cds_lfht_node *r = p->result_p;
		e->live[g->own->id] = 1;
		if (r) {
			if (hn_of(r)->key != g->key)
				triple_final_wrong(opname, "parked add_replace(%lx) replaced a node of another key", g->key);
			e->live[hn_of(r)->id] = 0;
			e->removed[hn_of(r)->id]++;
		}
		break;
	}
	case HPK_DEL:
		if (!g->target)
			break;
		if (p->result == 0) {
			e->live[g->target->id] = 0;
			e->removed[g->target->id]++;
		} else
			e->enoent[g->target->id]++;
		break;
	case HPK_REPLACE:
		if (!g->target)
			break;
		if (p->result == 0) {
			e->live[g->target->id] = 0;
			e->removed[g->target->id]++;
			e->live[g->own->id] = 1;
		} else
			e->enoent[g->target->id]++;
		break;
	}
}

/* ------------------------------------------------------------------ subject operations */

enum { HO_LOOKUP_TARGET, HO_LOOKUP_ABSENT, HO_LOOKUP_OTHER, HO_LOOKUP_PARKED_KEY, HO_TRAVERSE, HO_ADD_SAME, HO_ADD_SAMEHASH,
       HO_ADD_OTHER, HO_ADDU_EXISTING, HO_ADDU_PARKED_KEY, HO_ADDU_OTHER, HO_ADDR_EXISTING, HO_ADDR_NEW, HO_REPLACE_TARGET,
       HO_REPLACE_OTHER, HO_DEL_TARGET, HO_DEL_TARGET_PTR, HO_DEL_OTHER, HO_REPLACE_STALE, HO_NR };
static const char *const ho_name[HO_NR] = {
	"lfht_lookup", "lfht_lookup_absent", "lfht_lookup_other_bucket", "lfht_lookup_parked_key", "lfht_first_next",
	"lfht_add", "lfht_add_same_hash", "lfht_add_other_bucket", "lfht_add_unique_existing", "lfht_add_unique_parked_key",
	"lfht_add_unique_other_bucket", "lfht_add_replace_existing", "lfht_add_replace_new", "lfht_replace", "lfht_replace_other_bucket",
	"lfht_del", "lfht_del_by_pointer", "lfht_del_other_bucket", "lfht_replace_stale_iterator" };
static const int ho_cls[HO_NR] = { OC_WALK, OC_WALK, OC_WALK, OC_WALK, OC_WALK, OC_LF, OC_LF, OC_LF, OC_LF, OC_LF, OC_LF, OC_LF, OC_LF,
	OC_LF, OC_LF, OC_LF, OC_LF, OC_LF, OC_LF };

static void ht_subject(struct ht_env *e, int o, unsigned long parked_key)
{
	struct opstat *os = op_get(ho_name[o], ho_cls[o]);
	struct cds_lfht_iter it;
	struct cds_lfht_node *n;
	char res[200];
	const char *wrong = NULL;
	unsigned long key;

	cur.walk_len = (uint64_t) ht_nodes_linked(e);
	rcu_read_lock();
	switch (o) {
	case HO_LOOKUP_TARGET: case HO_LOOKUP_ABSENT: case HO_LOOKUP_OTHER: case HO_LOOKUP_PARKED_KEY: {
		struct hn *lv;
		key = o == HO_LOOKUP_TARGET ? K0 : o == HO_LOOKUP_ABSENT ? KABSENT : o == HO_LOOKUP_OTHER ? K3 : parked_key;
		step_begin(os);
		STEP_ON(); cds_lfht_lookup(e->ht, HHASH(key), ht_match, &key, &it); STEP_OFF();
		step_end();
		n = cds_lfht_iter_get_node(&it);
		lv = ht_find_live(e, key);
		if (n) {
			snprintf(res, sizeof(res), "key %lx -> node %d", key, hn_of(n)->id);
			if (hn_of(n)->key != key)
				wrong = "node of another key";
			else if (!e->live[hn_of(n)->id])
				wrong = "logically removed / not yet inserted node returned";
		} else {
			snprintf(res, sizeof(res), "key %lx -> not found", key);
			if (lv)
				wrong = "a live node with this key is in the table";
		}
		triple_op(os, res, wrong, 5);
		break;
	}
	case HO_TRAVERSE: {
		int seen[HT_MAXN + 1], cnt = 0;
		memset(seen, 0, sizeof(seen));
		step_begin(os);
		STEP_ON(); cds_lfht_first(e->ht, &it); STEP_OFF();
		step_end();
		for (;;) {
			n = cds_lfht_iter_get_node(&it);
			wrong = NULL;
			if (n) {
				int id = hn_of(n)->id;
				snprintf(res, sizeof(res), "%s: node %d", cnt ? "next" : "first", id);
				if (id < 1 || id > e->npool || !e->live[id])
					wrong = "traversal returned a node that is not live in the model";
				else if (seen[id]++)
					wrong = "traversal returned a node twice";
			} else {
				int missing = 0;
				for (int i = 1; i <= e->npool; i++)
					missing += e->live[i] && !seen[i];
				snprintf(res, sizeof(res), "end after %d nodes", cnt);
				if (missing)
					wrong = "traversal ended without visiting every live node";
			}
			triple_op(os, res, wrong, -1);
			if (!n || wrong || st.verdict || ++cnt > HT_MAXN + 2)
				break;
			step_begin(os);
			STEP_ON(); cds_lfht_next(e->ht, &it); STEP_OFF();
			step_end();
		}
		break;
	}
	case HO_ADD_SAME: case HO_ADD_SAMEHASH: case HO_ADD_OTHER: {
		struct hn *x;
		key = o == HO_ADD_SAME ? HKEY(17, 0) : o == HO_ADD_SAMEHASH ? KNEW_SAME2 : KNEW_OTHER;
		x = ht_node(e, key);
		step_begin(os);
		STEP_ON(); cds_lfht_add(e->ht, HHASH(key), &x->n); STEP_OFF();
		step_end();
		e->live[x->id] = 1;
		e->plain_add[x->id] = 1;
		snprintf(res, sizeof(res), "key %lx added (gc-help %u, retries %u)", key, st.mark[URCU_VP_HT_ADD_GC_HELP], st.mark[URCU_VP_HT_ADD_RETRY]);
		if (st.mark[URCU_VP_HT_ADD_GC_HELP])
			ev_helped++;
		triple_op(os, res, NULL, 5);
		break;
	}
	case HO_ADDU_EXISTING: case HO_ADDU_PARKED_KEY: case HO_ADDU_OTHER: {
		struct hn *x, *lv;
		key = o == HO_ADDU_EXISTING ? K0 : o == HO_ADDU_PARKED_KEY ? parked_key : KNEW_OTHER;
		lv = ht_find_live(e, key);
		x = ht_node(e, key);
		step_begin(os);
		STEP_ON(); n = cds_lfht_add_unique(e->ht, HHASH(key), ht_match, &key, &x->n); STEP_OFF();
		step_end();
		if (n == &x->n) {
			snprintf(res, sizeof(res), "key %lx: inserted", key);
			if (lv)
				wrong = "a live node with this key exists: it must be returned instead";
			e->live[x->id] = 1;
		} else {
			snprintf(res, sizeof(res), "key %lx: existing node %d", key, n ? hn_of(n)->id : 0);
			if (!n || hn_of(n)->key != key || !e->live[hn_of(n)->id])
				wrong = "returned node is not a live node of this key";
		}
		if (st.mark[URCU_VP_HT_ADD_GC_HELP])
			ev_helped++;
		triple_op(os, res, wrong, -1);
		break;
	}
	case HO_ADDR_EXISTING: case HO_ADDR_NEW: {
		struct hn *x, *lv;
		key = o == HO_ADDR_EXISTING ? K0 : KNEW_SAME2;
		lv = ht_find_live(e, key);
		x = ht_node(e, key);
		step_begin(os);
		STEP_ON(); n = cds_lfht_add_replace(e->ht, HHASH(key), ht_match, &key, &x->n); STEP_OFF();
		step_end();
		e->live[x->id] = 1;
		if (!n) {
			snprintf(res, sizeof(res), "key %lx: inserted", key);
			if (lv)
				wrong = "a live node with this key exists: it must be replaced";
		} else {
			snprintf(res, sizeof(res), "key %lx: replaced node %d", key, hn_of(n)->id);
			if (hn_of(n)->key != key || !e->live[hn_of(n)->id] || n == &x->n)
				wrong = "replaced node is not a live node of this key";
			else {
				e->live[hn_of(n)->id] = 0;
				e->removed[hn_of(n)->id]++;
			}
		}
		triple_op(os, res, wrong, -1);
		break;
	}
	case HO_REPLACE_TARGET: case HO_REPLACE_OTHER: {
		struct hn *x;
		int r;
		key = o == HO_REPLACE_TARGET ? K0 : K4;
		cds_lfht_lookup(e->ht, HHASH(key), ht_match, &key, &it);
		n = cds_lfht_iter_get_node(&it);
		x = ht_node(e, key);
		step_begin(os);
		STEP_ON(); r = cds_lfht_replace(e->ht, &it, HHASH(key), ht_match, &key, &x->n); STEP_OFF();
		step_end();
		snprintf(res, sizeof(res), "key %lx: old node %d -> %d", key, n ? hn_of(n)->id : 0, r);
		if (!n) {
			if (r != -ENOENT)
				wrong = "no node was found: -ENOENT expected";
		} else if (r != 0)
			wrong = "the looked-up node is live and nobody else runs: 0 expected";
		else {
			e->live[hn_of(n)->id] = 0;
			e->removed[hn_of(n)->id]++;
			e->live[x->id] = 1;
		}
		triple_op(os, res, wrong, -1);
		break;
	}
	case HO_REPLACE_STALE: {
		/* lookup; the looked-up node is removed (by this same thread, same read-side section); replace through
		 * the now stale iterator: must come back with -ENOENT, in a bounded number of steps */
		struct hn *x;
		int r, rd;
		key = K4;
		cds_lfht_lookup(e->ht, HHASH(key), ht_match, &key, &it);
		n = cds_lfht_iter_get_node(&it);
		x = ht_node(e, key);
		rd = n ? cds_lfht_del(e->ht, n) : -ENOENT;
		if (n && rd == 0) {
			e->live[hn_of(n)->id] = 0;
			e->removed[hn_of(n)->id]++;
		}
		step_begin(os);
		STEP_ON(); r = cds_lfht_replace(e->ht, &it, HHASH(key), ht_match, &key, &x->n); STEP_OFF();
		step_end();
		snprintf(res, sizeof(res), "key %lx: node %d deleted (%d) between lookup and replace -> %d", key, n ? hn_of(n)->id : 0, rd, r);
		if (r != -ENOENT)
			wrong = "the iterator's node was removed (or never found): -ENOENT expected";
		triple_op(os, res, wrong, -1);
		break;
	}
	case HO_DEL_TARGET: case HO_DEL_OTHER: case HO_DEL_TARGET_PTR: {
		int r;
		if (o == HO_DEL_TARGET_PTR) {
			n = e->k0 ? &e->k0->n : NULL;
			key = K0;
		} else {
			key = o == HO_DEL_TARGET ? K0 : K3;
			cds_lfht_lookup(e->ht, HHASH(key), ht_match, &key, &it);
			n = cds_lfht_iter_get_node(&it);
		}
		step_begin(os);
		STEP_ON(); r = cds_lfht_del(e->ht, n); STEP_OFF();
		step_end();
		snprintf(res, sizeof(res), "key %lx: node %d -> %d", key, n ? hn_of(n)->id : 0, r);
		if (!n) {
			if (r != -ENOENT)
				wrong = "NULL node: -ENOENT expected";
		} else if (e->live[hn_of(n)->id]) {
			if (r != 0)
				wrong = "the node is live and nobody else runs: 0 expected";
			else {
				e->live[hn_of(n)->id] = 0;
				e->removed[hn_of(n)->id]++;
			}
		} else {
			if (r != -ENOENT)
				wrong = "the node is already logically removed: -ENOENT expected";
			else
				e->enoent[hn_of(n)->id]++;
		}
		triple_op(os, res, wrong, -1);
		break;
	}
	}
	rcu_read_unlock();
}

/* ------------------------------------------------------------------ enumeration */

struct ht_prim {
	const char *P;
	int point, kind, skip;
	unsigned long key, size0, new_size;
	int min_state;		/* 0 empty ok, 1 needs K0 */
	int linearised;		/* del: target logically removed once parked */
};
static const struct ht_prim ht_prims[] = {
	{ "ht_add_before_cmpxchg", URCU_VP_HT_ADD_BEFORE_CMPXCHG, HPK_ADD, 0, KNEW_SAME, 4, 0, 0, 0 },
	{ "ht_add_before_cmpxchg", URCU_VP_HT_ADD_BEFORE_CMPXCHG, HPK_ADD_UNIQUE, 0, KNEW_SAME, 4, 0, 0, 0 },
	{ "ht_add_before_cmpxchg", URCU_VP_HT_ADD_BEFORE_CMPXCHG, HPK_ADD_REPLACE, 0, KNEW_SAME, 8, 0, 0, 0 },
	{ "ht_del_flagged", URCU_VP_HT_DEL_FLAGGED, HPK_DEL, 0, K0, 4, 0, 1, 1 },
	{ "ht_gc_before_unlink", URCU_VP_HT_GC_BEFORE_UNLINK, HPK_DEL, 0, K0, 4, 0, 1, 1 },
	{ "ht_del_before_owner", URCU_VP_HT_DEL_BEFORE_OWNER, HPK_DEL, 0, K0, 8, 0, 1, 1 },
	{ "ht_replace_before_cmpxchg", URCU_VP_HT_REPLACE_BEFORE_CMPXCHG, HPK_REPLACE, 0, K0, 4, 0, 1, 0 },
	{ "ht_replace_before_cmpxchg", URCU_VP_HT_REPLACE_BEFORE_CMPXCHG, HPK_ADD_REPLACE, 0, K0, 8, 0, 1, 0 },
	{ "ht_grow_before_publish", URCU_VP_HT_GROW_BEFORE_PUBLISH, HPK_RESIZE, 0, 0, 4, 8, 0, 0 },
	{ "ht_grow_populating", URCU_VP_HT_ADD_BEFORE_CMPXCHG, HPK_RESIZE, 2, 0, 4, 8, 0, 0 },
	{ "ht_shrink_before_gp", URCU_VP_HT_SHRINK_BEFORE_GP, HPK_RESIZE, 0, 0, 8, 4, 0, 0 },
	{ "ht_shrink_before_remove", URCU_VP_HT_SHRINK_BEFORE_REMOVE, HPK_RESIZE, 0, 0, 8, 4, 0, 0 },
	{ "ht_shrink_gc_before_unlink", URCU_VP_HT_GC_BEFORE_UNLINK, HPK_RESIZE, 1, 0, 8, 4, 0, 0 },
};
#define HT_NPRIM ((int) (sizeof(ht_prims) / sizeof(ht_prims[0])))

/* modifiers: extra frozen threads that put the table into a particular state */
enum { HM_NONE, HM_REMOVED_LINKED, HM_GROW_HALF, HM_SHRINK_HALF, HM_REMOVED_AND_GROW, HM_SECOND_ADDER, HM_NR };
static const char *const hm_name[HM_NR] = { "", "+removed-node-linked", "+grow-half-done", "+shrink-half-done",
	"+removed-node-linked+grow-half-done", "+second-adder" };

static long opt_ht_stride = 4;

static int ht_park_one(struct ht_env *e, struct ht_parg *g, int idx, int kind, unsigned long key, unsigned long new_size, int point, int skip)
{
	g->e = e;
	g->kind = kind;
	g->key = key;
	g->new_size = new_size;
	g->target = NULL;
	g->own = (kind == HPK_ADD || kind == HPK_ADD_UNIQUE || kind == HPK_ADD_REPLACE || kind == HPK_REPLACE) ? ht_node(e, key) : NULL;
	park_start(idx, pk_ht, g, point, skip, NULL);
	return park_wait_parked(&parkers[idx]) == 1;
}

static void run_lfht(long rep)
{
	struct ht_env e;
	struct ht_parg pa[NPARK];
	static const char *const hst_name[3] = { "empty", "one-node", "several" };
	long combo = 0;

	opt_ht_stride = vp_arg_long("ht-stride", 4);

	/* quiet */
	for (int pass = 0; pass < 2; pass++)
		for (int s = 0; s < 3; s++)
			for (int o = 0; o < HO_NR; o++) {
				triple_begin("lfht", "none", hst_name[s], 0);
				ht_env_init(&e, rep + pass, (s + pass) & 1 ? 8 : 4, s);
				ht_subject(&e, o, KNEW_SAME);
				ht_env_fini(&e, ho_name[o]);
			}

	for (int pi = 0; pi < HT_NPRIM; pi++) {
		const struct ht_prim *pr = &ht_prims[pi];
		for (int s = pr->min_state; s < 3; s++)
			for (int m = 0; m < HM_NR; m++) {
				static char stname[96];
				int is_resize = pr->kind == HPK_RESIZE;
				/* applicability */
				if ((m == HM_REMOVED_LINKED || m == HM_REMOVED_AND_GROW) && s < 2)
					continue;
				if ((m == HM_GROW_HALF || m == HM_SHRINK_HALF || m == HM_REMOVED_AND_GROW) && is_resize)
					continue;	/* one resizer at a time (resize_mutex) */
				if (m == HM_GROW_HALF && pr->size0 != 4)
					continue;
				if (m == HM_REMOVED_AND_GROW && pr->size0 != 4)
					continue;
				if (m == HM_SHRINK_HALF && pr->size0 != 8)
					continue;
				snprintf(stname, sizeof(stname), "%s%s%s", hst_name[s], hm_name[m],
					 pr->kind == HPK_ADD_UNIQUE ? "/parked=add_unique" : pr->kind == HPK_ADD_REPLACE ? "/parked=add_replace" : "");
				for (int o = 0; o < HO_NR; o++) {
					int np = 0, got = 0;
					{
						/* rotating sample of the (P, state, modifier, O) product: 1 in --ht-stride per repetition,
						 * chosen from (seed, repetition, index) */
						struct vp_rng hr;
						vp_rng_init(&hr, vp_opt.seed, (uint64_t) rep, (uint64_t) combo++);
						if (opt_ht_stride > 1 && vp_rand_n(&hr, (uint32_t) opt_ht_stride) != 0)
							continue;
					}
					triple_begin("lfht", pr->P, stname, 0);
					ht_env_init(&e, rep, pr->size0, s);
					/* a resizer that needs a grace period to reach its point goes first: nobody is inside
					 * a read-side section yet */
					if (is_resize)
						got += ht_park_one(&e, &pa[np], np, HPK_RESIZE, 0, pr->new_size, pr->point, pr->skip), np++;
					if (m == HM_GROW_HALF || m == HM_REMOVED_AND_GROW)
						got += ht_park_one(&e, &pa[np], np, HPK_RESIZE, 0, 8, URCU_VP_HT_GROW_BEFORE_PUBLISH, 0), np++;
					if (m == HM_SHRINK_HALF)
						got += ht_park_one(&e, &pa[np], np, HPK_RESIZE, 0, 4, URCU_VP_HT_SHRINK_BEFORE_GP, 0), np++;
					if (m == HM_REMOVED_LINKED || m == HM_REMOVED_AND_GROW) {
						got += ht_park_one(&e, &pa[np], np, HPK_DEL, K1, 0, URCU_VP_HT_DEL_FLAGGED, 0);
						if (pa[np].target)
							e.live[pa[np].target->id] = 0;
						np++;
					}
					if (m == HM_SECOND_ADDER)
						got += ht_park_one(&e, &pa[np], np, HPK_ADD_UNIQUE, KNEW_SAME2, 0, URCU_VP_HT_ADD_BEFORE_CMPXCHG, 0), np++;
					if (!is_resize) {
						got += ht_park_one(&e, &pa[np], np, pr->kind, pr->key, 0, pr->point, pr->skip);
						if (pr->linearised && pa[np].target)
							e.live[pa[np].target->id] = 0;
						np++;
					}
					cur.want_frozen = np;
					cur.nfrozen = got;
					ht_subject(&e, o, pr->kind == HPK_RESIZE ? KNEW_SAME : pr->key);
					release_all();
					for (int i = 0; i < np; i++)
						park_wait_done(i);
					for (int i = 0; i < np; i++)
						ht_apply_parked(&e, &pa[i], &parkers[i], ho_name[o]);
					ht_env_fini(&e, ho_name[o]);
				}
			}
	}
}
