/* vp_flavor.h - select the RCU flavor a harness is compiled against.
 * Build with one of -DVP_FL_MEMB -DVP_FL_MB -DVP_FL_QSBR -DVP_FL_BP.
 * -DVP_NO_LGPL compiles against the exported wrapper functions instead of
 * the static inline implementations. */
#ifndef VP_FLAVOR_H
#define VP_FLAVOR_H

#ifndef VP_NO_LGPL
#define _LGPL_SOURCE
#endif
#define URCU_API_MAP

#if defined(VP_FL_MEMB)
#define RCU_MEMBARRIER
#include <urcu/urcu-memb.h>
#define VP_FLAVOR_NAME "memb"
#define VP_PEEK(x) vp_peek_memb_##x
#define VP_IS_QSBR 0
#define VP_IS_BP 0
#elif defined(VP_FL_MB)
#define RCU_MB
#include <urcu/urcu-mb.h>
#define VP_FLAVOR_NAME "mb"
#define VP_PEEK(x) vp_peek_mb_##x
#define VP_IS_QSBR 0
#define VP_IS_BP 0
#elif defined(VP_FL_QSBR)
#include <urcu/urcu-qsbr.h>
#define VP_FLAVOR_NAME "qsbr"
#define VP_PEEK(x) vp_peek_qsbr_##x
#define VP_IS_QSBR 1
#define VP_IS_BP 0
#elif defined(VP_FL_BP)
#include <urcu/urcu-bp.h>
#define VP_FLAVOR_NAME "bp"
#define VP_PEEK(x) vp_peek_bp_##x
#define VP_IS_QSBR 0
#define VP_IS_BP 1
#else
#error "define VP_FL_MEMB / VP_FL_MB / VP_FL_QSBR / VP_FL_BP"
#endif

#include <urcu/rculfhash.h>
#include "vp_peek.h"

/* qsbr conveniences that are no-ops for the other flavors */
static inline void vp_rcu_qs(void)
{
#if VP_IS_QSBR
	rcu_quiescent_state();
#endif
}
static inline void vp_rcu_offline(void)
{
#if VP_IS_QSBR
	rcu_thread_offline();
#endif
}
static inline void vp_rcu_online(void)
{
#if VP_IS_QSBR
	rcu_thread_online();
#endif
}

#endif
