/*
 * forkh.c - fork() monitor (C16).
 *
 * One evaluation = one fork() bracketed by the documented handlers
 * (<flavor>_call_rcu_before_fork / after_fork_parent / after_fork_child, bp:
 * additionally urcu_bp_before_fork / after_fork_parent / after_fork_child nested
 * inside them).  The forking thread builds a call_rcu helper layout, optionally
 * AUTO_RESIZE hash tables with a lazy resize in flight, queues callbacks so that
 * the fork lands in a chosen helper state, calls the before_fork handlers,
 * SNAPSHOTS the per-callback invocation counters (helpers are paused: "pending at
 * fork" is well defined and is re-verified on both sides of the fork), forks, calls
 * the after_fork handlers and then runs the same script in both processes
 * (forkh_script.h).  The child reports through a pipe; it may fork again
 * (depth <= 3) after building a new layout of its own.  A child that stops making
 * progress is examined through its shared progress page and /proc/<pid>/task.
 *
 * TSan is not used: a multi-threaded process that forks has no TSan runtime
 * threads in the child (die_after_fork); plain + asan variants only.
 */
#include "vp.h"
#include "vp_flavor.h"
#include "vp_tun.h"
#include "forkh_rt.h"
#include "forkh_ht.h"
#include "forkh_thr.h"

#if VP_IS_BP
/* the generic names are not mapped for these three */
extern void urcu_bp_before_fork(void);
extern void urcu_bp_after_fork_parent(void);
extern void urcu_bp_after_fork_child(void);
#endif

#if defined(VP_FL_MEMB)
/* second flavor linked into the same binary (the archive holds all flavors) */
#define HAVE_MULTI 1
extern void urcu_qsbr_register_thread(void);
extern void urcu_qsbr_unregister_thread(void);
extern void urcu_qsbr_thread_offline(void);
extern void urcu_qsbr_thread_online(void);
extern void urcu_qsbr_read_lock(void);
extern void urcu_qsbr_read_unlock(void);
extern void urcu_qsbr_synchronize_rcu(void);
extern void urcu_qsbr_call_rcu(struct rcu_head *head, void (*func)(struct rcu_head *head));
extern void urcu_qsbr_barrier(void);
extern void urcu_qsbr_call_rcu_before_fork(void);
extern void urcu_qsbr_call_rcu_after_fork_parent(void);
extern void urcu_qsbr_call_rcu_after_fork_child(void);
extern const struct rcu_flavor_struct urcu_qsbr_flavor;
#endif

#define CB_MAGIC 0xf0cbf0cbU
#define MAXCB 640

struct cbrec {
	struct rcu_head head;
	uint32_t magic;
	uint32_t invoked;
	uint16_t id;
	uint8_t queued, slow, gen /* 0 queued before the fork, 1 after */, pend /* pending at fork */, fl2;
};

struct scen {
	int depth;		/* depth of the process that forks */
	uint64_t idx;
	struct vp_rng rng;
	char cfg[48];
	int layout, rt, early, fstate, ncb, slow, reg_at_fork, ht_mode, multi, nonlifo, setmask;
	int nholders, ncyclers, nsyncers, nidle;
	struct cbrec *recs, *qrecs;
	int nrecs, nqrecs;
	struct htab ht[2];
	int nht;
	struct htab qht;
	int have_qht;
	struct call_rcu_data *mine;
	int percpu;
	struct appset app;
	/* snapshot taken between before_fork and fork */
	int npend, nqpend, ncompleted, regcount, insec_at_fork, ht_state;
	char state_label[24];
	sigset_t m_orig, m0;
	int resizes_after;
	unsigned long fresh_size;
};

static int g_qreg;		/* multi: forking thread registered with qsbr */
static int g_reg;		/* forking thread registered with the harness flavor (non-bp) */
static int g_main_in_fork_window;	/* bp: main forker is between urcu_bp_before_fork() and after_fork_parent() */
static int g_maxdepth_cfg = 3, g_cur_maxdepth = 1;
static double g_hookp = 0.25;
static int g_multi;
static uint64_t g_bad_heads;
static uint64_t g_wq_pause_with_work, g_helper_pause_seen;
static struct scen *g_cur;	/* scenario whose tables the WQ_PAUSE hook inspects */

static void nap(unsigned us)
{
	if (VP_IS_QSBR && g_reg)
		vp_rcu_offline();
	usleep(us);
	if (VP_IS_QSBR && g_reg)
		vp_rcu_online();
}

#ifdef HAVE_MULTI
static void qnap(unsigned us)
{
	urcu_qsbr_thread_offline();
	usleep(us);
	urcu_qsbr_thread_online();
}
#endif

static void cb_fn(struct rcu_head *h)
{
	struct cbrec *r = caa_container_of(h, struct cbrec, head);
	if (r->magic != CB_MAGIC) {
		__atomic_fetch_add(&g_bad_heads, 1, __ATOMIC_RELAXED);
		return;
	}
	__atomic_fetch_add(&r->invoked, 1, __ATOMIC_RELAXED);
	if (r->slow)
		vp_spin_cycles((uint64_t) r->slow * 40000);
	bump();
}

/* queue one callback on one of the queues the layout offers */
static void queue_one(struct scen *s, struct cbrec *r)
{
	r->queued = 1;
	switch (s->layout) {
	case 2:
		if (vp_rand_n(&s->rng, 6) == 0)
			vp_pin_cpu(vp_cpus[vp_rand_n(&s->rng, (uint32_t) vp_ncpu)]);
		call_rcu(&r->head, cb_fn);
		break;
	case 3:
		if (vp_rand_n(&s->rng, 2)) {
			set_thread_call_rcu_data(NULL);		/* per-CPU helper of the current CPU */
			if (vp_rand_n(&s->rng, 4) == 0)
				vp_pin_cpu(vp_cpus[vp_rand_n(&s->rng, (uint32_t) vp_ncpu)]);
			call_rcu(&r->head, cb_fn);
			set_thread_call_rcu_data(s->mine);
		} else
			call_rcu(&r->head, cb_fn);
		break;
	default:
		call_rcu(&r->head, cb_fn);
		break;
	}
}

static struct cbrec *queue_n(struct scen *s, int n, int slow)
{
	if (s->nrecs + n > MAXCB - 64)
		n = MAXCB - 64 - s->nrecs;
	struct cbrec *first = &s->recs[s->nrecs];
	for (int i = 0; i < n; i++) {
		struct cbrec *r = &s->recs[s->nrecs];
		r->magic = CB_MAGIC;
		r->id = (uint16_t) s->nrecs;
		r->slow = (uint8_t) (slow ? 1 + vp_rand_n(&s->rng, 12) : 0);
		s->nrecs++;
		queue_one(s, r);
	}
	vp_pin(0);
	bump();
	return first;
}

static void build_helpers(struct scen *s)
{
	unsigned long fl = s->rt ? URCU_CALL_RCU_RT : 0;
	if (s->layout >= 2) {
		if (create_all_cpu_call_rcu_data(fl))
			R_viol("c16:create_all_cpu_call_rcu_data-failed", "%s depth %d errno=%d", s->cfg, G.depth, errno);
		s->percpu = 1;
	}
	if (s->layout == 1 || s->layout == 3) {
		s->mine = create_call_rcu_data(fl, -1);
		set_thread_call_rcu_data(s->mine);
	}
	bump();
}

static void teardown_helpers(struct scen *s)
{
	if (s->mine) {
		set_thread_call_rcu_data(NULL);
		synchronize_rcu();
		if (g_reg)
			vp_rcu_offline();
		call_rcu_data_free(s->mine);
		if (g_reg)
			vp_rcu_online();
		s->mine = NULL;
		bump();
	}
	if (s->percpu) {
		if (g_reg)
			vp_rcu_offline();
		free_all_cpu_call_rcu_data();
		if (g_reg)
			vp_rcu_online();
		s->percpu = 0;
		bump();
	}
}

/* label of the helper state right before before_fork is called */
static void helper_state_label(struct scen *s)
{
	struct vp_crdp_info info[48];
	int n = VP_PEEK(crdp_snapshot)(info, 48), asleep = 0, nq = 0, q_asleep = 0, nonrt = 0;
	if (n > 48)
		n = 48;
	for (int i = 0; i < n; i++) {
		int is_rt = !!(info[i].flags & URCU_CALL_RCU_RT);
		if (!is_rt)
			nonrt++;
		if (!is_rt && info[i].futex == -1)
			asleep++;
		if (info[i].qlen) {
			nq++;
			if (!is_rt && info[i].futex == -1)
				q_asleep++;
		}
	}
	const char *l;
	if (!n)
		l = "nohelper";
	else if (!nq)
		l = (asleep == nonrt) ? "asleep" : "awake-idle";
	else
		l = q_asleep ? "queued-asleep" : "busy";
	snprintf(s->state_label, sizeof(s->state_label), "%s", l);
}

static void wait_helpers_asleep(void)
{
	for (int i = 0; i < 80; i++) {
		struct vp_crdp_info info[48];
		int n = VP_PEEK(crdp_snapshot)(info, 48), ok = 1;
		if (n > 48)
			n = 48;
		for (int k = 0; k < n; k++)
			if (!(info[k].flags & URCU_CALL_RCU_RT) && (info[k].futex != -1 || info[k].qlen))
				ok = 0;
		if (ok)
			return;
		nap(1000);
	}
}

static void user_hook(int point, const void *ctx)
{
	if ((point == URCU_VP_WQ_PAUSE || point == URCU_VP_WQ_PRE_SLEEP) && !g_wq)
		__atomic_store_n(&g_wq, (const struct wq_mirror *) ctx, __ATOMIC_RELAXED);
	if (point == URCU_VP_WQ_PAUSE) {
		if (wq_qlen() > 0)
			__atomic_fetch_add(&g_wq_pause_with_work, 1, __ATOMIC_RELAXED);
	} else if (point == URCU_VP_CRCU_HELPER_PAUSE)
		__atomic_fetch_add(&g_helper_pause_seen, 1, __ATOMIC_RELAXED);
}

static void set_chaos(struct scen *s)
{
	double p = g_hookp;
	vp_points_clear();
	if (p <= 0)
		return;
	if (vp_rand_n(&s->rng, 2))
		vp_point_set(URCU_VP_CRCU_HELPER_PAUSE, p, VP_D_HEAVY);
	if (vp_rand_n(&s->rng, 2))
		vp_point_set(URCU_VP_WQ_PAUSE, p, VP_D_HEAVY);
	if (vp_rand_n(&s->rng, 2))
		vp_point_set(URCU_VP_CRCU_HELPER_PRE_SLEEP, p, VP_D_HEAVY);
	if (vp_rand_n(&s->rng, 2))
		vp_point_set(URCU_VP_CRCU_HELPER_SPLICED, p, vp_rand_n(&s->rng, 2) ? VP_D_SLEEP : VP_D_HEAVY);
	if (vp_rand_n(&s->rng, 3) == 0)
		vp_point_set(URCU_VP_CRCU_ENQUEUED, p / 4, VP_D_HEAVY);
	if (vp_rand_n(&s->rng, 3) == 0)
		vp_point_set(URCU_VP_GP_PRE_SLEEP, p / 2, VP_D_HEAVY);
	if (vp_rand_n(&s->rng, 3) == 0)
		vp_point_set(URCU_VP_WFCQ_SPLICE_MID, p / 2, VP_D_HEAVY);
	/* the hand-over of inherited callbacks to the child's new default helper happens long enough after that
	 * helper was created for it to have gone to sleep: the hand-over must wake it */
	if (vp_rand_n(&s->rng, 4))
		vp_point_set(URCU_VP_CRCU_FREE_STOPPED, 1.0, VP_D_SLEEP);
	/* a re-created worker that inherited futex == -1 spins (known, not flagged): let it nap */
	if (vp_rand_n(&s->rng, 2))
		vp_point_set(URCU_VP_WQ_PRE_SLEEP, 1.0, VP_D_SLEEP);
	if (s->ht_mode >= 2) {
		/* slow resize so that the fork lands while it is running / queued behind it */
		vp_point_set(URCU_VP_HT_GROW_BEFORE_PUBLISH, 1.0, VP_D_SLEEP);
		vp_point_set(URCU_VP_HT_RESIZE_LOOP, 0.5, VP_D_SLEEP);
	}
}

static int mask_equal(const sigset_t *a, const sigset_t *b)
{
	for (int sgn = 1; sgn < 65; sgn++)
		if (sigismember(a, sgn) != sigismember(b, sgn))
			return 0;
	return 1;
}

static void check_mask(struct scen *s, const char *role, const char *after)
{
	sigset_t cur;
	pthread_sigmask(SIG_SETMASK, NULL, &cur);
	if (!mask_equal(&cur, &s->m0)) {
		char key[96];
		int diff = 0;
		for (int sgn = 1; sgn < 65; sgn++)
			if (sigismember(&cur, sgn) != sigismember(&s->m0, sgn)) {
				diff = sgn;
				break;
			}
		snprintf(key, sizeof(key), "c16:%s:signal-mask-not-restored", role);
		R_viol(key, "%s %s: signal mask after %s differs from the mask before the before_fork handlers (first differing signal %d, now %s)",
		       s->cfg, role, after, diff, sigismember(&cur, diff) ? "blocked" : "unblocked");
	}
}

/* pending set as seen by the calling process right now; returns number of mismatches with the snapshot */
static int recheck_pending(struct cbrec *recs, int n, int *first)
{
	int bad = 0;
	for (int i = 0; i < n; i++) {
		struct cbrec *r = &recs[i];
		if (!r->queued)
			continue;
		int p = __atomic_load_n(&r->invoked, __ATOMIC_RELAXED) == 0;
		if (p != r->pend && !bad++)
			*first = i;
	}
	return bad;
}

static const char *fstate_names[] = { "asleep", "late", "midbatch", "burst" };

static const char *bucket(int n)
{
	return n == 0 ? "0" : (n <= 8 ? "1-8" : (n <= 64 ? "9-64" : ">64"));
}

#include "forkh_script.h"

static void run_scenario(int depth, uint64_t idx);

static int depth_cap(int depth)
{
	return depth == 0 ? 32 : 8;
}

static void choose_params(struct scen *s)
{
	uint32_t x = vp_rand_n(&s->rng, 100);
	s->layout = x < 32 ? 0 : (x < 62 ? 1 : (x < 78 ? 2 : 3));
	s->rt = vp_rand_n(&s->rng, 8) == 0;
	s->early = vp_rand_n(&s->rng, 2) ? (int) vp_rand_n(&s->rng, 12) : 0;
	s->fstate = (int) vp_rand_n(&s->rng, 4);	/* 0 asleep(+late) 1 late-only 2 mid-batch 3 burst */
	x = vp_rand_n(&s->rng, 100);
	s->ncb = x < 12 ? 0 : (x < 40 ? 1 + (int) vp_rand_n(&s->rng, 8) : (x < 80 ? 9 + (int) vp_rand_n(&s->rng, 56) : 65 + (int) vp_rand_n(&s->rng, 150)));
	s->slow = vp_rand_n(&s->rng, 2);
	s->reg_at_fork = VP_IS_BP ? 1 : (int) vp_rand_n(&s->rng, 2);
	x = vp_rand_n(&s->rng, 100);
	s->ht_mode = x < 30 ? 0 : (x < 45 ? 1 : (x < 75 ? 2 : 3));
	s->multi = g_multi;
	s->nonlifo = vp_rand_n(&s->rng, 2);
	s->setmask = vp_rand_n(&s->rng, 2);
	if (VP_IS_BP) {
		int maxr = depth_cap(s->depth);
		int nr = 1 + (int) vp_rand_n(&s->rng, (uint32_t) maxr);
		if (vp_rand_n(&s->rng, 2)) {
			/* parked inside sections at fork: no concurrent grace periods may be pending on them */
			s->nholders = 1 + (int) vp_rand_n(&s->rng, (uint32_t) nr);
			s->ncyclers = nr - s->nholders;
			s->nsyncers = 0;
			/* a helper that is already inside a grace period would wait for the parked
			 * readers and never reach PAUSE: only fork points with sleeping helpers */
			s->fstate = (int) vp_rand_n(&s->rng, 2);
			if (s->ht_mode == 1)
				s->ht_mode = 2;
		} else {
			s->ncyclers = nr;
			s->nsyncers = (int) vp_rand_n(&s->rng, 3);
		}
	} else
		s->nidle = 1 + (int) vp_rand_n(&s->rng, 4);
}

/* ------------------------------------------------------------------ one scenario = one fork (+ nested ones) */

static void scenario_free(struct scen *s)
{
	free(s->recs);
	free(s->qrecs);
	free(s);
}

static void run_scenario(int depth, uint64_t idx)
{
	struct scen *s = calloc(1, sizeof(*s));
	char ph[56];
	const char *role = "as-parent";

	if (!s)
		return;
	s->depth = depth;
	s->idx = idx;
	vp_rng_init(&s->rng, vp_opt.seed, 0xf04c + (uint64_t) depth * 7919, idx);
	s->recs = calloc(MAXCB, sizeof(struct cbrec));
	s->qrecs = calloc(MAXCB, sizeof(struct cbrec));
	choose_params(s);
	snprintf(s->cfg, sizeof(s->cfg), "%s%s#%llu.d%d", VP_FLAVOR_NAME, s->multi ? "+qsbr" : "", (unsigned long long) idx, depth);
	set_chaos(s);

	PH("setup");
	pthread_sigmask(SIG_SETMASK, NULL, &s->m_orig);
	if (s->setmask) {
		sigset_t add;
		sigemptyset(&add);
		sigaddset(&add, SIGUSR1);
		sigaddset(&add, SIGWINCH);
		pthread_sigmask(SIG_BLOCK, &add, NULL);
	}
	if (!VP_IS_BP) {
		if (app_start(&s->app, s->nidle, 0, 0, 0, vp_opt.seed + idx)) {
			R_inconcl("could not start application threads");
			goto out_threads;
		}
		if (!g_reg) {
			rcu_register_thread();
			g_reg = 1;
		}
	} else if (!s->nholders) {
		if (app_start(&s->app, 0, 0, s->ncyclers, s->nsyncers, vp_opt.seed + idx)) {
			R_inconcl("could not start reader threads");
			goto out_threads;
		}
	}
#ifdef HAVE_MULTI
	if (s->multi) {
		if (!g_qreg) {
			urcu_qsbr_register_thread();
			g_qreg = 1;
		} else
			urcu_qsbr_thread_online();
		if (vp_rand_n(&s->rng, 4)) {
			if (ht_create(&s->qht, &urcu_qsbr_flavor, 128, 0x51000000ULL))
				R_viol("c16:ht-new-failed", "%s: qsbr-bound table", s->cfg);
			else {
				s->have_qht = 1;
				ht_add_n(&s->qht, 4);
			}
		}
		urcu_qsbr_thread_offline();
	}
#endif
	/* early callbacks go to the default helper (no other helper exists yet) */
	if (s->early)
		queue_n(s, s->early, 0);
	build_helpers(s);
	if (G.nviol)
		goto teardown;

	/* hash tables */
	if (s->ht_mode) {
		s->nht = s->ht_mode == 3 ? 2 : 1;
		for (int i = 0; i < s->nht; i++)
			if (ht_create(&s->ht[i], &rcu_flavor, 256, 0x10000000ULL * (uint64_t) (i + 1))) {
				R_viol("c16:ht-new-failed", "%s: cds_lfht_new_flavor failed before the fork (depth %d)", s->cfg, depth);
				s->nht = i;
				goto teardown;
			}
		g_cur = s;
		if (s->ht_mode == 1) {
			ht_add_n(&s->ht[0], 40);
			if (ht_wait_settled(&s->ht[0], role, "table before the fork", nap))
				goto teardown;
		}
	}

	/* callbacks: put the helpers into the chosen state */
	PH("queue");
	switch (s->fstate) {
	case 0:		/* everything already executed, helpers asleep; a late batch right before the fork */
		if (s->ncb) {
			queue_n(s, 1 + s->ncb / 4, s->slow);
			rcu_barrier();
		}
		wait_helpers_asleep();
		break;
	case 1:
		wait_helpers_asleep();
		break;
	case 2: {	/* helpers in the middle of a batch of slow callbacks */
		int na = 4 + s->ncb / 3;
		struct cbrec *a = queue_n(s, na, 1);
		for (int i = 0; i < 400; i++) {
			int started = 0;
			for (int k = 0; k < na && !started; k++)
				started = __atomic_load_n(&a[k].invoked, __ATOMIC_RELAXED) != 0;
			if (started)
				break;
			nap(100);
		}
		break;
	}
	default:
		break;
	}
	if (VP_IS_BP && s->nholders) {
		if (app_start(&s->app, 0, s->nholders, s->ncyclers, 0, vp_opt.seed + idx)) {
			R_inconcl("could not start reader threads");
			goto teardown;
		}
	}
	int late = s->ncb;
	if (s->fstate == 0 && vp_rand_n(&s->rng, 3) == 0)
		late = 0;
	if (late)
		queue_n(s, late, s->slow && s->fstate != 1);
#ifdef HAVE_MULTI
	if (s->multi) {
		int qn = (int) vp_rand_n(&s->rng, 20);
		urcu_qsbr_thread_online();
		for (int i = 0; i < qn; i++) {
			struct cbrec *r = &s->qrecs[s->nqrecs];
			r->magic = CB_MAGIC;
			r->id = (uint16_t) s->nqrecs++;
			r->fl2 = 1;
			r->queued = 1;
			urcu_qsbr_call_rcu(&r->head, cb_fn);
		}
		if (s->have_qht && vp_rand_n(&s->rng, 2))
			ht_add_n(&s->qht, 24);		/* lazy resize of the qsbr-bound table in flight */
		urcu_qsbr_thread_offline();
	}
#endif
	/* lazy resize in flight / queued behind another one */
	if (s->ht_mode >= 2) {
		ht_add_n(&s->ht[0], 24);
		if (s->ht_mode == 3) {
			usleep(50 + vp_rand_n(&s->rng, 300));
			ht_add_n(&s->ht[1], 24);
		}
		if (vp_rand_n(&s->rng, 2))
			usleep(vp_rand_n(&s->rng, 800));
		for (int i = 0; i < s->nht; i++)
			s->ht[i].size_at_call = ht_unsettled(&s->ht[i]);
	}
	helper_state_label(s);

	/* ---- the documented bracket ---- */
	if (!VP_IS_BP && !s->reg_at_fork) {
		rcu_unregister_thread();
		g_reg = 0;
	}
	if (VP_IS_QSBR && g_reg)
		vp_rcu_offline();	/* qsbr: never wait for a helper while online */
	pthread_sigmask(SIG_SETMASK, NULL, &s->m0);
	PH("before_fork");
	call_rcu_before_fork();
#ifdef HAVE_MULTI
	if (s->multi) {
		PH("before_fork-qsbr");
		urcu_qsbr_call_rcu_before_fork();
	}
#endif
#if VP_IS_BP
	PH("bp_before_fork");
	urcu_bp_before_fork();
	VP_STORE(g_main_in_fork_window, 1);
#endif
	PH("snapshot");
	s->npend = s->nqpend = s->ncompleted = 0;
	for (int i = 0; i < s->nrecs; i++) {
		struct cbrec *r = &s->recs[i];
		r->pend = r->queued && __atomic_load_n(&r->invoked, __ATOMIC_RELAXED) == 0;
		s->npend += r->pend;
		s->ncompleted += r->queued && !r->pend;
	}
	for (int i = 0; i < s->nqrecs; i++) {
		struct cbrec *r = &s->qrecs[i];
		r->pend = r->queued && __atomic_load_n(&r->invoked, __ATOMIC_RELAXED) == 0;
		s->nqpend += r->pend;
	}
	s->ht_state = s->ht_mode ? HT_SETTLED : HT_NONE;
	for (int i = 0; i < s->nht; i++) {
		struct htab *t = &s->ht[i];
		t->size_at_fork = ht_size(t);
		t->target_at_fork = ht_target(t);
		/* worker paused: work queue length > 0 <=> a resize is queued, not yet started */
		t->state_at_fork = (ht_unsettled(t) && wq_qlen() != 0) ? HT_QUEUED : (t->size_at_call ? HT_INFLIGHT : HT_SETTLED);
		if (t->state_at_fork > s->ht_state)
			s->ht_state = t->state_at_fork;
	}
	if (s->have_qht && ht_unsettled(&s->qht) && wq_qlen() != 0 && s->ht_state < HT_QUEUED)
		s->ht_state = HT_QUEUED;
	s->insec_at_fork = VP_IS_BP ? app_count_insec(&s->app) : 0;
#if !VP_IS_BP
	/* helpers (and the resize worker) must have left the reader registry while paused */
	s->regcount = VP_PEEK(registry_count)();
	if (s->regcount != (g_reg ? 1 : 0))
		R_viol("c16:registry-not-quiescent-at-fork",
		       "%s: %d threads in the reader registry between before_fork and fork, expected %d (only the forking thread may be registered; paused helpers must have unregistered)",
		       s->cfg, s->regcount, g_reg ? 1 : 0);
#endif
	int pfd[2];
	struct shp *page = mmap(NULL, 4096, PROT_READ | PROT_WRITE, MAP_SHARED | MAP_ANONYMOUS, -1, 0);
	if (page == MAP_FAILED || pipe(pfd)) {
		R_inconcl("pipe/mmap failed before fork");
		_exit(2);
	}
	snprintf(page->phase, sizeof(page->phase), "fork");
	PH("fork");
	pid_t pid = fork();
	if (pid < 0) {
		R_inconcl("fork failed");
		_exit(2);
	}

	if (pid == 0) {
		/* ================= child ================= */
		role = "child";
		child_enter(pfd[1], pfd[0], page);
		g_app = NULL;		/* those threads do not exist here */
		__atomic_store_n(&g_wq_pause_with_work, 0, __ATOMIC_RELAXED);
		__atomic_store_n(&g_helper_pause_seen, 0, __ATOMIC_RELAXED);
		__atomic_store_n(&g_stale_flag_seen, 0, __ATOMIC_RELAXED);
		PH("after_fork_child");
		int first = -1, bad = recheck_pending(s->recs, s->nrecs, &first);
		if (bad)
			R_viol("c16:child:helpers-not-quiescent-at-fork",
			       "%s: %d callbacks (first id %d) changed state between the snapshot taken after before_fork and the child's memory image: a helper was still running when fork() copied the address space",
			       s->cfg, bad, first);
		int insec = 0;
#if VP_IS_BP
		insec = app_count_insec(&s->app);
		urcu_bp_after_fork_child();
		check_mask(s, role, "urcu_bp_after_fork_child");
		{
			struct vp_bp_arena_info ai;
			int self_reg = URCU_TLS(urcu_bp_reader) != NULL;
			vp_peek_bp_arena_snapshot(&ai);
			if ((int) ai.total_used != self_reg || ai.registry_len != self_reg || ai.free_slot_active || ai.used_mismatch)
				R_viol("c16:child:bp-registry-not-pruned",
				       "%s: after urcu_bp_after_fork_child the arena has %zu used slots, registry length %d, %d freed slots with a non-zero nesting count, %d chunks with inconsistent `used`; expected only the forking thread's slot (%d); %d readers + helpers were registered, %d inside sections at fork",
				       s->cfg, ai.total_used, ai.registry_len, ai.free_slot_active, ai.used_mismatch, self_reg,
				       s->app.nreaders, insec);
		}
#endif
#ifdef HAVE_MULTI
		if (s->multi && !s->nonlifo)
			urcu_qsbr_call_rcu_after_fork_child();
#endif
		call_rcu_after_fork_child();
#ifdef HAVE_MULTI
		if (s->multi && s->nonlifo)
			urcu_qsbr_call_rcu_after_fork_child();
#endif
		check_mask(s, role, "call_rcu_after_fork_child");
		if (VP_IS_QSBR && g_reg)
			vp_rcu_online();
		s->mine = NULL;		/* inherited helpers were disposed of by the handler */
		s->percpu = 0;
		uint64_t lazy0 = vp_point_hits(URCU_VP_HT_LAZY_RESIZE);
		int ok = !G.nviol && post_fork_script(s, role) == 0;
		/* evidence of this fork, recorded by the process that saw the memory image */
		int nontrivial = s->npend > 0 || s->nqpend > 0 || s->ht_state >= HT_INFLIGHT || insec > 0;
		R_count("nontrivial", (uint64_t) nontrivial);
		R_count("pending_at_fork", (uint64_t) (s->npend + s->nqpend));
		R_count("child_lazy_resizes", vp_point_hits(URCU_VP_HT_LAZY_RESIZE) - lazy0);
		R_count("bp_readers_in_section_at_fork", (uint64_t) insec);
		if (nontrivial) {
			if (VP_IS_BP)
				R_sig("%s:L%d:%s:pend=%s:d%d:ht=%s:rd=%s:in=%s", VP_FLAVOR_NAME, s->layout, fstate_names[s->fstate],
				      bucket(s->npend), G.depth, ht_state_names[s->ht_state], bucket(s->app.nreaders),
				      bucket(insec));
			else
				R_sig("%s%s:L%d:%s:pend=%s:d%d:reg%d:ht=%s", VP_FLAVOR_NAME, s->multi ? "+qsbr" : "", s->layout,
				      fstate_names[s->fstate], bucket(s->npend + s->nqpend), G.depth, s->reg_at_fork,
				      ht_state_names[s->ht_state]);
		}
		if (ok && (nontrivial || G.depth > 1))
			R_sample("%s fork->depth %d: layout=%d rt=%d fork-point=%s helpers=%s forker-registered=%d pending=%d(+%d qsbr) completed-before=%d ht=%s%s readers=%d in-section=%d | child: pending ran exactly once, %d lazy resizes through the re-created worker, fresh table grew to %lu",
				 s->cfg, G.depth, s->layout, s->rt, fstate_names[s->fstate], s->state_label, s->reg_at_fork, s->npend, s->nqpend, s->ncompleted,
				 ht_state_names[s->ht_state], s->nht == 2 ? "(2 tables)" : "", s->app.nreaders, insec, s->resizes_after,
				 s->fresh_size);
		if (ok && G.depth < g_cur_maxdepth) {
			phase("nested");
			run_scenario(G.depth, idx * 16 + 1);
		}
		R_count("wq_pause_with_work_queued", __atomic_load_n(&g_wq_pause_with_work, __ATOMIC_RELAXED));
		R_count("helper_pause_seen", __atomic_load_n(&g_helper_pause_seen, __ATOMIC_RELAXED));
		R_count("stale_resize_initiated_flag", __atomic_load_n(&g_stale_flag_seen, __ATOMIC_RELAXED));
		child_exit();
	}

	/* ================= parent ================= */
	role = "parent";
	close(pfd[1]);
	PH("after_fork_parent");
	{
		int first = -1, bad = recheck_pending(s->recs, s->nrecs, &first);
		if (bad)
			R_viol("c16:parent:helpers-not-paused",
			       "%s: %d callbacks (first id %d) ran between before_fork and after_fork_parent", s->cfg, bad, first);
	}
#if VP_IS_BP
	VP_STORE(g_main_in_fork_window, 0);
	urcu_bp_after_fork_parent();
	check_mask(s, role, "urcu_bp_after_fork_parent");
#endif
#ifdef HAVE_MULTI
	if (s->multi && !s->nonlifo)
		urcu_qsbr_call_rcu_after_fork_parent();
#endif
	call_rcu_after_fork_parent();
#ifdef HAVE_MULTI
	if (s->multi && s->nonlifo)
		urcu_qsbr_call_rcu_after_fork_parent();
#endif
	check_mask(s, role, "call_rcu_after_fork_parent");
	if (VP_IS_QSBR && g_reg)
		vp_rcu_online();
	VP_STORE(s->app.hold_release, 1);
	R_count("evaluations", 1);
	{
		char nm[32];
		snprintf(nm, sizeof(nm), "forks_to_depth%d", G.depth + 1);
		R_count(nm, 1);
	}
	if (!G.nviol)
		post_fork_script(s, role);
	PH("wait-child");
	{
		struct child_result cr;
		char desc[160];
		snprintf(desc, sizeof(desc), "%s layout=%d helpers=%s pending=%d ht=%s reg=%d readers=%d", s->cfg, s->layout,
			 s->state_label, s->npend, ht_state_names[s->ht_state], s->reg_at_fork, s->app.nreaders);
		if (VP_IS_QSBR && g_reg)
			vp_rcu_offline();
		wait_child(pid, pfd[0], page, desc, &cr);
		if (VP_IS_QSBR && g_reg)
			vp_rcu_online();
		munmap(page, 4096);
	}

teardown:
	PH("teardown");
	g_cur = NULL;
	if (!VP_IS_BP && !g_reg) {
		rcu_register_thread();
		g_reg = 1;
	}
	if (G.nviol)
		goto out_threads;	/* state may be wedged: do not risk blocking in cleanup */
	for (int i = 0; i < s->nht; i++)
		if (s->ht[i].ht)
			ht_del_all_destroy(&s->ht[i], role, "table (teardown)", nap);
	s->nht = 0;
	teardown_helpers(s);
	rcu_barrier();
#ifdef HAVE_MULTI
	if (s->multi) {
		urcu_qsbr_thread_online();
		if (s->have_qht && s->qht.ht)
			ht_del_all_destroy(&s->qht, role, "qsbr table (teardown)", qnap);
		urcu_qsbr_barrier();
		urcu_qsbr_unregister_thread();
		g_qreg = 0;
	}
#endif
out_threads:
	if (s->app.n && g_app == &s->app)
		app_stop(&s->app);
	pthread_sigmask(SIG_SETMASK, &s->m_orig, NULL);
	if (!G.nviol)
		scenario_free(s);	/* on a violation callbacks may still reference the records */
	bump();
}

/* ------------------------------------------------------------------ root process */

static int confirm_stuck(char *buf, size_t len)
{
	char ph[56];
	int sleeping = 0, dstate = 0;
	struct rq_snap rq0;
	memcpy(ph, G.shp->phase, sizeof(ph));
	ph[sizeof(ph) - 1] = 0;
	rq_snapshot(getpid(), &rq0);
	for (int i = 0; i < 3; i++) {
		sleeping += thread_sleeping(getpid(), g_forker_tid);
		dstate += count_tasks_state(getpid(), 'D');
		usleep(400000);
	}
	int starved = rq_starved_permille(getpid(), &rq0);
	/* phase is "<role>:<step>", role = as-parent (before the fork) / parent (after it) */
	snprintf(buf, len, "hang:fork:%s", ph);
	fprintf(stderr, "forkh: no progress in phase %s; forking thread blocked at %d/3 samples; max CPU starvation %d per mille; %d tasks in uninterruptible sleep\n", ph,
		sleeping, starved, dstate);
	return sleeping == 3 && starved < 250 && !dstate;
}

static long g_scenarios;

#if VP_IS_BP
/* A second thread of the root process forks on its own, bracketed by the bp handlers only, with a signal
 * mask different from the main forker's.  urcu_bp_before_fork() serialises concurrent forks on rcu_gp_lock:
 * whichever thread is inside its fork window, each must get ITS mask back in the parent and in the child.
 * The child checks its mask and exits at once (it never touches call_rcu or the hash table). */
static int g_comp_stop;
static uint64_t g_comp_forks, g_comp_overlaps;
static void *bp_competitor_main(void *arg)
{
	(void) arg;
	vp_pin(3);
	struct vp_rng r;
	vp_rng_init(&r, vp_opt.seed, 0xc03b, 0);
	while (!VP_LOAD(g_comp_stop) && !G.nviol) {
		sigset_t m, cur, old;
		sigemptyset(&m);
		/* a mask the main forker never uses: SIGRTMIN+5.. */
		sigaddset(&m, SIGRTMIN + 5 + (int) vp_rand_n(&r, 6));
		sigaddset(&m, SIGURG);
		pthread_sigmask(SIG_SETMASK, &m, &old);
		/* prefer the moments when the main forker is inside its own window */
		for (int k = 0; k < 400 && !VP_LOAD(g_main_in_fork_window) && !VP_LOAD(g_comp_stop); k++)
			usleep(50);
		int overlap = VP_LOAD(g_main_in_fork_window);
		urcu_bp_before_fork();
		pid_t pid = fork();
		if (pid == 0) {
			urcu_bp_after_fork_child();
			pthread_sigmask(SIG_SETMASK, NULL, &cur);
			_exit(mask_equal(&cur, &m) ? 0 : 77);
		}
		urcu_bp_after_fork_parent();
		pthread_sigmask(SIG_SETMASK, NULL, &cur);
		if (!mask_equal(&cur, &m))
			vp_violation("c16:parent:signal-mask-not-restored",
				     "bp: a second thread forking concurrently with the main forker (urcu_bp_before_fork / fork / urcu_bp_after_fork_parent) got a different signal mask back than the one it had before urcu_bp_before_fork()%s",
				     overlap ? " (the main forker was inside its fork window when this thread entered before_fork)" : "");
		if (pid > 0) {
			int st = 0;
			while (waitpid(pid, &st, 0) < 0 && errno == EINTR)
				;
			if (WIFEXITED(st) && WEXITSTATUS(st) == 77)
				vp_violation("c16:child:signal-mask-not-restored",
					     "bp: child of a second thread forking concurrently with the main forker: signal mask after urcu_bp_after_fork_child() differs from the forking thread's mask before urcu_bp_before_fork()");
			g_comp_forks++;
			g_comp_overlaps += (uint64_t) overlap;
		}
		pthread_sigmask(SIG_SETMASK, &old, NULL);
		usleep(300 + vp_rand_n(&r, 3000));
	}
	return NULL;
}
#endif

static void *forker_main(void *arg)
{
	(void) arg;
	vp_pin(0);
	g_forker_tid = (pid_t) syscall(SYS_gettid);
	struct vp_rng r;
	vp_rng_init(&r, vp_opt.seed, 0xdee9, 0);
	for (long i = 0; i < g_scenarios && !G.nviol; i++) {
		uint32_t x = vp_rand_n(&r, 100);
		g_cur_maxdepth = x < 62 ? 1 : (x < 90 ? 2 : 3);
		if (g_cur_maxdepth > g_maxdepth_cfg)
			g_cur_maxdepth = g_maxdepth_cfg;
		uint64_t t0 = vp_now_ns();
		run_scenario(0, (uint64_t) i + 1);
		if (getenv("FORKH_DEBUG") && vp_now_ns() - t0 > 1500000000ULL)
			fprintf(stderr, "forkh: scenario %ld took %.1f s\n", i + 1, (vp_now_ns() - t0) / 1e9);
	}
	if (!VP_IS_BP && g_reg) {
		rcu_unregister_thread();
		g_reg = 0;
	}
	return NULL;
}

int main(int argc, char **argv)
{
	vp_init(argc, argv, "forkh_" VP_FLAVOR_NAME);
	g_scenarios = vp_arg_long("scenarios", 60);
	g_maxdepth_cfg = (int) vp_arg_long("maxdepth", 3);
	g_hookp = vp_arg_double("hook-prob", 0.25);
	g_multi = (int) vp_arg_long("multi", 0);
	g_settle_polls = vp_arg_long("settle-polls", 24000);
	vp_tun_bp_sleep_ms = (int) vp_arg_long("tun-bp-sleep", 10);
	G.stall_ns = (uint64_t) vp_arg_long("stall-ms", 21000) * 1000000ULL;
	int forker_thread = (int) vp_arg_long("forker-thread", -1);
	if (forker_thread < 0)
		forker_thread = (int) (vp_opt.seed & 1);
#ifndef HAVE_MULTI
	if (g_multi) {
		fprintf(stderr, "--multi needs the memb binary\n");
		return 2;
	}
#endif
	g_trace = getenv("FORKH_TRACE") != NULL;
	vp_user_hook = user_hook;
	rq_exclude = app_is_tid;
	snprintf(g_root_shp.phase, sizeof(g_root_shp.phase), "init");
	/* twice the child-observation interval: a stuck child is always decided by wait_child() first */
	vp_watchdog_start(2 * (uint64_t) vp_arg_long("stall-ms", 21000), confirm_stuck);
#if VP_IS_BP
	pthread_t comp_t;
	int have_comp = (int) vp_arg_long("bp-competitor", 1);
	if (have_comp && pthread_create(&comp_t, NULL, bp_competitor_main, NULL))
		have_comp = 0;
#endif
	if (forker_thread) {
		pthread_t t;
		if (pthread_create(&t, NULL, forker_main, NULL))
			return 2;
		pthread_join(t, NULL);
	} else
		forker_main(NULL);
#if VP_IS_BP
	if (have_comp) {
		VP_STORE(g_comp_stop, 1);
		pthread_join(comp_t, NULL);
		vp_counter_add("bp_concurrent_forks_by_second_thread", g_comp_forks);
		vp_counter_add("bp_concurrent_forks_entered_while_main_in_fork_window", g_comp_overlaps);
	}
#endif
	vp_watchdog_stop();
	vp_counter_add("wq_pause_with_work_queued", __atomic_load_n(&g_wq_pause_with_work, __ATOMIC_RELAXED));
	vp_counter_add("helper_pause_seen", __atomic_load_n(&g_helper_pause_seen, __ATOMIC_RELAXED));
	vp_counter_add("forker_is_thread", (uint64_t) forker_thread);
	vp_counter_add("stale_resize_initiated_flag", __atomic_load_n(&g_stale_flag_seen, __ATOMIC_RELAXED));
	vp_note("TSan variant not built for this harness: no runtime threads in the child of a multi-threaded fork");
	int rc = vp_finish();
	if (rc)
		_exit(rc);	/* library state may be wedged: its destructors (flush of the resize work queue, helper teardown) could block forever */
	return rc;
}
