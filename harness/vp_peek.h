/* vp_peek.h - read-only accessors appended to each flavor TU (lib_flavor.c) */
#ifndef VP_PEEK_H
#define VP_PEEK_H
#include <stdint.h>
#include <stddef.h>

struct vp_crdp_info {
	void *crdp;
	int32_t futex;
	unsigned long qlen, flags;
	int empty, is_default;
};

#define VP_BP_MAX_CHUNKS 16
struct vp_bp_arena_info {
	int nchunks;
	size_t chunk_cap[VP_BP_MAX_CHUNKS], chunk_used[VP_BP_MAX_CHUNKS];
	void *chunk_addr[VP_BP_MAX_CHUNKS];
	size_t total_cap, total_used;
	int used_mismatch;		/* chunks whose `used` != number of alloc flags */
	int alloc_without_tid;
	int free_slot_active;		/* free slot with non-zero nesting */
	int registry_len;
};

#define VP_PEEK_DECL(fl) \
	int vp_peek_##fl##_registry_count(void); \
	int vp_peek_##fl##_registry_count_nolock(void); \
	int32_t vp_peek_##fl##_gp_futex(void); \
	int vp_peek_##fl##_gp_waiters_nonempty(void); \
	int32_t vp_peek_##fl##_defer_futex(void); \
	unsigned long vp_peek_##fl##_defer_pending_nolock(void); \
	unsigned long vp_peek_##fl##_defer_self_head(void); \
	unsigned long vp_peek_##fl##_defer_self_tail(void); \
	int vp_peek_##fl##_crdp_count(void); \
	int vp_peek_##fl##_crdp_snapshot(struct vp_crdp_info *out, int max); \
	void vp_peek_##fl##_poll_state(unsigned long *cur, unsigned long *target, int *active); \
	int vp_peek_##fl##_poll_preset(unsigned long id);

VP_PEEK_DECL(memb)
VP_PEEK_DECL(mb)
VP_PEEK_DECL(qsbr)
VP_PEEK_DECL(bp)
int vp_peek_bp_arena_snapshot(struct vp_bp_arena_info *out);

#endif
